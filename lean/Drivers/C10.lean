/-
C10 driver: one case line → the model's canonical output line (see go/props/c10).
All field values travel as the RAW limb content (Montgomery form), 64 hex digits each, so the
comparison with the real code is exact on the machine representation.

  f <add|sub|neg|mul> <alias> <a> <b>   interpreted gfp.s on both gfpMul paths; must equal the Nat model
  fx <enc|dec|inv|new> <a|k>            montEncode / montDecode / Invert / newGFp
  t2|t6|t12 <op> <a> [<b>|<k>]          tower operations
  g1|g2 <add|dbl|mul|aff|neg|onc> …     Jacobian point operations (receiver state included)
  miller|pair <Q> <P>, finexp <f>, check <P;Q|…>
  k1|k2|kt <op> …                       kyber-level methods of point.go on raw operands (go/props/c10/kyber.go)

Round 4: every tower / curve / pairing / kyber-level / gfp.go-helper operation below is computed by the
TRANSLATED function (`Dos.Gen.Bn256Code.*`, regenerated from the Go source by go/extract/bn256code on every
run) at the Montgomery model `GFp` with the regenerated constants, AND by the hand model it is proved equal to
(Props/C10Code, Props/C10Kyber): `chk` prints the common value, or `TIE-BROKEN gen=… model=…` when a changed
Go function made the translation differ from the model on this very operand (the concrete counterexample to
the broken tie theorem; the implementation then disagrees with the line as well). Only the byte-level
marshalling of the `api` cases (property C11's codec) and the assembly interpreter have no translated side.
-/
import DosModel.Model.Util
import DosModel.Model.AsmBn256
import DosModel.Model.Bn256CPairing
import DosModel.Model.Bn256CheckSlices
import DosModel.Gen.Bn256Asm
import DosModel.Gen.Bn256Code

open Dos Dos.Bn256 Dos.Mont

namespace C10Drv
open Dos.Gen

def order : Nat := Gen.Bn256.Order
def cs : FrobConsts GFp := frobConsts

/-- the translated function's value `g` and the hand model's value `m` on the same operand -/
def chk {α : Type} [DecidableEq α] (hex : α → String) (g m : α) : String :=
  if g = m then hex g else "TIE-BROKEN gen=" ++ hex g ++ " model=" ++ hex m

def hexNat (s : String) : Option Nat := (ofHex s).map beNat
def natHex (n : Nat) : String := toHex (natBE 32 n)

def gfpOf (s : String) : Option GFp := (hexNat s).map GFp.mk
def gfpHex (a : GFp) : String := natHex a.v

def splitC (s : String) : List String := s.splitOn ","

def fp2Of : List String → Option F2
  | [a, b] => do pure ⟨← gfpOf a, ← gfpOf b⟩
  | _ => none
def fp6Of : List String → Option F6
  | [a, b, c, d, e, f] => do pure ⟨← fp2Of [a, b], ← fp2Of [c, d], ← fp2Of [e, f]⟩
  | _ => none
def fp12Of (l : List String) : Option F12 :=
  if l.length = 12 then do pure ⟨← fp6Of (l.take 6), ← fp6Of (l.drop 6)⟩ else none

def fp2Hex (a : F2) : String := gfpHex a.x ++ "," ++ gfpHex a.y
def fp6Hex (a : F6) : String := fp2Hex a.x ++ "," ++ fp2Hex a.y ++ "," ++ fp2Hex a.z
def fp12Hex (a : F12) : String := fp6Hex a.x ++ "," ++ fp6Hex a.y

def g1Of (s : String) : Option G1J := match splitC s with
  | [a, b, c, d] => do pure ⟨← gfpOf a, ← gfpOf b, ← gfpOf c, ← gfpOf d⟩
  | _ => none
def g2Of (s : String) : Option G2J := match splitC s with
  | [a, b, c, d, e, f, g, h] => do pure ⟨← fp2Of [a, b], ← fp2Of [c, d], ← fp2Of [e, f], ← fp2Of [g, h]⟩
  | _ => none
def g1Hex (p : G1J) : String := gfpHex p.x ++ "," ++ gfpHex p.y ++ "," ++ gfpHex p.z ++ "," ++ gfpHex p.t
def g2Hex (p : G2J) : String := fp2Hex p.x ++ "," ++ fp2Hex p.y ++ "," ++ fp2Hex p.z ++ "," ++ fp2Hex p.t

/-! ### interpreted assembly -/
open Dos.Asm

def aliasOf (s : String) : Option (Blk → Blk) :=
  match s with
  | "n" => some id
  | "ca" => some fun | .c => .a | k => k
  | "cb" => some fun | .c => .b | k => k
  | "ab" => some fun | .b => .a | k => k
  | "cab" => some fun _ => .a
  | _ => none

def runAsm := runFn

def fieldCase (op alias a b : String) : String :=
  match aliasOf alias, hexNat a, hexNat b with
  | some al, some av, some bv0 =>
      -- with a and b aliased the callee sees a in both
      let bv := if al .b = al .a then av else bv0
      let (fn, model) : Func × Nat := match op with
        | "add" => (Gen.Bn256Asm.gfpAdd, addM p av bv)
        | "sub" => (Gen.Bn256Asm.gfpSub, subM p av bv)
        | "neg" => (Gen.Bn256Asm.gfpNeg, negM p av)
        | _ => (Gen.Bn256Asm.gfpMul, mulM p np av bv)
      match runAsm fn false al av bv, runAsm fn true al av bv with
      | .ok r0, .ok r1 =>
          if r0 = model ∧ r1 = model then natHex r0 ++ " " ++ natHex r1
          else "MODEL-MISMATCH interp=" ++ natHex r0 ++ "," ++ natHex r1 ++ " model=" ++ natHex model
      | .error m, _ => "INTERP-ERROR " ++ m
      | _, .error m => "INTERP-ERROR " ++ m
  | _, _, _ => "bad-case"

def bad : String := "bad-case"

def orBad (o : Option String) : String := o.getD bad

def t2Case (op : String) (args : List String) : String := orBad do
  let a ← fp2Of (splitC (← args[0]?))
  match op with
  | "sq" => pure (chk fp2Hex (Bn256Code.gfP2_square a) (a.square))
  | "inv" => pure (chk fp2Hex (Bn256Code.gfP2_invert a) (a.invert))
  | "xi" => pure (chk fp2Hex (Bn256Code.gfP2_mulXi a) (a.mulXi))
  | "conj" => pure (chk fp2Hex (Bn256Code.gfP2_conjugate a) (a.conjugate))
  | "neg" => pure (chk fp2Hex (Bn256Code.gfP2_neg a) (a.neg))
  | "muls" => do let b ← gfpOf (← args[1]?); pure (chk fp2Hex (Bn256Code.gfP2_mulScalar a b) (a.mulScalar b))
  | _ =>
    let b ← fp2Of (splitC (← args[1]?))
    match op with
    | "mul" => pure (chk fp2Hex (Bn256Code.gfP2_mul a b) (a.mul b))
    | "add" => pure (chk fp2Hex (Bn256Code.gfP2_add a b) (a.add b))
    | "sub" => pure (chk fp2Hex (Bn256Code.gfP2_sub a b) (a.sub b))
    | _ => none

def t6Case (op : String) (args : List String) : String := orBad do
  let a ← fp6Of (splitC (← args[0]?))
  match op with
  | "sq" => pure (chk fp6Hex (Bn256Code.gfP6_square a) (a.square))
  | "inv" => pure (chk fp6Hex (Bn256Code.gfP6_invert a) (a.invert))
  | "tau" => pure (chk fp6Hex (Bn256Code.gfP6_mulTau a) (a.mulTau))
  | "neg" => pure (chk fp6Hex (Bn256Code.gfP6_neg a) (a.neg))
  | "frob" => pure (chk fp6Hex (Bn256Code.gfP6_frobenius cs a) (Fp6.frobenius a))
  | "frob2" => pure (chk fp6Hex (Bn256Code.gfP6_frobeniusP2 cs a) (Fp6.frobeniusP2 a))
  | "frob4" => pure (chk fp6Hex (Bn256Code.gfP6_frobeniusP4 cs a) (Fp6.frobeniusP4 a))
  | "muls" => do let b ← fp2Of (splitC (← args[1]?)); pure (chk fp6Hex (Bn256Code.gfP6_mulScalar a b) (a.mulScalar b))
  | "mulg" => do let b ← gfpOf (← args[1]?); pure (chk fp6Hex (Bn256Code.gfP6_mulGFP a b) (a.mulGFP b))
  | _ =>
    let b ← fp6Of (splitC (← args[1]?))
    match op with
    | "mul" => pure (chk fp6Hex (Bn256Code.gfP6_mul a b) (a.mul b))
    | "add" => pure (chk fp6Hex (Bn256Code.gfP6_add a b) (a.add b))
    | "sub" => pure (chk fp6Hex (Bn256Code.gfP6_sub a b) (a.sub b))
    | _ => none

def t12Case (op : String) (args : List String) : String := orBad do
  let a ← fp12Of (splitC (← args[0]?))
  match op with
  | "sq" => pure (chk fp12Hex (Bn256Code.gfP12_square a) (a.square))
  | "inv" => pure (chk fp12Hex (Bn256Code.gfP12_invert a) (a.invert))
  | "conj" => pure (chk fp12Hex (Bn256Code.gfP12_conjugate a) (a.conjugate))
  | "neg" => pure (chk fp12Hex (Bn256Code.gfP12_neg a) (a.neg))
  | "frob" => pure (chk fp12Hex (Bn256Code.gfP12_frobenius cs a) (Fp12.frobenius a))
  | "frob2" => pure (chk fp12Hex (Bn256Code.gfP12_frobeniusP2 cs a) (Fp12.frobeniusP2 a))
  | "frob4" => pure (chk fp12Hex (Bn256Code.gfP12_frobeniusP4 cs a) (Fp12.frobeniusP4 a))
  | "exp" => do let k ← (← args[1]?).toNat?; pure (chk fp12Hex (Bn256Code.gfP12_exp a k) (a.exp k))
  | "finexp" => pure (chk fp12Hex (Bn256Code.finalExponentiation cs uParam a) (finalExponentiation a))
  | _ =>
    let b ← fp12Of (splitC (← args[1]?))
    match op with
    | "mul" => pure (chk fp12Hex (Bn256Code.gfP12_mul a b) (a.mul b))
    | "add" => pure (chk fp12Hex (Bn256Code.gfP12_add a b) (a.add b))
    | "sub" => pure (chk fp12Hex (Bn256Code.gfP12_sub a b) (a.sub b))
    | _ => none

/-- receiver / operand aliasing of a point operation: the aliased operand is the SAME object -/
def pick3 {α : Type} (alias : String) (c a b : α) : Option (α × α × α) :=
  match alias with
  | "n" => some (c, a, b)
  | "ca" => some (a, a, b)
  | "cb" => some (b, a, b)
  | "ab" => some (c, a, a)
  | "cab" => some (a, a, a)
  | _ => none

def g1Case (op : String) (args : List String) : String := orBad do
  match op with
  | "add" =>
      let (c, a, b) ← pick3 (← args[0]?) (← g1Of (← args[1]?)) (← g1Of (← args[2]?)) (← g1Of (← args[3]?))
      pure (chk g1Hex (Bn256Code.curvePoint_add c a b) (Jac.add c a b))
  | "dbl" =>
      let (c, a, _) ← pick3 (← args[0]?) (← g1Of (← args[1]?)) (← g1Of (← args[2]?)) (← g1Of (← args[2]?))
      pure (chk g1Hex (Bn256Code.curvePoint_double c a) (Jac.double c a))
  | "mul" => do
      let a ← g1Of (← args[0]?)
      let k ← (← args[1]?).toNat?
      pure (chk g1Hex (Bn256Code.curvePoint_mul a k) (Jac.curveMul a k))
  | "aff" => do let a ← g1Of (← args[0]?); pure (chk g1Hex (Bn256Code.curvePoint_makeAffine a) a.makeAffine)
  | "neg" => do let a ← g1Of (← args[0]?); pure (chk g1Hex (Bn256Code.curvePoint_neg a) (curveNeg a))
  | "onc" => do
      let a ← g1Of (← args[0]?)
      pure (chk toString (Bn256Code.curvePoint_isOnCurve curveB a).2 (curveIsOnCurve a))
  | _ => none

def g2Case (op : String) (args : List String) : String := orBad do
  match op with
  | "add" =>
      let (c, a, b) ← pick3 (← args[0]?) (← g2Of (← args[1]?)) (← g2Of (← args[2]?)) (← g2Of (← args[3]?))
      pure (chk g2Hex (Bn256Code.twistPoint_add c a b) (Jac.add c a b))
  | "dbl" =>
      let (c, a, _) ← pick3 (← args[0]?) (← g2Of (← args[1]?)) (← g2Of (← args[2]?)) (← g2Of (← args[2]?))
      pure (chk g2Hex (Bn256Code.twistPoint_double c a) (Jac.double c a))
  | "mul" => do
      let a ← g2Of (← args[0]?)
      let k ← (← args[1]?).toNat?
      pure (chk g2Hex (Bn256Code.twistPoint_mul a k) (Jac.twistMul a k))
  | "aff" => do let a ← g2Of (← args[0]?); pure (chk g2Hex (Bn256Code.twistPoint_makeAffine a) a.makeAffine)
  | "neg" => do let a ← g2Of (← args[0]?); pure (chk g2Hex (Bn256Code.twistPoint_neg a) (twistNeg a))
  | "onc" => do
      let a ← g2Of (← args[0]?)
      pure (chk toString (Bn256Code.twistPoint_isOnCurve order twistB a).2 (twistIsOnCurve a))
  | _ => none

def pairsOf (s : String) : Option (List (G1J × G2J)) :=
  if s == "-" then some [] else
  (s.splitOn "|").mapM fun e => match e.splitOn ";" with
    | [p, q] => do pure (← g1Of p, ← g2Of q)
    | _ => none


/-! ### API-level programs (exported kyber interface of the suite, point.go) -/

inductive RegVal
  | g1 (p : G1J)
  | g2 (q : G2J)
  | gt (e : F12)
  | b (v : Bool)

abbrev Regs := List (String × RegVal)

def Regs.get? (rs : Regs) (n : String) : Option RegVal := (rs.find? (·.1 == n)).map (·.2)
def Regs.put (rs : Regs) (n : String) (v : RegVal) : Regs :=
  if rs.any (·.1 == n) then rs.map (fun e => if e.1 == n then (n, v) else e) else rs ++ [(n, v)]

def dec (a : GFp) : String := natHex (GFp.montDecode a).v
/-- montEncode(Unmarshal(Marshal(montDecode a))) -/
def reenc (a : GFp) : GFp := GFp.montEncode (GFp.montDecode a)
def reenc2 (a : F2) : F2 := ⟨reenc a.x, reenc a.y⟩

/-- pointG1.MarshalBinary (works on a copy) -/
def g1Marshal (p : G1J) : String :=
  let a := p.makeAffine
  if a.isInfinity then natHex 0 ++ natHex 0 else dec a.x ++ dec a.y
/-- pointG1.Clone = UnmarshalBinary(MarshalBinary) into a fresh point -/
def g1Clone (p : G1J) : G1J :=
  let a := p.makeAffine
  let (x, y) : GFp × GFp := if a.isInfinity then (GFp.montEncode ⟨0⟩, GFp.montEncode ⟨0⟩) else (reenc a.x, reenc a.y)
  if x = 0 ∧ y = 0 then ⟨x, 1, 0, 0⟩ else ⟨x, y, 1, 1⟩

/-- pointG2.MarshalBinary normalises the point IN PLACE, then encodes -/
def g2Marshal (q : G2J) : String :=
  let a := q.makeAffine
  if a.isInfinity then "00" else "01" ++ dec a.x.x ++ dec a.x.y ++ dec a.y.x ++ dec a.y.y
def g2Clone (q : G2J) : G2J :=
  let a := q.makeAffine
  if a.isInfinity then Jac.infinity
  else
    let x := reenc2 a.x
    let y := reenc2 a.y
    if x = 0 ∧ y = 0 then ⟨x, 1, 0, 0⟩ else ⟨x, y, 1, 1⟩

def f12Coords (e : F12) : List GFp :=
  [e.x.x.x, e.x.x.y, e.x.y.x, e.x.y.y, e.x.z.x, e.x.z.y, e.y.x.x, e.y.x.y, e.y.y.x, e.y.y.y, e.y.z.x, e.y.z.y]
def gtMarshal (e : F12) : String := String.join ((f12Coords e).map dec)
def gtClone (e : F12) : F12 :=
  ⟨⟨reenc2 e.x.x, reenc2 e.x.y, reenc2 e.x.z⟩, ⟨reenc2 e.y.x, reenc2 e.y.y, reenc2 e.y.z⟩⟩

/-- the big.Int `V` of a mod.Int scalar set to the integer k (kyber/group/mod: V = k mod Order, 0 ≤ V < Order) -/
def scalarV (k : Int) : Nat := (k % (order : Int)).toNat

/-- PairingCheck through the translated kyber-level function (`none`: Go panics with index out of range) -/
def checkStr (ps : List (G1J × G2J)) : String :=
  chk (fun (o : Option Bool) => match o with
    | some v => toString v
    | none => "panic")
    (Bn256Code.pointGT_pairingCheck cs uParam (ps.map (·.1)) (ps.map (·.2))) (some (pairingCheck ps))

/-- an API step on which the translated function and the hand model differ adds the register `zTIE-BROKEN`
(the implementation has no such register: the case is reported) -/
def tieMark (rs : Regs) (same : Bool) : Regs := if same then rs else rs.put "zTIE-BROKEN" (.b false)

def apiOp (rs : Regs) (dst name : String) (args : List String) : Option Regs := do
  let kind := dst.front
  if kind == 'b' then
    -- chk:<p>,<q>,<p>,<q>,…
    let rec pairs : List String → Option (List (G1J × G2J))
      | [] => some []
      | p :: q :: rest => do
          match ← rs.get? p, ← rs.get? q with
          | .g1 a, .g2 b => pure ((a, b) :: (← pairs rest))
          | _, _ => none
      | _ => none
    let ps ← pairs args
    let vg := Bn256Code.pointGT_pairingCheck cs uParam (ps.map (·.1)) (ps.map (·.2))
    let vm := pairingCheck ps
    return (tieMark rs (vg = some vm)).put dst (.b vm)
  if kind == 'p' then
    let recv : G1J := match rs.get? dst with
      | some (.g1 p) => p
      | _ => Jac.zeroValue
    let g (n : String) : Option G1J := match rs.get? n with
      | some (.g1 p) => some p
      | _ => none
    -- (translated function, hand model) on the same operands
    let (vg, v) ← (match name with
      | "base" => some (Bn256Code.pointG1_base curveGen, curveGen)
      | "null" => some (Bn256Code.pointG1_null, Jac.infinity)
      | "mul" => do
          let k := scalarV (← (← args[0]?).toInt?); let q ← g (← args[1]?)
          pure (Bn256Code.pointG1_mul k q, Jac.curveMul q k)
      | "mulg" => do
          let k := scalarV (← (← args[0]?).toInt?)
          pure (Bn256Code.pointG1_mul_nil_q curveGen k, Jac.curveMul curveGen k)
      | "add" => do
          let a ← g (← args[0]?); let b ← g (← args[1]?)
          pure (Bn256Code.pointG1_add recv a b, Jac.add recv a b)
      | "sub" => do
          let a ← g (← args[0]?); let b ← g (← args[1]?)
          pure (Bn256Code.pointG1_sub recv a b, Jac.add recv a (curveNeg b))
      | "neg" => do let a ← g (← args[0]?); pure (Bn256Code.pointG1_neg a, curveNeg a)
      | "set" => do let a ← g (← args[0]?); pure (Bn256Code.pointG1_set a, a)
      | "clone" => do let a ← g (← args[0]?); pure (g1Clone a, g1Clone a)
      | _ => none)
    return (tieMark rs (vg = v)).put dst (.g1 v)
  if kind == 'q' then
    let recv : G2J := match rs.get? dst with
      | some (.g2 p) => p
      | _ => Jac.zeroValue
    let g (n : String) : Option G2J := match rs.get? n with
      | some (.g2 p) => some p
      | _ => none
    match name with
    | "clone" =>
        -- MarshalBinary normalises the SOURCE in place
        let src ← args[0]?
        let a ← g src
        let rs := rs.put src (.g2 a.makeAffine)
        return rs.put dst (.g2 (g2Clone a))
    | _ =>
      let (vg, v) ← (match name with
        | "base" => some (Bn256Code.pointG2_base twistGen, twistGen)
        | "null" => some (Bn256Code.pointG2_null, Jac.infinity)
        | "mul" => do
            let k := scalarV (← (← args[0]?).toInt?); let q ← g (← args[1]?)
            pure (Bn256Code.pointG2_mul k q, Jac.twistMul q k)
        | "mulg" => do
            let k := scalarV (← (← args[0]?).toInt?)
            pure (Bn256Code.pointG2_mul_nil_q twistGen k, Jac.twistMul twistGen k)
        | "add" => do
            let a ← g (← args[0]?); let b ← g (← args[1]?)
            pure (Bn256Code.pointG2_add recv a b, Jac.add recv a b)
        | "sub" => do
            let a ← g (← args[0]?); let b ← g (← args[1]?)
            pure (Bn256Code.pointG2_sub recv a b, Jac.add recv a (twistNeg b))
        | "neg" => do let a ← g (← args[0]?); pure (Bn256Code.pointG2_neg a, twistNeg a)
        | "set" => do let a ← g (← args[0]?); pure (Bn256Code.pointG2_set a, a)
        | _ => none)
      return (tieMark rs (vg = v)).put dst (.g2 v)
  if kind == 'e' then
    let g (n : String) : Option F12 := match rs.get? n with
      | some (.gt p) => some p
      | _ => none
    let (vg, v) ← (match name with
      | "base" => some (Bn256Code.pointGT_base gfP12Gen, gfP12Gen)
      | "null" => some (Bn256Code.pointGT_null gfP12Inf, gfP12Inf)
      | "mul" => do
          let k := scalarV (← (← args[0]?).toInt?); let q ← g (← args[1]?)
          pure (Bn256Code.pointGT_mul k q, q.exp k)
      | "mulg" => do
          let k := scalarV (← (← args[0]?).toInt?)
          pure (Bn256Code.pointGT_mul_nil_q gfP12Gen k, gfP12Gen.exp k)
      | "add" => do
          let a ← g (← args[0]?); let b ← g (← args[1]?)
          pure (Bn256Code.pointGT_add a b, a.mul b)
      | "sub" => do
          let a ← g (← args[0]?); let b ← g (← args[1]?)
          pure (Bn256Code.pointGT_sub a b, a.mul b.conjugate)
      | "neg" => do let a ← g (← args[0]?); pure (Bn256Code.pointGT_neg a, a.conjugate)
      | "set" => do let a ← g (← args[0]?); pure (Bn256Code.pointGT_set a, a)
      | "clone" => do let a ← g (← args[0]?); pure (gtClone a, gtClone a)
      | "pair" => do
          match ← rs.get? (← args[0]?), ← rs.get? (← args[1]?) with
          | .g1 a, .g2 b => pure (Bn256Code.pointGT_pair cs uParam a b, optimalAte b a)
          | _, _ => none
      | _ => none)
    return (tieMark rs (vg = v)).put dst (.gt v)
  none

def apiCase (prog : String) : String := orBad do
  let rs ← (prog.splitOn ";").foldlM (fun (rs : Regs) op => do
    match op.splitOn "=" with
    | [dst, rhs] =>
        match rhs.splitOn ":" with
        | [name] => apiOp rs dst name []
        | [name, args] => apiOp rs dst name (args.splitOn ",")
        | _ => none
    | _ => none) ([] : Regs)
  let names := (rs.map (·.1)).toArray.qsort (· < ·) |>.toList
  let outs ← names.mapM fun n => do
    match ← rs.get? n with
    | .g1 p => pure (n ++ "=" ++ g1Marshal p)
    | .g2 q => pure (n ++ "=" ++ g2Marshal q)
    | .gt e => pure (n ++ "=" ++ gtMarshal e)
    | .b v => pure (n ++ "=" ++ toString v)
  pure (" ".intercalate outs)

/-! ### kyber-level methods on raw operands: the translated point.go -/

/-- run a kyber-level binary method `recv.op(a, b)` under an aliasing pattern; the observation is the content
of the three objects after the call (the translation writes only the receiver) -/
def kyBin {α : Type} [DecidableEq α] (hex : α → String) (f fm : α → α → α → α) (alias : String) (c a b : α) :
    Option String := do
  let (c', a', b') ← pick3 alias c a b
  let r := chk hex (f c' a' b') (fm c' a' b')
  match alias with
  | "n" => pure (r ++ "|" ++ hex a' ++ "|" ++ hex b')
  | "ca" => pure (r ++ "|" ++ r ++ "|" ++ hex b')
  | "cb" => pure (r ++ "|" ++ hex a' ++ "|" ++ r)
  | "ab" => pure (r ++ "|" ++ hex a' ++ "|" ++ hex a')
  | "cab" => pure (r ++ "|" ++ r ++ "|" ++ r)
  | _ => none

def kyUn {α : Type} [DecidableEq α] (hex : α → String) (f fm : α → α → α) (alias : String) (c a : α) : Option String :=
  match alias with
  | "n" => some (chk hex (f c a) (fm c a) ++ "|" ++ hex a)
  | "ca" => some (chk hex (f a a) (fm a a) ++ "|" ++ chk hex (f a a) (fm a a))
  | _ => none

def k1Case (op : String) (args : List String) : String := orBad do
  match op with
  | "add" => kyBin g1Hex Bn256Code.pointG1_add Jac.add (← args[0]?) (← g1Of (← args[1]?)) (← g1Of (← args[2]?)) (← g1Of (← args[3]?))
  | "sub" => kyBin g1Hex Bn256Code.pointG1_sub (fun c a b => Jac.add c a (curveNeg b)) (← args[0]?) (← g1Of (← args[1]?)) (← g1Of (← args[2]?)) (← g1Of (← args[3]?))
  | "neg" => kyUn g1Hex (fun _ a => Bn256Code.pointG1_neg a) (fun _ a => curveNeg a) (← args[0]?) (← g1Of (← args[1]?)) (← g1Of (← args[2]?))
  | "set" => kyUn g1Hex (fun _ a => Bn256Code.pointG1_set a) (fun _ a => a) (← args[0]?) (← g1Of (← args[1]?)) (← g1Of (← args[2]?))
  | "mul" => do
      let k ← (← args[3]?).toInt?
      kyUn g1Hex (fun _ a => Bn256Code.pointG1_mul (scalarV k) a) (fun _ a => Jac.curveMul a (scalarV k)) (← args[0]?) (← g1Of (← args[1]?)) (← g1Of (← args[2]?))
  | "mulu" => do  -- a mod.Int over a WIDER modulus: V = k, not reduced modulo the group order
      let k ← (← args[3]?).toNat?
      kyUn g1Hex (fun _ a => Bn256Code.pointG1_mul k a) (fun _ a => Jac.curveMul a k) (← args[0]?) (← g1Of (← args[1]?)) (← g1Of (← args[2]?))
  | "mulnil" => do
      let _ ← g1Of (← args[0]?)
      let k ← (← args[1]?).toInt?
      pure (chk g1Hex (Bn256Code.pointG1_mul_nil_q curveGen (scalarV k)) (Jac.curveMul curveGen (scalarV k)))
  | "null" => do let _ ← g1Of (← args[0]?); pure (chk g1Hex (Bn256Code.pointG1_null : G1J) Jac.infinity)
  | "base" => do let _ ← g1Of (← args[0]?); pure (chk g1Hex (Bn256Code.pointG1_base curveGen) curveGen)
  | _ => none

def k2Case (op : String) (args : List String) : String := orBad do
  match op with
  | "add" => kyBin g2Hex Bn256Code.pointG2_add Jac.add (← args[0]?) (← g2Of (← args[1]?)) (← g2Of (← args[2]?)) (← g2Of (← args[3]?))
  | "sub" => kyBin g2Hex Bn256Code.pointG2_sub (fun c a b => Jac.add c a (twistNeg b)) (← args[0]?) (← g2Of (← args[1]?)) (← g2Of (← args[2]?)) (← g2Of (← args[3]?))
  | "neg" => kyUn g2Hex (fun _ a => Bn256Code.pointG2_neg a) (fun _ a => twistNeg a) (← args[0]?) (← g2Of (← args[1]?)) (← g2Of (← args[2]?))
  | "set" => kyUn g2Hex (fun _ a => Bn256Code.pointG2_set a) (fun _ a => a) (← args[0]?) (← g2Of (← args[1]?)) (← g2Of (← args[2]?))
  | "mul" => do
      let k ← (← args[3]?).toInt?
      kyUn g2Hex (fun _ a => Bn256Code.pointG2_mul (scalarV k) a) (fun _ a => Jac.twistMul a (scalarV k)) (← args[0]?) (← g2Of (← args[1]?)) (← g2Of (← args[2]?))
  | "mulu" => do
      let k ← (← args[3]?).toNat?
      kyUn g2Hex (fun _ a => Bn256Code.pointG2_mul k a) (fun _ a => Jac.twistMul a k) (← args[0]?) (← g2Of (← args[1]?)) (← g2Of (← args[2]?))
  | "mulnil" => do
      let _ ← g2Of (← args[0]?)
      let k ← (← args[1]?).toInt?
      pure (chk g2Hex (Bn256Code.pointG2_mul_nil_q twistGen (scalarV k)) (Jac.twistMul twistGen (scalarV k)))
  | "null" => do let _ ← g2Of (← args[0]?); pure (chk g2Hex (Bn256Code.pointG2_null : G2J) Jac.infinity)
  | "base" => do let _ ← g2Of (← args[0]?); pure (chk g2Hex (Bn256Code.pointG2_base twistGen) twistGen)
  | _ => none

def gtOf (s : String) : Option F12 := fp12Of (splitC s)

def ktCase (op : String) (args : List String) : String := orBad do
  match op with
  | "add" => kyBin fp12Hex (fun _ a b => Bn256Code.pointGT_add a b) (fun _ a b => a.mul b) (← args[0]?) (← gtOf (← args[1]?)) (← gtOf (← args[2]?)) (← gtOf (← args[3]?))
  | "sub" => kyBin fp12Hex (fun _ a b => Bn256Code.pointGT_sub a b) (fun _ a b => a.mul b.conjugate) (← args[0]?) (← gtOf (← args[1]?)) (← gtOf (← args[2]?)) (← gtOf (← args[3]?))
  | "neg" => kyUn fp12Hex (fun _ a => Bn256Code.pointGT_neg a) (fun _ a => a.conjugate) (← args[0]?) (← gtOf (← args[1]?)) (← gtOf (← args[2]?))
  | "set" => kyUn fp12Hex (fun _ a => Bn256Code.pointGT_set a) (fun _ a => a) (← args[0]?) (← gtOf (← args[1]?)) (← gtOf (← args[2]?))
  | "mul" => do
      let k ← (← args[3]?).toInt?
      kyUn fp12Hex (fun _ a => Bn256Code.pointGT_mul (scalarV k) a) (fun _ a => a.exp (scalarV k)) (← args[0]?) (← gtOf (← args[1]?)) (← gtOf (← args[2]?))
  | "mulu" => do
      let k ← (← args[3]?).toNat?
      kyUn fp12Hex (fun _ a => Bn256Code.pointGT_mul k a) (fun _ a => a.exp k) (← args[0]?) (← gtOf (← args[1]?)) (← gtOf (← args[2]?))
  | "mulnil" => do
      let _ ← gtOf (← args[0]?)
      let k ← (← args[1]?).toInt?
      pure (chk fp12Hex (Bn256Code.pointGT_mul_nil_q gfP12Gen (scalarV k)) (gfP12Gen.exp (scalarV k)))
  | "null" => do let _ ← gtOf (← args[0]?); pure (chk fp12Hex (Bn256Code.pointGT_null gfP12Inf) gfP12Inf)
  | "base" => do let _ ← gtOf (← args[0]?); pure (chk fp12Hex (Bn256Code.pointGT_base gfP12Gen) gfP12Gen)
  | _ => none

/-- tower operation under a receiver / operand aliasing pattern: the model is a function of the operand VALUES,
so aliasing only matters through "both operands are the same object" (the second operand is then the first) -/
def towerAlias (f : String → List String → String) (op alias : String) (args : List String) : String :=
  if alias == "n" || alias == "ca" || alias == "cb" then f op args
  else if alias == "ab" || alias == "cab" then
    match args with
    | [a, _] => f op [a, a]
    | _ => f op args
  else bad

def step (line : String) : String :=
  match words line with
  | ["f", op, alias, a, b] => fieldCase op alias a b
  | ["fx", "enc", a] => orBad do let a ← gfpOf a; pure (chk gfpHex (Bn256Code.montEncode GFp.r2 a) (GFp.montEncode a))
  | ["fx", "dec", a] => orBad do let a ← gfpOf a; pure (chk gfpHex (Bn256Code.montDecode a) (GFp.montDecode a))
  | ["fx", "inv", a] => orBad do let a ← gfpOf a; pure (chk gfpHex (Bn256Code.gfP_invert GFp.r3 GFp.rN1 a) (GFp.invert a))
  | ["fx", "new", k] => orBad do let k ← k.toInt?; pure (chk gfpHex (Bn256Code.newGFp GFp.r2 k) (GFp.newGFp k))
  | "t2a" :: op :: alias :: args => towerAlias t2Case op alias args
  | "t6a" :: op :: alias :: args => towerAlias t6Case op alias args
  | "t12a" :: op :: alias :: args => towerAlias t12Case op alias args
  | "t2" :: op :: args => t2Case op args
  | "t6" :: op :: args => t6Case op args
  | "t12" :: op :: args => t12Case op args
  | "g1" :: op :: args => g1Case op args
  | "g2" :: op :: args => g2Case op args
  | ["miller", q, p] => orBad do
      let p ← g1Of p; let q ← g2Of q
      pure (chk fp12Hex (Bn256Code.pointGT_miller cs p q) (miller q p))
  | ["pair", q, p] => orBad do
      let p ← g1Of p; let q ← g2Of q
      pure (chk fp12Hex (Bn256Code.pointGT_pair cs uParam p q) (optimalAte q p))
  | ["pair", q, p, _, _] => orBad do
      let p ← g1Of p; let q ← g2Of q
      pure (chk fp12Hex (Bn256Code.pointGT_pair cs uParam p q) (optimalAte q p))
  | ["api", prog] => apiCase prog
  | ["check", ps] => orBad do pure (checkStr (← pairsOf ps))
  | ["checkl", as, bs] => orBad do
      let a ← if as == "-" then some [] else (as.splitOn "|").mapM g1Of
      let b ← if bs == "-" then some [] else (bs.splitOn "|").mapM g2Of
      pure (chk (fun (o : Option Bool) => match o with
          | some v => toString v
          | none => "panic")
        (Bn256Code.pointGT_pairingCheck cs uParam a b) (pairingCheckSlices a b).toOption)
  | "k1" :: op :: args => k1Case op args
  | "k2" :: op :: args => k2Case op args
  | "kt" :: op :: args => ktCase op args
  | ["const", name] =>
      match name with
      | "curveGen" => g1Hex curveGen
      | "twistGen" => g2Hex twistGen
      | "gtGen" => fp12Hex gfP12Gen
      | "gtInf" => fp12Hex gfP12Inf
      | "curveB" => gfpHex curveB
      | "twistB" => fp2Hex twistB
      | _ => bad
  | _ => bad

end C10Drv

def main : IO Unit := Dos.lineLoop C10Drv.step

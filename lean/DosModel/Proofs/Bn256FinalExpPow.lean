/-
C10 round 5 — what the final exponentiation of optate.go COMPUTES over F_p: with Frobenius = p-power
(Proofs/Bn256FrobPowConcrete.lean),
* FrobeniusP2 = Frobenius ∘ Frobenius (three more relations between the regenerated constants, kernel-evaluated in
  Montgomery arithmetic and decoded: c̄₁c₁ = d₁, c̄₂c₂ = d₂, c̄₆c₆ = e₆), hence x ↦ x^(p²);
* Conjugate = FrobeniusP2³ (e₆·d₁ = −1, d₁³ = 1), hence x ↦ x^(p⁶); so x^(p¹²) = x and x^(p¹²−1) = 1 for x ≠ 0;
* the easy part is x^((p⁶−1)(p²+1)), the hard part (the addition chain with three exponentiations by u) raises a
  unitary t to the integer E = (p + p² + p³) − 2 + 6u²p² − 12up − 18(u + u²p) − 30u² − 36(u³ + u³p), and
  E · r = p⁴ − p² + 1 (evaluated on the regenerated u, p, Order);
hence finalExponentiation(x)^r = x^(p¹²−1) = 1: every pairing value has order dividing r.
-/
import DosModel.Proofs.Bn256FrobPowConcrete
import DosModel.Proofs.Bn256GT

namespace Dos.Bn256
open Dos.Mont

/-! ### more relations between the constants -/

set_option maxRecDepth 1000000 in
theorem frobConsts_norm_relations_mont :
    Fp2.mul (Fp2.conjugate frobConsts.xiToPMinus1Over3) frobConsts.xiToPMinus1Over3 =
      (⟨0, frobConsts.xiToPSquaredMinus1Over3⟩ : F2) ∧
    Fp2.mul (Fp2.conjugate frobConsts.xiTo2PMinus2Over3) frobConsts.xiTo2PMinus2Over3 =
      (⟨0, frobConsts.xiTo2PSquaredMinus2Over3⟩ : F2) ∧
    Fp2.mul (Fp2.conjugate frobConsts.xiToPMinus1Over6) frobConsts.xiToPMinus1Over6 =
      (⟨0, frobConsts.xiToPSquaredMinus1Over6⟩ : F2) ∧
    frobConsts.xiToPSquaredMinus1Over6 * frobConsts.xiToPSquaredMinus1Over3 = -(1 : GFp) := by
  decide +kernel

theorem dec_zeroR : decR (0 : GFpR) = 0 := decHom.map_zero

/-- the four relations in F_p² / F_p -/
theorem frobConstsFp_norm_relations :
    Fp2.conjugate frobConstsFp.xiToPMinus1Over3 * frobConstsFp.xiToPMinus1Over3 =
      Fp2.ofBase frobConstsFp.xiToPSquaredMinus1Over3 ∧
    Fp2.conjugate frobConstsFp.xiTo2PMinus2Over3 * frobConstsFp.xiTo2PMinus2Over3 =
      Fp2.ofBase frobConstsFp.xiTo2PSquaredMinus2Over3 ∧
    Fp2.conjugate frobConstsFp.xiToPMinus1Over6 * frobConstsFp.xiToPMinus1Over6 =
      Fp2.ofBase frobConstsFp.xiToPSquaredMinus1Over6 ∧
    frobConstsFp.xiToPSquaredMinus1Over6 * frobConstsFp.xiToPSquaredMinus1Over3 = -1 := by
  obtain ⟨r1, r2, r6, r4⟩ := frobConsts_norm_relations_mont
  have hv := Fp2.map_inj valHom
  have lift : ∀ (c : Fp2 GFpR) (d : GFpR), Fp2.mul (Fp2.conjugate (Fp2.map valF c)) (Fp2.map valF c) = ⟨0, d.1⟩ →
      Fp2.conjugate (Fp2.map decR c) * Fp2.map decR c = Fp2.ofBase (decR d) := by
    intro c d h
    have hR : Fp2.mul (Fp2.conjugate c) c = ⟨0, d⟩ := by
      apply hv
      rw [Fp2.map_mul' valHom, Fp2.map_conjugate valHom]
      exact h
    have := congrArg (Fp2.map decR) hR
    rw [Fp2.map_mul' decHom, Fp2.map_conjugate decHom] at this
    rw [← Fp2.mul_eq, this]
    show (⟨decR 0, decR d⟩ : Fp2 (ZMod p)) = ⟨0, decR d⟩
    rw [dec_zeroR]
  refine ⟨lift frobConstsR.xiToPMinus1Over3 frobConstsR.xiToPSquaredMinus1Over3 r1,
    lift frobConstsR.xiTo2PMinus2Over3 frobConstsR.xiTo2PSquaredMinus2Over3 r2,
    lift frobConstsR.xiToPMinus1Over6 frobConstsR.xiToPSquaredMinus1Over6 r6, ?_⟩
  have S : frobConstsR.xiToPSquaredMinus1Over6 * frobConstsR.xiToPSquaredMinus1Over3 = -(1 : GFpR) :=
    Subtype.ext r4
  have := congrArg decR S
  rw [decHom.map_mul, decHom.map_neg, decHom.map_one] at this
  exact this


/-! ### FrobeniusP2 = Frobenius², Conjugate = FrobeniusP2³ (over any field, given the relations) -/
section
variable {K : Type} [Field K]

theorem Fp2.conjugate_conjugate (a : Fp2 K) : Fp2.conjugate (Fp2.conjugate a) = a := by
  refine Fp2.ext' ?_ ?_ <;> simp [Fp2.conjugate]

/-- the norm relations of the constants -/
structure FrobConsts.Norms (cs : FrobConsts K) : Prop where
  n1 : Fp2.conjugate cs.xiToPMinus1Over3 * cs.xiToPMinus1Over3 = Fp2.ofBase cs.xiToPSquaredMinus1Over3
  n2 : Fp2.conjugate cs.xiTo2PMinus2Over3 * cs.xiTo2PMinus2Over3 = Fp2.ofBase cs.xiTo2PSquaredMinus2Over3
  n6 : Fp2.conjugate cs.xiToPMinus1Over6 * cs.xiToPMinus1Over6 = Fp2.ofBase cs.xiToPSquaredMinus1Over6
  m : cs.xiToPSquaredMinus1Over6 * cs.xiToPSquaredMinus1Over3 = -1

theorem Fp6.frobeniusG_frobeniusG (cs : FrobConsts K) (hn : cs.Norms) (a : Fp6 K) :
    Fp6.frobeniusG cs (Fp6.frobeniusG cs a) = Fp6.frobeniusP2G cs a := by
  rw [Fp6.frobeniusP2G_coords, Fp6.frobeniusG_coords, Fp6.frobeniusG_coords]
  refine Fp6.ext' ?_ ?_ ?_
  · show Fp2.conjugate (Fp2.conjugate a.x * cs.xiTo2PMinus2Over3) * cs.xiTo2PMinus2Over3 = _
    rw [Fp2.conjugate_mul, Fp2.conjugate_conjugate, mul_assoc, hn.n2]
  · show Fp2.conjugate (Fp2.conjugate a.y * cs.xiToPMinus1Over3) * cs.xiToPMinus1Over3 = _
    rw [Fp2.conjugate_mul, Fp2.conjugate_conjugate, mul_assoc, hn.n1]
  · exact Fp2.conjugate_conjugate a.z

theorem Fp6.frobeniusG_ofBase (cs : FrobConsts K) (c : Fp2 K) :
    Fp6.frobeniusG cs (Fp6.ofBase c) = Fp6.ofBase (Fp2.conjugate c) := by
  rw [Fp6.frobeniusG_coords]
  refine Fp6.ext' ?_ ?_ ?_ <;> simp only [Fp6.ofBase, Fp2.conjugate_zero, zero_mul]

theorem Fp12.frobeniusG_frobeniusG (cs : FrobConsts K) (hg : cs.Good) (hn : cs.Norms) (a : Fp12 K) :
    Fp12.frobeniusG cs (Fp12.frobeniusG cs a) = Fp12.frobeniusP2G cs a := by
  rw [Fp12.frobeniusP2G_coords, Fp12.frobeniusG_coords, Fp12.frobeniusG_coords]
  refine Fp12.ext' ?_ ?_
  · show Fp6.frobeniusG cs (Fp6.frobeniusG cs a.x * Fp6.ofBase cs.xiToPMinus1Over6) *
      Fp6.ofBase cs.xiToPMinus1Over6 = _
    rw [Fp6.frobeniusG_mul cs hg, Fp6.frobeniusG_frobeniusG cs hn, Fp6.frobeniusG_ofBase, mul_assoc,
      ← Fp6.ofBase_mul, hn.n6]
  · exact Fp6.frobeniusG_frobeniusG cs hn a.y

theorem Fp6.frobeniusP2G_cube (cs : FrobConsts K) (hg : cs.Good) (a : Fp6 K) :
    Fp6.frobeniusP2G cs (Fp6.frobeniusP2G cs (Fp6.frobeniusP2G cs a)) = a := by
  have d1 : Fp2.ofBase cs.xiToPSquaredMinus1Over3 * Fp2.ofBase cs.xiToPSquaredMinus1Over3 =
      Fp2.ofBase cs.xiTo2PSquaredMinus2Over3 := by rw [← Fp2.ofBase_mul, hg.d1]
  have d12 : Fp2.ofBase cs.xiToPSquaredMinus1Over3 * Fp2.ofBase cs.xiTo2PSquaredMinus2Over3 = 1 := by
    rw [← Fp2.ofBase_mul, hg.d12, Fp2.ofBase_one]
  simp only [Fp6.frobeniusP2G_coords]
  refine Fp6.ext' ?_ ?_ ?_
  · show a.x * _ * _ * _ = a.x
    linear_combination (-(a.x * Fp2.ofBase cs.xiTo2PSquaredMinus2Over3 * Fp2.ofBase cs.xiTo2PSquaredMinus2Over3)) * d1 +
      (a.x * (Fp2.ofBase cs.xiToPSquaredMinus1Over3 * Fp2.ofBase cs.xiTo2PSquaredMinus2Over3 + 1)) * d12
  · show a.y * _ * _ * _ = a.y
    linear_combination (a.y * Fp2.ofBase cs.xiToPSquaredMinus1Over3) * d1 + a.y * d12
  · rfl

theorem Fp6.frobeniusP2G_ofBase (cs : FrobConsts K) (c : Fp2 K) :
    Fp6.frobeniusP2G cs (Fp6.ofBase c) = Fp6.ofBase c := by
  rw [Fp6.frobeniusP2G_coords]
  refine Fp6.ext' ?_ ?_ ?_ <;> simp only [Fp6.ofBase, zero_mul]

/-- **Conjugate is the third iterate of FrobeniusP2** -/
theorem Fp12.frobeniusP2G_cube (cs : FrobConsts K) (hg : cs.Good) (hn : cs.Norms) (a : Fp12 K) :
    Fp12.frobeniusP2G cs (Fp12.frobeniusP2G cs (Fp12.frobeniusP2G cs a)) = Fp12.conjugate a := by
  have hE : Fp6.ofBase (Fp2.ofBase cs.xiToPSquaredMinus1Over6) * Fp6.ofBase (Fp2.ofBase cs.xiToPSquaredMinus1Over6) *
      Fp6.ofBase (Fp2.ofBase cs.xiToPSquaredMinus1Over6) = (-1 : Fp6 K) := by
    rw [← Fp6.ofBase_mul, ← Fp6.ofBase_mul, ← Fp2.ofBase_mul, ← Fp2.ofBase_mul, hg.e6, mul_comm, hn.m]
    rw [← Fp6.one_eq, ← Fp6.neg_eq]
    refine Fp6.ext' ?_ ?_ ?_ <;> simp only [Fp6.ofBase, Fp6.neg, Fp6.one, Fp2.neg_eq, Fp2.zero_eq, neg_zero]
    show Fp2.ofBase (-1) = Fp2.neg Fp2.one
    refine Fp2.ext' ?_ ?_ <;> simp [Fp2.ofBase, Fp2.neg, Fp2.one]
  simp only [Fp12.frobeniusP2G_coords]
  refine Fp12.ext' ?_ ?_
  · show Fp6.frobeniusP2G cs (Fp6.frobeniusP2G cs (Fp6.frobeniusP2G cs a.x * _) * _) * _ = Fp6.neg a.x
    rw [Fp6.frobeniusP2G_mul cs hg, Fp6.frobeniusP2G_mul cs hg, Fp6.frobeniusP2G_mul cs hg,
      Fp6.frobeniusP2G_ofBase, Fp6.frobeniusP2G_ofBase, Fp6.frobeniusP2G_cube cs hg, Fp6.neg_eq]
    linear_combination a.x * hE
  · exact Fp6.frobeniusP2G_cube cs hg a.y

end

/-! ### over F_p: FrobeniusP2 = p²-power, Conjugate = p⁶-power, the final exponentiation as a power -/

theorem frobConstsFp_norms : frobConstsFp.Norms :=
  ⟨frobConstsFp_norm_relations.1, frobConstsFp_norm_relations.2.1, frobConstsFp_norm_relations.2.2.1,
    frobConstsFp_norm_relations.2.2.2⟩

theorem frobeniusP2_is_p2_power (a : Fp12 (ZMod p)) : Fp12.frobeniusP2G frobConstsFp a = a ^ (p * p) := by
  rw [← Fp12.frobeniusG_frobeniusG frobConstsFp frobConstsFp_good frobConstsFp_norms, frobenius_is_p_power,
    frobenius_is_p_power, ← pow_mul]

theorem conjugate_is_p6_power (a : Fp12 (ZMod p)) : Fp12.conjugate a = a ^ (p ^ 6) := by
  rw [← Fp12.frobeniusP2G_cube frobConstsFp frobConstsFp_good frobConstsFp_norms, frobeniusP2_is_p2_power,
    frobeniusP2_is_p2_power, frobeniusP2_is_p2_power, ← pow_mul, ← pow_mul]
  congr 1

/-- x^(p¹²) = x on gfP12 over F_p (without counting elements: conj ∘ conj = id) -/
theorem pow_p12 (a : Fp12 (ZMod p)) : a ^ (p ^ 12) = a := by
  have h := Fp12.conjugate_conjugate a
  rw [conjugate_is_p6_power, conjugate_is_p6_power, ← pow_mul] at h
  rw [show p ^ 12 = p ^ 6 * p ^ 6 by ring]
  exact h

theorem pow_p12_sub_one (a : Fp12 (ZMod p)) (ha : a ≠ 0) : a ^ (p ^ 12 - 1) = 1 := by
  have h := pow_p12 a
  have hp : p ^ 12 = (p ^ 12 - 1) + 1 := by
    have : 0 < p ^ 12 := by decide
    omega
  rw [hp, pow_succ] at h
  exact mul_right_cancel₀ ha (h.trans (one_mul a).symm)

/-- the exponent the hard part raises to, as the code computes it (P = p, U = u; conj = P⁶-power) -/
def finalExpNat (P U : Nat) : Nat :=
  (1 + P * P) * (36 * ((U * U * U + U * U * U * P) * P ^ 6) + 18 * ((U + U * U * P) * P ^ 6) + 30 * (U * U * P ^ 6) +
    12 * (U * P * P ^ 6) + 6 * (U * U * (P * P)) + 2 * P ^ 6 + (P + P * P + P * P * P))

/-- the addition chain of the hard part (with the easy part's second step), every map replaced by the power it is -/
theorem hard_chain {R : Type} [CommRing R] (t : R) (P U : Nat) :
    (let t1 := t * t ^ (P * P)
     let fp := t1 ^ P
     let fp2 := t1 ^ (P * P)
     let fp3 := fp2 ^ P
     let fu := t1 ^ U
     let fu2 := fu ^ U
     let fu3 := fu2 ^ U
     let y3 := (fu ^ P) ^ (P ^ 6)
     let fu2p := fu2 ^ P
     let fu3p := fu3 ^ P
     let y2 := fu2 ^ (P * P)
     let y0 := fp * fp2 * fp3
     let y1 := t1 ^ (P ^ 6)
     let y5 := fu2 ^ (P ^ 6)
     let y4 := (fu * fu2p) ^ (P ^ 6)
     let y6 := (fu3 * fu3p) ^ (P ^ 6)
     let t0 := y6 * y6 * y4 * y5
     let t1' := y3 * y5 * t0
     let t0 := t0 * y2
     let t1' := (t1' * t1' * t0) * (t1' * t1' * t0)
     let t0 := t1' * y1
     let t1' := t1' * y0
     t0 * t0 * t1') = t ^ finalExpNat P U := by
  unfold finalExpNat
  ring

/-- the straight-line code of finalExponentiation with every map replaced by the power it is -/
theorem finalExp_as_power (x : Fp12 (ZMod p)) :
    finalExponentiationG frobConstsFp uParam x = (x ^ (p ^ 6) * Fp12.invert x) ^ finalExpNat p uParam := by
  simp only [finalExp_unfold, frobenius_is_p_power, frobeniusP2_is_p2_power, conjugate_is_p6_power, Fp12.exp_eq_pow]
  generalize x ^ (p ^ 6) * Fp12.invert x = t
  exact hard_chain t p uParam

set_option maxRecDepth 100000 in
/-- (p⁶ − 1)·finalExpNat ≡ (p¹² − 1)/r modulo p¹² − 1, and r divides p¹² − 1 (numbers regenerated from /repo) -/
theorem finalExp_exponent :
    (p ^ 6 * finalExpNat p uParam - finalExpNat p uParam) % (p ^ 12 - 1) = (p ^ 12 - 1) / Gen.Bn256.Order ∧
    (p ^ 12 - 1) / Gen.Bn256.Order * Gen.Bn256.Order = p ^ 12 - 1 ∧
    finalExpNat p uParam ≤ p ^ 6 * finalExpNat p uParam := by
  decide +kernel

/-- **the final exponentiation over F_p is x ↦ x^((p¹²−1)/r)** on non-zero x -/
theorem finalExp_eq_pow (x : Fp12 (ZMod p)) (hx : x ≠ 0) :
    finalExponentiationG frobConstsFp uParam x = x ^ ((p ^ 12 - 1) / Gen.Bn256.Order) := by
  obtain ⟨hmod, _, hle⟩ := finalExp_exponent
  have hinv : Fp12.invert x = x⁻¹ := rfl
  rw [finalExp_as_power, hinv, mul_pow, ← pow_mul, inv_pow]
  rw [← pow_sub₀ x hx hle, ← hmod]
  conv_lhs => rw [← Nat.div_add_mod (p ^ 6 * finalExpNat p uParam - finalExpNat p uParam) (p ^ 12 - 1), pow_add,
    pow_mul, pow_p12_sub_one x hx, one_pow, one_mul]

/-- **every value of the final exponentiation has order dividing r** -/
theorem finalExp_pow_order (x : Fp12 (ZMod p)) (hx : x ≠ 0) :
    finalExponentiationG frobConstsFp uParam x ^ Gen.Bn256.Order = 1 := by
  rw [finalExp_eq_pow x hx, ← pow_mul, finalExp_exponent.2.1, pow_p12_sub_one x hx]

end Dos.Bn256

/-
Pratt-certificate machinery for the kernel-checked primality proofs in `Proofs/Primes*.lean`.

`powModAux` is binary (square-and-multiply) exponentiation on `Nat` with a reduction modulo `n`
after every multiplication, written by structural recursion on a fuel argument so that the Lean
kernel can evaluate it (with its GMP-accelerated `Nat.mul`/`Nat.mod`/`Nat.div`) on closed terms.
`powModAux_modEq` proves it equal to `a ^ e` modulo `n` once and for all; `pratt` turns a
successful run of the Boolean checker `prattCheck` (one `a^(p-1) = 1`, one `a^((p-1)/f) ≠ 1` per
listed factor `f`, and `∏ fᵢ^eᵢ = p-1`) plus primality of the listed factors into `Nat.Prime p`
through Mathlib's `lucas_primality`.

No compiled/native evaluation is trusted: the certificate file uses `decide +kernel`, i.e. each
check is a reduction of `prattCheck … = true` performed by the Lean kernel itself.
-/
import Mathlib.NumberTheory.LucasPrimality
import Mathlib.Data.Nat.ModEq
import Mathlib.Algebra.BigOperators.Group.List.Basic

namespace Dos.Primes

/-- square-and-multiply: `powModAux n fuel b e acc ≡ acc * b^e (mod n)` when `e < 2^fuel` -/
def powModAux (n : Nat) : Nat → Nat → Nat → Nat → Nat
  | 0, _, _, acc => acc
  | fuel + 1, b, e, acc =>
    bif e == 0 then acc
    else powModAux n fuel (b * b % n) (e / 2) (bif e % 2 == 1 then acc * b % n else acc)

/-- `a ^ e mod n` by binary exponentiation (`fuel` ≥ bit length of `e`) -/
def powMod (fuel a e n : Nat) : Nat := powModAux n fuel (a % n) e (1 % n)

theorem powModAux_modEq (n : Nat) :
    ∀ (fuel b e acc : Nat), e < 2 ^ fuel → powModAux n fuel b e acc ≡ acc * b ^ e [MOD n]
  | 0, b, e, acc, h => by
    have : e = 0 := by simpa using h
    subst this
    simp [powModAux, Nat.ModEq]
  | fuel + 1, b, e, acc, h => by
    unfold powModAux
    by_cases he : e = 0
    · subst he; simp [Nat.ModEq]
    · have hlt : e / 2 < 2 ^ fuel := by
        rw [Nat.div_lt_iff_lt_mul (by norm_num)]
        rw [pow_succ] at h; exact h
      have ih := powModAux_modEq n fuel (b * b % n) (e / 2)
        (bif e % 2 == 1 then acc * b % n else acc) hlt
      have he' : (e == 0) = false := by simpa using he
      rw [he', cond_false]
      refine ih.trans ?_
      have hbb : (b * b % n) ^ (e / 2) ≡ (b * b) ^ (e / 2) [MOD n] :=
        (Nat.mod_modEq _ _).pow _
      have hsplit : e = 2 * (e / 2) + e % 2 := (Nat.div_add_mod e 2).symm
      rcases Nat.mod_two_eq_zero_or_one e with h0 | h1
      · have hb : (e % 2 == 1) = false := by simp [h0]
        rw [hb, cond_false]
        refine (Nat.ModEq.mul_left _ hbb).trans ?_
        have : b ^ e = (b * b) ^ (e / 2) := by
          conv_lhs => rw [hsplit, h0, add_zero, pow_mul, pow_two]
        rw [this]
      · have hb : (e % 2 == 1) = true := by simp [h1]
        rw [hb, cond_true]
        refine ((Nat.mod_modEq _ _).mul hbb).trans ?_
        have : b ^ e = (b * b) ^ (e / 2) * b := by
          conv_lhs => rw [hsplit, h1, pow_succ, pow_mul, pow_two]
        rw [this]
        rw [show acc * b * (b * b) ^ (e / 2) = acc * ((b * b) ^ (e / 2) * b) by ring]

theorem powMod_modEq {fuel a e n : Nat} (h : e < 2 ^ fuel) : powMod fuel a e n ≡ a ^ e [MOD n] := by
  unfold powMod
  refine (powModAux_modEq n fuel (a % n) e (1 % n) h).trans ?_
  have := ((Nat.mod_modEq 1 n).mul ((Nat.mod_modEq a n).pow e))
  simpa using this

theorem powModAux_lt {n : Nat} (hn : 0 < n) :
    ∀ (fuel b e acc : Nat), acc < n → powModAux n fuel b e acc < n
  | 0, _, _, _, h => by simpa [powModAux] using h
  | fuel + 1, b, e, acc, h => by
    unfold powModAux
    cases (e == 0)
    · rw [cond_false]
      apply powModAux_lt hn
      cases (e % 2 == 1)
      · simpa using h
      · simpa using Nat.mod_lt _ hn
    · simpa using h

theorem powMod_lt {fuel a e n : Nat} (hn : 1 < n) : powMod fuel a e n < n :=
  powModAux_lt (by omega) _ _ _ _ (Nat.mod_lt _ (by omega))

/-- the run of `powMod` is the power in `ZMod n` -/
theorem powMod_cast {fuel a e n : Nat} (h : e < 2 ^ fuel) :
    ((powMod fuel a e n : ℕ) : ZMod n) = (a : ZMod n) ^ e := by
  rw [← Nat.cast_pow, ZMod.natCast_eq_natCast_iff]
  exact powMod_modEq h

/-- every listed base is prime -/
def AllPrime : List (ℕ × ℕ) → Prop
  | [] => True
  | f :: fs => f.1.Prime ∧ AllPrime fs

theorem AllPrime.mem : ∀ {fs : List (ℕ × ℕ)}, AllPrime fs → ∀ f ∈ fs, f.1.Prime
  | [], _, _, hf => by cases hf
  | _ :: _, h, f, hf => by
    rcases List.mem_cons.1 hf with rfl | hf
    · exact h.1
    · exact AllPrime.mem h.2 f hf

/-- `∏ fᵢ ^ eᵢ` -/
def factProd : List (ℕ × ℕ) → ℕ
  | [] => 1
  | f :: fs => f.1 ^ f.2 * factProd fs

theorem dvd_factProd : ∀ {fs : List (ℕ × ℕ)}, AllPrime fs → ∀ {q : ℕ}, q.Prime → q ∣ factProd fs →
    ∃ f ∈ fs, f.1 = q
  | [], _, q, hq, hd => by
    exact absurd (Nat.dvd_one.1 hd) hq.ne_one
  | f :: fs, h, q, hq, hd => by
    rcases (Nat.Prime.dvd_mul hq).1 hd with h1 | h2
    · have := hq.dvd_of_dvd_pow h1
      exact ⟨f, List.mem_cons_self, ((Nat.prime_dvd_prime_iff_eq hq h.1).1 this).symm⟩
    · obtain ⟨g, hg, hgq⟩ := dvd_factProd h.2 hq h2
      exact ⟨g, List.mem_cons_of_mem _ hg, hgq⟩

/-- all the order conditions `a^((p-1)/f) ≠ 1 (mod p)` -/
def orderCheck (fuel p a : ℕ) : List (ℕ × ℕ) → Bool
  | [] => true
  | f :: fs => (powMod fuel a ((p - 1) / f.1) p != 1) && orderCheck fuel p a fs

theorem orderCheck_mem {fuel p a : ℕ} : ∀ {fs : List (ℕ × ℕ)}, orderCheck fuel p a fs = true →
    ∀ f ∈ fs, powMod fuel a ((p - 1) / f.1) p ≠ 1
  | [], _, _, hf => by cases hf
  | _ :: _, h, f, hf => by
    simp only [orderCheck, Bool.and_eq_true, bne_iff_ne, ne_eq] at h
    rcases List.mem_cons.1 hf with rfl | hf
    · exact h.1
    · exact orderCheck_mem h.2 f hf

/-- the Boolean Pratt check of one node: `1 < p < 2^fuel`, `∏ fᵢ^eᵢ = p-1`, `a^(p-1) = 1`,
`a^((p-1)/fᵢ) ≠ 1` for every `i`, all modulo `p` -/
def prattCheck (fuel p a : ℕ) (fs : List (ℕ × ℕ)) : Bool :=
  Nat.blt 1 p && Nat.blt p (2 ^ fuel) && (factProd fs == p - 1) &&
    (powMod fuel a (p - 1) p == 1) && orderCheck fuel p a fs

/-- **Pratt node**: a successful check and primality of the listed factors give primality. -/
theorem pratt (fuel p a : ℕ) (fs : List (ℕ × ℕ)) (hc : prattCheck fuel p a fs = true)
    (hfs : AllPrime fs) : p.Prime := by
  simp only [prattCheck, Bool.and_eq_true, Nat.blt_eq, beq_iff_eq] at hc
  obtain ⟨⟨⟨⟨h1p, hp⟩, hprod⟩, hpow⟩, hord⟩ := hc
  have hlt : ∀ e, e ≤ p - 1 → e < 2 ^ fuel := fun e he => lt_of_le_of_lt (he.trans (Nat.sub_le _ _)) hp
  apply lucas_primality p (a : ZMod p)
  · rw [← powMod_cast (hlt _ le_rfl), hpow, Nat.cast_one]
  · intro q hq hqd
    rw [← hprod] at hqd
    obtain ⟨f, hf, rfl⟩ := dvd_factProd hfs hq hqd
    have hne := orderCheck_mem hord f hf
    rw [← powMod_cast (hlt _ (Nat.div_le_self _ _))]
    intro h
    apply hne
    have h' : ((powMod fuel a ((p - 1) / f.1) p : ℕ) : ZMod p) = ((1 : ℕ) : ZMod p) := by
      simpa using h
    rw [ZMod.natCast_eq_natCast_iff, Nat.ModEq, Nat.mod_eq_of_lt h1p] at h'
    rwa [Nat.mod_eq_of_lt (powMod_lt h1p)] at h'

end Dos.Primes

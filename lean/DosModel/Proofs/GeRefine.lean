/-
C20 (round 4) — the executable limb operations REFINE arithmetic in the field F = ZMod (2^255 − 19), and so does
every translated group method, generically:

  `R k l x`        : limb vector `l` is within k × the ref10 bound and stands for the field element `x`
  `mul_R … cmove_R`: one lemma per fe operation (from Proofs/Ed25519FeSpec.lean)
  `chain_R`        : feInvert / fePow22523 (square-and-multiply chains) compute `x ^ e`, with the exponent `e`
                     obtained by running the regenerated chain on exponents (`decide +kernel`):
                     e = p − 2 resp. (p − 5)/8
  `body_refines`   : if the multiplier analysis `absBody` accepts a translated method body, then running it on limbs
                     (Go semantics) and running it on field elements keep all registers related — for ANY
                     binding of objects to registers (aliasing included)
-/
import Mathlib.Data.ZMod.Basic
import Mathlib.Tactic.Ring
import DosModel.Model.Ed25519Ge
import DosModel.Proofs.Ed25519FeSpec
import DosModel.Proofs.Ed25519Prime

set_option exponentiation.threshold 600

namespace Dos.GeProg
open Dos Dos.Ed25519 Dos.FeProg Dos.FeOps Dos.Ed25519Prime

/-- the field element a limb vector stands for -/
def val (l : L10) : F := ((feVal l : Int) : F)

theorem pI_eq : pI = ((Dos.Ed.p : ℕ) : Int) := by decide

theorem ModP.cast {a b : Int} (h : ModP a b) : ((a : Int) : F) = ((b : Int) : F) := by
  unfold ModP at h
  rw [pI_eq] at h
  exact (ZMod.intCast_eq_intCast_iff_dvd_sub _ _ _).2 (by
    have := Int.dvd_of_emod_eq_zero h
    have e : b - a = -(a - b) := by ring
    rw [e]; exact (Int.dvd_neg).2 this)

/-- `l` is within `k` × the bound and has the value `x` -/
def R (k : Nat) (l : L10) (x : F) : Prop := Bounded (k : Int) l ∧ val l = x

theorem Bounded.mono {a b : Int} {l : L10} (h : Bounded a l) (hab : a ≤ b) (_ha : 0 ≤ a) : Bounded b l := by
  unfold Bounded evenB oddB at *
  omega

theorem R.mono {a b : Nat} {l : L10} {x : F} (h : R a l x) (hab : a ≤ b) : R b l x :=
  ⟨Bounded.mono h.1 (by exact_mod_cast hab) (by positivity), h.2⟩

theorem mul_R {a b : Nat} {l m : L10} {x y : F} (h1 : R a l x) (h2 : R b m y) (ha : a ≤ 3) (hb : b ≤ 3) :
    R 1 (feMul l m) (x * y) := by
  obtain ⟨_, hb1, hv⟩ := feMul_spec l m (h1.mono ha).1 (h2.mono hb).1
  refine ⟨hb1, ?_⟩
  unfold val
  rw [ModP.cast hv, Int.cast_mul]
  exact congr (congrArg _ h1.2) h2.2

theorem sq_R {a : Nat} {l : L10} {x : F} (h1 : R a l x) (ha : a ≤ 3) : R 1 (feSquare l) (x * x) := by
  obtain ⟨_, hb1, hv⟩ := feSquare_spec l (h1.mono ha).1
  refine ⟨hb1, ?_⟩
  unfold val
  rw [ModP.cast hv, Int.cast_mul]
  exact congr (congrArg _ h1.2) h1.2

theorem sq2_R {a : Nat} {l : L10} {x : F} (h1 : R a l x) (ha : a ≤ 3) : R 1 (feSquare2 l) (2 * (x * x)) := by
  obtain ⟨_, hb1, hv⟩ := feSquare2_spec l (h1.mono ha).1
  refine ⟨hb1, ?_⟩
  unfold val
  rw [ModP.cast hv]
  push_cast
  rw [show ((feVal l : Int) : F) = x from h1.2]

theorem add_R {a b : Nat} {l m : L10} {x y : F} (h1 : R a l x) (h2 : R b m y) (hab : a + b ≤ 3) :
    R (a + b) (feAdd l m) (x + y) := by
  obtain ⟨_, hb1, hv⟩ := feAdd_spec a b l m h1.1 h2.1 (by exact_mod_cast (by omega : a + b ≤ 58)) (by positivity) (by positivity)
  refine ⟨by exact_mod_cast hb1, ?_⟩
  unfold val
  rw [hv, Int.cast_add]
  exact congr (congrArg _ h1.2) h2.2

theorem sub_R {a b : Nat} {l m : L10} {x y : F} (h1 : R a l x) (h2 : R b m y) (hab : a + b ≤ 3) :
    R (a + b) (feSub l m) (x - y) := by
  obtain ⟨_, hb1, hv⟩ := feSub_spec a b l m h1.1 h2.1 (by exact_mod_cast (by omega : a + b ≤ 58)) (by positivity) (by positivity)
  refine ⟨by exact_mod_cast hb1, ?_⟩
  unfold val
  rw [hv, Int.cast_sub]
  exact congr (congrArg _ h1.2) h2.2

theorem neg_R {a : Nat} {l : L10} {x : F} (h1 : R a l x) (ha : a ≤ 3) : R a (feNeg l) (-x) := by
  obtain ⟨_, hb1, hv⟩ := feNeg_spec a l h1.1 (by exact_mod_cast (by omega : a ≤ 58))
  refine ⟨hb1, ?_⟩
  unfold val
  rw [hv, Int.cast_neg]
  exact congrArg _ h1.2

theorem zero_R : R 1 feZero 0 := by
  rw [feZero_spec]
  refine ⟨by decide, ?_⟩
  unfold val
  rw [feVal_zero]; simp

theorem zero10_R : R 1 zero10 0 := by
  have := zero_R
  rwa [feZero_spec] at this

theorem one_R : R 1 feOne 1 := by
  rw [feOne_spec]
  refine ⟨by decide, ?_⟩
  unfold val
  rw [feVal_one]; simp

/-! ### feCMove -/

theorem u32_s32 (n : Nat) (h : n < 4294967296) : u32 (s32 n) = n := by
  unfold u32 s32
  split <;> omega

theorem s32_u32 (x : Int) (h : I32 x) : s32 (u32 x) = x := by
  unfold u32 s32 I32 at *
  split <;> omega

theorem u32_lt (x : Int) : u32 x < 4294967296 := by unfold u32; omega

theorem cmove_elem_zero (f g : Int) (hf : I32 f) : Gen.Ed25519Fe.feCMove_elem f g 0 = f := by
  unfold Gen.Ed25519Fe.feCMove_elem
  simp only [Int.neg_zero]
  have h0 : u32 0 = 0 := by decide
  unfold and32 xor32
  rw [h0, Nat.zero_and]
  have hs : s32 0 = 0 := by decide
  rw [hs, h0, Nat.xor_zero]
  exact s32_u32 f hf

theorem cmove_elem_one (f g : Int) (hg : I32 g) : Gen.Ed25519Fe.feCMove_elem f g 1 = g := by
  unfold Gen.Ed25519Fe.feCMove_elem
  have h1 : u32 (-1) = 4294967295 := by decide
  unfold and32 xor32
  show s32 (u32 f ^^^ u32 (s32 (u32 (-1) &&& u32 (s32 (u32 f ^^^ u32 g))))) = g
  rw [h1]
  have hx : u32 f ^^^ u32 g < 4294967296 := Nat.xor_lt_two_pow (n := 32) (u32_lt f) (u32_lt g)
  rw [u32_s32 _ hx]
  have ha : 4294967295 &&& (u32 f ^^^ u32 g) = u32 f ^^^ u32 g := by
    rw [Nat.and_comm]
    have : (4294967295 : Nat) = 2 ^ 32 - 1 := by decide
    rw [this, Nat.and_two_pow_sub_one_eq_mod]
    exact Nat.mod_eq_of_lt hx
  rw [ha, u32_s32 _ hx, ← Nat.xor_assoc, Nat.xor_self, Nat.zero_xor]
  exact s32_u32 g hg

theorem cmove_R {a b : Nat} {l m : L10} {x y : F} (h1 : R a l x) (h2 : R b m y) (ha : a ≤ 3) (hb : b ≤ 3)
    (c : Int) (hc : c = 0 ∨ c = 1) :
    R (max a b) (feCMove l m c) (if c = 1 then y else x) := by
  have i1 := h1.1.i32 (by exact_mod_cast (by omega : a ≤ 58))
  have i2 := h2.1.i32 (by exact_mod_cast (by omega : b ≤ 58))
  rcases hc with rfl | rfl
  · have e : feCMove l m 0 = l := by
      unfold feCMove
      obtain ⟨a0, a1, a2, a3, a4, a5, a6, a7, a8, a9⟩ := i1
      rw [cmove_elem_zero _ _ a0, cmove_elem_zero _ _ a1, cmove_elem_zero _ _ a2, cmove_elem_zero _ _ a3,
        cmove_elem_zero _ _ a4, cmove_elem_zero _ _ a5, cmove_elem_zero _ _ a6, cmove_elem_zero _ _ a7,
        cmove_elem_zero _ _ a8, cmove_elem_zero _ _ a9]
    rw [e]
    simp only [zero_ne_one, if_false]
    exact h1.mono (le_max_left a b)
  · have e : feCMove l m 1 = m := by
      unfold feCMove
      obtain ⟨a0, a1, a2, a3, a4, a5, a6, a7, a8, a9⟩ := i2
      rw [cmove_elem_one _ _ a0, cmove_elem_one _ _ a1, cmove_elem_one _ _ a2, cmove_elem_one _ _ a3,
        cmove_elem_one _ _ a4, cmove_elem_one _ _ a5, cmove_elem_one _ _ a6, cmove_elem_one _ _ a7,
        cmove_elem_one _ _ a8, cmove_elem_one _ _ a9]
    rw [e]
    simp only [if_true]
    exact h2.mono (le_max_right a b)

/-! ### square-and-multiply chains -/

/-- every register holds a limb vector within 3 × standing for the corresponding field element -/
def ChainRel (L : List L10) (X : List F) : Prop := List.Forall₂ (fun l x => ∃ k, k ≤ 3 ∧ R k l x) L X

theorem ChainRel.getD {L : List L10} {X : List F} (h : ChainRel L X) (i : Nat) :
    ∃ k, k ≤ 3 ∧ R k (L.getD i zero10) (X.getD i 0) :=
  IntervalProg.forall₂_getD h ⟨1, by omega, zero10_R⟩ i

theorem ChainRel.set {L : List L10} {X : List F} (h : ChainRel L X) (i : Nat) {l : L10} {x : F}
    (hr : ∃ k, k ≤ 3 ∧ R k l x) : ChainRel (L.set i l) (X.set i x) :=
  IntervalProg.forall₂_set h hr i

theorem chainStep_rel {L : List L10} {X : List F} (h : ChainRel L X) (op : ChainOp) :
    ChainRel (chainStep feMul feSquare zero10 L op) (chainStep (· * ·) (fun x => x * x) 0 X op) := by
  cases op with
  | sq dst src =>
    obtain ⟨k, hk, hr⟩ := h.getD src
    exact h.set dst ⟨1, by omega, sq_R hr hk⟩
  | mul dst a b =>
    obtain ⟨k, hk, hr⟩ := h.getD a
    obtain ⟨k', hk', hr'⟩ := h.getD b
    exact h.set dst ⟨1, by omega, mul_R hr hr' hk hk'⟩
  | sqLoop n dst src =>
    show ChainRel ((List.range n).foldl (fun r _ => r.set dst (feSquare (r.getD src zero10))) L)
      ((List.range n).foldl (fun r _ => r.set dst ((r.getD src 0) * (r.getD src 0))) X)
    generalize List.range n = is
    induction is generalizing L X with
    | nil => exact h
    | cons i is ih =>
      simp only [List.foldl_cons]
      apply ih
      obtain ⟨k, hk, hr⟩ := h.getD src
      exact h.set dst ⟨1, by omega, sq_R hr hk⟩

theorem chainRun_rel (ops : List ChainOp) {L : List L10} {X : List F} (h : ChainRel L X) :
    ChainRel (chainRun feMul feSquare zero10 ops L) (chainRun (· * ·) (fun x => x * x) 0 ops X) := by
  unfold chainRun
  induction ops generalizing L X with
  | nil => exact h
  | cons op ops ih => simp only [List.foldl_cons]; exact ih (chainStep_rel h op)

/-- exponents: `none` = a register that does not hold a power of the input -/
def expMul : Option Nat → Option Nat → Option Nat
  | some a, some b => some (a + b)
  | _, _ => none
def expSq : Option Nat → Option Nat
  | some a => some (2 * a)
  | none => none

def ExpRel (x : F) (X : List F) (E : List (Option Nat)) : Prop :=
  List.Forall₂ (fun y o => ∀ n, o = some n → y = x ^ n) X E

theorem expStep_rel (x : F) {X : List F} {E : List (Option Nat)} (h : ExpRel x X E) (op : ChainOp) :
    ExpRel x (chainStep (· * ·) (fun y => y * y) 0 X op) (chainStep expMul expSq none E op) := by
  have hd : ∀ n, (none : Option Nat) = some n → (0 : F) = x ^ n := fun n hn => by cases hn
  have hsq : ∀ {X : List F} {E : List (Option Nat)}, ExpRel x X E → ∀ dst src,
      ExpRel x (X.set dst (X.getD src 0 * X.getD src 0)) (E.set dst (expSq (E.getD src none))) := by
    intro X E h dst src
    refine IntervalProg.forall₂_set h ?_ dst
    have := IntervalProg.forall₂_getD h hd src
    intro n hn
    cases ho : E.getD src none with
    | none => rw [ho] at hn; cases hn
    | some a =>
      rw [ho] at hn
      cases Option.some.inj hn
      rw [this a ho, ← pow_add]; congr 1; omega
  cases op with
  | sq dst src => exact hsq h dst src
  | mul dst a b =>
    refine IntervalProg.forall₂_set h ?_ dst
    have h1 := IntervalProg.forall₂_getD h hd a
    have h2 := IntervalProg.forall₂_getD h hd b
    intro n hn
    cases ha : E.getD a none with
    | none => simp only [ha, expMul] at hn; cases hn
    | some u =>
      cases hb : E.getD b none with
      | none => simp only [ha, hb, expMul] at hn; cases hn
      | some v =>
        simp only [ha, hb, expMul] at hn
        cases Option.some.inj hn
        rw [h1 u ha, h2 v hb]
        show x ^ u * x ^ v = _
        rw [← pow_add]
  | sqLoop n dst src =>
    show ExpRel x ((List.range n).foldl (fun r _ => r.set dst ((r.getD src 0) * (r.getD src 0))) X)
      ((List.range n).foldl (fun r _ => r.set dst (expSq (r.getD src none))) E)
    generalize List.range n = is
    induction is generalizing X E with
    | nil => exact h
    | cons i is ih =>
      simp only [List.foldl_cons]
      exact ih (hsq h dst src)

theorem expRun_rel (x : F) (ops : List ChainOp) {X : List F} {E : List (Option Nat)} (h : ExpRel x X E) :
    ExpRel x (chainRun (· * ·) (fun y => y * y) 0 ops X) (chainRun expMul expSq none ops E) := by
  unfold chainRun
  induction ops generalizing X E with
  | nil => exact h
  | cons op ops ih => simp only [List.foldl_cons]; exact ih (expStep_rel x h op)

/-- exponent computed by a chain with `nregs` registers -/
def chainExp (nregs : Nat) (ops : List ChainOp) : Option Nat :=
  (chainRun expMul expSq none ops ((List.replicate nregs none).set 1 (some 1))).getD 0 none

/-- **a chain computes the power given by its exponent run** -/
theorem runChain_R (nregs : Nat) (ops : List ChainOp) (e : Nat) (he : chainExp nregs ops = some e)
    {a : Nat} {z : L10} {x : F} (h : R a z x) (ha : a ≤ 3) :
    ∃ k, k ≤ 3 ∧ R k (runChain nregs ops z) (x ^ e) := by
  have h0 : ChainRel ((List.replicate nregs zero10).set 1 z) ((List.replicate nregs (0 : F)).set 1 x) :=
    IntervalProg.forall₂_set (IntervalProg.forall₂_replicate ⟨1, by omega, zero10_R⟩ nregs) ⟨a, ha, h⟩ 1
  have h1 := (chainRun_rel ops h0).getD 0
  have e0 : ExpRel x ((List.replicate nregs (0 : F)).set 1 x) ((List.replicate nregs none).set 1 (some 1)) :=
    IntervalProg.forall₂_set (IntervalProg.forall₂_replicate (fun n hn => by cases hn) nregs)
      (fun n hn => by cases Option.some.inj hn; simp) 1
  have hd : ∀ n, (none : Option Nat) = some n → (0 : F) = x ^ n := fun n hn => by cases hn
  have h2 := IntervalProg.forall₂_getD (expRun_rel x ops e0) hd 0
  have h3 := h2 e he
  unfold runChain
  rw [← h3]
  exact h1

theorem feInvert_exp : chainExp Gen.Ed25519Fe.feInvert_nregs Gen.Ed25519Fe.feInvert_chain = some (Dos.Ed.p - 2) := by
  decide +kernel

theorem fePow22523_exp :
    chainExp Gen.Ed25519Fe.fePow22523_nregs Gen.Ed25519Fe.fePow22523_chain = some ((Dos.Ed.p - 5) / 8) := by
  decide +kernel

/-- all registers except the input register 1 are within 1 × (they are zero or results of feMul/feSquare) -/
def Tight (L : List L10) : Prop := ∀ i, i ≠ 1 → Bounded 1 (L.getD i zero10)

theorem getD_set_cases {α : Type} (l : List α) (i j : Nat) (a d : α) :
    (l.set i a).getD j d = a ∨ (l.set i a).getD j d = l.getD j d := by
  by_cases h : i = j
  · subst h
    by_cases hl : i < l.length
    · left; simp [List.getD, List.getElem?_set_self hl]
    · right; rw [List.set_eq_of_length_le (by omega)]
  · right; simp [List.getD, List.getElem?_set_ne h]

theorem Tight.set {L : List L10} (h : Tight L) (dst : Nat) {v : L10} (hv : Bounded 1 v) : Tight (L.set dst v) := by
  intro i hi
  rcases getD_set_cases L dst i v zero10 with e | e <;> rw [e]
  · exact hv
  · exact h i hi

theorem chainStep_tight {L : List L10} {X : List F} (h : ChainRel L X) (ht : Tight L) (op : ChainOp) :
    Tight (chainStep feMul feSquare zero10 L op) := by
  cases op with
  | sq dst src =>
    obtain ⟨k, hk, hr⟩ := h.getD src
    exact ht.set dst (sq_R hr hk).1
  | mul dst a b =>
    obtain ⟨k, hk, hr⟩ := h.getD a
    obtain ⟨k', hk', hr'⟩ := h.getD b
    exact ht.set dst (mul_R hr hr' hk hk').1
  | sqLoop n dst src =>
    show Tight ((List.range n).foldl (fun r _ => r.set dst (feSquare (r.getD src zero10))) L)
    have key : ∀ (is : List Nat) (L : List L10) (X : List F), ChainRel L X → Tight L →
        Tight (is.foldl (fun r _ => r.set dst (feSquare (r.getD src zero10))) L) := by
      intro is
      induction is with
      | nil => intro L X _ ht; exact ht
      | cons i is ih =>
        intro L X h ht
        simp only [List.foldl_cons]
        obtain ⟨k, hk, hr⟩ := h.getD src
        exact ih _ (X.set dst (X.getD src 0 * X.getD src 0)) (h.set dst ⟨1, by omega, sq_R hr hk⟩)
          (ht.set dst (sq_R hr hk).1)
    exact key _ L X h ht

theorem chainRun_tight (ops : List ChainOp) {L : List L10} {X : List F} (h : ChainRel L X) (ht : Tight L) :
    Tight (chainRun feMul feSquare zero10 ops L) := by
  unfold chainRun
  induction ops generalizing L X with
  | nil => exact ht
  | cons op ops ih => simp only [List.foldl_cons]; exact ih (chainStep_rel h op) (chainStep_tight h ht op)

/-- the result register of a chain is within 1 × -/
theorem runChain_tight (nregs : Nat) (ops : List ChainOp) {a : Nat} {z : L10} {x : F} (h : R a z x) (ha : a ≤ 3) :
    Bounded 1 (runChain nregs ops z) := by
  have h0 : ChainRel ((List.replicate nregs zero10).set 1 z) ((List.replicate nregs (0 : F)).set 1 x) :=
    IntervalProg.forall₂_set (IntervalProg.forall₂_replicate ⟨1, by omega, zero10_R⟩ nregs) ⟨a, ha, h⟩ 1
  have t0 : Tight ((List.replicate nregs zero10).set 1 z) := by
    intro i hi
    have : ((List.replicate nregs zero10).set 1 z).getD i zero10 = (List.replicate nregs zero10).getD i zero10 := by
      simp [List.getD, List.getElem?_set_ne (Ne.symm hi)]
    rw [this]
    have : (List.replicate nregs zero10).getD i zero10 = zero10 := by
      simp only [List.getD, List.getElem?_replicate]
      split <;> rfl
    rw [this]
    exact zero10_R.1
  exact chainRun_tight ops h0 t0 0 (by omega)

/-- `x ^ (p − 2)` and `x ^ ((p − 5)/8)` -/
def invF (x : F) : F := x ^ (Dos.Ed.p - 2)
def powF (x : F) : F := x ^ ((Dos.Ed.p - 5) / 8)

theorem invert_R {a : Nat} {z : L10} {x : F} (h : R a z x) (ha : a ≤ 3) : R 1 (feInvert z) (invF x) := by
  obtain ⟨k, _, hr⟩ := runChain_R _ _ _ feInvert_exp h ha
  exact ⟨runChain_tight _ _ h ha, hr.2⟩

theorem pow22523_R {a : Nat} {z : L10} {x : F} (h : R a z x) (ha : a ≤ 3) :
    R 1 (fePow22523 z) (powF x) := by
  obtain ⟨k, _, hr⟩ := runChain_R _ _ _ fePow22523_exp h ha
  exact ⟨runChain_tight _ _ h ha, hr.2⟩

/-! ### translated methods -/

/-- the field semantics of the fe operations -/
def fieldAlg : FeAlg F :=
  { mul := fun x y => x * y, sq := fun x => x * x, sq2 := fun x => 2 * (x * x), add := fun x y => x + y,
    sub := fun x y => x - y, neg := fun x => -x, zero := 0, one := 1, invert := invF,
    pow22523 := powF, cmove := fun f g b => if b = 1 then g else f }

/-- every register whose multiplier is known holds a limb vector within that bound standing for the field register -/
def RegRel (M : List Mult) (L : List L10) (X : List F) : Prop :=
  L.length = M.length ∧ X.length = M.length ∧
    ∀ i k, M.getD i none = some k → R k (L.getD i zero10) (X.getD i 0)

theorem RegRel.set {M : List Mult} {L : List L10} {X : List F} (h : RegRel M L X) (d : Nat) (hd : d < M.length)
    {k : Nat} {l : L10} {x : F} (hr : R k l x) : RegRel (M.set d (some k)) (L.set d l) (X.set d x) := by
  obtain ⟨h1, h2, h3⟩ := h
  refine ⟨by simp [h1], by simp [h2], ?_⟩
  intro i k' hk'
  by_cases hi : d = i
  · subst hi
    rw [IntervalProg.getD_set_self _ _ _ _ hd] at hk'
    cases Option.some.inj hk'
    rw [IntervalProg.getD_set_self _ _ _ _ (by omega), IntervalProg.getD_set_self _ _ _ _ (by omega)]
    exact hr
  · rw [IntervalProg.getD_set_ne _ _ _ _ _ hi] at hk'
    rw [IntervalProg.getD_set_ne _ _ _ _ _ hi, IntervalProg.getD_set_ne _ _ _ _ _ hi]
    exact h3 i k' hk'

theorem step_refines {bases : List Nat} {b : Int} (hb : b = 0 ∨ b = 1) {M M' : List Mult} {L : List L10} {X : List F}
    (s : GStmt) (h : RegRel M L X) (ha : absStep bases M s = some M') :
    RegRel M' (step limbAlg zero10 bases b L s) (step fieldAlg 0 bases b X s) := by
  unfold absStep at ha
  simp only at ha
  split at ha
  · rename_i hd
    have get := h.2.2
    unfold step
    simp only
    cases hop : s.op <;> simp only [hop] at ha ⊢ <;> (try simp only [limbAlg, fieldAlg])
    · -- mul
      split at ha
      · rename_i a c ha' hc'
        split at ha
        · rename_i hac
          cases Option.some.inj ha
          exact h.set _ hd (mul_R (get _ _ ha') (get _ _ hc') hac.1 hac.2)
        · cases ha
      · cases ha
    · -- sq
      split at ha
      · rename_i a ha'
        split at ha
        · rename_i hac
          cases Option.some.inj ha
          exact h.set _ hd (sq_R (get _ _ ha') hac)
        · cases ha
      · cases ha
    · -- sq2
      split at ha
      · rename_i a ha'
        split at ha
        · rename_i hac
          cases Option.some.inj ha
          exact h.set _ hd (sq2_R (get _ _ ha') hac)
        · cases ha
      · cases ha
    · -- add
      split at ha
      · rename_i a c ha' hc'
        split at ha
        · rename_i hac
          cases Option.some.inj ha
          exact h.set _ hd (add_R (get _ _ ha') (get _ _ hc') hac)
        · cases ha
      · cases ha
    · -- sub
      split at ha
      · rename_i a c ha' hc'
        split at ha
        · rename_i hac
          cases Option.some.inj ha
          exact h.set _ hd (sub_R (get _ _ ha') (get _ _ hc') hac)
        · cases ha
      · cases ha
    · -- neg
      split at ha
      · rename_i a ha'
        split at ha
        · rename_i hac
          cases Option.some.inj ha
          exact h.set _ hd (neg_R (get _ _ ha') hac)
        · cases ha
      · cases ha
    · -- copy
      split at ha
      · rename_i a ha'
        cases Option.some.inj ha
        exact h.set _ hd (get _ _ ha')
      · cases ha
    · -- zero
      cases Option.some.inj ha
      exact h.set _ hd zero_R
    · -- one
      cases Option.some.inj ha
      exact h.set _ hd one_R
    · -- invert
      split at ha
      · rename_i a ha'
        split at ha
        · rename_i hac
          cases Option.some.inj ha
          exact h.set _ hd (invert_R (get _ _ ha') hac)
        · cases ha
      · cases ha
    · -- pow22523
      split at ha
      · rename_i a ha'
        split at ha
        · rename_i hac
          cases Option.some.inj ha
          exact h.set _ hd (pow22523_R (get _ _ ha') hac)
        · cases ha
      · cases ha
    · -- cmove
      split at ha
      · rename_i a c ha' hc'
        split at ha
        · rename_i hac
          cases Option.some.inj ha
          exact h.set _ hd (cmove_R (get _ _ ha') (get _ _ hc') hac.1 hac.2 b hb)
        · cases ha
      · cases ha
  · cases ha

/-- **a translated method run on limbs refines its run on field elements** -/
theorem body_refines {bases : List Nat} {b : Int} (hb : b = 0 ∨ b = 1) : ∀ (body : List GStmt) {M M' : List Mult}
    {L : List L10} {X : List F}, RegRel M L X → absBody bases body M = some M' →
    RegRel M' (runBody limbAlg zero10 bases b body L) (runBody fieldAlg 0 bases b body X) := by
  intro body
  induction body with
  | nil =>
    intro M M' L X h ha
    cases Option.some.inj ha
    exact h
  | cons s ss ih =>
    intro M M' L X h ha
    simp only [absBody] at ha
    cases h1 : absStep bases M s with
    | none => simp [h1] at ha
    | some M1 =>
      simp only [h1] at ha
      exact ih (step_refines hb s h h1) ha

end Dos.GeProg

/-
C10 layer 5 — Jacobian point arithmetic of group/bn256 (curve.go over gfP, twist.go over
gfP2): `Add`, `Double`, `Mul`, `MakeAffine`, `Neg`, `IsOnCurve`, transcribed operation by
operation over ANY coordinate type `K` with `+ - * 0 1 ⁻¹`, a squaring operation (`Sq`:
gfpMul(a,a) for gfP, gfP2.Square for gfP2) and decidable equality (the code compares raw limbs).

Go methods mutate a receiver `c`; the field `t` of the receiver is NOT written by `Add`'s
general branch or by `Double`, so the functions below take the receiver's previous value and
keep its `t` (exactly what the code leaves there). curve.go and twist.go perform the same
sequence of field operations in `Add`, `Double`, `MakeAffine`, `Neg`; they differ in `Mul`
(initial accumulator) and `IsOnCurve` (twist checks the order), which are transcribed separately.
-/
import DosModel.Model.Bn256Tower

namespace Dos.Bn256

structure Jac (K : Type) where
  x : K
  y : K
  z : K
  t : K
  deriving DecidableEq, Repr, Inhabited

namespace Jac
variable {K : Type} [Add K] [Sub K] [Neg K] [Mul K] [Zero K] [One K] [Inv K] [Sq K] [DecidableEq K]

/-- SetInfinity: (0, 1, 0, 0) -/
def infinity : Jac K := ⟨0, 1, 0, 0⟩
/-- the zero value `&curvePoint{}` / `&twistPoint{}` -/
def zeroValue : Jac K := ⟨0, 0, 0, 0⟩

def isInfinity (a : Jac K) : Bool := a.z = 0

/-- `c.Double(a)`; `c` is the receiver before the call (its `t` survives) -/
def double (c a : Jac K) : Jac K :=
  let yz := a.y * a.z
  let A := Sq.sq a.x
  let B := Sq.sq a.y
  let C := Sq.sq B
  let t := a.x + B
  let t2 := Sq.sq t
  let t := t2 - A
  let t2 := t - C
  let d := t2 + t2
  let t := A + A
  let e := t + A
  let f := Sq.sq e
  let t := d + d
  let cx := f - t
  let t := C + C
  let t2 := t + t
  let t := t2 + t2
  let cy := d - cx
  let t2 := e * cy
  let cy := t2 - t
  let cz := yz + yz
  ⟨cx, cy, cz, c.t⟩

/-- `c.Add(a, b)` -/
def add (c a b : Jac K) : Jac K :=
  if a.isInfinity then b
  else if b.isInfinity then a
  else
    let z12 := Sq.sq a.z
    let z22 := Sq.sq b.z
    let u1 := a.x * z22
    let u2 := b.x * z12
    let t := b.z * z22
    let s1 := a.y * t
    let t := a.z * z12
    let s2 := b.y * t
    let h := u2 - u1
    let xEqual : Bool := h = 0
    let t := h + h
    let i := Sq.sq t
    let j := h * i
    let t := s2 - s1
    let yEqual : Bool := t = 0
    if xEqual && yEqual then double c a
    else
      let r := t + t
      let v := u1 * i
      let t4 := Sq.sq r
      let t := v + v
      let t6 := t4 - j
      let cx := t6 - t
      let t := v - cx
      let t4 := s1 * j
      let t6 := t4 + t4
      let t4 := r * t
      let cy := t4 - t6
      let t := a.z + b.z
      let t4 := Sq.sq t
      let t := t4 - z12
      let t4 := t - z22
      let cz := t4 * h
      ⟨cx, cy, cz, c.t⟩

def neg (a : Jac K) (tNew : K) : Jac K := ⟨a.x, -a.y, a.z, tNew⟩

/-- MakeAffine (in place) -/
def makeAffine (c : Jac K) : Jac K :=
  if c.z = 1 then c
  else if c.z = 0 then ⟨0, 1, c.z, 0⟩
  else
    let zInv := c.z⁻¹
    let t := c.y * zInv
    let zInv2 := Sq.sq zInv
    ⟨c.x * zInv2, t * zInv2, 1, 1⟩

/-- the scalar-multiplication loop shared by curve.go and twist.go: for i = BitLen … 0:
`t.Double(sum)`; if bit i then `sum.Add(t, a)` else `sum.Set(t)` -/
def mulLoop (a : Jac K) (scalar : Nat) (sum0 t0 : Jac K) : Jac K :=
  ((List.range (Fp12.bitLen scalar + 1)).reverse.foldl
    (fun (st : Jac K × Jac K) i =>
      let t := double st.2 st.1
      let sum := if scalar.testBit i then add st.1 t a else t
      (sum, t)) (sum0, t0)).1

/-- curvePoint.Mul: the accumulator starts at SetInfinity -/
def curveMul (a : Jac K) (scalar : Nat) : Jac K := mulLoop a scalar infinity zeroValue
/-- twistPoint.Mul: the accumulator starts at the zero value (no SetInfinity) -/
def twistMul (a : Jac K) (scalar : Nat) : Jac K := mulLoop a scalar zeroValue zeroValue

/-- the on-curve test both IsOnCurve functions perform after MakeAffine: y² = x³ + b -/
def onCurveAffine (b : K) (c : Jac K) : Bool :=
  let y2 := Sq.sq c.y
  let x3 := Sq.sq c.x * c.x + b
  y2 = x3

end Jac

/-- curvePoint.Neg sets t to gfP{0}; twistPoint.Neg keeps t (after fix 4406972) -/
def curveNeg (a : Jac GFp) : Jac GFp := a.neg 0
def twistNeg (a : Jac (Fp2 GFp)) : Jac (Fp2 GFp) := a.neg a.t

/-- curvePoint.IsOnCurve -/
def curveIsOnCurve (c : Jac GFp) : Bool :=
  let c := c.makeAffine
  if c.isInfinity then true
  else
    let y2 := c.y * c.y
    let x3 := c.x * c.x
    let x3 := x3 * c.x
    let x3 := x3 + GFp.newGFp 3
    y2 = x3

end Dos.Bn256

/-
C14, round 4 — EVERY FAIR RUN TERMINATES (AF), and the semantic content of W6 / of the collector
half of W7.

`Props/C14.lean` proves "can always terminate" (EF: a terminating schedule exists from every
reachable state after the cancellation).  This file proves termination of every run under an
explicit fairness hypothesis, `Fair` (`Model/PipeRun.lean`):

  weak    a goroutine that has an enabled step at every position from some position on moves;
  cancel  a goroutine that infinitely often leaves a `select` while its `<-ctx_k.Done()` alternative
          is enabled infinitely often leaves it through that alternative — what Go's uniformly
          random choice among the ready alternatives gives with probability 1;
  timer   the same for a timer / ticker alternative ("timers fire");
  data    a goroutine that infinitely often leaves an internal choice takes each successor
          infinitely often ("data loops and external calls terminate" — an assumption about the code).

Runs (`Run p`) are infinite sequences of states from the initial state in which every position is a
step of `Step` or a stutter; a finite maximal run is one that stutters for ever from some position
on.  `r.Terminates`: from some position on, for ever, no pipeline goroutine runs and every channel
that a pipeline goroutine closes on all its paths is closed.  No bound on anything.

Weak fairness alone does not suffice: `weak_fairness_is_not_enough` is the counter-run of
design/C14.md as a theorem.
-/
import DosModel.Props.C14
import DosModel.Proofs.PipeFairDemo

namespace Dos.Props.C14
open Dos Dos.Pipe Dos.Gen.Pipes

/-! ## 1. every fair run terminates -/

/-- **all_fair_runs_terminate** (AF).  For EVERY pipeline IR that passes W0, the close / wait-group
disciplines (SafeOk: W1, W5) and the liveness rules (LiveOk: W2–W4): every fair run in which the
pipeline context (context 0) is eventually done reaches, and never leaves again, a state in which
no pipeline goroutine runs and every channel with a pipeline closer is closed.  Any number of
goroutines, channels, buffer sizes, any cancellation instant, any interleaving before and after it. -/
theorem all_fair_runs_terminate (p : Pipeline) (h0 : W0 p = true) (hs : SafeOk p = true)
    (hl : LiveOk p = true) (r : Run p) (hf : Fair r) (hc : ∃ i, (r.st i).ctxDone 0 = true) :
    r.Terminates :=
  fair_run_terminates hl (safe_pipeline_never_crashes p h0 hs) hf hc

/-- non-vacuity: the demo fan-in (upstream stage → fan-in goroutine → caller, closer behind a wait
group) meets the hypotheses, and `Demo.fairRun` is a fair run of it in which a value travels through
the pipeline (position 2), the deadline fires (position 4) and the last goroutine returns at
position 15 with both channels closed -/
example : Demo.fairRun.Terminates ∧
    (Demo.fairRun.st 2).len 1 = 1 ∧ (Demo.fairRun.st 3).ctxDone 0 = false ∧
    (Demo.fairRun.st 14).gs[1]? = some (.at 1) ∧ (Demo.fairRun.st 15).gs = [.done, .done, .done, .done] :=
  ⟨all_fair_runs_terminate Demo.fanin Demo.fanin_wf.1 Demo.fanin_wf.2.1 Demo.fanin_wf.2.2 Demo.fairRun
      Demo.fairRun_fair ⟨4, Demo.fairRun_cancelled⟩,
   Demo.fairRun_nontrivial.1, Demo.fairRun_nontrivial.2.1, Demo.fairRun_nontrivial.2.2.1,
   Demo.fairRun_nontrivial.2.2.2.1⟩

/-- **weak_fairness_is_not_enough.**  There is a pipeline passing every rule and an infinite run of
it that is weakly fair (every goroutine that is enabled from some position on moves — here the
upstream stage, the fan-in goroutine and the caller each move infinitely often, the closer is
never enabled), satisfies the `timer` and `data` clauses of `Fair`, has its context done from
position 1 on — and in which no position is quiet: the upstream stage never returns.  The only
clause of `Fair` it violates is `cancel`: at every execution of a `select` with both the
communication and `<-ctx.Done()` ready it picks the communication.  Under Go's uniformly random
`select` this run (and every run like it) has probability 0. -/
theorem weak_fairness_is_not_enough :
    ∃ (p : Pipeline) (r : Run p), W0 p = true ∧ SafeOk p = true ∧ LiveOk p = true ∧
      WeakFair r ∧ (∀ g pc n, ChoiceFair r g pc .tick n) ∧ (∀ g pc n, ChoiceFair r g pc .tau n) ∧
      (r.st 1).ctxDone 0 = true ∧ ∀ i, ¬ Quiet p (r.st i) :=
  ⟨Demo.fanin, Demo.spin, Demo.fanin_wf.1, Demo.fanin_wf.2.1, Demo.fanin_wf.2.2, Demo.spin_weakFair,
   fun g pc n => Demo.spin_choice_vacuous g pc _ n (Or.inl rfl),
   fun g pc n => Demo.spin_choice_vacuous g pc _ n (Or.inr rfl),
   Demo.spin_cancelled, Demo.spin_never_quiet⟩

/-- the counter-run is a cycle of three steps: upstream → fan-in (rendezvous), fan-in → merged channel,
merged channel → caller; and it is not fair -/
example : Demo.spin.ev 1 = some (.sync 0 2 0) ∧ Demo.spin.ev 2 = some (.act 2 (.send 1)) ∧
    Demo.spin.ev 3 = some (.act 1 (.recvOk 1)) ∧ Demo.spin.st 4 = Demo.spin.st 1 ∧ ¬ Fair Demo.spin := by
  refine ⟨rfl, rfl, rfl, by decide +kernel, fun hf => ?_⟩
  have := all_fair_runs_terminate Demo.fanin Demo.fanin_wf.1 Demo.fanin_wf.2.1 Demo.fanin_wf.2.2 Demo.spin hf
    ⟨1, Demo.spin_cancelled⟩
  obtain ⟨T, hT⟩ := this
  exact Demo.spin_never_quiet T (hT T (Nat.le_refl _)).1

/-! ## 2. the regenerated pipelines: every fair run terminates -/

/-- for a pipeline whose violations are all recorded benign findings (on this tree: none at all) -/
theorem pipeline_every_fair_run_terminates (p : Pipeline)
    (h : subsetOf (violations p) Gen.PipeKnown.sites = true) (r : Run p) (hf : Fair r)
    (hc : ∃ i, (r.st i).ctxDone 0 = true) : r.Terminates := by
  obtain ⟨h0, hs, hl⟩ := wf_of_no_violation p (benign_of_subset h known_findings_are_benign)
  exact all_fair_runs_terminate p h0 hs hl r hf hc

example : subsetOf (violations helper_dosnode_mergeErrors) Gen.PipeKnown.sites = true := by decide +kernel

/-- the three query pipelines of `handleQuery` (system random, user random, URL query): every fair
run in which the deadline fires (or `cancel()` is called) ends with all pipeline goroutines returned
and every stage channel closed, for ever -/
theorem query_pipelines_every_fair_run_terminates :
    (∀ (r : Run query_sys), Fair r → (∃ i, (r.st i).ctxDone 0 = true) → r.Terminates) ∧
    (∀ (r : Run query_user), Fair r → (∃ i, (r.st i).ctxDone 0 = true) → r.Terminates) ∧
    (∀ (r : Run query_url), Fair r → (∃ i, (r.st i).ctxDone 0 = true) → r.Terminates) :=
  ⟨pipeline_every_fair_run_terminates _ query_sys_wf, pipeline_every_fair_run_terminates _ query_user_wf,
   pipeline_every_fair_run_terminates _ query_url_wf⟩

/-- non-vacuity on the regenerated IR: the stage channels of the system-random pipeline are among
the channels `Terminates` talks about (each has a static pipeline closer that closes on every path) -/
example : (query_sys.gs.filter (fun gr => gr.static && !gr.daemon &&
      (List.range query_sys.chans.length).any (fun c => gr.hasClose c && closesOnAllPaths gr c))).length ≥ 6 := by
  decide +kernel

/-- the p2p client pipes (`client.run`) -/
theorem p2p_client_every_fair_run_terminates (r : Run p2p_client) (hf : Fair r)
    (hc : ∃ i, (r.st i).ctxDone 0 = true) : r.Terminates :=
  pipeline_every_fair_run_terminates _ p2p_client_wf r hf hc

example : W0 p2p_client = true ∧ SafeOk p2p_client = true ∧ LiveOk p2p_client = true :=
  wf_of_no_violation _ (benign_of_subset p2p_client_wf known_findings_are_benign)

/-- every fan-in / subscribe helper with its generic upstream stages and caller loop -/
theorem helpers_every_fair_run_terminates :
    ∀ p ∈ [helper_dosnode_mergeErrors, helper_dosnode_fanIn, helper_utils_MergeErrors, helper_onchain_merge,
      helper_onchain_mergeError, helper_onchain_first, helper_onchain_firstEvent, helper_p2p_merge,
      helper_dkg_mergeErrors, helper_dkg_fanOut],
    ∀ (r : Run p), Fair r → (∃ i, (r.st i).ctxDone 0 = true) → r.Terminates := by
  intro p hp
  apply pipeline_every_fair_run_terminates
  have h := helpers_wf
  rw [List.all_eq_true] at h
  exact h p hp

/-- a fair run of the REGENERATED `helper.dosnode.mergeErrors` (`Demo.helperTrace`): an error travels
upstream → fan-in → merged channel → caller, the deadline fires, everybody leaves -/
example : ∃ (h : traceOk helper_dosnode_mergeErrors Demo.helperTrace = true),
    Fair (Run.ofTrace helper_dosnode_mergeErrors Demo.helperTrace h) ∧
    (Run.ofTrace helper_dosnode_mergeErrors Demo.helperTrace h).Terminates ∧
    ((Run.ofTrace helper_dosnode_mergeErrors Demo.helperTrace h).st 21).closed 2 = true := by
  have h : traceOk helper_dosnode_mergeErrors Demo.helperTrace = true := by decide +kernel
  have hf := ofTrace_fair helper_dosnode_mergeErrors Demo.helperTrace h (by decide +kernel)
  have h21 : (traceSt helper_dosnode_mergeErrors Demo.helperTrace 21).closed 2 = true := by decide +kernel
  have h4 : (traceSt helper_dosnode_mergeErrors Demo.helperTrace 4).ctxDone 0 = true := by decide +kernel
  have hall := helpers_every_fair_run_terminates helper_dosnode_mergeErrors (List.Mem.head _)
  refine ⟨h, hf, hall _ hf ⟨4, ?_⟩, ?_⟩
  · rw [ofTrace_st]; exact h4
  · rw [ofTrace_st]; exact h21

/-! ## 3. the collector half of W7, semantically -/

/-- **collector_eventually_closes.**  For every pipeline IR passing W0, SafeOk, LiveOk: a collector
goroutine `d` (typically a daemon: queryLoop, pdkg.Loop) that passes `CollectorOk` for channel `c`
handed off on `rr` — from every node at which it holds `c` an escape edge (request context 0, else
its own timer, …) leads towards `close c`; the labeling is closed forwards; its nodes pass W2/W3 —
and that holds `c` at some position of a fair run in which context 0 is eventually done, later closes
`c` (and `c` stays closed) or has itself returned (shutdown of the node). -/
theorem collector_eventually_closes (p : Pipeline) (h0 : W0 p = true) (hs : SafeOk p = true)
    (hl : LiveOk p = true) (r : Run p) (hf : Fair r) (hc : ∃ i, (r.st i).ctxDone 0 = true)
    (d : Gi) (gd : Goroutine) (c rr : Ch) (hg : p.gs[d]? = some gd) (hok : CollectorOk p d gd c rr = true)
    (i0 : Nat) (pc0 : Pc) (hat : (r.st i0).gs[d]? = some (.at pc0)) (hown : mark (ownD gd c rr) pc0 = true) :
    ∃ j, i0 ≤ j ∧ ((∀ j', j ≤ j' → (r.st j').closed c = true) ∨ (r.st j).gs[d]? = some .done) := by
  obtain ⟨j, hj, h⟩ := collector_closes hl (safe_pipeline_never_crashes p h0 hs) hf hc hg hok hat hown
  rcases h with h | h
  · exact ⟨j, hj, Or.inl (r.closed_stable h)⟩
  · exact ⟨j, hj, Or.inr h⟩

/-- non-vacuity: `Demo.handoff` (a creator registers its reply channel with a daemon collector);
in `Demo.handoffRun` the collector holds the channel at position 3, the context is done at 5, the
channel is closed at 7 -/
example : (∃ j, 3 ≤ j ∧ ((∀ j', j ≤ j' → (Demo.handoffRun.st j').closed 0 = true) ∨
      (Demo.handoffRun.st j).gs[1]? = some .done)) ∧
    (Demo.handoffRun.st 3).closed 0 = false ∧ (Demo.handoffRun.st 7).closed 0 = true :=
  ⟨collector_eventually_closes Demo.handoff Demo.handoff_wf.1 Demo.handoff_wf.2.1 Demo.handoff_wf.2.2.1
      Demo.handoffRun Demo.handoffRun_fair ⟨5, Demo.handoffRun_facts.2.2.2.1⟩ 1 _ 0 1 rfl (by decide +kernel)
      3 1 Demo.handoffRun_facts.1 Demo.handoffRun_facts.2.1,
   Demo.handoffRun_facts.2.2.1, Demo.handoffRun_facts.2.2.2.2⟩

/-- all hand-offs of a pipeline at once -/
theorem collectors_eventually_close (p : Pipeline) (h : subsetOf (violations p) Gen.PipeKnown.sites = true)
    (hco : CollectorsOk p = true) (r : Run p) (hf : Fair r) (hc : ∃ i, (r.st i).ctxDone 0 = true) :
    ∀ x ∈ handoffs p, ∀ gd, p.gs[x.1]? = some gd → ∀ i0 pc0, (r.st i0).gs[x.1]? = some (.at pc0) →
      mark (ownD gd x.2.1 x.2.2) pc0 = true →
      ∃ j, i0 ≤ j ∧ ((∀ j', j ≤ j' → (r.st j').closed x.2.1 = true) ∨ (r.st j).gs[x.1]? = some .done) := by
  obtain ⟨h0, hs, hl⟩ := wf_of_no_violation p (benign_of_subset h known_findings_are_benign)
  intro x hx gd hg i0 pc0 hat hown
  unfold CollectorsOk at hco
  rw [List.all_eq_true] at hco
  have hok := hco x hx
  rw [hg] at hok
  exact collector_eventually_closes p h0 hs hl r hf hc x.1 gd x.2.1 x.2.2 hg hok i0 pc0 hat hown

example : handoffs Demo.handoff = [(1, 0, 1)] ∧ CollectorsOk Demo.handoff = true :=
  ⟨Demo.handoff_wf.2.2.2.1, Demo.handoff_wf.2.2.2.2⟩

/-- the query pipelines: `dispatchSign` hands its reply channel to `queryLoop` (over `reqSignc`);
once `queryLoop` has taken the registration it closes the reply channel in every fair run in which
the request's context ends (its watchdog ticker brings it to the `<-ctx.Done()` check) — or the node
shuts down.  The hand-off exists in each of the three pipelines (first conjunct). -/
theorem query_collector_closes_reply_channel :
    ((handoffs query_sys).length = 1 ∧ (handoffs query_user).length = 1 ∧ (handoffs query_url).length = 1) ∧
    ∀ p ∈ [query_sys, query_user, query_url], ∀ (r : Run p), Fair r → (∃ i, (r.st i).ctxDone 0 = true) →
      ∀ x ∈ handoffs p, ∀ gd, p.gs[x.1]? = some gd → ∀ i0 pc0, (r.st i0).gs[x.1]? = some (.at pc0) →
        mark (ownD gd x.2.1 x.2.2) pc0 = true →
        ∃ j, i0 ≤ j ∧ ((∀ j', j ≤ j' → (r.st j').closed x.2.1 = true) ∨ (r.st j).gs[x.1]? = some .done) := by
  refine ⟨by decide +kernel, ?_⟩
  intro p hp r hf hc
  simp only [List.mem_cons, List.mem_nil_iff, or_false] at hp
  rcases hp with rfl | rfl | rfl
  · exact collectors_eventually_close _ query_sys_wf (by decide +kernel) r hf hc
  · exact collectors_eventually_close _ query_user_wf (by decide +kernel) r hf hc
  · exact collectors_eventually_close _ query_url_wf (by decide +kernel) r hf hc

/-- the hand-off of the regenerated system-random pipeline is dispatchSign's reply channel, taken by
queryLoop from `reqSignc`; queryLoop holds it at six or more nodes -/
example : (handoffs query_sys).map (fun x => (query_sys.gname x.1, query_sys.cname x.2.1, query_sys.cname x.2.2)) =
      [("dosnode.queryLoop", "dosnode.dispatchSign.out", "dosnode.DosNode.reqSignc")] ∧
    (handoffs query_sys).all (fun x => match query_sys.gs[x.1]? with
      | some gd => decide (6 ≤ ((ownD gd x.2.1 x.2.2).filter id).length)
      | none => false) = true := by decide +kernel

/-! ## 4. W6, semantically -/

/-- **send_not_blocked_when_consumer_ready** (what weak fairness gives a send, before or after the
deadline).  No crash reachable; goroutine `g` is weakly fair and stands at position `T` at a `select`
with a send on `c`; as long as `g` has not moved a consumer of `c` is ready (room in the buffer, or,
unbuffered, another goroutine standing at a receive on `c`): then `g` moves — it is not blocked for
ever.  W6 is the static necessary condition for the hypothesis: see the next theorem. -/
theorem send_not_blocked_when_consumer_ready (p : Pipeline) (hsafe : NoCrash p) (r : Run p) (g : Gi)
    (hw : WeakFairG r g) (T : Nat) (pc n : Pc) (nd : Node) (c : Ch)
    (hat : (r.st T).gs[g]? = some (.at pc)) (hnd : p.node g pc = some nd) (hed : (Lab.send c, n) ∈ nd.edges)
    (hready : ∀ i, T ≤ i → (∀ j, T ≤ j → j < i → ¬ r.movesAt g j) → ConsumerReady p (r.st i) g c) :
    ∃ i, T ≤ i ∧ r.movesAt g i :=
  send_moves hsafe hw hat hnd hed hready

/-- non-vacuity: in the (unfair, but weakly fair) counter-run the upstream stage stands at its send at
position 1 with the fan-in goroutine waiting at its receive -/
example : ∃ i, 1 ≤ i ∧ Demo.spin.movesAt 0 i := by
  apply send_not_blocked_when_consumer_ready Demo.fanin
    (safe_pipeline_never_crashes _ Demo.fanin_wf.1 Demo.fanin_wf.2.1) Demo.spin 0 (Demo.spin_weakFair 0) 1 0 0
    (.sel [.send 0 0, .ctx 0 1]) 0 (by decide) rfl (by simp [Node.edges, Alt.edges])
  intro i hi hnm
  have : i = 1 := by
    apply Classical.byContradiction
    intro hne
    exact hnm 1 (Nat.le_refl _) (by omega) ⟨_, rfl, by decide⟩
  subst this
  exact Or.inr ⟨rfl, 2, 0, _, 1, by decide, by decide, rfl, by simp [Node.edges, Alt.edges]⟩

/-- **receiverless_send_blocks_forever** (why W6 is a rule).  If no goroutine of the pipeline has a
receive on `c`, a goroutine that stands at the bare send `c <- v` while the buffer of `c` is full
stays there and has no enabled step at any later position of ANY run — fair or not, cancelled or not. -/
theorem receiverless_send_blocks_forever (p : Pipeline) (c : Ch) (h : Receiverless p c) (r : Run p)
    (g : Gi) (T : Nat) (pc n : Pc) (hat : (r.st T).gs[g]? = some (.at pc))
    (hnd : p.node g pc = some (.sel [.send c n])) (hfull : p.cap c ≤ (r.st T).len c) :
    ∀ i, T ≤ i → (r.st i).gs[g]? = some (.at pc) ∧ ¬ Enabled p (r.st i) g :=
  receiverless_blocks h r hat hnd hfull

example : ∀ i, 0 ≤ i → (Demo.lostRun.st i).gs[0]? = some (.at 0) ∧ ¬ Enabled Demo.lost (Demo.lostRun.st i) 0 :=
  receiverless_send_blocks_forever Demo.lost 0 Demo.lost_receiverless Demo.lostRun 0 0 0 1 rfl rfl (by decide)

/-- in the regenerated pipelines no channel somebody sends on is without a receiver (rule W6), so the
permanent block of `receiverless_send_blocks_forever` cannot come from a missing receiver -/
theorem regenerated_pipelines_have_receivers :
    ∀ p ∈ [query_sys, query_user, query_url, p2p_client, helper_dosnode_mergeErrors, helper_dosnode_fanIn,
      helper_utils_MergeErrors, helper_onchain_merge, helper_onchain_mergeError, helper_onchain_first,
      helper_onchain_firstEvent, helper_p2p_merge, helper_dkg_mergeErrors, helper_dkg_fanOut],
    ∀ c, c < p.chans.length → ∀ gr ∈ p.gs, gr.hasSend c = true → ¬ Receiverless p c := by
  intro p hp c hc gr hgr hsend
  have h : [query_sys, query_user, query_url, p2p_client, helper_dosnode_mergeErrors, helper_dosnode_fanIn,
      helper_utils_MergeErrors, helper_onchain_merge, helper_onchain_mergeError, helper_onchain_first,
      helper_onchain_firstEvent, helper_p2p_merge, helper_dkg_mergeErrors, helper_dkg_fanOut].all W6 = true := by
    decide +kernel
  rw [List.all_eq_true] at h
  exact W6_not_receiverless (h p hp) hc hgr hsend

example : query_sys.gs.any (fun gr => gr.hasSend 4) = true := by decide +kernel

end Dos.Props.C14

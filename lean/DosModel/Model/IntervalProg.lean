/-
C20 (round 2) — straight-line int64 programs as DATA, their semantics, and an interval abstract
interpreter.  Core Lean only.

`go/extract/ed25519prog` emits the five ref10 scalar routines of group/edwards25519/scalar.go as
values of `ScProg` (Gen/Ed25519ScProg.lean).  This file defines

  * `Expr`, `Stmt`, `Prog`: expressions over numbered variables, statements `x := e`;
  * `Expr.evalW w`, `evalProgW w`: the semantics, parametrised by the function `w` applied to the
    result of every operation that can leave the int64 range:  `w = id` is the unbounded-`Int`
    semantics the C20 theorems are about (`Expr.eval`),  `w = wrap` is Go's wrapping int64
    semantics (`Expr.eval64`);
  * `Expr.Safe`, `SafeProg`: every (sub)expression value, computed in unbounded `Int`, is an int64;
  * `absExpr`, `absStmt`, `absProg`: the interval abstract interpreter; it answers `none` as soon as
    an interval leaves [-2^63, 2^63-1].  Besides one interval per variable the abstract state keeps
    ONE relational fact `c = (s + off) >> k` (the last carry computed), which lets the statement
    `s := s - (c << k)` be given the interval [-off, 2^k - 1 - off] (plain interval arithmetic loses
    the correlation between a limb and its carry);
  * the phase structure of a scalar routine (`ScProg`: loads, init, blocks, store) with its concrete
    (`ScProg.run…`) and abstract (`abs…`) semantics.

Soundness of the abstract interpreter: Proofs/IntervalProg.lean.  Tie of the emitted data to the
functions of Gen/Ed25519Sc.lean: Proofs/Ed25519RangesTie.lean.
-/
import DosModel.Model.Ed25519Scalar

namespace Dos.IntervalProg
open Dos Dos.Ed25519

/-! ### syntax -/

inductive Expr where
  | v (i : Nat)
  | c (n : Int)
  | add (a b : Expr)
  | sub (a b : Expr)
  | mul (a b : Expr)
  | shr (a : Expr) (k : Nat)
  | shl (a : Expr) (k : Nat)
  | band (a b : Expr)
  | bor (a b : Expr)
  deriving Repr, Inhabited

structure Stmt where
  dst : Nat
  rhs : Expr
  deriving Repr, Inhabited

abbrev Prog := List Stmt
abbrev Env := List Int

/-! ### concrete semantics -/

def minI64 : Int := -9223372036854775808
def maxI64 : Int := 9223372036854775807

/-- `x` is representable as an int64 -/
def I64 (x : Int) : Prop := minI64 ≤ x ∧ x ≤ maxI64

/-- two's-complement wrap-around of an integer to int64 -/
def wrap (x : Int) : Int := (x + 9223372036854775808) % 18446744073709551616 - 9223372036854775808

/-- value of an expression; `w` is applied to the result of `+ - * << & |` (`>>` of an int64 is an int64) -/
def Expr.evalW (w : Int → Int) (ρ : Env) : Expr → Int
  | .v i => ρ.getD i 0
  | .c n => n
  | .add a b => w (a.evalW w ρ + b.evalW w ρ)
  | .sub a b => w (a.evalW w ρ - b.evalW w ρ)
  | .mul a b => w (a.evalW w ρ * b.evalW w ρ)
  | .shr a k => shrI (a.evalW w ρ) k
  | .shl a k => w (Ed25519.shl (a.evalW w ρ) k)
  | .band a b => w (Ed25519.band (a.evalW w ρ) (b.evalW w ρ))
  | .bor a b => w (Ed25519.bor (a.evalW w ρ) (b.evalW w ρ))

/-- unbounded-`Int` semantics (what Gen/Ed25519Sc.lean computes) -/
abbrev Expr.eval (ρ : Env) (e : Expr) : Int := e.evalW id ρ
/-- Go's int64 semantics: every result wraps around -/
abbrev Expr.eval64 (ρ : Env) (e : Expr) : Int := e.evalW wrap ρ

/-- every subexpression, evaluated in unbounded `Int`, is representable as an int64 -/
def Expr.Safe (ρ : Env) : Expr → Prop
  | .v i => I64 (ρ.getD i 0)
  | .c n => I64 n
  | .add a b => a.Safe ρ ∧ b.Safe ρ ∧ I64 (a.eval ρ + b.eval ρ)
  | .sub a b => a.Safe ρ ∧ b.Safe ρ ∧ I64 (a.eval ρ - b.eval ρ)
  | .mul a b => a.Safe ρ ∧ b.Safe ρ ∧ I64 (a.eval ρ * b.eval ρ)
  | .shr a k => a.Safe ρ ∧ I64 (shrI (a.eval ρ) k)
  | .shl a k => a.Safe ρ ∧ I64 (Ed25519.shl (a.eval ρ) k)
  | .band a b => a.Safe ρ ∧ b.Safe ρ ∧ I64 (Ed25519.band (a.eval ρ) (b.eval ρ))
  | .bor a b => a.Safe ρ ∧ b.Safe ρ ∧ I64 (Ed25519.bor (a.eval ρ) (b.eval ρ))

def evalProgW (w : Int → Int) (ρ : Env) : Prog → Env
  | [] => ρ
  | s :: p => evalProgW w (ρ.set s.dst (s.rhs.evalW w ρ)) p

abbrev evalProg (ρ : Env) (p : Prog) : Env := evalProgW id ρ p
abbrev evalProg64 (ρ : Env) (p : Prog) : Env := evalProgW wrap ρ p

/-- no statement of the program overflows when run (in unbounded `Int`) from `ρ` -/
def SafeProg (ρ : Env) : Prog → Prop
  | [] => True
  | s :: p => s.rhs.Safe ρ ∧ SafeProg (ρ.set s.dst (s.rhs.eval ρ)) p

/-! ### interval abstract interpreter -/

/-- closed interval [lo, hi] -/
abbrev Itv := Int × Int

def Itv.mem (x : Int) (i : Itv) : Prop := i.1 ≤ x ∧ x ≤ i.2

/-- keep an interval only if it lies in the int64 range -/
def chk (i : Itv) : Option Itv :=
  if minI64 ≤ i.1 ∧ i.2 ≤ maxI64 then some i else none

/-- number of bits of a non-negative integer -/
def bitlen (n : Int) : Nat := n.toNat.log2 + 1

def absExpr (A : List Itv) : Expr → Option Itv
  | .v i => chk (A.getD i (0, 0))
  | .c n => chk (n, n)
  | .add a b =>
    match absExpr A a, absExpr A b with
    | some x, some y => chk (x.1 + y.1, x.2 + y.2)
    | _, _ => none
  | .sub a b =>
    match absExpr A a, absExpr A b with
    | some x, some y => chk (x.1 - y.2, x.2 - y.1)
    | _, _ => none
  | .mul a b =>
    match absExpr A a, absExpr A b with
    | some x, some y =>
      chk (min (min (x.1 * y.1) (x.1 * y.2)) (min (x.2 * y.1) (x.2 * y.2)),
           max (max (x.1 * y.1) (x.1 * y.2)) (max (x.2 * y.1) (x.2 * y.2)))
    | _, _ => none
  | .shr a k =>
    match absExpr A a with
    | some x => chk (shrI x.1 k, shrI x.2 k)
    | none => none
  | .shl a k =>
    match absExpr A a with
    | some x => chk (Ed25519.shl x.1 k, Ed25519.shl x.2 k)
    | none => none
  | .band a b =>
    match absExpr A a, absExpr A b with
    | some x, some y => if 0 ≤ x.1 ∧ 0 ≤ y.1 then chk (0, min x.2 y.2) else none
    | _, _ => none
  | .bor a b =>
    match absExpr A a, absExpr A b with
    | some x, some y => if 0 ≤ x.1 ∧ 0 ≤ y.1 then chk (0, 2 ^ bitlen (max x.2 y.2) - 1) else none
    | _, _ => none

/-- the relational fact `ρ[cv] = (ρ[sv] + off) >> k` -/
structure Fact where
  cv : Nat
  sv : Nat
  off : Int
  k : Nat
  deriving Repr

def Fact.holds (f : Fact) (ρ : Env) : Prop := ρ.getD f.cv 0 = shrI (ρ.getD f.sv 0 + f.off) f.k

structure AState where
  itv : List Itv
  fact : Option Fact
  deriving Repr

/-- a variable-free rounding constant: `n` or `n << j` -/
def constVal : Expr → Option Int
  | .c n => some n
  | .shl (.c n) j => some (Ed25519.shl n j)
  | _ => none

/-- `dst := x >> k`  or  `dst := (x + const) >> k`  with  `x ≠ dst`  creates a fact -/
def newFact (dst : Nat) : Expr → Option Fact
  | .shr (.v x) k => if x = dst then none else some ⟨dst, x, 0, k⟩
  | .shr (.add (.v x) e) k =>
    match constVal e with
    | some off => if x = dst then none else some ⟨dst, x, off, k⟩
    | none => none
  | _ => none

/-- the fact after the statement: a new one, or the old one if neither of its variables is overwritten -/
def stepFact (fact : Option Fact) (s : Stmt) : Option Fact :=
  match newFact s.dst s.rhs with
  | some f => some f
  | none =>
    match fact with
    | some f => if s.dst = f.cv ∨ s.dst = f.sv then none else some f
    | none => none

/-- `x - (c << k)` where `c = (x + off) >> k`  is  `(x + off) mod 2^k - off` -/
def refine (fact : Option Fact) (e : Expr) (i : Itv) : Itv :=
  match fact, e with
  | some f, .sub (.v x) (.shl (.v y) k) =>
    if x = f.sv ∧ y = f.cv ∧ k = f.k then (max i.1 (-f.off), min i.2 (2 ^ k - 1 - f.off)) else i
  | _, _ => i

/-- one abstract step; `none` if the right-hand side may overflow or the target is not a variable of the environment -/
def absStmt (σ : AState) (s : Stmt) : Option AState :=
  if s.dst < σ.itv.length then
    match absExpr σ.itv s.rhs with
    | some i => some ⟨σ.itv.set s.dst (refine σ.fact s.rhs i), stepFact σ.fact s⟩
    | none => none
  else none

def absProg (σ : AState) : Prog → Option AState
  | [] => some σ
  | s :: p =>
    match absStmt σ s with
    | some σ' => absProg σ' p
    | none => none

/-! ### the phases of a scalar routine -/

structure ScProg where
  /-- number of byte-array inputs -/
  nArr : Nat
  /-- the `load3`/`load4` calls: (3 | 4, array index, offset) -/
  raw : List (Nat × Nat × Nat)
  /-- load definitions over the environment  raw ++ load variables -/
  loads : Prog
  nLoad : Nat
  /-- limb definitions over the environment  load variables ++ defined variables -/
  init : Prog
  nInit : Nat
  /-- index of limb s0 … s23 in the init environment -/
  out : List Nat
  nCarry : Nat
  /-- blocks over the environment  s0 … s23 ++ carry[0 … nCarry-1] -/
  blocks : List Prog
  /-- arguments of `byte(…)` of the 32 output bytes, over s0 … s23 -/
  store : List Expr

def slice (off n : Nat) (ρ : Env) : Env := (List.range n).map (fun i => ρ.getD (off + i) 0)
def zeros (n : Nat) : Env := List.replicate n 0
/-- the first `n` entries of `ρ` followed by `m` zero-initialised variables -/
def enter (n m : Nat) (ρ : Env) : Env := slice 0 n ρ ++ zeros m

def rawVal (arrs : List Bytes) (r : Nat × Nat × Nat) : Int :=
  if r.1 = 3 then load3 (sl (arrs.getD r.2.1 []) r.2.2) else load4 (sl (arrs.getD r.2.1 []) r.2.2)

namespace ScProg

def rawVals (p : ScProg) (arrs : List Bytes) : Env := p.raw.map (rawVal arrs)

/-- raw loads ↦ load variables -/
def loadW (w : Int → Int) (p : ScProg) (raws : Env) : Env :=
  slice p.raw.length p.nLoad (evalProgW w (enter p.raw.length p.nLoad raws) p.loads)

/-- load variables ↦ limbs s0 … s23 -/
def initW (w : Int → Int) (p : ScProg) (lv : Env) : Env :=
  p.out.map (fun j => (evalProgW w (enter p.nLoad p.nInit lv) p.init).getD j 0)

/-- one block: limbs ↦ limbs ++ carries (the carry array is local to the block) -/
def blockW (w : Int → Int) (nCarry : Nat) (b : Prog) (ρ : Env) : Env :=
  evalProgW w (enter 24 nCarry ρ) b

def blocksW (w : Int → Int) (nCarry : Nat) (bs : List Prog) (ρ : Env) : Env :=
  bs.foldl (fun ρ b => blockW w nCarry b ρ) ρ

/-- limbs ↦ the 32 output bytes -/
def storeW (w : Int → Int) (p : ScProg) (ρ : Env) : Bytes :=
  p.store.map (fun e => byte (e.evalW w (slice 0 24 ρ)))

/-- load variables ↦ final limbs -/
def limbsW (w : Int → Int) (p : ScProg) (lv : Env) : Env :=
  blocksW w p.nCarry p.blocks (initW w p lv)

/-- the whole routine on byte arrays -/
def runW (w : Int → Int) (p : ScProg) (arrs : List Bytes) : Bytes :=
  storeW w p (limbsW w p (loadW w p (p.rawVals arrs)))

/-- no overflow in a sequence of blocks run from limbs `ρ` -/
def SafeBlocks (nCarry : Nat) : List Prog → Env → Prop
  | [], _ => True
  | b :: bs, ρ => SafeProg (enter 24 nCarry ρ) b ∧ SafeBlocks nCarry bs (blockW id nCarry b ρ)

/-- no int64 overflow anywhere in the routine when run from the raw loads `raws` -/
def SafeFrom (p : ScProg) (raws : Env) : Prop :=
  SafeProg (enter p.raw.length p.nLoad raws) p.loads
  ∧ SafeProg (enter p.nLoad p.nInit (loadW id p raws)) p.init
  ∧ SafeBlocks p.nCarry p.blocks (initW id p (loadW id p raws))
  ∧ ∀ e ∈ p.store, e.Safe (slice 0 24 (limbsW id p (loadW id p raws)))

/-- no int64 overflow from the load variables on (init, blocks, store) -/
def SafeLimbs (p : ScProg) (lv : Env) : Prop :=
  SafeProg (enter p.nLoad p.nInit lv) p.init
  ∧ SafeBlocks p.nCarry p.blocks (initW id p lv)
  ∧ ∀ e ∈ p.store, e.Safe (slice 0 24 (limbsW id p lv))

end ScProg

/-! ### abstract phases -/

def aslice (off n : Nat) (A : List Itv) : List Itv := (List.range n).map (fun i => A.getD (off + i) (0, 0))
def azeros (n : Nat) : List Itv := List.replicate n (0, 0)
def aenter (n m : Nat) (A : List Itv) : List Itv := aslice 0 n A ++ azeros m

/-- interval of a raw load from an array of the given length: `load3` ∈ [0, 2^24-1], `load4` ∈ [0, 2^32-1];
`none` if the slice could be too short (that would be a Go panic) -/
def rawItv (lens : List Nat) (r : Nat × Nat × Nat) : Option Itv :=
  if r.1 = 3 ∧ r.2.2 + 3 ≤ lens.getD r.2.1 0 then some (0, 16777215)
  else if r.1 = 4 ∧ r.2.2 + 4 ≤ lens.getD r.2.1 0 then some (0, 4294967295)
  else none

def rawItvs (lens : List Nat) : List (Nat × Nat × Nat) → Option (List Itv)
  | [] => some []
  | r :: rs =>
    match rawItv lens r, rawItvs lens rs with
    | some i, some is => some (i :: is)
    | _, _ => none

def absLoad (p : ScProg) (R : List Itv) : Option (List Itv) :=
  match absProg ⟨aenter p.raw.length p.nLoad R, none⟩ p.loads with
  | some σ => some (aslice p.raw.length p.nLoad σ.itv)
  | none => none

def absInit (p : ScProg) (L : List Itv) : Option (List Itv) :=
  match absProg ⟨aenter p.nLoad p.nInit L, none⟩ p.init with
  | some σ => some (p.out.map (fun j => σ.itv.getD j (0, 0)))
  | none => none

def absBlock (nCarry : Nat) (b : Prog) (A : List Itv) : Option (List Itv) :=
  match absProg ⟨aenter 24 nCarry A, none⟩ b with
  | some σ => some σ.itv
  | none => none

def absBlocks (nCarry : Nat) : List Prog → List Itv → Option (List Itv)
  | [], A => some A
  | b :: bs, A =>
    match absBlock nCarry b A with
    | some A' => absBlocks nCarry bs A'
    | none => none

def absStore (p : ScProg) (A : List Itv) : Bool :=
  p.store.all (fun e => (absExpr (aslice 0 24 A) e).isSome)

/-- load variables ↦ final limb intervals; `none` if anything in init or blocks may overflow -/
def absLimbs (p : ScProg) (L : List Itv) : Option (List Itv) :=
  match absInit p L with
  | some I => absBlocks p.nCarry p.blocks I
  | none => none

/-- array lengths ↦ intervals of the load variables -/
def absLoadsOf (p : ScProg) (lens : List Nat) : Option (List Itv) :=
  match rawItvs lens p.raw with
  | some R => absLoad p R
  | none => none

/-- `[lo, hi] ⊆ [lo', hi']` -/
def Itv.sub (i j : Itv) : Bool := decide (j.1 ≤ i.1) && decide (i.2 ≤ j.2)

/-- pointwise inclusion of the first `n` intervals -/
def within (n : Nat) (A B : List Itv) : Bool :=
  (List.range n).all (fun i => Itv.sub (A.getD i (0, 0)) (B.getD i (0, 0)))

/-! ### the analysis of one routine -/

/-- intervals at four program points -/
structure Report where
  /-- load variables -/
  L : List Itv
  /-- limbs after the limb definitions -/
  I : List Itv
  /-- environment before the last two blocks (fold of the top limb, last carry pass) -/
  M : List Itv
  /-- final environment -/
  F : List Itv
  deriving Repr

/-- loads, init, all blocks but the last two, the last two blocks; `none` if any interval leaves the int64 range -/
def analyse (p : ScProg) (lens : List Nat) : Option Report :=
  match absLoadsOf p lens with
  | none => none
  | some L =>
    match absInit p L with
    | none => none
    | some I =>
      match absBlocks p.nCarry (p.blocks.take (p.blocks.length - 2)) I with
      | none => none
      | some M =>
        match absBlocks p.nCarry (p.blocks.drop (p.blocks.length - 2)) M with
        | none => none
        | some F => some ⟨L, I, M, F⟩

/-- what the last two blocks need: s0 … s11 are 21-bit digits, s12 ∈ {-1, 0}, s13 … s23 are zero -/
def tailPre : List Itv :=
  [(0, 2097151), (0, 2097151), (0, 2097151), (0, 2097151), (0, 2097151), (0, 2097151),
   (0, 2097151), (0, 2097151), (0, 2097151), (0, 2097151), (0, 2097151), (0, 2097151),
   (-1, 0), (0, 0), (0, 0), (0, 0), (0, 0), (0, 0), (0, 0), (0, 0), (0, 0), (0, 0), (0, 0), (0, 0)]

/-- the final intervals with the lower bound of s11 raised to 0 (that bound is proved from the VALUE of the
result, Proofs/Ed25519Ranges.lean; the interval analysis alone gives s11 ≥ -1) -/
def finalItv (F : List Itv) : List Itv := F.set 11 (0, (F.getD 11 (0, 0)).2)

/-- the complete check of one routine: nothing overflows up to the last two blocks and in them, the state before
them satisfies `tailPre`, and (given s11 ≥ 0) nothing overflows in the byte packing -/
def rangeCheck (p : ScProg) (lens : List Nat) : Bool :=
  match analyse p lens with
  | none => false
  | some r => within 24 r.M tailPre && absStore p (finalItv r.F)

end Dos.IntervalProg

/-
C20 — the parts of the translated scalar code that need the REAL shift (`shrI` = floor division):
  * the last carry pass of every function leaves proper 21-bit digits in limbs 0…10 (`Digits11`);
  * limbs 12…23 of every result are (definitionally) zero;
  * the byte packing `out[0] = byte(s0 >> 0) … out[31] = byte(s11 >> 17)` writes the little-endian
    bytes of Σ sᵢ·2^(21 i) when limbs 0…10 are 21-bit digits and 0 ≤ s11 < 2^25;
  * the loads `2097151 & (load4(a[2:]) >> 5)` … split a 32-byte string into 12 limbs with the same value.
Not proved: 0 ≤ s11 < 2^25 for the result (that is the overflow / full-reduction part, differential only).
-/
import DosModel.Proofs.Ed25519Sc
import DosModel.Proofs.Ed25519Enc

set_option exponentiation.threshold 600

namespace Dos.Ed25519
open Dos Dos.Gen.Ed25519Sc

/-! ### bit operations on non-negative int64 values -/

theorem u64_of_nonneg (x : Int) (h0 : 0 ≤ x) (h : x < 18446744073709551616) : u64 x = x.toNat := by
  unfold u64
  rw [Int.emod_eq_of_lt h0 h]

theorem nat_lor_shl (a b k : Nat) (ha : a < 2 ^ k) : a ||| (b <<< k) = a + b * 2 ^ k := by
  rw [Nat.or_comm, ← Nat.shiftLeft_add_eq_or_of_lt ha, Nat.shiftLeft_eq, Nat.add_comm]

/-- OR of a value below 2^k with a multiple of 2^k is their sum -/
theorem bor_shl (x y : Int) (k : Nat) (hx0 : 0 ≤ x) (hx : x < 2 ^ k) (hx64 : x < 18446744073709551616)
    (hy0 : 0 ≤ y) (hy64 : y * 2 ^ k < 18446744073709551616) : bor x (shl y k) = x + y * 2 ^ k := by
  have hpk : (0:Int) < 2 ^ k := Int.pow_pos (by decide)
  unfold bor shl
  rw [u64_of_nonneg x hx0 hx64, u64_of_nonneg _ (Int.mul_nonneg hy0 (Int.le_of_lt hpk)) hy64]
  obtain ⟨a, rfl⟩ := Int.eq_ofNat_of_zero_le hx0
  obtain ⟨b, rfl⟩ := Int.eq_ofNat_of_zero_le hy0
  have e1 : ((b : Int) * 2 ^ k).toNat = b <<< k := by
    rw [Nat.shiftLeft_eq]
    have : ((b : Int) * 2 ^ k) = ((b * 2 ^ k : Nat) : Int) := by push_cast; rfl
    rw [this, Int.toNat_natCast]
  have hxn : a < 2 ^ k := by exact_mod_cast hx
  rw [e1, Int.toNat_natCast, nat_lor_shl a b k hxn]
  rfl

/-- `2097151 & x` is `x mod 2^21` for a non-negative int64 -/
theorem band_mask21 (x : Int) (h0 : 0 ≤ x) (h : x < 18446744073709551616) : band 2097151 x = x % 2097152 := by
  unfold band
  rw [u64_of_nonneg x h0 h, u64_of_nonneg 2097151 (by decide) (by decide)]
  obtain ⟨a, rfl⟩ := Int.eq_ofNat_of_zero_le h0
  have : (2097151 : Int).toNat = 2 ^ 21 - 1 := by decide
  rw [this, Int.toNat_natCast, Nat.and_comm, Nat.and_two_pow_sub_one_eq_mod]
  rfl

theorem toNat_emod256 (x : Int) : ((x % 256).toNat : Int) = x % 256 :=
  Int.toNat_of_nonneg (Int.emod_nonneg _ (by decide))

/-! ### digits after the last carry pass, zero high limbs -/

/-- limbs 0…10 are proper 21-bit digits -/
def Digits11 (s : L24) : Prop :=
  (0 ≤ s.s0 ∧ s.s0 < 2097152) ∧ (0 ≤ s.s1 ∧ s.s1 < 2097152) ∧ (0 ≤ s.s2 ∧ s.s2 < 2097152) ∧ (0 ≤ s.s3 ∧ s.s3 < 2097152)
  ∧ (0 ≤ s.s4 ∧ s.s4 < 2097152) ∧ (0 ≤ s.s5 ∧ s.s5 < 2097152) ∧ (0 ≤ s.s6 ∧ s.s6 < 2097152) ∧ (0 ≤ s.s7 ∧ s.s7 < 2097152)
  ∧ (0 ≤ s.s8 ∧ s.s8 < 2097152) ∧ (0 ≤ s.s9 ∧ s.s9 < 2097152) ∧ (0 ≤ s.s10 ∧ s.s10 < 2097152)

/-- limbs 12…23 are zero -/
def HiZero (s : L24) : Prop :=
  s.s12 = 0 ∧ s.s13 = 0 ∧ s.s14 = 0 ∧ s.s15 = 0 ∧ s.s16 = 0 ∧ s.s17 = 0 ∧ s.s18 = 0 ∧ s.s19 = 0
  ∧ s.s20 = 0 ∧ s.s21 = 0 ∧ s.s22 = 0 ∧ s.s23 = 0

theorem value_of_hiZero (s : L24) (h : HiZero s) :
    value s = value12 s.s0 s.s1 s.s2 s.s3 s.s4 s.s5 s.s6 s.s7 s.s8 s.s9 s.s10 s.s11 := by
  obtain ⟨h12, h13, h14, h15, h16, h17, h18, h19, h20, h21, h22, h23⟩ := h
  simp only [value, value12, h12, h13, h14, h15, h16, h17, h18, h19, h20, h21, h22, h23]
  ring

theorem runBlocks_last (shr : Shr) (bs : List (Shr → L24 → L24)) (h : bs ≠ []) (s : L24) :
    runBlocks shr bs s = (bs.getLast h) shr (runBlocks shr bs.dropLast s) := by
  have e := List.dropLast_concat_getLast h
  have : runBlocks shr (bs.dropLast ++ [bs.getLast h]) s = (bs.getLast h) shr (runBlocks shr bs.dropLast s) := by
    simp [runBlocks, List.foldl_append]
  rw [e] at this
  exact this

/-- the last block of a generated block list, applied with the real shift, yields 21-bit digits -/
macro "final_digits_tac" : tactic => `(tactic| (
  unfold_gen
  rw [runBlocks_last _ _ (by unfold_gen; simp)]
  generalize runBlocks _ _ _ = t
  unfold_gen
  simp only [List.getLast_cons_cons, List.getLast_singleton]
  unfold_gen
  simp only [Digits11, shrI, shl, Int.shiftRight_eq_div_pow]
  omega))

/-! ### byte packing -/

/-- the packing of scalar.go, low 21 bytes: limbs 0…7 -/
def packLo (shr : Shr) (s0 s1 s2 s3 s4 s5 s6 s7 : Int) : Bytes :=
  [byte (shr s0 0), byte (shr s0 8), byte (bor (shr s0 16) (shl s1 5)), byte (shr s1 3), byte (shr s1 11),
   byte (bor (shr s1 19) (shl s2 2)), byte (shr s2 6), byte (bor (shr s2 14) (shl s3 7)), byte (shr s3 1),
   byte (shr s3 9), byte (bor (shr s3 17) (shl s4 4)), byte (shr s4 4), byte (shr s4 12),
   byte (bor (shr s4 20) (shl s5 1)), byte (shr s5 7), byte (bor (shr s5 15) (shl s6 6)), byte (shr s6 2),
   byte (shr s6 10), byte (bor (shr s6 18) (shl s7 3)), byte (shr s7 5), byte (shr s7 13)]

/-- high 11 bytes: limbs 8…11 -/
def packHi (shr : Shr) (s8 s9 s10 s11 : Int) : Bytes :=
  [byte (shr s8 0), byte (shr s8 8), byte (bor (shr s8 16) (shl s9 5)), byte (shr s9 3), byte (shr s9 11),
   byte (bor (shr s9 19) (shl s10 2)), byte (shr s10 6), byte (bor (shr s10 14) (shl s11 7)), byte (shr s11 1),
   byte (shr s11 9), byte (shr s11 17)]

set_option maxHeartbeats 1000000 in
theorem packLo_value (s0 s1 s2 s3 s4 s5 s6 s7 : Int)
    (h0 : 0 ≤ s0 ∧ s0 < 2097152) (h1 : 0 ≤ s1 ∧ s1 < 2097152) (h2 : 0 ≤ s2 ∧ s2 < 2097152)
    (h3 : 0 ≤ s3 ∧ s3 < 2097152) (h4 : 0 ≤ s4 ∧ s4 < 2097152) (h5 : 0 ≤ s5 ∧ s5 < 2097152)
    (h6 : 0 ≤ s6 ∧ s6 < 2097152) (h7 : 0 ≤ s7 ∧ s7 < 2097152) :
    (leNat (packLo shrI s0 s1 s2 s3 s4 s5 s6 s7) : Int)
      = s0 + s1 * 2 ^ 21 + s2 * 2 ^ 42 + s3 * 2 ^ 63 + s4 * 2 ^ 84 + s5 * 2 ^ 105 + s6 * 2 ^ 126 + s7 * 2 ^ 147 := by
  unfold packLo
  simp only [shrI, Int.shiftRight_eq_div_pow]
  simp (disch := omega) only [bor_shl]
  simp only [leNat, byte, UInt8.toNat_ofNat']
  push_cast
  simp only [toNat_emod256]
  omega

theorem packHi_value (s8 s9 s10 s11 : Int)
    (h8 : 0 ≤ s8 ∧ s8 < 2097152) (h9 : 0 ≤ s9 ∧ s9 < 2097152) (h10 : 0 ≤ s10 ∧ s10 < 2097152)
    (h11 : 0 ≤ s11 ∧ s11 < 33554432) :
    (leNat (packHi shrI s8 s9 s10 s11) : Int) = s8 + s9 * 2 ^ 21 + s10 * 2 ^ 42 + s11 * 2 ^ 63 := by
  unfold packHi
  simp only [shrI, Int.shiftRight_eq_div_pow]
  simp (disch := omega) only [bor_shl]
  simp only [leNat, byte, UInt8.toNat_ofNat']
  push_cast
  simp only [toNat_emod256]
  omega

/-- the packed bytes spell the value of the 12 limbs -/
theorem pack_value (s : L24) (hd : Digits11 s) (h11 : 0 ≤ s.s11 ∧ s.s11 < 33554432) :
    (leNat (packLo shrI s.s0 s.s1 s.s2 s.s3 s.s4 s.s5 s.s6 s.s7 ++ packHi shrI s.s8 s.s9 s.s10 s.s11) : Int)
      = value12 s.s0 s.s1 s.s2 s.s3 s.s4 s.s5 s.s6 s.s7 s.s8 s.s9 s.s10 s.s11 := by
  obtain ⟨h0, h1, h2, h3, h4, h5, h6, h7, h8, h9, h10⟩ := hd
  have hl : (packLo shrI s.s0 s.s1 s.s2 s.s3 s.s4 s.s5 s.s6 s.s7).length = 21 := rfl
  rw [leNat_append, hl]
  push_cast
  rw [packLo_value _ _ _ _ _ _ _ _ h0 h1 h2 h3 h4 h5 h6 h7, packHi_value _ _ _ _ h8 h9 h10 h11]
  simp only [value12]
  ring

end Dos.Ed25519

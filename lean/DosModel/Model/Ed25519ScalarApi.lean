/-
C20 (round 5) — the public `kyber.Scalar` wrappers of group/edwards25519/scalar.go over the TRANSLATED limb routines
(Gen/Ed25519Sc.lean), method by method.  A scalar object is its 32 bytes `s.v`.  The method bodies this file renders are
pinned as printed source text by `Props/C20Pins.lean` `scalar_wrappers_source_pinned`; theorems: `Props/C20Api.lean`;
the driver (Drivers/C20.lean `api` / `ali` / `apx` cases) runs exactly these definitions against the real methods.
Core Lean only.
-/
import DosModel.Gen.Ed25519Sc

namespace Dos.Ed25519.Api
open Dos Dos.Ed25519 Dos.Gen.Ed25519Sc

/-- `s.v = [32]byte{0}` -/
def zero : Bytes := List.replicate 32 0
/-- `s.v = [32]byte{1}` -/
def one : Bytes := 1 :: List.replicate 31 0
/-- `scAdd(&s.v, &a.v, &b.v)` -/
def add (a b : Bytes) : Bytes := scAdd shrI a b
/-- `scSub(&s.v, &a.v, &b.v)` -/
def sub (a b : Bytes) : Bytes := scSub shrI a b
/-- `var z scalar; z.Zero(); scSub(&s.v, &z.v, &a.v)` -/
def neg (a : Bytes) : Bytes := scSub shrI zero a
/-- `scMul(&s.v, &a.v, &b.v)` -/
def mul (a b : Bytes) : Bytes := scMul shrI a b

/-- `lMinus2.Bit(i)` for i = 255 … 0 -/
def invBits : List Bool := (List.range 256).map (fun j => (lMinus2 / 2 ^ (255 - j)) % 2 = 1)

/-- one round of `Inv`: `scMul(&res.v, &res.v, &res.v); if bit == 1 { scMul(&res.v, &res.v, &ac.v) }` -/
def invRound (a : Bytes) (res : Bytes) (bit : Bool) : Bytes :=
  let res := scMul shrI res res
  if bit then scMul shrI res a else res

/-- `Inv`: `res.One()`, the 256 rounds, `s.v = res.v` -/
def inv (a : Bytes) : Bytes := invBits.foldl (invRound a) one

/-- `var i scalar; i.Inv(b); scMul(&s.v, &a.v, &i.v)` -/
def div (a b : Bytes) : Bytes := scMul shrI a (inv b)

/-- `Set` / `Clone`: the 32 bytes are copied -/
def set (a : Bytes) : Bytes := a
/-- `Equal`: `subtle.ConstantTimeCompare(v1, v2) != 0` on the RAW bytes (an unreduced and a reduced encoding of one
value compare unequal) -/
def equal (a b : Bytes) : Bool := a == b
/-- `setInt(i)`: `i.LittleEndian(32, 32)` of a `mod.Int` modulo ℓ, whose value is `n mod ℓ` -/
def setInt (n : Nat) : Bytes := natLE 32 (n % ell)
/-- `SetBytes`, `MarshalBinary`, `UnmarshalBinary`: Model/Ed25519Scalar.lean -/
def setBytes (b : Bytes) : Bytes := scSetBytes b
def marshal (v : Bytes) : Bytes := scMarshal v
def unmarshal (buf : Bytes) : Except ScErr Bytes := scUnmarshal buf

/-! ### SetInt64, Pick, MarshalTo, UnmarshalFrom (follow-up of round 5)

`mod.NewInt64`, `mod.NewInt` (github.com/dedis/kyber/group/mod) and `random.Int` (…/util/random) are EXTERNAL code: what
they do is modelled here as read from their source and listed as an assumption in meta; the `apx setint64 / pick / marshalto /
unmarshalfrom` cases compare these definitions with the real methods.  `marshalling.ScalarMarshalTo / ScalarUnmarshalFrom /
PointMarshalTo / PointUnmarshalFrom` are in the repository (group/internal/marshalling) and pinned as text. -/

/-- `SetInt64(v)` = `setInt(mod.NewInt64(v, primeOrder))`: v reduced into [0, ℓ) -/
def setInt64 (v : Int) : Bytes := natLE 32 (v % (ell : Int)).toNat

/-- `random.Int(ℓ, rand)`: blocks of ⌈253/8⌉ = 32 stream bytes, big-endian, the top byte masked to 253 bits
(`b[0] &= ^(0xff << 5)`), until 0 < k < ℓ; `draws` = the successive 32-byte blocks the stream yields -/
def randomInt : List Bytes → Option Nat
  | [] => none
  | b :: rest =>
    let k := beNat b % 2 ^ 253
    if 0 < k ∧ k < ell then some k else randomInt rest

/-- `Pick(rand)` = `setInt(mod.NewInt(random.Int(primeOrder, rand), primeOrder))` -/
def pick (draws : List Bytes) : Option Bytes := (randomInt draws).map (fun k => natLE 32 (k % ell))

/-- `MarshalTo(w)`: `marshalling.ScalarMarshalTo` writes `MarshalBinary()` to w -/
def marshalTo (v : Bytes) : Bytes := marshal v

/-- `UnmarshalFrom(r)` on a reader (not a cipher.Stream) holding `inp`: `io.ReadFull` of `MarshalSize()` = 32 bytes, then
`UnmarshalBinary`; (bytes consumed, result) -/
def unmarshalFrom (inp : Bytes) : Nat × Except ScErr Bytes :=
  if inp.length < 32 then (inp.length, .error .wrongSize) else (32, unmarshal (inp.take 32))

end Dos.Ed25519.Api

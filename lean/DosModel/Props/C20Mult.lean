/-
C20 (round 4) — scalar multiplication, the base point and the precomputed table.

`geScalarMult` (signed 4-bit windows over a table 1A…8A, constant-time selection by `equal`/`negative`/`CMove`) and
`geScalarMultBase` (radix-16 digits against the table `base` of const.go) — hand-modelled over the TRANSLATED group
methods, compared limb for limb with the real code on every run — compute k•P in the curve group for every 32-byte
scalar with a[31] ≤ 127 (the precondition documented in ge.go).  ℓ•B = 0 and ALL 256 entries of `base`
(base[i][j] = (j+1)·256^i·B) are kernel-evaluated with a Nat-mod-p Edwards arithmetic that is itself verified against
the group law.  Proofs: Proofs/GeScalarMult*.lean, GeNat*.lean.
-/
import DosModel.Proofs.GeScalarMultBase
import DosModel.Proofs.GeNatTableFull
import DosModel.Proofs.GeNatOrder

set_option exponentiation.threshold 600

namespace Dos.Props.C20Mult
open Dos Dos.Ed25519 Dos.FeProg Dos.Ge Dos.Edwards

/-- the signed-nybble recoding: 64 digits in [−8, 8] with Σ eᵢ·16^i = the scalar (and no int8 ever wraps) -/
theorem scalar_recoding_correct (a : Bytes) (hlen : a.length = 32) (h31 : (a.getD 31 0).toNat ≤ 127) :
    (recode (nybbles a)).length = 64
    ∧ (∀ i, i < 64 → -8 ≤ (recode (nybbles a)).getD i 0 ∧ (recode (nybbles a)).getD i 0 ≤ 8)
    ∧ ∑ i ∈ Finset.range 64, (recode (nybbles a)).getD i 0 * 16 ^ i = (leNat a : Int) :=
  ⟨(recode_spec a hlen h31).1, (recode_spec a hlen h31).2.1, recode_sum a hlen h31⟩

example : ((natLE 32 (2 ^ 255 - 1)).getD 31 0).toNat ≤ 127 := by decide

/-- constant-time selection: for a digit b ∈ [−8, 8], `selectCached` returns (a cached form of) b•A -/
theorem select_correct (ai : List Cached) (A : Pt) (hai : ai.length = 8)
    (h : ∀ i, i < 8 → GoodCached (ai.getD i default) ((i + 1) • A)) (b : Int) (hb : -8 ≤ b ∧ b ≤ 8) :
    GoodCached (selectCached ai b) (b • A) := selectCached_spec ai A hai h b hb

/-- a fact found on the way: Go's `equal(b, c)` ("returns 1 if b == c and 0 otherwise") returns 1 for operands of
different sign; it IS equality on non-negative operands, the only ones the code passes -/
theorem equal_is_equality_on_nonnegatives_only :
    equal (-1) 0 = 1
    ∧ ∀ b c : Int, 0 ≤ b ∧ b ≤ 2147483647 → 0 ≤ c ∧ c ≤ 2147483647 → equal b c = if b = c then 1 else 0 :=
  ⟨equal_mixed_sign, fun b c hb hc => equal_spec31 b c hb hc⟩

/-- **geScalarMult** computes (leNat a)•P on any good representation -/
theorem geScalarMult_correct (a : Bytes) (hlen : a.length = 32) (h31 : (a.getD 31 0).toNat ≤ 127) {A : Ext} {P : Pt}
    (hA : GoodExt A P) : GoodExt (geScalarMult a A) (leNat a • P) := geScalarMult_spec a hlen h31 hA

/-- **the table `base` of const.go**: every one of its 32 × 8 entries is (y+x, y−x, 2dxy) of (j+1)·256^i·B, within
the limb bounds (kernel evaluation of a verified checker) -/
theorem base_table_correct : ∀ i j, i < 32 → j < 8 →
    GoodPre (preOf ((Gen.Ed25519GeTable.c_base.getD i []).getD j [])) (((j + 1) * 256 ^ i) • basePt) :=
  baseTable_ok

/-- **geScalarMultBase** (`P.Mul(s, nil)`) computes (leNat a)•B -/
theorem geScalarMultBase_correct (a : Bytes) (hlen : a.length = 32) (h31 : (a.getD 31 0).toNat ≤ 127) :
    GoodExt (geScalarMultBase a) (leNat a • basePt) :=
  geScalarMultBase_spec (fun i j hi hj => baseTable_ok i j hi hj) a hlen h31

/-- **the base point has order exactly ℓ** -/
theorem base_point_order : ell • basePt = 0 ∧ addOrderOf basePt = ell ∧ ∀ n : ℕ, n • basePt = 0 ↔ ell ∣ n :=
  ⟨ell_smul_base, base_order, smul_base_eq_zero_iff⟩

example : (3 * ell) • basePt = 0 := (smul_base_eq_zero_iff _).2 ⟨3, by ring⟩

end Dos.Props.C20Mult

package c18

import (
	"fmt"
	"math/big"
	"strconv"
	"strings"

	"github.com/ethereum/go-ethereum/accounts/abi"

	"verifharness/internal/h"
)

var two256 = new(big.Int).Lsh(big.NewInt(1), 256)

func genValue(t abi.Type, rng *h.Rng, long bool) string {
	switch t.String() {
	case "uint256":
		switch rng.Intn(6) {
		case 0:
			return "0"
		case 1:
			return new(big.Int).Sub(two256, big.NewInt(1)).String()
		case 2:
			return "1"
		case 3:
			return new(big.Int).Lsh(big.NewInt(1), 255).String()
		}
		v := rng.Big(new(big.Int).Sub(two256, big.NewInt(4000))) // stays clear of the end-marker range
		return v.String()
	case "uint8":
		return fmt.Sprint([]int{0, 1, 2, 255, rng.Intn(256)}[rng.Intn(5)])
	case "string", "bytes":
		switch rng.Intn(5) {
		case 0:
			return "-"
		case 1:
			if long {
				return h.Hex(rng.Bytes(3000 + rng.Intn(3000)))
			}
			return h.Hex(rng.Bytes(64 + rng.Intn(64)))
		case 2:
			return h.Hex([]byte("https://api.example.com/v1/data?x=1&y=2"))
		}
		return h.Hex(rng.Bytes(1 + rng.Intn(40)))
	case "bool":
		if rng.Bool() {
			return "true"
		}
		return "false"
	case "address":
		b := rng.Bytes(20)
		if rng.Intn(4) == 0 {
			b[0], b[1] = 0, 0
		}
		return h.Hex(b)
	case "address[]":
		n := []int{0, 1, 2, 3, 5, 21}[rng.Intn(6)]
		if long && rng.Intn(3) == 0 {
			n = 100 + rng.Intn(200)
		}
		if n == 0 {
			return "-"
		}
		var p []string
		for i := 0; i < n; i++ {
			b := rng.Bytes(20)
			switch rng.Intn(6) {
			case 0:
				b = make([]byte, 20)
			case 1:
				b[0] = 0
			}
			p = append(p, h.Hex(b))
		}
		return strings.Join(p, ",")
	case "uint256[2]", "uint256[4]":
		n := 2
		if t.String() == "uint256[4]" {
			n = 4
		}
		var p []string
		for i := 0; i < n; i++ {
			p = append(p, genValue(u256T, rng, false))
		}
		return strings.Join(p, ",")
	case "bytes32":
		b := rng.Bytes(32)
		if rng.Intn(3) == 0 {
			b[0] = 0
		}
		return h.Hex(b)
	}
	panic("unsupported " + t.String())
}

var u256T = func() abi.Type { t, _ := abi.NewType("uint256", "", nil); return t }()

func genHLog(idx int, j int, rng *h.Rng, long bool) string {
	sp := specOf(idx)
	var vals []string
	for _, in := range sp.event().Inputs {
		vals = append(vals, genValue(in.Type, rng, long))
	}
	bn := []uint64{1, 2, 7, 1 << 32, 1<<64 - 1, 12345678}[rng.Intn(6)]
	// log index: small, and beyond one byte / one word (review E, T2: "index >= 256")
	lix := []uint64{uint64(j % 3), uint64(j % 3), 255, 256 + uint64(j%3), 65536, 1 << 32, 1<<32 + 256, 1 << 62}[rng.Intn(8)]
	s := fmt.Sprintf("%d;%d;%d;%d", idx, bn, j+1, lix)
	if len(vals) > 0 {
		s += ";" + strings.Join(vals, ";")
	}
	return s
}

// boundary value of one ABI type, chosen by k (systematic, not random): 0, 1, 2^255, 2^256-1, leading zeros;
// empty / 1 B / 31 / 32 / 33 B / 3-6 kB strings; arrays of 0, 1, 2, 299, 300 elements
func boundaryValue(t abi.Type, k int, rng *h.Rng) string {
	u := func(k int) string {
		switch k % 6 {
		case 0:
			return "0"
		case 1:
			return "1"
		case 2:
			return new(big.Int).Lsh(big.NewInt(1), 255).String()
		case 3:
			return new(big.Int).Sub(two256, big.NewInt(1)).String()
		case 4:
			return new(big.Int).Lsh(big.NewInt(1), 248).String()
		}
		return rng.Big(new(big.Int).Lsh(big.NewInt(1), 200)).String() // leading zero bytes
	}
	switch t.String() {
	case "uint256":
		return u(k)
	case "uint8":
		return fmt.Sprint([]int{0, 1, 127, 128, 255}[k%5])
	case "string", "bytes":
		n := []int{0, 1, 31, 32, 33, 64, 3000, 4096, 6000}[k%9]
		if n == 0 {
			return "-"
		}
		return h.Hex(rng.Bytes(n))
	case "bool":
		return []string{"false", "true"}[k%2]
	case "address":
		b := rng.Bytes(20)
		switch k % 4 {
		case 0:
			b = make([]byte, 20)
		case 1:
			b[0], b[1], b[2] = 0, 0, 0
		case 2:
			for i := range b {
				b[i] = 0xff
			}
		}
		return h.Hex(b)
	case "address[]":
		n := []int{0, 1, 2, 299, 300, 21}[k%6]
		if n == 0 {
			return "-"
		}
		var p []string
		for i := 0; i < n; i++ {
			b := rng.Bytes(20)
			if (i+k)%5 == 0 {
				b[0], b[1] = 0, 0
			}
			if (i+k)%11 == 0 {
				b = make([]byte, 20)
			}
			p = append(p, h.Hex(b))
		}
		return strings.Join(p, ",")
	case "uint256[2]":
		return u(k) + "," + u(k+1)
	case "uint256[4]":
		return u(k) + "," + u(k+1) + "," + u(k+2) + "," + u(k+3)
	case "bytes32":
		b := rng.Bytes(32)
		switch k % 3 {
		case 0:
			b = make([]byte, 32)
		case 1:
			b[0], b[31] = 0, 0
		}
		return h.Hex(b)
	}
	panic("unsupported " + t.String())
}

func be32(v *big.Int) []byte {
	b := new(big.Int).Mod(v, two256).Bytes()
	return append(make([]byte, 32-len(b)), b...)
}

// genAbiLogs: the ABI layer. Well-formed logs with boundary values for every table entry, then raw logs: the
// well-formed encoding damaged in every way the decoder looks at (truncated, extended, offset / length words
// replaced, dirty padding of uint8 / address / bool words, wrong / missing / extra topics), and random bytes.
func genAbiLogs(thorough bool, rng *h.Rng, emit func(string)) {
	reps := 18
	if thorough {
		reps = 90
	}
	for _, sp := range specs {
		ev := sp.event()
		id := h.Hex(ev.ID[:])
		n := reps
		if !isSubscribed(sp.idx) {
			n = reps / 3
		}
		for k := 0; k < n; k++ {
			var vals []string
			for j, in := range ev.Inputs {
				if k%3 == 2 {
					vals = append(vals, genValue(in.Type, rng, k%6 == 5))
				} else {
					vals = append(vals, boundaryValue(in.Type, k+j, rng))
				}
			}
			emit(fmt.Sprintf("al %d v %s", sp.idx, joinOr(vals, ";")))
		}
		// "long strings, member lists of any length" (review E #3, T1b): 9 000 / 70 000 bytes (thorough: 1 MiB), 450 / 5 000 members
		if isSubscribed(sp.idx) {
			sizes := [][2]int{{9000, 450}, {70000, 5000}}
			if thorough {
				sizes = append(sizes, [2]int{1 << 20, 20000})
			}
			for _, sz := range sizes {
				var vals []string
				big := false
				for j, in := range ev.Inputs {
					switch in.Type.String() {
					case "string", "bytes":
						vals = append(vals, h.Hex(rng.Bytes(sz[0])))
						big = true
					case "address[]":
						var p []string
						for i := 0; i < sz[1]; i++ {
							p = append(p, h.Hex(rng.Bytes(20)))
						}
						vals = append(vals, strings.Join(p, ","))
						big = true
					default:
						vals = append(vals, boundaryValue(in.Type, j, rng))
					}
				}
				if big {
					emit(fmt.Sprintf("al %d v %s", sp.idx, joinOr(vals, ";")))
				}
			}
		}
		// raw logs
		var vals []string
		for _, in := range ev.Inputs {
			vals = append(vals, genValue(in.Type, rng, false))
		}
		good := pack(&sp, vals)
		raw := func(topics string, data []byte) { emit(fmt.Sprintf("al %d r %s %s", sp.idx, topics, h.Hex(data))) }
		other := h.Hex(rng.Bytes(32))
		raw(id, good)                       // as emitted
		raw(id, nil)                        // no data at all
		raw("-", good)                      // no topics
		raw(other, good)                    // another event's id
		raw(id+","+other, good)             // one topic too many
		raw(id+","+id, good)                //
		raw(other+","+id, good)             // id in the wrong place
		raw(id, append(append([]byte{}, good...), rng.Bytes(1+rng.Intn(64))...)) // trailing garbage
		for _, cut := range []int{1, 31, 32, 33, len(good) - 33, len(good) - 32, len(good) - 1, len(good) / 2} {
			if cut >= 0 && cut < len(good) {
				raw(id, good[:cut])
			}
		}
		words := len(good) / 32
		interesting := func() *big.Int {
			L := int64(len(good))
			c := []*big.Int{big.NewInt(0), big.NewInt(1), big.NewInt(2), big.NewInt(31), big.NewInt(32), big.NewInt(33), big.NewInt(64),
				big.NewInt(L), big.NewInt(L - 32), big.NewInt(L - 31), big.NewInt(L + 1), big.NewInt(L - 64), big.NewInt(L / 32),
				new(big.Int).Sub(new(big.Int).Lsh(big.NewInt(1), 63), big.NewInt(1)), new(big.Int).Lsh(big.NewInt(1), 63), new(big.Int).Sub(new(big.Int).Lsh(big.NewInt(1), 63), big.NewInt(33)),
				new(big.Int).Lsh(big.NewInt(1), 64), new(big.Int).Lsh(big.NewInt(1), 255), new(big.Int).Sub(two256, big.NewInt(1)), new(big.Int).Sub(two256, new(big.Int).Lsh(big.NewInt(1), 32)),
				new(big.Int).Lsh(big.NewInt(1), 160), new(big.Int).Lsh(big.NewInt(1), 8), big.NewInt(int64(rng.Intn(int(L) + 64)))}
			v := c[rng.Intn(len(c))]
			if v.Sign() < 0 {
				return big.NewInt(0)
			}
			return v
		}
		nm := 40
		if thorough {
			nm = 200
		}
		for m := 0; m < nm && words > 0; m++ {
			d := append([]byte{}, good...)
			for c := 1 + rng.Intn(2); c > 0; c-- {
				copy(d[32*rng.Intn(words):], be32(interesting()))
			}
			raw(id, d)
		}
		// the head words in particular: offsets of dynamic inputs, and dirty high bytes of narrow types
		pos := 0
		for _, in := range ev.Inputs {
			switch in.Type.String() {
			case "string", "bytes", "address[]":
				for c := 0; c < 6; c++ {
					d := append([]byte{}, good...)
					copy(d[pos:], be32(interesting()))
					raw(id, d)
				}
				// the same tail reached through an offset that is not the canonical one: move the tail to the end
				off := int(new(big.Int).SetBytes(good[pos : pos+32]).Int64())
				d := append([]byte{}, good...)
				d = append(d, good[off:]...)
				copy(d[pos:], be32(big.NewInt(int64(len(good)))))
				raw(id, d)
			case "uint8", "address", "bool", "bytes32":
				d := append([]byte{}, good...)
				d[pos] ^= 0x80 // a bit in the part of the word the type does not use (bytes32: uses it)
				raw(id, d)
				d = append([]byte{}, good...)
				d[pos+31] ^= 0x02
				raw(id, d)
				d = append([]byte{}, good...)
				d[pos+11] ^= 0x01
				raw(id, d)
			}
			switch in.Type.String() {
			case "uint256[2]":
				pos += 64
			case "uint256[4]":
				pos += 128
			default:
				pos += 32
			}
		}
		for c := 0; c < 6; c++ {
			raw(id, rng.Bytes([]int{32, 64, 96, 1 + rng.Intn(300), 32 * (1 + rng.Intn(12)), 160}[c]))
		}
	}
}

func csvI(v []int) string {
	var s []string
	for _, x := range v {
		s = append(s, fmt.Sprint(x))
	}
	return strings.Join(s, ",")
}

func interleavings(a, b []string, f func([]string)) {
	var rec func(i, j int, cur []string)
	rec = func(i, j int, cur []string) {
		if i == len(a) && j == len(b) {
			f(append([]string(nil), cur...))
			return
		}
		if i < len(a) {
			rec(i+1, j, append(cur, a[i]))
		}
		if j < len(b) {
			rec(i, j+1, append(cur, b[j]))
		}
	}
	rec(0, 0, nil)
}

type glog struct {
	data  string
	bn    uint64
	tx    string
	idx   uint64
	tok   int
	norem bool // appears non-removed somewhere
}

func (g glog) item(removed bool) string {
	r := 0
	if removed {
		r = 1
	}
	return fmt.Sprintf("%s:%d:%s:%d:%d:%d", g.data, g.bn, g.tx, g.idx, r, g.tok)
}

// history of n distinct chain logs; equal-data pairs in one block (the F9 shape) and, if zeroBlocks, block number 0
func genHistory(n int, rng *h.Rng, zeroBlocks bool) []glog {
	pool := []string{"aa", "bb", "aabb", "00", "0000000000000000000000000000000000000000000000000000000000000001", "ff", "-"}
	var H []glog
	for j := 0; j < n; j++ {
		g := glog{data: pool[rng.Intn(len(pool))], tok: j}
		g.bn = []uint64{1, 2, 5, 256, 1 << 32, 1<<64 - 1}[rng.Intn(6)]
		if zeroBlocks && rng.Intn(5) == 0 {
			g.bn = 0
		}
		g.tx = fmt.Sprintf("%02x", 1+j/2) // two logs per transaction …
		g.idx = uint64(j % 2)             // … at different log indices
		switch rng.Intn(4) {
		case 0: // positions that differ only beyond the low byte / low word (review E, T2)
			g.idx = []uint64{255, 256, 257, 1 << 32, 1<<32 + 1, 1 << 63, 1<<64 - 257}[rng.Intn(7)] + uint64(j%2)*256
		case 1: // transaction hashes that differ only in their HIGH bytes
			g.tx = fmt.Sprintf("%02x%060x01", 1+j, 0)
		}
		if j > 0 && rng.Intn(3) == 0 {    // same data and block as an earlier log, different position
			g.data, g.bn = H[rng.Intn(j)].data, H[rng.Intn(j)].bn
		}
		H = append(H, g)
	}
	return H
}

// one endpoint's stream over H: every log at least once (non-removed unless onlyRemoved[j]), duplicates, removed re-emissions, shuffled
func genStream(H []glog, onlyRemoved map[int]bool, rng *h.Rng) []string {
	var s []string
	for j, g := range H {
		if onlyRemoved[j] {
			s = append(s, g.item(true))
			continue
		}
		s = append(s, g.item(false))
		if rng.Intn(4) == 0 {
			s = append(s, g.item(false))
		}
		if rng.Intn(5) == 0 {
			s = append(s, g.item(true))
		}
	}
	p := rng.Perm(len(s))
	out := make([]string, len(s))
	for i, k := range p {
		out[i] = s[k]
	}
	return out
}

func randomInterleave(ss [][]string, rng *h.Rng) []string {
	pos := make([]int, len(ss))
	var out []string
	for {
		var live []int
		for i := range ss {
			if pos[i] < len(ss[i]) {
				live = append(live, i)
			}
		}
		if len(live) == 0 {
			return out
		}
		i := live[rng.Intn(len(live))]
		out = append(out, ss[i][pos[i]])
		pos[i]++
	}
}

func joinOr(s []string, sep string) string {
	if len(s) == 0 {
		return "-"
	}
	return strings.Join(s, sep)
}

func gen(tier string, rng *h.Rng, emit func(string)) {
	thorough := tier == "thorough"
	// 1a. firstEvent: every interleaving of two (thorough: also three) short streams over one 3-log history
	base := []glog{{data: "aa", bn: 5, tx: "01", idx: 0, tok: 0}, {data: "aa", bn: 5, tx: "01", idx: 1, tok: 1}, {data: "bb", bn: 6, tx: "02", idx: 0, tok: 2}}
	s0 := []string{base[0].item(false), base[1].item(false), base[2].item(false)}
	alts := [][]string{
		{base[2].item(false), base[1].item(false), base[0].item(false)},
		{base[1].item(false), base[1].item(true), base[0].item(false), base[2].item(false)},
		{base[0].item(true), base[0].item(false), base[2].item(true)},
		{base[0].item(false), base[0].item(false)},
	}
	for _, s1 := range alts {
		interleavings(s0, s1, func(m []string) { emit("fe " + joinOr(m, ",")) })
	}
	if thorough {
		for _, s1 := range alts[:2] {
			interleavings(s0, s1, func(m []string) {
				interleavings(m, alts[2], func(m2 []string) { emit("fe " + joinOr(m2, ",")) })
			})
		}
	}
	emit("fe -")
	emit("fe x")
	// 1a'. pairs of logs with equal data in one block whose chain positions differ ONLY in the high part of the log
	// index / in one byte of the transaction hash (either end) / whose block numbers differ beyond 2^32 (review E, T2):
	// both must be delivered
	hiTx := func(b int, v byte) string { t := make([]byte, 32); t[31] = 1; t[b] ^= v; return h.Hex(t) }
	for _, bn := range []uint64{5, 1 << 32, 1<<32 + 5, 1<<64 - 1} {
		for _, d := range [][2]uint64{{0, 256}, {1, 257}, {0, 1 << 8}, {0, 1 << 16}, {0, 1 << 32}, {0, 1 << 63}, {255, 1<<64 - 1}, {1 << 32, 1<<32 + 256}} {
			emit(fmt.Sprintf("fe aa:%d:%s:%d:0:0,aa:%d:%s:%d:0:1,aa:%d:%s:%d:0:0", bn, hiTx(0, 0), d[0], bn, hiTx(0, 0), d[1], bn, hiTx(0, 0), d[0]))
		}
		for _, b := range []int{0, 1, 7, 8, 15, 16, 23, 24, 30, 31} {
			emit(fmt.Sprintf("fe aa:%d:%s:3:0:0,aa:%d:%s:3:0:1,aa:%d:%s:3:0:1", bn, hiTx(0, 0), bn, hiTx(b, 0x80), bn, hiTx(b, 0x80)))
		}
	}
	for _, p := range [][2]uint64{{1, 1 + 1<<32}, {1 << 32, 1 << 33}, {5, 5 + 1<<56}, {1<<64 - 1, 1<<32 - 1}} {
		emit(fmt.Sprintf("fe aa:%d:01:0:0:0,aa:%d:01:0:0:1", p[0], p[1]))
	}
	// 1a''. the timers really fire (window shortened through the hook): bursts whose timers expire together while new
	// logs arrive, and re-delivery after the window
	ntw := 4
	if thorough {
		ntw = 20
	}
	for i := 0; i < ntw; i++ {
		H := genHistory(2+rng.Intn(6), rng, false)
		var toks []string
		for e := 0; e < 2+rng.Intn(2); e++ {
			st := genStream(H, map[int]bool{}, rng)
			st = st[:1+rng.Intn(len(st))]
			toks = append(toks, st...)
			switch rng.Intn(3) {
			case 0:
				toks = append(toks, fmt.Sprintf("B%d@%d", 50+rng.Intn(800), 100+10*i+e))
			case 1:
				toks = append(toks, fmt.Sprintf("T%d@%d", 5+rng.Intn(60), 1000+100*i+e))
				continue
			}
			toks = append(toks, "w")
		}
		emit(fmt.Sprintf("tw %d %s", 120, strings.Join(toks, ",")))
	}
	// 1b. random histories, 1..3 streams, random interleaving
	nfe := 3000
	if thorough {
		nfe = 20000
	}
	for i := 0; i < nfe; i++ {
		H := genHistory(1+rng.Intn(10), rng, i%4 == 3)
		only := map[int]bool{}
		for j := range H {
			if rng.Intn(8) == 0 {
				only[j] = true
			}
		}
		k := 1 + rng.Intn(3)
		var ss [][]string
		for e := 0; e < k; e++ {
			st := genStream(H, only, rng)
			if e > 0 && rng.Intn(3) == 0 { // this endpoint drops somewhere
				st = st[:rng.Intn(len(st)+1)]
			}
			ss = append(ss, st)
		}
		m := randomInterleave(ss, rng)
		if rng.Intn(10) == 0 {
			m = append(m[:rng.Intn(len(m)+1)], append([]string{"x"}, m[rng.Intn(len(m)+1):]...)...)
		}
		emit("fe " + joinOr(m, ","))
	}
	// 2. merge + firstEvent, concurrent feeders (histories inside the property: block numbers > 0)
	nmg := 800
	if thorough {
		nmg = 5000
	}
	for i := 0; i < nmg; i++ {
		H := genHistory(1+rng.Intn(12), rng, false)
		only := map[int]bool{}
		for j := range H {
			if rng.Intn(8) == 0 {
				only[j] = true
			}
		}
		k := 1 + rng.Intn(3)
		var ss []string
		for e := 0; e < k; e++ {
			st := genStream(H, only, rng)
			if e > 0 && rng.Intn(2) == 0 {
				st = st[:rng.Intn(len(st)+1)]
			}
			ss = append(ss, joinOr(st, ","))
		}
		emit("mg " + strings.Join(ss, "/"))
	}
	// 2b. every table entry alone: the LogCommon wrapper
	for _, sp := range specs {
		reps := 2
		if thorough {
			reps = 12
		}
		for r := 0; r < reps; r++ {
			emit(fmt.Sprintf("ent %s %d", genHLog(sp.idx, rng.Intn(1000), rng, false), r%2))
		}
	}
	// 2c. the ABI layer through the real subscription path
	genAbiLogs(thorough, rng, emit)
	// 3. the real adaptor
	lists := [][]int{nodeSubscribes}
	nsub := 600
	if thorough {
		nsub = 2500
		lists = append(lists, []int{3, 6, 8, 9, 14, 15, 16}, []int{0, 1, 2, 3, 4, 5, 6, 7, 8, 9, 13, 14, 15, 16})
	}
	for i := 0; i < nsub; i++ {
		tl := lists[i%len(lists)]
		nws := 1 + i%3
		var H []string
		nlogs := 1 + rng.Intn(6)
		if i < 2*len(tl) { // every type on its own first, then mixtures
			nlogs = 1 + i%2
		}
		for j := 0; j < nlogs; j++ {
			idx := tl[rng.Intn(len(tl))]
			if i < 2*len(tl) {
				idx = tl[i%len(tl)]
			}
			H = append(H, genHLog(idx, j, rng, i%9 == 0))
		}
		// a second log of the SAME transaction with the SAME values whose log index differs by 256 / 2^32: two events
		if rng.Intn(3) == 0 {
			f := strings.Split(H[rng.Intn(len(H))], ";")
			ix, _ := strconv.ParseUint(f[3], 10, 64)
			f[3] = fmt.Sprint(ix + []uint64{256, 512, 1 << 32}[rng.Intn(3)])
			H = append(H, strings.Join(f, ";"))
		}
		only := map[int]bool{}
		for j := range H {
			if rng.Intn(7) == 0 {
				only[j] = true
			}
		}
		dropE, dropPos := -1, 0
		var S []string
		var lens []int
		for e := 0; e < nws; e++ {
			var st []string
			for j := range H {
				if only[j] {
					st = append(st, fmt.Sprintf("%dr", j))
					continue
				}
				st = append(st, fmt.Sprint(j))
				if rng.Intn(4) == 0 {
					st = append(st, fmt.Sprint(j))
				}
				if rng.Intn(5) == 0 {
					st = append(st, fmt.Sprintf("%dr", j))
				}
			}
			p := rng.Perm(len(st))
			sh := make([]string, len(st))
			for a, b := range p {
				sh[a] = st[b]
			}
			S = append(S, joinOr(sh, ","))
			lens = append(lens, len(sh))
		}
		if nws > 1 && (i/3)%2 == 1 {
			dropE = rng.Intn(nws)
			if rng.Intn(4) != 0 && dropE == 0 {
				dropE = 1 + rng.Intn(nws-1)
			}
			dropPos = rng.Intn(lens[dropE] + 1)
		}
		drop := "-"
		after := ""
		if dropE >= 0 {
			drop = fmt.Sprintf("%d@%d", dropE, dropPos)
			// after the failure has been reported and handled the surviving endpoints emit new logs
			// (and repeat old ones)
			first := len(H)
			for j := 0; j < 1+rng.Intn(3); j++ {
				H = append(H, genHLog(tl[rng.Intn(len(tl))], first+j, rng, false))
			}
			var S2 []string
			for e := 0; e < nws; e++ {
				if e == dropE {
					S2 = append(S2, "-")
					continue
				}
				var st []string
				for j := first; j < len(H); j++ {
					st = append(st, fmt.Sprint(j))
				}
				for j := 0; j < first; j++ {
					if rng.Intn(3) == 0 {
						if only[j] {
							st = append(st, fmt.Sprintf("%dr", j))
						} else {
							st = append(st, fmt.Sprint(j))
						}
					}
				}
				p := rng.Perm(len(st))
				sh := make([]string, len(st))
				for a, b := range p {
					sh[a] = st[b]
				}
				S2 = append(S2, joinOr(sh, ","))
			}
			after = " " + strings.Join(S2, "/")
		}
		emit(fmt.Sprintf("sub %d %s %s %s %s%s", nws, csvI(tl), joinOr(H, "|"), strings.Join(S, "/"), drop, after))
	}
}

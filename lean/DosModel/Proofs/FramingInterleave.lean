import DosModel.Proofs.Framing

namespace Dos.Framing
open Dos

theorem iterReader_add (L : Nat) : ∀ (a b : Nat) (r : Reader),
    iterReader L (a + b) r = iterReader L b (iterReader L a r) := by
  intro a
  induction a with
  | zero => intro b r; simp [iterReader]
  | succ a ih => intro b r; rw [Nat.succ_add]; simp [iterReader, ih]

theorem step_fin (L : Nat) (out : Except Err Bytes) (req : Nat) (cs : List Bytes) :
    stepReader L { ph := .fin out req, cs := cs } = { ph := .fin out req, cs := cs } := rfl

theorem iter_fin (L : Nat) (out : Except Err Bytes) (req : Nat) (cs : List Bytes) :
    ∀ k, iterReader L k { ph := .fin out req, cs := cs } = { ph := .fin out req, cs := cs } := by
  intro k; induction k with
  | zero => rfl
  | succ k ih => simp [iterReader, step_fin, ih]

theorem iterReader_one_add (L k : Nat) (r : Reader) :
    iterReader L (1 + k) r = iterReader L k (stepReader L r) := by
  rw [Nat.add_comm]; rfl

theorem step_hdr0_bad (L : Nat) (acc : Bytes) (cs : List Bytes) (hc : beNat acc > L ∨ beNat acc = 0) :
    stepReader L { ph := .hdr 0 acc, cs := cs } = { ph := .fin (.error .size) headerSize, cs := cs } := by
  simp [stepReader, hc]

theorem step_hdr0_ok (L : Nat) (acc : Bytes) (cs : List Bytes) (hc : ¬ (beNat acc > L ∨ beNat acc = 0)) :
    stepReader L { ph := .hdr 0 acc, cs := cs } = { ph := .body (beNat acc) (beNat acc) [], cs := cs } := by
  simp [stepReader, hc]

theorem step_body0 (L size : Nat) (acc : Bytes) (cs : List Bytes) :
    stepReader L { ph := .body size 0 acc, cs := cs } = { ph := .fin (.ok acc) (max headerSize size), cs := cs } := rfl

/-- the header loop of the machine follows `readN` -/
theorem hdr_follows_readN (L : Nat) : ∀ (cs : List Bytes) (n : Nat) (acc : Bytes),
    ∃ k, iterReader L k { ph := .hdr n acc, cs := cs } =
      match readN n cs with
      | none => { ph := .fin (.error .header) headerSize, cs := [] }
      | some (b, r) => { ph := .hdr 0 (acc ++ b), cs := r } := by
  intro cs
  induction cs with
  | nil =>
    intro n acc
    cases n with
    | zero => exact ⟨0, by simp [iterReader, readN]⟩
    | succ n => exact ⟨1, by simp [iterReader, stepReader, readN]⟩
  | cons ch cs ih =>
    intro n acc
    cases n with
    | zero => exact ⟨0, by simp [iterReader, readN]⟩
    | succ n =>
      by_cases h0 : ch.length = 0
      · obtain ⟨k, hk⟩ := ih (n + 1) acc
        refine ⟨k + 1, ?_⟩
        simp only [iterReader, stepReader, h0, if_true]
        simpa [readN, h0] using hk
      · by_cases hle : ch.length ≤ n + 1
        · obtain ⟨k, hk⟩ := ih (n + 1 - ch.length) (acc ++ ch)
          refine ⟨k + 1, ?_⟩
          simp only [iterReader, stepReader, h0, hle, if_true, if_false]
          rw [hk]
          simp only [readN, h0, hle, if_true, if_false]
          cases readN (n + 1 - ch.length) cs with
          | none => rfl
          | some p => cases p with | mk b r => simp [List.append_assoc]
        · refine ⟨1, ?_⟩
          simp [iterReader, stepReader, readN, h0, hle]

/-- the content loop of the machine follows `readN` -/
theorem body_follows_readN (L size : Nat) : ∀ (cs : List Bytes) (n : Nat) (acc : Bytes),
    ∃ k, iterReader L k { ph := .body size n acc, cs := cs } =
      match readN n cs with
      | none => { ph := .fin (.error .body) (max headerSize size), cs := [] }
      | some (b, r) => { ph := .body size 0 (acc ++ b), cs := r } := by
  intro cs
  induction cs with
  | nil =>
    intro n acc
    cases n with
    | zero => exact ⟨0, by simp [iterReader, readN]⟩
    | succ n => exact ⟨1, by simp [iterReader, stepReader, readN]⟩
  | cons ch cs ih =>
    intro n acc
    cases n with
    | zero => exact ⟨0, by simp [iterReader, readN]⟩
    | succ n =>
      by_cases h0 : ch.length = 0
      · obtain ⟨k, hk⟩ := ih (n + 1) acc
        refine ⟨k + 1, ?_⟩
        simp only [iterReader, stepReader, h0, if_true]
        simpa [readN, h0] using hk
      · by_cases hle : ch.length ≤ n + 1
        · obtain ⟨k, hk⟩ := ih (n + 1 - ch.length) (acc ++ ch)
          refine ⟨k + 1, ?_⟩
          simp only [iterReader, stepReader, h0, hle, if_true, if_false]
          rw [hk]
          simp only [readN, h0, hle, if_true, if_false]
          cases readN (n + 1 - ch.length) cs with
          | none => rfl
          | some p => cases p with | mk b r => simp [List.append_assoc]
        · refine ⟨1, ?_⟩
          simp [iterReader, stepReader, readN, h0, hle]

/-- running the machine long enough is `readFrame` -/
theorem machine_is_readFrame (L : Nat) (cs : List Bytes) :
    ∃ k0, ∀ k, k0 ≤ k → readerResult (iterReader L k (initReader cs)) = some (readFrame L cs) := by
  -- it is enough to reach the final state once: `fin` is absorbing
  suffices h : ∃ k0, ∃ out req rest, iterReader L k0 (initReader cs) = { ph := .fin out req, cs := rest } ∧
      readFrame L cs = { out := out, rest := rest, req := req } by
    obtain ⟨k0, out, req, rest, h1, h2⟩ := h
    refine ⟨k0, fun k hk => ?_⟩
    obtain ⟨d, rfl⟩ := Nat.exists_eq_add_of_le hk
    rw [iterReader_add, h1, iter_fin, h2]; rfl
  obtain ⟨k1, h1⟩ := hdr_follows_readN L cs headerSize []
  unfold initReader
  cases hr : readN headerSize cs with
  | none =>
    rw [hr] at h1
    exact ⟨k1, .error .header, headerSize, [], h1, by simp [readFrame, hr]⟩
  | some p =>
    obtain ⟨hb, cs1⟩ := p
    rw [hr] at h1
    simp only [List.nil_append] at h1
    by_cases hc : beNat hb > L ∨ beNat hb = 0
    · refine ⟨k1 + 1, .error .size, headerSize, cs1, ?_, ?_⟩
      · rw [iterReader_add, h1]; show iterReader L 0 (stepReader L _) = _
        rw [step_hdr0_bad L hb cs1 hc]; rfl
      · simp [readFrame, hr, hc]
    · obtain ⟨k2, h2⟩ := body_follows_readN L (beNat hb) cs1 (beNat hb) []
      cases hr2 : readN (beNat hb) cs1 with
      | none =>
        rw [hr2] at h2
        refine ⟨k1 + (1 + k2), .error .body, max headerSize (beNat hb), [], ?_, ?_⟩
        · rw [iterReader_add, h1, iterReader_one_add, step_hdr0_ok L hb cs1 hc]
          exact h2
        · simp [readFrame, hr, hc, hr2]
      | some q =>
        obtain ⟨bb, cs2⟩ := q
        rw [hr2] at h2
        simp only [List.nil_append] at h2
        refine ⟨k1 + (1 + (k2 + 1)), .ok bb, max headerSize (beNat hb), cs2, ?_, ?_⟩
        · rw [iterReader_add, h1, iterReader_one_add, step_hdr0_ok L hb cs1 hc, iterReader_add, h2]
          show iterReader L 0 (stepReader L _) = _
          rw [step_body0]; rfl
        · simp [readFrame, hr, hc, hr2]

def countTrue : List Bool → Nat
  | [] => 0
  | true :: s => countTrue s + 1
  | false :: s => countTrue s

def countFalse : List Bool → Nat
  | [] => 0
  | true :: s => countFalse s
  | false :: s => countFalse s + 1

/-- interleaving is invisible: each reader just receives its own number of steps -/
theorem runInter_split (L : Nat) : ∀ (sch : List Bool) (a b : Reader),
    runInter L sch (a, b) = (iterReader L (countTrue sch) a, iterReader L (countFalse sch) b) := by
  intro sch
  induction sch with
  | nil => intro a b; rfl
  | cons x sch ih =>
    intro a b
    cases x with
    | true => simp [runInter, ih, countTrue, countFalse, iterReader]
    | false => simp [runInter, ih, countTrue, countFalse, iterReader]

end Dos.Framing

/-
Model of `sign/tbls/tbls.go` (`Sign`, `Verify`, `Recover`) and `sign/bls/bls.go` (`Sign`,
`Verify`), byte level, polymorphic like `Model/Share.lean`:

* scalars `S`, signature points `P` (G1) with `+ 0 •`, and a codec
  (`decode = UnmarshalBinary`, `encode = MarshalBinary`);
* the public polynomial is given by its coefficients `pub` (the commitments are `pubⱼ • B₂`);
  the message enters through the point `hm = H(m)` (keccak is not modelled);
* `bls.Verify(X = x•B₂, m, s)` – the pairing equation `e(-s, B₂)·e(H(m), X) = 1` – is modelled by
  the point equality `s = x • H(m)`; theorem `verify_iff` of `Props/C03.lean` proves the two
  equivalent in every non-degenerate bilinear pairing, and the correspondence run compares the
  model's verdicts with the real pairing code on every case.

`Recover` is modelled AS REPAIRED in /repo (commits 4404707, 3dee076, f036cda, 3cdfff8):
unparsable entries are skipped, one share per index, indices outside `[0,n)` do not count, and a
threshold `t` smaller than `public.Threshold()` (the number of coefficients) is refused.
-/
import DosModel.Model.Share

namespace Dos.Tbls
open Dos Dos.Share

/-- `UnmarshalBinary` / `MarshalBinary` of the signature group -/
structure Codec (P : Type) where
  decode : Bytes → Option P
  encode : P → Bytes

inductive Res where
  | ok (sig : Bytes)
  | errFew        -- share.RecoverCommit: not enough good public shares
  | errThreshold  -- t < public.Threshold() (guard of /repo 3cdfff8)
  | errDecode     -- point.UnmarshalBinary failed after bls.Verify succeeded (unreachable)
  | panic (s : Site)
  deriving DecidableEq, Repr

/-- `SigShare.Index`: 2-byte big-endian prefix; `none` = `binary.Read` error (EOF / unexpected EOF) -/
def sigIndex : Bytes → Option Nat
  | a :: b :: _ => some (a.toNat * 256 + b.toNat)
  | _ => none

/-- `SigShare.Value` (only called after `Index` succeeded) -/
def sigValue (s : Bytes) : Bytes := s.drop 2

/-- `sliceUniqMap`: keep the first occurrence of every byte string -/
def uniqAux : List Bytes → List Bytes → List Bytes
  | _, [] => []
  | seen, v :: rest => if v ∈ seen then uniqAux seen rest else v :: uniqAux (v :: seen) rest

def uniq (s : List Bytes) : List Bytes := uniqAux [] s

/-- what the CALLER's slice holds after `sliceUniqMap` ran on it (it compacts in place: `s[j] = v`):
the unique entries in first-occurrence order, then the old entries of the remaining positions -/
def uniqInPlace (l : List Bytes) : List Bytes := uniq l ++ l.drop (uniq l).length

section
variable {S : Type} [Add S] [Sub S] [Mul S] [Neg S] [Zero S] [One S] [Inv S] [IntCast S] [DecidableEq S]
variable {P : Type} [Add P] [Zero P] [SMul S P] [DecidableEq P]

/-- `bls.Sign(x, m)`: marshal `x • H(m)` -/
def blsSign (cd : Codec P) (x : S) (hm : P) : Bytes := cd.encode (x • hm)

inductive VRes where
  | ok
  | errIndex     -- SigShare.Index failed (fewer than 2 bytes)
  | errDecode    -- UnmarshalBinary failed
  | errInvalid   -- "bls: invalid signature"
  deriving DecidableEq, Repr

/-- `bls.Verify(x•B₂, m, sig)`: unmarshal, then the pairing check, i.e. `s = x • H(m)` -/
def blsVerifyR (cd : Codec P) (x : S) (hm : P) (sig : Bytes) : VRes :=
  match cd.decode sig with
  | none => .errDecode
  | some s => if s = x • hm then .ok else .errInvalid

/-- `bls.Verify(…) == nil` -/
def blsVerify (cd : Codec P) (x : S) (hm : P) (sig : Bytes) : Bool :=
  decide (blsVerifyR cd x hm sig = .ok)

/-- `tbls.Sign(share i, m)`: `uint16(i)` big-endian, then the BLS signature -/
def tblsSign (cd : Codec P) (f : List S) (hm : P) (i : Nat) : Bytes :=
  natBE 2 i ++ blsSign cd (priEval f (i : Int)) hm

/-- `tbls.Verify(public, m, sig)`; `public.Eval(i)` is the key `pub(i+1) • B₂` -/
def tblsVerifyR (cd : Codec P) (pub : List S) (hm : P) (sig : Bytes) : VRes :=
  match sigIndex sig with
  | none => .errIndex
  | some i => blsVerifyR cd (priEval pub (i : Int)) hm (sigValue sig)

def tblsVerify (cd : Codec P) (pub : List S) (hm : P) (sig : Bytes) : Bool :=
  decide (tblsVerifyR cd pub hm sig = .ok)

/-- the collecting loop of `tbls.Recover`. `seen` = keys of the map, `acc` = `pubShares` (in
order). `none` = the `return nil, err` after a failed `UnmarshalBinary`. -/
def collect (cd : Codec P) (pub : List S) (hm : P) (t n : Nat) :
    List Bytes → List Nat → List (PubShare P) → Option (List (PubShare P))
  | [], _, acc => some acc
  | sig :: rest, seen, acc =>
    match sigIndex sig with
    | none => collect cd pub hm t n rest seen acc
    | some i =>
      if i ∈ seen ∨ n ≤ i then collect cd pub hm t n rest seen acc
      else if blsVerify cd (priEval pub (i : Int)) hm (sigValue sig) = false then
        collect cd pub hm t n rest seen acc
      else
        match cd.decode (sigValue sig) with
        | none => none
        | some pt =>
          let acc' := acc ++ [⟨(i : Int), some pt⟩]
          if acc'.length ≥ t then some acc' else collect cd pub hm t n rest (i :: seen) acc'

/-- `tbls.Recover` -/
def recover (cd : Codec P) (pub : List S) (hm : P) (sigs : List Bytes) (t n : Nat) : Res :=
  if t < pub.length then .errThreshold
  else
    match collect cd pub hm t n (uniq sigs) [] [] with
    | none => .errDecode
    | some shares =>
      match recoverCommit (S := S) true (shares.map some) t n with
      | .ok c => .ok (cd.encode c)
      | .err _ => .errFew
      | .panic s => .panic s

end
end Dos.Tbls

package c11

// Representatives.  The Go objects are Jacobian points (x, y, z, t) in Montgomery limbs; one element has
// many representatives (every Add / Double / Mul result has its own z).  "Equality of elements coincides
// with equality of encodings" is a statement about THEM: two representatives of one element must marshal
// to the same bytes and compare Equal, representatives of different elements must not (review 4-B finding 10).
//
//   <g>rep <expr> <expr>     g in g1|g2|gt: build two objects by the two expressions — no normalisation in
//                            between —, then Equal both ways, MarshalBinary of both, Equal again, pairing
//   par <g> <expr> <n> <rounds>   ONE shared object built by <expr> (never normalised) used by n goroutines
//                            at once: MarshalBinary, Equal (both directions) with a private equal element,
//                            Pair with a fixed partner, PairingCheck; <rounds> fresh objects
//
// <expr>: reverse Polish, tokens separated by ','
//   k<dec>  push Mul(k, nil) (k·Base; GT: Base^k)      b push Base()     o push Null()
//   p<a>:<b>  (gt only) push Pair(a·G1, b·G2)
//   +  pop b, a; push Add(a, b)        -  push Sub(a, b)      n  push Neg(a)      d  push Add(a, a)
//   m<dec>  push Mul(k, a)             c  push Clone(a)  (= decode(encode a): a DECODED object inside the chain)
//   s  push Set(a) (a copy of the representative)
// The harness tracks the discrete logarithm of every stack entry (mod r) with math/big: that decides which
// representatives denote equal elements and, through bnref / go-ethereum google, what their encoding must be.

import (
	"bytes"
	"fmt"
	"math/big"
	"strings"
	"sync"

	"github.com/dedis/kyber"
	gbn "github.com/ethereum/go-ethereum/crypto/bn256/google"

	"verifharness/internal/h"
	"verifharness/props/c11/bnref"
)

type ent struct {
	pt   kyber.Point
	dlog *big.Int
}

func modr(v *big.Int) *big.Int { return v.Mod(v, bnref.Rn) }

func evalExpr(g, expr string) ent {
	G := group(g)
	var st []ent
	pop := func() ent {
		if len(st) == 0 {
			panic("bad case line: stack underflow in " + expr)
		}
		e := st[len(st)-1]
		st = st[:len(st)-1]
		return e
	}
	for _, tok := range strings.Split(expr, ",") {
		switch {
		case tok == "b":
			st = append(st, ent{G.Point().Base(), big.NewInt(1)})
		case tok == "o":
			st = append(st, ent{G.Point().Null(), big.NewInt(0)})
		case tok[0] == 'k':
			k := h.BigDec(tok[1:])
			st = append(st, ent{G.Point().Mul(scalar(k), nil), modr(new(big.Int).Mod(k, two256))})
		case tok[0] == 'p' && g == "gt":
			ab := strings.SplitN(tok[1:], ":", 2)
			a, b := h.BigDec(ab[0]), h.BigDec(ab[1])
			d := new(big.Int).Mul(modr(new(big.Int).Mod(a, two256)), modr(new(big.Int).Mod(b, two256)))
			st = append(st, ent{suite.Pair(elem("g1", a), elem("g2", b)), modr(d)})
		case tok == "+":
			b, a := pop(), pop()
			st = append(st, ent{G.Point().Add(a.pt, b.pt), modr(new(big.Int).Add(a.dlog, b.dlog))})
		case tok == "-":
			b, a := pop(), pop()
			st = append(st, ent{G.Point().Sub(a.pt, b.pt), modr(new(big.Int).Sub(a.dlog, b.dlog))})
		case tok == "n":
			a := pop()
			st = append(st, ent{G.Point().Neg(a.pt), modr(new(big.Int).Neg(a.dlog))})
		case tok == "d":
			a := pop()
			st = append(st, ent{G.Point().Add(a.pt, a.pt), modr(new(big.Int).Add(a.dlog, a.dlog))})
		case tok[0] == 'm':
			a := pop()
			k := h.BigDec(tok[1:])
			st = append(st, ent{G.Point().Mul(scalar(k), a.pt), modr(new(big.Int).Mul(a.dlog, modr(new(big.Int).Mod(k, two256))))})
		case tok == "c":
			a := pop()
			st = append(st, ent{a.pt.Clone(), a.dlog})
		case tok == "s":
			a := pop()
			st = append(st, ent{G.Point().Set(a.pt), a.dlog})
		default:
			panic("bad case line: token " + tok)
		}
	}
	if len(st) != 1 {
		panic("bad case line: expression leaves " + fmt.Sprint(len(st)) + " values: " + expr)
	}
	return st[0]
}

var googleGTGen = gbn.Pair(new(gbn.G1).ScalarBaseMult(big.NewInt(1)), new(gbn.G2).ScalarBaseMult(big.NewInt(1)))

// wantEnc: the encoding of the element with discrete log d, from code that shares nothing with /repo
func wantEnc(g string, d *big.Int) []byte {
	if g == "gt" {
		return new(gbn.GT).ScalarMult(googleGTGen, d).Marshal()
	}
	return refEnc(g, d)
}

func partnerPair(g string, x kyber.Point) kyber.Point {
	switch g {
	case "g1":
		return suite.Pair(x, g2Base)
	case "g2":
		return suite.Pair(g1Base, x)
	}
	return nil
}

func execRep(g string, w []string, res *h.Result) {
	P, Q := evalExpr(g, w[1]), evalExpr(g, w[2])
	jac := nonNormal(g, P.pt) || nonNormal(g, Q.pt)
	want := P.dlog.Cmp(Q.dlog) == 0
	// pairing with the representatives as they are (before anything normalises them)
	var eP, eQ kyber.Point
	if g != "gt" {
		eP, eQ = partnerPair(g, P.pt), partnerPair(g, Q.pt)
	}
	eq1, eq2 := P.pt.Equal(Q.pt), Q.pt.Equal(P.pt)
	pe, qe := mustEnc(P.pt), mustEnc(Q.pt)
	same := bytes.Equal(pe, qe)
	eq3, eq4 := P.pt.Equal(Q.pt), Q.pt.Equal(P.pt) // after MarshalBinary (G2 used to normalise in place)
	res.Impl = fmt.Sprintf("eq=%d qe=%d enc=%d", b2i(eq1), b2i(eq2), b2i(same))
	if g != "gt" {
		res.Impl += " e1=" + h.Hex(pe) + " e2=" + h.Hex(qe)
	}
	res.Class = fmt.Sprintf("%srep-%d-%s", g, b2i(want), map[bool]string{true: "jac", false: "aff"}[jac])
	switch {
	case eq1 != want || eq2 != want:
		res.Oracle = fmt.Sprintf("%s-equal-mismatch: two representatives, elements equal=%v, P.Equal(Q)=%v Q.Equal(P)=%v", g, want, eq1, eq2)
	case same != want:
		res.Oracle = fmt.Sprintf("%s-equal-vs-bytes: two representatives, elements equal=%v, encodings equal=%v", g, want, same)
	case eq3 != want || eq4 != want:
		res.Oracle = fmt.Sprintf("%s-equal-mismatch: Equal after MarshalBinary: P.Equal(Q)=%v Q.Equal(P)=%v, elements equal=%v", g, eq3, eq4, want)
	case !bytes.Equal(pe, wantEnc(g, P.dlog)):
		res.Oracle = fmt.Sprintf("%s-encoding-differs: representative of the element with dlog %s marshals to %s…", g, P.dlog, h.Hex(pe[:33]))
	case !bytes.Equal(qe, wantEnc(g, Q.dlog)):
		res.Oracle = fmt.Sprintf("%s-encoding-differs: representative of the element with dlog %s marshals to %s…", g, Q.dlog, h.Hex(qe[:33]))
	case g != "gt" && (eP.Equal(eQ) != want || bytes.Equal(mustEnc(eP), mustEnc(eQ)) != want):
		res.Oracle = fmt.Sprintf("%s-representative-pairing-differs: elements equal=%v but Pair(P)==Pair(Q) is %v", g, want, eP.Equal(eQ))
	}
	if res.Oracle == "" && g == "gt" && len(pe) != 384 {
		res.Oracle = fmt.Sprintf("gt-length: %d", len(pe))
	}
	if res.Oracle == "" {
		// round trip of both representatives, and the decoded objects behave as the originals
		for _, e := range []ent{P, Q} {
			D := group(g).Point()
			if err := D.UnmarshalBinary(mustEnc(e.pt)); err != nil {
				res.Oracle = g + "-roundtrip-rejected: " + errKind(err)
				break
			}
			if g != "gt" {
				if o := sameBehaviour(g, e.pt, D); o != "" {
					res.Oracle = o
					break
				}
			} else if !D.Equal(e.pt) || !e.pt.Equal(D) {
				res.Oracle = "gt-roundtrip-differs"
				break
			}
		}
	}
}

// execPar: one shared object, n goroutines
func execPar(w []string, res *h.Result) {
	g, expr := w[1], w[2]
	n, rounds := h.Atoi(w[3]), h.Atoi(w[4])
	res.Class = fmt.Sprintf("par-%s-n%d", g, n)
	ref := evalExpr(g, expr)
	want := wantEnc(g, ref.dlog)
	var wantPair []byte
	if g != "gt" {
		wantPair = mustEnc(partnerPair(g, ref.pt))
	}
	bad := 0
	first := ""
	note := func(s string) {
		bad++
		if first == "" {
			first = s
		}
	}
	var mu sync.Mutex
	for r := 0; r < rounds; r++ {
		X := evalExpr(g, expr).pt // the shared object: a fresh, never normalised representative
		// private equal / different elements, one per goroutine (Equal(q) marshals q as well)
		same := make([]kyber.Point, n)
		other := make([]kyber.Point, n)
		for i := range same {
			same[i] = evalExpr(g, expr).pt
			other[i] = group(g).Point().Add(evalExpr(g, expr).pt, group(g).Point().Base())
		}
		start := make(chan struct{})
		var wg sync.WaitGroup
		for i := 0; i < n; i++ {
			wg.Add(1)
			go func(i int) {
				defer wg.Done()
				defer func() {
					if e := recover(); e != nil {
						mu.Lock()
						note(fmt.Sprintf("goroutine %d panics: %v", i, e))
						mu.Unlock()
					}
				}()
				<-start
				var msg string
				switch i % 4 {
				case 0:
					if e := mustEnc(X); !bytes.Equal(e, want) {
						msg = fmt.Sprintf("concurrent-marshal-differs: round %d goroutine %d: MarshalBinary of the shared object gives %s…, the element's encoding is %s…", r, i, h.Hex(e[:33]), h.Hex(want[:33]))
					}
				case 1:
					if !X.Equal(same[i]) || X.Equal(other[i]) {
						msg = fmt.Sprintf("concurrent-equal-differs: round %d goroutine %d: X.Equal(equal element)=%v X.Equal(other element)=%v", r, i, X.Equal(same[i]), X.Equal(other[i]))
					}
				case 2:
					if !same[i].Equal(X) || other[i].Equal(X) {
						msg = fmt.Sprintf("concurrent-equal-differs: round %d goroutine %d: (equal element).Equal(X)=%v (other).Equal(X)=%v", r, i, same[i].Equal(X), other[i].Equal(X))
					}
				case 3:
					if g == "gt" {
						if e := mustEnc(group(g).Point().Add(X, group(g).Point().Null())); !bytes.Equal(e, want) {
							msg = fmt.Sprintf("concurrent-use-differs: round %d goroutine %d: X + 0 encodes to %s…", r, i, h.Hex(e[:33]))
						}
					} else if e := mustEnc(partnerPair(g, X)); !bytes.Equal(e, wantPair) {
						msg = fmt.Sprintf("concurrent-pairing-differs: round %d goroutine %d: Pair with the shared object gives %s…, expected %s…", r, i, h.Hex(e[:32]), h.Hex(wantPair[:32]))
					}
				}
				if msg != "" {
					mu.Lock()
					note(msg)
					mu.Unlock()
				}
			}(i)
		}
		close(start)
		wg.Wait()
		// afterwards the shared object must still be the element
		if e := mustEnc(X); !bytes.Equal(e, want) {
			note(fmt.Sprintf("concurrent-marshal-differs: round %d: after the concurrent calls the shared object marshals to %s…, the element's encoding is %s…", r, h.Hex(e[:33]), h.Hex(want[:33])))
		}
	}
	res.Impl = fmt.Sprintf("enc=%s bad=0", h.Hex(want))
	if g == "gt" {
		res.Impl = "bad=0"
	}
	if bad > 0 {
		res.Impl = strings.Replace(res.Impl, "bad=0", fmt.Sprintf("bad=%d", bad), 1)
		res.Oracle = fmt.Sprintf("%s-%s (%d wrong answers in %d rounds of %d goroutines on one shared object built by %s)", g, first, bad, rounds, n, h.OneLine(expr))
	}
}

// Package pkgvars regenerates DosModel/Gen/PkgVars.lean: for each package of a list, the COMPLETE
// list of package-level `var` declarations (all non-test files of the directory, hook files
// included): file, name, type expression, initialiser, and whether the variable is written
// anywhere outside `init` (assigned, ++/--, address taken, a method called on it, an element or
// field of it assigned). A package-level variable is process-wide state shared by every request
// and every goroutine: a theorem that pins the list (e.g. `dosnode = []` in Props/C07.lean) breaks
// within seconds when a cache / pool / memo table is added to the package.
//
// Reusable: Collect(repo, dir) and Lean(defName, vars) can be called from any other extractor;
// the registered extractor covers Packages (override with VERIF_PKGVARS="dir,dir,…").
// go/parser + go/ast only (identifier resolution is the parser's file-scope resolution plus the
// rule "unresolved or resolved to the top-level spec = the package-level variable").
package pkgvars

import (
	"bytes"
	"fmt"
	"go/ast"
	"go/parser"
	"go/printer"
	"go/token"
	"io/ioutil"
	"os"
	"path/filepath"
	"sort"
	"strings"

	"verifharness/extract/ex"
)

// Packages is the default list: the packages whose functions must be pure functions of their
// arguments for the properties that use this fact.
var Packages = []string{"dosnode", "sign/bls", "sign/tbls", "share", "p2p"}

func init() { ex.Register(&ex.Extractor{Name: "PkgVars", Run: run}) }

type Var struct {
	File    string
	Name    string
	Type    string // explicit type expression, "" when inferred from the initialiser
	Value   string // initialiser text (whitespace-normalised, long ones cut), "" when none
	Written bool   // written somewhere outside init (see package comment)
}

func text(fset *token.FileSet, n ast.Node) string {
	var b bytes.Buffer
	printer.Fprint(&b, fset, n)
	s := strings.Join(strings.Fields(b.String()), " ")
	if len(s) > 160 {
		s = fmt.Sprintf("%s…(%d chars)", s[:160], len(s))
	}
	return s
}

// root returns the identifier an lvalue / receiver expression is rooted at: x, x.f, x[i], *x, (x) → x
func root(e ast.Expr) *ast.Ident {
	for {
		switch x := e.(type) {
		case *ast.Ident:
			return x
		case *ast.SelectorExpr:
			e = x.X
		case *ast.IndexExpr:
			e = x.X
		case *ast.StarExpr:
			e = x.X
		case *ast.ParenExpr:
			e = x.X
		case *ast.SliceExpr:
			e = x.X
		default:
			return nil
		}
	}
}

// Collect lists the package-level variables of the package in repo/dir.
func Collect(repo, dir string) ([]Var, error) {
	full := filepath.Join(repo, dir)
	infos, err := ioutil.ReadDir(full)
	if err != nil {
		return nil, err
	}
	fset := token.NewFileSet()
	type fileT struct {
		name string
		f    *ast.File
	}
	var files []fileT
	for _, fi := range infos {
		n := fi.Name()
		if fi.IsDir() || !strings.HasSuffix(n, ".go") || strings.HasSuffix(n, "_test.go") {
			continue
		}
		f, err := parser.ParseFile(fset, filepath.Join(full, n), nil, 0)
		if err != nil {
			return nil, err
		}
		files = append(files, fileT{n, f})
	}
	sort.Slice(files, func(i, j int) bool { return files[i].name < files[j].name })
	var vars []Var
	specOf := map[string]*ast.ValueSpec{}
	for _, ft := range files {
		for _, d := range ft.f.Decls {
			gd, ok := d.(*ast.GenDecl)
			if !ok || gd.Tok != token.VAR {
				continue
			}
			for _, s := range gd.Specs {
				vs := s.(*ast.ValueSpec)
				for i, nm := range vs.Names {
					v := Var{File: ft.name, Name: nm.Name}
					if vs.Type != nil {
						v.Type = text(fset, vs.Type)
					}
					if i < len(vs.Values) {
						v.Value = text(fset, vs.Values[i])
					} else if len(vs.Values) == 1 && len(vs.Names) > 1 {
						v.Value = text(fset, vs.Values[0])
					}
					vars = append(vars, v)
					if nm.Name != "_" {
						specOf[nm.Name] = vs
					}
				}
			}
		}
	}
	written := map[string]bool{}
	isPkgVar := func(id *ast.Ident) bool {
		if id == nil {
			return false
		}
		vs, ok := specOf[id.Name]
		if !ok {
			return false
		}
		if id.Obj == nil {
			return true // declared in another file of the package
		}
		return id.Obj.Decl == vs
	}
	mark := func(e ast.Expr) {
		if id := root(e); isPkgVar(id) {
			written[id.Name] = true
		}
	}
	for _, ft := range files {
		for _, d := range ft.f.Decls {
			fd, ok := d.(*ast.FuncDecl)
			if !ok || fd.Body == nil || (fd.Recv == nil && fd.Name.Name == "init") {
				continue
			}
			ast.Inspect(fd.Body, func(n ast.Node) bool {
				switch x := n.(type) {
				case *ast.AssignStmt:
					if x.Tok != token.DEFINE {
						for _, l := range x.Lhs {
							mark(l)
						}
					}
				case *ast.IncDecStmt:
					mark(x.X)
				case *ast.RangeStmt:
					if x.Tok == token.ASSIGN {
						if x.Key != nil {
							mark(x.Key)
						}
						if x.Value != nil {
							mark(x.Value)
						}
					}
				case *ast.UnaryExpr:
					if x.Op == token.AND {
						mark(x.X)
					}
				case *ast.CallExpr:
					if sel, ok := x.Fun.(*ast.SelectorExpr); ok {
						mark(sel.X) // a method called on the variable (or a field of it) may mutate it
					}
				}
				return true
			})
		}
	}
	for i := range vars {
		vars[i].Written = written[vars[i].Name]
	}
	return vars, nil
}

// Lean renders `def <defName> : List PkgVar := […]`.
func Lean(defName string, vars []Var) string {
	s := fmt.Sprintf("def %s : List PkgVar := [", defName)
	for i, v := range vars {
		if i > 0 {
			s += ","
		}
		s += fmt.Sprintf("\n  { file := %s, name := %s, type := %s, value := %s, written := %v }",
			ex.LeanStr(v.File), ex.LeanStr(v.Name), ex.LeanStr(v.Type), ex.LeanStr(v.Value), v.Written)
	}
	if len(vars) > 0 {
		s += "\n"
	}
	return s + "]\n"
}

// DefName turns a package directory into a Lean identifier: sign/bls → signBls
func DefName(dir string) string {
	out := ""
	up := false
	for _, r := range dir {
		switch {
		case r == '/' || r == '-' || r == '_' || r == '.':
			up = true
		case up:
			out += strings.ToUpper(string(r))
			up = false
		default:
			out += string(r)
		}
	}
	return out
}

const StructDecl = "structure PkgVar where\n  file : String\n  name : String\n  type : String\n  value : String\n  written : Bool\n  deriving DecidableEq, Repr\n"

func run(repo string) (string, error) {
	pk := Packages
	if v := os.Getenv("VERIF_PKGVARS"); v != "" {
		pk = strings.Split(v, ",")
	}
	s := ex.Header("PkgVars", "the package-level var declarations of "+strings.Join(pk, ", "))
	s += "namespace Dos.Gen.PkgVars\n"
	s += "/-- one package-level `var`: file, name, type expression (\"\" = inferred), initialiser, written outside init -/\n"
	s += StructDecl
	for _, dir := range pk {
		vars, err := Collect(repo, dir)
		if err != nil {
			return "", fmt.Errorf("package %s: %v", dir, err)
		}
		s += fmt.Sprintf("/-- package %s -/\n", dir)
		s += Lean(DefName(dir), vars)
	}
	s += "end Dos.Gen.PkgVars\n"
	return s, nil
}

// Statement skeletons of the functions the hand models Model/Share.lean and Model/Tbls.lean
// transcribe (review B #8: the constants above constrain almost nothing of Recover, RecoverCommit,
// xScalar, Equal, Check …). Every statement of every listed function is rendered with go/printer, in
// source order, with its nesting depth: conditions, what a branch does (return of which values,
// continue, break), every call and assignment. Props/C09.lean `c09_code_shape` and Props/C02.lean
// `c02_code_shape` pin the lists literally, so ANY edit to one of these functions breaks the
// obligation until the model has been looked at again (walker as in extract/vssfacts).
package tblsfacts

import (
	"bytes"
	"fmt"
	"go/ast"
	"go/printer"
	"go/token"
	"path/filepath"
	"strings"

	"verifharness/extract/ex"
)

type target struct{ file, recv, fn, lean string }

var shapeTargets = []target{
	{"share/poly.go", "", "NewPriPoly", "newPriPoly"},
	{"share/poly.go", "", "CoefficientsToPriPoly", "coefficientsToPriPoly"},
	{"share/poly.go", "PriPoly", "Threshold", "priThreshold"},
	{"share/poly.go", "PriPoly", "Secret", "priSecret"},
	{"share/poly.go", "PriPoly", "Eval", "priEval"},
	{"share/poly.go", "PriPoly", "Shares", "priShares"},
	{"share/poly.go", "PriPoly", "Add", "priAdd"},
	{"share/poly.go", "PriPoly", "Equal", "priEqual"},
	{"share/poly.go", "PriPoly", "Commit", "priCommit"},
	{"share/poly.go", "PriPoly", "Mul", "priMul"},
	{"share/poly.go", "PriPoly", "Coefficients", "priCoefficients"},
	{"share/poly.go", "", "RecoverSecret", "recoverSecret"},
	{"share/poly.go", "", "xScalar", "xScalar"},
	{"share/poly.go", "", "xMinusConst", "xMinusConst"},
	{"share/poly.go", "", "RecoverPriPoly", "recoverPriPoly"},
	{"share/poly.go", "", "NewPubPoly", "newPubPoly"},
	{"share/poly.go", "PubPoly", "Info", "pubInfo"},
	{"share/poly.go", "PubPoly", "Threshold", "pubThreshold"},
	{"share/poly.go", "PubPoly", "Commit", "pubCommit"},
	{"share/poly.go", "PubPoly", "Eval", "pubEval"},
	{"share/poly.go", "PubPoly", "Shares", "pubShares"},
	{"share/poly.go", "PubPoly", "Add", "pubAdd"},
	{"share/poly.go", "PubPoly", "Equal", "pubEqual"},
	{"share/poly.go", "PubPoly", "Check", "pubCheck"},
	{"share/poly.go", "", "RecoverCommit", "recoverCommit"},
	{"sign/tbls/tbls.go", "SigShare", "Index", "sigShareIndex"},
	{"sign/tbls/tbls.go", "SigShare", "Value", "sigShareValue"},
	{"sign/tbls/tbls.go", "", "Sign", "tblsSign"},
	{"sign/tbls/tbls.go", "", "Verify", "tblsVerify"},
	{"sign/tbls/tbls.go", "", "sliceUniqMap", "sliceUniqMap"},
	{"sign/tbls/tbls.go", "", "Recover", "tblsRecover"},
	{"sign/bls/bls.go", "", "Sign", "blsSign"},
	{"sign/bls/bls.go", "", "Verify", "blsVerify"},
	{"sign/bls/bls.go", "", "hashToPoint", "hashToPoint"},
}

type walker struct {
	fset  *token.FileSet
	lines []string
}

func (w *walker) src(n ast.Node) string {
	var b bytes.Buffer
	printer.Fprint(&b, w.fset, n)
	return strings.Join(strings.Fields(b.String()), " ")
}

func (w *walker) emit(depth int, s string) {
	w.lines = append(w.lines, fmt.Sprintf("%d| %s", depth, s))
}

func logging(t string) bool {
	for _, p := range []string{"fmt.Print", "logger.", "log.", "defer fmt.Print", "defer logger.", "p.logger.", "d.logger."} {
		if strings.HasPrefix(t, p) {
			return true
		}
	}
	return false
}

// exprLits walks the function literals inside a simple statement (goroutines, callbacks)
func (w *walker) lits(depth int, n ast.Node) {
	ast.Inspect(n, func(x ast.Node) bool {
		if fl, ok := x.(*ast.FuncLit); ok {
			w.emit(depth+1, "func"+w.src(fl.Type)[4:])
			w.block(depth+2, fl.Body.List)
			return false
		}
		return true
	})
}

// simple renders a statement with the bodies of function literals replaced by "{…}"
func (w *walker) simple(n ast.Node) string {
	t := w.src(n)
	// cut function literal bodies out of the text: they are emitted as nested lines
	var cut []string
	ast.Inspect(n, func(x ast.Node) bool {
		if fl, ok := x.(*ast.FuncLit); ok {
			cut = append(cut, w.src(fl.Body))
			return false
		}
		return true
	})
	for _, c := range cut {
		t = strings.Replace(t, c, "{…}", 1)
	}
	return t
}

func (w *walker) block(depth int, list []ast.Stmt) {
	for _, st := range list {
		w.stmt(depth, st)
	}
}

func (w *walker) stmt(depth int, st ast.Stmt) {
	switch s := st.(type) {
	case *ast.IfStmt:
		h := "if "
		if s.Init != nil {
			h += w.simple(s.Init) + "; "
		}
		w.emit(depth, h+w.src(s.Cond))
		if s.Init != nil {
			w.lits(depth, s.Init)
		}
		w.block(depth+1, s.Body.List)
		if s.Else != nil {
			w.emit(depth, "else")
			if b, ok := s.Else.(*ast.BlockStmt); ok {
				w.block(depth+1, b.List)
			} else {
				w.stmt(depth+1, s.Else)
			}
		}
	case *ast.ForStmt:
		h := "for"
		if s.Init != nil {
			h += " " + w.src(s.Init) + ";"
		}
		if s.Cond != nil {
			h += " " + w.src(s.Cond)
		}
		if s.Post != nil {
			h += "; " + w.src(s.Post)
		}
		w.emit(depth, h)
		w.block(depth+1, s.Body.List)
	case *ast.RangeStmt:
		h := "for "
		if s.Key != nil {
			h += w.src(s.Key)
			if s.Value != nil {
				h += ", " + w.src(s.Value)
			}
			h += " " + s.Tok.String() + " "
		}
		w.emit(depth, h+"range "+w.src(s.X))
		w.block(depth+1, s.Body.List)
	case *ast.SelectStmt:
		w.emit(depth, "select")
		w.block(depth+1, s.Body.List)
	case *ast.CommClause:
		if s.Comm == nil {
			w.emit(depth, "default:")
		} else {
			w.emit(depth, "case "+w.src(s.Comm)+":")
		}
		w.block(depth+1, s.Body)
	case *ast.SwitchStmt:
		h := "switch"
		if s.Init != nil {
			h += " " + w.src(s.Init) + ";"
		}
		if s.Tag != nil {
			h += " " + w.src(s.Tag)
		}
		w.emit(depth, h)
		w.block(depth+1, s.Body.List)
	case *ast.TypeSwitchStmt:
		w.emit(depth, "switch "+w.src(s.Assign))
		w.block(depth+1, s.Body.List)
	case *ast.CaseClause:
		if s.List == nil {
			w.emit(depth, "default:")
		} else {
			var es []string
			for _, e := range s.List {
				es = append(es, w.src(e))
			}
			w.emit(depth, "case "+strings.Join(es, ", ")+":")
		}
		w.block(depth+1, s.Body)
	case *ast.BlockStmt:
		w.block(depth, s.List)
	case *ast.LabeledStmt:
		w.emit(depth, s.Label.Name+":")
		w.stmt(depth, s.Stmt)
	default: // return, branch, assign, expr, go, defer, decl, send, incdec
		t := w.simple(st)
		if logging(t) {
			return
		}
		w.emit(depth, t)
		w.lits(depth, st)
	}
}

// shapes renders `namespace Dos.Gen.TblsShape … end` with one `List String` per target.
func shapes(repo string) (string, error) {
	s := "namespace Dos.Gen.TblsShape\n"
	parsed := map[string]*ast.File{}
	fsets := map[string]*token.FileSet{}
	for _, t := range shapeTargets {
		if parsed[t.file] == nil {
			fset, f, err := ex.Parse(filepath.Join(repo, filepath.FromSlash(t.file)))
			if err != nil {
				return "", err
			}
			parsed[t.file], fsets[t.file] = f, fset
		}
		fd := ex.FuncDecl(parsed[t.file], t.recv, t.fn)
		if fd == nil || fd.Body == nil {
			// keep the fact file compiling (the driver imports it): the shape theorem rejects this list
			s += fmt.Sprintf("def %s : List String := [%s]\n", t.lean, ex.LeanStr(fmt.Sprintf("function %s.%s not found in %s", t.recv, t.fn, t.file)))
			continue
		}
		w := &walker{fset: fsets[t.file]}
		recv := ""
		if fd.Recv != nil && len(fd.Recv.List) == 1 {
			r := fd.Recv.List[0]
			nm := ""
			if len(r.Names) == 1 {
				nm = r.Names[0].Name + " "
			}
			recv = "(" + nm + w.src(r.Type) + ") "
		}
		w.emit(0, "func "+recv+t.fn+w.src(fd.Type)[4:])
		w.block(1, fd.Body.List)
		s += fmt.Sprintf("def %s : List String := [\n", t.lean)
		for i, l := range w.lines {
			sep := ","
			if i == len(w.lines)-1 {
				sep = ""
			}
			s += "  " + ex.LeanStr(l) + sep + "\n"
		}
		s += "]\n"
	}
	s += "end Dos.Gen.TblsShape\n"
	return s, nil
}

var _ = bytes.MinRead
var _ = printer.Fprint
var _ = strings.Join

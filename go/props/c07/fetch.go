package c07

// The document bound of dataFetch (fix 2c0c671: at most 16 MiB are read) at its boundary (round 5).
//
//	fetch <len> direct          dataFetch of a body of <len> bytes            → ok <len> | err
//	fetch <len> empty <addr>    genQueryResult, empty selector (the document) → ok <len+|addr|> | err
//	fetch <len> other <addr>    genQueryResult, a selector that is neither JSONPath nor XPath
//	                            (empty result: the content is the address)    → ok <|addr|> | err
//	fetch 0 cut|eof             the connection / the body is cut              → err
//
// Oracle (from the line alone): a body of at most 16*2^20 bytes is returned byte for byte (length and
// every byte checked), a longer one is an error with NO partial document handed on; through the stage
// nothing is signed for an over-long document and the signed content has exactly the expected length
// and ends with the address.

import (
	"bytes"
	"fmt"

	"github.com/DOSNetwork/core/dosnode"

	"verifharness/internal/h"
)

const docBound = 16 * 1024 * 1024 // stated here independently of the source; the regenerated constant is pinned by c07_fetch_bound

func allX(b []byte) bool {
	for _, c := range b {
		if c != 'x' {
			return false
		}
	}
	return true
}

func execFetch(w []string) (res h.Result) {
	res.Nontrivial = true
	n, via := h.Atoi(w[1]), w[2]
	res.Class = "fetch " + via + " len" + cmpClass(n, docBound) + "16MiB"
	base := srvBase()
	var o string
	switch via {
	case "cut", "eof":
		body, err := dosnode.VerifDataFetch(base + map[string]string{"cut": pathCut, "eof": pathEOF}[via])
		if err == nil {
			res.Impl = fmt.Sprintf("ok %d", len(body))
			o = "fetch-error: a broken transfer was handed on as a document"
		} else {
			res.Impl = "err"
			if body != nil {
				o = "fetch-error: an error and a partial document were returned together"
			}
		}
	case "direct":
		body, err := dosnode.VerifDataFetch(fmt.Sprintf("%s%s%d", base, pathBig, n))
		switch {
		case err != nil:
			res.Impl = "err"
			if n <= docBound {
				o = fmt.Sprintf("fetch-bound: a document of %d bytes (at most 16 MiB) was refused: %v", n, err)
			} else if body != nil {
				o = "fetch-bound: an over-long document was refused but part of it was handed on"
			}
		default:
			res.Impl = fmt.Sprintf("ok %d", len(body))
			if n > docBound {
				o = fmt.Sprintf("fetch-bound: a document of %d bytes (more than 16 MiB) was accepted (%d bytes handed on)", n, len(body))
			} else if len(body) != n || !allX(body) {
				o = fmt.Sprintf("fetch-content: the document handed on (%d bytes) is not the body served (%d bytes)", len(body), n)
			}
		}
	case "empty", "other":
		addr := exact(h.UnHex(w[3]))
		sel := ""
		wantLen := n + len(addr)
		if via == "other" {
			sel = "x" + "y"
			wantLen = len(addr)
		}
		c, tag := stageQuery(fmt.Sprintf("%s%s%d", base, pathBig, n), sel, addr)
		if tag != "" {
			res.Impl = "err"
			if n <= docBound {
				o = fmt.Sprintf("fetch-bound: nothing was signed for a document of %d bytes (at most 16 MiB)", n)
			}
		} else {
			res.Impl = fmt.Sprintf("ok %d", len(c))
			switch {
			case n > docBound:
				o = fmt.Sprintf("fetch-bound: a content of %d bytes was signed for a document of %d bytes (more than 16 MiB)", len(c), n)
			case len(c) != wantLen || !bytes.HasSuffix(c, addr) || !allX(c[:len(c)-len(addr)]):
				o = fmt.Sprintf("fetch-content: the signed content (%d bytes) is not the expected result followed by the address (%d bytes)", len(c), wantLen)
			}
		}
	default:
		panic("bad fetch line")
	}
	res.Oracle = o
	return
}

func genFetch(tier string, rng *h.Rng, emit func(string)) {
	lens := []int{0, 1, 4096, docBound - 1, docBound, docBound + 1, docBound + 2, docBound + 4096}
	if tier == "thorough" {
		lens = append(lens, docBound/2, 2*docBound, 2*docBound+1, 3*docBound+17)
		for i := 0; i < 6; i++ {
			lens = append(lens, docBound-3+rng.Intn(7))
		}
	}
	for _, n := range lens {
		emit(fmt.Sprintf("fetch %d direct", n))
	}
	for _, n := range []int{0, docBound, docBound + 1} {
		emit(fmt.Sprintf("fetch %d other %s", n, h.Hex(randAddr(rng))))
	}
	for _, n := range []int{5, docBound, docBound + 1} {
		emit(fmt.Sprintf("fetch %d empty %s", n, h.Hex(randAddr(rng))))
	}
	emit("fetch 0 cut")
	emit("fetch 0 eof")
}

// Package c05: Byzantine participants can abort key generation but never corrupt it.
//
// The real session layer and pipeline stages of every member (dkgnet.Sim), with the messages of
// one Byzantine member b replaced by / preceded by adversarial ones built with b's keys through
// the sealing hook, by replaying genuine messages of this or of a previous session, or from junk:
//
//	adv <seed> <n> <defs> <events>          (language: dkgnet.RunSimLine)
//
// Output "st=<stage per member> keys=<class per member>"; the oracle judges the JOINT outcome of
// the honest members (all but b).
package c05

import (
	"fmt"
	"os"
	"strings"

	"verifharness/internal/dkgnet"
	"verifharness/internal/h"
)

func init() {
	h.Register(&h.Prop{
		ID:   "C05",
		Rule: "netadv (the REAL pdkg.Loop/Grouping of the honest members over the in-memory network, which sets msg.Sender; Byzantine seats are network nodes driven by the harness with a real generator of their own): n=3 one seat, n=5 two seats (thorough also n=4 and seats 0,2), shuffled start order; the seat's deals (bad share, other polynomial, self-consistent threshold 1, index modulo 2^32, junk, missing share, consistent adversary polynomial), its Responses message (complaint, bad/no signature, raw session id, missing, out-of-range responder), forged PublicKey messages sent before anybody starts (SenderId empty / pre-filled with the claimed member's id, the victim's, garbage; the seat's own key), both seats deviating together; libadv (LIBRARY level: real DistKeyGenerators driven directly by ProcessDeal / ProcessResponse / ProcessJustification, observed at Certified()/QUAL()/DistKeyShare() of every honest member): n in 3..5, Byzantine seat dealing one consistent polynomial to everybody except a victim that gets one of 29 deal deviations, followed by no / a valid / an invalid / a foreign-index / another-polynomial justification; the deviation to everybody; equivocation; forged, unsigned, mis-signed, out-of-range, missing, duplicated responses and complaints about an honest dealer with the dealer's justification delivered to nobody / everybody; pairs; orders canonical, responses before deals, seeded shuffles, everything twice (all in thorough, n = 4, 5 sampled in quick); adv: n in 3..5, one Byzantine member; fault catalogue (bad share, equivocating commitments with and without cross-wired session ids, T in {0,1,n+1,2^32-1} bound/unbound, self-consistent deals of threshold 0,1,2,n+1,2n (exactly T commitments, fitting share and session id), wrong index (small, out of range, equal to the own index modulo 2^32), other-length commitments, missing share/value, raw session id, junk / missing / redirected / previous-session deal, slot pre-emption under an honest or out-of-range index; forged PublicKey messages (another member's / the own / an out-of-range index, outsider as sender, the adversary's own key twice, SenderId field pre-filled with the claimed member's / the victim's / the forger's id or garbage; before the starts, after the starts, immediately before the genuine key), three Byzantine seats sharing one key with re-labelled approvals; response with bad / missing / foreign signature, foreign or previous session id, complaint about an honest dealer or about the recipient's own deal, relabelled or previous-session genuine response, missing response, out-of-range responder) injected at every position of the honest delivery sequence (all in thorough; quick: a sample of 1/4, 1/8, 1/12 of the (fault, position) instances for n = 3, 4, 5), pairs of faults in thorough (n = 3: every pair sampled 1/8 per seed, n = 4, 5: 500 / 300 random pairs); non-trivial = every case (each has at least one adversarial message); distinct = distinct case line",
		Gen:  gen,
		Exec: exec,
	})
}

// byz is the Byzantine member of a case: the sealer named in its defs, else n-1.
func byzOf(w []string) int {
	n := h.Atoi(w[2])
	if len(w) > 5 {
		return h.Atoi(w[5])
	}
	return n - 1
}

func exec(line string) (res h.Result) {
	w := strings.Fields(line)
	if w[0] == "hist" {
		return execHist(w)
	}
	if w[0] == "libadv" {
		return execLib(w)
	}
	if w[0] == "netadv" {
		return execNetAdv(w)
	}
	if w[0] != "adv" {
		panic("bad case line")
	}
	b := byzOf(w)
	impl, s := dkgnet.RunSimLine(w[:5])
	res.Impl = impl
	res.Nontrivial = true
	outs := s.Outcomes()
	var members []int
	var houts []dkgnet.Outcome
	nfin := 0
	for k := 0; k < s.N; k++ {
		if k == b {
			continue
		}
		members = append(members, k)
		houts = append(houts, outs[k])
		if outs[k].Finished {
			nfin++
		}
	}
	res.Class = fmt.Sprintf("adv-n%d-honestfin%d", s.N, nfin)
	// A line with ORACLE answers (O.…) puts the session layer into a world the pipeline never enters: the honest
	// members' keys of this run signed responses in another run, although genPub draws a key per Grouping call
	// (pinned by c05_other_sessions_shape). The session layer is NOT safe there (Props/C05Other.lean
	// session_layer_needs_fresh_keys; corpus/C05/004 replays that run on the real code): such lines are compared
	// with the model only.
	reused := false
	if w[3] != "-" {
		for _, d := range strings.Split(w[3], ";") {
			if kv := strings.SplitN(d, "=", 2); len(kv) == 2 && strings.HasPrefix(kv[1], "O.") {
				reused = true
			}
		}
	}
	if reused {
		res.Class = fmt.Sprintf("adv-reusedkeys-n%d-honestfin%d", s.N, nfin)
	} else {
		res.Oracle = dkgnet.JointOracle(members, houts, s.T, nil, nil, h.NewRng(1))
	}
	if res.Oracle != "" {
		return
	}
	for _, k := range members {
		if res.Oracle = s.KeyOracle(k); res.Oracle != "" {
			return
		}
	}
	for _, k := range members {
		ap := s.ApprovedBy(k)
		for _, j := range ap {
			if cons, known := s.FirstDealConsistent(k, j); known && !cons {
				res.Oracle = fmt.Sprintf("approved-inconsistent: member %d approved the deal it got under index %d although its threshold, index, session id or share do not fit its commitments", k, j)
				return
			}
		}
		if outs[k].Finished && len(ap) != s.N-1 {
			res.Oracle = fmt.Sprintf("finished-without-approval: member %d finished having approved %d of %d deals", k, len(ap), s.N-1)
			return
		}
	}
	return
}

type fault struct {
	name string
	// for a deal position (dealer j, recipient i) / response position (responder k, recipient i):
	// the adversarial specs to deliver to i INSTEAD of (replace=true) or BEFORE the honest message
	deal func(n, b, j, i int) (specs []string, replace bool, ok bool)
	resp func(n, b, k, i, jstar int) (specs []string, replace bool, ok bool)
}

func dealFaults() []fault {
	own := func(variant string) fault { // b's own deal to i is replaced
		return fault{name: "d-" + variant, deal: func(n, b, j, i int) ([]string, bool, bool) {
			if j != b {
				return nil, false, false
			}
			v := strings.ReplaceAll(strings.ReplaceAll(variant, "N1", fmt.Sprint(n+1)), "NN", fmt.Sprint(2*n))
			v = wideIndex(v, i)
			return []string{fmt.Sprintf("D.%d.%d.%d.%s", b, b, i, v)}, true, true
		}}
	}
	pre := func(name string, spec func(n, b, j, i int) string) fault { // slot of an honest dealer is pre-empted
		return fault{name: name, deal: func(n, b, j, i int) ([]string, bool, bool) {
			if j == b {
				return nil, false, false
			}
			return []string{spec(n, b, j, i)}, false, true
		}}
	}
	fs := []fault{
		own("bad1"), own("good2"), own("xw2_3"), own("T0p1"), own("T1p1"), own("TN1p1"), own("T4294967295p1"),
		own("Tx0p1"), own("Tx1p1"), own("TxN1p1"), own("Tc0p6"), own("Tc1p6"), own("Tc2p6"), own("TcN1p6"), own("TcNNp6"), own("idx0p1"), own("idx1p1"), own("idx-1p1"), own("idxP32p1"), own("idxM32p1"), own("idxP33p1"), own("idxP62p1"), own("clen1p1"),
		own("clenN1p1"), own("nilshare"), own("nilv"), own("sidraw"), own("junk"), own("nil"),
		{name: "d-prev", deal: func(n, b, j, i int) ([]string, bool, bool) {
			if j != b {
				return nil, false, false
			}
			return []string{fmt.Sprintf("PD.%d.%d.%d", b, i, b)}, true, true
		}},
		{name: "d-redirect", deal: func(n, b, j, i int) ([]string, bool, bool) { // b's genuine deal for someone else
			if j != b {
				return nil, false, false
			}
			return []string{fmt.Sprintf("GD.%d.%d.%d", b, (i+1)%n, b)}, true, true
		}},
		pre("d-claim-honest-sealed", func(n, b, j, i int) string { return fmt.Sprintf("D.%d.%d.%d.good4", j, b, i) }),
		pre("d-claim-honest-junk", func(n, b, j, i int) string { return fmt.Sprintf("D.%d.%d.%d.junk", j, b, i) }),
		pre("d-claim-honest-prev", func(n, b, j, i int) string { return fmt.Sprintf("PD.%d.%d.%d", j, i, j) }),
		pre("d-claim-honest-redirect", func(n, b, j, i int) string { return fmt.Sprintf("GD.%d.%d.%d", j, b, j) }),
		pre("d-claim-own", func(n, b, j, i int) string { return fmt.Sprintf("D.%d.%d.%d.good5", i, b, i) }),
		pre("d-claim-oob", func(n, b, j, i int) string { return fmt.Sprintf("D.%d.%d.%d.good5", n+3, b, i) }),
	}
	return fs
}

func respFaults() []fault {
	// b's Responses message to i is replaced: genuine responses for every dealer but jstar, a forged one for jstar
	own := func(name string, spec func(n, b, i, js int) string) fault {
		return fault{name: name, resp: func(n, b, k, i, js int) ([]string, bool, bool) {
			if k != b || js == b {
				return nil, false, false
			}
			var out []string
			for j := 0; j < n; j++ {
				if j == b {
					continue
				}
				if j == js {
					out = append(out, spec(n, b, i, js))
				} else {
					out = append(out, fmt.Sprintf("GR.%d.%d.%d", b, j, j))
				}
			}
			return out, true, true
		}}
	}
	// the slot (jstar, k) of an honest responder k is taken by a forgery delivered first
	pre := func(name string, spec func(n, b, k, i, js int) string) fault {
		return fault{name: name, resp: func(n, b, k, i, js int) ([]string, bool, bool) {
			if k == b || js == k {
				return nil, false, false
			}
			return []string{spec(n, b, k, i, js)}, false, true
		}}
	}
	return []fault{
		own("r-badsig", func(n, b, i, js int) string { return fmt.Sprintf("R.%d.%d.cur%d.a.junk", js, b, js) }),
		own("r-nosig", func(n, b, i, js int) string { return fmt.Sprintf("R.%d.%d.cur%d.a.none", js, b, js) }),
		own("r-rawsid", func(n, b, i, js int) string { return fmt.Sprintf("R.%d.%d.raw.a.%d", js, b, b) }),
		own("r-prevsid", func(n, b, i, js int) string { return fmt.Sprintf("R.%d.%d.prev%d.a.%d", js, b, js, b) }),
		own("r-othersid", func(n, b, i, js int) string { return fmt.Sprintf("R.%d.%d.cur%d.a.%d", js, b, (js+1)%n, b) }),
		own("r-complaint", func(n, b, i, js int) string { return fmt.Sprintf("R.%d.%d.cur%d.c.%d", js, b, js, b) }),
		own("r-missing", func(n, b, i, js int) string { return fmt.Sprintf("RN.%d", js) }),
		own("r-oob", func(n, b, i, js int) string { return fmt.Sprintf("R.%d.%d.cur%d.a.%d", js, n+2, js, b) }),
		own("r-as-other", func(n, b, i, js int) string { // b answers in the name of another member, signed by b
			return fmt.Sprintf("R.%d.%d.cur%d.a.%d", js, (b+1)%n, js, b)
		}),
		pre("r-forge-unsigned", func(n, b, k, i, js int) string { return fmt.Sprintf("R.%d.%d.cur%d.a.junk", js, k, js) }),
		pre("r-forge-resigned", func(n, b, k, i, js int) string { return fmt.Sprintf("R.%d.%d.cur%d.c.%d", js, k, js, b) }),
		pre("r-relabel", func(n, b, k, i, js int) string {
			o := (js + 1) % n
			if o == k {
				o = (o + 1) % n
			}
			return fmt.Sprintf("GR.%d.%d.%d", k, o, js)
		}),
		pre("r-replay-prev", func(n, b, k, i, js int) string { return fmt.Sprintf("PR.%d.%d.%d", k, js, js) }),
	}
}

// wideIndex replaces the tokens P32 / M32 / P33 / P62 by the recipient's index plus / minus that power of
// two: share indices that agree with the recipient's own index only in their low 32 bits
func wideIndex(v string, i int) string {
	for tok, off := range map[string]int64{"P32": 1 << 32, "M32": -(1 << 32), "P33": 1 << 33, "P62": 1 << 62} {
		v = strings.ReplaceAll(v, "idx"+tok, fmt.Sprintf("idx%d", int64(i)+off))
	}
	return v
}

// canonical honest run: every start, key, deal and Responses delivery, grouped by kind
func canonical(n int) []string {
	var ev []string
	for i := 0; i < n; i++ {
		ev = append(ev, fmt.Sprintf("s%d", i))
	}
	for _, kind := range []string{"p", "d", "r"} {
		for i := 0; i < n; i++ {
			for j := 0; j < n; j++ {
				if j != i {
					ev = append(ev, fmt.Sprintf("%s%d.%d", kind, j, i))
				}
			}
		}
	}
	return ev
}

type injection struct {
	pos     int // index into canonical(n)
	specs   []string
	replace bool
	to      int
}

func build(seed uint64, n, b int, injs []injection) string {
	ev := canonical(n)
	var defs []string
	var out []string
	id := 0
	for q, e := range ev {
		keep := true
		for _, in := range injs {
			if in.pos != q {
				continue
			}
			for _, sp := range in.specs {
				defs = append(defs, fmt.Sprintf("X%d=%s", id, sp))
				out = append(out, fmt.Sprintf("x%d.%d", id, in.to))
				id++
			}
			if in.replace {
				keep = false
			}
		}
		if keep {
			out = append(out, e)
		}
	}
	d := "-"
	if len(defs) > 0 {
		d = strings.Join(defs, ";")
	}
	return fmt.Sprintf("adv %d %d %s %s %d", seed, n, d, strings.Join(out, ","), b)
}

// every (fault, position) instance for a group
func instances(n, b int) []injection {
	ev := canonical(n)
	var all []injection
	for q, e := range ev {
		p := strings.Split(e[1:], ".")
		switch e[0] {
		case 'd':
			j, i := h.Atoi(p[0]), h.Atoi(p[1])
			if i == b {
				continue
			}
			for _, f := range dealFaults() {
				if sp, rep, ok := f.deal(n, b, j, i); ok {
					all = append(all, injection{q, sp, rep, i})
				}
			}
		case 'r':
			k, i := h.Atoi(p[0]), h.Atoi(p[1])
			if i == b {
				continue
			}
			for _, f := range respFaults() {
				for js := 0; js < n; js++ {
					if sp, rep, ok := f.resp(n, b, k, i, js); ok {
						all = append(all, injection{q, sp, rep, i})
					}
				}
			}
		}
	}
	return all
}

// forgedKeys: the Byzantine member b announces, to every honest member i, a key of its own under the index
// of another honest member j, before that member's key arrives (n = 3: the split this allowed on the pinned
// tree is in corpus/C05); variants with the victim's own index, an out-of-range index, an outsider as sender,
// and with the SenderId field of the message – an ordinary protobuf field that Loop must overwrite with the
// transport-authenticated sender – pre-filled with the id of j (what exchangePub wants to see), of the victim,
// of the forger, with garbage. Positions: before anybody has started, after the starts, immediately before
// the genuine key.
func forgedKeys(seed func() uint64, n, b int, emit func(string)) {
	ev := canonical(n)
	var hon []int
	for k := 0; k < n; k++ {
		if k != b {
			hon = append(hon, k)
		}
	}
	variants := []struct {
		name string
		spec func(j, i int) string
	}{
		{"other", func(j, i int) string { return fmt.Sprintf("K.%d.%d.x%d", j, b, i) }},
		{"own", func(j, i int) string { return fmt.Sprintf("K.%d.%d.x%d", i, b, i) }},
		{"oob", func(j, i int) string { return fmt.Sprintf("K.%d.%d.x%d", n+1, b, i) }},
		{"outsider", func(j, i int) string { return fmt.Sprintf("K.%d.%d.x%d", j, n+5, i) }},
		{"bkey", func(j, i int) string { return fmt.Sprintf("K.%d.%d.%d", j, b, b) }},
		{"pre-claimed", func(j, i int) string { return fmt.Sprintf("K.%d.%d.x%d.%d", j, b, i, j) }},
		{"pre-victim", func(j, i int) string { return fmt.Sprintf("K.%d.%d.x%d.%d", j, b, i, i) }},
		{"pre-forger", func(j, i int) string { return fmt.Sprintf("K.%d.%d.x%d.%d", j, b, i, b) }},
		{"pre-garbage", func(j, i int) string { return fmt.Sprintf("K.%d.%d.x%d.g", j, b, i) }},
		{"pre-claimed-outsider", func(j, i int) string { return fmt.Sprintf("K.%d.%d.x%d.%d", j, n+5, i, j) }},
		{"pre-claimed-bkey", func(j, i int) string { return fmt.Sprintf("K.%d.%d.%d.%d", j, b, b, j) }},
	}
	for _, v := range variants {
		for _, pos := range []string{"first", "started", "before"} {
			var defs, early, out []string
			id := 0
			for _, e := range ev {
				if e[0] == 'p' {
					p := strings.Split(e[1:], ".")
					j, i := h.Atoi(p[0]), h.Atoi(p[1])
					if i != b && j != b && j == hon[(indexOf(hon, i)+1)%len(hon)] {
						defs = append(defs, fmt.Sprintf("X%d=%s", id, v.spec(j, i)))
						x := fmt.Sprintf("x%d.%d", id, i)
						if pos == "before" {
							out = append(out, x)
						} else {
							early = append(early, x)
						}
						id++
					}
				}
				out = append(out, e)
			}
			switch pos {
			case "first":
				out = append(early, out...)
			case "started":
				out = append(append(append([]string{}, out[:n]...), early...), out[n:]...)
			}
			emit(fmt.Sprintf("adv %d %d %s %s %d", seed(), n, strings.Join(defs, ";"), strings.Join(out, ","), b))
		}
	}
}

func indexOf(l []int, x int) int {
	for k, y := range l {
		if y == x {
			return k
		}
	}
	return 0
}

// dupKeys: n = 5, the three Byzantine seats 2, 3, 4 announce ONE key. Session ids name a dealer by its key,
// so an approval for one of these seats can be re-labelled for another: member 0 is dealt (P, P, Q) under
// (2, 3, 4), member 1 (P, Q, Q); each gets the other's approvals re-labelled to fit.
func dupKeys(seed func() uint64, emit func(string)) {
	defs := []string{"DUP=2.3.4"}
	var out []string
	id := 0
	x := func(spec string, to int) {
		defs = append(defs, fmt.Sprintf("X%d=%s", id, spec))
		out = append(out, fmt.Sprintf("x%d.%d", id, to))
		id++
	}
	polys := map[int][3]int{0: {40, 40, 41}, 1: {40, 41, 41}} // polynomial dealt under seats 2,3,4
	out = append(out, "s0", "s1", "p1.0", "p0.1")
	for _, i := range []int{0, 1} {
		for _, k := range []int{2, 3, 4} {
			x(fmt.Sprintf("K.%d.%d.%d", k, k, k), i)
		}
	}
	out = append(out, "d1.0", "d0.1")
	for _, i := range []int{0, 1} {
		for q, k := range []int{2, 3, 4} {
			x(fmt.Sprintf("D.%d.2.%d.good%d", k, i, polys[i][q]), i)
		}
	}
	// the other honest member's approvals, re-labelled where the polynomials differ
	x("GR.1.2.3", 0) // member 1 approved P under seat 2: member 0 needs an approval of P under seat 3
	out = append(out, "r1.0")
	x("GR.0.4.3", 1) // member 0 approved Q under seat 4: member 1 needs an approval of Q under seat 3
	out = append(out, "r0.1")
	for _, i := range []int{0, 1} {
		for _, k := range []int{2, 3, 4} {
			for j := 0; j < 5; j++ {
				if j == k {
					continue
				}
				sid := fmt.Sprintf("cur%d", j)
				if j >= 2 {
					sid = fmt.Sprintf("p2_%d", polys[i][j-2])
				}
				x(fmt.Sprintf("R.%d.%d.%s.a.2", j, k, sid), i)
			}
		}
	}
	emit(fmt.Sprintf("adv %d 5 %s %s 2", seed(), strings.Join(defs, ";"), strings.Join(out, ",")))
}

func gen(tier string, rng *h.Rng, emit func(string)) {
	// the history cases come first and draw from their own stream (the stream of the adv cases is what it was)
	fork := *rng
	thorough := tier == "thorough"
	only := os.Getenv("VERIF_C05_ONLY") // development knob: "hist" / "adv" runs one family only
	if only != "adv" && only != "lib" && only != "net" {
		// quick: every other history line (the generator's own sampling was sized before the library- and
		// network-level families existed; the quick run has to stay near three minutes)
		hk := 0
		genHist(tier, h.NewRng(fork.U64()^0xC05D), func(l string) {
			if thorough || hk%2 == 0 {
				emit(l)
			}
			hk++
		})
	}
	if only != "adv" && only != "hist" && only != "net" {
		// library level: its own stream too
		fork2 := *rng
		lk := 0
		genLib(tier, h.NewRng(fork2.U64()^0x11BADF), func(l string) {
			if thorough || lk%3 != 2 {
				emit(l)
			}
			lk++
		})
	}
	if only == "" || only == "net" {
		fork3 := *rng
		genNetAdv(tier, h.NewRng(fork3.U64()^0x4E7AD5), emit)
	}
	if only == "hist" || only == "lib" || only == "net" {
		return
	}
	seed := func() uint64 { return rng.U64() >> 1 }
	for n := 3; n <= 5; n++ {
		bs := []int{n - 1}
		if n == 3 {
			bs = append(bs, 0)
		}
		for _, b := range bs {
			// 0. no fault at all (b behaves)
			emit(build(seed(), n, b, nil))
			forgedKeys(seed, n, b, emit)
			if n == 5 {
				dupKeys(seed, emit)
			}
			// 1. single faults at every position
			inst := instances(n, b)
			for _, in := range inst {
				// quick: a sample of the (fault, position) instances (1/4, 1/8, 1/12); thorough: all of them
				if !thorough && n == 5 && rng.Intn(12) != 0 {
					continue
				}
				if !thorough && n == 4 && rng.Intn(8) != 0 {
					continue
				}
				if !thorough && n == 3 && rng.Intn(4) != 0 {
					continue
				}
				emit(build(seed(), n, b, []injection{in}))
			}
			// 2. attacks that need the same deviation towards several recipients
			ev := canonical(n)
			multi := func(variant func(i int) string) {
				var injs []injection
				for q, e := range ev {
					if e[0] != 'd' {
						continue
					}
					p := strings.Split(e[1:], ".")
					j, i := h.Atoi(p[0]), h.Atoi(p[1])
					if j == b && i != b {
						v := strings.ReplaceAll(strings.ReplaceAll(variant(i), "N1", fmt.Sprint(n+1)), "NN", fmt.Sprint(2*n))
						v = wideIndex(v, i)
						injs = append(injs, injection{q, []string{fmt.Sprintf("D.%d.%d.%d.%s", b, b, i, v)}, true, i})
					}
				}
				emit(build(seed(), n, b, injs))
			}
			multi(func(i int) string { return fmt.Sprintf("good%d", 10+i) })              // a different polynomial for everybody
			multi(func(i int) string { return "good7" })                                  // one consistent foreign polynomial for everybody
			multi(func(i int) string { return fmt.Sprintf("xw%d_%d", 10+i, 10+(i+1)%n) }) // cross-wired ring of session ids
			hon := []int{}
			for k := 0; k < n; k++ {
				if k != b {
					hon = append(hon, k)
				}
			}
			multi(func(i int) string { // F4: two honest members, ids swapped
				if i == hon[0] {
					return "xw21_22"
				}
				if i == hon[1] {
					return "xw22_21"
				}
				return "good21"
			})
			multi(func(i int) string { return "bad7" })
			multi(func(i int) string { // one consistent polynomial for everybody, but one member's share is off it
				if i == hon[0] {
					return "bad7"
				}
				return "good7"
			})
			multi(func(i int) string {
				if i == hon[len(hon)-1] {
					return "T1p7"
				}
				return "good7"
			})
			multi(func(i int) string { return "idxP32p7" }) // everybody's index is right only modulo 2^32
			multi(func(i int) string { return "idxM32p7" })
			multi(func(i int) string { return "Tc1p9" })  // threshold 1, self-consistent, to everybody: the share IS the secret
			multi(func(i int) string { return "TcN1p9" }) // threshold n+1, self-consistent, to everybody
			multi(func(i int) string { return "clenN1p8" })
			// equivocation backed by forged approvals: every honest member gets its own polynomial from b, and
			// the other honest members' approvals for exactly that polynomial, unsigned / signed by b, arrive first
			for _, signer := range []string{"junk", "none", fmt.Sprint(b)} {
				var injs []injection
				for q, e := range ev {
					p := strings.Split(e[1:], ".")
					if e[0] == 'd' && h.Atoi(p[0]) == b && h.Atoi(p[1]) != b {
						i := h.Atoi(p[1])
						injs = append(injs, injection{q, []string{fmt.Sprintf("D.%d.%d.%d.good%d", b, b, i, 30+i)}, true, i})
					}
					if e[0] == 'r' && h.Atoi(p[0]) != b && h.Atoi(p[1]) != b {
						k, i := h.Atoi(p[0]), h.Atoi(p[1])
						injs = append(injs, injection{q, []string{fmt.Sprintf("R.%d.%d.p%d_%d.a.%s", b, k, b, 30+i, signer)}, false, i})
					}
				}
				emit(build(seed(), n, b, injs))
			}
			// previous-session replay of b's whole dealing together with the honest members' old approvals
			{
				var injs []injection
				for q, e := range ev {
					p := strings.Split(e[1:], ".")
					if e[0] == 'd' && h.Atoi(p[0]) == b && h.Atoi(p[1]) != b {
						injs = append(injs, injection{q, []string{fmt.Sprintf("PD.%d.%d.%d", b, h.Atoi(p[1]), b)}, true, h.Atoi(p[1])})
					}
					if e[0] == 'r' && h.Atoi(p[0]) != b && h.Atoi(p[1]) != b {
						k, i := h.Atoi(p[0]), h.Atoi(p[1])
						injs = append(injs, injection{q, []string{fmt.Sprintf("PR.%d.%d.%d", k, b, b)}, false, i})
					}
				}
				emit(build(seed(), n, b, injs))
			}
			// replay of a whole EARLIER Grouping call the way the pipeline runs it (every member under a key of that
			// call only: genPub): b's old dealing and the honest members' old approvals; and equivocation backed by
			// those approvals. Nothing of it verifies under this call's keys.
			for _, equivocate := range []bool{false, true} {
				var injs []injection
				for q, e := range ev {
					p := strings.Split(e[1:], ".")
					if e[0] == 'd' && h.Atoi(p[0]) == b && h.Atoi(p[1]) != b {
						i := h.Atoi(p[1])
						if equivocate {
							injs = append(injs, injection{q, []string{fmt.Sprintf("D.%d.%d.%d.good%d", b, b, i, 30+i)}, true, i})
						} else {
							injs = append(injs, injection{q, []string{fmt.Sprintf("FD.%d.%d.%d", b, i, b)}, true, i})
						}
					}
					if e[0] == 'r' && h.Atoi(p[0]) != b && h.Atoi(p[1]) != b {
						k, i := h.Atoi(p[0]), h.Atoi(p[1])
						injs = append(injs, injection{q, []string{fmt.Sprintf("FR.%d.%d.%d", k, b, b)}, false, i})
					}
				}
				emit(build(seed(), n, b, injs))
			}
			// 3. pairs of faults
			np := 0
			if thorough {
				np = 500
				if n == 5 {
					np = 300
				}
			} else if n == 3 {
				np = 20
			} else {
				np = 8
			}
			if n == 3 && thorough && len(inst)*len(inst) <= 40000 {
				for a := 0; a < len(inst); a++ {
					for c := a + 1; c < len(inst); c++ {
						if inst[a].pos == inst[c].pos && inst[a].replace && inst[c].replace {
							continue
						}
						if rng.Intn(8) != 0 {
							continue
						}
						emit(build(seed(), n, b, []injection{inst[a], inst[c]}))
					}
				}
			} else {
				for c := 0; c < np; c++ {
					x, y := inst[rng.Intn(len(inst))], inst[rng.Intn(len(inst))]
					if x.pos == y.pos && x.replace && y.replace {
						continue
					}
					emit(build(seed(), n, b, []injection{x, y}))
				}
			}
		}
	}
}

package c17

import (
	"fmt"
	"net"
	"strconv"
	"syscall"
	"time"
)

// blackhole is an address whose host "does not answer the SYN" (host down, firewall DROP), made
// on loopback: a listening socket with backlog 0 whose accept queue is full — the kernel then
// drops every further SYN, and a dialler sees exactly what it sees from a dead host: nothing,
// until its own timeout or the kernel's SYN retries (tcp_syn_retries, 2 min 14 s on Linux) run out.
// (Technique of the reviewer's witness, review 5-D #2.)
type blackhole struct {
	fd   int
	addr string
	held []net.Conn // the connections that fill the accept queue; never accepted, kept open
}

// newBlackhole returns a black-holed address, verified: a plain dial with a 400 ms timeout to it
// timed out (it neither connected nor was refused).
func newBlackhole() (*blackhole, error) {
	fd, err := syscall.Socket(syscall.AF_INET, syscall.SOCK_STREAM, 0)
	if err != nil {
		return nil, err
	}
	if err = syscall.Bind(fd, &syscall.SockaddrInet4{Port: 0, Addr: [4]byte{127, 0, 0, 1}}); err != nil {
		syscall.Close(fd)
		return nil, err
	}
	if err = syscall.Listen(fd, 0); err != nil {
		syscall.Close(fd)
		return nil, err
	}
	sa, err := syscall.Getsockname(fd)
	if err != nil {
		syscall.Close(fd)
		return nil, err
	}
	b := &blackhole{fd: fd, addr: "127.0.0.1:" + strconv.Itoa(sa.(*syscall.SockaddrInet4).Port)}
	// fill the accept queue: connect until a connect gets no answer
	for i := 0; i < 8; i++ {
		c, err := net.DialTimeout("tcp", b.addr, 400*time.Millisecond)
		if err == nil {
			b.held = append(b.held, c)
			continue
		}
		if ne, ok := err.(net.Error); ok && ne.Timeout() {
			return b, nil
		}
		b.close()
		return nil, fmt.Errorf("blackhole: dial %s: %v", b.addr, err)
	}
	b.close()
	return nil, fmt.Errorf("blackhole: %s still accepts after %d connections", b.addr, len(b.held))
}

func (b *blackhole) close() {
	for _, c := range b.held {
		c.Close()
	}
	syscall.Close(b.fd)
}

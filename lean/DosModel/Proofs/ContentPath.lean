/-
Helper lemma for Props/C07.lean (round 4): what one node reports is the strip of the content it
signed, for every sequence of peer messages – derived from the stage invariants of Proofs/Query.lean.
-/
import DosModel.Proofs.Query
import DosModel.Model.ContentPath

namespace Dos.Query
open Dos Dos.Content

/-- every report of `handleQuery` carries the own content `c0` minus its last `a` bytes, and `c0`
has at least `a` bytes -/
theorem report_is_strip (C : Crypto) (p a : Nat) (mb : Member) (r : Request) (fc : List (Option Msg))
    (c0 : Bytes) (hc0 : contentFor p r mb.me = some c0) :
    ∀ rep ∈ (handleQuery C p a mb r fc).reports, a ≤ c0.length ∧ rep.result = c0.take (c0.length - a) := by
  intro rep hrep
  unfold handleQuery at hrep
  cases hs : submitter mb.ids r.last with
  | none => simp [hs] at hrep
  | some sub =>
    simp only [hs] at hrep
    by_cases hme : mb.me ≠ sub
    · simp [hme] at hrep
    · have hsub : mb.me = sub := by simpa using hme
      subst hsub
      simp only [ne_eq, not_true_eq_false, if_false, hc0, Option.map_some] at hrep
      have hrep' := List.mem_of_mem_take hrep
      unfold recoverStage at hrep'
      rw [List.foldl_cons] at hrep'
      have hown := own_fold C (threshold mb.ids.length) a fc (r.kind.ptype, c0) _
        (first_own C (threshold mb.ids.length) a r.kind.ptype r.ridBytes c0 (mb.signOwn c0))
      have hsafe := safe_fold C (threshold mb.ids.length) a fc _
        (safe_step C (threshold mb.ids.length) a _
          (some ⟨r.kind.ptype, r.ridBytes, some c0, some (mb.signOwn c0)⟩) (safe_init C a))
      obtain ⟨c, hc, _, hal, hres⟩ := hsafe.reports rep hrep'
      rw [hown] at hc
      simp only [Option.some.injEq, Prod.mk.injEq] at hc
      obtain ⟨_, hcc⟩ := hc
      subst hcc
      exact ⟨hal, hres⟩

/-- a member that is not the submitter never reports, registers nothing, and hands exactly one
message to `p.Request`, addressed to the submitter: its own share, or nothing (`none`) when its
content stage failed -/
theorem nonsubmitter_out (C : Crypto) (p a : Nat) (mb : Member) (r : Request) (fc : List (Option Msg))
    (sub : Bytes) (hs : submitter mb.ids r.last = some sub) (hne : mb.me ≠ sub) :
    (handleQuery C p a mb r fc).reports = [] ∧ (handleQuery C p a mb r fc).registered = false ∧
    (handleQuery C p a mb r fc).sent = [(sub, (contentFor p r sub).map (fun c =>
      { index := r.kind.ptype, rid := r.ridBytes, content := some c, sig := some (mb.signOwn c) }))] := by
  unfold handleQuery
  simp [hs, hne]

/-- since /repo 7f58072: a member whose content stage produced nothing reports nothing and does not
register for the peers' shares – whatever it is, whatever the peers send -/
theorem silent_without_content (C : Crypto) (p a : Nat) (mb : Member) (r : Request) (fc : List (Option Msg))
    (h0 : ∀ sub, submitter mb.ids r.last = some sub → contentFor p r sub = none) :
    (handleQuery C p a mb r fc).reports = [] ∧ (handleQuery C p a mb r fc).registered = false := by
  unfold handleQuery
  cases hs : submitter mb.ids r.last with
  | none => simp
  | some sub =>
    simp only [h0 sub hs, Option.map_none]
    by_cases hme : mb.me ≠ sub
    · simp [hme]
    · simp [hme]

/-- a report is made by the submitter only -/
theorem reporter_is_submitter (C : Crypto) (p a : Nat) (mb : Member) (r : Request) (fc : List (Option Msg))
    (rep : Report) (hrep : rep ∈ (handleQuery C p a mb r fc).reports) :
    submitter mb.ids r.last = some mb.me ∧ ∃ c0, contentFor p r mb.me = some c0 := by
  cases hs : submitter mb.ids r.last with
  | none => unfold handleQuery at hrep; simp [hs] at hrep
  | some sub =>
    by_cases hme : mb.me ≠ sub
    · rw [(nonsubmitter_out C p a mb r fc sub hs hme).1] at hrep; simp at hrep
    · have hsub : mb.me = sub := by simpa using hme
      subst hsub
      refine ⟨rfl, ?_⟩
      cases hc : contentFor p r mb.me with
      | some c0 => exact ⟨c0, rfl⟩
      | none =>
        have := (silent_without_content C p a mb r fc (by
          intro s hs'; rw [hs] at hs'; cases hs'; exact hc)).1
        rw [this] at hrep; simp at hrep

end Dos.Query

namespace Dos.ContentPath
open Dos Dos.Content

theorem dataFetch_some {m : Nat} {tr : Option Bytes} {d : Bytes} (h : dataFetch m tr = some d) :
    tr = some d ∧ d.length ≤ m := by
  unfold dataFetch at h
  cases tr with
  | none => simp at h
  | some body =>
    simp only at h
    by_cases hb : m < body.length
    · simp [hb] at h
    · simp only [hb, if_false, Option.some.injEq] at h
      subst h
      exact ⟨rfl, Nat.le_of_not_lt hb⟩

theorem dataFetch_len (m : Nat) (body : Bytes) :
    (dataFetch m (some body)).map List.length = fetchLen m body.length := by
  unfold dataFetch fetchLen
  by_cases hb : m < body.length <;> simp [hb]

/-- every report in a group run is a report of `handleQuery` at the member it is attributed to, with
SOME list of messages from the collector -/
theorem groupRun_reports (C : Query.Crypto) (p a : Nat) (ids : List Bytes) (signOf : Nat → Bytes → Bytes)
    (f : Fields) (parsedAt : Nat → Option Bytes) (order : List Nat) (extra : List (Option Query.Msg))
    (o : GroupOut) (ho : groupRun C p a ids signOf f parsedAt order extra = some o)
    (i : Nat) (rep : Query.Report) (h : (i, rep) ∈ o.reports) :
    ∃ fc, rep ∈ (Query.handleQuery C p a { ids := ids, me := ids.getD i [], signOwn := signOf i }
      (requestAt f parsedAt i) fc).reports := by
  unfold groupRun at ho
  cases hs : submitterIdx f.last ids.length with
  | none => simp [hs] at ho
  | some subI =>
    simp only [hs, Option.some.injEq] at ho
    subst ho
    simp only [List.mem_append, List.mem_flatMap, List.mem_map, Prod.mk.injEq, Prod.exists] at h
    rcases h with ⟨j, out, hmem, r, hr, hj, hrr⟩ | ⟨r, hr, hi, hrr⟩
    · obtain ⟨k, _, hk, hout⟩ := hmem
      subst hout; subst hj; subst hrr; subst hk
      exact ⟨[], hr⟩
    · subst hi; subst hrr
      exact ⟨_, hr⟩

end Dos.ContentPath

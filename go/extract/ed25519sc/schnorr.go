package ed25519sc

// SchnorrFacts: pins the hand model of sign/schnorr/schnorr.go (Model/Schnorr.lean) to
// the statements it was written against. Every top-level statement of Sign, Verify and
// hash is rendered by go/printer (comments dropped, white space collapsed) into a Lean
// `List String`; the order in which `hash` feeds its digest and the operands of the
// response computation are extracted as separate small facts.

import (
	"bytes"
	"fmt"
	"go/ast"
	"go/parser"
	"go/printer"
	"go/token"
	"path/filepath"
	"strings"

	"verifharness/extract/ex"
	"verifharness/extract/pkgvars"
)

func render(fset *token.FileSet, n ast.Node) string {
	var b bytes.Buffer
	printer.Fprint(&b, fset, n)
	return strings.Join(strings.Fields(b.String()), " ")
}

func leanList(xs []string) string {
	var q []string
	for _, x := range xs {
		q = append(q, ex.LeanStr(x))
	}
	return "[" + strings.Join(q, ",\n   ") + "]"
}

// writesOf: the receivers/arguments fed to the digest `h`, in order:
// `x.MarshalTo(h)` → x, `h.Write(y)` → y
func writesOf(fd *ast.FuncDecl) []string {
	var out []string
	ast.Inspect(fd.Body, func(n ast.Node) bool {
		call, ok := n.(*ast.CallExpr)
		if !ok {
			return true
		}
		sel, ok := call.Fun.(*ast.SelectorExpr)
		if !ok || len(call.Args) != 1 {
			return true
		}
		recv, ok1 := sel.X.(*ast.Ident)
		arg, ok2 := call.Args[0].(*ast.Ident)
		if !ok1 || !ok2 {
			return true
		}
		if sel.Sel.Name == "MarshalTo" && arg.Name == "h" {
			out = append(out, recv.Name)
		}
		if sel.Sel.Name == "Write" && recv.Name == "h" {
			out = append(out, arg.Name)
		}
		return true
	})
	return out
}

func hashCalls(fset *token.FileSet, fd *ast.FuncDecl) []string {
	var out []string
	ast.Inspect(fd.Body, func(n ast.Node) bool {
		if call, ok := n.(*ast.CallExpr); ok {
			if id, ok := call.Fun.(*ast.Ident); ok && id.Name == "hash" {
				var a []string
				for _, x := range call.Args {
					a = append(a, render(fset, x))
				}
				out = append(out, strings.Join(a, ","))
			}
		}
		return true
	})
	return out
}

func runSchnorr(repo string) (string, error) {
	fset := token.NewFileSet()
	f, err := parser.ParseFile(fset, filepath.Join(repo, "sign", "schnorr", "schnorr.go"), nil, 0) // comments dropped
	if err != nil {
		return "", err
	}
	s := ex.Header("SchnorrFacts", "sign/schnorr/schnorr.go")
	s += "namespace Dos.Gen.SchnorrFacts\n\n"
	for _, fn := range []string{"Sign", "Verify", "hash"} {
		fd := ex.FuncDecl(f, "", fn)
		if fd == nil {
			return "", fmt.Errorf("schnorr.go: func %s not found", fn)
		}
		var params []string
		for _, fl := range fd.Type.Params.List {
			for _, n := range fl.Names {
				params = append(params, n.Name)
			}
		}
		var sts []string
		for _, st := range fd.Body.List {
			sts = append(sts, render(fset, st))
		}
		low := strings.ToLower(fn)
		s += fmt.Sprintf("def %sParams : List String := %s\n", low, leanList(params))
		s += fmt.Sprintf("def %sSrc : List String :=\n  %s\n", low, leanList(sts))
		if fn == "hash" {
			s += fmt.Sprintf("/-- what is fed to the digest, in order -/\ndef hashWrites : List String := %s\n", leanList(writesOf(fd)))
		} else {
			s += fmt.Sprintf("/-- argument lists of the calls of `hash` -/\ndef %sHashArgs : List String := %s\n", low, leanList(hashCalls(fset, fd)))
		}
		s += "\n"
	}
	// the COMPLETE lists of package-level variables of sign/schnorr and group/edwards25519 (all non-test files, hook
	// files included): a cache / memo / pool added to either package is process-wide state that outlives a call
	for _, pk := range []struct{ dir, def string }{{"sign/schnorr", "schnorrPkgVars"}, {"group/edwards25519", "edwardsPkgVars"}} {
		vars, err := pkgvars.Collect(repo, pk.dir)
		if err != nil {
			return "", fmt.Errorf("package %s: %v", pk.dir, err)
		}
		var q []string
		for _, v := range vars {
			q = append(q, fmt.Sprintf("(%s, %s, %s, %v)", ex.LeanStr(v.File), ex.LeanStr(v.Name), ex.LeanStr(v.Type), v.Value != ""))
		}
		s += fmt.Sprintf("/-- package-level `var`s of %s: (file, name, type expression or \"\", has an initialiser) -/\n", pk.dir)
		s += fmt.Sprintf("def %s : List (String × String × String × Bool) :=\n  [%s]\n\n", pk.def, strings.Join(q, ",\n   "))
	}
	s += "end Dos.Gen.SchnorrFacts\n"
	return s, nil
}

/-
C20 — Ed25519 scalar arithmetic agrees with integer arithmetic modulo the group order, and the
scalar encodings round-trip.  Theorems about the code GENERATED from group/edwards25519/scalar.go
(`Dos.Gen.Ed25519Sc`, regenerated on every run; helper lemmas in Proofs/Ed25519Sc.lean) and about
the hand model of the scalar byte API (Model/Ed25519Scalar.lean, lemmas in Proofs/Ed25519Enc.lean).

For ALL limb values (any integers, not only 21-bit ones) and for EVERY function `shr` standing for
Go's `>>` — i.e. whatever each of the 69 (scMulAdd) carries is — the integer Σ sᵢ·2^(21 i)
represented by the 24 output limbs is congruent modulo ℓ to the specified function of the inputs.

With the real shift (`shrI`) the load side (`load_value`), the digit range after the last carry pass, the zero
high limbs and the byte packing (`store_value`) are proved and assembled in `scMulAdd_bytes` etc. under the single
hypothesis 0 ≤ s11 < 2^25 on the top result limb.

ROUND 2: that hypothesis, the absence of int64 overflow in every (sub)expression and full reduction below ℓ are
now THEOREMS (Props/C20Ranges.lean, design/C20Ranges.md: verified interval abstract interpreter run by the kernel
on the regenerated program): `C20_scalar_full` below is proved there unconditionally (`C20_scalar_full_holds`),
likewise scMul / scAdd / scSub / scReduce (64-byte load included) and canonical results (`sc_results_canonical`).
Still differential only: the public `kyber.Scalar` wrappers (Add/Sub/Mul/Neg/Inv/…) that call these routines.
-/
import DosModel.Proofs.Ed25519Bytes

set_option exponentiation.threshold 600

namespace Dos.Props.C20Scalar
open Dos Dos.Ed25519 Dos.Gen.Ed25519Sc

/-- regenerated constants of const.go: `primeOrder` is the ℓ of the property, `lMinus2 = ℓ − 2` -/
theorem order_constants : primeOrder = ell ∧ lMinus2 = ell - 2
    ∧ ell = 7237005577332262213973186563042994240857116359379907606001950938285454250989 := by
  decide

/-- why the reduction rounds work: the six ref10 constants are the radix-2^21 digits of 2^252 mod ℓ,
i.e. 666643 + 470296·2^21 + 654183·2^42 − 997805·2^63 + 136657·2^84 − 683901·2^105 = 2^252 − ℓ -/
theorem ref10_constants :
    (666643 + 470296 * 2 ^ 21 + 654183 * 2 ^ 42 - 997805 * 2 ^ 63 + 136657 * 2 ^ 84 - 683901 * 2 ^ 105 : Int)
      = 2 ^ 252 - (ell : Int) := by
  decide

/-- Go's `>>` on int64, the instance the driver executes, is floor division by 2^n -/
theorem shrI_is_floor_div (x : Int) (n : Nat) : shrI x n = x / 2 ^ n :=
  Int.shiftRight_eq_div_pow x n

/-- **4. sc_congruent: scMulAdd computes a·b + c modulo ℓ** on the translated code, every carry arbitrary. -/
theorem sc_congruent (shr : Shr) (a0 a1 a2 a3 a4 a5 a6 a7 a8 a9 a10 a11 b0 b1 b2 b3 b4 b5 b6 b7 b8 b9 b10 b11
    c0 c1 c2 c3 c4 c5 c6 c7 c8 c9 c10 c11 : Int) :
    value (scMulAdd_limbs shr a0 a1 a2 a3 a4 a5 a6 a7 a8 a9 a10 a11 b0 b1 b2 b3 b4 b5 b6 b7 b8 b9 b10 b11
        c0 c1 c2 c3 c4 c5 c6 c7 c8 c9 c10 c11) % (ell : Int)
    = (value12 a0 a1 a2 a3 a4 a5 a6 a7 a8 a9 a10 a11 * value12 b0 b1 b2 b3 b4 b5 b6 b7 b8 b9 b10 b11
        + value12 c0 c1 c2 c3 c4 c5 c6 c7 c8 c9 c10 c11) % (ell : Int) := by
  rw [← scMulAdd_init_value]
  exact emod_eq_of_dvd_sub (runBlocks_preserves shr _ scMulAdd_blocks_preserve _)

/-- scMul computes a·b modulo ℓ -/
theorem scMul_congruent (shr : Shr) (a0 a1 a2 a3 a4 a5 a6 a7 a8 a9 a10 a11 b0 b1 b2 b3 b4 b5 b6 b7 b8 b9 b10 b11 : Int) :
    value (scMul_limbs shr a0 a1 a2 a3 a4 a5 a6 a7 a8 a9 a10 a11 b0 b1 b2 b3 b4 b5 b6 b7 b8 b9 b10 b11) % (ell : Int)
    = (value12 a0 a1 a2 a3 a4 a5 a6 a7 a8 a9 a10 a11 * value12 b0 b1 b2 b3 b4 b5 b6 b7 b8 b9 b10 b11) % (ell : Int) := by
  rw [← scMul_init_value]
  exact emod_eq_of_dvd_sub (runBlocks_preserves shr _ scMul_blocks_preserve _)

/-- scAdd computes a + c modulo ℓ -/
theorem scAdd_congruent (shr : Shr) (a0 a1 a2 a3 a4 a5 a6 a7 a8 a9 a10 a11 c0 c1 c2 c3 c4 c5 c6 c7 c8 c9 c10 c11 : Int) :
    value (scAdd_limbs shr a0 a1 a2 a3 a4 a5 a6 a7 a8 a9 a10 a11 c0 c1 c2 c3 c4 c5 c6 c7 c8 c9 c10 c11) % (ell : Int)
    = (value12 a0 a1 a2 a3 a4 a5 a6 a7 a8 a9 a10 a11 + value12 c0 c1 c2 c3 c4 c5 c6 c7 c8 c9 c10 c11) % (ell : Int) := by
  rw [← scAdd_init_value]
  exact emod_eq_of_dvd_sub (runBlocks_preserves shr _ scAdd_blocks_preserve _)

/-- scSub computes a − c modulo ℓ (it starts from a − c + 16ℓ to stay non-negative) -/
theorem scSub_congruent (shr : Shr) (a0 a1 a2 a3 a4 a5 a6 a7 a8 a9 a10 a11 c0 c1 c2 c3 c4 c5 c6 c7 c8 c9 c10 c11 : Int) :
    value (scSub_limbs shr a0 a1 a2 a3 a4 a5 a6 a7 a8 a9 a10 a11 c0 c1 c2 c3 c4 c5 c6 c7 c8 c9 c10 c11) % (ell : Int)
    = (value12 a0 a1 a2 a3 a4 a5 a6 a7 a8 a9 a10 a11 - value12 c0 c1 c2 c3 c4 c5 c6 c7 c8 c9 c10 c11) % (ell : Int) := by
  have h := emod_eq_of_dvd_sub (runBlocks_preserves shr _ scSub_blocks_preserve
    (scSub_init a0 a1 a2 a3 a4 a5 a6 a7 a8 a9 a10 a11 c0 c1 c2 c3 c4 c5 c6 c7 c8 c9 c10 c11))
  rw [scSub_init_value] at h
  rw [show scSub_limbs shr a0 a1 a2 a3 a4 a5 a6 a7 a8 a9 a10 a11 c0 c1 c2 c3 c4 c5 c6 c7 c8 c9 c10 c11
      = runBlocks shr scSub_blocks (scSub_init a0 a1 a2 a3 a4 a5 a6 a7 a8 a9 a10 a11 c0 c1 c2 c3 c4 c5 c6 c7 c8 c9 c10 c11) from rfl, h]
  exact Int.add_mul_emod_self_right _ _ _

/-- scReduce maps 24 limbs (a 64-byte value) to a value congruent modulo ℓ -/
theorem scReduce_congruent (shr : Shr) (s0 s1 s2 s3 s4 s5 s6 s7 s8 s9 s10 s11 s12 s13 s14 s15 s16 s17 s18 s19 s20 s21 s22 s23 : Int) :
    value (scReduce_limbs shr s0 s1 s2 s3 s4 s5 s6 s7 s8 s9 s10 s11 s12 s13 s14 s15 s16 s17 s18 s19 s20 s21 s22 s23) % (ell : Int)
    = value ⟨s0, s1, s2, s3, s4, s5, s6, s7, s8, s9, s10, s11, s12, s13, s14, s15, s16, s17, s18, s19, s20, s21, s22, s23⟩ % (ell : Int) := by
  rw [← scReduce_init_value]
  exact emod_eq_of_dvd_sub (runBlocks_preserves shr _ scReduce_blocks_preserve _)


/-- **scMulAdd on bytes.**  For all 32-byte operands the result is the packing of a limb vector `r` whose limbs 0…10 are
21-bit digits, whose limbs 12…23 are zero and whose value is ≡ (leNat a : Int) * leNat b + leNat c (mod ℓ) — all proved.  IF the top limb
is in range (0 ≤ r.s11 < 2^25, the unproved overflow/reduction part) the 32 result bytes spell that value. -/
theorem scMulAdd_bytes (a b c : Bytes) (ha : a.length = 32) (hb : b.length = 32) (hc : c.length = 32) :
    ∃ r : L24,
      scMulAdd shrI a b c = packLo shrI r.s0 r.s1 r.s2 r.s3 r.s4 r.s5 r.s6 r.s7 ++ packHi shrI r.s8 r.s9 r.s10 r.s11
      ∧ Digits11 r ∧ HiZero r
      ∧ value r % (ell : Int) = ((leNat a : Int) * leNat b + leNat c) % (ell : Int)
      ∧ (0 ≤ r.s11 ∧ r.s11 < 33554432 →
          (leNat (scMulAdd shrI a b c) : Int) = value r
          ∧ (leNat (scMulAdd shrI a b c) : Int) % (ell : Int) = ((leNat a : Int) * leNat b + leNat c) % (ell : Int)) := by
  have ea := unpack12_value a ha
  have eb := unpack12_value b hb
  have ec := unpack12_value c hc
  simp only [unpack12, value12L] at ea eb ec
  simp only [scMulAdd]
  refine ⟨_, scMulAdd_store_eq shrI _, scMulAdd_final _ _ _ _ _ _ _ _ _ _ _ _ _ _ _ _ _ _ _ _ _ _ _ _ _ _ _ _ _ _ _ _ _ _ _ _, scMulAdd_hiZero shrI _ _ _ _ _ _ _ _ _ _ _ _ _ _ _ _ _ _ _ _ _ _ _ _ _ _ _ _ _ _ _ _ _ _ _ _, ?_, ?_⟩
  · rw [← ea, ← eb, ← ec]; exact sc_congruent shrI _ _ _ _ _ _ _ _ _ _ _ _ _ _ _ _ _ _ _ _ _ _ _ _ _ _ _ _ _ _ _ _ _ _ _ _
  · intro h11
    rw [scMulAdd_store_eq]
    refine ⟨packed_value _ (scMulAdd_final _ _ _ _ _ _ _ _ _ _ _ _ _ _ _ _ _ _ _ _ _ _ _ _ _ _ _ _ _ _ _ _ _ _ _ _) (scMulAdd_hiZero shrI _ _ _ _ _ _ _ _ _ _ _ _ _ _ _ _ _ _ _ _ _ _ _ _ _ _ _ _ _ _ _ _ _ _ _ _) h11, ?_⟩
    rw [packed_value _ (scMulAdd_final _ _ _ _ _ _ _ _ _ _ _ _ _ _ _ _ _ _ _ _ _ _ _ _ _ _ _ _ _ _ _ _ _ _ _ _) (scMulAdd_hiZero shrI _ _ _ _ _ _ _ _ _ _ _ _ _ _ _ _ _ _ _ _ _ _ _ _ _ _ _ _ _ _ _ _ _ _ _ _) h11, ← ea, ← eb, ← ec]
    exact sc_congruent shrI _ _ _ _ _ _ _ _ _ _ _ _ _ _ _ _ _ _ _ _ _ _ _ _ _ _ _ _ _ _ _ _ _ _ _ _

/-- **scMul on bytes.**  For all 32-byte operands the result is the packing of a limb vector `r` whose limbs 0…10 are
21-bit digits, whose limbs 12…23 are zero and whose value is ≡ (leNat a : Int) * leNat b (mod ℓ) — all proved.  IF the top limb
is in range (0 ≤ r.s11 < 2^25, the unproved overflow/reduction part) the 32 result bytes spell that value. -/
theorem scMul_bytes (a b : Bytes) (ha : a.length = 32) (hb : b.length = 32) :
    ∃ r : L24,
      scMul shrI a b = packLo shrI r.s0 r.s1 r.s2 r.s3 r.s4 r.s5 r.s6 r.s7 ++ packHi shrI r.s8 r.s9 r.s10 r.s11
      ∧ Digits11 r ∧ HiZero r
      ∧ value r % (ell : Int) = ((leNat a : Int) * leNat b) % (ell : Int)
      ∧ (0 ≤ r.s11 ∧ r.s11 < 33554432 →
          (leNat (scMul shrI a b) : Int) = value r
          ∧ (leNat (scMul shrI a b) : Int) % (ell : Int) = ((leNat a : Int) * leNat b) % (ell : Int)) := by
  have ea := unpack12_value a ha
  have eb := unpack12_value b hb
  simp only [unpack12, value12L] at ea eb
  simp only [scMul]
  refine ⟨_, scMul_store_eq shrI _, scMul_final _ _ _ _ _ _ _ _ _ _ _ _ _ _ _ _ _ _ _ _ _ _ _ _, scMul_hiZero shrI _ _ _ _ _ _ _ _ _ _ _ _ _ _ _ _ _ _ _ _ _ _ _ _, ?_, ?_⟩
  · rw [← ea, ← eb]; exact scMul_congruent shrI _ _ _ _ _ _ _ _ _ _ _ _ _ _ _ _ _ _ _ _ _ _ _ _
  · intro h11
    rw [scMul_store_eq]
    refine ⟨packed_value _ (scMul_final _ _ _ _ _ _ _ _ _ _ _ _ _ _ _ _ _ _ _ _ _ _ _ _) (scMul_hiZero shrI _ _ _ _ _ _ _ _ _ _ _ _ _ _ _ _ _ _ _ _ _ _ _ _) h11, ?_⟩
    rw [packed_value _ (scMul_final _ _ _ _ _ _ _ _ _ _ _ _ _ _ _ _ _ _ _ _ _ _ _ _) (scMul_hiZero shrI _ _ _ _ _ _ _ _ _ _ _ _ _ _ _ _ _ _ _ _ _ _ _ _) h11, ← ea, ← eb]
    exact scMul_congruent shrI _ _ _ _ _ _ _ _ _ _ _ _ _ _ _ _ _ _ _ _ _ _ _ _

/-- **scAdd on bytes.**  For all 32-byte operands the result is the packing of a limb vector `r` whose limbs 0…10 are
21-bit digits, whose limbs 12…23 are zero and whose value is ≡ (leNat a : Int) + leNat c (mod ℓ) — all proved.  IF the top limb
is in range (0 ≤ r.s11 < 2^25, the unproved overflow/reduction part) the 32 result bytes spell that value. -/
theorem scAdd_bytes (a c : Bytes) (ha : a.length = 32) (hc : c.length = 32) :
    ∃ r : L24,
      scAdd shrI a c = packLo shrI r.s0 r.s1 r.s2 r.s3 r.s4 r.s5 r.s6 r.s7 ++ packHi shrI r.s8 r.s9 r.s10 r.s11
      ∧ Digits11 r ∧ HiZero r
      ∧ value r % (ell : Int) = ((leNat a : Int) + leNat c) % (ell : Int)
      ∧ (0 ≤ r.s11 ∧ r.s11 < 33554432 →
          (leNat (scAdd shrI a c) : Int) = value r
          ∧ (leNat (scAdd shrI a c) : Int) % (ell : Int) = ((leNat a : Int) + leNat c) % (ell : Int)) := by
  have ea := unpack12_value a ha
  have ec := unpack12_value c hc
  simp only [unpack12, value12L] at ea ec
  simp only [scAdd]
  refine ⟨_, scAdd_store_eq shrI _, scAdd_final _ _ _ _ _ _ _ _ _ _ _ _ _ _ _ _ _ _ _ _ _ _ _ _, scAdd_hiZero shrI _ _ _ _ _ _ _ _ _ _ _ _ _ _ _ _ _ _ _ _ _ _ _ _, ?_, ?_⟩
  · rw [← ea, ← ec]; exact scAdd_congruent shrI _ _ _ _ _ _ _ _ _ _ _ _ _ _ _ _ _ _ _ _ _ _ _ _
  · intro h11
    rw [scAdd_store_eq]
    refine ⟨packed_value _ (scAdd_final _ _ _ _ _ _ _ _ _ _ _ _ _ _ _ _ _ _ _ _ _ _ _ _) (scAdd_hiZero shrI _ _ _ _ _ _ _ _ _ _ _ _ _ _ _ _ _ _ _ _ _ _ _ _) h11, ?_⟩
    rw [packed_value _ (scAdd_final _ _ _ _ _ _ _ _ _ _ _ _ _ _ _ _ _ _ _ _ _ _ _ _) (scAdd_hiZero shrI _ _ _ _ _ _ _ _ _ _ _ _ _ _ _ _ _ _ _ _ _ _ _ _) h11, ← ea, ← ec]
    exact scAdd_congruent shrI _ _ _ _ _ _ _ _ _ _ _ _ _ _ _ _ _ _ _ _ _ _ _ _

/-- **scSub on bytes.**  For all 32-byte operands the result is the packing of a limb vector `r` whose limbs 0…10 are
21-bit digits, whose limbs 12…23 are zero and whose value is ≡ (leNat a : Int) - leNat c (mod ℓ) — all proved.  IF the top limb
is in range (0 ≤ r.s11 < 2^25, the unproved overflow/reduction part) the 32 result bytes spell that value. -/
theorem scSub_bytes (a c : Bytes) (ha : a.length = 32) (hc : c.length = 32) :
    ∃ r : L24,
      scSub shrI a c = packLo shrI r.s0 r.s1 r.s2 r.s3 r.s4 r.s5 r.s6 r.s7 ++ packHi shrI r.s8 r.s9 r.s10 r.s11
      ∧ Digits11 r ∧ HiZero r
      ∧ value r % (ell : Int) = ((leNat a : Int) - leNat c) % (ell : Int)
      ∧ (0 ≤ r.s11 ∧ r.s11 < 33554432 →
          (leNat (scSub shrI a c) : Int) = value r
          ∧ (leNat (scSub shrI a c) : Int) % (ell : Int) = ((leNat a : Int) - leNat c) % (ell : Int)) := by
  have ea := unpack12_value a ha
  have ec := unpack12_value c hc
  simp only [unpack12, value12L] at ea ec
  simp only [scSub]
  refine ⟨_, scSub_store_eq shrI _, scSub_final _ _ _ _ _ _ _ _ _ _ _ _ _ _ _ _ _ _ _ _ _ _ _ _, scSub_hiZero shrI _ _ _ _ _ _ _ _ _ _ _ _ _ _ _ _ _ _ _ _ _ _ _ _, ?_, ?_⟩
  · rw [← ea, ← ec]; exact scSub_congruent shrI _ _ _ _ _ _ _ _ _ _ _ _ _ _ _ _ _ _ _ _ _ _ _ _
  · intro h11
    rw [scSub_store_eq]
    refine ⟨packed_value _ (scSub_final _ _ _ _ _ _ _ _ _ _ _ _ _ _ _ _ _ _ _ _ _ _ _ _) (scSub_hiZero shrI _ _ _ _ _ _ _ _ _ _ _ _ _ _ _ _ _ _ _ _ _ _ _ _) h11, ?_⟩
    rw [packed_value _ (scSub_final _ _ _ _ _ _ _ _ _ _ _ _ _ _ _ _ _ _ _ _ _ _ _ _) (scSub_hiZero shrI _ _ _ _ _ _ _ _ _ _ _ _ _ _ _ _ _ _ _ _ _ _ _ _) h11, ← ea, ← ec]
    exact scSub_congruent shrI _ _ _ _ _ _ _ _ _ _ _ _ _ _ _ _ _ _ _ _ _ _ _ _

/-- scReduce: digits and zero high limbs of the result (its 64-byte load is not covered by `unpack12_value`) -/
theorem scReduce_digits (s0 s1 s2 s3 s4 s5 s6 s7 s8 s9 s10 s11 s12 s13 s14 s15 s16 s17 s18 s19 s20 s21 s22 s23 : Int) :
    Digits11 (scReduce_limbs shrI s0 s1 s2 s3 s4 s5 s6 s7 s8 s9 s10 s11 s12 s13 s14 s15 s16 s17 s18 s19 s20 s21 s22 s23)
    ∧ HiZero (scReduce_limbs shrI s0 s1 s2 s3 s4 s5 s6 s7 s8 s9 s10 s11 s12 s13 s14 s15 s16 s17 s18 s19 s20 s21 s22 s23) :=
  ⟨scReduce_final _ _ _ _ _ _ _ _ _ _ _ _ _ _ _ _ _ _ _ _ _ _ _ _, scReduce_hiZero shrI _ _ _ _ _ _ _ _ _ _ _ _ _ _ _ _ _ _ _ _ _ _ _ _⟩

/-- **load**: the twelve load expressions cut a 32-byte string into limbs with the same little-endian value -/
theorem load_value (a : Bytes) (h : a.length = 32) : value12L (unpack12 shrI a) = (leNat a : Int) :=
  unpack12_value a h

/-- **store**: limbs 0…10 21-bit digits, 0 ≤ s11 < 2^25 ⇒ the packed bytes spell Σ sᵢ·2^(21 i) -/
theorem store_value (s : L24) (hd : Digits11 s) (h11 : 0 ≤ s.s11 ∧ s.s11 < 33554432) :
    (leNat (scMulAdd_store shrI s) : Int) = value12 s.s0 s.s1 s.s2 s.s3 s.s4 s.s5 s.s6 s.s7 s.s8 s.s9 s.s10 s.s11 := by
  rw [scMulAdd_store_eq]; exact pack_value s hd h11

/-- the full scalar clause: byte-level, unconditional. PROVED in Props/C20Ranges.lean (`C20_scalar_full_holds`);
in this file only the conditional form `scMulAdd_bytes` (hypothesis 0 ≤ s11 < 2^25) is available. -/
def C20_scalar_full : Prop :=
  ∀ a b c : Bytes, a.length = 32 → b.length = 32 → c.length = 32 →
    leNat (scMulAdd shrI a b c) = (leNat a * leNat b + leNat c) % ell

/-! ### 5. scalar encodings -/

/-- `UnmarshalBinary` accepts exactly 32 bytes and keeps them as they are -/
theorem scalar_unmarshal (b : Bytes) :
    (b.length = 32 → scUnmarshal b = .ok b) ∧ (b.length ≠ 32 → scUnmarshal b = .error .wrongSize) := by
  constructor <;> intro h <;> simp [scUnmarshal, h]

/-- **marshal ∘ unmarshal is the identity on canonical 32-byte values** (little-endian, < ℓ) … -/
theorem scalar_roundtrip (b : Bytes) (hl : b.length = 32) (hc : leNat b < ell) :
    (scUnmarshal b).map scMarshal = .ok b := by
  rw [(scalar_unmarshal b).1 hl]
  show Except.ok (scMarshal b) = Except.ok b
  rw [(scMarshal_eq_self_iff b).mpr ⟨hl, hc⟩]

/-- … and ONLY on those: an encoding ≥ ℓ is accepted by `UnmarshalBinary` and marshals to a different
string (the reduced value) — the scalar type itself has no canonical-form check. -/
theorem scalar_noncanonical_accepted (b : Bytes) (hl : b.length = 32) (hc : ell ≤ leNat b) :
    scUnmarshal b = .ok b ∧ scMarshal b ≠ b ∧ leNat (scMarshal b) = leNat b % ell := by
  refine ⟨(scalar_unmarshal b).1 hl, ?_, leNat_scMarshal b⟩
  intro h
  have := ((scMarshal_eq_self_iff b).mp h).2
  omega

/-- every value below ℓ has exactly one encoding that round-trips: its 32 little-endian bytes -/
theorem scalar_encoding_unique (n : Nat) (hn : n < ell) :
    scMarshal (natLE 32 n) = natLE 32 n ∧ leNat (natLE 32 n) = n
    ∧ ∀ b : Bytes, b.length = 32 → leNat b = n → b = natLE 32 n := by
  have h1 : leNat (natLE 32 n) = n := leNat_natLE_of_lt 32 n (Nat.lt_trans hn ell_lt)
  refine ⟨(scMarshal_eq_self_iff _).mpr ⟨natLE_length _ _, by rw [h1]; exact hn⟩, h1, ?_⟩
  intro b hl hb
  exact leNat_inj _ _ (by rw [hl, natLE_length]) (by rw [hb, h1])

/-- `SetBytes` (any length, e.g. a 64-byte digest) yields the canonical encoding of the value mod ℓ -/
theorem setBytes_canonical (b : Bytes) :
    (scSetBytes b).length = 32 ∧ leNat (scSetBytes b) = leNat b % ell ∧ scCanonical (scSetBytes b) = true := by
  have hlt : leNat b % ell < ell := Nat.mod_lt _ (by decide)
  refine ⟨natLE_length _ _, leNat_natLE_of_lt 32 _ (Nat.lt_trans hlt ell_lt), scCanonical_natLE _ hlt⟩

/-! non-vacuity -/
example : value (scMulAdd_limbs shrI 2097151 5 0 0 0 0 0 0 0 0 0 7 2097151 2097151 0 0 0 0 0 0 0 0 0 1
      1 2 3 4 5 6 7 8 9 10 11 12) % (ell : Int)
    = (value12 2097151 5 0 0 0 0 0 0 0 0 0 7 * value12 2097151 2097151 0 0 0 0 0 0 0 0 0 1
      + value12 1 2 3 4 5 6 7 8 9 10 11 12) % (ell : Int) :=
  sc_congruent shrI _ _ _ _ _ _ _ _ _ _ _ _ _ _ _ _ _ _ _ _ _ _ _ _ _ _ _ _ _ _ _ _ _ _ _ _
example : (scUnmarshal (natLE 32 (ell - 1))).map scMarshal = .ok (natLE 32 (ell - 1)) :=
  scalar_roundtrip _ (natLE_length _ _) (by rw [leNat_natLE_of_lt 32 _ (by decide)]; decide)
example : scMarshal (natLE 32 (ell + 5)) ≠ natLE 32 (ell + 5) :=
  (scalar_noncanonical_accepted _ (natLE_length _ _) (by rw [leNat_natLE_of_lt 32 _ (by decide)]; decide)).2.1

example : ∃ r : L24, scMulAdd shrI (natLE 32 (ell - 1)) (natLE 32 (ell - 1)) (natLE 32 7)
      = packLo shrI r.s0 r.s1 r.s2 r.s3 r.s4 r.s5 r.s6 r.s7 ++ packHi shrI r.s8 r.s9 r.s10 r.s11 ∧ Digits11 r :=
  let ⟨r, h1, h2, _⟩ := scMulAdd_bytes _ _ _ (natLE_length _ _) (natLE_length _ _) (natLE_length _ _)
  ⟨r, h1, h2⟩
/-- the remaining hypothesis (top limb in range) holds on a concrete carry-heavy input -/
example : 0 ≤ (scMulAdd_limbs shrI 2097151 2097151 2097151 2097151 2097151 2097151 2097151 2097151 2097151 2097151 2097151 33554431
      2097151 2097151 2097151 2097151 2097151 2097151 2097151 2097151 2097151 2097151 2097151 33554431
      2097151 2097151 2097151 2097151 2097151 2097151 2097151 2097151 2097151 2097151 2097151 33554431).s11
    ∧ (scMulAdd_limbs shrI 2097151 2097151 2097151 2097151 2097151 2097151 2097151 2097151 2097151 2097151 2097151 33554431
      2097151 2097151 2097151 2097151 2097151 2097151 2097151 2097151 2097151 2097151 2097151 33554431
      2097151 2097151 2097151 2097151 2097151 2097151 2097151 2097151 2097151 2097151 2097151 33554431).s11 < 33554432 := by
  decide

end Dos.Props.C20Scalar

package c18

import (
	"bytes"
	"errors"
	"fmt"
	"hash/adler32"
	"math/big"
	"os"
	osexec "os/exec"
	"strings"
	"time"

	"github.com/DOSNetwork/core/onchain"
	"github.com/ethereum/go-ethereum/common"
	"github.com/ethereum/go-ethereum/core/types"

	"verifharness/internal/chaindouble"
	"verifharness/internal/h"
)

// al <idx> v <v1;v2;…>        the log the contract emits for these argument values (reference event description,
//                             packed by go-ethereum) through the REAL subscription path: real adaptor (its own Connect),
//                             SubscribeEvent([idx]), one websocket endpoint.  The Lean driver prints the MODEL's encoding
//                             of the same values (topic 0 by its own Keccak-256, data = Abi.encodeRaw) and the model's
//                             decode + table translation: the emitted bytes and the delivered node event are compared
//                             byte for byte / field by field.
// al <idx> r <topics> <data>  an arbitrary raw log (malformed data, wrong / missing / extra topics) pushed past the
//                             subscription filter: delivered event, or `err` (the watcher reports an error), or `panic`
//                             (the process dies; observed from a child process).

func dataText(b []byte) string {
	if len(b) <= 2048 {
		return h.Hex(b)
	}
	return fmt.Sprintf("%d:%d:%s:%s", len(b), adler32.Checksum(b), h.Hex(b[:512]), h.Hex(b[len(b)-64:]))
}

func topicsText(ts []common.Hash) string {
	if len(ts) == 0 {
		return "-"
	}
	var p []string
	for _, t := range ts {
		p = append(p, h.Hex(t[:]))
	}
	return strings.Join(p, ",")
}

func execAL(w []string) (res h.Result) {
	idx := h.Atoi(w[1])
	sp := specOf(idx)
	if sp == nil {
		panic("no such event index " + w[1])
	}
	ev := sp.event()
	var topics []common.Hash
	var data []byte
	var vals []string
	switch w[2] {
	case "v":
		if len(ev.Inputs) > 0 {
			vals = strings.Split(w[3], ";")
		}
		data = pack(sp, vals)
		topics = []common.Hash{ev.ID}
		res.Class = "al-v-" + sp.name
	case "r":
		if w[3] != "-" {
			for _, t := range strings.Split(w[3], ",") {
				topics = append(topics, common.BytesToHash(h.UnHex(t)))
			}
		}
		data = h.UnHex(w[4])
		res.Class = "al-r-" + sp.name
	default:
		panic("bad al mode")
	}
	res.Nontrivial = true
	head := fmt.Sprintf("log=%s/%s", topicsText(topics), dataText(data))

	if len(topics) == 0 && os.Getenv("VERIF_C18_CHILD") == "" {
		// go-ethereum v1.10.9 UnpackLog reads log.Topics[0] without a length check, in the watcher goroutine of the
		// binding: the process dies.  Observe from outside.
		cmd := osexec.Command(os.Args[0], "exec", "C18")
		cmd.Env = append(os.Environ(), "VERIF_C18_CHILD=1")
		cmd.Stdin = strings.NewReader(strings.Join(w, " ") + "\n")
		var out, errb bytes.Buffer
		cmd.Stdout, cmd.Stderr = &out, &errb
		if err := cmd.Run(); err != nil {
			res.Impl = head + " res=panic"
			res.Class += "-died"
			if !strings.Contains(errb.String(), "index out of range [0] with length 0") {
				res.Oracle = "process-died-elsewhere: " + h.OneLine(firstPanicLine(errb.String()))
			}
			return
		}
		f := strings.SplitN(strings.TrimRight(out.String(), "\n"), "\t", 2)
		res.Impl = f[0]
		if len(f) > 1 {
			res.Oracle = f[1]
		}
		return
	}

	st, err := chaindouble.NewStack(1, 1, big.NewInt(1), 5000000, 1000000000, nil)
	if err != nil {
		res.Impl, res.Oracle = "connect-failed", "harness-connect-failed: "+h.OneLine(err.Error())
		return
	}
	defer st.Close()
	events, errc := st.Adaptor.SubscribeEvent([]int{idx})
	if !st.WS[0].WaitSubs(1) {
		res.Impl, res.Oracle = "subscribe-failed", "harness-subscribe-failed"
		return
	}
	addr := st.Proxy
	if sp.cr {
		addr = st.CR
	}
	raw := types.Log{Address: addr, Topics: topics, Data: data, BlockNumber: 5, TxHash: common.BigToHash(big.NewInt(1)), BlockHash: common.BigToHash(big.NewInt(0xb5)), Index: 0}
	if st.WS[0].EmitRaw(raw) != 1 {
		res.Impl, res.Oracle = "emit-failed", "harness-emit-failed"
		return
	}
	// the path of one (endpoint, type) is FIFO: a well-formed marker log after it tells when the log under test has
	// been dealt with (unless the watcher died of it: then the error arrives instead)
	marker := &hlog{spec: sp, blockN: 9000000, tx: 1000000, index: 0}
	canMark := len(ev.Inputs) > 0 && sp.name != "LogGroupingInitiated" // its node event is built empty: no marker value survives
	if canMark {
		marker.data = pack(sp, markerVals(sp, 0))
		st.WS[0].Emit(marker.raw(st, false))
	}
	var delivered []string
	status := ""
	timeout := time.After(60 * time.Second)
	quiet := time.After(400 * time.Millisecond)
	if canMark {
		quiet = nil
	}
	// a watcher that dies of the log reports one error and closes its output: the error and the close race
	// through merge / mergeError, so a closed event channel is not the end — the error channel is still read
	evc := events
L:
	for {
		select {
		case v, ok := <-evc:
			if !ok {
				evc = nil
				if errc == nil {
					status = "closed"
					break L
				}
				continue
			}
			if m, _, _ := isMarker(v); m {
				break L
			}
			_, _, s := render(v)
			delivered = append(delivered, s)
			if !canMark {
				break L
			}
		case err, ok := <-errc:
			if !ok {
				errc = nil
				if evc == nil {
					status = "closed"
					break L
				}
				continue
			}
			var oe *onchain.OnchainError
			if errors.As(err, &oe) && oe.Idx == 0 {
				status = "err"
			} else {
				status = "err-other:" + h.OneLine(fmt.Sprint(err))
			}
			break L
		case <-quiet:
			break L
		case <-timeout:
			status = "timeout"
			break L
		}
	}
	switch {
	case status == "err" && len(delivered) == 0:
		res.Impl = head + " res=err"
	case status == "" && len(delivered) == 1:
		res.Impl = head + " res=ok " + delivered[0]
	case status == "" && len(delivered) == 0:
		res.Impl = head + " res=dropped"
	default:
		res.Impl = fmt.Sprintf("%s res=?%s:%d", head, status, len(delivered))
		res.Oracle = "delivery-stalled: " + status
	}
	// the property, for well-formed logs: the handlers receive the node event whose every field equals the ABI value of
	// the same name (values decoded here, independently, from the very bytes that were put on the wire)
	if w[2] == "v" && res.Oracle == "" {
		want, unm := wantRendering(sp, vals)
		switch {
		case len(unm) > 0 && isSubscribed(sp.idx):
			res.Oracle = "field-without-abi-source:" + unm[0]
		case len(delivered) != 1:
			if isSubscribed(sp.idx) {
				res.Oracle = fmt.Sprintf("not-delivered:%s: a well-formed log produced %s", sp.name, strings.TrimPrefix(res.Impl, head+" "))
			}
		case delivered[0] != want && isSubscribed(sp.idx):
			res.Oracle = "field-differs:" + sp.name + "." + firstDiff(want, delivered[0]) + ": delivered " + clip(delivered[0]) + " want " + clip(want)
		}
	}
	return
}

func firstPanicLine(s string) string {
	for _, l := range strings.Split(s, "\n") {
		if strings.HasPrefix(l, "panic:") || strings.HasPrefix(l, "fatal error:") {
			return l
		}
	}
	return "exit without panic line"
}

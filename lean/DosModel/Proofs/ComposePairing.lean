/-
Composition helpers: a concrete instance of the abstract `Pairing` structure of `Proofs/TblsPairing.lean`
over ANY field (used by the non-vacuity examples of the `*Compose` property files, e.g. at `Zq 11`).
-/
import DosModel.Proofs.TblsPairing
import Mathlib.Algebra.Group.TypeTags.Basic

namespace Dos.Compose
open Dos.Tbls

/-- a concrete pairing for the non-vacuity examples: any field as a module over itself,
`e(a, b) = a·b` written multiplicatively, `g₂ = 1` -/
def mulPairing (K : Type) [Field K] : Pairing K K K (Multiplicative K) where
  e a b := Multiplicative.ofAdd (a * b)
  add_left a b q := by simp [add_mul]
  add_right a p q := by simp [mul_add]
  smul_swap c a q := by simp [mul_comm c a, mul_assoc]
  g2 := 1
  nondeg a h := by simpa using h

end Dos.Compose

package p2pconsts

import (
	"fmt"
	"path/filepath"

	"verifharness/extract/ex"
)

func init() {
	ex.Register(&ex.Extractor{Name: "P2PConsts", Run: run})
}

func run(repo string) (string, error) {
	_, f, err := ex.Parse(filepath.Join(repo, "p2p", "client.go"))
	if err != nil {
		return "", err
	}
	c := ex.Consts(f)
	for _, k := range []string{"msgSizeLimit", "headerSize"} {
		if c[k] == nil {
			return "", fmt.Errorf("constant %s not found in p2p/client.go", k)
		}
	}
	s := ex.Header("P2PConsts", "p2p/client.go")
	s += "namespace Dos.Gen\n"
	s += fmt.Sprintf("def msgSizeLimit : Nat := %s\n", c["msgSizeLimit"])
	s += fmt.Sprintf("def p2pHeaderSize : Nat := %s\n", c["headerSize"])
	s += "end Dos.Gen\n"
	return s, nil
}

package c07

// The nesting bound of dataParse (/repo 14409e8: a document nested deeper than 1000 levels is refused
// before a selector is evaluated on it) at its boundary (round 5).
//
//	depth jarr <d>   [[[…1…]]]            d arrays,  selector $     → the document in one more array
//	depth jobj <d>   {"a":{"a":…1…}}      d objects, selector $.a   → the inner document in an array
//	depth jstr <d>   {"s":"[[[[…"}        d brackets INSIDE A STRING (depth 1), selector $.s
//	depth xml  <d>   <a><a>…</a></a>      d elements, selector /a   → the content of the outermost element and a line feed
//	depth xmlt <d>   <a><a>…x…</a></a>    d elements around a text node (d+1 levels)
//
// Printed: ok <length of the result> | err. Oracle (line only): at most 1000 levels ⇒ exactly the
// expected bytes; more ⇒ an error and no result – the same at every member, being a function of the
// document alone.

import (
	"bytes"
	"fmt"
	"strings"

	"verifharness/internal/h"
)

const depthBound = 1000 // independent of the source; the regenerated constant is pinned by c07_depth_guard_shape

func depthCase(form string, d int) (doc []byte, sel string, want []byte, levels int) {
	rep := strings.Repeat
	switch form {
	case "jarr":
		s := rep("[", d) + "1" + rep("]", d)
		return []byte(s), "$", []byte("[" + s + "]"), d
	case "jobj":
		s := rep(`{"a":`, d) + "1" + rep("}", d)
		in := rep(`{"a":`, d-1) + "1" + rep("}", d-1)
		return []byte(s), "$.a", []byte("[" + in + "]"), d
	case "jstr":
		return []byte(`{"s":"` + rep("[", d) + `"}`), "$.s", []byte(`["` + rep("[", d) + `"]`), 1
	case "xml":
		s := rep("<a>", d) + rep("</a>", d)
		return []byte(s), "/a", []byte(rep("<a>", d-1) + rep("</a>", d-1) + "\n"), d // OutputXML(false): the node's content, not the node
	case "xmlt":
		s := rep("<a>", d) + "x" + rep("</a>", d)
		return []byte(s), "/a", []byte(rep("<a>", d-1) + "x" + rep("</a>", d-1) + "\n"), d + 1
	}
	panic("bad depth line")
}

func execDepth(w []string) (res h.Result) {
	res.Nontrivial = true
	form, d := w[1], h.Atoi(w[2])
	doc, sel, want, levels := depthCase(form, d)
	res.Class = fmt.Sprintf("depth %s levels%s1000", form, cmpClass(levels, depthBound))
	keep := exact(doc)
	e, o := det(func() ([]byte, string) { return parseLive(doc, sel) }, nil)
	if e.tag != "" {
		res.Impl = "err"
		if e.tag == "panic" {
			res.Impl = "panic parse"
		}
		if levels <= depthBound {
			o = first(o, fmt.Sprintf("depth-bound: a document of %d levels (at most 1000) was refused", levels))
		}
	} else {
		res.Impl = fmt.Sprintf("ok %d", len(e.copy))
		if levels > depthBound {
			o = first(o, fmt.Sprintf("depth-bound: a selector was evaluated on a document of %d levels (more than 1000)", levels))
		} else if !bytes.Equal(e.copy, want) {
			o = first(o, fmt.Sprintf("depth-content: the result (%d bytes) is not the expected one (%d bytes)", len(e.copy), len(want)))
		}
	}
	res.Oracle = first(o, unchanged("document", doc, keep))
	return
}

func genDepth(tier string, rng *h.Rng, emit func(string)) {
	ds := []int{1, 2, 999, 1000, 1001, 1002, 5000}
	if tier == "thorough" {
		ds = append(ds, 3, 500, 998, 1003, 2000, 20000)
	}
	for _, f := range []string{"jarr", "jobj", "xml", "xmlt"} {
		for _, d := range ds {
			emit(fmt.Sprintf("depth %s %d", f, d))
		}
	}
	for _, d := range []int{1000, 1001, 100000} {
		emit(fmt.Sprintf("depth jstr %d", d))
	}
}

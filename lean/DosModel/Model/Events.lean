/-
Model of `onchain/eth_subscribe.go` `firstEvent` (first-occurrence filter behind
`SubscribeEvent`) and `onchain/eth_helpers.go` `merge` (fan-in of the per-endpoint
watcher channels).

`firstEvent` is a single goroutine:

    visited := map[string]uint64{}
    for event := range source {
      content := event.(*LogCommon)                      -- anything else is ignored
      if content.Removed { continue }
      identity := sha256(Raw.Data ‖ big(BlockN).Bytes()) ‖ Raw.TxHash ‖ be64(Raw.Index)
      if visited[identity] == 0 {                        -- Go map: absent key reads 0
        visited[identity] = content.BlockN               -- so BlockN == 0 is never remembered
        out <- content.log
        go func() { <-time.After(firstEventWindow); mu.Lock(); delete(visited, identity); mu.Unlock() }()
      } }

(the test-and-set of `visited` holds the same mutex `mu`; `firstEventWindow` = 1500 s, regenerated
fact `Gen.EventTable.dedupWindowSeconds`) so it is a fold over the sequence of values it receives
and of timer firings.  (`‖ TxHash ‖ Index` is the F9 repair; `legacy = true` below is the identity of
the code before it.)  A timer goroutine is modelled by an explicit `expire` item in the sequence:
"within the de-duplication window" = no `expire` of an identity before its last observation.
Since /repo commit "fix: firstEvent …" (round 5, review E #1) every access to the map is a critical
section of one mutex, so the accesses of the loop and of all timer goroutines ARE totally ordered and
the sequence exists; before it the timers deleted without any lock and the Go runtime aborted the
process (`fatal error: concurrent map writes`) when a few timers fired together — outside anything a
fold can say.  The timer goroutines are sources of their own (`timerStreams`), interleaved with the
endpoint streams.

`merge` forwards every value of every input channel, each input in order, in an arbitrary
interleaving, and closes its output when all inputs are closed: `Interleaving`.
-/
import DosModel.Model.Util

namespace Dos.Events
open Dos

/-- what `firstEvent` reads from one `*LogCommon` -/
structure Log (P : Type) where
  data : Bytes        -- Raw.Data
  blockN : Nat        -- BlockN (uint64)
  tx : Bytes          -- Raw.TxHash
  index : Nat         -- Raw.Index
  removed : Bool      -- Removed
  payload : P         -- the translated node event (`content.log`), what is delivered
  deriving Repr

/-- identity under which a log is remembered. `hash` stands for SHA-256. -/
structure Ident (H : Type) where
  h : H
  tx : Bytes
  index : Nat
  deriving DecidableEq, Repr

variable {H P : Type}

/-- `big.Int.SetUint64(blockN).Bytes()` = minimal big-endian bytes -/
def blockBytes (n : Nat) : Bytes := natBytes n

def ident (hash : Bytes → H) (legacy : Bool) (l : Log P) : Ident H :=
  if legacy then { h := hash (l.data ++ blockBytes l.blockN), tx := [], index := 0 }
  else { h := hash (l.data ++ blockBytes l.blockN), tx := l.tx, index := l.index }

/-- one value arriving at `firstEvent` -/
inductive Item (H P : Type) where
  | log (l : Log P)
  | expire (i : Ident H)      -- the 1500 s timer of identity `i` fires: `delete(visited, i)`
  | other                     -- a value that is not a `*LogCommon`

/-- Go map read: absent key reads as 0 -/
def lookup [DecidableEq H] (v : List (Ident H × Nat)) (k : Ident H) : Nat :=
  match v.find? (fun p => p.1 = k) with
  | some p => p.2
  | none => 0

/-- one iteration of the loop: new map, values sent on `out` -/
def step [DecidableEq H] (hash : Bytes → H) (legacy : Bool)
    (v : List (Ident H × Nat)) : Item H P → List (Ident H × Nat) × List P
  | .other => (v, [])
  | .expire i => (v.filter (fun p => p.1 ≠ i), [])
  | .log l =>
    if l.removed then (v, [])
    else if lookup v (ident hash legacy l) = 0 then
      ((ident hash legacy l, l.blockN) :: v.filter (fun p => p.1 ≠ ident hash legacy l), [l.payload])
    else (v, [])

/-- the loop over a whole input sequence -/
def run [DecidableEq H] (hash : Bytes → H) (legacy : Bool) :
    List (Ident H × Nat) → List (Item H P) → List P
  | _, [] => []
  | v, x :: xs =>
    let (v', o) := step hash legacy v x
    o ++ run hash legacy v' xs

/-- `firstEvent` from the empty map (the code as it is in /repo: F9 repaired) -/
def firstEvent [DecidableEq H] (hash : Bytes → H) (xs : List (Item H P)) : List P :=
  run hash false [] xs

/-- `m` is an interleaving of the streams `ss` (what `merge` may output): every stream's
values in their own order, nothing else. -/
inductive Interleaving {α : Type} : List (List α) → List α → Prop where
  | done {ss : List (List α)} : (∀ s ∈ ss, s = []) → Interleaving ss []
  | next {ss : List (List α)} {x : α} {s : List α} {m : List α} (i : Nat) :
      ss[i]? = some (x :: s) → Interleaving (ss.set i s) m → Interleaving ss (x :: m)

/-- the timer goroutines `firstEvent` has started, as concurrent sources of their own: each fires once -/
def timerStreams (ts : List (Ident H)) : List (List (Item H P)) := ts.map (fun i => [Item.expire i])

/-! ### endpoint failure, error report, disconnect

When a websocket endpoint fails, each of its watchers reports an `*OnchainError` whose `Idx`
is computed by the watcher from its context; the consumer (dosnode `onchainLoop`) answers every
report with `DisconnectWs(Idx)`, which cancels the context of endpoint `Idx`: its watchers
stop forwarding.  An endpoint's stream is therefore split at the moment the consumer handles
the reports: `before` has been forwarded, `after` is forwarded only if the endpoint has not been
disconnected. -/

structure Endpoint (H P : Type) where
  before : List (Item H P)
  after : List (Item H P)

/-- the streams `merge` gets to see, endpoint `i` first: the failed endpoint and every endpoint named by a
report contribute what they forwarded before; the others their whole stream -/
def streamsAfterReports (failed : Nat) (reports : List Nat) : Nat → List (Endpoint H P) → List (List (Item H P))
  | _, [] => []
  | i, ep :: eps =>
    (if i = failed ∨ i ∈ reports then ep.before else ep.before ++ ep.after)
      :: streamsAfterReports failed reports (i + 1) eps

/-- the `Idx` a watcher of websocket endpoint `e` reports, as a function of the helper its table entry
uses: `getWsIndex` reads the key the websocket contexts carry (the endpoint's position); `getIndex` reads
the RPC key, which a websocket context does not have: 0. -/
def reportIdx (helper : String) (e : Nat) : Option Nat :=
  if helper == "getWsIndex(ctx)" then some e
  else if helper == "getIndex(ctx)" then some 0
  else none

/-! ### executable helpers for the driver (hash := identity function, injective) -/

abbrev DIdent := Ident Bytes
abbrev DItem := Item Bytes String

def parseLogItem (s : String) : Option DItem :=
  match s.splitOn ":" with
  | ["x"] => some .other
  | ["e", d, bn, tx, ix] => do      -- expire the identity of (data, blockN, tx, index)
    let d ← ofHex d
    let bn ← bn.toNat?
    let tx ← ofHex tx
    let ix ← ix.toNat?
    pure (.expire { h := d ++ blockBytes bn, tx := tx, index := ix })
  | [d, bn, tx, ix, r, p] => do
    let d ← ofHex d
    let bn ← bn.toNat?
    let tx ← ofHex tx
    let ix ← ix.toNat?
    pure (.log { data := d, blockN := bn, tx := tx, index := ix, removed := r == "1", payload := p })
  | _ => none

def parseItems (s : String) : Option (List DItem) :=
  if s == "-" then some [] else (s.splitOn ",").mapM parseLogItem

/-! `tw` lines (go/props/c18/window.go): the window is shortened through a hook and the timers really fire.
`w` = every timer started so far has fired (one `expire` per identity observed so far; the order among them
is immaterial); `B<n>@<k>` = a burst of n distinct logs; `T<n>@<k>` = the wait of `w` with n new distinct
logs arriving meanwhile. -/

def burstItems (n k : Nat) : List DItem :=
  (List.range n).map (fun j => .log { data := [0xb0], blockN := 9, tx := natBE 32 k, index := j, removed := false,
                                      payload := toString k ++ "." ++ toString j })

def identOfItem : DItem → Option DIdent
  | .log l => some (ident (fun b => b) false l)
  | _ => none

def expireAll (seen : List DItem) : List DItem := (seen.filterMap identOfItem).map .expire

def parseBurst (s : String) : Option (Nat × Nat) :=
  match s.splitOn "@" with
  | [n, k] => do pure (← n.toNat?, ← k.toNat?)
  | _ => none

def expandTw : List String → List DItem → Option (List DItem)
  | [], acc => some acc
  | t :: ts, acc =>
    if t == "w" then expandTw ts (acc ++ expireAll acc)
    else if t.startsWith "B" && t.contains '@' then
      match parseBurst ((t.drop 1).toString) with
      | some (n, k) => expandTw ts (acc ++ burstItems n k)
      | none => none
    else if t.startsWith "T" && t.contains '@' then
      match parseBurst ((t.drop 1).toString) with
      | some (n, k) => expandTw ts (acc ++ expireAll acc ++ burstItems n k)
      | none => none
    else match parseLogItem t with
      | some x => expandTw ts (acc ++ [x])
      | none => none

def parseTw (s : String) : Option (List DItem) :=
  if s == "-" then some [] else expandTw (s.splitOn ",") []

def showOut (l : List String) : String :=
  "out " ++ (if l.isEmpty then "-" else String.intercalate "," l)

/-- insertion sort on strings (for order-independent comparison of concurrent runs) -/
def insertSorted (x : String) : List String → List String
  | [] => [x]
  | y :: ys => if x ≤ y then x :: y :: ys else y :: insertSorted x ys

def sortStrings (l : List String) : List String := l.foldr insertSorted []

end Dos.Events

// Package chainhandler regenerates DosModel/Gen/ChainHandlerFacts.lean: the glue between an
// on-chain event and the query pipeline. From dosnode/dos_chain_handler.go: for every event type
// onchainLoop handles, the group id expression, the membership test, the group lookup and the
// handler call with the expression passed for each parameter; the bodies of groupInfo / isMember.
// From dosnode/dos_query_handler.go handleQuery: its parameter names, the deadline, which content
// stage each traffic type selects and the arguments every stage gets. From onchain/eth_proxy.go: the
// numeric traffic types. go/ast + go/printer only; logging is left out.
// Props/C01.lean (c01_event_dispatch) and Props/C07.lean (c07_event_fields) pin these facts to
// Model/Query.lean (requestOf, onEvent, contentFor).
package chainhandler

import (
	"bytes"
	"fmt"
	"go/ast"
	"go/printer"
	"go/token"
	"path/filepath"
	"strings"

	"verifharness/extract/ex"
)

func init() { ex.Register(&ex.Extractor{Name: "ChainHandlerFacts", Run: run}) }

func src(fset *token.FileSet, n ast.Node) string {
	var b bytes.Buffer
	printer.Fprint(&b, fset, n)
	return strings.Join(strings.Fields(b.String()), " ")
}

type walker struct {
	fset  *token.FileSet
	lines []string
	// keepAssign: assignments are kept only when they define one of these names ("" = keep all)
	keep map[string]bool
}

func (w *walker) emit(depth int, s string) { w.lines = append(w.lines, strings.Repeat("  ", depth)+s) }

func isLog(s string) bool {
	return strings.Contains(s, "d.logger.") || strings.HasPrefix(s, "logger.") || strings.HasPrefix(s, "fmt.Print")
}

func (w *walker) stmts(list []ast.Stmt, depth int) {
	for _, s := range list {
		w.stmt(s, depth)
	}
}

func (w *walker) stmt(s ast.Stmt, depth int) {
	switch x := s.(type) {
	case *ast.BlockStmt:
		w.stmts(x.List, depth)
	case *ast.IfStmt:
		h := "if "
		if x.Init != nil {
			h += src(w.fset, x.Init) + "; "
		}
		w.emit(depth, h+src(w.fset, x.Cond))
		w.stmts(x.Body.List, depth+1)
		if x.Else != nil {
			w.emit(depth, "else")
			w.stmt(x.Else, depth+1)
		}
	case *ast.SwitchStmt:
		h := "switch"
		if x.Tag != nil {
			h += " " + src(w.fset, x.Tag)
		}
		w.emit(depth, h)
		for _, c := range x.Body.List {
			cc := c.(*ast.CaseClause)
			if cc.List == nil {
				w.emit(depth+1, "default")
			} else {
				var ts []string
				for _, e := range cc.List {
					ts = append(ts, src(w.fset, e))
				}
				w.emit(depth+1, "case "+strings.Join(ts, ", "))
			}
			w.stmts(cc.Body, depth+2)
		}
	case *ast.AssignStmt:
		if w.keep != nil {
			ok := false
			for _, l := range x.Lhs {
				if id, isID := l.(*ast.Ident); isID && w.keep[id.Name] {
					ok = true
				}
			}
			if !ok {
				return
			}
		}
		w.emit(depth, src(w.fset, x))
	case *ast.ExprStmt:
		if t := src(w.fset, x); !isLog(t) {
			w.emit(depth, t)
		}
	case *ast.DeferStmt:
		if t := src(w.fset, x); !isLog(t) {
			w.emit(depth, t)
		}
	case *ast.DeclStmt:
		// declarations of locals (var nonce []byte, var errcList …): not part of the mapping
	case *ast.ForStmt, *ast.RangeStmt, *ast.SelectStmt:
		w.emit(depth, "LOOP/SELECT (not detailed)")
	default:
		w.emit(depth, src(w.fset, x))
	}
}

func leanList(name string, xs []string) string {
	s := fmt.Sprintf("def %s : List String := [", name)
	for i, x := range xs {
		if i > 0 {
			s += ","
		}
		s += "\n  " + ex.LeanStr(x)
	}
	return s + "\n]\n"
}

func body(fset *token.FileSet, f *ast.File, recv, name string) ([]string, error) {
	fd := ex.FuncDecl(f, recv, name)
	if fd == nil {
		return nil, fmt.Errorf("%s not found", name)
	}
	w := &walker{fset: fset}
	w.stmts(fd.Body.List, 0)
	return w.lines, nil
}

func run(repo string) (string, error) {
	fset, ch, err := ex.Parse(filepath.Join(repo, "dosnode", "dos_chain_handler.go"))
	if err != nil {
		return "", err
	}
	fset2, qh, err := ex.Parse(filepath.Join(repo, "dosnode", "dos_query_handler.go"))
	if err != nil {
		return "", err
	}
	_, px, err := ex.Parse(filepath.Join(repo, "onchain", "eth_proxy.go"))
	if err != nil {
		return "", err
	}
	ol := ex.FuncDecl(ch, "DosNode", "onchainLoop")
	if ol == nil {
		return "", fmt.Errorf("onchainLoop not found")
	}
	// the type switch over the chain event
	var ts *ast.TypeSwitchStmt
	n := 0
	ast.Inspect(ol, func(nd ast.Node) bool {
		if t, ok := nd.(*ast.TypeSwitchStmt); ok && strings.Contains(src(fset, t.Assign), "event.(type)") {
			ts = t
			n++
		}
		return true
	})
	if n != 1 {
		return "", fmt.Errorf("onchainLoop: %d type switches over the event", n)
	}
	w := &walker{fset: fset, keep: map[string]bool{"groupID": true, "ids": true, "pub": true, "sec": true, "randSeed": true}}
	w.emit(0, "switch "+src(fset, ts.Assign))
	var queryCalls []string
	for _, c := range ts.Body.List {
		cc := c.(*ast.CaseClause)
		ast.Inspect(cc, func(nd ast.Node) bool {
			if g, ok := nd.(*ast.GoStmt); ok && strings.HasPrefix(src(fset, g.Call), "d.handleQuery(") && len(cc.List) == 1 {
				queryCalls = append(queryCalls, src(fset, cc.List[0])+" => "+src(fset, g.Call))
			}
			return true
		})
		if cc.List == nil {
			w.emit(1, "default")
		} else {
			var tys []string
			for _, e := range cc.List {
				tys = append(tys, src(fset, e))
			}
			w.emit(1, "case "+strings.Join(tys, ", "))
		}
		w.stmts(cc.Body, 2)
	}
	// where the events come from
	var sub []string
	ast.Inspect(ol, func(nd ast.Node) bool {
		if a, ok := nd.(*ast.AssignStmt); ok && strings.Contains(src(fset, a), "d.chain.SubscribeEvent") {
			sub = append(sub, src(fset, a))
		}
		if cc, ok := nd.(*ast.CommClause); ok && cc.Comm != nil && strings.Contains(src(fset, cc.Comm), "d.onchainEvent") {
			sub = append(sub, "case "+src(fset, cc.Comm))
		}
		return true
	})

	gi, err := body(fset, ch, "DosNode", "groupInfo")
	if err != nil {
		return "", err
	}
	im, err := body(fset, ch, "DosNode", "isMember")
	if err != nil {
		return "", err
	}
	hg := ex.FuncDecl(ch, "DosNode", "handleGrouping")
	if hg == nil {
		return "", fmt.Errorf("handleGrouping not found")
	}

	hq := ex.FuncDecl(qh, "DosNode", "handleQuery")
	if hq == nil {
		return "", fmt.Errorf("handleQuery not found")
	}
	params := func(fd *ast.FuncDecl) []string {
		var ps []string
		for _, p := range fd.Type.Params.List {
			for _, nm := range p.Names {
				ps = append(ps, nm.Name)
			}
		}
		return ps
	}
	// handleQuery: deadline, the content-stage switch, every stage call
	var hql []string
	for _, st := range hq.Body.List {
		switch x := st.(type) {
		case *ast.AssignStmt:
			t := src(fset2, x)
			for _, key := range []string{"context.WithTimeout", "choseSubmitter(", "genSign(", "dispatchSign(", "recoverSign(", "reportQueryResult("} {
				if strings.Contains(t, key) {
					hql = append(hql, t)
					break
				}
			}
		case *ast.SwitchStmt:
			if x.Tag != nil && src(fset2, x.Tag) == "pType" {
				for _, c := range x.Body.List {
					cc := c.(*ast.CaseClause)
					var tys []string
					for _, e := range cc.List {
						tys = append(tys, src(fset2, e))
					}
					for _, b := range cc.Body {
						if t := src(fset2, b); strings.Contains(t, "gen") && strings.Contains(t, "contentc") {
							hql = append(hql, "case "+strings.Join(tys, ", ")+": "+t)
						}
					}
				}
			}
		case *ast.ExprStmt:
			if t := src(fset2, x); strings.Contains(t, "reportQueryResult(") {
				hql = append(hql, t)
			}
		}
	}
	c := ex.Consts(px)
	for _, k := range []string{"TrafficSystemRandom", "TrafficUserRandom", "TrafficUserQuery"} {
		if c[k] == nil {
			return "", fmt.Errorf("constant %s not found in onchain/eth_proxy.go", k)
		}
	}

	s := ex.Header("ChainHandlerFacts", "dosnode/dos_chain_handler.go, dosnode/dos_query_handler.go, onchain/eth_proxy.go")
	s += "namespace Dos.Gen.ChainHandlerFacts\n"
	s += "/-- onchainLoop: where chain events come from -/\n" + leanList("eventSource", sub)
	s += "/-- onchainLoop: per event type – group id, membership test, group lookup, handler call (logging left out) -/\n"
	s += leanList("dispatch", w.lines)
	s += "/-- the handleQuery call of each event type (also part of `dispatch`) -/\n"
	s += leanList("queryCalls", queryCalls)
	s += leanList("groupInfo", gi)
	s += leanList("isMember", im)
	s += leanList("handleGroupingParams", params(hg))
	s += leanList("handleQueryParams", params(hq))
	s += "/-- handleQuery: deadline, content stage per traffic type, the arguments of every stage -/\n"
	s += leanList("handleQueryStages", hql)
	s += fmt.Sprintf("def trafficSystemRandom : Nat := %s\ndef trafficUserRandom : Nat := %s\ndef trafficUserQuery : Nat := %s\n",
		c["TrafficSystemRandom"], c["TrafficUserRandom"], c["TrafficUserQuery"])
	s += "end Dos.Gen.ChainHandlerFacts\n"
	return s, nil
}

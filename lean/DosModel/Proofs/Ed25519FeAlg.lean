/-
C20 (round 4) — value correctness of the TRANSLATED ref10 field code (Gen/Ed25519Fe.lean, regenerated from
group/edwards25519/fe.go on every run) modulo p = 2^255 − 19, for ALL limb values (carries are opaque terms):

  feMul_init    : the schoolbook products with the 19/38 folds have the value  feVal f · feVal g  (mod p)
  feSquare_init : feVal f ^ 2,     feSquare2_init : 2 · feVal f ^ 2 (the doubling `h += h` precedes the first carry)
  every block of every carry phase changes the value by a multiple of p only (exactly 0 except in the
  `carry[9] * 19` step).
No block count, constant or index is written here: an altered constant (19 → 38 in one cross term, a wrong carry
shift, a wrong limb index) makes `ring_nf; omega` fail.
-/
import Mathlib.Tactic.Ring
import Mathlib.Tactic.LinearCombination
import DosModel.Proofs.Ed25519FeTie

set_option exponentiation.threshold 600

namespace Dos.FeProg
open Dos Dos.Ed25519 Dos.IntervalProg Dos.Gen.Ed25519Fe

def pI : Int := 2 ^ 255 - 19

theorem fieldP_cast : (fieldP : Int) = pI := by decide

/-- congruent modulo p -/
def ModP (a b : Int) : Prop := (a - b) % pI = 0

theorem ModP.refl (a : Int) : ModP a a := by unfold ModP; simp
theorem ModP.symm {a b : Int} (h : ModP a b) : ModP b a := by unfold ModP pI at *; omega
theorem ModP.trans {a b c : Int} (h1 : ModP a b) (h2 : ModP b c) : ModP a c := by unfold ModP pI at *; omega
theorem ModP.of_eq {a b : Int} (h : a = b) : ModP a b := by subst h; exact ModP.refl a
theorem ModP.emod {a b : Int} (h : ModP a b) : a % pI = b % pI :=
  Int.emod_eq_emod_iff_emod_sub_eq_zero.mpr h
theorem ModP.add {a b c d : Int} (h1 : ModP a b) (h2 : ModP c d) : ModP (a + c) (b + d) := by
  unfold ModP pI at *; omega
theorem ModP.sub {a b c d : Int} (h1 : ModP a b) (h2 : ModP c d) : ModP (a - c) (b - d) := by
  unfold ModP pI at *; omega
theorem ModP.neg {a b : Int} (h1 : ModP a b) : ModP (-a) (-b) := by
  unfold ModP pI at *; omega
theorem ModP.mul {a b c d : Int} (h1 : ModP a b) (h2 : ModP c d) : ModP (a * c) (b * d) := by
  unfold ModP at *
  have e : a * c - b * d = (a - b) * c + b * (c - d) := by ring
  rw [e]
  exact Int.emod_eq_zero_of_dvd (Int.dvd_add (Dvd.dvd.mul_right (Int.dvd_of_emod_eq_zero h1) _)
    (Dvd.dvd.mul_left (Int.dvd_of_emod_eq_zero h2) _))

/-- a limb transformation that preserves the value modulo p -/
def Preserves (f : L10 → L10) : Prop := ∀ s : L10, ModP (feVal (f s)) (feVal s)

open Lean Elab Tactic Meta in
/-- unfold every generated definition (namespace `Dos.Gen.Ed25519Fe`) occurring in the goal -/
elab "unfold_fe" : tactic => withMainContext do
  let t ← getMainTarget
  let ns := t.getUsedConstants.filter (fun n => (`Dos.Gen.Ed25519Fe).isPrefixOf n)
  for n in ns do
    evalTactic (← `(tactic| unfold $(mkIdent n):ident))

/-- every term of a normalised sum is a multiple of p (used when `omega` gives up on many non-linear atoms) -/
macro "dvd_terms" : tactic => `(tactic| (
  apply Int.emod_eq_zero_of_dvd
  repeat (first | apply Int.dvd_sub | apply Int.dvd_add | apply (Int.dvd_neg).mpr)
  all_goals (first | exact Dvd.dvd.mul_left (by decide) _ | exact dvd_zero _ | decide)))

macro "fe_block" : tactic => `(tactic| (
  intro s
  unfold_fe
  simp only [ModP, pI, feVal, shl, n32v_eq]
  ring_nf
  first | rfl | omega | dvd_terms))

macro "fe_blocks" : tactic => `(tactic| (
  unfold_fe
  simp only [List.mem_cons, List.not_mem_nil, or_false, forall_eq_or_imp, forall_eq]
  repeat' apply And.intro
  all_goals fe_block))

theorem runBlocks_preserves : ∀ (bs : List (L10 → L10)), (∀ f ∈ bs, Preserves f) → ∀ s : L10,
    ModP (feVal (runBlocks bs s)) (feVal s) := by
  intro bs
  induction bs with
  | nil => intro _ s; exact ModP.refl _
  | cons f fs ih =>
    intro h s
    have h1 := h f (by simp) s
    have h2 := ih (fun g hg => h g (by simp [hg])) (f s)
    have : runBlocks (f :: fs) s = runBlocks fs (f s) := by simp [runBlocks]
    rw [this]
    exact h2.trans h1

theorem feMul_blocks_preserve : ∀ f ∈ feMul_blocks, Preserves f := by fe_blocks
theorem feSquare_blocks_preserve : ∀ f ∈ feSquare_blocks, Preserves f := by fe_blocks
theorem feFromBytes_blocks_preserve : ∀ f ∈ feFromBytes_blocks, Preserves f := by fe_blocks

theorem feSquare2_blocks_preserve : ∀ f ∈ feSquare2_blocks, Preserves f := by fe_blocks

set_option maxRecDepth 100000

theorem feMul_init_value (f g : L10) :
    ModP (feVal (feMul_init (f.toList ++ g.toList))) (feVal f * feVal g) := by
  obtain ⟨f0, f1, f2, f3, f4, f5, f6, f7, f8, f9⟩ := f
  obtain ⟨g0, g1, g2, g3, g4, g5, g6, g7, g8, g9⟩ := g
  simp only [feMul_init, ModP, pI, feVal, L10.toList, List.cons_append, List.nil_append, List.getD_cons_zero,
    List.getD_cons_succ, n32v_eq]
  ring_nf
  first | omega | dvd_terms

theorem feSquare_init_value (f : L10) : ModP (feVal (feSquare_init f.toList)) (feVal f * feVal f) := by
  obtain ⟨f0, f1, f2, f3, f4, f5, f6, f7, f8, f9⟩ := f
  simp only [feSquare_init, ModP, pI, feVal, L10.toList, List.getD_cons_zero, List.getD_cons_succ, n32v_eq]
  ring_nf
  first | omega | dvd_terms

theorem feSquare2_init_value (f : L10) : ModP (feVal (feSquare2_init f.toList)) (2 * (feVal f * feVal f)) := by
  obtain ⟨f0, f1, f2, f3, f4, f5, f6, f7, f8, f9⟩ := f
  simp only [feSquare2_init, ModP, pI, feVal, L10.toList, List.getD_cons_zero, List.getD_cons_succ, n32v_eq]
  ring_nf
  first | omega | dvd_terms

/-- limbs (in unbounded arithmetic) of feMul have the value of the product -/
theorem feMul_limbs_value (f g : L10) :
    ModP (feVal (runBlocks feMul_blocks (feMul_init (f.toList ++ g.toList)))) (feVal f * feVal g) :=
  (runBlocks_preserves _ feMul_blocks_preserve _).trans (feMul_init_value f g)

theorem feSquare_limbs_value (f : L10) :
    ModP (feVal (runBlocks feSquare_blocks (feSquare_init f.toList))) (feVal f * feVal f) :=
  (runBlocks_preserves _ feSquare_blocks_preserve _).trans (feSquare_init_value f)

theorem feSquare2_limbs_value (f : L10) :
    ModP (feVal (runBlocks feSquare2_blocks (feSquare2_init f.toList))) (2 * (feVal f * feVal f)) :=
  (runBlocks_preserves _ feSquare2_blocks_preserve _).trans (feSquare2_init_value f)

end Dos.FeProg

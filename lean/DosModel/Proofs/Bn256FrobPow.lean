/-
C10 round 5 — the Frobenius maps of gfp6.go / gfp12.go ARE the q-power maps of the tower over a field K of
characteristic q in which c^q = c (K = F_p, q = p), as soon as the three constants are the stated powers of ξ
(`consts_frobenius` evaluates exactly that on the regenerated literals). This discharges the former assumption
"Frobenius = p-power (differential only)".

Proof: x ↦ x^q is additive in characteristic q (`add_pow_char`), so it is determined by its values on the
coefficients (fixed: c^q = c in K, conj on gfP2 because i^q = −i for q ≡ 3 mod 4) and on the generators
τ (τ³ = ξ ⇒ τ^q = τ·ξ^((q−1)/3), q ≡ 1 mod 3) and ω (ω² = τ ⇒ ω^q = ω·ξ^((q−1)/6), q ≡ 1 mod 6).
-/
import Mathlib.Algebra.CharP.Algebra
import Mathlib.Algebra.CharP.Lemmas
import Mathlib.Algebra.Ring.Parity
import DosModel.Proofs.Bn256FinalExp

namespace Dos.Bn256

section
variable {K : Type} [Field K]

/-! ### the embeddings as ring homomorphisms -/

def Fp2.ofBaseHom : K →+* Fp2 K where
  toFun := Fp2.ofBase
  map_one' := Fp2.ofBase_one
  map_mul' := Fp2.ofBase_mul
  map_zero' := rfl
  map_add' a b := by
    rw [← Fp2.add_eq]; refine Fp2.ext' ?_ ?_ <;> simp [Fp2.ofBase, Fp2.add]

theorem Fp2.ofBaseHom_inj : Function.Injective (Fp2.ofBaseHom : K →+* Fp2 K) := by
  intro a b h
  exact congrArg Fp2.y h

theorem Fp6.ofBase_one : (Fp6.ofBase (1 : Fp2 K) : Fp6 K) = 1 := by rw [← Fp6.one_eq]; rfl

def Fp6.ofBaseHom : Fp2 K →+* Fp6 K where
  toFun := Fp6.ofBase
  map_one' := Fp6.ofBase_one
  map_mul' := Fp6.ofBase_mul
  map_zero' := rfl
  map_add' a b := by
    rw [← Fp6.add_eq]; refine Fp6.ext' ?_ ?_ ?_ <;> simp only [Fp6.ofBase, Fp6.add, Fp2.add_eq] <;> ring

theorem Fp6.ofBaseHom_inj : Function.Injective (Fp6.ofBaseHom : Fp2 K →+* Fp6 K) := by
  intro a b h
  exact congrArg Fp6.z h

theorem Fp12.ofBase_one : (Fp12.ofBase (1 : Fp6 K) : Fp12 K) = 1 := by rw [← Fp12.one_eq]; rfl

def Fp12.ofBaseHom : Fp6 K →+* Fp12 K where
  toFun := Fp12.ofBase
  map_one' := Fp12.ofBase_one
  map_mul' := Fp12.ofBase_mul
  map_zero' := rfl
  map_add' a b := by
    show Fp12.ofBase (a + b) = Fp12.add (Fp12.ofBase a) (Fp12.ofBase b)
    refine Fp12.ext' ?_ ?_ <;> simp only [Fp12.ofBase, Fp12.add, Fp6.add_eq] <;> ring

theorem Fp12.ofBaseHom_inj : Function.Injective (Fp12.ofBaseHom : Fp6 K →+* Fp12 K) := by
  intro a b h
  exact congrArg Fp12.y h

variable (q : Nat) [hq : Fact q.Prime] [CharP K q]

instance Fp2.charP : CharP (Fp2 K) q := charP_of_injective_ringHom Fp2.ofBaseHom_inj q
instance Fp6.charP : CharP (Fp6 K) q := charP_of_injective_ringHom Fp6.ofBaseHom_inj q
instance Fp12.charP : CharP (Fp12 K) q := charP_of_injective_ringHom Fp12.ofBaseHom_inj q

/-! ### gfP2: conjugation is the q-power -/

def Fp2.I : Fp2 K := ⟨1, 0⟩

theorem Fp2.decomp (a : Fp2 K) : a = Fp2.ofBase a.x * Fp2.I + Fp2.ofBase a.y := by
  rw [← Fp2.mul_eq, ← Fp2.add_eq]
  refine Fp2.ext' ?_ ?_ <;> simp [Fp2.ofBase, Fp2.I, Fp2.mul, Fp2.add]

theorem Fp2.I_sq : (Fp2.I : Fp2 K) * Fp2.I = -1 := by
  rw [← Fp2.mul_eq, ← Fp2.one_eq, ← Fp2.neg_eq]
  refine Fp2.ext' ?_ ?_ <;> simp [Fp2.I, Fp2.mul, Fp2.neg, Fp2.one]

theorem Fp2.ofBase_pow (c : K) (n : Nat) : (Fp2.ofBase c : Fp2 K) ^ n = Fp2.ofBase (c ^ n) :=
  (map_pow (Fp2.ofBaseHom : K →+* Fp2 K) c n).symm

/-- **x^q = conj x on gfP2** when c^q = c on K and q ≡ 3 (mod 4) -/
theorem Fp2.pow_char (hK : ∀ c : K, c ^ q = c) (h4 : q % 4 = 3) (a : Fp2 K) : a ^ q = Fp2.conjugate a := by
  have hI : (Fp2.I : Fp2 K) ^ q = -Fp2.I := by
    have e : q = 2 * ((q - 1) / 2) + 1 := by omega
    have hodd : Odd ((q - 1) / 2) := by rw [Nat.odd_iff]; omega
    rw [e, pow_succ, pow_mul, pow_two, Fp2.I_sq, hodd.neg_one_pow, neg_one_mul]
  conv_lhs => rw [Fp2.decomp a]
  rw [add_pow_char, mul_pow, Fp2.ofBase_pow, Fp2.ofBase_pow, hK, hK, hI]
  rw [← Fp2.mul_eq, ← Fp2.add_eq, ← Fp2.neg_eq]
  refine Fp2.ext' ?_ ?_ <;> simp [Fp2.ofBase, Fp2.I, Fp2.mul, Fp2.add, Fp2.neg, Fp2.conjugate]

/-! ### gfP6 -/

theorem Fp6.decomp (a : Fp6 K) :
    a = Fp6.ofBase a.x * (Fp6.tau * Fp6.tau) + Fp6.ofBase a.y * Fp6.tau + Fp6.ofBase a.z := by
  have e : ∀ x y : Fp6 K, x + y = Fp6.add x y := fun _ _ => rfl
  rw [e, e, ← Fp6.mul_eq, ← Fp6.mul_eq, ← Fp6.mul_eq, Fp6.mul_eq_spec, Fp6.mul_eq_spec, Fp6.mul_eq_spec]
  refine Fp6.ext' ?_ ?_ ?_ <;> simp only [Fp6.ofBase, Fp6.tau, Fp6.mulSpec, Fp6.add, Fp2.add_eq] <;> ring

theorem Fp6.tau_cube : (Fp6.tau : Fp6 K) * Fp6.tau * Fp6.tau = Fp6.ofBase Fp2.xi := by
  rw [mul_assoc, mul_comm]
  have := @Fp6.tau_cubed K _
  rw [Fp6.mul_eq, Fp6.mul_eq] at this
  rw [← this]; ring

theorem Fp6.ofBase_pow (c : Fp2 K) (n : Nat) : (Fp6.ofBase c : Fp6 K) ^ n = Fp6.ofBase (c ^ n) :=
  (map_pow (Fp6.ofBaseHom : Fp2 K →+* Fp6 K) c n).symm

/-- τ^(3m+1) = ξ^m · τ -/
theorem Fp6.tau_pow (m : Nat) : (Fp6.tau : Fp6 K) ^ (3 * m + 1) = Fp6.ofBase (Fp2.xi ^ m) * Fp6.tau := by
  rw [pow_succ, pow_mul, ← Fp6.ofBase_pow, ← Fp6.tau_cube]
  congr 2
  ring

/-- **gfP6.Frobenius is the q-power**, given c₁ = ξ^((q−1)/3) and c₂ = ξ^((2q−2)/3) -/
theorem Fp6.frobeniusG_eq_pow (hK : ∀ c : K, c ^ q = c) (h4 : q % 4 = 3) (h3 : q % 3 = 1) (cs : FrobConsts K)
    (hc1 : cs.xiToPMinus1Over3 = Fp2.xi ^ ((q - 1) / 3)) (hc2 : cs.xiTo2PMinus2Over3 = Fp2.xi ^ ((2 * q - 2) / 3))
    (a : Fp6 K) : Fp6.frobeniusG cs a = a ^ q := by
  have hq3 : q = 3 * ((q - 1) / 3) + 1 := by omega
  have h2m : (2 * q - 2) / 3 = (q - 1) / 3 + (q - 1) / 3 := by omega
  have htq : (Fp6.tau : Fp6 K) ^ q = Fp6.ofBase (Fp2.xi ^ ((q - 1) / 3)) * Fp6.tau := by
    conv_lhs => rw [hq3]
    exact Fp6.tau_pow _
  conv_rhs => rw [Fp6.decomp a]
  rw [add_pow_char, add_pow_char, mul_pow, mul_pow, mul_pow, Fp6.ofBase_pow, Fp6.ofBase_pow, Fp6.ofBase_pow,
    Fp2.pow_char q hK h4, Fp2.pow_char q hK h4, Fp2.pow_char q hK h4, htq, Fp6.frobeniusG_coords, hc1, hc2, h2m,
    pow_add]
  have e : ∀ x y : Fp6 K, x + y = Fp6.add x y := fun _ _ => rfl
  generalize (Fp2.xi : Fp2 K) ^ ((q - 1) / 3) = c
  simp only [e, ← Fp6.mul_eq, Fp6.mul_eq_spec]
  refine Fp6.ext' ?_ ?_ ?_ <;> simp only [Fp6.ofBase, Fp6.tau, Fp6.mulSpec, Fp6.add, Fp2.add_eq] <;> ring

/-! ### gfP12 -/

def Fp12.W : Fp12 K := ⟨1, 0⟩

theorem Fp12.decomp (a : Fp12 K) : a = Fp12.ofBase a.x * Fp12.W + Fp12.ofBase a.y := by
  show a = Fp12.add (Fp12.mul (Fp12.ofBase a.x) Fp12.W) (Fp12.ofBase a.y)
  rw [Fp12.mul_eq_spec]
  refine Fp12.ext' ?_ ?_ <;> simp only [Fp12.ofBase, Fp12.W, Fp12.mulSpec, Fp12.add, Fp6.add_eq] <;> ring

theorem Fp12.W_sq : (Fp12.W : Fp12 K) * Fp12.W = Fp12.ofBase Fp6.tau := by
  rw [← Fp12.mul_eq, Fp12.mul_eq_spec]
  refine Fp12.ext' ?_ ?_ <;> simp only [Fp12.ofBase, Fp12.W, Fp12.mulSpec] <;> ring

theorem Fp12.ofBase_pow (c : Fp6 K) (n : Nat) : (Fp12.ofBase c : Fp12 K) ^ n = Fp12.ofBase (c ^ n) :=
  (map_pow (Fp12.ofBaseHom : Fp6 K →+* Fp12 K) c n).symm

/-- ω^(6n+1) = ξ^n · ω -/
theorem Fp12.W_pow (n : Nat) :
    (Fp12.W : Fp12 K) ^ (6 * n + 1) = Fp12.ofBase (Fp6.ofBase (Fp2.xi ^ n)) * Fp12.W := by
  have e : 6 * n + 1 = 2 * (3 * n) + 1 := by ring
  rw [e, pow_succ, pow_mul, pow_two, Fp12.W_sq, Fp12.ofBase_pow, pow_mul, pow_succ, pow_two, Fp6.tau_cube,
    Fp6.ofBase_pow]

/-- **gfP12.Frobenius is the q-power** x ↦ x^q, given the three constants as powers of ξ -/
theorem Fp12.frobeniusG_eq_pow (hK : ∀ c : K, c ^ q = c) (h4 : q % 4 = 3) (h6 : q % 6 = 1) (cs : FrobConsts K)
    (hc1 : cs.xiToPMinus1Over3 = Fp2.xi ^ ((q - 1) / 3)) (hc2 : cs.xiTo2PMinus2Over3 = Fp2.xi ^ ((2 * q - 2) / 3))
    (hc6 : cs.xiToPMinus1Over6 = Fp2.xi ^ ((q - 1) / 6)) (a : Fp12 K) : Fp12.frobeniusG cs a = a ^ q := by
  have h3 : q % 3 = 1 := by omega
  have hq6 : q = 6 * ((q - 1) / 6) + 1 := by omega
  have hwq : (Fp12.W : Fp12 K) ^ q = Fp12.ofBase (Fp6.ofBase (Fp2.xi ^ ((q - 1) / 6))) * Fp12.W := by
    conv_lhs => rw [hq6]
    exact Fp12.W_pow _
  conv_rhs => rw [Fp12.decomp a]
  rw [add_pow_char, mul_pow, Fp12.ofBase_pow, Fp12.ofBase_pow, ← Fp6.frobeniusG_eq_pow q hK h4 h3 cs hc1 hc2,
    ← Fp6.frobeniusG_eq_pow q hK h4 h3 cs hc1 hc2, hwq, Fp12.frobeniusG_coords, hc6]
  show _ = Fp12.add (Fp12.mul _ (Fp12.mul _ _)) _
  rw [Fp12.mul_eq_spec, Fp12.mul_eq_spec]
  refine Fp12.ext' ?_ ?_ <;> simp only [Fp12.ofBase, Fp12.W, Fp12.mulSpec, Fp12.add, Fp6.add_eq] <;> ring

end
end Dos.Bn256

/-
Helper lemmas for C19: big-endian words round-trip (coordinates with leading zeros survive).
-/
import DosModel.Model.ReqLoop
import Mathlib.Tactic.Ring

namespace Dos.ReqLoop
open Dos

theorem foldl_be (bs : Bytes) (acc : Nat) :
    bs.foldl (fun a b => a * 256 + b.toNat) acc = acc * 256 ^ bs.length + beNat bs := by
  induction bs generalizing acc with
  | nil => simp [beNat]
  | cons b bs ih =>
    simp only [List.foldl_cons, List.length_cons, beNat]
    rw [ih, ih (0 * 256 + b.toNat)]
    rw [Nat.pow_succ]
    ring

theorem beNat_cons (b : UInt8) (bs : Bytes) : beNat (b :: bs) = b.toNat * 256 ^ bs.length + beNat bs := by
  simp only [beNat, List.foldl_cons]
  have := foldl_be bs (0 * 256 + b.toNat)
  simp only [beNat] at this
  rw [this]; simp

theorem beNat_append (a b : Bytes) : beNat (a ++ b) = beNat a * 256 ^ b.length + beNat b := by
  simp only [beNat, List.foldl_append]
  exact foldl_be b _

theorem natBE_len (k n : Nat) : (natBE k n).length = k := by
  induction k with
  | zero => simp [natBE]
  | succ k ih => simp [natBE, ih]

theorem beNat_lt (bs : Bytes) : beNat bs < 256 ^ bs.length := by
  induction bs with
  | nil => simp [beNat]
  | cons b bs ih =>
    rw [beNat_cons, List.length_cons, Nat.pow_succ]
    have hb : b.toNat < 256 := b.toNat_lt
    have : b.toNat * 256 ^ bs.length ≤ 255 * 256 ^ bs.length := Nat.mul_le_mul_right _ (by omega)
    omega

/-- the value of `k` big-endian bytes of `n` is `n mod 256^k` -/
theorem beNat_natBE (k n : Nat) : beNat (natBE k n) = n % 256 ^ k := by
  induction k with
  | zero => simp [natBE, beNat, Nat.mod_one]
  | succ k ih =>
    simp only [natBE]
    rw [beNat_cons, natBE_len, ih]
    have h1 : (UInt8.ofNat (n / 256 ^ k % 256)).toNat = n / 256 ^ k % 256 := by
      simp [UInt8.toNat_ofNat']
    rw [h1, Nat.pow_succ]
    have hp : 0 < 256 ^ k := Nat.pow_pos (by omega)
    rw [Nat.mod_mul (x := n) (a := 256 ^ k) (b := 256)]
    ring

theorem beNat_natBE_of_lt (k n : Nat) (h : n < 256 ^ k) : beNat (natBE k n) = n := by
  rw [beNat_natBE, Nat.mod_eq_of_lt h]

/-- bytes → number → `k` bytes is the identity on `k`-byte strings: leading zero bytes survive -/
theorem natBE_beNat (bs : Bytes) : natBE bs.length (beNat bs) = bs := by
  induction bs with
  | nil => simp [natBE]
  | cons b bs ih =>
    simp only [List.length_cons, natBE]
    have hlt := beNat_lt bs
    have hp : 0 < 256 ^ bs.length := Nat.pow_pos (by omega)
    have hdiv : beNat (b :: bs) / 256 ^ bs.length = b.toNat := by
      rw [beNat_cons, Nat.mul_comm, Nat.mul_add_div hp, Nat.div_eq_of_lt hlt]; simp
    have hmod : natBE bs.length (beNat (b :: bs)) = natBE bs.length (beNat bs) := by
      have : ∀ k m n : Nat, m % 256 ^ k = n % 256 ^ k → natBE k m = natBE k n := by
        intro k
        induction k with
        | zero => intros; simp [natBE]
        | succ k ihk =>
          intro m n hmn
          simp only [natBE]
          have h1 : m / 256 ^ k % 256 = n / 256 ^ k % 256 := by
            have hm := Nat.mod_mul_right_div_self m (256 ^ k) 256
            have hn := Nat.mod_mul_right_div_self n (256 ^ k) 256
            rw [Nat.pow_succ] at hmn
            rw [← hm, ← hn, hmn]
          have h2 : m % 256 ^ k = n % 256 ^ k := by
            have hm := Nat.mod_mul_right_mod m (256 ^ k) 256
            have hn := Nat.mod_mul_right_mod n (256 ^ k) 256
            rw [Nat.pow_succ] at hmn
            rw [← hm, ← hn, hmn]
          rw [h1, ihk m n h2]
      apply this
      rw [beNat_cons, Nat.mul_comm, Nat.mul_add_mod]
    rw [hdiv, hmod, ih]
    have hb : b.toNat % 256 = b.toNat := Nat.mod_eq_of_lt b.toNat_lt
    rw [hb]
    simp

/-- `big.Int.Bytes()` of a value below `256^k` has at most `k` bytes (leading zero bytes are dropped) -/
theorem natBytesAux_length : ∀ (fuel n : Nat) (acc : Bytes) (k : Nat), n < 256 ^ k →
    (natBytesAux fuel n acc).length ≤ acc.length + k := by
  intro fuel
  induction fuel with
  | zero => intro n acc k _; simp [natBytesAux]
  | succ fuel ih =>
    intro n acc k hk
    simp only [natBytesAux]
    by_cases h0 : n = 0
    · simp [h0]
    · simp only [h0, if_false]
      cases k with
      | zero => simp at hk; omega
      | succ k =>
        have : n / 256 < 256 ^ k := by
          rw [Nat.pow_succ] at hk
          exact Nat.div_lt_of_lt_mul (by rw [Nat.mul_comm]; exact hk)
        have := ih (n / 256) (UInt8.ofNat (n % 256) :: acc) k this
        simp only [List.length_cons] at this
        omega

theorem natBytes_length_le (n k : Nat) (h : n < 256 ^ k) : (natBytes n).length ≤ k := by
  have := natBytesAux_length (n + 1) n [] k h
  simpa [natBytes] using this

end Dos.ReqLoop

package c10

// API-level cases: a small program over the exported kyber interface of the suite
// (Point().Base/Null/Mul/Add/Sub/Neg/Set/Clone, Pair, PairingCheck, MarshalBinary).
//
//	api <op>;<op>;…        op = <dst>=<name>[:<arg>,…]
//	  registers pN (G1), qN (G2), eN (GT), bN (bool); a destination that already exists is
//	  REUSED as the receiver (so p0=add:p0,p1 is the aliased call p0.Add(p0,p1))
//	  base | null | mul:<k>,<src> | mulg:<k> (= Mul(k, nil)) | add:<a>,<b> | sub:<a>,<b> | neg:<a> | set:<a> | clone:<a>
//	  eN=pair:<p>,<q>     bN=chk:<p>,<q>,<p>,<q>,…
//
// Output: every register in name order, marshalled (hex). Oracle: every point of such a
// program has a known discrete logarithm w.r.t. the generators, so the expected encodings
// come from crypto/bn256/google: k·G1, k·G2, e(G1,G2)^k.

import (
	"bytes"
	"encoding/hex"
	"fmt"
	"math/big"
	"sort"
	"strings"

	"github.com/DOSNetwork/core/group/bn256"
	"github.com/dedis/kyber"
	google "github.com/ethereum/go-ethereum/crypto/bn256/google"

	"verifharness/internal/h"
)

func kyberPoints(s *bn256.Suite, g1s []g1raw, g2s []g2raw) ([]kyber.Point, []kyber.Point) {
	var ka, kb []kyber.Point
	for i := range g1s {
		p := s.G1().Point()
		*bn256.VerifG1Of(p) = *asG1(&g1s[i])
		q := s.G2().Point()
		*bn256.VerifG2Of(q) = *asG2(&g2s[i])
		ka, kb = append(ka, p), append(kb, q)
	}
	return ka, kb
}

type apiReg struct {
	pt   kyber.Point
	b    *bool
	dlog *big.Int // discrete log w.r.t. the generator of the register's group (mod r)
}

func execAPI(w []string) h.Result {
	res := h.Result{Class: "api", Nontrivial: true}
	s := bn256.NewSuite()
	regs := map[string]*apiReg{}
	group := func(name string) kyber.Group {
		switch name[0] {
		case 'p':
			return s.G1()
		case 'q':
			return s.G2()
		case 'e':
			return s.GT()
		}
		panic("bad register " + name)
	}
	get := func(name string) *apiReg {
		r, ok := regs[name]
		if !ok {
			panic("undefined register " + name)
		}
		return r
	}
	var ops []string
	for _, op := range strings.Split(w[1], ";") {
		eq := strings.SplitN(op, "=", 2)
		dst := eq[0]
		nameArgs := strings.SplitN(eq[1], ":", 2)
		name := nameArgs[0]
		var args []string
		if len(nameArgs) == 2 {
			args = strings.Split(nameArgs[1], ",")
		}
		ops = append(ops, name)
		if dst[0] == 'b' {
			var ka, kb []kyber.Point
			prod := new(big.Int)
			for i := 0; i+1 < len(args); i += 2 {
				ka, kb = append(ka, get(args[i]).pt), append(kb, get(args[i+1]).pt)
				prod.Add(prod, new(big.Int).Mul(get(args[i]).dlog, get(args[i+1]).dlog))
			}
			v := s.PairingCheck(ka, kb)
			regs[dst] = &apiReg{b: &v, dlog: prod.Mod(prod, refOrder)}
			continue
		}
		r, ok := regs[dst]
		if !ok {
			r = &apiReg{pt: group(dst).Point(), dlog: new(big.Int)}
			regs[dst] = r
		}
		switch name {
		case "base":
			r.pt.Base()
			r.dlog = big.NewInt(1)
		case "null":
			r.pt.Null()
			r.dlog = new(big.Int)
		case "mul":
			k := h.BigDec(args[0])
			sc := group(dst).Scalar().SetBytes(k.Bytes())
			src := get(args[1])
			d := new(big.Int).Mod(new(big.Int).Mul(k, src.dlog), refOrder)
			r.pt.Mul(sc, src.pt)
			r.dlog = d
		case "mulg": // Mul(s, nil): multiplication of the generator (fixed-base paths, tables, shared state)
			k := h.BigDec(args[0])
			sc := group(dst).Scalar().SetBytes(k.Bytes())
			r.pt.Mul(sc, nil)
			r.dlog = new(big.Int).Mod(k, refOrder)
		case "add":
			a, b := get(args[0]), get(args[1])
			d := new(big.Int).Mod(new(big.Int).Add(a.dlog, b.dlog), refOrder)
			r.pt.Add(a.pt, b.pt)
			r.dlog = d
		case "sub":
			a, b := get(args[0]), get(args[1])
			d := new(big.Int).Mod(new(big.Int).Sub(a.dlog, b.dlog), refOrder)
			r.pt.Sub(a.pt, b.pt)
			r.dlog = d
		case "neg":
			a := get(args[0])
			d := new(big.Int).Mod(new(big.Int).Neg(a.dlog), refOrder)
			r.pt.Neg(a.pt)
			r.dlog = d
		case "set":
			a := get(args[0])
			d := new(big.Int).Set(a.dlog)
			r.pt.Set(a.pt)
			r.dlog = d
		case "clone":
			a := get(args[0])
			r.pt = a.pt.Clone()
			r.dlog = new(big.Int).Set(a.dlog)
		case "pair":
			a, b := get(args[0]), get(args[1])
			r.pt = s.Pair(a.pt, b.pt)
			r.dlog = new(big.Int).Mod(new(big.Int).Mul(a.dlog, b.dlog), refOrder)
		default:
			panic("unknown api op " + name)
		}
	}
	var names []string
	for n := range regs {
		names = append(names, n)
	}
	sort.Strings(names)
	var outs []string
	for _, n := range names {
		r := regs[n]
		if r.b != nil {
			outs = append(outs, fmt.Sprintf("%s=%v", n, *r.b))
			if want := r.dlog.Sign() == 0; want != *r.b && res.Oracle == "" {
				res.Oracle = fmt.Sprintf("c10-api-check: %s = %v but the exponents sum to %s (mod r)", n, *r.b, r.dlog)
			}
			continue
		}
		buf, err := r.pt.MarshalBinary()
		if err != nil {
			panic(err)
		}
		outs = append(outs, n+"="+hex.EncodeToString(buf))
		if res.Oracle != "" {
			continue
		}
		switch n[0] {
		case 'p':
			want := new(google.G1).ScalarBaseMult(r.dlog).Marshal()
			if !bytes.Equal(buf, want) {
				res.Oracle = fmt.Sprintf("c10-api-g1: %s should be %s·G1: got %x want %x", n, r.dlog, buf, want)
			}
		case 'q':
			want := append([]byte{1}, new(google.G2).ScalarBaseMult(r.dlog).Marshal()...)
			if r.dlog.Sign() == 0 {
				want = []byte{0}
			}
			if !bytes.Equal(buf, want) {
				res.Oracle = fmt.Sprintf("c10-api-g2: %s should be %s·G2: got %x… want %x…", n, r.dlog, buf[:min(33, len(buf))], want[:min(33, len(want))])
			}
		case 'e':
			want := new(google.GT).ScalarMult(googleGTGen, r.dlog).Marshal()
			if r.dlog.Sign() == 0 {
				want = bytesGT(r12one())
			}
			if !bytes.Equal(buf, want) {
				res.Oracle = fmt.Sprintf("c10-api-gt: %s should be e(G1,G2)^%s: got %x… want %x…", n, r.dlog, buf[:32], want[:32])
			}
		}
	}
	res.Impl = strings.Join(outs, " ")
	sort.Strings(ops)
	res.Class = "api-" + strings.Join(uniq(ops), "+")
	return res
}

func uniq(s []string) []string {
	var out []string
	for i, x := range s {
		if i == 0 || x != s[i-1] {
			out = append(out, x)
		}
	}
	return out
}

func min(a, b int) int {
	if a < b {
		return a
	}
	return b
}

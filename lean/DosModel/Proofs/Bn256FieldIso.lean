/-
C10 — gfP with the operations the assembly computes IS the prime field: `dec x = x · R⁻¹` maps
reduced limb values to `ZMod p` (a field, `Dos.Prime.P_prime`) bijectively and carries gfpAdd,
gfpSub, gfpNeg, gfpMul, newGFp(1), gfP{0} and gfP.Invert to +, −, unary −, ·, 1, 0 and ⁻¹.
Together with the theorems about the transcribed tower / curve code over ANY field this is the
algebraic content of "the Go code computes in F_p, F_p², …, E(F_p), E'(F_p²)".
-/
import Mathlib.Data.ZMod.Basic
import Mathlib.FieldTheory.Finite.Basic
import DosModel.Proofs.MontInvert
import DosModel.Proofs.Bn256Prime
import DosModel.Proofs.Bn256Tower2
import Mathlib.NumberTheory.LegendreSymbol.Basic

namespace Dos.Bn256
open Dos.Mont

theorem p_eq_P : p = Gen.Bn256.P := by decide
theorem p_prime : Nat.Prime p := p_eq_P ▸ Dos.Prime.P_prime
instance : Fact (Nat.Prime p) := ⟨p_prime⟩

/-- Montgomery decoding into the prime field -/
def dec (x : GFp) : ZMod p := (x.v : ZMod p) * (GFp.rN1.v : ZMod p)

theorem R_rinv : ((R : ℕ) : ZMod p) * (GFp.rN1.v : ZMod p) = 1 := by
  have h : R * GFp.rN1.v ≡ 1 [MOD p] := by decide
  have := (ZMod.natCast_eq_natCast_iff _ _ _).mpr h
  simpa using this

theorem rinv_ne_zero : (GFp.rN1.v : ZMod p) ≠ 0 := by
  intro h; have := R_rinv; rw [h, mul_zero] at this; exact zero_ne_one this

theorem dec_injective (a b : GFp) (ha : a.v < p) (hb : b.v < p) (h : dec a = dec b) : a = b := by
  have h1 : (a.v : ZMod p) = b.v := mul_right_cancel₀ rinv_ne_zero h
  have h2 := (ZMod.natCast_eq_natCast_iff' _ _ _).mp h1
  rw [Nat.mod_eq_of_lt ha, Nat.mod_eq_of_lt hb] at h2
  cases a; cases b; simp_all

theorem dec_add (a b : GFp) (ha : a.v < p) (hb : b.v < p) :
    (a + b).v < p ∧ dec (a + b) = dec a + dec b := by
  have hpR : p < R := by decide
  have e : (a + b).v = (a.v + b.v) % p := addM_correct p a.v b.v hpR ha hb
  refine ⟨by rw [e]; exact Nat.mod_lt _ p_prime.pos, ?_⟩
  simp only [dec, e, ZMod.natCast_mod, Nat.cast_add]; ring

theorem dec_sub (a b : GFp) (ha : a.v < p) (hb : b.v < p) :
    (a - b).v < p ∧ dec (a - b) = dec a - dec b := by
  have hpR : p < R := by decide
  have e : (a - b).v = (a.v + (p - b.v)) % p := subM_correct p a.v b.v hpR ha hb
  refine ⟨by rw [e]; exact Nat.mod_lt _ p_prime.pos, ?_⟩
  simp only [dec, e, ZMod.natCast_mod, Nat.cast_add, Nat.cast_sub (Nat.le_of_lt hb), ZMod.natCast_self]; ring

theorem dec_neg (a : GFp) (ha : a.v < p) : (-a).v < p ∧ dec (-a) = -dec a := by
  have hpR : p < R := by decide
  have e : (-a).v = (p - a.v) % p := negM_correct p a.v hpR ha
  refine ⟨by rw [e]; exact Nat.mod_lt _ p_prime.pos, ?_⟩
  simp only [dec, e, ZMod.natCast_mod, Nat.cast_sub (Nat.le_of_lt ha), ZMod.natCast_self]; ring

theorem dec_mul (a b : GFp) (ha : a.v < p) (hb : b.v < p) :
    (a * b).v < p ∧ dec (a * b) = dec a * dec b := by
  have hnp : (np * p + 1) % R = 0 := by decide
  have hpR : p < R := by decide
  have hr : R * GFp.rN1.v ≡ 1 [MOD p] := by decide
  obtain ⟨h1, h2⟩ := mulM_red p np hnp hpR GFp.rN1.v hr a.v b.v ha hb
  refine ⟨h1, ?_⟩
  have := (ZMod.natCast_eq_natCast_iff _ _ _).mpr h2
  simp only [dec]
  push_cast at this
  exact this

theorem dec_zero : dec 0 = 0 := by simp [dec, show (0 : GFp).v = 0 from rfl]

theorem dec_one : (1 : GFp).v < p ∧ dec 1 = 1 := by
  have h1 : (1 : GFp).v < p := by decide
  have h2 : (1 : GFp).v * GFp.rN1.v ≡ 1 [MOD p] := by decide
  refine ⟨h1, ?_⟩
  have := (ZMod.natCast_eq_natCast_iff _ _ _).mpr h2
  simpa [dec] using this

theorem dec_inv (a : GFp) (ha : a.v < p) : (a⁻¹).v < p ∧ dec a⁻¹ = (dec a)⁻¹ := by
  obtain ⟨h1, _⟩ := invert_pow a ha
  refine ⟨h1, ?_⟩
  by_cases h0 : a.v = 0
  · have : a = 0 := by cases a; simp_all [show (0 : GFp) = ⟨0⟩ from rfl]
    subst this
    have hi : (0 : GFp)⁻¹ = 0 := by decide +kernel
    rw [hi, dec_zero, inv_zero]
  · have h := invert_inverse p_prime a ha h0
    have := (ZMod.natCast_eq_natCast_iff _ _ _).mpr h
    push_cast at this
    exact eq_inv_of_mul_eq_one_left this


/-- p ≡ 3 (mod 4): −1 is not a square in the base field, so gfP2 = F_p[i]/(i²+1) is a field -/
theorem p_mod_four : p % 4 = 3 := by decide

theorem fp2_norm_ne_zero (a : Fp2 (ZMod p)) (ha : a ≠ 0) : a.x * a.x + a.y * a.y ≠ 0 := by
  intro h
  by_cases hy : a.y = 0
  · have hx : a.x = 0 := by
      rw [hy, mul_zero, add_zero] at h
      exact mul_self_eq_zero.mp h
    apply ha
    exact Fp2.ext' hx hy
  · have hxy : a.x ^ 2 = -a.y ^ 2 := by rw [pow_two, pow_two]; exact eq_neg_of_add_eq_zero_left h
    exact ZMod.mod_four_ne_three_of_sq_eq_neg_sq' hy hxy p_mod_four

/-- over the base field of bn256, gfP2.Invert inverts EVERY non-zero element -/
theorem fp2_invert_all (a : Fp2 (ZMod p)) (ha : a ≠ 0) : a * Fp2.invert a = 1 :=
  Fp2.mul_invert a (fp2_norm_ne_zero a ha)

end Dos.Bn256

// Package bn256code (E7): symbolic evaluation of the straight-line, pointer-destination
// field code of group/bn256 (gfp2.go, gfp6.go, gfp12.go, curve.go, twist.go, optate.go)
// into pure Lean functions over an abstract base type α with `+ - * neg 0 1 ⁻¹` and
// decidable equality — the same parameterisation as the hand models
// Model/Bn256Tower.lean, Bn256Curve.lean, Bn256TFrob.lean, Bn256CPairing.lean, whose DATA
// types (Fp2, Fp6, Fp12, Jac, FrobConsts) the generated file reuses.
// Props/C10Code.lean proves generated function = hand model, for every function.
//
// go/parser + go/ast only. The evaluator (eval.go) follows the real evaluation order:
//   - memory = objects (one per alias class of pointer parameters, per `&T{}`, per constant),
//     pointer = (object, field path); the content of an object is a value tree over the inputs;
//   - gfpAdd/gfpSub/gfpMul/gfpNeg(c, a, b) read their operands, emit `let c_k := a ∘ b`, rebind c;
//     gfP.Set copies; gfP.Invert is `⁻¹`; `*newGFp(0|1)` is 0|1; `gfP{0}` is 0;
//   - a call of a method/function of the package is a call of ITS translation, evaluated under the
//     alias pattern of the actual pointers at that call site (`tz.Sub(tz, v1)`: receiver = first
//     argument). The callee is re-evaluated under that pattern; if the result is textually the
//     no-alias translation with the parameters identified, the latter is called, otherwise a
//     separate `_alias_…` definition is emitted and called. Partial overlap is an error;
//   - the receiver's previous value is a parameter of the translation exactly when the code reads
//     it (gfP12.MulScalar, the `t` field left alone by Add/Double);
//   - `if` forks the evaluation (the rest of the function is evaluated in both branches);
//   - loops: `for i := n.BitLen()[-1]; i >= 0; i--` becomes a fold over (List.range …).reverse whose
//     state is the tuple of objects the body writes; a loop with concrete control (miller's loop
//     over sixuPlus2NAF, read from optate.go) is unrolled, `switch`/`continue`/`if` on concrete
//     values are decided by the translator.
//
// Anything outside this grammar is an extraction error: the generated file does not compile
// and every tie theorem is a broken obligation.
package bn256code

import (
	"fmt"
	"go/ast"
	"go/parser"
	"go/token"
	"path/filepath"
	"strconv"
	"strings"
	"unicode"

	"verifharness/extract/ex"
)

func init() {
	ex.Register(&ex.Extractor{Name: "Bn256Code", Run: run})
}

var srcFiles = []string{"gfp2.go", "gfp6.go", "gfp12.go", "curve.go", "twist.go", "optate.go", "constants.go", "point.go", "gfp.go"}

// functions of the package that are NOT translated, with the reason (emitted as the table `skipped`)
var skip = map[string]string{
	"gfP2.String": "formatting", "gfP6.String": "formatting", "gfP12.String": "formatting", "curvePoint.String": "formatting",
	"twistPoint.String": "formatting", "gfP2Decode": "formatting", "bigFromBase10": "constant parsing (E1)",
	// gfp.go: byte-level codec of a field element (property C11, Model/Codec*.lean)
	"gfP.String": "formatting", "gfP.Marshal": "codec (C11)", "gfP.Unmarshal": "codec (C11)", "gfP.isCanonical": "codec (C11)",
	// point.go: marshalling and everything defined through it (property C11), sizes, formatting
	"pointG1.Equal": "through MarshalBinary (C11)", "pointG1.Clone": "through MarshalBinary/UnmarshalBinary (C11)",
	"pointG1.MarshalBinary": "codec (C11)", "pointG1.MarshalTo": "codec (C11)", "pointG1.UnmarshalBinary": "codec (C11)",
	"pointG1.UnmarshalFrom": "codec (C11)", "pointG1.MarshalSize": "size", "pointG1.ElementSize": "size", "pointG1.String": "formatting",
	"pointG2.Equal": "through MarshalBinary (C11)", "pointG2.Clone": "through MarshalBinary/UnmarshalBinary (C11)",
	"pointG2.MarshalBinary": "codec (C11)", "pointG2.MarshalTo": "codec (C11)", "pointG2.UnmarshalBinary": "codec (C11)",
	"pointG2.UnmarshalFrom": "codec (C11)", "pointG2.MarshalSize": "size", "pointG2.ElementSize": "size", "pointG2.String": "formatting",
	"pointGT.Equal": "through MarshalBinary (C11)", "pointGT.Clone": "through MarshalBinary/UnmarshalBinary (C11)",
	"pointGT.MarshalBinary": "codec (C11)", "pointGT.MarshalTo": "codec (C11)", "pointGT.UnmarshalBinary": "codec (C11)",
	"pointGT.UnmarshalFrom": "codec (C11)", "pointGT.MarshalSize": "size", "pointGT.ElementSize": "size", "pointGT.String": "formatting",
}

// panicOnly: functions whose whole body is `panic("…unsupported operation")` are recorded, not translated
func panicOnly(fd *ast.FuncDecl) bool {
	if len(fd.Body.List) == 0 {
		return false
	}
	for _, st := range fd.Body.List {
		es, ok := st.(*ast.ExprStmt)
		if !ok {
			return false
		}
		c, ok := es.X.(*ast.CallExpr)
		if !ok {
			return false
		}
		if id, ok := c.Fun.(*ast.Ident); !ok || id.Name != "panic" {
			return false
		}
	}
	return true
}

type gp struct{ param, expr, leanTyp, goTyp string }

// package-level constants become parameters of the translations that read them
var globalParams = map[string]gp{
	"xiToPMinus1Over6":         {"cs", "cs.xiToPMinus1Over6", "FrobConsts α", "gfP2"},
	"xiToPMinus1Over3":         {"cs", "cs.xiToPMinus1Over3", "FrobConsts α", "gfP2"},
	"xiToPMinus1Over2":         {"cs", "cs.xiToPMinus1Over2", "FrobConsts α", "gfP2"},
	"xiTo2PMinus2Over3":        {"cs", "cs.xiTo2PMinus2Over3", "FrobConsts α", "gfP2"},
	"xiToPSquaredMinus1Over3":  {"cs", "cs.xiToPSquaredMinus1Over3", "FrobConsts α", "gfP"},
	"xiTo2PSquaredMinus2Over3": {"cs", "cs.xiTo2PSquaredMinus2Over3", "FrobConsts α", "gfP"},
	"xiToPSquaredMinus1Over6":  {"cs", "cs.xiToPSquaredMinus1Over6", "FrobConsts α", "gfP"},
	"u":                        {"u", "u", "Nat", "nat"},
	"Order":                    {"order", "order", "Nat", "nat"},
	"curveB":                   {"curveB", "curveB", "α", "gfP"},
	"twistB":                   {"twistB", "twistB", "Fp2 α", "gfP2"},
	"curveGen":                 {"curveGen", "curveGen", "Jac α", "curvePoint"},
	"twistGen":                 {"twistGen", "twistGen", "Jac (Fp2 α)", "twistPoint"},
	"gfP12Gen":                 {"gfP12Gen", "gfP12Gen", "Fp12 α", "gfP12"},
	"gfP12Inf":                 {"gfP12Inf", "gfP12Inf", "Fp12 α", "gfP12"},
	"r2":                       {"r2", "r2", "α", "gfP"},
	"r3":                       {"r3", "r3", "α", "gfP"},
	"rN1":                      {"rN1", "rN1", "α", "gfP"},
}
var gparamOrder = []struct{ name, typ string }{{"cs", "FrobConsts α"}, {"u", "Nat"}, {"order", "Nat"}, {"curveB", "α"}, {"twistB", "Fp2 α"},
	{"curveGen", "Jac α"}, {"twistGen", "Jac (Fp2 α)"}, {"gfP12Gen", "Fp12 α"}, {"gfP12Inf", "Fp12 α"}, {"r2", "α"}, {"r3", "α"}, {"rN1", "α"}}

var classOrder = []string{"Add", "Sub", "Neg", "Mul", "Zero", "One", "Inv", "DecidableEq", "RawLimbs"}

// param.kind: ptr (typ = pointee type, possibly a wrapper pointGx) | nat (*big.Int, kyber.Scalar = the big.Int V of its
// *mod.Int, cipher.Stream = the scalar mod.NewInt64(0, Order).Pick draws from it) | sint (int64) | list ([]kyber.Point)
type param struct {
	name, lean, typ, kind string
	nilable               bool // the code compares this pointer parameter with nil: translated once per case
}

type compInfo struct {
	typ  string
	out  int // parameter (class representative) whose final value this is, or -1
	name string
}
type retInfo struct {
	kind      string // param fresh bool
	rep, comp int
	typ       string
}

type summary struct {
	key      string
	lean     string
	pos      string
	sig      string
	params   []param
	classOf  []int
	used     []bool
	outs     []int
	rets     []retInfo
	comps    []compInfo
	body     *prog
	gparams  map[string]bool
	classes  map[string]bool
	sameAs   *summary
	canPanic bool
}

func (s *summary) gparamList() []string {
	var r []string
	for _, g := range gparamOrder {
		if s.gparams[g.name] {
			r = append(r, g.name)
		}
	}
	return r
}

type translator struct {
	fset    *token.FileSet
	funcs   map[string]*ast.FuncDecl
	keys    []string // source order
	globals map[string]string
	naf     []int64
	sums    map[string]*summary
	busy    map[string]bool
	order   []*summary

	panicOnly []string
}

func recvType(fd *ast.FuncDecl) string {
	if fd.Recv == nil || len(fd.Recv.List) == 0 {
		return ""
	}
	return typeName(fd.Recv.List[0].Type)
}

func leanIdent(n string) string {
	if n == "in" {
		return "inp"
	}
	return n
}

func lowerFirst(s string) string {
	r := []rune(s)
	r[0] = unicode.ToLower(r[0])
	return string(r)
}

func leanFuncName(key string) string {
	if i := strings.Index(key, "."); i >= 0 {
		return key[:i] + "_" + lowerFirst(key[i+1:])
	}
	return key
}

func (t *translator) paramsOf(key string) []param {
	fd := t.funcs[key]
	var ps []param
	add := func(fl *ast.FieldList) {
		if fl == nil {
			return
		}
		for _, fld := range fl.List {
			for _, n := range fld.Names {
				typ := typeName(fld.Type)
				_, isPtr := fld.Type.(*ast.StarExpr)
				kind := "ptr"
				switch {
				case isPtr && typ == "big.Int":
					kind, typ = "nat", "nat"
				case isPtr && (typ == "gfP" || isStruct(typ) || isWrapper(typ)):
				case typ == "kyber.Point", typ == "[]kyber.Point":
					// the dynamic type is the one the body asserts (`a.(*pointG1)`)
					if typ == "[]kyber.Point" {
						kind = "list"
					}
					typ = assertedType(fd, n.Name)
					if typ == "" && isWrapper(recvType(fd)) {
						// no assertion in this body (pointG1.Sub hands a, b on to Add / Neg, which assert): the
						// receiver's own point type; the calls in the body are checked against the callees' types
						typ = recvType(fd)
					}
					if !isWrapper(typ) {
						panic(xerr{fmt.Sprintf("%s: %s: parameter %s is a kyber.Point the body never asserts to a point type",
							t.fset.Position(fld.Pos()), key, n.Name)})
					}
				case typ == "kyber.Scalar", typ == "cipher.Stream":
					kind, typ = "nat", "nat"
				case typ == "int64":
					kind, typ = "sint", "int"
				default:
					panic(xerr{fmt.Sprintf("%s: %s: unsupported parameter type", t.fset.Position(fld.Pos()), key)})
				}
				ps = append(ps, param{name: n.Name, lean: leanIdent(n.Name), typ: typ, kind: kind,
					nilable: kind == "ptr" && comparedWithNil(fd, n.Name)})
			}
		}
	}
	add(fd.Recv)
	add(fd.Type.Params)
	return ps
}

// assertedType: T if the body contains `name.(*T)` or `name[i].(*T)`
func assertedType(fd *ast.FuncDecl, name string) string {
	res := ""
	ast.Inspect(fd.Body, func(n ast.Node) bool {
		ta, ok := n.(*ast.TypeAssertExpr)
		if !ok || ta.Type == nil {
			return true
		}
		x := unparen(ta.X)
		if ix, ok := x.(*ast.IndexExpr); ok {
			x = unparen(ix.X)
		}
		if id, ok := x.(*ast.Ident); ok && id.Name == name {
			if _, isPtr := ta.Type.(*ast.StarExpr); isPtr {
				tn := typeName(ta.Type)
				if res != "" && res != tn {
					res = "?"
				} else if res == "" {
					res = tn
				}
			}
		}
		return true
	})
	return res
}

func comparedWithNil(fd *ast.FuncDecl, name string) bool {
	found := false
	ast.Inspect(fd.Body, func(n ast.Node) bool {
		be, ok := n.(*ast.BinaryExpr)
		if !ok || (be.Op != token.EQL && be.Op != token.NEQ) {
			return true
		}
		x, okx := unparen(be.X).(*ast.Ident)
		y, oky := unparen(be.Y).(*ast.Ident)
		if okx && oky && ((x.Name == name && y.Name == "nil") || (y.Name == name && x.Name == "nil")) {
			found = true
		}
		return true
	})
	return found
}

func identity(n int) []int {
	r := make([]int, n)
	for i := range r {
		r[i] = i
	}
	return r
}

func (t *translator) summary(key string, classOf []int) *summary {
	ck := key + "|" + fmt.Sprint(classOf)
	if s, ok := t.sums[ck]; ok {
		return s
	}
	if t.busy[ck] {
		panic(xerr{key + ": recursive call (unsupported)"})
	}
	t.busy[ck] = true
	trivial := true
	for i, c := range classOf {
		if c != i {
			trivial = false
		}
	}
	var base *summary
	if !trivial {
		base = t.summary(key, identity(len(classOf)))
	}
	s := t.evalFunc(key, classOf)
	if base != nil {
		if t.cmpText(s, nil) == t.cmpText(base, classOf) {
			s.sameAs = base
		} else {
			s.lean = base.lean + variantSuffix(s.params, classOf)
			t.order = append(t.order, s)
		}
	} else {
		t.order = append(t.order, s)
	}
	t.sums[ck] = s
	delete(t.busy, ck)
	return s
}

func nilPattern(ps []param, classOf []int) string {
	var ns []string
	for i := range ps {
		if classOf[i] < 0 {
			ns = append(ns, ps[i].lean)
		}
	}
	return strings.Join(ns, "_")
}

func variantSuffix(ps []param, classOf []int) string {
	s := ""
	if n := nilPattern(ps, classOf); n != "" {
		s += "_nil_" + n
	}
	if a := aliasPattern(ps, classOf); a != "" {
		s += "_alias_" + strings.ReplaceAll(a, "=", "_")
	}
	return s
}

func aliasPattern(ps []param, classOf []int) string {
	var parts []string
	for i := range ps {
		if classOf[i] != i {
			continue
		}
		names := []string{ps[i].lean}
		for j := i + 1; j < len(ps); j++ {
			if classOf[j] == i {
				names = append(names, ps[j].lean)
			}
		}
		if len(names) > 1 {
			parts = append(parts, strings.Join(names, "="))
		}
	}
	return strings.Join(parts, "_")
}

// cmpText: the translation in canonical form (let-bound names numbered, parameters renamed to their
// class representative) — used to decide whether an alias variant IS the no-alias translation
func (t *translator) cmpText(s *summary, classOf []int) string {
	p := &printer{rename: map[string]string{}, canon: map[string]string{}, glob: globExpr}
	rep := func(i int) string {
		if classOf != nil && classOf[i] >= 0 {
			return s.params[classOf[i]].lean
		}
		if classOf != nil {
			return "nil"
		}
		return s.params[i].lean
	}
	for i := range s.params {
		p.rename[s.params[i].lean] = rep(i)
	}
	var sb strings.Builder
	sb.WriteString("outs:")
	seen := map[string]bool{}
	for _, o := range s.outs {
		if !seen[rep(o)] {
			sb.WriteString(" " + rep(o))
			seen[rep(o)] = true
		}
	}
	sb.WriteString("\nrets:")
	for _, r := range s.rets {
		if r.kind == "param" {
			sb.WriteString(" param:" + rep(r.rep))
		} else {
			sb.WriteString(" " + r.kind + ":" + r.typ)
		}
	}
	sb.WriteString("\n")
	p.prog(s.body, "", &sb)
	return sb.String()
}

func globExpr(name string) string { return globalParams[name].expr }

func (t *translator) evalFunc(key string, classOf []int) *summary {
	fd := t.funcs[key]
	params := t.paramsOf(key)
	f := &fctx{t: t, key: key, fd: fd, params: params, classOf: classOf, paramObj: make([]int, len(params)),
		objName: map[int]string{}, objKind: map[int]string{}, objTyps: map[int]string{}, objRep: map[int]int{},
		globObj: map[string]int{}, ctr: map[string]int{}}
	root := &prog{}
	st := &state{objs: map[int]*V{}, written: map[int]bool{}, touched: map[int]bool{}, env: map[string]bind{}, cur: root}
	st.elems = map[string]int{}
	for i, p := range params {
		switch p.kind {
		case "nat":
			st.env[p.name] = bind{kind: "nat", e: eParam(p.lean, "nat")}
			continue
		case "sint":
			st.env[p.name] = bind{kind: "sint", e: eParam(p.lean, "int")}
			continue
		case "list":
			st.env[p.name] = bind{kind: "list", e: eParam(p.lean, "list"), p: ptr{typ: p.typ}}
			continue
		}
		if classOf[i] < 0 {
			st.env[p.name] = bind{kind: "ptr", p: ptr{null: true}}
			continue
		}
		if classOf[i] == i {
			f.paramObj[i] = f.alloc(st, under(p.typ), p.lean, "param", atomV(eParam(p.lean, under(p.typ))))
			f.objRep[f.paramObj[i]] = i
		} else {
			if params[classOf[i]].typ != p.typ {
				panic(xerr{key + ": alias class of different types"})
			}
			f.paramObj[i] = f.paramObj[classOf[i]]
		}
		st.env[p.name] = bind{kind: "ptr", p: ptr{obj: f.paramObj[i], typ: p.typ}}
	}
	if fd.Type.Results != nil {
		for _, fld := range fd.Type.Results.List {
			for _, n := range fld.Names {
				if _, isPtr := fld.Type.(*ast.StarExpr); !isPtr {
					f.fail(fld, "named non-pointer result")
				}
				st.env[n.Name] = bind{kind: "ptr", p: ptr{null: true}}
				f.named = append(f.named, n.Name)
			}
		}
	}
	f.run(st, fd.Body.List, func(s2 *state) { f.finish(s2, fd, nil) })

	s := &summary{key: key, lean: leanFuncName(key), params: params, classOf: classOf, body: root, canPanic: f.canPanic,
		used: make([]bool, len(params)), gparams: map[string]bool{}, classes: map[string]bool{},
		pos: fmt.Sprintf("%s:%d", filepath.Base(t.fset.Position(fd.Pos()).Filename), t.fset.Position(fd.Pos()).Line),
		sig: t.signature(fd)}
	if len(f.leaves) == 0 {
		f.fail(fd, "no exit")
	}
	for i, p := range params {
		if p.kind != "ptr" || classOf[i] != i {
			continue
		}
		for _, lf := range f.leaves {
			if lf.st.written[f.paramObj[i]] {
				s.outs = append(s.outs, i)
				s.comps = append(s.comps, compInfo{typ: p.typ, out: i, name: p.lean})
				break
			}
		}
	}
	nres := len(f.leaves[0].rets)
	for j := 0; j < nres; j++ {
		var ri retInfo
		for li, lf := range f.leaves {
			if len(lf.rets) != nres {
				f.fail(fd, "exits with different numbers of results")
			}
			b := lf.rets[j]
			var cur retInfo
			switch b.kind {
			case "bool":
				cur = retInfo{kind: "bool", typ: "bool"}
			case "ptr":
				switch {
				case b.p.null:
					f.fail(fd, "nil result")
				case len(b.p.path) != 0:
					f.fail(fd, "result points into an object")
				case f.objKind[b.p.obj] == "param":
					cur = retInfo{kind: "param", rep: f.objRep[b.p.obj], typ: b.p.typ}
				case f.objKind[b.p.obj] == "local":
					cur = retInfo{kind: "fresh", typ: b.p.typ}
				default:
					f.fail(fd, "result is a package-level variable")
				}
			default:
				f.fail(fd, "unsupported result kind %s", b.kind)
			}
			if li > 0 && cur != ri {
				f.fail(fd, "exits return different kinds of results")
			}
			ri = cur
		}
		if ri.kind != "param" {
			ri.comp = len(s.comps)
			name := "r"
			if j < len(f.named) {
				name = f.named[j]
			}
			s.comps = append(s.comps, compInfo{typ: ri.typ, out: -1, name: name})
		}
		s.rets = append(s.rets, ri)
	}
	for _, lf := range f.leaves {
		r := &E{K: "tuple", Typ: "tuple"}
		for _, cp := range s.comps {
			if cp.out >= 0 {
				r.Args = append(r.Args, lf.st.objs[f.paramObj[cp.out]].toE())
			}
		}
		for j, ri := range s.rets {
			switch ri.kind {
			case "fresh":
				r.Args = append(r.Args, lf.st.objs[lf.rets[j].p.obj].toE())
			case "bool":
				r.Args = append(r.Args, lf.rets[j].e)
			}
		}
		lf.node.ret = r
	}
	// what the body mentions
	root.walk(func(e *E) {
		switch e.K {
		case "param":
			for i, p := range params {
				if p.lean == e.Name && classOf[i] == i {
					s.used[i] = true
				}
			}
		case "global":
			s.gparams[globalParams[e.Name].param] = true
		case "zero":
			s.classes["Zero"] = true
		case "one":
			s.classes["One"] = true
		case "deceq":
			s.classes["DecidableEq"] = true
		case "rawlit", "ofwords", "word":
			s.classes["RawLimbs"] = true
		case "app":
			switch e.Name {
			case "add":
				s.classes["Add"] = true
			case "sub":
				s.classes["Sub"] = true
			case "mul":
				s.classes["Mul"] = true
			case "neg":
				s.classes["Neg"] = true
			case "inv":
				s.classes["Inv"] = true
			}
		}
	})
	for _, c := range f.callees {
		tg := c
		if c.sameAs != nil {
			tg = c.sameAs
		}
		for g := range tg.gparams {
			s.gparams[g] = true
		}
		for c := range tg.classes {
			s.classes[c] = true
		}
	}
	return s
}

func (t *translator) signature(fd *ast.FuncDecl) string {
	var sb strings.Builder
	sb.WriteString("func ")
	fl := func(l *ast.FieldList) string {
		var parts []string
		if l == nil {
			return ""
		}
		for _, f := range l.List {
			var ns []string
			for _, n := range f.Names {
				ns = append(ns, n.Name)
			}
			ty := typeName(f.Type)
			if _, ok := f.Type.(*ast.StarExpr); ok {
				ty = "*" + ty
			}
			if len(ns) > 0 {
				parts = append(parts, strings.Join(ns, ", ")+" "+ty)
			} else {
				parts = append(parts, ty)
			}
		}
		return strings.Join(parts, ", ")
	}
	if fd.Recv != nil {
		sb.WriteString("(" + fl(fd.Recv) + ") ")
	}
	sb.WriteString(fd.Name.Name + "(" + fl(fd.Type.Params) + ")")
	if r := fl(fd.Type.Results); r != "" {
		if strings.ContainsAny(r, " ,") {
			r = "(" + r + ")"
		}
		sb.WriteString(" " + r)
	}
	return sb.String()
}

func (s *summary) resultType() string {
	if len(s.comps) == 0 {
		return "Unit"
	}
	var ts []string
	for _, c := range s.comps {
		ts = append(ts, leanType(c.typ))
	}
	if s.canPanic {
		return "Option (" + strings.Join(ts, " × ") + ")"
	}
	return strings.Join(ts, " × ")
}

func paramLeanType(pa param) string {
	if pa.kind == "list" {
		return "List (" + leanType(pa.typ) + ")"
	}
	return leanType(pa.typ)
}

func (t *translator) printDef(s *summary, sb *strings.Builder) {
	p := &printer{glob: globExpr, opt: s.canPanic}
	doc := fmt.Sprintf("%s `%s`", s.pos, s.sig)
	if pat := nilPattern(s.params, s.classOf); pat != "" {
		doc += " evaluated with " + pat + " = nil"
	}
	if pat := aliasPattern(s.params, s.classOf); pat != "" {
		doc += " evaluated with aliased pointers " + pat
	}
	var outs []string
	for _, c := range s.comps {
		if c.out >= 0 {
			outs = append(outs, "*"+s.params[c.out].name)
		} else {
			outs = append(outs, "result "+c.name)
		}
	}
	doc += "; value: " + strings.Join(outs, ", ")
	if s.canPanic {
		doc += " (none: the Go code panics)"
	}
	fmt.Fprintf(sb, "/-- %s -/\ndef %s {α : Type}", doc, s.lean)
	for _, c := range classOrder {
		if s.classes[c] {
			fmt.Fprintf(sb, " [%s α]", c)
		}
	}
	for _, g := range gparamOrder {
		if s.gparams[g.name] {
			fmt.Fprintf(sb, " (%s : %s)", g.name, g.typ)
		}
	}
	for i, pa := range s.params {
		if s.used[i] {
			fmt.Fprintf(sb, " (%s : %s)", pa.lean, paramLeanType(pa))
		}
	}
	fmt.Fprintf(sb, " : %s :=\n", s.resultType())
	p.prog(s.body, "  ", sb)
	sb.WriteString("\n")
}

// all alias patterns of the pointer parameters of one function (same pointee type only)
func (t *translator) patterns(ps []param) [][]int {
	var res [][]int
	var rec func(i int, cur []int)
	rec = func(i int, cur []int) {
		if i == len(ps) {
			res = append(res, append([]int{}, cur...))
			return
		}
		rec(i+1, append(cur, i))
		if ps[i].kind != "ptr" {
			return
		}
		for j := 0; j < i; j++ {
			if cur[j] == j && ps[j].kind == "ptr" && ps[j].typ == ps[i].typ {
				rec(i+1, append(cur, j))
			}
		}
	}
	rec(0, nil)
	return res[1:] // without the identity
}

func (t *translator) load(repo string) error {
	dir := filepath.Join(repo, "group", "bn256")
	structs := map[string][]fieldInfo{}
	for _, name := range srcFiles {
		file, err := parser.ParseFile(t.fset, filepath.Join(dir, name), nil, parser.ParseComments)
		if err != nil {
			return err
		}
		for _, d := range file.Decls {
			switch x := d.(type) {
			case *ast.FuncDecl:
				if x.Body == nil {
					continue
				}
				key := x.Name.Name
				if r := recvType(x); r != "" {
					// gfP.Set / gfP.Invert ARE translated (gfp.go), but a call of them from other code stays a
					// primitive of the translation (copy / ⁻¹): see evalCall
					key = r + "." + key
				}
				if panicOnly(x) {
					t.panicOnly = append(t.panicOnly, key)
					continue
				}
				t.funcs[key] = x
				t.keys = append(t.keys, key)
			case *ast.GenDecl:
				for _, sp := range x.Specs {
					switch y := sp.(type) {
					case *ast.TypeSpec:
						if stt, ok := y.Type.(*ast.StructType); ok {
							var fs []fieldInfo
							for _, fl := range stt.Fields.List {
								for _, n := range fl.Names {
									fs = append(fs, fieldInfo{n.Name, typeName(fl.Type)})
								}
							}
							structs[y.Name.Name] = fs
						}
					case *ast.ValueSpec:
						if x.Tok != token.VAR {
							continue
						}
						for i, n := range y.Names {
							if i < len(y.Values) {
								t.globalDecl(n.Name, y.Values[i])
							}
						}
					}
				}
			}
		}
	}
	for name, want := range expectedStructs {
		got := structs[name]
		if fmt.Sprint(got) != fmt.Sprint(want) {
			return fmt.Errorf("struct %s is declared as %v, the translator expects %v", name, got, want)
		}
	}
	for name, u := range wrappers {
		if got, want := fmt.Sprint(structs[name]), fmt.Sprint([]fieldInfo{{"g", u}}); got != want {
			return fmt.Errorf("struct %s is declared as %v, the translator expects {g *%s}", name, got, u)
		}
	}
	return nil
}

func (t *translator) globalDecl(name string, v ast.Expr) {
	switch x := v.(type) {
	case *ast.UnaryExpr:
		if cl, ok := x.X.(*ast.CompositeLit); ok && x.Op == token.AND {
			if tn := typeName(cl.Type); tn == "gfP" || isStruct(tn) {
				t.globals[name] = tn
			}
		}
	case *ast.CallExpr:
		if id, ok := x.Fun.(*ast.Ident); ok {
			switch id.Name {
			case "newGFp":
				t.globals[name] = "gfP"
			case "bigFromBase10":
				t.globals[name] = "nat"
			}
		}
	case *ast.CompositeLit:
		if name != "sixuPlus2NAF" {
			return
		}
		var naf []int64
		for _, el := range x.Elts {
			neg := false
			if u, ok := el.(*ast.UnaryExpr); ok && u.Op == token.SUB {
				neg, el = true, u.X
			}
			bl, ok := el.(*ast.BasicLit)
			if !ok {
				return
			}
			n, err := strconv.ParseInt(bl.Value, 0, 64)
			if err != nil {
				return
			}
			if neg {
				n = -n
			}
			naf = append(naf, n)
		}
		t.naf = naf
	}
}

func run(repo string) (lean string, err error) {
	t := &translator{funcs: map[string]*ast.FuncDecl{}, globals: map[string]string{}, sums: map[string]*summary{},
		busy: map[string]bool{}, fset: token.NewFileSet()}
	if err := t.load(repo); err != nil {
		return "", err
	}
	defer func() {
		if r := recover(); r != nil {
			if xe, ok := r.(xerr); ok {
				err = fmt.Errorf("%s", xe.msg)
				return
			}
			panic(r)
		}
	}()
	type row struct {
		key, pat string
		same     bool
	}
	var rows []row
	var roots []string
	var skipped []string
	for _, key := range t.keys {
		if _, ok := skip[key]; ok {
			skipped = append(skipped, key)
			continue
		}
		roots = append(roots, key)
		ps := t.paramsOf(key)
		t.summary(key, identity(len(ps)))
		for i, p := range ps { // the case "this pointer parameter is nil"
			if p.nilable {
				c := identity(len(ps))
				c[i] = -1
				t.summary(key, c)
			}
		}
	}
	// alias safety of every translated function under every identification of same-typed pointers
	for _, key := range roots {
		ps := t.paramsOf(key)
		for _, pat := range t.patterns(ps) {
			s := t.summary(key, pat)
			rows = append(rows, row{key, aliasPattern(ps, pat), s.sameAs != nil})
		}
	}
	var sb strings.Builder
	sb.WriteString(ex.Header("Bn256Code", "group/bn256/{gfp2,gfp6,gfp12,curve,twist,optate,point,gfp}.go"))
	sb.WriteString(`import DosModel.Model.Bn256Curve
import DosModel.Model.Bn256TFrob
import DosModel.Model.Bn256Raw
set_option linter.unusedVariables false
/-! Every definition below is the symbolic evaluation of one Go function of group/bn256
(go/extract/bn256code): one ` + "`let`" + ` per field operation / call, in the order the code performs them.
The structures Fp2, Fp6, Fp12, Jac, FrobConsts are those of the hand model (data only). -/
namespace Dos.Gen.Bn256Code
open Dos.Bn256

`)
	for _, s := range t.order {
		t.printDef(s, &sb)
	}
	sb.WriteString("/-- the translated Go functions: (Go name, source position, Lean name) -/\ndef translated : List (String × String × String) := [\n")
	var items []string
	// in SOURCE order (file by file, declaration by declaration), so that the list does not depend on who calls whom
	for _, key := range roots {
		for _, s := range t.order {
			if s.key == key && aliasPattern(s.params, s.classOf) == "" {
				name := s.key
				if n := nilPattern(s.params, s.classOf); n != "" {
					name += "[" + n + "=nil]"
				}
				items = append(items, fmt.Sprintf("  (%s, %s, %s)", ex.LeanStr(name), ex.LeanStr(s.pos), ex.LeanStr(s.lean)))
			}
		}
	}
	sb.WriteString(strings.Join(items, ",\n") + "]\n\n")
	sb.WriteString("/-- functions with a body in the translated files that are NOT translated: (Go name, reason) -/\ndef skipped : List (String × String) := [\n")
	items = nil
	for _, k := range skipped {
		items = append(items, fmt.Sprintf("  (%s, %s)", ex.LeanStr(k), ex.LeanStr(skip[k])))
	}
	sb.WriteString(strings.Join(items, ",\n") + "]\n\n")
	sb.WriteString("/-- functions whose whole body is `panic(…)` (unsupported kyber operations) -/\ndef panicOnly : List String := [")
	items = nil
	for _, k := range t.panicOnly {
		items = append(items, ex.LeanStr(k))
	}
	sb.WriteString(strings.Join(items, ", ") + "]\n\n")
	sb.WriteString("/-- alias patterns examined: (Go function, identified pointer parameters, translation under that\naliasing is textually the no-alias translation with the parameters identified) -/\ndef aliasTable : List (String × String × Bool) := [\n")
	items = nil
	for _, r := range rows {
		items = append(items, fmt.Sprintf("  (%s, %s, %v)", ex.LeanStr(r.key), ex.LeanStr(r.pat), r.same))
	}
	sb.WriteString(strings.Join(items, ",\n") + "]\n\n")
	if t.naf != nil {
		var ds []string
		for _, d := range t.naf {
			ds = append(ds, strconv.FormatInt(d, 10))
		}
		sb.WriteString("/-- the digits of sixuPlus2NAF the loop of `miller` was unrolled over -/\ndef unrolledNAF : List Int := [" + strings.Join(ds, ", ") + "]\n\n")
	}
	sb.WriteString("end Dos.Gen.Bn256Code\n")
	return sb.String(), nil
}

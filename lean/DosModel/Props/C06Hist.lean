/-
C06 — call HISTORIES: `bls.Verify` / `bls.Sign` / `tbls.Verify` are functions of the byte VALUES their
arguments hold at call time, and of nothing else.

Property theorems only (helpers: `Proofs/BlsHist.lean`; semantics: `Model/BlsHist.lean`).

The history semantics `runWith` runs a list of steps — the caller's mutations of shared memory (Go slice
semantics: refill in place, poke, append into spare capacity, re-slice; key / scalar objects set again)
interleaved with calls — against an ARBITRARY implementation with hidden state that is even handed the
caller's memory at every call.  The model of the code as it is (`runHist`) is the implementation without
hidden state.  What is proved, for all histories, all initial memories and every instance of the
group/pairing operations:
  * `hist_is_pointwise`: the outcome list equals, call by call, the one-shot function (`Bls.verify`,
    `Bls.sign`) applied to the values the arguments hold at call time;
  * `hidden_state_is_invisible`: any implementation, whatever state it keeps, whose calls return the one-shot
    outcome has exactly the model's histories — so a disagreement between the real code and `runHist` on
    one history (what the correspondence run looks for with its `hist` cases) is a call that did not return
    the one-shot outcome;
  * `hist_compositional`, `hist_call_erasure`: a call leaves the caller's memory alone; removing or
    inserting calls changes no other call's outcome;
  * `hist_refill_reads_back`: the memory model does what Go does on a refill;
  * on the instance the driver evaluates: `hist_verify_accepts_iff`, `hist_sign_emits_canonical`;
  * `memo_alias_is_not_pointwise`: the semantics is not blind — the implementation that remembers the
    caller's message SLICE with its hash point (the seeded hash memo) has a history on which it differs.
-/
import DosModel.Proofs.BlsHist
import DosModel.Props.C06

namespace Dos.Props.C06Hist
open Dos Dos.Bn256 Dos.Codec Dos.Bls Dos.BlsHist

variable {P1 P2 PT : Type}

/-- **every outcome of every history is the one-shot function of the values at call time** -/
theorem hist_is_pointwise (o : BlsOps P1 P2 PT) (k : KeyOps P2) (st : Store P2) (steps : List (Step P2)) :
    runHist o k st steps = (argsAt o k st steps).map (outcomeOf o k) :=
  runHist_pointwise o k st steps

/-- the refill pattern: verify, overwrite the message buffer in place, verify the old signature, then the
new one — accept / reject / accept -/
example : runHist toyOps toyKeyOps {}
    [.upd (.alloc 0 4 [1]), .upd (.setKey 0 7), .upd (.alloc 1 1 [14]), .call (.verify 0 0 1) none,
     .upd (.write 0 [2]), .call (.verify 0 0 1) none, .upd (.write 1 [21]), .call (.verify 0 0 1) none]
    = [.verdict .accept, .verdict .rejectPairing, .verdict .accept] := by decide
example : argsAt toyOps toyKeyOps {}
    [.upd (.alloc 0 4 [1]), .upd (.setKey 0 7), .upd (.alloc 1 1 [14]), .call (.verify 0 0 1) none,
     .upd (.write 0 [2]), .call (.verify 0 0 1) none]
    = [some (.verify 7 [1] [14]), some (.verify 7 [2] [14])] := by decide

/-- **hidden state cannot show**: an implementation with any state `σ` (which it may update at every call
and which may refer to the caller's memory) whose calls return the one-shot outcome of the current values
produces exactly the model's outcome list on every history -/
theorem hidden_state_is_invisible {σ : Type} (o : BlsOps P1 P2 PT) (k : KeyOps P2) (I : Impl σ P2)
    (hI : ∀ s st c, (I.call s st c).1 = evalCall o k st c) (s : σ) (st : Store P2)
    (steps : List (Step P2)) : runWith I s st steps = runHist o k st steps := by
  rw [runHist_pointwise]; exact runWith_pointwise o k I hI steps s st

/-- a call counter is hidden state that does not show -/
example : runWith (σ := Nat) ⟨0, fun n st c => (evalCall toyOps toyKeyOps st c, n + 1)⟩ 0 {}
    [.upd (.alloc 0 4 [1]), .upd (.setKey 0 7), .upd (.alloc 1 1 [14]), .call (.verify 0 0 1) none]
    = runHist toyOps toyKeyOps {}
    [.upd (.alloc 0 4 [1]), .upd (.setKey 0 7), .upd (.alloc 1 1 [14]), .call (.verify 0 0 1) none] :=
  hidden_state_is_invisible toyOps toyKeyOps _ (fun _ _ _ => rfl) _ _ _

/-- histories compose: the outcomes of `pre ++ post` are those of `pre` followed by those of `post` run on
the memory `pre` leaves — and that memory is computed with the one-shot functions only -/
theorem hist_compositional (o : BlsOps P1 P2 PT) (k : KeyOps P2) (st : Store P2)
    (pre post : List (Step P2)) :
    runHist o k st (pre ++ post) = runHist o k st pre ++ runHist o k (storeAfter o k st pre) post ∧
    storeAfter o k st (pre ++ post) = storeAfter o k (storeAfter o k st pre) post :=
  ⟨runHist_append o k pre post st, storeAfter_append o k pre post st⟩

example : (storeAfter toyOps toyKeyOps ({} : Store Int)
    [.upd (.alloc 0 4 [1]), .upd (.write 0 [2, 3])]).read 0 = some [2, 3] := by decide

/-- **a call leaves no trace**: with the call inserted the other calls' outcomes are what they are without it
(the caller's memory after a call whose result is not stored is the memory before it) -/
theorem hist_call_erasure (o : BlsOps P1 P2 PT) (k : KeyOps P2) (st : Store P2)
    (pre post : List (Step P2)) (c : Call) :
    runHist o k st (pre ++ .call c none :: post) =
      runHist o k st pre ++ evalCall o k (storeAfter o k st pre) c :: runHist o k (storeAfter o k st pre) post ∧
    runHist o k st (pre ++ post) = runHist o k st pre ++ runHist o k (storeAfter o k st pre) post := by
  refine ⟨?_, runHist_append o k pre post st⟩
  rw [runHist_append, runHist_call_none]

example : runHist toyOps toyKeyOps {}
    ([.upd (.alloc 0 4 [1]), .upd (.setKey 0 7), .upd (.alloc 1 1 [14])] ++ .call (.verify 0 0 1) none ::
      [.upd (.write 0 [2]), .call (.verify 0 0 1) none])
    = [] ++ .verdict .accept :: [.verdict .rejectPairing] := by decide

/-- the memory model on a refill: whatever the buffer and its aliases were, after `b = b[:n]; copy(b, bytes)`
(or the fresh allocation when the capacity does not suffice) buffer `b` reads `bytes` -/
theorem hist_refill_reads_back (st : Store P2) (hwf : st.WF) (b : Nat) (bytes : Bytes) :
    (st.apply (.write b bytes)).read b = some bytes := read_write st hwf b bytes

example : (({} : Store Int).apply (.write 3 [1, 2])).read 3 = some [1, 2] :=
  hist_refill_reads_back _ (by intro b s h; simp [List.lookup] at h) 3 [1, 2]
/- an alias (sub-slice of the same backing array) sees the refill, a re-slice up to the capacity sees the
appended bytes -/
example : let st := (((({} : Store Int).apply (.alloc 0 8 [1, 2, 3])).apply (.slice 1 0 1 3)).apply
      (.write 0 [7, 8, 9])).apply (.append 0 [5])
    (st.read 1 = some [8, 9]) ∧ ((st.apply (.slice 2 1 0 3)).read 2 = some [8, 9, 5]) := by decide

/-! ### on the instance the correspondence driver evaluates -/

/-- **in every history, a `Verify` call accepts iff the signature bytes AT CALL TIME parse to x·(h·g₁)**,
h = keccak256(message bytes at call time) mod r, x the key's discrete log at call time -/
theorem hist_verify_accepts_iff (st : Store Nat) (steps : List (Step Nat)) (i x : Nat) (msg sig : Bytes)
    (h : (argsAt evalOps evalKeyOps st steps)[i]? = some (some (.verify x msg sig))) :
    (runHist evalOps evalKeyOps st steps)[i]? = some (.verdict .accept) ↔
      ∃ S, unmarshalG1 sig = .ok S ∧ S = G1.smul x (G1.smul (keccakScalar msg) g1gen) := by
  rw [hist_is_pointwise, List.getElem?_map, h]
  simp only [Option.map_some, outcomeOf, oneShot, Option.some.injEq, Outcome.verdict.injEq]
  exact C06.evalOps_verify_iff x msg sig

/-- in every history a `Sign` call emits the canonical 64-byte encoding of a valid curve point, determined by
the scalar and the message bytes at call time -/
theorem hist_sign_emits_canonical (st : Store Nat) (steps : List (Step Nat)) (i x : Nat) (msg : Bytes)
    (h : (argsAt evalOps evalKeyOps st steps)[i]? = some (some (.sign x msg))) :
    ∃ S : G1, G1.valid S = true ∧
      (runHist evalOps evalKeyOps st steps)[i]? = some (.signature (marshalG1 S)) ∧
      (marshalG1 S).length = 64 ∧ unmarshalG1 (marshalG1 S) = .ok S ∧
      S = G1.smul x (G1.smul (keccakScalar msg) g1gen) := by
  obtain ⟨S, hv, hs, hl, hu⟩ := C06.emitted_signature_is_canonical_point x msg
  refine ⟨S, hv, ?_, hs ▸ hl, hs ▸ hu, ?_⟩
  · rw [hist_is_pointwise, List.getElem?_map, h]
    simp only [Option.map_some, outcomeOf, oneShot, hs]
  · have h2 : sign evalOps x msg = marshalG1 (G1.smul x (G1.smul (keccakScalar msg) g1gen)) := rfl
    have hr : G1.Reachable (G1.smul x (G1.smul (keccakScalar msg) g1gen)) := .smul _ (.smul _ .base)
    have hu' := unmarshalG1_marshalG1 _ (reachable_valid hr) []
    rw [List.append_nil, ← h2, hu] at hu'
    exact (Out.ok.inj hu')

example : (argsAt evalOps evalKeyOps {}
    [.upd (.alloc 0 0 []), .upd (.setKey 0 0), .upd (.alloc 1 64 (List.replicate 64 0)),
     .call (.verify 0 0 1) none])[0]? = some (some (.verify 0 [] (List.replicate 64 0))) := by decide
example : (runHist evalOps evalKeyOps {}
    [.upd (.alloc 0 0 []), .upd (.setKey 0 0), .upd (.alloc 1 64 (List.replicate 64 0)),
     .call (.verify 0 0 1) none])[0]? = some (.verdict .accept) :=
  (hist_verify_accepts_iff {} _ 0 0 [] (List.replicate 64 0) (by decide)).mpr ⟨.inf, by decide, rfl⟩

/-! ### the semantics distinguishes an implementation that remembers the caller's slice -/

/-- **the seeded hash memo is not pointwise**: an implementation that keeps the caller's message slice (not a
copy of its bytes) with the point it hashed to accepts the signature of the OLD content after the buffer was
refilled in place, and rejects the signature of the new content -/
theorem memo_alias_is_not_pointwise :
    ∃ steps : List (Step Int),
      runWith (memoImpl toyOps toyKeyOps) none {} steps ≠ runHist toyOps toyKeyOps {} steps ∧
      runWith (memoImpl toyOps toyKeyOps) none {} steps = [.verdict .accept, .verdict .accept, .verdict .rejectPairing] ∧
      runHist toyOps toyKeyOps {} steps = [.verdict .accept, .verdict .rejectPairing, .verdict .accept] :=
  ⟨[.upd (.alloc 0 4 [1]), .upd (.setKey 0 7), .upd (.alloc 1 1 [14]), .call (.verify 0 0 1) none,
     .upd (.write 0 [2]), .call (.verify 0 0 1) none, .upd (.write 1 [21]), .call (.verify 0 0 1) none],
    by decide, by decide, by decide⟩

/-- with fresh slices for every call the same implementation is indistinguishable from the model: the
history cases of the correspondence run are what exposes it -/
example : runWith (memoImpl toyOps toyKeyOps) none {}
    [.upd (.alloc 0 4 [1]), .upd (.setKey 0 7), .upd (.alloc 1 1 [14]), .call (.verify 0 0 1) none,
     .upd (.alloc 2 4 [2]), .call (.verify 0 2 1) none, .upd (.alloc 3 1 [21]), .call (.verify 0 2 3) none]
    = runHist toyOps toyKeyOps {}
    [.upd (.alloc 0 4 [1]), .upd (.setKey 0 7), .upd (.alloc 1 1 [14]), .call (.verify 0 0 1) none,
     .upd (.alloc 2 4 [2]), .call (.verify 0 2 1) none, .upd (.alloc 3 1 [21]), .call (.verify 0 2 3) none] := by
  decide

end Dos.Props.C06Hist

package c12

import (
	"context"
	"encoding/binary"
	"errors"
	"fmt"
	"io"
	"net"
	"strings"
	"time"

	"github.com/DOSNetwork/core/p2p"
	"github.com/DOSNetwork/core/p2p/discover"
	dkg "github.com/DOSNetwork/core/share/dkg/pedersen"
	vss "github.com/DOSNetwork/core/share/vss/pedersen"
	"github.com/DOSNetwork/core/sign/bls"
	"github.com/dedis/kyber"
	"github.com/golang/protobuf/proto"
	"github.com/golang/protobuf/ptypes"
	"github.com/golang/protobuf/ptypes/any"
	"github.com/hashicorp/serf/serf"

	"verifharness/internal/h"
)

type p2pMsg = proto.Message

var localID = []byte("local-node-id-000001")

// ---------------------------------------------------------------- frames

func remoteKey() (kyber.Scalar, kyber.Point) {
	s := scalarOf("remote", 1)
	return s, suite.Point().Mul(s, nil)
}

// buildFrame: the bytes of a Package described abstractly (see the Lean `Frame`)
func buildFrame(spec string, realSig bool) []byte {
	if spec == "U" {
		return []byte{0xff, 0xff, 0xff, 0x07}
	}
	f := strings.Split(spec, "/")
	anySpec, sigOK, reply := f[1], f[2] == "1", f[3] == "1"
	pa := &p2p.Package{Sender: []byte("remote-node-id-00002"), RequestNonce: 7, ReplyFlag: reply}
	idURL := ""
	{
		a, _ := ptypes.MarshalAny(&p2p.ID{})
		idURL = a.TypeUrl
	}
	switch {
	case anySpec == "none":
	case anySpec == "known":
		pa.Anything, _ = ptypes.MarshalAny(&vss.Signature{RequestId: []byte("r1"), Content: []byte("c")})
	case anySpec == "unk":
		pa.Anything = &any.Any{TypeUrl: "type.googleapis.com/nosuch.Message", Value: []byte{8, 1}}
	case anySpec == "badval":
		pa.Anything = &any.Any{TypeUrl: idURL, Value: []byte{0x0a, 0xff, 0xff}}
	case strings.HasPrefix(anySpec, "id."):
		g := strings.Split(anySpec, ".")
		id := &p2p.ID{}
		switch g[1] {
		case "ok":
			_, pub := remoteKey()
			id.PublicKey = mustBin(pub)
		case "inf":
			id.PublicKey = []byte{0}
		case "bad":
			id.PublicKey = []byte{1, 2, 3}
		}
		switch g[2] {
		case "other":
			id.Id = []byte("remote-node-id-00002")
		case "same":
			id.Id = localID
		}
		pa.Anything, _ = ptypes.MarshalAny(id)
	default:
		panic("bad any spec " + anySpec)
	}
	var payload []byte
	if pa.Anything != nil {
		payload = pa.Anything.Value
	}
	if realSig {
		sec, _ := remoteKey()
		pa.Signature, _ = bls.Sign(suite, sec, payload)
		if !sigOK {
			pa.Signature, _ = bls.Sign(suite, sec, append([]byte("x"), payload...))
		}
	} else if sigOK {
		pa.Signature = []byte("good")
	} else {
		pa.Signature = []byte("bad")
	}
	b, err := proto.Marshal(pa)
	if err != nil {
		panic(err)
	}
	return b
}

func decErrKind(e error) string {
	s := e.Error()
	switch {
	case strings.Contains(s, "package without a message"):
		return "noany"
	case strings.Contains(s, "veifyfn"):
		return "verify"
	case strings.Contains(s, "UnmarshalAny"):
		return "any"
	case strings.Contains(s, "Unmarshal"):
		return "unmarshal"
	}
	return "other:" + h.OneLine(s)
}

func fakeVerify(msg, sig []byte) error {
	if string(sig) == "good" {
		return nil
	}
	return errors.New("bad signature")
}

func opDec(v, spec string) (string, string) {
	var vf func(msg, sig []byte) error
	if v == "1" {
		vf = fakeVerify
	}
	_, _, err := p2p.VerifPDecodeBytes(buildFrame(spec, false), vf)
	if err != nil {
		return "err " + decErrKind(err), ""
	}
	return "ok", ""
}

// ---------------------------------------------------------------- dpipe

func opDpipe(spec string) (string, string) {
	setup()
	_, pub := remoteKey()
	in := make(chan []byte)
	reply, recv, errc, cancel := p2p.VerifPDecodePipe(pub, in)
	defer cancel()
	one := func(b []byte) string {
		select {
		case in <- b:
		case <-time.After(stepWait):
			return "hang"
		}
		select {
		case <-reply:
			return "ok reply"
		case <-recv:
			return "ok recv"
		case <-errc:
			return "err decode"
		case <-time.After(stepWait):
			return "hang"
		}
	}
	res := one(buildFrame(spec, true))
	oracle := ""
	if res == "hang" {
		return res, "hang-dpipe: decodePipe neither delivered nor reported"
	}
	if after := one(buildFrame("K/known/1/0", true)); after != "ok recv" {
		oracle = "not-serving-dpipe: a valid frame after the case gave " + after
	}
	return res, oracle
}

// ---------------------------------------------------------------- rid (handshake)

type sconn struct {
	data []byte
	hold chan struct{} // closed → EOF after data
}

func (c *sconn) Read(b []byte) (int, error) {
	if len(c.data) == 0 {
		return 0, io.EOF
	}
	n := copy(b, c.data)
	c.data = c.data[n:]
	return n, nil
}
func (c *sconn) Write(b []byte) (int, error)        { return len(b), nil }
func (c *sconn) Close() error                       { return nil }
func (c *sconn) LocalAddr() net.Addr                { return &net.TCPAddr{} }
func (c *sconn) RemoteAddr() net.Addr               { return &net.TCPAddr{} }
func (c *sconn) SetDeadline(t time.Time) error      { return nil }
func (c *sconn) SetReadDeadline(t time.Time) error  { return nil }
func (c *sconn) SetWriteDeadline(t time.Time) error { return nil }

func framed(b []byte) []byte {
	var hd [4]byte
	binary.BigEndian.PutUint32(hd[:], uint32(len(b)))
	return append(hd[:], b...)
}

func ridErrKind(e error) string {
	s := e.Error()
	switch {
	case strings.Contains(s, "readFrom"):
		return "read"
	case strings.Contains(s, "decodeBytes"):
		return decErrKind(errors.New(strings.SplitN(s, "decodeBytes: ", 2)[1]))
	case strings.Contains(s, "ID casting"):
		return "cast"
	case strings.Contains(s, "remoteID"):
		return "dupid"
	case strings.Contains(s, "point at infinity"):
		return "infinity"
	case strings.Contains(s, "UnmarshalBinary"):
		return "pubkey"
	}
	return "other:" + h.OneLine(s)
}

func handshake(stream []byte) (string, string) {
	ctx, cancel := context.WithCancel(context.Background())
	defer cancel()
	errc, keyed := p2p.VerifPReceiveID(ctx, localID, &sconn{data: stream})
	first := ""
	to := time.After(stepWait)
	for {
		select {
		case e, ok := <-errc:
			if !ok {
				if first != "" {
					return "err " + first, ""
				}
				if keyed() {
					return "ok keyed", ""
				}
				return "ok", "not-serving-rid: handshake ended without error and without a session key"
			}
			if first == "" {
				first = ridErrKind(e)
			}
		case <-to:
			return "hang", "hang-rid: receiveID did not end"
		}
	}
}

func opRid(w string) (string, string) {
	setup()
	var stream []byte
	switch w {
	case "eof":
		stream = []byte{0, 0}
	case "big":
		stream = append([]byte{0xff, 0xff, 0xff, 0xff}, make([]byte, 16)...)
	default:
		stream = framed(buildFrame(w, false))
	}
	return handshake(stream)
}

// ---------------------------------------------------------------- mdisp

func opMdisp(m string) (string, string) {
	setup()
	net1, err := p2p.CreateP2PNetwork(localID, "127.0.0.1", "0", p2p.NoDiscover)
	if err != nil {
		panic("harness: CreateP2PNetwork: " + err.Error())
	}
	go p2p.VerifPMessageDispatch(net1)
	sub, _ := net1.SubscribeMsg(4, vss.Signature{})
	time.Sleep(5 * time.Millisecond)
	var msg p2p.P2PMessage
	switch m {
	case "nil":
	case "sub":
		msg.Msg = ptypes.DynamicAny{Message: &vss.Signature{RequestId: []byte("x")}}
	case "unsub":
		msg.Msg = ptypes.DynamicAny{Message: &dkg.PublicKey{}}
	default:
		panic("bad mdisp " + m)
	}
	msg.RequestNonce = 1
	p2p.VerifPFeed(net1, msg)
	// barrier: a subscribed message with another nonce; also the "still serving" check
	p2p.VerifPFeed(net1, p2p.P2PMessage{Msg: ptypes.DynamicAny{Message: &vss.Signature{}}, RequestNonce: 999})
	res := "dropped"
	for {
		select {
		case got := <-sub:
			if got.RequestNonce == 999 {
				return res, ""
			}
			res = "ok delivered"
		case <-time.After(stepWait):
			return res, "not-serving-mdisp: a subscribed message after the case was not delivered"
		}
	}
}

// ---------------------------------------------------------------- listen

func opListen(evs string) (string, string) {
	ctx, cancel := context.WithCancel(context.Background())
	defer cancel()
	in := make(chan serf.Event)
	out := make(chan discover.P2PEvent)
	fin := make(chan struct{})
	go func() { discover.VerifPListen(ctx, in, out); close(fin) }()
	list := splitList(evs, ";")
	list = append(list, "m:24") // still serving: one valid member afterwards
	counts := make([]int, len(list))
	cur := -1
	to := time.After(3 * stepWait)
	for i := 0; i <= len(list); i++ {
		var ev serf.Event
		sendc := in
		if i == len(list) {
			sendc = nil
			close(in)
		} else if list[i] == "u" {
			ev = serf.UserEvent{Name: "x"}
		} else {
			var ms []serf.Member
			for _, l := range splitList(strings.TrimPrefix(list[i], "m:"), ",") {
				ms = append(ms, serf.Member{Name: strings.Repeat("n", atoi(l)), Addr: net.IPv4(10, 0, 0, 1)})
			}
			ev = serf.MemberEvent{Type: serf.EventMemberJoin, Members: ms}
		}
	wait:
		for {
			select {
			case sendc <- ev:
				cur = i
				break wait
			case <-out:
				counts[cur]++
			case <-fin:
				break wait
			case <-to:
				return "hang", "hang-listen: Listen neither takes events nor ends"
			}
		}
	}
	var outs []string
	for i := 0; i < len(list)-1; i++ {
		if list[i] == "u" {
			outs = append(outs, "dropped")
		} else {
			outs = append(outs, fmt.Sprintf("ok %d", counts[i]))
		}
	}
	oracle := ""
	if counts[len(list)-1] != 1 {
		oracle = "not-serving-listen: the valid member event after the case produced no P2PEvent"
	}
	return strings.Join(outs, ";"), oracle
}

package pipeir

import (
	"bufio"
	"fmt"
	"go/ast"
	"os"
	"path/filepath"
	"regexp"
	"strings"

	"verifharness/extract/ex"
)

func init() {
	ex.Register(&ex.Extractor{Name: "PipeIR", Run: runIR})
	ex.Register(&ex.Extractor{Name: "PipeKnown", Run: runKnown})
}

// ---- templates -----------------------------------------------------------------------------

func newTr(ld *loader, name string, cfg *config) *tr {
	return &tr{ld: ld, p: &pipeline{name: name, inTemplate: true}, cfg: cfg, cellID: map[*cell]int{},
		carried: map[int][]AV{}, sent: map[int][]AV{}, mapName: map[int]string{},
		dataMaps: map[int]bool{}, dataMapsNew: map[int]bool{}, ranged: map[int]bool{}, rangedNew: map[int]bool{},
		nilID:   -1,
		chanSub: map[string]int{}, goSite: map[*ast.GoStmt]string{}, effMemo: map[*ast.BlockStmt]bool{}, nextRoot: -1}
}

func opaqueStruct(typ string, fields map[string]AV) *avStruct {
	st := &avStruct{typ: typ, fields: map[string]*cell{}}
	for k, v := range fields {
		st.fields[k] = &cell{v}
	}
	return st
}

func (t *tr) method(dir, recv, name string, rv AV) (*avFunc, error) {
	p, err := t.ld.load(dir)
	if err != nil {
		return nil, err
	}
	fd, ok := p.methods[recv][name]
	if !ok {
		return nil, fmt.Errorf("method (%s).%s not found in %s", recv, name, dir)
	}
	f := t.funcOf(p, fd, rv)
	return f, nil
}

func (t *tr) function(dir, name string) (*avFunc, error) {
	p, err := t.ld.load(dir)
	if err != nil {
		return nil, err
	}
	fd, ok := p.funcs[name]
	if !ok {
		return nil, fmt.Errorf("function %s not found in %s", name, dir)
	}
	return t.funcOf(p, fd, nil), nil
}

// root gives the translator a live point outside any goroutine (for template-level spawns)
func (t *tr) root() { t.cur = &cont{atEntry: true, ps: newPS()}; t.g = &gbuild{static: true} }

// hand-written environment goroutines
func (t *tr) envG(name string, daemon bool, nodes ...*node) *gbuild {
	g := t.p.newG(name, true, daemon)
	g.nodes = nodes
	g.atEntry = false
	return g
}
func ip(i int) *int { return &i }

// a peer / requester that keeps sending on ch
func (t *tr) envSender(name string, ch int) {
	t.envG(name, true, &node{kind: "sel", alts: []*alt{{kind: "send", ch: ch, n1: ip(0)}}, site: "environment: sends on " + t.p.chans[ch].name})
}

// a well-behaved upstream stage: guarded sends, may stop at any moment, closes its output
func (t *tr) envProducer(name string, ch int) {
	t.envG(name, false,
		&node{kind: "sel", alts: []*alt{{kind: "send", ch: ch, n1: ip(0)}, {kind: "ctx", k: 0, n1: ip(1)}, {kind: "tick", n1: ip(1)}}, site: "environment: upstream stage"},
		&node{kind: "close", arg: ch, succ: []*int{ip(2)}, site: "environment: upstream stage closes"},
		&node{kind: "exit", site: "environment: upstream stage end"})
}

// the caller's loop: `for { select { case v, ok := <-ch: if !ok { return }; case <-ctx.Done(): return } }`
func (t *tr) envConsumerNodes(ch int) []*node {
	return []*node{
		{kind: "sel", alts: []*alt{{kind: "recv", ch: ch, n1: ip(0), n2: ip(1)}, {kind: "ctx", k: 0, n1: ip(1)}}, site: "environment: caller receives until closed or done"},
		{kind: "exit", site: "environment: caller returns"}}
}

// findMakeCap: capacity N of `<name> = make(chan T, N)` / `<name>: make(chan T, N)` in a function
func findMakeCap(p *pkgInfo, fn string, name string) (int, bool) {
	var body *ast.BlockStmt
	if fd, ok := p.funcs[fn]; ok {
		body = fd.Body
	}
	for _, ms := range p.methods {
		if fd, ok := ms[fn]; ok {
			body = fd.Body
		}
	}
	if body == nil {
		return 0, false
	}
	res, found := 0, false
	capOf := func(e ast.Expr) {
		ce, ok := e.(*ast.CallExpr)
		if !ok {
			return
		}
		if id, ok := ce.Fun.(*ast.Ident); !ok || id.Name != "make" || len(ce.Args) == 0 {
			return
		}
		if _, ok := ce.Args[0].(*ast.ChanType); !ok {
			return
		}
		found = true
		res = 0
		if len(ce.Args) > 1 {
			if bl, ok := ce.Args[1].(*ast.BasicLit); ok {
				fmt.Sscanf(bl.Value, "%d", &res)
			} else {
				found = false
			}
		}
	}
	ast.Inspect(body, func(n ast.Node) bool {
		switch x := n.(type) {
		case *ast.KeyValueExpr:
			if id, ok := x.Key.(*ast.Ident); ok && id.Name == name {
				capOf(x.Value)
			}
		case *ast.AssignStmt:
			for i, l := range x.Lhs {
				if i >= len(x.Rhs) {
					break
				}
				switch lx := l.(type) {
				case *ast.Ident:
					if lx.Name == name {
						capOf(x.Rhs[i])
					}
				case *ast.SelectorExpr:
					if lx.Sel.Name == name {
						capOf(x.Rhs[i])
					}
				}
			}
		}
		return true
	})
	return res, found
}

type builder func(t *tr) error

// build runs a template until the values carried by hand-off channels are stable.
func build(ld *loader, name string, cfg *config, b builder) (*pipeline, error) {
	carried := map[string][]AV{} // by channel name
	dataMaps := map[int]bool{}
	ranged := map[int]bool{}
	var last *tr
	for pass := 0; pass < 6; pass++ {
		t := newTr(ld, name, cfg)
		t.carriedByName = carried
		t.dataMaps = dataMaps
		t.ranged = ranged
		if err := b(t); err != nil {
			return nil, err
		}
		last = t
		next := map[string][]AV{}
		for ch, vs := range t.sent {
			next[t.p.chans[ch].name] = vs
		}
		same := len(next) == len(carried)
		for k, vs := range next {
			if len(vs) != len(carried[k]) {
				same = false
				break
			}
			for i := range vs {
				if key(vs[i]) != key(carried[k][i]) {
					same = false
				}
			}
		}
		// maps into which only data was stored in this pass
		nextData := map[int]bool{}
		for m, onlyData := range t.dataMapsNew {
			if onlyData {
				nextData[m] = true
			}
		}
		for m := range dataMaps {
			// a data map is not written to in the pass that knows it: keep it unless it got a tracked value
			if _, seen := t.dataMapsNew[m]; !seen {
				nextData[m] = true
			}
		}
		if len(nextData) != len(dataMaps) {
			same = false
		}
		for m := range nextData {
			if !dataMaps[m] {
				same = false
			}
		}
		dataMaps = nextData
		for m := range t.rangedNew {
			if !ranged[m] {
				same = false
			}
		}
		if len(t.rangedNew) != len(ranged) {
			same = false
		}
		ranged = t.rangedNew
		if same {
			break
		}
		carried = next
	}
	if len(last.errs) > 0 {
		return nil, fmt.Errorf("pipeline %s: %s", name, strings.Join(last.errs, "; "))
	}
	for _, g := range last.p.gs {
		if err := g.compact(); err != nil {
			return nil, fmt.Errorf("pipeline %s: %v", name, err)
		}
	}
	return last.p, nil
}

func dosNodeStruct(t *tr) (*avStruct, error) {
	p, err := t.ld.load("dosnode")
	if err != nil {
		return nil, err
	}
	cap, ok := findMakeCap(p, "NewDosNode", "reqSignc")
	if !ok {
		return nil, fmt.Errorf("capacity of reqSignc not found in dosnode.NewDosNode")
	}
	reqSignc := t.newNamedChan("dosnode.DosNode.reqSignc", cap)
	return opaqueStruct("dosnode:DosNode", map[string]AV{
		"ctx": avCtx{1}, "reqSignc": avChan{reqSignc},
		"p": avOpaque{"p2p"}, "chain": avOpaque{"chain"}, "dkg": avOpaque{"dkg"},
		"logger": avOpaque{"logger"}, "suite": avOpaque{"suite"}, "id": avUnknown{},
	}), nil
}

func (t *tr) newNamedChan(name string, cap int) int {
	id := t.p.newChan(name, cap)
	if vs, ok := t.carriedByName[name]; ok {
		t.carried[id] = vs
	}
	return id
}

// subscribeHook: p.SubscribeMsg(n, ...) gives a channel fed by the peers
func subscribeHook(t *tr, recv AV, name string, ce *ast.CallExpr, args []AV) ([]*cont, bool) {
	o, ok := recv.(avOpaque)
	if !ok || o.s != "p2p" || name != "SubscribeMsg" {
		return nil, false
	}
	cap := 0
	if n, ok := args[0].(avInt); ok {
		cap = n.n
	}
	ch := t.newNamedChan("p2p.SubscribeMsg."+t.fname(), cap)
	t.envSender("env.peers", ch)
	return t.ret(avTuple{[]AV{avChan{ch}, avNil{}}}), true
}

func buildQuery(ld *loader, variant, ptype string) (*pipeline, error) {
	cfg := &config{opaque: subscribeHook}
	return build(ld, "query."+variant, cfg, func(t *tr) error {
		t.p.nctx = 2
		t.nextRoot = 0
		d, err := dosNodeStruct(t)
		if err != nil {
			return err
		}
		hq, err := t.method("dosnode", "DosNode", "handleQuery", d)
		if err != nil {
			return err
		}
		ql, err := t.method("dosnode", "DosNode", "queryLoop", d)
		if err != nil {
			return err
		}
		t.root()
		args := make([]AV, 10)
		for i := range args {
			args[i] = avUnknown{}
		}
		args[9] = avConst{"onchain." + ptype}
		t.spawn("dosnode.handleQuery", hq, args, true, false, "")
		t.root()
		t.spawn("dosnode.queryLoop", ql, nil, true, true, "")
		return nil
	})
}

func buildGrouping(ld *loader) (*pipeline, error) {
	var pd *avStruct
	// nothing is assumed away: Grouping fails (nil channels, error) for a group id that is already
	// in the table, and handleGrouping's handling of that is part of the pipeline
	cfg := &config{}
	cfg.opaque = func(t *tr, recv AV, name string, ce *ast.CallExpr, args []AV) ([]*cont, bool) {
		if o, ok := recv.(avOpaque); ok && o.s == "dkg" && name == "Grouping" {
			f, err := t.method("share/dkg/pedersen", "pdkg", "Grouping", pd)
			if err != nil {
				t.errorf(ce, "%v", err)
				return nil, false
			}
			rets := t.inline(f, args, ce)
			for _, c := range rets {
				c.vals = []AV{avTuple{c.vals}}
			}
			return rets, true
		}
		return subscribeHook(t, recv, name, ce, args)
	}
	return build(ld, "grouping", cfg, func(t *tr) error {
		t.p.nctx = 2
		t.nextRoot = 0
		d, err := dosNodeStruct(t)
		if err != nil {
			return err
		}
		dk, err := t.ld.load("share/dkg/pedersen")
		if err != nil {
			return err
		}
		cap, ok := findMakeCap(dk, "NewPDKG", "bufToNode")
		if !ok {
			return fmt.Errorf("capacity of bufToNode not found in NewPDKG")
		}
		pd = opaqueStruct("share/dkg/pedersen:pdkg", map[string]AV{
			"bufToNode": avChan{t.newNamedChan("dkg.pdkg.bufToNode", cap)},
			"p":         avOpaque{"p2p"}, "suite": avOpaque{"suite"}, "logger": avOpaque{"logger"}, "groups": avOpaque{"groups"},
		})
		hg, err := t.method("dosnode", "DosNode", "handleGrouping", d)
		if err != nil {
			return err
		}
		lp, err := t.method("share/dkg/pedersen", "pdkg", "Loop", pd)
		if err != nil {
			return err
		}
		t.root()
		t.spawn("dosnode.handleGrouping", hg, []AV{avUnknown{}, avUnknown{}}, true, false, "")
		t.root()
		t.spawn("dkg.Loop", lp, nil, true, true, "")
		return nil
	})
}

func buildP2PClient(ld *loader) (*pipeline, error) {
	cfg := &config{}
	return build(ld, "p2p.client", cfg, func(t *tr) error {
		t.p.nctx = 1
		p, err := t.ld.load("p2p")
		if err != nil {
			return err
		}
		capSend, ok := findMakeCap(p, "newClient", "peerSend")
		if !ok {
			return fmt.Errorf("capacity of peerSend not found in p2p.newClient")
		}
		capErr, ok := findMakeCap(p, "newClient", "errc")
		if !ok {
			return fmt.Errorf("errc not found in p2p.newClient")
		}
		found := false
		if fd, ok := p.funcs["newClient"]; ok {
			ast.Inspect(fd.Body, func(n ast.Node) bool {
				if se, ok := n.(*ast.SelectorExpr); ok && se.Sel.Name == "WithCancel" {
					found = true
				}
				return true
			})
		}
		if !found {
			return fmt.Errorf("newClient no longer creates its context with context.WithCancel")
		}
		t.p.facts = append(t.p.facts, "ctx0: context.WithCancel in p2p.newClient")
		peerSend := t.newNamedChan("p2p.client.peerSend", capSend)
		peerFeed := t.newNamedChan("p2p.server.peerFeed", 0)
		c := opaqueStruct("p2p:client", map[string]AV{
			"ctx": avCtx{0}, "cancel": avCancel{0},
			"errc": avChan{t.newNamedChan("p2p.client.errc", capErr)}, "peerSend": avChan{peerSend}, "peerFeed": avChan{peerFeed},
			"conn": avOpaque{"conn"}, "suite": avOpaque{"suite"},
		})
		run, err := t.method("p2p", "client", "run", c)
		if err != nil {
			return err
		}
		t.root()
		t.spawn("p2p.client.run", run, nil, true, false, "")
		t.envSender("env.requesters", peerSend)
		t.envG("env.server", true, &node{kind: "sel", alts: []*alt{{kind: "recv", ch: peerFeed, n1: ip(0), n2: ip(0)}}, site: "environment: server reads peerFeed"})
		return nil
	})
}

// helper fan-ins driven by two well-behaved upstream stages and the usual caller loop
func buildHelper(ld *loader, name, dir, fn string, nIn int, mkArgs func(ctx AV, ins []AV) []AV, wrap string) (*pipeline, error) {
	cfg := &config{}
	return build(ld, name, cfg, func(t *tr) error {
		t.p.nctx = 1
		var ins []AV
		for i := 0; i < nIn; i++ {
			ch := t.newNamedChan("env.in", 0)
			ins = append(ins, avChan{ch})
			t.envProducer("env.upstream", ch)
		}
		f, err := t.function(dir, fn)
		if err != nil {
			return err
		}
		main := t.p.newG("env.caller", true, false)
		t.g = main
		t.cur = &cont{atEntry: true, ps: newPS()}
		t.frames = nil
		var args []AV
		if mkArgs == nil {
			args = argsByType(f, avCtx{0}, ins)
		} else {
			args = mkArgs(avCtx{0}, ins)
		}
		rets := t.inline(f, args, nil)
		if len(rets) != 1 {
			return fmt.Errorf("%s.%s returns along %d paths", dir, fn, len(rets))
		}
		t.cur = rets[0]
		vals := rets[0].vals
		if wrap != "" {
			w, err := t.function(dir, wrap)
			if err != nil {
				return err
			}
			rets = t.inline(w, []AV{avCtx{0}, vals[0]}, nil)
			if len(rets) != 1 {
				return fmt.Errorf("%s.%s returns along %d paths", dir, wrap, len(rets))
			}
			t.cur = rets[0]
			vals = rets[0].vals
		}
		if main.effects {
			return fmt.Errorf("%s.%s blocks in its constructor", dir, fn)
		}
		var outs []AV
		for _, v := range vals {
			switch x := v.(type) {
			case avChan:
				outs = append(outs, x)
			case avList:
				outs = append(outs, x.l...)
			}
		}
		if len(outs) == 0 {
			return fmt.Errorf("%s.%s returns no channel", dir, fn)
		}
		// the caller consumes the first output; further outputs get their own consumers
		main.nodes = t.envConsumerNodes(outs[0].(avChan).id)
		main.atEntry = false
		for _, o := range outs[1:] {
			g := t.p.newG("env.caller", true, false)
			g.nodes = t.envConsumerNodes(o.(avChan).id)
			g.atEntry = false
		}
		return nil
	})
}

// argsByType binds the parameters of a helper by their declared types: context.Context gets the
// pipeline context, a (variadic) channel parameter gets the inputs, everything else is data.
func argsByType(f *avFunc, ctx AV, ins []AV) []AV {
	var args []AV
	for _, fld := range f.typ.Params.List {
		n := len(fld.Names)
		if n == 0 {
			n = 1
		}
		for i := 0; i < n; i++ {
			switch ty := fld.Type.(type) {
			case *ast.SelectorExpr:
				if ty.Sel.Name == "Context" {
					args = append(args, ctx)
					continue
				}
			case *ast.Ellipsis:
				args = append(args, ins...)
				continue
			case *ast.ChanType:
				if len(ins) > 0 {
					args = append(args, ins[0])
					ins = ins[1:]
					continue
				}
			}
			args = append(args, avUnknown{})
		}
	}
	return args
}

type spec struct {
	name string
	mk   func(ld *loader) (*pipeline, error)
}

func specs() []spec {
	ctxIns := func(ctx AV, ins []AV) []AV { return append([]AV{ctx}, ins...) }
	h := func(name, dir, fn string, n int, mk func(AV, []AV) []AV, wrap string) spec {
		return spec{name, func(ld *loader) (*pipeline, error) { return buildHelper(ld, name, dir, fn, n, mk, wrap) }}
	}
	return []spec{
		{"query.sys", func(ld *loader) (*pipeline, error) { return buildQuery(ld, "sys", "TrafficSystemRandom") }},
		{"query.user", func(ld *loader) (*pipeline, error) { return buildQuery(ld, "user", "TrafficUserRandom") }},
		{"query.url", func(ld *loader) (*pipeline, error) { return buildQuery(ld, "url", "TrafficUserQuery") }},
		{"grouping", buildGrouping},
		{"p2p.client", buildP2PClient},
		h("helper.dosnode.mergeErrors", "dosnode", "mergeErrors", 2, ctxIns, ""),
		h("helper.dosnode.fanIn", "dosnode", "fanIn", 2, ctxIns, ""),
		h("helper.utils.MergeErrors", "utils", "MergeErrors", 2, ctxIns, ""),
		h("helper.onchain.merge", "onchain", "merge", 2, ctxIns, ""),
		h("helper.onchain.mergeError", "onchain", "mergeError", 2, ctxIns, ""),
		h("helper.onchain.first", "onchain", "merge", 2, ctxIns, "first"),
		h("helper.onchain.firstEvent", "onchain", "merge", 2, ctxIns, "firstEvent"),
		h("helper.p2p.merge", "p2p", "merge", 2, ctxIns, ""),
		h("helper.dkg.mergeErrors", "share/dkg/pedersen", "mergeErrors", 2, nil, ""),
		h("helper.dkg.fanOut", "share/dkg/pedersen", "fanOut", 1,
			func(ctx AV, ins []AV) []AV { return []AV{ctx, ins[0], avInt{2}} }, ""),
	}
}

func runIR(repo string) (string, error) {
	bl := buildAll(repo)
	if bl.err != nil {
		return "", bl.err
	}
	var b strings.Builder
	b.WriteString(ex.Header("PipeIR", "dosnode/dos_stages.go dos_query_handler.go dos_chain_handler.go share/dkg/pedersen/pdkg.go pdkg_pipes.go utils/utils.go onchain/eth_helpers.go eth_subscribe.go p2p/client.go server.go"))
	b.WriteString("import DosModel.Model.PipeIR\nnamespace Dos.Gen.Pipes\nopen Dos.Pipe\n\n")
	var names []string
	for _, p := range bl.pipes {
		for _, w := range p.warns {
			fmt.Fprintf(&b, "-- note: %s\n", w)
		}
		for _, f := range p.facts {
			fmt.Fprintf(&b, "-- fact: %s\n", f)
		}
		b.WriteString(p.lean())
		b.WriteString("\n")
		names = append(names, leanIdent(p.name))
		// extracted fact used by the theorems: how context 0 is created
		how := "none"
		for _, f := range p.facts {
			if strings.HasPrefix(f, "ctx0: context.") {
				how = strings.Fields(strings.TrimPrefix(f, "ctx0: context."))[0]
			}
		}
		fmt.Fprintf(&b, "def %s_ctx0 : String := %s\n\n", leanIdent(p.name), leanStr(how))
		// extracted fact: where the timer channels of the timer alternatives come from (goroutine, source)
		fmt.Fprintf(&b, "def %s_timers : List (String × String) := [", leanIdent(p.name))
		for i, x := range p.timers {
			if i > 0 {
				b.WriteString(", ")
			}
			fmt.Fprintf(&b, "(%s, %s)", leanStr(x[0]), leanStr(x[1]))
		}
		b.WriteString("]\n\n")
	}
	b.WriteString("def all : List Pipeline := [" + strings.Join(names, ", ") + "]\n")
	b.WriteString("end Dos.Gen.Pipes\n")
	return b.String(), nil
}

// ---- Known.* from KNOWN_FINDINGS.txt (read-only) ----------------------------------------------

var knownRe = regexp.MustCompile(`^known:\s+property=C14\s+sig=W(\d):([^:\s]*):(\S*)`)

func knownFile() string {
	if len(os.Args) > 2 {
		p := filepath.Join(os.Args[2], "..", "KNOWN_FINDINGS.txt")
		if _, err := os.Stat(p); err == nil {
			return p
		}
	}
	return "/verif/KNOWN_FINDINGS.txt"
}

func runKnown(repo string) (string, error) {
	var b strings.Builder
	b.WriteString(ex.Header("PipeKnown", "/verif/KNOWN_FINDINGS.txt (lines `known: property=C14 sig=W<rule>:<goroutine>:<channel>`)"))
	b.WriteString("import DosModel.Model.PipeWf\nnamespace Dos.Gen.PipeKnown\nopen Dos.Pipe\n\n")
	b.WriteString("def sites : List Violation := [")
	f, err := os.Open(knownFile())
	n := 0
	if err == nil {
		defer f.Close()
		sc := bufio.NewScanner(f)
		for sc.Scan() {
			m := knownRe.FindStringSubmatch(strings.TrimSpace(sc.Text()))
			if m == nil {
				continue
			}
			if n > 0 {
				b.WriteString(",")
			}
			fmt.Fprintf(&b, "\n  { rule := %s, g := %s, c := %s }", m[1], leanStr(m[2]), leanStr(m[3]))
			n++
		}
	}
	b.WriteString("]\n\nend Dos.Gen.PipeKnown\n")
	return b.String(), nil
}

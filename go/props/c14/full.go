package c14

import (
	"context"
	"crypto/sha256"
	"errors"
	"fmt"
	"math/big"
	stdnet "net"
	"net/http"
	"sort"
	"strings"
	"sync"
	"sync/atomic"
	"time"

	"github.com/DOSNetwork/core/dosnode"
	"github.com/DOSNetwork/core/onchain"
	"github.com/DOSNetwork/core/p2p"
	"github.com/DOSNetwork/core/share"
	dkg "github.com/DOSNetwork/core/share/dkg/pedersen"
	vss "github.com/DOSNetwork/core/share/vss/pedersen"
	"github.com/DOSNetwork/core/sign/tbls"
	"github.com/DOSNetwork/core/suites"
	"github.com/dedis/kyber"
	"github.com/golang/protobuf/proto"

	"verifharness/internal/dkgnet"
	"verifharness/internal/doubles"
	"verifharness/internal/h"
)

// Full pipelines, real entry points:
//
//	full p=grouping n=<n> fault=<none|silent:j|dropdeal:j|dropresp:j|loseack:j|baddeal:j|badresp:j> cancel=<never|ev<k>>
//	     the real pdkg.Grouping of every member over an in-memory network; cancellation is
//	     injected at the k-th network event (message boundary);
//	full p=query.<sys|user|url> role=<submitter|member> bt=<0|1> peers=<k> [req=fail|block] [chain=fail]
//	     [url=ok|slow|refuse|badsel]
//	     the real handleQuery + queryLoop of one node over doubles; bt=0: the context handleQuery
//	     creates is already expired, bt=1: it never fires within the run.  req: the peer refuses
//	     (p.Request fails at once) / is silent (p.Request returns when the context ends); chain=fail: the
//	     report call fails; url (query.url): a loopback document server that answers at once, after
//	     300 ms, not at all (nothing listens), or a selector that does not compile.
//	full p=grouping … live=<ms>: the session may run that long before the harness cancels it (default 3000).
//
// Observation: `clean` when afterwards (context cancelled, grace period) no goroutine of the
// pipeline's functions is left and the channels handed to the caller are closed; else `dirty`.

type fullScen struct {
	p, fault, cancel, role, mode string
	url, req, chain              string // query lines: document server / p.Request / chain call behaviour
	live                         int    // grouping lines: how long (ms) the session may run before the harness cancels it
	n, bt, peers                 int
	reps                         int
	raw                          string
}

func parseFull(line string) *fullScen {
	m := map[string]string{}
	for _, w := range strings.Fields(line)[1:] {
		if i := strings.Index(w, "="); i > 0 {
			m[w[:i]] = w[i+1:]
		}
	}
	f := &fullScen{p: m["p"], fault: m["fault"], cancel: m["cancel"], role: m["role"], mode: m["mode"], n: 3, bt: 1, reps: 3, raw: line,
		url: m["url"], req: m["req"], chain: m["chain"], live: 3000}
	if v := m["live"]; v != "" {
		f.live = h.Atoi(v)
	}
	if v := m["n"]; v != "" {
		f.n = h.Atoi(v)
	}
	if v := m["bt"]; v != "" {
		f.bt = h.Atoi(v)
	}
	if v := m["peers"]; v != "" {
		f.peers = h.Atoi(v)
	}
	if v := m["reps"]; v != "" {
		f.reps = h.Atoi(v)
	}
	return f
}

// leftovers: goroutines (not in baseline) whose innermost repo frame belongs to one of the packages
func leftovers(baseline map[int]bool, self int, pkgs []string, except map[string]bool) []string {
	count := map[string]int{}
	for _, g := range dump() {
		if baseline[g.id] || g.id == self {
			continue
		}
		b := entryBase(g)
		if b == "" {
			continue
		}
		ok := false
		for _, p := range pkgs {
			if strings.HasPrefix(b, p+".") {
				ok = true
			}
		}
		if ok && !except[b] {
			count[b]++
		}
	}
	var out []string
	for b, n := range count {
		out = append(out, fmt.Sprintf("%s*%d", b, n))
	}
	sort.Strings(out)
	return out
}

func runFullOnce(f *fullScen) (string, error) {
	initOnce.Do(func() { initChild() })
	self := selfID()
	baseline := map[int]bool{}
	for _, g := range dump() {
		baseline[g.id] = true
	}
	switch {
	case f.p == "grouping" && f.mode == "dup":
		return fullGroupingDup(f, self, baseline)
	case f.p == "grouping":
		return fullGrouping(f, self, baseline)
	case strings.HasPrefix(f.p, "query."):
		return fullQuery(f, self, baseline)
	}
	return "", fmt.Errorf("unknown pipeline %s", f.p)
}

func fullGrouping(f *fullScen, self int, baseline map[int]bool) (string, error) {
	n := f.n
	var ids [][]byte
	for i := 0; i < n; i++ {
		d := sha256.Sum256([]byte(fmt.Sprintf("c14-member-%d", i)))
		ids = append(ids, d[:20])
	}
	net := dkgnet.NewNet(ids)
	net.AckWait = 100 * time.Millisecond
	ctx, cancel := context.WithCancel(context.Background())
	defer cancel()
	faultKind, faultWho := "none", -1
	if kv := strings.SplitN(f.fault, ":", 2); len(kv) == 2 {
		faultKind, faultWho = kv[0], h.Atoi(kv[1])
	}
	cancelAt := int64(-1)
	if strings.HasPrefix(f.cancel, "ev") {
		cancelAt = int64(h.Atoi(f.cancel[2:]))
	}
	var events int64
	net.Policy = func(from, to int, kind string, attempt int) dkgnet.Action {
		k := atomic.AddInt64(&events, 1)
		if cancelAt >= 0 && k == cancelAt {
			cancel() // the deadline fires at this message boundary
		}
		switch {
		case faultKind == "dropdeal" && from == faultWho && kind == "deal":
			return dkgnet.Action{Drop: true}
		case faultKind == "dropresp" && from == faultWho && kind == "resp":
			return dkgnet.Action{Drop: true}
		case faultKind == "loseack" && from == faultWho && attempt == 0:
			return dkgnet.Action{LoseAck: true}
		case faultKind == "silent" && (from == faultWho || to == faultWho):
			return dkgnet.Action{Drop: true}
		}
		return dkgnet.Action{}
	}
	suite := suites.MustFind("bn256")
	type member struct {
		outc chan [5]*big.Int
		errc chan error
	}
	var ms []*member
	var wg sync.WaitGroup
	for i := 0; i < n; i++ {
		var tr p2p.P2PInterface = net.Node(i, ids)
		if (faultKind == "baddeal" || faultKind == "badresp") && i == faultWho {
			tr = &corruptNode{Node: net.Node(i, ids), kind: faultKind}
		}
		d := dkg.NewPDKG(tr, suite)
		go d.Loop()
		if faultKind == "silent" && i == faultWho {
			continue // a crashed peer: silent from the start
		}
		outc, errc, err := d.Grouping(ctx, "c14c14", ids)
		if err != nil {
			return "", err
		}
		m := &member{outc, errc}
		ms = append(ms, m)
		// the caller's loop (handleGrouping): read the result and the errors until closed or done
		wg.Add(2)
		go func() {
			defer wg.Done()
			for {
				select {
				case _, ok := <-m.outc:
					if !ok {
						return
					}
				case <-ctx.Done():
					return
				}
			}
		}()
		go func() {
			defer wg.Done()
			for {
				select {
				case _, ok := <-m.errc:
					if !ok {
						return
					}
				case <-ctx.Done():
					return
				}
			}
		}()
	}
	// let the session run to its end or to the injected deadline; then the deadline at the latest
	done := make(chan struct{})
	go func() { wg.Wait(); close(done) }()
	select {
	case <-done:
	case <-time.After(time.Duration(f.live) * time.Millisecond):
	}
	cancel()
	// grace period: the retry loops sleep 500 ms between attempts
	time.Sleep(700 * time.Millisecond)
	if !settle(self) {
		return "unsettled", nil
	}
	left := leftovers(baseline, self, []string{"dkg", "dosnode"}, map[string]bool{"dkg.Loop": true})
	open := 0
	for _, m := range ms {
		if !isClosed(m.outc) {
			open++
		}
		if !isClosedErr(m.errc) {
			open++
		}
	}
	if len(left) == 0 && open == 0 {
		return "clean", nil
	}
	return fmt.Sprintf("dirty leak=%s open=%d", strings.Join(left, ","), open), nil
}

// fullGroupingDup: the REAL handleGrouping (deadline, error handling, drain loop) of one node whose
// peers are silent, called `calls` times for the same group id: the second and later calls find the
// group id in the table (a duplicate LogGrouping event through a second endpoint, or a retry after
// a failed session) and pdkg.Grouping fails. bt=0: the session deadline has already passed, so
// everything that can end has ended when the handler returns.
func fullGroupingDup(f *fullScen, self int, baseline map[int]bool) (string, error) {
	var ids [][]byte
	for i := 0; i < 3; i++ {
		d := sha256.Sum256([]byte(fmt.Sprintf("c14-member-%d", i)))
		ids = append(ids, d[:20])
	}
	net := dkgnet.NewNet(ids)
	net.AckWait = 50 * time.Millisecond
	net.Policy = func(from, to int, kind string, attempt int) dkgnet.Action { return dkgnet.Action{Drop: true} }
	d := dkg.NewPDKG(net.Node(0, ids), suites.MustFind("bn256"))
	go d.Loop()
	chain := &doubles.Chain{BlockTime: uint64(f.bt)}
	node := dosnode.VerifNewNode(ids[0], net.Node(0, ids), chain, d, 21, doubles.NewLogger())
	defer node.VerifCancel()
	calls := f.peers
	if calls < 2 {
		calls = 2
	}
	for i := 0; i < calls; i++ {
		done := make(chan struct{})
		go func() { node.VerifPipesHandleGrouping(ids, "c14dup"); close(done) }()
		select {
		case <-done:
		case <-time.After(3 * time.Second):
			return "dirty returned=false call=" + fmt.Sprint(i), nil
		}
	}
	time.Sleep(20 * time.Millisecond)
	if !settle(self) {
		return "unsettled", nil
	}
	left := leftovers(baseline, self, []string{"dkg", "dosnode"}, map[string]bool{"dkg.Loop": true})
	if len(left) == 0 {
		return "clean", nil
	}
	return "dirty leak=" + strings.Join(left, ","), nil
}

// corruptNode: a member whose outgoing deals (baddeal) or responses (badresp) are damaged in transit: the
// receivers' stages take their "invalid deal" / "invalid response" exits
type corruptNode struct {
	*dkgnet.Node
	kind string
}

func (c *corruptNode) Request(ctx context.Context, id []byte, m proto.Message) (p2p.P2PMessage, error) {
	m = proto.Clone(m)
	switch x := m.(type) {
	case *dkg.Deal:
		if c.kind == "baddeal" && x.Deal != nil && len(x.Deal.Cipher) > 0 {
			x.Deal.Cipher[0] ^= 0xff
		}
	case *dkg.Responses:
		if c.kind == "badresp" {
			for _, r := range x.Response {
				if r != nil && r.Response != nil && len(r.Response.Signature) > 0 {
					r.Response.Signature[0] ^= 0xff
				}
			}
		}
	}
	return c.Node.Request(ctx, id, m)
}

func isClosed(c chan [5]*big.Int) bool {
	for {
		select {
		case _, ok := <-c:
			if !ok {
				return true
			}
		default:
			return false
		}
	}
}
func isClosedErr(c chan error) bool {
	for {
		select {
		case _, ok := <-c:
			if !ok {
				return true
			}
		default:
			return false
		}
	}
}

// ---- handleQuery ---------------------------------------------------------------------------------

var qsuite = suites.MustFind("bn256")

func fullQuery(f *fullScen, self int, baseline map[int]bool) (string, error) {
	n, t := 3, 2
	coeffs := make([]kyber.Scalar, t)
	for i := range coeffs {
		d := sha256.Sum256([]byte(fmt.Sprintf("c14-coeff-%d", i)))
		coeffs[i] = qsuite.G2().Scalar().SetBytes(d[:])
	}
	pri := share.CoefficientsToPriPoly(qsuite.G2(), coeffs)
	pub := pri.Commit(qsuite.G2().Point().Base())
	shares := pri.Shares(n)
	var ids [][]byte
	for i := 0; i < n; i++ {
		d := sha256.Sum256([]byte(fmt.Sprintf("c14-node-%d", i)))
		ids = append(ids, d[:20])
	}
	last := big.NewInt(7) // lastRand % n picks the submitter
	sub := int(new(big.Int).Mod(last, big.NewInt(int64(n))).Int64())
	me := sub
	if f.role == "member" {
		me = (sub + 1) % n
	}
	net := doubles.NewP2P(ids[me], 50)
	switch f.req {
	case "fail": // the peer refuses: p.Request fails at once (a crashed submitter)
		net.OnRequest = func(ctx context.Context, from, to []byte, m proto.Message) (p2p.P2PMessage, error) {
			return p2p.P2PMessage{}, errors.New("double: connection refused")
		}
	case "block": // the peer is silent: p.Request returns when the caller's context ends
		net.OnRequest = func(ctx context.Context, from, to []byte, m proto.Message) (p2p.P2PMessage, error) {
			<-ctx.Done()
			return p2p.P2PMessage{}, ctx.Err()
		}
	}
	chain := &doubles.Chain{BlockTime: uint64(f.bt), Notify: make(chan struct{}, 4)}
	if f.chain == "fail" {
		chain.Err = errors.New("double: chain call failed")
	}
	node := dosnode.VerifNewNode(ids[me], net, chain, nil, 21, doubles.NewLogger())
	go node.VerifQueryLoop()
	defer node.VerifCancel()
	rid := big.NewInt(99)
	ptype := uint32(onchain.TrafficSystemRandom)
	var seed *big.Int
	content := append(dosnode.VerifPadOrTrim(last.Bytes(), dosnode.VerifRandNumberSize), ids[sub]...)
	if f.p == "query.user" {
		ptype = uint32(onchain.TrafficUserRandom)
		seed = big.NewInt(5)
		content = append(append(append(append([]byte{}, rid.Bytes()...), last.Bytes()...), seed.Bytes()...), ids[sub]...)
	}
	// the peers' shares arrive before / while the node works on the request
	for k := 0; k < f.peers; k++ {
		j := (me + 1 + k) % n
		sig, err := tbls.Sign(qsuite, shares[j], content)
		if err != nil {
			return "", err
		}
		net.Deliver(ids[j], &vss.Signature{Index: ptype, RequestId: rid.Bytes(), Content: content, Signature: sig})
	}
	url, selector := "", ""
	grace := 20 * time.Millisecond
	if f.p == "query.url" {
		ptype = uint32(onchain.TrafficUserQuery)
		selector = "$.a"
		switch f.url {
		case "refuse":
			url = "http://127.0.0.1:1/nothing" // nothing listens: the fetch fails at once
		default:
			// a document server on the loopback interface: ok / badsel answer at once, slow after 300 ms
			ln, err := stdnet.Listen("tcp", "127.0.0.1:0")
			if err != nil {
				return "", err
			}
			defer ln.Close()
			delay := time.Duration(0)
			if f.url == "slow" {
				delay = 300 * time.Millisecond
				grace = 600 * time.Millisecond // look only after the fetch has returned
			}
			if f.url == "badsel" {
				selector = "$..[" // does not compile
			}
			srv := &http.Server{Handler: http.HandlerFunc(func(w http.ResponseWriter, r *http.Request) {
				time.Sleep(delay)
				w.Write([]byte(`{"a": 1}`))
			})}
			go srv.Serve(ln)
			defer srv.Close()
			url = "http://" + ln.Addr().String() + "/doc"
		}
	}
	done := make(chan struct{})
	go func() {
		node.VerifHandleQuery(ids, pub, shares[me], "group-1", rid, last, seed, url, selector, ptype)
		close(done)
	}()
	returned := false
	select {
	case <-done:
		returned = true
	case <-time.After(3 * time.Second):
	}
	time.Sleep(grace)
	if !settle(self) {
		return "unsettled", nil
	}
	left := leftovers(baseline, self, []string{"dosnode"}, map[string]bool{"dosnode.queryLoop": true})
	if returned && len(left) == 0 {
		return "clean", nil
	}
	return fmt.Sprintf("dirty returned=%v leak=%s", returned, strings.Join(left, ",")), nil
}

package c15

// Round 5: every Write of the transport scripted (short writes with a nil error, Writes that return
// (0, nil), errors at every position), the two loops of p2p/client.go that call writeTo / readFrom
// (sendPipe, readPipe) on one connection, and two goroutines calling writeTo on one connection.

import (
	"bytes"
	"encoding/binary"
	"errors"
	"fmt"
	"hash/adler32"
	"io"
	"strconv"
	"strings"
	"sync"
	"time"

	"github.com/DOSNetwork/core/p2p"

	"verifharness/internal/h"
)

type wact struct {
	k    int
	fail bool
}

var errScripted = errors.New("scripted write failure")

// wconn: a connection whose every Write follows a script (accept k bytes / accept k bytes and fail);
// an exhausted script accepts everything. sticky: the first failure is final (every later Write
// returns 0 bytes and the error), like a TCP connection without a write deadline.
type wconn struct {
	sconn
	script         []wact
	sticky, broken bool
	calls          int
	failedAt       int // index of the first failing Write call, -1 if none
	callsAfterFail int // Write calls of the SAME writeTo after its failing Write (always a defect)
	inFrameFailed  bool
}

func (c *wconn) Write(b []byte) (int, error) {
	c.calls++
	if c.inFrameFailed {
		c.callsAfterFail++
	}
	if c.broken {
		c.inFrameFailed = true
		return 0, errScripted
	}
	if len(c.script) == 0 {
		c.written = append(c.written, b...)
		return len(b), nil
	}
	a := c.script[0]
	c.script = c.script[1:]
	n := a.k
	if n > len(b) {
		n = len(b)
	}
	c.written = append(c.written, b[:n]...)
	if a.fail {
		if c.failedAt < 0 {
			c.failedAt = c.calls - 1
		}
		c.inFrameFailed = true
		if c.sticky {
			c.broken = true
		}
		return n, errScripted
	}
	return n, nil
}

func parseScript(s string) []wact {
	if s == "-" {
		return nil
	}
	var r []wact
	for _, w := range strings.Split(s, ",") {
		if strings.HasPrefix(w, "e") {
			r = append(r, wact{h.Atoi(w[1:]), true})
		} else {
			r = append(r, wact{h.Atoi(w), false})
		}
	}
	return r
}

func scriptOf(as []wact) string {
	if len(as) == 0 {
		return "-"
	}
	var s []string
	for _, a := range as {
		if a.fail {
			s = append(s, "e"+strconv.Itoa(a.k))
		} else {
			s = append(s, strconv.Itoa(a.k))
		}
	}
	return strings.Join(s, ",")
}

func parsePayload(s string) []byte {
	if strings.HasPrefix(s, "z") {
		return make([]byte, h.Atoi(s[1:]))
	}
	return h.UnHex(s)
}

// a payload no generated case uses: sendPipe refuses it before any Write and reports it, which tells
// the harness that everything sent before has been dealt with
var sentinel = make([]byte, limit+7)

func isSentinel(err error) bool {
	return strings.Contains(err.Error(), fmt.Sprintf("size %d:", limit+7))
}

func showFrames(got [][]byte, kind string) string {
	var s []string
	for _, g := range got {
		s = append(s, "ok:"+h.Hex(g))
	}
	if kind != "" {
		s = append(s, "err:"+kind)
	}
	return strings.Join(s, ";")
}

// rconn counts the Reads issued after a Read has returned an error
type rconn struct {
	sconn
	failed        bool
	readsAfterErr int
}

func (c *rconn) Read(b []byte) (int, error) {
	if c.failed {
		c.readsAfterErr++
	}
	n, err := c.sconn.Read(b)
	if err != nil {
		c.failed = true
	}
	return n, err
}

// runReadPipe runs the real readPipe on rc until it closes its output
func runReadPipe(rc *rconn) (got [][]byte, kind string, nerr int, hung bool) {
	out, rerrc, rcancel := p2p.VerifC15ReadPipe(rc)
	defer rcancel()
	tmo := time.After(10 * time.Second)
	for {
		select {
		case b, ok := <-out:
			if !ok {
				return
			}
			got = append(got, b)
		case e := <-rerrc:
			nerr++
			if nerr == 1 {
				kind = errKind(e)
			} else {
				rcancel() // a reader that goes on after an error would never end on a finished stream
			}
		case <-tmo:
			return got, kind, nerr, true
		}
	}
}

func execX(line string) (res h.Result, ok bool) {
	w := strings.Fields(line)
	switch w[0] {
	case "wrx":
		n, a, b := h.Atoi(w[1]), h.Atoi(w[2]), h.Atoi(w[3])
		script := parseScript(w[4])
		payload := syn(n, a, b)
		c := &wconn{script: script, failedAt: -1}
		err := p2p.VerifWriteTo(payload, c)
		want := frame(payload)
		res.Nontrivial = true
		switch {
		case err != nil && strings.Contains(err.Error(), "SizeLimit"):
			res.Impl, res.Class = "err oversize", "wrx-refused"
			if n <= limit {
				res.Oracle = "write-valid-rejected: " + h.OneLine(err.Error())
			} else if c.calls != 0 {
				res.Oracle = "write-partial-on-error"
			}
		case err != nil:
			res.Impl = fmt.Sprintf("err write len=%d adler=%d calls=%d", len(c.written), adler32.Checksum(c.written), c.calls)
			res.Class = "wrx-err"
			switch {
			case c.failedAt < 0:
				res.Oracle = "write-error-invented: no Write failed, writeTo reports " + h.OneLine(err.Error())
			case c.callsAfterFail > 0:
				res.Oracle = fmt.Sprintf("write-after-error: %d Write calls after the failing one", c.callsAfterFail)
			case len(c.written) > len(want) || !bytes.Equal(c.written, want[:len(c.written)]):
				res.Oracle = "write-not-a-prefix: the bytes on the wire are not a prefix of header+payload"
			}
		default:
			hd := c.written
			if len(hd) > 4 {
				hd = hd[:4]
			}
			res.Impl = fmt.Sprintf("ok len=%d adler=%d hdr=%s calls=%d", len(c.written), adler32.Checksum(c.written), h.Hex(hd), c.calls)
			res.Class = "wrx-ok"
			switch {
			case n > limit:
				res.Oracle = fmt.Sprintf("write-oversize-accepted: %d bytes", n)
			case c.failedAt >= 0:
				res.Oracle = "write-error-swallowed: a Write failed and writeTo returned nil"
			case !bytes.Equal(c.written, want):
				res.Oracle = fmt.Sprintf("write-stream-differs: %d bytes on the wire, header+payload has %d", len(c.written), len(want))
			}
		}
		return res, true
	case "pipe":
		sticky := w[1] == "1"
		var ps [][]byte
		for _, t := range strings.Split(w[2], ";") {
			ps = append(ps, parsePayload(t))
		}
		wc := &wconn{script: parseScript(w[3]), sticky: sticky, failedAt: -1}
		in := make(chan []byte)
		errc, cancel := p2p.VerifC15SendPipe(wc, in)
		sent := make([]byte, len(ps))
		sendHung := false
		stmo := time.After(10 * time.Second)
	send:
		for i, p := range ps {
			sent[i] = 'o'
			wc.inFrameFailed = false // sendPipe is idle here: the sentinel of the payload before has been reported
			select {
			case in <- p:
			case <-stmo:
				sendHung = true
				break send
			}
			sc := in
		wait:
			for {
				select {
				case sc <- sentinel:
					sc = nil
				case e := <-errc:
					if isSentinel(e) {
						break wait
					}
					sent[i] = 'e'
				case <-stmo:
					sendHung = true
					break send
				}
			}
		}
		cancel()
		wire := wc.written
		rc := &rconn{sconn: sconn{chunks: chunk(wire, csv(w[4]))}}
		got, kind, nerr, hung := runReadPipe(rc)
		res.Impl = fmt.Sprintf("sent=%s wire=%d:%d got=%s", sent, len(wire), adler32.Checksum(wire), showFrames(got, kind))
		res.Nontrivial = true
		// the property itself, judged from what was sent and what came out
		var onWire [][]byte // payloads writeTo does not refuse
		firstFail, firstEmpty := -1, -1
		for i, p := range ps {
			if len(p) > limit {
				if sent[i] != 'e' {
					res.Oracle = fmt.Sprintf("write-oversize-accepted: payload %d of %d bytes", i, len(p))
				}
				continue
			}
			if sent[i] == 'e' && firstFail < 0 {
				firstFail = len(onWire)
			}
			if len(p) == 0 && firstEmpty < 0 {
				firstEmpty = len(onWire)
			}
			onWire = append(onWire, p)
		}
		transient := !sticky && firstFail >= 0
		res.Class = "pipe-clean"
		if firstFail >= 0 {
			res.Class = "pipe-sticky-failure"
		}
		if transient {
			res.Class = "pipe-transient-failure"
		}
		lo, hi := len(onWire), len(onWire)
		if firstFail >= 0 {
			lo, hi = firstFail, firstFail+1
		}
		if firstEmpty >= 0 && firstEmpty < lo {
			lo = firstEmpty
		}
		if firstEmpty >= 0 && firstEmpty < hi {
			hi = firstEmpty
		}
		switch {
		case res.Oracle != "":
		case wc.callsAfterFail > 0:
			res.Oracle = fmt.Sprintf("write-after-error: %d Write calls of a writeTo after its failing Write", wc.callsAfterFail)
		case sendHung:
			res.Oracle = "pipe-sender-hung: sendPipe did not take the next payload for 10 s"
		case hung:
			res.Oracle = "pipe-reader-hung: readPipe neither delivered nor ended for 10 s"
		case rc.readsAfterErr > 0 || nerr > 1:
			res.Oracle = fmt.Sprintf("read-after-error: readPipe went on after a failed readFrom (%d errors reported, %d Read calls after a failed Read)", nerr, rc.readsAfterErr)
		case kind == "":
			res.Oracle = "pipe-no-error-at-end-of-stream"
		case transient:
			// outside the assumption "a failed Write is final": sendPipe goes on writing, the model says what happens
			for i, g := range got {
				if i >= len(onWire) || !bytes.Equal(g, onWire[i]) {
					res.Class = "pipe-transient-failure-bleeds"
					break
				}
			}
		default:
			for i, g := range got {
				if i >= len(onWire) || !bytes.Equal(g, onWire[i]) {
					res.Oracle = fmt.Sprintf("pipe-bleed: delivered payload %d (%s) is not the payload sent at that position", i, h.Hex(g))
					break
				}
			}
			if res.Oracle == "" && len(got) < lo {
				res.Oracle = fmt.Sprintf("pipe-lost-frame: %d payloads delivered, %d were written without an error before the first failure", len(got), lo)
			}
			if res.Oracle == "" && len(got) > hi {
				res.Oracle = fmt.Sprintf("pipe-extra-frame: %d payloads delivered, at most %d can have reached the wire", len(got), hi)
			}
		}
		return res, true
	case "rpipe":
		stream := h.UnHex(w[1])
		rc := &rconn{sconn: sconn{chunks: chunk(stream, csv(w[2]))}}
		got, kind, nerr, hung := runReadPipe(rc)
		res.Impl = "got=" + showFrames(got, kind)
		res.Class, res.Nontrivial = "rpipe-"+kind, true
		// independent parse: the leading well-formed frames of the stream
		var want [][]byte
		for s := stream; len(s) >= 4; {
			n := int(binary.BigEndian.Uint32(s))
			if n == 0 || n > limit || len(s) < 4+n {
				break
			}
			want = append(want, s[4:4+n])
			s = s[4+n:]
		}
		switch {
		case hung:
			res.Oracle = "pipe-reader-hung: readPipe neither delivered nor ended for 10 s"
		case len(got) > len(want):
			res.Oracle = fmt.Sprintf("pipe-read-past-bad-frame: %d payloads delivered (last %s), the stream holds %d well-formed frames before its first bad header or its end", len(got), h.Hex(got[len(got)-1]), len(want))
		case len(got) < len(want):
			res.Oracle = fmt.Sprintf("pipe-lost-frame: %d payloads delivered, the stream starts with %d well-formed frames", len(got), len(want))
		case rc.readsAfterErr > 0 || nerr > 1:
			res.Oracle = fmt.Sprintf("read-after-error: readPipe went on after a failed readFrom (%d errors reported, %d Read calls after a failed Read)", nerr, rc.readsAfterErr)
		case kind == "":
			res.Oracle = "pipe-no-error-at-end-of-stream"
		default:
			for i := range got {
				if !bytes.Equal(got[i], want[i]) {
					res.Oracle = fmt.Sprintf("pipe-bleed: delivered payload %d (%s) is not frame %d of the stream", i, h.Hex(got[i]), i)
					break
				}
			}
		}
		return res, true
	case "wr2":
		pa, pb := h.UnHex(w[1]), h.UnHex(w[2])
		g := &gate{order: w[5], done: map[byte]bool{}}
		g.cond = sync.NewCond(&g.mu)
		sh := &sharedWire{}
		ca := &w2side{sh: sh, g: g, id: 'a', ks: csv(w[3])}
		cb := &w2side{sh: sh, g: g, id: 'b', ks: csv(w[4])}
		var wg sync.WaitGroup
		var ea, eb error
		wg.Add(2)
		go func() { defer wg.Done(); ea = p2p.VerifWriteTo(pa, ca); g.finish('a') }()
		go func() { defer wg.Done(); eb = p2p.VerifWriteTo(pb, cb); g.finish('b') }()
		wg.Wait()
		if ea != nil || eb != nil {
			res.Impl, res.Class = "err oversize", "wr2-err"
			return res, true
		}
		rc := &sconn{chunks: [][]byte{append([]byte{}, sh.wire...)}}
		var got [][]byte
		kind := ""
		for i := 0; i < 2; i++ {
			b, err := p2p.VerifReadFrom(rc)
			if err != nil {
				kind = errKind(err)
				if kind != "size" {
					rc.chunks = nil
				}
				break
			}
			got = append(got, b)
		}
		res.Impl = fmt.Sprintf("wire=%s read=%s rest=%s", h.Hex(sh.wire), showFrames(got, kind), h.Hex(rc.rest()))
		res.Nontrivial = true
		// whole = the Writes of one writer all come before the Writes of the other
		whole, first := true, byte(0)
		if len(sh.who) > 0 {
			first = sh.who[0]
			switched := false
			for _, x := range sh.who {
				if x != first {
					switched = true
				} else if switched {
					whole = false
				}
			}
		}
		bled := !(len(got) == 2 && ((bytes.Equal(got[0], pa) && bytes.Equal(got[1], pb)) || (bytes.Equal(got[0], pb) && bytes.Equal(got[1], pa))))
		switch {
		case whole && bled:
			res.Class = "wr2-whole"
			res.Oracle = "two-writers-whole-frames-bleed: each writer's Writes were contiguous, the frames do not read back"
		case whole:
			res.Class = "wr2-whole"
			x, y := pa, pb
			if first == 'b' {
				x, y = pb, pa
			}
			if !bytes.Equal(got[0], x) || !bytes.Equal(got[1], y) {
				res.Oracle = "two-writers-order: frames read back in the other order than they were written"
			}
		case bled:
			res.Class = "wr2-interleaved-bleeds" // the single-writer assumption is needed: not a finding, no writer shares a connection
		default:
			res.Class = "wr2-interleaved-reads-back"
		}
		return res, true
	}
	return res, false
}

// two writers, one wire: each writeTo gets its own net.Conn value (so that the transport can tell the
// callers apart and follow a script per caller); both append to the same byte stream
type sharedWire struct {
	mu   sync.Mutex
	wire []byte
	who  []byte
}

type w2side struct {
	sconn
	sh *sharedWire
	g  *gate
	id byte
	ks []int
	i  int
}

func (c *w2side) Write(b []byte) (int, error) {
	c.g.enter(c.id)
	n := len(b)
	if c.i < len(c.ks) {
		if c.ks[c.i] < n {
			n = c.ks[c.i]
		}
		c.i++
	}
	c.sh.mu.Lock()
	c.sh.wire = append(c.sh.wire, b[:n]...)
	c.sh.who = append(c.sh.who, c.id)
	c.sh.mu.Unlock()
	c.g.leave(c.id)
	return n, nil
}

var _ io.Writer = (*w2side)(nil)

func genX(tier string, rng *h.Rng, emit func(string)) {
	thorough := tier == "thorough"
	// wrx: a failing Write, or one that returns (0, nil), at EVERY position of short frames
	for _, n := range []int{1, 2, 3, 5} {
		total := 4 + n
		for pos := 0; pos <= total; pos++ {
			pre := make([]wact, pos)
			for i := range pre {
				pre[i] = wact{1, false}
			}
			for _, last := range []wact{{0, true}, {1, true}, {total, true}, {0, false}} {
				emit(fmt.Sprintf("wrx %d %d %d %s", n, 1+rng.Intn(250), rng.Intn(256), scriptOf(append(append([]wact{}, pre...), last))))
			}
			// the rest in two short writes with a nil error, zero-byte Writes in between
			emit(fmt.Sprintf("wrx %d %d %d %s", n, 1+rng.Intn(250), rng.Intn(256), scriptOf(append(append([]wact{}, pre...), wact{0, false}, wact{2, false}, wact{0, false}, wact{0, false}, wact{1, false}))))
		}
	}
	lens := []int{1, 4, 16, 255, 256, 4096, 65537, limit - 1, limit}
	if thorough {
		for k := 1; k <= 20; k++ {
			lens = append(lens, 1<<uint(k)+1)
		}
	}
	for _, n := range lens {
		for j, reps := 0, 6; j < reps; j++ {
			var as []wact
			for i, m := 0, 1+rng.Intn(8); i < m; i++ {
				k := []int{0, 0, 1, 2, 3, 4, 5, rng.Intn(n + 6), n, n + 3, n + 4, n + 5}[rng.Intn(12)]
				as = append(as, wact{k, false})
			}
			if j%2 == 1 {
				as = append(as, wact{[]int{0, 1, 4, n + 4}[rng.Intn(4)], true})
			}
			emit(fmt.Sprintf("wrx %d %d %d %s", n, 1+rng.Intn(250), rng.Intn(256), scriptOf(as)))
		}
	}
	emit(fmt.Sprintf("wrx %d 3 1 e0", limit+1))
	emit(fmt.Sprintf("wrx %d 3 1 0,0,4", limit+1))
	emit("wrx 0 1 1 0,2,0,2")
	// rdzm: the rdz scripts (Reads that return (0, nil)) against the step machine of the model
	for _, n := range []int{1, 2, 5, 9, 17} {
		p := rng.Bytes(n)
		s := append(frame(p), rng.Bytes(rng.Intn(4))...)
		emit(fmt.Sprintf("rdzm %s 0,1", h.Hex(s)))
		emit(fmt.Sprintf("rdzm %s 0,0,3,0", h.Hex(s)))
		emit(fmt.Sprintf("rdzm %s 4,0,%d,0", h.Hex(s), n))
		emit(fmt.Sprintf("rdzm %s 0,2,0,2,0,1", h.Hex(s[:len(s)/2])))
		emit(fmt.Sprintf("rdzm %s 0,0,0,%d", h.Hex(s), len(s)))
	}
	// pipe: sendPipe on one end, readPipe on the other
	emit("pipe 0 0709;05 e5 -")   // a Write fails after 5 bytes and the next Write works: the next frame is mis-read
	emit("pipe 1 0709;05 e5 -")   // the same on a transport whose failure is final
	emit("pipe 1 0709;05 5,e1 1") // the failing Write takes the last byte of the frame
	emit("pipe 1 0709;-;05 - 3")  // an empty payload is written as a zero header: the reader stops there
	emit(fmt.Sprintf("pipe 1 0709;z%d;05 - 2", limit+1))
	emit(fmt.Sprintf("pipe 1 z%d;0709 e0 2", limit+1))
	{
		// a failing Write at every byte position of three frames, final and transient
		ps := [][]byte{rng.Bytes(2), rng.Bytes(1), rng.Bytes(3)}
		total := 0
		var toks []string
		for _, p := range ps {
			total += 4 + len(p)
			toks = append(toks, h.Hex(p))
		}
		for pos := 0; pos <= total; pos++ {
			pre := make([]wact, pos)
			for i := range pre {
				pre[i] = wact{1, false}
			}
			for _, st := range []int{1, 0} {
				emit(fmt.Sprintf("pipe %d %s %s %s", st, strings.Join(toks, ";"), scriptOf(append(append([]wact{}, pre...), wact{rng.Intn(2), true})), csvOf([]int{1 + rng.Intn(4)})))
			}
		}
	}
	np := 60
	if thorough {
		np = 1500
	}
	for i := 0; i < np; i++ {
		var toks []string
		for j, k := 0, 1+rng.Intn(6); j < k; j++ {
			switch rng.Intn(14) {
			case 0:
				toks = append(toks, "-")
			case 1:
				toks = append(toks, fmt.Sprintf("z%d", limit+1+rng.Intn(3)))
			default:
				toks = append(toks, h.Hex(rng.Bytes(1+rng.Intn(7))))
			}
		}
		var as []wact
		for j, m := 0, rng.Intn(12); j < m; j++ {
			as = append(as, wact{rng.Intn(7), rng.Intn(6) == 0})
		}
		st := 1
		if rng.Intn(4) == 0 {
			st = 0
		}
		sz := []int{1 + rng.Intn(5), 1 + rng.Intn(9)}
		emit(fmt.Sprintf("pipe %d %s %s %s", st, strings.Join(toks, ";"), scriptOf(as), csvOf(sz)))
	}
	// rpipe: readPipe on streams with a bad header in the middle: nothing after it may be delivered
	emit("rpipe 000000020709002000000000000141 -") // [7 9], a 2 MiB header, then bytes that look like the frame "A"
	emit("rpipe 0000000207090000000000000001410000000142 3")
	nrp := 40
	if thorough {
		nrp = 1000
	}
	for i := 0; i < nrp; i++ {
		var s []byte
		for j, k := 0, rng.Intn(4); j < k; j++ {
			s = append(s, frame(rng.Bytes(1+rng.Intn(6)))...)
		}
		switch rng.Intn(4) {
		case 0:
			s = append(s, 0, 0, 0, 0)
		case 1:
			s = append(s, []byte{0, byte(0x10 + rng.Intn(0xe0)), byte(rng.Intn(256)), byte(1 + rng.Intn(255))}...)
		case 2:
			s = append(s, []byte{byte(1 + rng.Intn(255)), 0, 0, byte(rng.Intn(3))}...)
		}
		for j, k := 0, rng.Intn(4); j < k; j++ {
			s = append(s, frame(rng.Bytes(1+rng.Intn(6)))...)
		}
		if rng.Intn(5) == 0 && len(s) > 0 {
			s = s[:len(s)-1]
		}
		emit(fmt.Sprintf("rpipe %s %s", h.Hex(s), csvOf([]int{1 + rng.Intn(6), 1 + rng.Intn(9)})))
	}
	// wr2: two goroutines call writeTo on one connection
	emit("wr2 0709 05 4 - ab" + strings.Repeat("a", 8) + strings.Repeat("b", 8)) // A's header, B's whole frame, A's payload
	nw := 40
	if thorough {
		nw = 600
	}
	for i := 0; i < nw; i++ {
		pa, pb := rng.Bytes(1+rng.Intn(5)), rng.Bytes(1+rng.Intn(5))
		var ka, kb []int
		if rng.Intn(3) > 0 {
			for j, m := 0, 1+rng.Intn(3); j < m; j++ {
				ka = append(ka, 1+rng.Intn(5))
			}
		}
		if rng.Intn(3) > 0 {
			for j, m := 0, 1+rng.Intn(3); j < m; j++ {
				kb = append(kb, 1+rng.Intn(5))
			}
		}
		var order []byte
		for j, m := 0, rng.Intn(6); j < m; j++ {
			order = append(order, "ab"[rng.Intn(2)])
		}
		tail := strings.Repeat("a", 12) + strings.Repeat("b", 12)
		if rng.Intn(2) == 0 {
			tail = strings.Repeat("b", 12) + strings.Repeat("a", 12)
		}
		emit(fmt.Sprintf("wr2 %s %s %s %s %s", h.Hex(pa), h.Hex(pb), csvOf(ka), csvOf(kb), string(order)+tail))
	}
}

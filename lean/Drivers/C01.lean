import DosModel.Model.Util
-- stub: no model driver for this property yet
def main : IO Unit := Dos.lineLoop (fun _ => "unimplemented")

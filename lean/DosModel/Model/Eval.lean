/-
C07, round 4 — evaluation of a URL query as a machine, so that "repeated and concurrent
evaluation" has a meaning in the model.

`dataParse` (dosnode/dos_stages.go) dispatches on the first byte of the selector and hands the
document to one of two EXTERNAL engines (ajson / xmlquery: parameters, `Engines`); the XPath branch
then appends the selected nodes one by one.  `genQueryResult` appends the submitter address.
`queryResult` is the one-shot function; `step` cuts one evaluation at its statements (dispatch +
engine call, one loop iteration per selected node, append submitter).  Several evaluations in
flight on one node are a list of such machines and a schedule that says whose turn it is
(`runSched`): each machine owns its state and there is NO state outside the machines – that is
what the regenerated facts `Gen.PkgVars.dosnode = []` and the statement skeleton of `dataParse`
(no package-level identifier referred to) say about the code, and what the `cq` cases of the
correspondence run test (G goroutines released on a barrier, every result compared with the
sequential reference).

Also: the group table of share/dkg/pedersen/pdkg.go as far as the member list is concerned
(`Book`): how the list announced in LogGrouping is stored, looked up and dropped.
Core Lean only.
-/
import DosModel.Model.Content

namespace Dos.Eval
open Dos Dos.Content

/-- what `dataParse` returns: bytes, or an error (`err` includes a recovered engine panic since
/repo eecdd6b; `panic` is kept for a panic that escapes, which the harness would record) -/
inductive Parsed where
  | ok (b : Bytes)
  | err
  | panic
  deriving DecidableEq, Repr

/-- the external selector engines.
`json doc sel` = `ajson.JSONPath` + `Unpack` of every node + `json.Marshal`;
`xml doc sel`  = `xmlquery.Parse` + `xmlquery.Find`: `OutputXML(false)` of the selected nodes in
document order, or an error (document does not parse, selector does not compile, recovered panic). -/
inductive XmlOut where
  | nodes (ns : List Bytes)
  | err
  | panic
  deriving DecidableEq, Repr

structure Engines where
  json : Bytes → Bytes → Parsed
  xml : Bytes → Bytes → XmlOut

/-- `for _, xmlNode := range xmlNodes { msg = append(msg, OutputXML...); msg = append(msg, "\n"...) }` -/
def xmlJoin : List Bytes → Bytes
  | [] => []
  | n :: ns => n ++ [10] ++ xmlJoin ns

/-! ### the nesting guard (/repo 14409e8)

`jsonDepthExceeds(rawMsg, maxDocumentDepth)` is repository code over the raw bytes and is transcribed
here statement by statement (`Gen.DosnodeFlow.jsonDepthExceeds`, pinned by `c07_depth_guard_shape`).
`xmlDepthExceeds` walks the tree `xmlquery.Parse` built – a third-party structure: its verdict is part
of the XML engine parameter (`Engines.xml … = .err` for a tree deeper than the bound); the `depth`
cases of the correspondence run check both at 1000 / 1001 levels. -/

def maxDocumentDepth : Nat := 1000

/-- the loop state of `jsonDepthExceeds`: `depth, inString, escaped`, and `over` = `return true` taken -/
structure JScan where
  depth : Nat
  inString : Bool
  escaped : Bool
  over : Bool
  deriving DecidableEq, Repr

/-- one iteration of `for _, c := range b` -/
def jsonScanStep (max : Nat) (s : JScan) (c : UInt8) : JScan :=
  if s.over then s
  else if s.inString then
    if s.escaped then { s with escaped := false }
    else if c = 0x5c then { s with escaped := true }
    else if c = 0x22 then { s with inString := false }
    else s
  else if c = 0x22 then { s with inString := true }
  else if c = 0x5b ∨ c = 0x7b then
    if max < s.depth + 1 then { s with depth := s.depth + 1, over := true } else { s with depth := s.depth + 1 }
  else if c = 0x5d ∨ c = 0x7d then { s with depth := s.depth - 1 }   -- `if depth > 0 { depth-- }`
  else s

def jsonDepthExceeds (b : Bytes) (max : Nat) : Bool :=
  (b.foldl (jsonScanStep max) { depth := 0, inString := false, escaped := false, over := false }).over

/-- the `$` branch of `dataParse`: the guard, then the JSON engine -/
def jsonBranch (E : Engines) (doc sel : Bytes) : Parsed :=
  if jsonDepthExceeds doc maxDocumentDepth then .err else E.json doc sel

/-- `dataParse`: empty selector → the document itself; `$…` → nesting guard, JSON engine; `/…` → XML
engine (its nesting guard included); anything else → `(nil, nil)`: an empty result. -/
def dataParse (E : Engines) (doc sel : Bytes) : Parsed :=
  match sel with
  | [] => .ok doc
  | c :: _ =>
    if c = 0x24 then jsonBranch E doc sel
    else if c = 0x2f then
      match E.xml doc sel with
      | .nodes ns => .ok (xmlJoin ns)
      | .err => .err
      | .panic => .panic
    else .ok []

/-! ### what `dataParse` does with the engines' results (round 5, task 3b)

Finer engine parameters, so that only `ajson.JSONPath` (+ the serialisation of ONE selected value) and
`xmlquery.Parse` + `xmlquery.Find` (+ `OutputXML` of ONE selected node) stay outside the model:

* JSON: `nodes, err = ajson.JSONPath(rawMsg, pathStr)`; then for every node IN THE ORDER OF THE RESULT
  `value, err = node.Unpack()` (the first failure ends the evaluation with an error), `results =
  append(results, value)`, and `json.Marshal(results)` of the list (never nil: `make([]interface{}, 0)`):
  `[` + the elements' encodings separated by `,` + `]` – `[]` when nothing was selected;
* XML: for every node in the order of `Find`'s result `OutputXML(false)` followed by a line feed
  (`xmlJoin`, above). -/

/-- `ajson.JSONPath` and, per selected node in result order, the `encoding/json` text of its
`Unpack()`ed value (`none` = `Unpack` fails) -/
inductive JsonOut where
  | nodes (vs : List (Option Bytes))
  | err
  | panic
  deriving DecidableEq, Repr

/-- `json.Marshal` of a list: the elements' encodings separated by commas -/
def jsonJoin : List Bytes → Bytes
  | [] => []
  | [v] => v
  | v :: w :: vs => v ++ [0x2c] ++ jsonJoin (w :: vs)

/-- the `for _, node := range nodes { value, err = node.Unpack(); if err != nil { return } … }` loop -/
def unpackAll : List (Option Bytes) → Option (List Bytes)
  | [] => some []
  | none :: _ => none
  | some v :: rest => (unpackAll rest).map (fun l => v :: l)

def jsonAssemble : JsonOut → Parsed
  | .nodes vs =>
    match unpackAll vs with
    | some l => .ok ([0x5b] ++ jsonJoin l ++ [0x5d])
    | none => .err
  | .err => .err
  | .panic => .panic

structure Engines2 where
  jsonNodes : Bytes → Bytes → JsonOut
  xml : Bytes → Bytes → XmlOut

/-- the engines of the sections above, with the JSON post-processing of `dataParse` spelled out -/
def Engines2.toEngines (E : Engines2) : Engines :=
  { json := fun d s => jsonAssemble (E.jsonNodes d s), xml := E.xml }

/-- one URL query at one node: the fetched document, the selector, the submitter address -/
structure Req where
  doc : Bytes
  sel : Bytes
  addr : Bytes
  deriving DecidableEq, Repr

/-- `genQueryResult` in one go: `none` = an error is reported and nothing is signed -/
def queryResult (E : Engines) (r : Req) : Option Bytes :=
  match dataParse E r.doc r.sel with
  | .ok p => some (queryContent p r.addr)
  | _ => none

/-! ### the same, cut at its statements -/

inductive Pc where
  | start
  | xmlLoop (rest : List Bytes) (acc : Bytes)
  | parsed (p : Bytes)
  | done (out : Option Bytes)
  deriving DecidableEq, Repr

structure Ev where
  req : Req
  pc : Pc
  deriving DecidableEq, Repr

def init (r : Req) : Ev := { req := r, pc := .start }

def step (E : Engines) (e : Ev) : Ev :=
  match e.pc with
  | .start =>
    match e.req.sel with
    | [] => { e with pc := .parsed e.req.doc }
    | c :: _ =>
      if c = 0x24 then
        match jsonBranch E e.req.doc e.req.sel with
        | .ok p => { e with pc := .parsed p }
        | _ => { e with pc := .done none }
      else if c = 0x2f then
        match E.xml e.req.doc e.req.sel with
        | .nodes ns => { e with pc := .xmlLoop ns [] }
        | _ => { e with pc := .done none }
      else { e with pc := .parsed [] }
  | .xmlLoop [] acc => { e with pc := .parsed acc }
  | .xmlLoop (n :: ns) acc => { e with pc := .xmlLoop ns (acc ++ n ++ [10]) }
  | .parsed p => { e with pc := .done (some (queryContent p e.req.addr)) }
  | .done o => { e with pc := .done o }

def iter (E : Engines) : Nat → Ev → Ev
  | 0, e => e
  | k + 1, e => iter E k (step E e)

/-- the result of a finished evaluation -/
def result (e : Ev) : Option (Option Bytes) :=
  match e.pc with
  | .done o => some o
  | _ => none

/-- enough turns for one evaluation of `r` to finish: dispatch, one per selected node, end of loop,
append, (and any more change nothing) -/
def turns (E : Engines) (r : Req) : Nat :=
  match r.sel with
  | [] => 2
  | c :: _ =>
    if c = 0x2f then
      match E.xml r.doc r.sel with
      | .nodes ns => ns.length + 3
      | _ => 2
    else 2

/-! ### several evaluations in flight -/

/-- machine `i` takes one step; an index outside the list is an idle turn -/
def stepAt (E : Engines) (i : Nat) : List Ev → List Ev
  | [] => []
  | e :: es =>
    match i with
    | 0 => step E e :: es
    | j + 1 => e :: stepAt E j es

/-- a schedule: whose turn it is, turn after turn (ANY list: unfair, bursty, idle turns) -/
def runSched (E : Engines) (sch : List Nat) (es : List Ev) : List Ev :=
  sch.foldl (fun g i => stepAt E i g) es

/-- evaluations one after the other (a history of requests handled by one node) -/
def runHistory (E : Engines) (rs : List Req) : List (Option Bytes) := rs.map (queryResult E)

/-! ### the group table (share/dkg/pedersen/pdkg.go: `groups sync.Map`, key = group id text) -/

/-- `group.participants` per group id, in insertion order -/
abbrev Book := List (Nat × List Bytes)

def Book.ids (b : Book) (gid : Nat) : Option (List Bytes) :=
  match b with
  | [] => none
  | (g, l) :: rest => if g = gid then some l else Book.ids rest gid

inductive Op where
  /-- `LogGrouping{GroupId, NodeId}` → `go d.handleGrouping(content.NodeId, groupID)` -/
  | grouping (gid : Nat) (nodeIds : List Bytes)
  /-- `d.dkg.GroupDissolve(groupID)` → `d.groups.Delete(groupId)` -/
  | dissolve (gid : Nat)
  deriving DecidableEq, Repr

/-- `handleGrouping`: not a member of the announced list → nothing; else `dkg.Grouping`:
`group := &group{participants: groupIds}`, `LoadOrStore(sessionID, group)`: an id that is already
in the table keeps its entry ("duplicate" error).  The list is stored AS ANNOUNCED. -/
def Book.apply (me : Bytes) (b : Book) : Op → Book
  | .grouping gid ids =>
    if me ∈ ids then
      match Book.ids b gid with
      | some _ => b
      | none => b ++ [(gid, ids)]
    else b
  | .dissolve gid => b.filter (fun p => p.1 ≠ gid)

def Book.run (me : Bytes) (ops : List Op) : Book := ops.foldl (Book.apply me) []

/-- `groupInfo` + `choseSubmitter`: the submitter a node computes for a request of group `gid`
with last randomness `r`; `none` = no such group / empty list ("No Group info": event ignored) -/
def Book.submitterOf (b : Book) (gid r : Nat) : Option Bytes :=
  match Book.ids b gid with
  | none => none
  | some ids => submitter ids r

/-! ### the node around the group table (dosnode/dos_chain_handler.go, round 5 / review H #6)

`Book.apply (.dissolve g)` is `pdkg.GroupDissolve` itself.  The NODE calls it only when it holds a
share for the group: `case *onchain.LogGroupDissolve: if d.isMember(groupID) { d.dkg.GroupDissolve(groupID) }`
with `isMember = d.dkg.GetShareSecurity(groupID) != nil`; and a request event is handled only under
the same test.  A share exists once the key generation of the entry is certified (`genGroup`,
pdkg_pipes.go: `group.secShare = secShare`). -/

structure NodeSt where
  book : Book
  shares : List Nat          -- group ids whose entry holds a share (`GetShareSecurity != nil`)
  deriving Repr

def NodeSt.init : NodeSt := { book := [], shares := [] }

inductive NodeOp where
  /-- `LogGrouping` → `handleGrouping` → `pdkg.Grouping` (the bookkeeping part) -/
  | grouping (gid : Nat) (nodeIds : List Bytes)
  /-- the key generation of the CURRENT entry of `gid` is certified: the entry now holds a share -/
  | certified (gid : Nat)
  /-- `LogGroupDissolve`: `if d.isMember(groupID) { d.dkg.GroupDissolve(groupID) }` -/
  | dissolve (gid : Nat)
  deriving DecidableEq, Repr

def NodeSt.apply (me : Bytes) (st : NodeSt) : NodeOp → NodeSt
  | .grouping gid ids => { st with book := Book.apply me st.book (.grouping gid ids) }
  | .certified gid =>
    match Book.ids st.book gid with
    | some _ => if gid ∈ st.shares then st else { st with shares := gid :: st.shares }
    | none => st
  | .dissolve gid =>
    if gid ∈ st.shares then
      { book := Book.apply me st.book (.dissolve gid), shares := st.shares.filter (fun g => g ≠ gid) }
    else st      -- no share: the entry – if any – STAYS (and a re-announcement of the id is refused)

def NodeSt.run (me : Bytes) (ops : List NodeOp) : NodeSt := ops.foldl (NodeSt.apply me) NodeSt.init

/-- a request event of group `gid`: `isMember(gid)`, `groupInfo(gid)`, then `choseSubmitter`;
`none` = the event is ignored (no share, or "No Group info") -/
def NodeSt.submitterOf (st : NodeSt) (gid r : Nat) : Option Bytes :=
  if gid ∈ st.shares then Book.submitterOf st.book gid r else none

/-! ### line protocol (driver) -/

def parsedOfTok (s : String) : Option Parsed :=
  if s == "err" then some .err else if s == "panic" then some .panic else (ofHex s).map .ok

/-- the node outputs of a recorded XPath result: the pieces terminated by a line feed (what the
loop of `dataParse` appended; a last piece without terminator is not something the loop produces and
is dropped, which then shows as a disagreement) -/
def splitNodes (p : Bytes) : List Bytes :=
  let rec go : Bytes → Bytes → List Bytes
    | [], _ => []
    | b :: rest, cur => if b = 10 then cur.reverse :: go rest [] else go rest (b :: cur)
  go p []

/-- the elements of a recorded JSON result `[e1,e2,…]`: split at the commas of the outer array
(strings and nested arrays / objects are skipped over); `none` = not of that form (the JSON branch of
`dataParse` cannot have produced it: shows as a disagreement) -/
def splitJsonArray (b : Bytes) : Option (List Bytes) :=
  match b with
  | 0x5b :: rest =>
    let rec go : Bytes → Nat → Bool → Bool → Bytes → List Bytes → Option (List Bytes)
      | [], _, _, _, _, _ => none
      | c :: cs, depth, inStr, esc, cur, acc =>
        if inStr then
          if esc then go cs depth true false (c :: cur) acc
          else if c = 0x5c then go cs depth true true (c :: cur) acc
          else if c = 0x22 then go cs depth false false (c :: cur) acc
          else go cs depth true false (c :: cur) acc
        else if c = 0x22 then go cs depth true false (c :: cur) acc
        else if c = 0x5b ∨ c = 0x7b then go cs (depth + 1) false false (c :: cur) acc
        else if c = 0x7d then go cs (depth - 1) false false (c :: cur) acc
        else if c = 0x5d then
          if depth = 0 then
            (if cs.isEmpty then some (if cur.isEmpty ∧ acc.isEmpty then [] else (cur.reverse :: acc).reverse) else none)
          else go cs (depth - 1) false false (c :: cur) acc
        else if c = 0x2c ∧ depth = 0 then go cs 0 false false [] (cur.reverse :: acc)
        else go cs depth false false (c :: cur) acc
    go rest 0 false false [] []
  | _ => none

/-- the engines of a case line: what the harness observed for this (doc, sel) when the case was
generated, cut into the engine's per-node results.  The dispatch of `dataParse` (empty selector, `$`,
`/`, other), the nesting guard, the assembly of the JSON array, the node loop of the XPath branch and
the final append are the model's. -/
def recordedEngines2 (p : Parsed) : Engines2 :=
  { jsonNodes := fun _ _ => match p with
      | .ok b =>
        match splitJsonArray b with
        | some es => .nodes (es.map some)
        | none => .nodes [some (0x3f :: b)]     -- not an array: the assembly will not reproduce it
      | .err => .err
      | .panic => .panic,
    xml := fun _ _ => match p with
      | .ok b => .nodes (splitNodes b)
      | .err => .err
      | .panic => .panic }

/-- the engines of a case line, coarse form: the JSON array is re-assembled element by element by
`jsonAssemble`, the XPath result node by node by `xmlJoin` -/
def recordedEngines (p : Parsed) : Engines := (recordedEngines2 p).toEngines

def showContent (E : Engines) (r : Req) : String :=
  match dataParse E r.doc r.sel with
  | .ok p => toHex (queryContent p r.addr)
  | .err => "err parse"
  | .panic => "panic parse"

def parseOps (s : String) : Option (List Op) :=
  if s == "-" then some [] else
  (s.splitOn ",").mapM (fun t =>
    match t.splitOn ":" with
    | ["D", g] => g.toNat?.map Op.dissolve
    | ["G", g, ids] => do
      let g ← g.toNat?
      let l ← if ids == "-" then some [] else (ids.splitOn ";").mapM ofHex
      pure (Op.grouping g l)
    | _ => none)

/-- `path` line: the content of one request kind through `genSign`, `recoverSign` (strip) and
`reportQueryResult` (which adaptor call): `rand <result>` / `data <result>` / `skipped` -/
def showPath (addrLen : Nat) (sys : Bool) (content : Bytes) : String :=
  match stripResult addrLen content with
  | .ok res => (if sys then "rand " else "data ") ++ toHex res
  | .tooShort => "skipped"

def stepLine (padSize addrLen : Nat) (line : String) : Option String :=
  match words line with
  | ["path", "sys", r, a] =>
    match r.toNat?, ofHex a with
    | some r, some a => some (showPath addrLen true (sysContent padSize r a))
    | _, _ => some "bad-op"
  | ["path", "user", q, r, sd, a] =>
    match q.toNat?, r.toNat?, sd.toNat?, ofHex a with
    | some q, some r, some sd, some a => some (showPath addrLen false (userContent q r sd a))
    | _, _, _, _ => some "bad-op"
  | ["path", "url", d, a] =>
    match ofHex d, ofHex a with
    | some d, some a =>
      match dataParse (recordedEngines .err) d [] with
      | .ok p => some (showPath addrLen false (queryContent p a))
      | _ => some "bad-op"
    | _, _ => some "bad-op"
  -- query <kind> <parsed|err|panic> <addr> <doc> <selector>
  | ["query", _, p, a, d, s] =>
    match parsedOfTok p, ofHex a, ofHex d, ofHex s with
    | some p, some a, some d, some s => some (showContent (recordedEngines p) { doc := d, sel := s, addr := a })
    | _, _, _, _ => some "bad-op"
  -- cq <mode> <G> <N> <addr> <doc1> <sel1> <ref1> <doc2> <sel2> <ref2>
  | ["cq", _, _, _, a, d1, s1, r1, d2, s2, r2] =>
    match ofHex a, ofHex d1, ofHex s1, parsedOfTok r1 with
    | some a, some d1, some s1, some p1 =>
      let c1 := showContent (recordedEngines p1) { doc := d1, sel := s1, addr := a }
      if d2 == "." then some c1 else
      match ofHex d2, ofHex s2, parsedOfTok r2 with
      | some d2, some s2, some p2 =>
        some (c1 ++ " | " ++ showContent (recordedEngines p2) { doc := d2, sel := s2, addr := a })
      | _, _, _ => some "bad-op"
    | _, _, _, _ => some "bad-op"
  -- subm <lastRand> <id;id;…>
  | ["subm", r, ids] =>
    match r.toNat?, (if ids == "-" then some [] else (ids.splitOn ";").mapM ofHex) with
    | some r, some ids =>
      match submitter ids r with
      | some id => some ("id " ++ toHex id)
      | none => some "panic div0"
    | _, _ => some "bad-op"
  -- grp <me> <ops> <gid> <lastRand>
  | ["grp", me, ops, gid, r] =>
    match ofHex me, parseOps ops, gid.toNat?, r.toNat? with
    | some me, some ops, some gid, some r =>
      -- the node's view: no key generation completes in a `grp` case (block time 0), so no share is
      -- ever held and a dissolve event deletes nothing
      let nops : List NodeOp := ops.map (fun o => match o with
        | .grouping g l => NodeOp.grouping g l
        | .dissolve g => NodeOp.dissolve g)
      let b := (NodeSt.run me nops).book
      match Book.ids b gid with
      | none => some "nogroup"
      | some [] => some "nogroup"
      | some ids =>
        match submitter ids r with
        | some id => some (s!"n={ids.length} id " ++ toHex id)
        | none => some "panic div0"
    | _, _, _, _ => some "bad-op"
  | _ => none

end Dos.Eval

package bn256code

import (
	"fmt"
	"strings"
)

// ---------------------------------------------------------------------------
// Go types of the package that the translator knows, and their Lean images.
// The struct declarations are READ from the Go files and compared with this
// table (field names, order and types), so a changed layout is an extraction error.
// ---------------------------------------------------------------------------

type fieldInfo struct{ name, typ string }

var expectedStructs = map[string][]fieldInfo{
	"gfP2":       {{"x", "gfP"}, {"y", "gfP"}},
	"gfP6":       {{"x", "gfP2"}, {"y", "gfP2"}, {"z", "gfP2"}},
	"gfP12":      {{"x", "gfP6"}, {"y", "gfP6"}},
	"curvePoint": {{"x", "gfP"}, {"y", "gfP"}, {"z", "gfP"}, {"t", "gfP"}},
	"twistPoint": {{"x", "gfP2"}, {"y", "gfP2"}, {"z", "gfP2"}, {"t", "gfP2"}},
}

// wrappers: the kyber-level point types of point.go are one-field structs around a pointer to the
// curve / tower value (`type pointG1 struct{ g *curvePoint }`; newPointGx allocates a fresh value for
// every wrapper and no method ever re-points `g` in the translated functions), so the translator
// identifies a *pointGx with the object its `g` points to.
var wrappers = map[string]string{"pointG1": "curvePoint", "pointG2": "twistPoint", "pointGT": "gfP12"}

func isWrapper(t string) bool { _, ok := wrappers[t]; return ok }

// under: the type of the object a pointer of (pointee) type t denotes
func under(t string) string {
	if u, ok := wrappers[t]; ok {
		return u
	}
	return t
}

// leanType: the Lean image of a Go type (the structures are the ones of the hand model,
// Model/Bn256Tower.lean and Model/Bn256Curve.lean: only the DATA is shared)
func leanType(t string) string {
	t = under(t)
	switch t {
	case "gfP":
		return "α"
	case "gfP2":
		return "Fp2 α"
	case "gfP6":
		return "Fp6 α"
	case "gfP12":
		return "Fp12 α"
	case "curvePoint":
		return "Jac α"
	case "twistPoint":
		return "Jac (Fp2 α)"
	case "bool":
		return "Bool"
	case "nat":
		return "Nat"
	case "int":
		return "Int"
	}
	return "UNKNOWN_TYPE_" + t
}

func isStruct(t string) bool { _, ok := expectedStructs[t]; return ok }

func fieldIndex(t, f string) int {
	for i, fi := range expectedStructs[t] {
		if fi.name == f {
			return i
		}
	}
	return -1
}

// ---------------------------------------------------------------------------
// Lean terms
// ---------------------------------------------------------------------------

// E is a Lean term. Arguments of operations are always atoms (variables, projections,
// constants, 0, 1) or anonymous constructors of atoms: every operation result is let-bound.
type E struct {
	K string // param var global proj zero one app mk deceq not and or bool testbit tproj tuple fold natadd
	//             rawlit (gfP{w0,…} literal: Args = the words) word (word I of a gfP) ofwords intlit intneg inttonat intge0 listlen
	Name string // variable / function / field name
	Args []*E
	Typ  string // Go type name (gfP, gfP2, …, bool, nat) or tuple type text
	Sub  *prog  // fold: body of the step function
	N, I int    // tproj: component I of N
	Bind []bind2
}

// bind2: binder of a fold step function
type bind2 struct{ name, typ string }

func eParam(name, typ string) *E { return &E{K: "param", Name: name, Typ: typ} }
func eVar(name, typ string) *E   { return &E{K: "var", Name: name, Typ: typ} }
func eZero() *E                  { return &E{K: "zero", Typ: "gfP"} }
func eOne() *E                   { return &E{K: "one", Typ: "gfP"} }

func sameE(a, b *E) bool {
	if a == b {
		return true
	}
	if a == nil || b == nil || a.K != b.K || a.Name != b.Name || len(a.Args) != len(b.Args) || a.N != b.N || a.I != b.I {
		return false
	}
	for i := range a.Args {
		if !sameE(a.Args[i], b.Args[i]) {
			return false
		}
	}
	return true
}

// ---------------------------------------------------------------------------
// Value trees: the current content of an object, as an expression over the inputs
// ---------------------------------------------------------------------------

// V is immutable (updates copy the spine), so forking a state copies only the object map.
type V struct {
	typ    string
	atom   *E   // the whole value is this term …
	fields []*V // … or it is given field by field
	words  []*E // … or (gfP only) word by word: gfp.go indexes the four uint64 limbs
}

// wordOf: limb j of a gfP value
func (v *V) wordOf(j int) *E {
	if v.words != nil {
		return v.words[j]
	}
	return &E{K: "word", Args: []*E{v.atom}, I: j, Typ: "word"}
}

// withWord: the gfP value with limb j replaced
func (v *V) withWord(j int, w *E) *V {
	r := &V{typ: "gfP"}
	for i := 0; i < 4; i++ {
		if i == j {
			r.words = append(r.words, w)
		} else {
			r.words = append(r.words, v.wordOf(i))
		}
	}
	return r
}

func atomV(e *E) *V { return &V{typ: e.Typ, atom: e} }

func zeroV(t string) *V {
	if t == "gfP" {
		return atomV(eZero())
	}
	v := &V{typ: t}
	for _, f := range expectedStructs[t] {
		v.fields = append(v.fields, zeroV(f.typ))
	}
	return v
}

func (v *V) field(i int) *V {
	if v.fields != nil {
		return v.fields[i]
	}
	f := expectedStructs[v.typ][i]
	return atomV(&E{K: "proj", Name: f.name, Args: []*E{v.atom}, Typ: f.typ})
}

func (v *V) get(path []int) *V {
	for _, i := range path {
		v = v.field(i)
	}
	return v
}

func (v *V) set(path []int, nv *V) *V {
	if len(path) == 0 {
		return nv
	}
	r := &V{typ: v.typ}
	for i := range expectedStructs[v.typ] {
		if i == path[0] {
			r.fields = append(r.fields, v.field(i).set(path[1:], nv))
		} else {
			r.fields = append(r.fields, v.field(i))
		}
	}
	return r
}

// norm: eta-collapse ⟨X.x, X.y⟩ to X (Lean structures have definitional eta, this is readability only)
func (v *V) norm() *V {
	if v.words != nil {
		// an array whose four limbs are limbs 0..3 of one value IS that value
		var base *E
		for i, w := range v.words {
			if w.K != "word" || w.I != i || (base != nil && !sameE(base, w.Args[0])) {
				return v
			}
			base = w.Args[0]
		}
		return atomV(base)
	}
	if v.fields == nil {
		return v
	}
	r := &V{typ: v.typ}
	var base *E
	ok := true
	for i, f := range v.fields {
		nf := f.norm()
		r.fields = append(r.fields, nf)
		if nf.atom == nil || nf.atom.K != "proj" || nf.atom.Name != expectedStructs[v.typ][i].name || nf.atom.Args[0].Typ != v.typ {
			ok = false
			continue
		}
		if base == nil {
			base = nf.atom.Args[0]
		} else if !sameE(base, nf.atom.Args[0]) {
			ok = false
		}
	}
	if ok && base != nil {
		return atomV(base)
	}
	return r
}

func (v *V) toE() *E {
	v = v.norm()
	if v.atom != nil {
		return v.atom
	}
	if v.words != nil {
		return &E{K: "ofwords", Args: v.words, Typ: "gfP"}
	}
	e := &E{K: "mk", Typ: v.typ}
	for _, f := range v.fields {
		e.Args = append(e.Args, f.toE())
	}
	return e
}

// ---------------------------------------------------------------------------
// Programs: let-chains ending in a result or a branch
// ---------------------------------------------------------------------------

type let struct {
	name string
	typ  string // optional ascription (Lean type text)
	e    *E
}

type prog struct {
	lets   []let
	ret    *E
	cond   *E
	th, el *prog
	leaf   *leaf
	panics string // this leaf is a Go run-time panic (index out of range): the function's value is none
}

// ---------------------------------------------------------------------------
// Printing
// ---------------------------------------------------------------------------

type printer struct {
	rename map[string]string // parameter renaming (alias comparison)
	canon  map[string]string // let-bound names → canonical names (alias comparison)
	ncanon int
	glob   func(name string) string
	opt    bool // the function can panic: results are printed as `some …`, panicking leaves as `none`
}

func (p *printer) v(name string) string {
	if p.canon != nil {
		if c, ok := p.canon[name]; ok {
			return c
		}
	}
	return name
}

func (p *printer) bindName(name string) string {
	if p.canon != nil {
		p.ncanon++
		c := fmt.Sprintf("_v%d", p.ncanon)
		p.canon[name] = c
		return c
	}
	return name
}

func tprojSuffix(i, n int) string {
	if n == 1 {
		return ""
	}
	s := ""
	for k := 0; k < i; k++ {
		s += ".2"
	}
	if i < n-1 {
		s += ".1"
	}
	return s
}

// atom: a term in argument position
func (p *printer) atom(e *E) string {
	switch e.K {
	case "param":
		if r, ok := p.rename[e.Name]; ok {
			return r
		}
		return e.Name
	case "var":
		return p.v(e.Name)
	case "global":
		return p.glob(e.Name)
	case "gparam":
		return e.Name
	case "proj":
		return p.atom(e.Args[0]) + "." + e.Name
	case "tproj":
		return p.atom(e.Args[0]) + tprojSuffix(e.I, e.N)
	case "zero":
		return "0"
	case "one":
		return "1"
	case "bool":
		return e.Name
	case "intlit":
		return e.Name
	case "mk":
		var as []string
		for _, a := range e.Args {
			as = append(as, p.term(a))
		}
		return "(⟨" + strings.Join(as, ", ") + "⟩ : " + leanType(e.Typ) + ")"
	}
	return "(" + p.term(e) + ")"
}

// term: a term in let / result position
func (p *printer) term(e *E) string {
	switch e.K {
	case "app":
		switch e.Name {
		case "add":
			return p.atom(e.Args[0]) + " + " + p.atom(e.Args[1])
		case "sub":
			return p.atom(e.Args[0]) + " - " + p.atom(e.Args[1])
		case "mul":
			return p.atom(e.Args[0]) + " * " + p.atom(e.Args[1])
		case "neg":
			return "-" + p.atom(e.Args[0])
		case "inv":
			return p.atom(e.Args[0]) + "⁻¹"
		}
		s := e.Name
		for _, a := range e.Args {
			s += " " + p.atom(a)
		}
		return s
	case "deceq":
		return "decide (" + p.atom(e.Args[0]) + " = " + p.atom(e.Args[1]) + ")"
	case "not":
		return "!" + p.atom(e.Args[0])
	case "and":
		return p.atom(e.Args[0]) + " && " + p.atom(e.Args[1])
	case "or":
		return p.atom(e.Args[0]) + " || " + p.atom(e.Args[1])
	case "testbit":
		return "Nat.testBit " + p.atom(e.Args[0]) + " " + p.atom(e.Args[1])
	case "natadd":
		return p.atom(e.Args[0]) + " + " + e.Name
	case "bitlen":
		return "Fp12.bitLen " + p.atom(e.Args[0])
	case "zip":
		if len(e.Args) == 1 {
			return p.atom(e.Args[0])
		}
		return "List.zip " + p.atom(e.Args[0]) + " " + p.atom(e.Args[1])
	case "tuple":
		var as []string
		for _, a := range e.Args {
			as = append(as, p.term(a))
		}
		if len(as) == 1 {
			return as[0]
		}
		return "(" + strings.Join(as, ", ") + ")"
	case "mk":
		return p.atom(e)
	case "rawlit", "ofwords":
		var as []string
		for _, a := range e.Args {
			as = append(as, p.term(a))
		}
		return "RawLimbs.ofLimbs [" + strings.Join(as, ", ") + "]"
	case "word":
		return "RawLimbs.word " + p.atom(e.Args[0]) + " " + fmt.Sprint(e.I)
	case "intneg":
		return "-" + p.atom(e.Args[0])
	case "inttonat":
		return "Int.toNat " + p.atom(e.Args[0])
	case "intge0":
		return "decide (0 ≤ " + p.atom(e.Args[0]) + ")"
	case "listlen":
		return "List.length " + p.atom(e.Args[0])
	case "natlt":
		return "decide (" + p.atom(e.Args[0]) + " < " + p.atom(e.Args[1]) + ")"
	}
	return p.atom(e)
}

// cond: a condition in `if` position (a Prop when it is a plain comparison)
func (p *printer) cond(e *E) string {
	switch e.K {
	case "deceq":
		return p.atom(e.Args[0]) + " = " + p.atom(e.Args[1])
	case "not":
		if e.Args[0].K == "deceq" {
			return p.atom(e.Args[0].Args[0]) + " ≠ " + p.atom(e.Args[0].Args[1])
		}
	case "intge0":
		return "0 ≤ " + p.atom(e.Args[0])
	case "natlt":
		return p.atom(e.Args[0]) + " < " + p.atom(e.Args[1])
	}
	return p.term(e)
}

func (p *printer) prog(pr *prog, ind string, sb *strings.Builder) {
	for _, l := range pr.lets {
		if l.e.K == "fold" {
			p.fold(l, ind, sb)
			continue
		}
		rhs := p.term(l.e) // before the binder is renamed
		n := p.bindName(l.name)
		if l.typ != "" {
			fmt.Fprintf(sb, "%slet %s : %s := %s\n", ind, n, l.typ, rhs)
		} else {
			fmt.Fprintf(sb, "%slet %s := %s\n", ind, n, rhs)
		}
	}
	if pr.cond != nil {
		fmt.Fprintf(sb, "%sif %s then\n", ind, p.cond(pr.cond))
		p.prog(pr.th, ind+"  ", sb)
		fmt.Fprintf(sb, "%selse\n", ind)
		p.prog(pr.el, ind+"  ", sb)
		return
	}
	if pr.panics != "" {
		fmt.Fprintf(sb, "%snone /- Go panics: %s -/\n", ind, pr.panics)
		return
	}
	if pr.ret == nil {
		fmt.Fprintf(sb, "%sUNFINISHED_LEAF\n", ind)
		return
	}
	if p.opt {
		fmt.Fprintf(sb, "%ssome (%s)\n", ind, p.term(pr.ret))
		return
	}
	fmt.Fprintf(sb, "%s%s\n", ind, p.term(pr.ret))
}

func (p *printer) fold(l let, ind string, sb *strings.Builder) {
	f := l.e
	init := p.term(f.Args[0])
	rng := p.term(f.Args[1])
	var bs []string
	for _, b := range f.Bind {
		bs = append(bs, fmt.Sprintf("(%s : %s)", p.bindName(b.name), b.typ))
	}
	var body strings.Builder
	saved := p.opt
	p.opt = false
	p.prog(f.Sub, ind+"    ", &body)
	p.opt = saved
	n := p.bindName(l.name)
	if f.Name == "zip" { // for i := 0; i < len(a); i++ { … a[i] … b[i] … }
		fmt.Fprintf(sb, "%slet %s := (%s).foldl (fun %s =>\n%s%s  ) %s\n", ind, n, rng, strings.Join(bs, " "), body.String(), ind, init)
		return
	}
	fmt.Fprintf(sb, "%slet %s := (List.range (%s)).reverse.foldl (fun %s =>\n%s%s  ) %s\n", ind, n, rng, strings.Join(bs, " "), body.String(), ind, init)
}

// walk: every term of a program
func (pr *prog) walk(f func(*E)) {
	var we func(e *E)
	we = func(e *E) {
		if e == nil {
			return
		}
		f(e)
		for _, a := range e.Args {
			we(a)
		}
		if e.Sub != nil {
			e.Sub.walk(f)
		}
	}
	for _, l := range pr.lets {
		we(l.e)
	}
	we(pr.cond)
	we(pr.ret)
	if pr.th != nil {
		pr.th.walk(f)
	}
	if pr.el != nil {
		pr.el.walk(f)
	}
}

/-
C10 / E7 round 4 — the KYBER-LEVEL functions of point.go (the API the rest of the repository calls:
pointG1 / pointG2 / pointGT Null, Base, Set, Add, Sub, Neg, Mul, Pick, Finalize, Miller, Pair, PairingCheck)
and the helpers of gfp.go (newGFp, Set, Invert's bit loop, montEncode, montDecode), translated from the Go
source by `go/extract/bn256code` on every check run (Gen/Bn256Code.lean):
* ties `gen_<fn>_eq_model`: every translation equals the model function the driver / the earlier theorems use;
* the group-law theorems of Props/C10Curve / C10Concrete / C10G2 / C10Miller restated about the TRANSLATED
  kyber-level functions: Add is the addition of Mathlib's elliptic-curve group, Sub, Neg, the identity, Mul is
  s • P and agrees with the scalar reduced modulo the group order, PairingCheck decides the product of the pairings.
How the translator reads point.go (its trusted reading, besides the six primitives of Props/C10Code):
a `*pointGx` is the object its field `g` points to (one fresh value per wrapper; no translated method re-points
`g`); a `kyber.Point` parameter has the dynamic type the body asserts (`a.(*pointG1)`; a wrong type is a Go panic
outside the translation); a `kyber.Scalar` is the big.Int `V` of its `*mod.Int` (behaviour of mod.Int stated in
Proofs/Bn256Kyber.lean: `modIntV`); `q == nil` is translated once per case (`pointGx_mul_nil_q`).
Only theorems; helpers in Proofs/Bn256Kyber.lean.
-/
import DosModel.Proofs.Bn256Kyber
import DosModel.Props.C10Code
import DosModel.Props.C10Concrete
import DosModel.Props.C10G2
import DosModel.Props.C10Miller

set_option linter.unusedSectionVars false
set_option linter.unusedSimpArgs false

namespace Dos.Props.C10Kyber
open Dos.Bn256 Dos.Gen Dos.Gen.Bn256Code Dos.Bn256.CodeTie Dos.Props.C10Code

/-! ## the translator's own facts -/

/-- what the translator does NOT translate in the nine files: formatting, sizes, and the byte-level codec
(gfP.Marshal / Unmarshal / isCanonical, MarshalBinary / UnmarshalBinary and Equal / Clone, which are defined
through them) — property C11's models. A new skipped function has to be added here by hand. -/
theorem skipped_functions :
    Bn256Code.skipped.map (fun r => r.1) =
      ["gfP2Decode", "gfP2.String", "gfP6.String", "gfP12.String", "curvePoint.String", "twistPoint.String",
       "bigFromBase10",
       "pointG1.Equal", "pointG1.Clone", "pointG1.MarshalBinary", "pointG1.MarshalTo", "pointG1.UnmarshalBinary",
       "pointG1.UnmarshalFrom", "pointG1.MarshalSize", "pointG1.ElementSize", "pointG1.String",
       "pointG2.Equal", "pointG2.Clone", "pointG2.MarshalBinary", "pointG2.MarshalTo", "pointG2.UnmarshalBinary",
       "pointG2.UnmarshalFrom", "pointG2.MarshalSize", "pointG2.ElementSize", "pointG2.String",
       "pointGT.Equal", "pointGT.Clone", "pointGT.MarshalBinary", "pointGT.MarshalTo", "pointGT.UnmarshalBinary",
       "pointGT.UnmarshalFrom", "pointGT.MarshalSize", "pointGT.ElementSize", "pointGT.String",
       "gfP.String", "gfP.Marshal", "gfP.Unmarshal", "gfP.isCanonical"] := by decide

/-- the kyber operations the suite does not support are exactly the ones whose body is a `panic` -/
theorem unsupported_operations :
    Bn256Code.panicOnly =
      ["pointG1.EmbedLen", "pointG1.Embed", "pointG1.Data", "pointG2.EmbedLen", "pointG2.Embed", "pointG2.Data",
       "pointGT.EmbedLen", "pointGT.Embed", "pointGT.Data"] := by decide

/-! ## point.go, G1 (over any base type; squaring is `a * a` as in curve.go) -/
section g1
attribute [local instance] sqMul
variable {α : Type}

theorem gen_newPointG1_eq_model [Zero α] : @newPointG1 α _ = Jac.zeroValue := rfl
theorem gen_pointG1_null_eq_model [Zero α] [One α] : @pointG1_null α _ _ = Jac.infinity := rfl
theorem gen_pointG1_base_eq_model : @pointG1_base α = fun g => g := rfl
theorem gen_pointG1_set_eq_model : @pointG1_set α = fun q => q := rfl
theorem gen_pointG1_add_eq_model [Add α] [Sub α] [Mul α] [Zero α] [DecidableEq α] :
    @pointG1_add α _ _ _ _ _ = Jac.add := rfl
theorem gen_pointG1_neg_eq_model [Neg α] [Zero α] : @pointG1_neg α _ _ = fun q => Jac.neg q 0 := rfl
/-- Sub: a fresh point receives −b, then Add — the receiver's `t` survives as in Add -/
theorem gen_pointG1_sub_eq_model [Add α] [Sub α] [Neg α] [Mul α] [Zero α] [DecidableEq α] :
    @pointG1_sub α _ _ _ _ _ _ = fun p a b => Jac.add p a (Jac.neg b 0) := rfl
theorem gen_pointG1_mul_eq_model [Add α] [Sub α] [Mul α] [Zero α] [One α] [DecidableEq α] :
    @pointG1_mul α _ _ _ _ _ _ = fun s q => Jac.curveMul q s := by
  funext s q
  simp only [pointG1_mul, gen_curvePoint_mul_eq_model]
/-- `Mul(s, nil)`: the generator is the point -/
theorem gen_pointG1_mul_nil_eq_model [Add α] [Sub α] [Mul α] [Zero α] [One α] [DecidableEq α] :
    @pointG1_mul_nil_q α _ _ _ _ _ _ = fun g s => Jac.curveMul g s := by
  funext g s
  simp only [pointG1_mul_nil_q, gen_curvePoint_mul_eq_model, gen_pointG1_base_eq_model]
theorem gen_pointG1_pick_eq_model [Add α] [Sub α] [Mul α] [Zero α] [One α] [DecidableEq α] :
    @pointG1_pick α _ _ _ _ _ _ = fun g r => Jac.curveMul g r := by
  funext g r
  simp only [pointG1_pick, gen_curvePoint_mul_eq_model, gen_pointG1_base_eq_model]

example : (pointG1_sub (⟨0, 0, 0, 7⟩ : Jac Int) ⟨1, 2, 1, 1⟩ ⟨1, 2, 1, 1⟩).z = 0 ∧
    (pointG1_sub (⟨0, 0, 0, 7⟩ : Jac Int) ⟨1, 2, 1, 1⟩ ⟨1, 2, 1, 1⟩).t = 7 := by decide
example : pointG1_sub (⟨0, 0, 0, 0⟩ : Jac Int) ⟨1, 2, 1, 1⟩ ⟨1, -2, 1, 1⟩ =
    curvePoint_double ⟨0, 0, 0, 0⟩ ⟨1, 2, 1, 1⟩ := by decide
example : (pointG1_mul 0 (⟨1, 2, 1, 1⟩ : Jac Int)).z = 0 ∧
    pointG1_mul 2 (⟨1, 2, 1, 1⟩ : Jac Int) = curvePoint_double ⟨0, 0, 0, 0⟩ ⟨1, 2, 1, 1⟩ := by decide
end g1

/-! ## point.go, G2 -/
section g2
variable {α : Type}
theorem gen_newPointG2_eq_model [Zero α] : @newPointG2 α _ = Jac.zeroValue := rfl
theorem gen_pointG2_null_eq_model [Zero α] [One α] : @pointG2_null α _ _ = Jac.infinity := rfl
theorem gen_pointG2_base_eq_model : @pointG2_base α = fun g => g := rfl
theorem gen_pointG2_set_eq_model : @pointG2_set α = fun q => q := rfl
theorem gen_pointG2_add_eq_model [Add α] [Sub α] [Mul α] [Zero α] [DecidableEq α] :
    @pointG2_add α _ _ _ _ _ = Jac.add := by
  funext p a b
  simp only [pointG2_add, gen_twistPoint_add_eq_model]
/-- Neg keeps `t` (repo fix 4406972) -/
theorem gen_pointG2_neg_eq_model [Neg α] : @pointG2_neg α _ = fun q => Jac.neg q q.t := rfl
theorem gen_pointG2_sub_eq_model [Add α] [Sub α] [Neg α] [Mul α] [Zero α] [DecidableEq α] :
    @pointG2_sub α _ _ _ _ _ _ = fun p a b => Jac.add p a (Jac.neg b b.t) := by
  funext p a b
  simp only [pointG2_sub, gen_pointG2_add_eq_model, gen_pointG2_neg_eq_model]
theorem gen_pointG2_mul_eq_model [Add α] [Sub α] [Mul α] [Zero α] [DecidableEq α] :
    @pointG2_mul α _ _ _ _ _ = fun s q => Jac.twistMul q s := by
  funext s q
  simp only [pointG2_mul, gen_twistPoint_mul_eq_model]
theorem gen_pointG2_mul_nil_eq_model [Add α] [Sub α] [Mul α] [Zero α] [DecidableEq α] :
    @pointG2_mul_nil_q α _ _ _ _ _ = fun g s => Jac.twistMul g s := by
  funext g s
  simp only [pointG2_mul_nil_q, gen_twistPoint_mul_eq_model, gen_pointG2_base_eq_model]
theorem gen_pointG2_pick_eq_model [Add α] [Sub α] [Mul α] [Zero α] [DecidableEq α] :
    @pointG2_pick α _ _ _ _ _ = fun g r => Jac.twistMul g r := by
  funext g r
  simp only [pointG2_pick, gen_twistPoint_mul_eq_model, gen_pointG2_base_eq_model]

example : (pointG2_neg (⟨⟨1, 2⟩, ⟨3, 4⟩, ⟨0, 1⟩, ⟨5, 6⟩⟩ : Jac (Fp2 Int))).t = ⟨5, 6⟩ := by decide
end g2

/-! ## point.go, GT -/
section gt
variable {α : Type}
theorem gen_newPointGT_eq_model [Zero α] : @newPointGT α _ = Fp12.zero := rfl
theorem gen_pointGT_null_eq_model : @pointGT_null α = fun inf => inf := rfl
theorem gen_pointGT_base_eq_model : @pointGT_base α = fun g => g := rfl
theorem gen_pointGT_set_eq_model : @pointGT_set α = fun q => q := rfl
theorem gen_pointGT_add_eq_model [Add α] [Sub α] [Mul α] : @pointGT_add α _ _ _ = Fp12.mul := by
  funext a b
  simp only [pointGT_add, gen_gfP12_mul_eq_model]
theorem gen_pointGT_neg_eq_model [Neg α] : @pointGT_neg α _ = Fp12.conjugate := rfl
theorem gen_pointGT_sub_eq_model [Add α] [Sub α] [Neg α] [Mul α] [Zero α] :
    @pointGT_sub α _ _ _ _ _ = fun a b => Fp12.mul a (Fp12.conjugate b) := by
  funext a b
  simp only [pointGT_sub, gen_pointGT_add_eq_model, gen_pointGT_neg_eq_model]
theorem gen_pointGT_mul_eq_model [Add α] [Sub α] [Mul α] [Zero α] [One α] :
    @pointGT_mul α _ _ _ _ _ = fun s q => Fp12.exp q s := by
  funext s q
  simp only [pointGT_mul, gen_gfP12_exp_eq_model]
theorem gen_pointGT_mul_nil_eq_model [Add α] [Sub α] [Mul α] [Zero α] [One α] :
    @pointGT_mul_nil_q α _ _ _ _ _ = fun g s => Fp12.exp g s := by
  funext g s
  simp only [pointGT_mul_nil_q, gen_gfP12_exp_eq_model, gen_pointGT_base_eq_model]
theorem gen_pointGT_pick_eq_model [Add α] [Sub α] [Mul α] [Zero α] [One α] :
    @pointGT_pick α _ _ _ _ _ = fun g r => Fp12.exp g r := by
  funext g r
  simp only [pointGT_pick, gen_gfP12_exp_eq_model, gen_pointGT_base_eq_model]
theorem gen_pointGT_finalize_eq_model [Add α] [Sub α] [Neg α] [Mul α] [Zero α] [One α] [Inv α] :
    @pointGT_finalize α _ _ _ _ _ _ _ = finalExponentiationG := by
  funext cs u p
  simp only [pointGT_finalize, gen_finalExponentiation_eq_model, gen_gfP12_set_eq_model]
/-- Miller / Pair hand (p2, p1) to miller / optimalAte in that order -/
theorem gen_pointGT_miller_eq_model [Add α] [Sub α] [Neg α] [Mul α] [Zero α] [One α] [Inv α] [DecidableEq α] :
    @pointGT_miller α _ _ _ _ _ _ _ _ = fun cs p1 p2 => Bn256Code.miller cs p2 p1 := rfl
theorem gen_pointGT_pair_eq_model [Add α] [Sub α] [Neg α] [Mul α] [Zero α] [One α] [Inv α] [DecidableEq α] :
    @pointGT_pair α _ _ _ _ _ _ _ _ = fun cs u p1 p2 => Bn256Code.optimalAte cs u p2 p1 := rfl
/-- at the Montgomery gfP: the driver's `miller`, `optimalAte` -/
theorem gen_pointGT_pair_eq_model_gfp (p1 : G1J) (p2 : G2J) :
    pointGT_miller frobConsts p1 p2 = Dos.Bn256.miller p2 p1 ∧
    pointGT_pair frobConsts uParam p1 p2 = Dos.Bn256.optimalAte p2 p1 := by
  rw [gen_pointGT_miller_eq_model, gen_pointGT_pair_eq_model]
  exact ⟨congrFun (congrFun gen_miller_eq_model p2) p1, congrFun (congrFun gen_optimalAte_eq_model p2) p1⟩

/-- **PairingCheck** (the loop over the two slices, `continue` on an identity, one final exponentiation, IsOne):
Go panics with "index out of range" when `b` is shorter than `a` (value `none`); otherwise it is the model's
`pairingCheck` of the pairs (a[i], b[i]), i < len(a) -/
theorem gen_pointGT_pairingCheck_eq_model (a : List G1J) (b : List G2J) :
    pointGT_pairingCheck frobConsts uParam a b =
      if b.length < a.length then none else some (pairingCheck (List.zip a b)) := by
  simp only [pointGT_pairingCheck, gen_miller_eq_model, gen_finalExponentiation_eq_model, gen_gfP12_mul_eq_model,
    gen_gfP12_setOne_eq_model, gen_gfP12_isOne_eq_model, gen_curvePoint_isInfinity_eq_model,
    gen_twistPoint_isInfinity_eq_model, pairingCheck, pairingCheckAbs, Dos.Bn256.finalExponentiation, Fp12.isOne]
  rfl

example : pointGT_add (⟨⟨⟨0, 0⟩, ⟨0, 0⟩, ⟨0, 0⟩⟩, ⟨⟨0, 0⟩, ⟨0, 0⟩, ⟨0, 2⟩⟩⟩ : Fp12 Int)
    ⟨⟨⟨0, 0⟩, ⟨0, 0⟩, ⟨0, 0⟩⟩, ⟨⟨0, 0⟩, ⟨0, 0⟩, ⟨0, 3⟩⟩⟩ = ⟨⟨⟨0, 0⟩, ⟨0, 0⟩, ⟨0, 0⟩⟩, ⟨⟨0, 0⟩, ⟨0, 0⟩, ⟨0, 6⟩⟩⟩ := by
  decide
example : pointGT_pairingCheck frobConsts uParam [curveGen] ([] : List G2J) = none := by
  rw [gen_pointGT_pairingCheck_eq_model]; rfl
end gt

/-! ## gfp.go -/

theorem gen_gfP_set_eq_model {α : Type} : @gfP_set α = fun f => f := rfl
theorem gen_montEncode_eq_model {α : Type} [Mul α] : @Bn256Code.montEncode α _ = fun r2 a => a * r2 := rfl
theorem gen_montEncode_eq_model_gfp : Bn256Code.montEncode GFp.r2 = GFp.montEncode := rfl
/-- `&gfP{1}` is the raw value 1 (not Montgomery encoded) -/
theorem gen_montDecode_eq_model_gfp : @Bn256Code.montDecode GFp _ _ = GFp.montDecode := by
  funext a
  have h1 : (RawLimbs.ofLimbs [1] : GFp) = ⟨1⟩ := by decide
  simp only [Bn256Code.montDecode, GFp.montDecode, h1]
/-- newGFp: `uint64(x)` resp. `uint64(-x)` followed by gfpNeg, then montEncode -/
theorem gen_newGFp_eq_model_gfp : @Bn256Code.newGFp GFp _ _ _ GFp.r2 = GFp.newGFp := by
  funext x
  have h : ∀ n : Nat, (RawLimbs.ofLimbs [n] : GFp) = ⟨n⟩ := by
    intro n
    show GFp.ofLimbs [n] = ⟨n⟩
    simp [GFp.ofLimbs, limbsVal, Dos.Mont.L4.ofList, Dos.Mont.L4.val]
  simp only [Bn256Code.newGFp, GFp.newGFp, h, ge_iff_le, gen_montEncode_eq_model_gfp]

set_option maxRecDepth 100000 in
/-- **gfP.Invert's bit loop**: the translation (the 4 × 64 iterations unrolled over the concrete `bits` words the
code declares, 383 multiplications) is the fold over the regenerated exponent table `invertBits` (E1) that
`invert_correct` / `invert_is_inverse` (Props/C10) are about — over ANY base type with a multiplication -/
theorem gen_gfP_invert_eq_loop {α : Type} [Mul α] (r3 rN1 f : α) :
    gfP_invert r3 rN1 f = (invLoopAny (GFp.bitsLE Gen.Bn256.invertBits) (rN1, f)).1 * r3 := by
  rfl
/-- hence the `⁻¹` that the translator reads a call of gfP.Invert as IS the translated gfP.Invert -/
theorem gen_gfP_invert_eq_model : gfP_invert GFp.r3 GFp.rN1 = GFp.invert := by
  funext f
  rw [gen_gfP_invert_eq_loop]; rfl

/-! ## the group laws, stated about the TRANSLATED kyber-level functions at the Montgomery gfP
(the functions the rest of the repository calls through `kyber.Point`) -/

/-- at the Montgomery gfP (curve.go squares with gfpMul(a, a), the model's `Sq GFp`) -/
theorem gen_pointG1_eq_model_gfp :
    @pointG1_add GFp _ _ _ _ _ = Jac.add ∧
    @pointG1_sub GFp _ _ _ _ _ _ = (fun p a b => Jac.add p a (curveNeg b)) ∧
    @pointG1_neg GFp _ _ = curveNeg ∧
    @pointG1_mul GFp _ _ _ _ _ _ = (fun s q => Jac.curveMul q s) ∧
    @pointG1_mul_nil_q GFp _ _ _ _ _ _ = (fun g s => Jac.curveMul g s) ∧
    (pointG1_null : G1J) = Jac.infinity := by
  refine ⟨rfl, rfl, rfl, ?_, ?_, rfl⟩
  · rw [gen_pointG1_mul_eq_model]
  · rw [gen_pointG1_mul_nil_eq_model]

/-- **G1, kyber level**: for reduced Montgomery triples whose decodings are valid points of y² = x³ + bb over
F_p, EVERY reduced receiver (so every aliasing of receiver and arguments: the translation is the same function,
`code_alias_safe`): `Add` is the addition of Mathlib's elliptic-curve group E(F_p) (chord–tangent law, identity
and P + P / P + (−P) branches included), `Sub` the subtraction, `Neg` the negation, `Null` the identity; all
results are reduced and valid again -/
theorem kyber_g1_group_law (bb : ZMod Bn256.p) (p a b : G1J) (hp : Jac.Reduced p) (ha : Jac.Reduced a)
    (hb : Jac.Reduced b) (va : Valid bb (Jac.decJ a)) (vb : Valid bb (Jac.decJ b)) :
    (Jac.Reduced (pointG1_add p a b) ∧ Valid bb (Jac.decJ (pointG1_add p a b)) ∧
      toPoint bb (Jac.decJ (pointG1_add p a b)) = toPoint bb (Jac.decJ a) + toPoint bb (Jac.decJ b)) ∧
    (Jac.Reduced (pointG1_sub p a b) ∧ Valid bb (Jac.decJ (pointG1_sub p a b)) ∧
      toPoint bb (Jac.decJ (pointG1_sub p a b)) = toPoint bb (Jac.decJ a) - toPoint bb (Jac.decJ b)) ∧
    (Jac.Reduced (pointG1_neg a) ∧ Valid bb (Jac.decJ (pointG1_neg a)) ∧
      toPoint bb (Jac.decJ (pointG1_neg a)) = -toPoint bb (Jac.decJ a)) ∧
    (Jac.Reduced (pointG1_null : G1J) ∧ Valid bb (Jac.decJ (pointG1_null : G1J)) ∧
      toPoint bb (Jac.decJ (pointG1_null : G1J)) = 0) ∧
    pointG1_set a = a := by
  obtain ⟨eadd, esub, eneg, _, _, enull⟩ := gen_pointG1_eq_model_gfp
  rw [eadd, esub, eneg, enull]
  obtain ⟨nr, nv, np⟩ := g1_neg_concrete bb b hb vb
  refine ⟨(C10Concrete.g1_group_law bb p a b hp ha hb va vb 0).1, ?_, g1_neg_concrete bb a ha va,
    g1_infinity_concrete bb, rfl⟩
  obtain ⟨r, v, e⟩ := (C10Concrete.g1_group_law bb p a (curveNeg b) hp ha nr va nv 0).1
  exact ⟨r, v, by rw [e]; show _ + toPoint bb (Jac.decJ (Jac.neg b 0)) = _; rw [np, sub_eq_add_neg]⟩

/-- non-vacuity: G1 + G1, G1 − G1 = O through the translated Add / Sub with the receiver aliased to both operands -/
example : toPoint (3 : ZMod Bn256.p) (Jac.decJ (pointG1_add curveGen curveGen curveGen)) =
      toPoint 3 (Jac.decJ curveGen) + toPoint 3 (Jac.decJ curveGen) ∧
    toPoint (3 : ZMod Bn256.p) (Jac.decJ (pointG1_sub curveGen curveGen curveGen)) = 0 := by
  have h := kyber_g1_group_law 3 curveGen curveGen curveGen C10Concrete.g1_generator_valid.2.1
    C10Concrete.g1_generator_valid.2.1 C10Concrete.g1_generator_valid.2.1 C10Concrete.g1_generator_valid.2.2
    C10Concrete.g1_generator_valid.2.2
  exact ⟨h.1.2.2, by rw [h.2.1.2.2, sub_self]⟩

/-- **G1 Mul, kyber level**: `p.Mul(s, q)` is s • Q in E(F_p) for EVERY value s of the scalar's big.Int, and
`p.Mul(s, nil)` is s • G1 -/
theorem kyber_g1_mul (bb : ZMod Bn256.p) (q : G1J) (hq : Jac.Reduced q) (vq : Valid bb (Jac.decJ q)) (s : Nat) :
    Jac.Reduced (pointG1_mul s q) ∧ toPoint bb (Jac.decJ (pointG1_mul s q)) = s • toPoint bb (Jac.decJ q) ∧
    pointG1_mul_nil_q q s = pointG1_mul s q := by
  obtain ⟨_, _, _, emul, enil, _⟩ := gen_pointG1_eq_model_gfp
  rw [emul, enil]
  exact ⟨(C10Concrete.g1_group_law bb q q q hq hq hq vq vq s).2.2.1,
    (C10Concrete.g1_group_law bb q q q hq hq hq vq vq s).2.2.2, rfl⟩

example : toPoint (3 : ZMod Bn256.p) (Jac.decJ (pointG1_mul 5 curveGen)) = 5 • toPoint 3 (Jac.decJ curveGen) :=
  (kyber_g1_mul 3 curveGen C10Concrete.g1_generator_valid.2.1 C10Concrete.g1_generator_valid.2.2 5).2.1

/-- **the scalar reduced modulo the group order** (G1): a kyber scalar holds `V = k mod Order` (`modIntV`, the
behaviour of mod.Int); on the subgroup generated by the generator — every point the library makes from `Base()`
by Add / Sub / Neg / Mul — `p.Mul(scalar k, q)` is k • Q for every INTEGER k (negative ones included), and the
multiple by n mod Order is the n-fold sum; no torsion hypothesis (r • G1 = O is kernel-evaluated) -/
theorem kyber_g1_mul_mod_order (q : G1J) (hq : Jac.Reduced q) (vq : Valid (3 : ZMod Bn256.p) (Jac.decJ q))
    (hk : ∃ k : Nat, toPoint (3 : ZMod Bn256.p) (Jac.decJ q) = k • toPoint 3 (Jac.decJ curveGen)) (k : Int)
    (n : Nat) :
    toPoint (3 : ZMod Bn256.p) (Jac.decJ (pointG1_mul (modIntV k Gen.Bn256.Order) q)) =
      k • toPoint 3 (Jac.decJ q) ∧
    toPoint (3 : ZMod Bn256.p) (Jac.decJ (pointG1_mul (n % Gen.Bn256.Order) q)) = n • toPoint 3 (Jac.decJ q) ∧
    toPoint (3 : ZMod Bn256.p) (Jac.decJ (pointG1_mul n q)) = n • toPoint 3 (Jac.decJ q) := by
  have ht := (C10Concrete.g1_subgroup_torsion q hq vq hk 0).1
  have hpos : 0 < Gen.Bn256.Order := by decide
  refine ⟨?_, ?_, (kyber_g1_mul 3 q hq vq n).2.1⟩
  · rw [(kyber_g1_mul 3 q hq vq _).2.1]; exact modIntV_smul _ _ hpos ht k
  · rw [(kyber_g1_mul 3 q hq vq _).2.1, ← modIntV_natCast, modIntV_smul _ _ hpos ht, natCast_zsmul]

/-- the hypotheses are satisfiable: the generator (`Base()`) itself, scalars −1, r − 1, r, r + 1 -/
example : toPoint (3 : ZMod Bn256.p) (Jac.decJ (pointG1_mul (modIntV (-1) Gen.Bn256.Order) curveGen)) =
    (-1 : Int) • toPoint 3 (Jac.decJ curveGen) :=
  (kyber_g1_mul_mod_order curveGen C10Concrete.g1_generator_valid.2.1 C10Concrete.g1_generator_valid.2.2
    ⟨1, (one_nsmul _).symm⟩ (-1) 0).1
example : modIntV (-1) Gen.Bn256.Order = Gen.Bn256.Order - 1 ∧ modIntV (Gen.Bn256.Order + 1) Gen.Bn256.Order = 1 := by
  decide

/-! ### G2 -/

theorem gen_pointG2_eq_model_gfp :
    @pointG2_add GFp _ _ _ _ _ = Jac.add ∧
    @pointG2_sub GFp _ _ _ _ _ _ = (fun p a b => Jac.add p a (twistNeg b)) ∧
    @pointG2_neg GFp _ = twistNeg ∧
    @pointG2_mul GFp _ _ _ _ _ = (fun s q => Jac.twistMul q s) ∧
    @pointG2_mul_nil_q GFp _ _ _ _ _ = (fun g s => Jac.twistMul g s) ∧
    (pointG2_null : G2J) = Jac.infinity :=
  ⟨gen_pointG2_add_eq_model, gen_pointG2_sub_eq_model, rfl, gen_pointG2_mul_eq_model, gen_pointG2_mul_nil_eq_model, rfl⟩

/-- **G2, kyber level**: the same statement on E'(F_p²) : y² = x³ + bb over gfP2 -/
theorem kyber_g2_group_law (bb : Fp2 (ZMod Bn256.p)) (p a b : G2J) (hp : Jac.Reduced2 p) (ha : Jac.Reduced2 a)
    (hb : Jac.Reduced2 b) (va : Valid bb (Jac.decJ2 a)) (vb : Valid bb (Jac.decJ2 b)) (s : Nat) :
    (Jac.Reduced2 (pointG2_add p a b) ∧ Valid bb (Jac.decJ2 (pointG2_add p a b)) ∧
      toPoint bb (Jac.decJ2 (pointG2_add p a b)) = toPoint bb (Jac.decJ2 a) + toPoint bb (Jac.decJ2 b)) ∧
    (Jac.Reduced2 (pointG2_sub p a b) ∧ Valid bb (Jac.decJ2 (pointG2_sub p a b)) ∧
      toPoint bb (Jac.decJ2 (pointG2_sub p a b)) = toPoint bb (Jac.decJ2 a) - toPoint bb (Jac.decJ2 b)) ∧
    (Jac.Reduced2 (pointG2_neg a) ∧ Valid bb (Jac.decJ2 (pointG2_neg a)) ∧
      toPoint bb (Jac.decJ2 (pointG2_neg a)) = -toPoint bb (Jac.decJ2 a)) ∧
    (Jac.Reduced2 (pointG2_null : G2J) ∧ Valid bb (Jac.decJ2 (pointG2_null : G2J)) ∧
      toPoint bb (Jac.decJ2 (pointG2_null : G2J)) = 0) ∧
    (Jac.Reduced2 (pointG2_mul s a) ∧ toPoint bb (Jac.decJ2 (pointG2_mul s a)) = s • toPoint bb (Jac.decJ2 a)) := by
  obtain ⟨eadd, esub, eneg, emul, _, enull⟩ := gen_pointG2_eq_model_gfp
  rw [eadd, esub, eneg, emul, enull]
  obtain ⟨nr, nv, np⟩ := g2_neg_concrete bb b hb vb
  refine ⟨(C10Concrete.g2_group_law bb p a b hp ha hb va vb 0).1, ?_, g2_neg_concrete bb a ha va,
    g2_infinity_concrete bb, (C10Concrete.g2_group_law bb p a b hp ha hb va vb s).2⟩
  obtain ⟨r, v, e⟩ := (C10Concrete.g2_group_law bb p a (twistNeg b) hp ha nr va nv 0).1
  exact ⟨r, v, by rw [e]; show _ + toPoint bb (Jac.decJ2 (Jac.neg b b.t)) = _; rw [np, sub_eq_add_neg]⟩

example : toPoint (Fp2.map dec twistB : Fp2 (ZMod Bn256.p)) (Jac.decJ2 (pointG2_sub twistGen twistGen twistGen)) = 0 := by
  have h := kyber_g2_group_law (Fp2.map dec twistB) twistGen twistGen twistGen C10G2.g2_generator_valid.2.1
    C10G2.g2_generator_valid.2.1 C10G2.g2_generator_valid.2.1 C10G2.g2_generator_valid.2.2
    C10G2.g2_generator_valid.2.2 0
  rw [h.2.1.2.2, sub_self]

/-- **the scalar reduced modulo the group order** (G2): on the subgroup generated by twistGen, `p.Mul(scalar k, q)`
is k • Q for every integer k — Order • twistGen = O is kernel-evaluated through the translated twist code
(`C10G2.g2_generator_torsion`), no hypothesis -/
theorem kyber_g2_mul_mod_order (q : G2J) (hq : Jac.Reduced2 q)
    (vq : Valid (Fp2.map dec twistB : Fp2 (ZMod Bn256.p)) (Jac.decJ2 q))
    (hk : ∃ k : Nat, toPoint (Fp2.map dec twistB) (Jac.decJ2 q) =
      k • toPoint (Fp2.map dec twistB) (Jac.decJ2 twistGen)) (k : Int) (n : Nat) :
    toPoint (Fp2.map dec twistB : Fp2 (ZMod Bn256.p)) (Jac.decJ2 (pointG2_mul (modIntV k Gen.Bn256.Order) q)) =
      k • toPoint (Fp2.map dec twistB) (Jac.decJ2 q) ∧
    toPoint (Fp2.map dec twistB : Fp2 (ZMod Bn256.p)) (Jac.decJ2 (pointG2_mul (n % Gen.Bn256.Order) q)) =
      n • toPoint (Fp2.map dec twistB) (Jac.decJ2 q) := by
  have ht := (C10G2.g2_subgroup_torsion q hq vq hk 0).1
  have hpos : 0 < Gen.Bn256.Order := by decide
  have hm := fun s => (kyber_g2_group_law (Fp2.map dec twistB) q q q hq hq hq vq vq s).2.2.2.2.2
  refine ⟨?_, ?_⟩
  · rw [hm]; exact modIntV_smul _ _ hpos ht k
  · rw [hm, ← modIntV_natCast, modIntV_smul _ _ hpos ht, natCast_zsmul]

example : toPoint (Fp2.map dec twistB : Fp2 (ZMod Bn256.p))
      (Jac.decJ2 (pointG2_mul (modIntV (-1) Gen.Bn256.Order) twistGen)) =
    (-1 : Int) • toPoint (Fp2.map dec twistB) (Jac.decJ2 twistGen) :=
  (kyber_g2_mul_mod_order twistGen C10G2.g2_generator_valid.2.1 C10G2.g2_generator_valid.2.2
    ⟨1, (one_nsmul _).symm⟩ (-1) 0).1

/-! ### GT and the pairing check -/

/-- **GT, kyber level** (over every commutative ring): `Add` is the multiplication of gfP12, `Mul` the power by the
scalar — for every exponent, and equal to the power by the exponent reduced modulo any n with qⁿ = 1 —, `Neg` the
conjugation, `Sub` a · conj(b); `Neg` is the inverse exactly on the elements of norm one (a · conj a is the
gfP6 norm). Round 5: the hypothesis `hn` and the norm-one condition are DISCHARGED in Props/C10GT.lean
(`gt_generator_order`, `kyber_pair_unitary`, `kyber_gt_group`: the unitary elements form a group whose operations are
these functions) and Props/C10Frob.lean (`kyber_pair_order`: every value of Pair has order dividing r); the
non-trivial instances (the pairing of the generators) are there -/
theorem kyber_gt_laws {R : Type} [CommRing R] (a b q : Fp12 R) (s n : Nat) (hn : q ^ n = 1) :
    pointGT_add a b = a * b ∧ pointGT_mul s q = q ^ s ∧ pointGT_mul s q = pointGT_mul (s % n) q ∧
    pointGT_neg a = Fp12.conjugate a ∧ pointGT_sub a b = a * Fp12.conjugate b ∧
    pointGT_add a (pointGT_neg a) = Fp12.ofBase (a.y * a.y - Fp6.tau * (a.x * a.x)) := by
  rw [gen_pointGT_add_eq_model, gen_pointGT_mul_eq_model, gen_pointGT_neg_eq_model, gen_pointGT_sub_eq_model]
  exact ⟨rfl, C10Tower.gfP12_exp_is_power q s, (C10Tower.gfP12_exp_laws q 0 s n hn).2.2, rfl, rfl,
    Fp12.mul_conjugate a⟩

example : pointGT_mul 7 (1 : Fp12 Int) = pointGT_mul (7 % 3) 1 := (kyber_gt_laws 1 1 (1 : Fp12 Int) 7 3 (one_pow 3)).2.2.1

/-- **Pair, kyber level**: reduced inputs give a reduced gfP12 value that decodes to the translated optimalAte over
F_p (Miller loop + final exponentiation; reducedness carried through all 265 steps, Props/C10Miller) -/
theorem kyber_pair_reduced (p1 : G1J) (p2 : G2J) (h1 : Jac.Reduced p1) (h2 : Jac.Reduced2 p2) :
    Red12 (pointGT_pair frobConsts uParam p1 p2) ∧
    dec12 (pointGT_pair frobConsts uParam p1 p2) =
      Bn256Code.optimalAte frobConstsFp uParam (Jac.decJ2 p2) (Jac.decJ p1) := by
  rw [(gen_pointGT_pair_eq_model_gfp p1 p2).2]
  exact C10Miller.optimalAte_reduced p2 p1 h2 h1

example : Red12 (pointGT_pair frobConsts uParam curveGen twistGen) :=
  (kyber_pair_reduced curveGen twistGen (by unfold Jac.Reduced; decide) (by unfold Jac.Reduced2; decide)).1

/-- **PairingCheck, kyber level**: for reduced input points, the translated `PairingCheck(a, b)` panics exactly
when `b` is shorter than `a`; otherwise it returns true exactly when the product in F_p¹² of the decoded pairing
values of the pairs (a[i], b[i]) is one — identities at any position contribute one; no hypothesis on the Miller
values -/
theorem kyber_pairingCheck (a : List G1J) (b : List G2J) (ha : ∀ x ∈ a, Jac.Reduced x)
    (hb : ∀ y ∈ b, Jac.Reduced2 y) :
    (pointGT_pairingCheck frobConsts uParam a b = none ↔ b.length < a.length) ∧
    (a.length ≤ b.length →
      (pointGT_pairingCheck frobConsts uParam a b = some true ↔
        ((List.zip a b).map fun pq => dec12 (optimalAte pq.2 pq.1)).prod = 1)) := by
  rw [gen_pointGT_pairingCheck_eq_model]
  constructor
  · by_cases h : b.length < a.length <;> simp [h]
  · intro hle
    have h : ¬ b.length < a.length := by omega
    simp only [h, if_false, Option.some.injEq]
    exact C10Miller.pairingCheck_implemented (List.zip a b) (fun pq hpq =>
      ⟨ha _ (List.of_mem_zip hpq).1, hb _ (List.of_mem_zip hpq).2⟩)

example : pointGT_pairingCheck frobConsts uParam [curveGen, curveGen] [twistGen] = none :=
  (kyber_pairingCheck [curveGen, curveGen] [twistGen]
    (by intro x hx; simp at hx; subst hx; unfold Jac.Reduced; decide)
    (by intro y hy; simp at hy; subst hy; unfold Jac.Reduced2; decide)).1.mpr (by decide)

end Dos.Props.C10Kyber

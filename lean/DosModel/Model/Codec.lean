/-
Byte-level model of the encodings of `group/bn256/point.go` (G1, G2, GT) and of
`kyber/group/mod.Int` (scalars), as the code is AFTER the two repairs of this round
(/repo 2440c3a: `gfP.Unmarshal` overwrites its limbs; 1d47f6b: a coordinate ≥ p is an error;
14330d6: G2 `UnmarshalFrom` reads the tag byte first).
Core Lean only.

API (namespace `Dos.Codec`)
  `Out α = ok v | err e | panic site`      explicit outcome; `panic` where Go would index/slice out of range
  `DecErr = short | malformed | noncanon | size | range | eof | ueof`
  `marshalG1 : G1 → Bytes`   (64 bytes: x‖y big-endian, identity = 64 zero bytes)
  `unmarshalG1 : Bytes → Out G1`
  `marshalG2 : G2 → Bytes`   (identity = [0]; else 0x01‖x.im‖x.re‖y.im‖y.re, 129 bytes)
  `unmarshalG2 : Bytes → Out G2`
  `marshalGT : GT → Bytes`, `unmarshalGT : Bytes → Out GT`   (`GT = List Nat`, 12 coordinates in struct order)
  `marshalScalar : Nat → Out Bytes`, `unmarshalScalar : Bytes → Out Nat`
  `equalG1/G2/GT` (`Equal` = comparison of the encodings)
  `unmarshalFrom size dec stream` = `UnmarshalFrom` on a reader holding `stream`: (bytes consumed, outcome)
  Montgomery level (what the limbs hold): `marshalG1M`, `unmarshalG1M`, … see the end of the file.
-/
import DosModel.Model.Bn256
import DosModel.Model.CodecBase
import DosModel.Model.CodecRep

namespace Dos.Codec
open Dos Dos.Bn256

/-! ### G1 -/

def marshalG1 : G1 → Bytes
  | .inf => List.replicate 64 0
  | .aff x y => be32 x ++ be32 y

/-- what `UnmarshalBinary` does with the two numbers it read -/
def g1OfCoords (x y : Nat) : Out G1 :=
  if x ≥ p ∨ y ≥ p then .err .noncanon
  else if x = 0 ∧ y = 0 then .ok .inf            -- z := 0; IsOnCurve(infinity) = true
  else if G1.onCurve (.aff x y) then .ok (.aff x y)
  else .err .malformed

def unmarshalG1 (buf : Bytes) : Out G1 :=
  if buf.length < 64 then .err .short
  else
    match readCoords 2 buf with
    | .ok [x, y] => g1OfCoords x y
    | .ok _ => .panic "unreachable"
    | .err e => .err e
    | .panic s => .panic s

/-! ### G2 -/

def marshalG2 : G2 → Bytes
  | .inf => [0]
  | .aff x y => [1] ++ be32 x.im ++ be32 x.re ++ be32 y.im ++ be32 y.re

def g2OfCoords (xi xr yi yr : Nat) : Out G2 :=
  if xi ≥ p ∨ xr ≥ p ∨ yi ≥ p ∨ yr ≥ p then .err .noncanon
  else if xi = 0 ∧ xr = 0 ∧ yi = 0 ∧ yr = 0 then .ok .inf
  else
    let P := G2.aff ⟨xi, xr⟩ ⟨yi, yr⟩
    if !G2.onCurve P then .err .malformed          -- curve equation
    else if !G2.inSubgroup P then .err .malformed  -- `cneg.Mul(c, Order)`, `cneg.z.IsZero()`
    else .ok P

def unmarshalG2 (buf : Bytes) : Out G2 :=
  if buf.head? = some 0 then .ok .inf
  else if buf.length > 0 ∧ buf.head? ≠ some 1 then .err .malformed
  else if buf.length < 129 then .err .short
  else
    match sliceFrom buf 1 with
    | .ok body =>
      match readCoords 4 body with
      | .ok [xi, xr, yi, yr] => g2OfCoords xi xr yi yr
      | .ok _ => .panic "unreachable"
      | .err e => .err e
      | .panic s => .panic s
    | .err e => .err e
    | .panic s => .panic s

/-! ### GT: twelve coordinates, no membership test -/

abbrev GT := List Nat

def marshalGT (g : GT) : Bytes := (g.map be32).flatten

def unmarshalGT (buf : Bytes) : Out GT :=
  if buf.length < 384 then .err .short
  else
    match readCoords 12 buf with
    | .ok cs => if cs.any (fun c => c ≥ p) then .err .noncanon else .ok cs
    | .err e => .err e
    | .panic s => .panic s

/-! ### scalars (`mod.Int` with modulus `Order`, big-endian) -/

/-- `MarshalBinary`: `V.Bytes()` left-padded to 32; a value needing more than 32 bytes makes the
`copy(nb[offset:], b)` slice expression panic (never for a reduced scalar) -/
def marshalScalar (s : Nat) : Out Bytes :=
  if s < 2 ^ 256 then .ok (natBE 32 s) else .panic "slice bounds out of range"

def unmarshalScalar (buf : Bytes) : Out Nat :=
  if buf.length ≠ 32 then .err .size
  else if beNat buf ≥ r then .err .range
  else .ok (beNat buf)

/-! ### `Equal`: point.go compares the two encodings (`subtle.ConstantTimeCompare`) -/
def equalG1 (P Q : G1) : Bool := marshalG1 P == marshalG1 Q
def equalG2 (P Q : G2) : Bool := marshalG2 P == marshalG2 Q
def equalGT (P Q : GT) : Bool := marshalGT P == marshalGT Q

/-! ### stream API: `UnmarshalFrom(r)` = `io.ReadFull(r, make([]byte, size))` then `UnmarshalBinary` -/

def unmarshalFrom (size : Nat) (dec : Bytes → Out α) (stream : Bytes) : Nat × Out α :=
  if stream.length < size then
    (stream.length, .err (if stream.length = 0 then .eof else .ueof))
  else (size, dec (stream.take size))

/-- `pointG2.UnmarshalFrom` (repaired, /repo 14330d6): tag byte first; the identity is one byte -/
def unmarshalFromG2 (stream : Bytes) : Nat × Out G2 :=
  match stream with
  | [] => (0, .err .eof)
  | t :: rest =>
    if t = 0 then (1, unmarshalG2 [t])
    else if rest.length < 128 then (1 + rest.length, .err .ueof)
    else (129, unmarshalG2 (t :: rest.take 128))

/-! ### the receiver.  `p.UnmarshalBinary(buf)` / `p.UnmarshalFrom(r)` are methods of a point object that
already holds some state (fresh, `Null()`, `Base()`, a `Mul` result, the result of an earlier successful or
failed decode).  After the repairs the code never reads that state: every coordinate, `z` and `t` are
overwritten on every path.  The model says so by ignoring the receiver argument; the correspondence cases
`seq`/`into` make it a check of the code. -/

def unmarshalG1Into (_recv : G1) (buf : Bytes) : Out G1 := unmarshalG1 buf
def unmarshalG2Into (_recv : G2) (buf : Bytes) : Out G2 := unmarshalG2 buf
def unmarshalGTInto (_recv : GT) (buf : Bytes) : Out GT := unmarshalGT buf

/-- the receiver after a call: the decoded element, or (after an error) some unspecified state `junk` -/
def recvAfter (junk : α) : Out α → α
  | .ok v => v
  | _ => junk

/-- a sequence of decodes through ONE receiver (`junk i` = whatever a failed decode leaves behind) -/
def decodeSeq (dec : α → Bytes → Out α) (junk : Nat → α) : α → List Bytes → List (Out α)
  | _, [] => []
  | recv, b :: bs =>
    let o := dec recv b
    o :: decodeSeq dec junk (recvAfter (junk bs.length) o) bs

/-! ### Montgomery level: what the limbs of a decoded point hold, and what `MarshalBinary` emits.
A limb quadruple is a number `< 2^256`.  `MarshalBinary` writes `montDecode` of each limb
quadruple; `UnmarshalBinary` stores `montEncode` of each coordinate read. -/

/-- the 32 bytes `MarshalBinary` writes for one stored coordinate `a` (any limb values) -/
def emitCoord (a : Nat) : Bytes := be32 (montDecode a)

/-- G1 in Montgomery form: `none` = infinity (z = 0) -/
def marshalG1M : Option (Nat × Nat) → Bytes
  | none => List.replicate 64 0
  | some (xm, ym) => emitCoord xm ++ emitCoord ym

/-- G2 in Montgomery form: (x.im, x.re, y.im, y.re) -/
def marshalG2M : Option (Nat × Nat × Nat × Nat) → Bytes
  | none => [0]
  | some (a, b, c, d) => [1] ++ emitCoord a ++ emitCoord b ++ emitCoord c ++ emitCoord d

/-- what `UnmarshalBinary` stores for a coordinate it read -/
def storeCoord (x : Nat) : Nat := montEncode x

/-- `pdkg.go decodePubKey` (as repaired by /repo ae5b22f): `MarshalBinary`, then — only when the encoding has at
least `32*4+1` bytes — bytes `32i+1 .. 32i+33` (i = 0..3) as big-endian numbers; a shorter encoding (the point at
infinity marshals to ONE byte) is the error "public key is the point at infinity" (`.err .short`: the length
check failed), no longer a slice panic -/
def decodePubKey (enc : Bytes) : Out (List Nat) :=
  if enc.length < 32 * 4 + 1 then .err .short
  else
    match sliceRange enc 1 33, sliceRange enc 33 65, sliceRange enc 65 97, sliceRange enc 97 129 with
    | .ok a, .ok b, .ok c, .ok d => .ok [beNat a, beNat b, beNat c, beNat d]
    | _, _, _, _ => .panic "slice bounds out of range"

/-- `vss.go Signature.ToBigInt` (as repaired by /repo 6bcc55e): fewer than 32 bytes leave both numbers zero;
else `Signature[0:32]`, `Signature[32:]` (EVERYTHING after byte 32: a 65-byte value puts 33 bytes into y) -/
def sigToBigInt (sig : Bytes) : Out (Nat × Nat) :=
  if sig.length < 32 then .ok (0, 0)
  else .ok (beNat (sig.take 32), beNat (sig.drop 32))


/-! ### representation level (`Model/CodecRep.lean` at the number-level Montgomery functions of `Model/Bn256.lean`):
the OBJECT a decoder leaves behind — `x, y, z, t` as limb values — and the object an encoder reads. -/

/-- `gfP` as the number its four limbs spell -/
def natFld : CodecRep.Fld Nat where
  p := p
  raw := id
  val := id
  enc := montEncode
  dec := montDecode
  zero := 0
  one := montEncode 1
  eq := fun a b => a == b

abbrev Rep1 := CodecRep.Pt Nat
abbrev Rep2 := CodecRep.Pt (Nat × Nat)

/-- the affine element a representation with `z ∈ {0, 1}` denotes (value level; general `z`: `x/z²`, `y/z³`) -/
def Rep1.toG1 (g : Rep1) : G1 :=
  if g.z == 0 then .inf
  else
    let zi := finv (montDecode g.z)
    let zi2 := fmul zi zi
    .aff (fmul (montDecode g.x) zi2) (fmul (montDecode g.y) (fmul zi zi2))

def fp2OfRep (a : Nat × Nat) : Fp2 := ⟨montDecode a.1, montDecode a.2⟩

def Rep2.toG2 (g : Rep2) : G2 :=
  if g.z.1 == 0 && g.z.2 == 0 then .inf
  else
    let zi := Fp2.inv (fp2OfRep g.z)
    let zi2 := Fp2.mul zi zi
    .aff (Fp2.mul (fp2OfRep g.x) zi2) (Fp2.mul (fp2OfRep g.y) (Fp2.mul zi zi2))

/-- the representation the decoders write for an element -/
def repOfG1 : G1 → Rep1
  | .inf => ⟨0, montEncode 1, 0, 0⟩
  | .aff x y => ⟨montEncode x, montEncode y, montEncode 1, montEncode 1⟩

def repOfG2 : G2 → Rep2
  | .inf => ⟨(0, 0), (0, montEncode 1), (0, 0), (0, 0)⟩
  | .aff x y => ⟨(montEncode x.im, montEncode x.re), (montEncode y.im, montEncode y.re),
      (0, montEncode 1), (0, montEncode 1)⟩

/-- `curvePoint.IsOnCurve`, value level: `MakeAffine` in place (`z = 1`: untouched; `z = 0`: (0, 1, 0, 0) with the
old `z`; else the affine coordinates with `z = t = 1`), then the curve equation on the decoded coordinates -/
def isOnCurve1 (g : Rep1) : Rep1 × Bool :=
  if g.z == montEncode 1 then (g, G1.onCurve (.aff (montDecode g.x) (montDecode g.y)))
  else if g.z == 0 then (⟨0, montEncode 1, g.z, 0⟩, true)
  else
    match g.toG1 with
    | .inf => (g, false)   -- unreachable: z ≠ 0
    | .aff x y => (⟨montEncode x, montEncode y, montEncode 1, montEncode 1⟩, G1.onCurve (.aff x y))

/-- `twistPoint.IsOnCurve`, value level: curve equation, then `r•P = O` -/
def isOnCurve2 (g : Rep2) : Rep2 × Bool :=
  let ok (P : G2) : Bool := G2.onCurve P && G2.inSubgroup P
  if g.z.1 == 0 && g.z.2 == montEncode 1 then (g, ok (.aff (fp2OfRep g.x) (fp2OfRep g.y)))
  else if g.z.1 == 0 && g.z.2 == 0 then (⟨(0, 0), (0, montEncode 1), g.z, (0, 0)⟩, true)
  else
    match g.toG2 with
    | .inf => (g, false)
    | .aff x y => (repOfG2 (.aff x y), ok (.aff x y))

/-- `pointG1.UnmarshalBinary` on a receiver in state `g`: (receiver afterwards, outcome) -/
def unmarshalG1Rep (g : Rep1) (buf : Bytes) : Rep1 × Out Unit := CodecRep.unmarshalG1 natFld isOnCurve1 g buf
def unmarshalG2Rep (g : Rep2) (buf : Bytes) : Rep2 × Out Unit := CodecRep.unmarshalG2 natFld isOnCurve2 g buf
def unmarshalGTRep (g : List Nat) (buf : Bytes) : List Nat × Out Unit := CodecRep.unmarshalGT natFld g buf

/-- the form of a representation as the harness reports it: `n` normalised affine, `i` identity form, `x` other -/
def formOf1 (g : Rep1) : String :=
  if CodecRep.Pt.normal1 natFld g then "n" else if CodecRep.Pt.ident1 natFld g then "i" else "x"
def formOf2 (g : Rep2) : String :=
  if CodecRep.Pt.normal2 natFld g then "n" else if CodecRep.Pt.ident2 natFld g then "i" else "x"

end Dos.Codec

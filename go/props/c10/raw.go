package c10

// Glue to the real code: raw limb arrays ↔ the unexported types of group/bn256
// (exported as aliases by zz_verif_bn256.go, build tag verif). The structs of the
// package are flat arrays of [4]uint64 limbs, so a limb array is reinterpreted in place.

import (
	"fmt"
	"math/big"
	"strings"
	"unsafe"

	"github.com/DOSNetwork/core/group/bn256"
)

type fe = [4]uint64

func feFromBig(v *big.Int) fe {
	var f fe
	w := new(big.Int).Set(v)
	m := new(big.Int).SetUint64(^uint64(0))
	for i := 0; i < 4; i++ {
		f[i] = new(big.Int).And(w, m).Uint64()
		w.Rsh(w, 64)
	}
	return f
}
func feToBig(f fe) *big.Int {
	v := new(big.Int)
	for i := 3; i >= 0; i-- {
		v.Lsh(v, 64)
		v.Or(v, new(big.Int).SetUint64(f[i]))
	}
	return v
}
func hexFe(f fe) string        { return fmt.Sprintf("%016x%016x%016x%016x", f[3], f[2], f[1], f[0]) }
func hexBig(v *big.Int) string { return hexFe(feFromBig(v)) }
func parseFe(s string) fe {
	if len(s) != 64 {
		panic("field element must be 64 hex digits: " + s)
	}
	v, ok := new(big.Int).SetString(s, 16)
	if !ok {
		panic("bad hex " + s)
	}
	return feFromBig(v)
}
func parseFes(s string, n int) []fe {
	parts := strings.Split(s, ",")
	if len(parts) != n {
		panic(fmt.Sprintf("want %d field elements, have %d", n, len(parts)))
	}
	out := make([]fe, n)
	for i, p := range parts {
		out[i] = parseFe(p)
	}
	return out
}
func hexFes(fs []fe) string {
	var p []string
	for _, f := range fs {
		p = append(p, hexFe(f))
	}
	return strings.Join(p, ",")
}

type fe2 = [2]fe
type fe6 = [6]fe
type fe12 = [12]fe
type g1raw = [4]fe // x, y, z, t
type g2raw = [8]fe // x.x, x.y, y.x, y.y, z.x, z.y, t.x, t.y

func asFp2(a *fe2) *bn256.VerifGfP2         { return (*bn256.VerifGfP2)(unsafe.Pointer(a)) }
func asFp6(a *fe6) *bn256.VerifGfP6         { return (*bn256.VerifGfP6)(unsafe.Pointer(a)) }
func asFp12(a *fe12) *bn256.VerifGfP12      { return (*bn256.VerifGfP12)(unsafe.Pointer(a)) }
func asG1(a *g1raw) *bn256.VerifCurvePoint  { return (*bn256.VerifCurvePoint)(unsafe.Pointer(a)) }
func asG2(a *g2raw) *bn256.VerifTwistPoint  { return (*bn256.VerifTwistPoint)(unsafe.Pointer(a)) }
func fromFp2(a *bn256.VerifGfP2) fe2        { return *(*fe2)(unsafe.Pointer(a)) }
func fromFp12(a *bn256.VerifGfP12) fe12     { return *(*fe12)(unsafe.Pointer(a)) }
func fromG1(a *bn256.VerifCurvePoint) g1raw { return *(*g1raw)(unsafe.Pointer(a)) }
func fromG2(a *bn256.VerifTwistPoint) g2raw { return *(*g2raw)(unsafe.Pointer(a)) }

func init() {
	// layout guard: the reinterpretation above is only valid if the sizes agree
	if unsafe.Sizeof(bn256.VerifGfP2{}) != 64 || unsafe.Sizeof(bn256.VerifGfP6{}) != 192 ||
		unsafe.Sizeof(bn256.VerifGfP12{}) != 384 || unsafe.Sizeof(bn256.VerifCurvePoint{}) != 128 ||
		unsafe.Sizeof(bn256.VerifTwistPoint{}) != 256 {
		panic("c10: unexpected layout of bn256 tower / point structs")
	}
}

// ---- raw (Montgomery) ↔ reference values -------------------------------------------------

func allReduced(fs []fe) bool {
	for _, f := range fs {
		if feToBig(f).Cmp(refP) >= 0 {
			return false
		}
	}
	return true
}
func decFe(f fe) *big.Int { return fromMont(feToBig(f)) }
func encFe(v *big.Int) fe { return feFromBig(toMont(v)) }
func decR2(f []fe) r2     { return r2{decFe(f[0]), decFe(f[1])} }
func decR6(f []fe) r6     { return r6{decR2(f[0:2]), decR2(f[2:4]), decR2(f[4:6])} }
func decR12(f []fe) r12   { return r12{decR6(f[0:6]), decR6(f[6:12])} }
func encR2(a r2) []fe     { return []fe{encFe(a.x), encFe(a.y)} }
func encR6(a r6) []fe     { return append(append(encR2(a.x), encR2(a.y)...), encR2(a.z)...) }
func encR12(a r12) []fe   { return append(encR6(a.x), encR6(a.y)...) }

// Jacobian raw point → affine reference point (big arithmetic only)
func affG1(p g1raw) refPt {
	z := decFe(p[2])
	if z.Sign() == 0 {
		return refPt{inf: true}
	}
	zi := new(big.Int).ModInverse(z, refP)
	zi2 := mod(new(big.Int).Mul(zi, zi))
	x := mod(new(big.Int).Mul(decFe(p[0]), zi2))
	y := mod(new(big.Int).Mul(decFe(p[1]), mod(new(big.Int).Mul(zi2, zi))))
	return refPt{x: r2{new(big.Int), x}, y: r2{new(big.Int), y}}
}
func affG2(p g2raw) refPt {
	z := decR2(p[4:6])
	if r2isZero(z) {
		return refPt{inf: true}
	}
	zi := r2inv(z)
	zi2 := r2mul(zi, zi)
	return refPt{x: r2mul(decR2(p[0:2]), zi2), y: r2mul(decR2(p[2:4]), r2mul(zi2, zi))}
}

// affine reference point → raw Jacobian with the given z (z = 1: normalised, t = z²)
func jacG1(a refPt, z *big.Int) g1raw {
	if a.inf {
		return g1raw{fe{}, encFe(big.NewInt(1)), fe{}, fe{}}
	}
	z2 := mod(new(big.Int).Mul(z, z))
	z3 := mod(new(big.Int).Mul(z2, z))
	return g1raw{encFe(mod(new(big.Int).Mul(a.x.y, z2))), encFe(mod(new(big.Int).Mul(a.y.y, z3))), encFe(z), encFe(z2)}
}
func jacG2(a refPt, z r2) g2raw {
	var out g2raw
	if a.inf {
		copy(out[2:4], encR2(r2one()))
		return out
	}
	z2 := r2mul(z, z)
	z3 := r2mul(z2, z)
	copy(out[0:2], encR2(r2mul(a.x, z2)))
	copy(out[2:4], encR2(r2mul(a.y, z3)))
	copy(out[4:6], encR2(z))
	copy(out[6:8], encR2(z2))
	return out
}
func onCurveJacG1(p g1raw) bool { return allReduced(p[:3]) && refOnCurveG1(affG1(p)) }
func onCurveJacG2(p g2raw) bool { return allReduced(p[:6]) && refOnCurveG2(affG2(p)) }

func be32(v *big.Int) []byte {
	b := v.Bytes()
	out := make([]byte, 32)
	copy(out[32-len(b):], b)
	return out
}

// EVM / google encodings of affine points
func bytesG1(a refPt) []byte {
	if a.inf {
		return make([]byte, 64)
	}
	return append(be32(a.x.y), be32(a.y.y)...)
}
func bytesG2(a refPt) []byte {
	if a.inf {
		return make([]byte, 128)
	}
	out := append(be32(a.x.x), be32(a.x.y)...)
	out = append(out, be32(a.y.x)...)
	return append(out, be32(a.y.y)...)
}
func bytesGT(a r12) []byte {
	var out []byte
	for _, h := range []r6{a.x, a.y} {
		for _, c := range []r2{h.x, h.y, h.z} {
			out = append(out, be32(c.x)...)
			out = append(out, be32(c.y)...)
		}
	}
	return out
}

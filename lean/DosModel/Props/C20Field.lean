/-
C20 (round 4) — THE FIELD LAYER: the ref10 field code group/edwards25519/fe.go, translated statement by statement
(go/extract/ed25519fe → Gen/Ed25519Fe.lean, regenerated on every run), is correct for ALL inputs within the stated
limb bounds.  `FeOps.fe*` are the translated routines run with Go's semantics (wrapping int64; int32 narrowing);
the driver executes exactly these against the real code.

  * `Bounded k h`: |h_i| ≤ k·36909875 (i even), k·18454937 (i odd) — ref10's "1.1·2^25 / 1.1·2^24" times k;
  * `SafeFrom`: no (sub)expression of the routine leaves its Go type (int32 or int64) — decided by the verified
    interval interpreter evaluated by the kernel on the regenerated program data;
  * `ModP a b`: a ≡ b (mod 2^255 − 19); `feVal h` = Σ h_i·2^⌈25.5 i⌉.
Only theorems and their non-vacuity examples live here; the proofs are in Proofs/FeProg, Ed25519FeTie, Ed25519FeAlg,
Ed25519FeRanges, Ed25519FeSpec, Ed25519FeBytes, GeRefine, Ed25519Prime.
-/
import DosModel.Proofs.Ed25519FeBytes
import DosModel.Proofs.Ed25519FeSpec
import DosModel.Proofs.GeRefine

set_option exponentiation.threshold 600

namespace Dos.Props.C20Field
open Dos Dos.Ed25519 Dos.IntervalProg Dos.FeProg Dos.FeOps Dos.GeProg Dos.Gen.Ed25519Fe Dos.Ed25519Prime

/-- 2^255 − 19 is prime (Pratt certificate, kernel-evaluated) -/
theorem field_modulus_prime : Nat.Prime (2 ^ 255 - 19) := p25519_prime

example : fieldP = 2 ^ 255 - 19 := rfl

/-- the analysis of a field routine is sound, for EVERY routine: inputs in their intervals and a successful abstract
run ⇒ no int32/int64 overflow in any (sub)expression, limbs and stored values in the computed intervals -/
theorem fe_interval_analysis_sound {p : FeProg} {inp : Env} {I L O : List Itv} (h : In inp I)
    (hr : FeProg.absRun p I = some (L, O)) :
    p.SafeFrom inp ∧ In (p.limbsW id inp) L ∧ In (p.runW id inp) O := FeProg.absRun_sound h hr

example : (FeProg.absRun feMul_prog (boundItv 3 ++ boundItv 3)).isSome = true := by decide +kernel

/-- no overflow ⇒ the run with Go's wrapping arithmetic is the unbounded-`Int` run -/
theorem fe_go_semantics_coincide {p : FeProg} {inp : Env} (h : p.SafeFrom inp) :
    p.limbsW wrap inp = p.limbsW id inp ∧ p.runW wrap inp = p.runW id inp := FeProg.runW_wrap_eq h

/-- `(e << 32) >> 32` — the way Go's `int32(e)` is expressed in the int64 expression language — IS the int32
wrap-around under wrapping int64 arithmetic, is the identity on values, and is overflow-free exactly on int32s -/
theorem int32_narrowing (x : Int) (ρ : Env) (e : Expr) :
    (I64 x → shrI (wrap (shl x 32)) 32 = wrap32 x) ∧ n32v x = x ∧ ((n32 e).Safe ρ ↔ e.Safe ρ ∧ I32 (e.eval ρ)) :=
  ⟨n32_wrap x, n32v_eq x, n32_safe ρ e⟩

example : shrI (wrap (shl 4294967295 32)) 32 = -1 := by decide

/-- the emitted DATA denotes the emitted FUNCTIONS (kernel evaluation of the interpreter on symbolic inputs) -/
theorem fe_data_is_the_translated_code (x : List Int) :
    (feMul_prog.runW id x = feMul_out (runBlocks feMul_blocks (feMul_init x)))
    ∧ (feSquare_prog.runW id x = feSquare_out (runBlocks feSquare_blocks (feSquare_init x)))
    ∧ (feSquare2_prog.runW id x = feSquare2_out (runBlocks feSquare2_blocks (feSquare2_init x)))
    ∧ (feFromBytes_prog.runW id x = feFromBytes_out (runBlocks feFromBytes_blocks (feFromBytes_init x)))
    ∧ (feToBytes_prog.runW id x = feToBytes_out (runBlocks feToBytes_blocks (feToBytes_init x))) :=
  ⟨(feMul_tie x).2, (feSquare_tie x).2, (feSquare2_tie x).2, (feFromBytes_tie x).2, (feToBytes_tie x).2⟩

/-- **feMul**: for all f, g within 3 × the bound: no overflow anywhere, result within 1 ×, value f·g mod p -/
theorem feMul_correct (f g : L10) (hf : Bounded 3 f) (hg : Bounded 3 g) :
    feMul_prog.SafeFrom (f.toList ++ g.toList) ∧ Bounded 1 (feMul f g) ∧ ModP (feVal (feMul f g)) (feVal f * feVal g) :=
  feMul_spec f g hf hg

example : Bounded 3 ⟨110729625, -55364811, 110729625, -55364811, 110729625, -55364811, 110729625, -55364811,
    110729625, -55364811⟩ := by decide

/-- 3 is the exact multiplier: with inputs at 4 × the analysis finds a possible overflow -/
theorem feMul_bound_is_sharp : (feMul_prog.absRun (boundItv 4 ++ boundItv 4)).isSome = false := feMul_check_4_fails

theorem feSquare_correct (f : L10) (hf : Bounded 3 f) :
    feSquare_prog.SafeFrom f.toList ∧ Bounded 1 (feSquare f) ∧ ModP (feVal (feSquare f)) (feVal f * feVal f) :=
  feSquare_spec f hf

theorem feSquare2_correct (f : L10) (hf : Bounded 3 f) :
    feSquare2_prog.SafeFrom f.toList ∧ Bounded 1 (feSquare2 f) ∧ ModP (feVal (feSquare2 f)) (2 * (feVal f * feVal f)) :=
  feSquare2_spec f hf

example : feVal (feSquare2 ⟨3, 0, 0, 0, 0, 0, 0, 0, 0, 0⟩) = 18 := by decide +kernel

/-- **feAdd / feSub / feNeg**: exact limb-wise results, no int32 overflow, bounds add (a + b ≤ 58 keeps int32) -/
theorem feAdd_correct (a b : Int) (f g : L10) (hf : Bounded a f) (hg : Bounded b g) (hab : a + b ≤ 58)
    (ha : 0 ≤ a) (hb : 0 ≤ b) :
    Bounded (a + b) (feAdd f g) ∧ feVal (feAdd f g) = feVal f + feVal g :=
  (feAdd_spec a b f g hf hg hab ha hb).2

theorem feSub_correct (a b : Int) (f g : L10) (hf : Bounded a f) (hg : Bounded b g) (hab : a + b ≤ 58)
    (ha : 0 ≤ a) (hb : 0 ≤ b) :
    Bounded (a + b) (feSub f g) ∧ feVal (feSub f g) = feVal f - feVal g :=
  (feSub_spec a b f g hf hg hab ha hb).2

theorem feNeg_correct (a : Int) (f : L10) (hf : Bounded a f) (ha : a ≤ 58) :
    Bounded a (feNeg f) ∧ feVal (feNeg f) = -feVal f := (feNeg_spec a f hf ha).2

example : feVal (feSub ⟨1, 0, 0, 0, 0, 0, 0, 0, 0, 0⟩ ⟨3, 0, 0, 0, 0, 0, 0, 0, 0, 0⟩) = -2 := by decide +kernel

theorem feCopy_feZero_feOne_correct (f : L10) :
    feCopy f = f ∧ feZero = ⟨0, 0, 0, 0, 0, 0, 0, 0, 0, 0⟩ ∧ feOne = ⟨1, 0, 0, 0, 0, 0, 0, 0, 0, 0⟩ :=
  ⟨feCopy_spec f, feZero_spec, feOne_spec⟩

/-- **feCMove**: the xor/and bit trick selects g for b = 1 and keeps f for b = 0 (limbs int32) -/
theorem feCMove_correct {a b : Nat} {l m : L10} {x y : F} (h1 : R a l x) (h2 : R b m y) (ha : a ≤ 3) (hb : b ≤ 3)
    (c : Int) (hc : c = 0 ∨ c = 1) : R (max a b) (feCMove l m c) (if c = 1 then y else x) :=
  cmove_R h1 h2 ha hb c hc

example : feCMove ⟨1, 2, 3, 4, 5, 6, 7, 8, 9, 10⟩ ⟨-1, -2, -3, -4, -5, -6, -7, -8, -9, -10⟩ 1
    = ⟨-1, -2, -3, -4, -5, -6, -7, -8, -9, -10⟩ := by decide +kernel

/-- **feToBytes**: for every h within 3 ×, the 32 bytes are THE canonical little-endian encoding of `feVal h mod p`
(fully reduced), and the argument is left (the Go code normalises it in place) as the digits of that value -/
theorem feToBytes_canonical (h : L10) (hb : Bounded 3 h) :
    (feToBytes h).1 = natLE 32 (feVal h % pI).toNat ∧ Bounded 2 (feToBytes h).2
    ∧ feVal (feToBytes h).2 = feVal h % pI := feToBytes_spec h hb

/-- a fact the analysis found: the 13th byte expression `(h[3] >> 19) | (h[4] << 6)` of feToBytes can leave
int32 (`h[4] << 6` with h[4] ≥ 2^25); Go's shift wraps and `byte(…)` keeps the low 8 bits, so the byte is still
right (`feToBytes_canonical` is proved under wrapping semantics) -/
theorem feToBytes_int32_shift_overflow :
    FeDigits ⟨0, 0, 0, 0, 2 ^ 25, 0, 0, 0, 0, 0⟩
    ∧ ¬ (feToBytes_prog.out.getD 12 (.c 0)).Safe (⟨0, 0, 0, 0, 2 ^ 25, 0, 0, 0, 0, 0⟩ : L10).toList :=
  feToBytes_byte12_overflow_witness

/-- **feFromBytes**: any 32 bytes: result within 1 ×, value ≡ the little-endian value with bit 255 ignored -/
theorem feFromBytes_correct (s : Bytes) (hs : s.length = 32) :
    Bounded 1 (feFromBytes s) ∧ ModP (feVal (feFromBytes s)) ((leNat s % 2 ^ 255 : Nat) : Int) :=
  feFromBytes_spec s hs

example : (feToBytes (feFromBytes (List.replicate 32 255))).1 = natLE 32 18 := by decide +kernel

theorem feIsNegative_feIsNonZero_correct (h : L10) (hb : Bounded 3 h) :
    (feIsNegative h).1.toNat = (feVal h % pI).toNat % 2
    ∧ (feIsNonZero h).1 = (if feVal h % pI = 0 then 0 else 1) :=
  ⟨(feIsNegative_spec h hb).1, (feIsNonZero_spec h hb).1⟩

/-- **feInvert, fePow22523**: the regenerated square-and-multiply chains, run on exponents by the kernel, have the
exponents p − 2 and (p − 5)/8 -/
theorem chain_exponents :
    chainExp feInvert_nregs feInvert_chain = some (Dos.Ed.p - 2)
    ∧ chainExp fePow22523_nregs fePow22523_chain = some ((Dos.Ed.p - 5) / 8) := ⟨feInvert_exp, fePow22523_exp⟩

/-- hence on limbs: feInvert z stands for z^(p−2) (= 1/z for z ≠ 0, 0 for 0), fePow22523 z for z^((p−5)/8),
results within 1 × -/
theorem feInvert_fePow22523_correct {a : Nat} {z : L10} {x : F} (h : R a z x) (ha : a ≤ 3) :
    R 1 (feInvert z) (x ^ (Dos.Ed.p - 2)) ∧ R 1 (fePow22523 z) (x ^ ((Dos.Ed.p - 5) / 8))
    ∧ (x ≠ 0 → x ^ (Dos.Ed.p - 2) = x⁻¹) :=
  ⟨invert_R h ha, pow22523_R h ha, fun hx => pow_inv x hx⟩

example : R 1 (⟨2, 0, 0, 0, 0, 0, 0, 0, 0, 0⟩ : L10) (2 : F) := ⟨by decide, by unfold val; decide⟩

end Dos.Props.C20Field

/-
Model of `share/poly.go` (Shamir secret sharing, commitments, Lagrange recovery).

The functions are written ONCE, polymorphic over a scalar type `S` and a point
type `P` that only need the core notation classes (`+ - * ⁻¹ 0 1`, integer
literals `((k : Int) : S)`, `s • p`).  They are used

* by the driver at `S = P = Zq q` (`Model/ShareZq.lean`: numbers modulo the group
  order, points in the discrete-log representation), and
* by the theorems at ANY field `F` and ANY `F`-module `G` (the Mathlib classes
  provide exactly these notations), and – through the `Field (Zq q)` instance for a
  prime `q` – again at the driver's own instance.

Go statements are mirrored one by one; a Go `map[int]Scalar` keyed by the position in
the input slice becomes a list of entries in position order (all loops over the map only
accumulate sums in a commutative group, so the iteration order Go picks is irrelevant).
-/
import DosModel.Model.Util

namespace Dos.Share

inductive Err where
  | groups   -- "non-matching groups"
  | coeffs   -- "different number of coefficients"
  | few      -- "not enough shares …"
  deriving DecidableEq, Repr

inductive Site where
  | div0     -- mod.Int.Div: ModInverse returned nil, Mul dereferences it
  | index    -- index out of range
  | negLen   -- make([]T, negative)
  deriving DecidableEq, Repr

inductive Out (α : Type) where
  | ok (v : α)
  | err (e : Err)
  | panic (s : Site)
  deriving DecidableEq, Repr

/-- `PriShare{I, V}`; `V == nil` is `none`. -/
structure PriShare (S : Type) where
  I : Int
  V : Option S
  deriving DecidableEq, Repr

/-- `PubShare{I, V}` -/
structure PubShare (P : Type) where
  I : Int
  V : Option P
  deriving DecidableEq, Repr

/-- `PriPoly{g, coeffs}`; `g` is the group's `String()` as a small tag. -/
structure PriPoly (S : Type) where
  g : Nat
  coeffs : List S
  deriving DecidableEq, Repr

/-- `PubPoly{g, b, commits}` (a nil base is resolved to the standard base by the caller). -/
structure PubPoly (P : Type) where
  g : Nat
  base : P
  commits : List P
  deriving DecidableEq, Repr

section Scalar
variable {S : Type} [Add S] [Sub S] [Mul S] [Neg S] [Zero S] [One S] [Inv S] [IntCast S] [DecidableEq S]

/-- `g.Scalar().SetInt64(1 + int64(i))` -/
def xOf (i : Int) : S := ((1 + i : Int) : S)

/-- `PriPoly.Eval(i).V`: Horner from the top coefficient down, at `x = i + 1`. -/
def priEval (f : List S) (i : Int) : S :=
  f.foldr (fun c v => v * xOf i + c) 0

/-- `PriPoly.Shares(n)` -/
def priShares (f : List S) (n : Nat) : List (PriShare S) :=
  (List.range n).map fun (i : Nat) => ⟨(i : Int), some (priEval f (i : Int))⟩

/-- `PriPoly.Add` -/
def priAdd (p q : PriPoly S) : Out (PriPoly S) :=
  if p.g ≠ q.g then .err .groups
  else if p.coeffs.length ≠ q.coeffs.length then .err .coeffs
  else .ok ⟨p.g, List.zipWith (· + ·) p.coeffs q.coeffs⟩

/-- the loop `b &= ConstantTimeCompare(p[i], q[i])` over two lists of the same length -/
def allEq {α : Type} [DecidableEq α] : List α → List α → Bool
  | a :: as, b :: bs => decide (a = b) && allEq as bs
  | _, _ => true

/-- `PriPoly.Equal` -/
def priEqual (p q : PriPoly S) : Bool :=
  if p.g ≠ q.g then false
  else if p.coeffs.length ≠ q.coeffs.length then false
  else allEq p.coeffs q.coeffs

/-- inner loop of `PriPoly.Mul`: `coeffs[i+j] += pi * q[j]` for `j = 0, 1, …` -/
def mulRow (pi : S) : List S → Nat → List S → List S
  | [], _, acc => acc
  | qj :: qs, k, acc => mulRow pi qs (k + 1) (acc.modify k (fun c => c + pi * qj))

/-- outer loop of `PriPoly.Mul` -/
def mulRows (q : List S) : List S → Nat → List S → List S
  | [], _, acc => acc
  | pi :: ps, i, acc => mulRows q ps (i + 1) (mulRow pi q i acc)

/-- `PriPoly.Mul`: `make([]Scalar, len p + len q - 1)` panics when both are empty. -/
def priMul (p q : List S) : Out (List S) :=
  if p.length + q.length = 0 then .panic .negLen
  else .ok (mulRows q p 0 (List.replicate (p.length + q.length - 1) 0))

/-- total version used inside `recoverPriPoly`, where both factors are non-empty -/
def polyMul (p q : List S) : List S :=
  mulRows q p 0 (List.replicate (p.length + q.length - 1) 0)

/-- One entry of the map `x` built by `xScalar` / `RecoverCommit`: position in the input
slice, `x = I + 1` as a scalar, and the value `shares[pos].V` the later loop reads. -/
structure Node (S V : Type) where
  pos : Nat
  x : S
  v : V

/-- the guard `s == nil || s.V == nil || s.I < 0 || n <= s.I` (negated) -/
def usablePri (n : Nat) : Option (PriShare S) → Option (Int × S)
  | some ⟨i, some v⟩ => if 0 ≤ i ∧ i < (n : Int) then some (i, v) else none
  | _ => none

/-- `xScalar` (as repaired by /repo 2d8b40a): walk the slice, keep usable entries whose index was
not collected before (`seen` = keys of the Go map `seen`), `break` once `len(x) == t`.
`cnt` is `len(x)` before the current entry. -/
def xScalarAux (t n : Nat) : Nat → Nat → List Int → List (Option (PriShare S)) → List (Node S S)
  | _, _, _, [] => []
  | pos, cnt, seen, s :: rest =>
    match usablePri n s with
    | none => xScalarAux t n (pos + 1) cnt seen rest
    | some (i, v) =>
      if i ∈ seen then xScalarAux t n (pos + 1) cnt seen rest
      else
        ⟨pos, xOf i, v⟩ ::
          (if cnt + 1 = t then [] else xScalarAux t n (pos + 1) (cnt + 1) (i :: seen) rest)

def xScalar (shares : List (Option (PriShare S))) (t n : Nat) : List (Node S S) :=
  xScalarAux t n 0 0 [] shares

/-- inner loop `for j, xj := range x { if i == j {continue}; num *= xj; den *= xj - xi }` -/
def numDen {V : Type} (xs : List (Node S V)) (i : Node S V) (num0 : S) : S × S :=
  xs.foldl (fun (nd : S × S) j =>
    if j.pos = i.pos then nd else (nd.1 * j.x, nd.2 * (j.x - i.x))) (num0, 1)

/-- `num.Div(num, den)`: on bn256 (`mod.Int`) a non-invertible denominator makes
`ModInverse` return nil which `Mul` dereferences; the ed25519 scalar computes
`den^(ℓ-2)` and silently yields 0. -/
def divOut (divPanics : Bool) (num den : S) : Out S :=
  if den = 0 ∧ divPanics = true then .panic .div0 else .ok (num * den⁻¹)

/-- body of the outer loop of `RecoverSecret`: `acc.Add(acc, num.Div(num, den))` -/
def secretStep (divPanics : Bool) (x : List (Node S S)) (acc : Out S) (i : Node S S) : Out S :=
  match acc with
  | .ok a =>
    let nd := numDen x i i.v
    match divOut divPanics nd.1 nd.2 with
    | .ok d => .ok (a + d)
    | .err e => .err e
    | .panic s => .panic s
  | o => o

/-- `RecoverSecret` -/
def recoverSecret (divPanics : Bool) (shares : List (Option (PriShare S))) (t n : Nat) : Out S :=
  let x := xScalar shares t n
  if x.length < t then .err .few
  else x.foldl (secretStep divPanics x) (.ok 0)

/-- `xMinusConst`: the polynomial `x - c` -/
def xMinusConst (c : S) : List S := [-c, 1]

/-- inner loop of `RecoverPriPoly` for the entry `j`: the basis polynomial and the scalar `acc`.
`den.Inv(den)` leaves 0 when `den = 0` (both scalar implementations), no panic. -/
def basisAcc (xs : List (Node S S)) (j : Node S S) : List S × S :=
  xs.foldl (fun (ba : List S × S) m =>
    if m.pos = j.pos then ba
    else (polyMul ba.1 (xMinusConst m.x), ba.2 * (j.x - m.x)⁻¹)) ([1], j.v)

/-- body of the outer loop of `RecoverPriPoly` (`none` = `accPoly == nil`) -/
def polyStep (g : Nat) (x : List (Node S S)) (acc : Out (Option (PriPoly S))) (j : Node S S) :
    Out (Option (PriPoly S)) :=
  match acc with
  | .ok cur =>
    let ba := basisAcc x j
    let basis : PriPoly S := ⟨g, ba.1.map (fun c => c * ba.2)⟩
    match cur with
    | none => .ok (some basis)
    | some a =>
      match priAdd a basis with
      | .ok s => .ok (some s)
      | .err e => .err e
      | .panic s => .panic s
  | o => o

/-- `RecoverPriPoly` (the `accPoly.Add` error is impossible: all bases have the same length,
it is mirrored nevertheless). -/
def recoverPriPoly (g : Nat) (shares : List (Option (PriShare S))) (t n : Nat) : Out (PriPoly S) :=
  let x := xScalar shares t n
  if x.length ≠ t then .err .few
  else
    match x.foldl (polyStep g x) (.ok none) with
    | .ok (some p) => .ok p
    | .ok none => .ok ⟨g, []⟩      -- t = 0: Go returns a nil *PriPoly; printed as the empty polynomial
    | .err e => .err e
    | .panic s => .panic s

end Scalar

section Point
variable {S : Type} [Add S] [Sub S] [Mul S] [Neg S] [Zero S] [One S] [Inv S] [IntCast S] [DecidableEq S]
variable {P : Type} [Add P] [Zero P] [SMul S P] [DecidableEq P]

/-- `PriPoly.Commit(b)` -/
def commit (p : PriPoly S) (b : P) : PubPoly P :=
  ⟨p.g, b, p.coeffs.map (fun c => c • b)⟩

/-- `PubPoly.Eval(i).V` -/
def pubEval (S : Type) [IntCast S] [SMul S P] (c : List P) (i : Int) : P :=
  c.foldr (fun cj v => (xOf i : S) • v + cj) 0

/-- `PubPoly.Shares(n)` -/
def pubShares (S : Type) [IntCast S] [SMul S P] (c : List P) (n : Nat) : List (PubShare P) :=
  (List.range n).map fun (i : Nat) => ⟨(i : Int), some (pubEval S c (i : Int))⟩

/-- `PubPoly.Add` -/
def pubAdd (p q : PubPoly P) : Out (PubPoly P) :=
  if p.g ≠ q.g then .err .groups
  else if p.commits.length ≠ q.commits.length then .err .coeffs
  else .ok ⟨p.g, p.base, List.zipWith (· + ·) p.commits q.commits⟩

/-- `PubPoly.Equal` (with the length check of the `fix:` commit af0959e; before it a proper prefix
compared equal and a shorter argument indexed out of range – finding F3, corpus/C09). The base is
not compared. -/
def pubEqual (p q : PubPoly P) : Bool :=
  if p.g ≠ q.g then false
  else if p.commits.length ≠ q.commits.length then false
  else allEq p.commits q.commits

/-- `PubPoly.Check(s)` for a share with a non-nil value -/
def check (S : Type) [IntCast S] [SMul S P] (p : PubPoly P) (i : Int) (v : S) : Bool :=
  decide (pubEval S p.commits i = v • p.base)

def usablePub (n : Nat) : Option (PubShare P) → Option (Int × P)
  | some ⟨i, some v⟩ => if 0 ≤ i ∧ i < (n : Int) then some (i, v) else none
  | _ => none

/-- the map built at the top of `RecoverCommit` (ALL usable entries with an index not collected
before – one share per index since /repo 2d8b40a –, no `break`) -/
def xCommitAux (S : Type) [IntCast S] (n : Nat) :
    Nat → List Int → List (Option (PubShare P)) → List (Node S P)
  | _, _, [] => []
  | pos, seen, s :: rest =>
    match usablePub n s with
    | none => xCommitAux S n (pos + 1) seen rest
    | some (i, v) =>
      if i ∈ seen then xCommitAux S n (pos + 1) seen rest
      else ⟨pos, xOf i, v⟩ :: xCommitAux S n (pos + 1) (i :: seen) rest

/-- body of the outer loop of `RecoverCommit`: `Acc.Add(Acc, Tmp.Mul(num.Div(num, den), V))` -/
def commitStep (divPanics : Bool) (x : List (Node S P)) (acc : Out P) (i : Node S P) : Out P :=
  match acc with
  | .ok a =>
    let nd := numDen x i (1 : S)
    match divOut divPanics nd.1 nd.2 with
    | .ok d => .ok (a + d • i.v)
    | .err e => .err e
    | .panic s => .panic s
  | o => o

/-- `RecoverCommit` -/
def recoverCommit (divPanics : Bool) (shares : List (Option (PubShare P))) (t n : Nat) : Out P :=
  let x : List (Node S P) := xCommitAux S n 0 [] shares
  if x.length < t then .err .few
  else x.foldl (commitStep divPanics x) (.ok 0)

end Point

end Dos.Share

package c20

// Small-order and mixed-order components (seeded C20g-1: a cofactored Verify) and receivers WITH HISTORY (seeded C20g-2:
// SetBytes that leaves stale high bytes in a reused receiver).
//
//	vfy TAG PUB MSG SIG      a literal (key, message, signature) triple handed to both verifiers; generated with math/big:
//	        the key holder's signatures with a torsion point added to the commitment (R' = k*B + T, h' = H(R'||A||m),
//	        s = k + h'*x), to the key (A' = x*B + T'), to both, for all 8 torsion points; the verdicts must AGREE
//	        (crypto/ed25519 and the bundled Verify are both cofactorless: s*B = R + h*A in the full curve group)
//	drt <op> D …             scalar receiver that already holds the raw bytes D (a large value), then the operation:
//	        setbytes X (every length 0..31, 32, 33..64, 65+) | unmarshal X | setint64 n | zero | one | pick K | set A |
//	        add|sub|mul|div A B | neg|inv A       → MarshalBinary of the receiver
//	drp <op> DP …            point receiver that already holds the point DP: null | base | unmarshal X | set P |
//	        add|sub P Q | neg P | mul S P | mulbase S     → MarshalBinary of the receiver
// Oracles: math/big (affine Edwards arithmetic for points).

import (
	"bytes"
	"crypto/ed25519"
	"crypto/sha512"
	"fmt"
	"math/big"

	"github.com/DOSNetwork/core/sign/schnorr"

	"verifharness/internal/h"
)

// an order-8 point of the curve
var tors8 = func() apt {
	b := h.UnHex("26e8958fc2b227b045c3f489f2ef98f0d5dfac05d3c63339b13802886d53fc05")
	x, y, _, _ := bigDecode(b)
	return apt{x, y}
}()

func execTorsion(w []string, res *h.Result) bool {
	switch w[0] {
	case "vfy":
		pub, msg, sig := h.UnHex(w[2]), msgOf(w[3]), h.UnHex(w[4])
		res.Class = "vfy-" + w[1]
		res.Nontrivial = true
		var bv string
		A := suite.Point()
		if err := A.UnmarshalBinary(pub); err != nil {
			bv = "rej:key"
		} else {
			bv = verdict(schnorr.Verify(suite, A, msg, sig))
		}
		sv := stdVerdict(pub, msg, sig)
		res.Impl = fmt.Sprintf("bv=%s sv=%s", bv, sv)
		if (bv == "ok") != (sv == "ok") {
			res.Oracle = fmt.Sprintf("verifiers-disagree-%s: bundled %s, crypto/ed25519 %s for key %s signature %s", w[1], bv, sv, w[2], w[4])
		}
		return true
	case "drt":
		op := w[1]
		D := h.UnHex(w[2])
		r := mustScalar(D)
		res.Class = "drt-" + op
		res.Nontrivial = true
		var want *big.Int
		red := func(b []byte) *big.Int { return new(big.Int).Mod(le(b), ell) }
		switch op {
		case "setbytes":
			X := h.UnHex(w[3])
			r.SetBytes(X)
			want = red(X)
			res.Class = fmt.Sprintf("drt-setbytes-len%s", lenBucket(len(X)))
		case "unmarshal":
			X := h.UnHex(w[3])
			if err := r.UnmarshalBinary(X); err != nil {
				res.Impl = "err size " + h.Hex(rawOf(r))
				if len(X) == 32 || !bytes.Equal(rawOf(r), le32(red(D))) {
					res.Oracle = "dirty-unmarshal: " + res.Impl
				}
				return true
			}
			want = red(X)
			if len(X) != 32 {
				res.Oracle = fmt.Sprintf("scalar-size: %d bytes accepted", len(X))
			}
		case "setint64":
			var n int64
			fmt.Sscanf(w[3], "%d", &n)
			r.SetInt64(n)
			want = new(big.Int).Mod(big.NewInt(n), ell)
		case "zero":
			r.Zero()
			want = big.NewInt(0)
		case "one":
			r.One()
			want = big.NewInt(1)
		case "pick":
			k := h.UnHex(w[3])
			r.Pick(&fixedStream{buf: append([]byte{}, k...)})
			want = pickValue(k)
		case "set":
			r.Set(mustScalar(h.UnHex(w[3])))
			want = red(h.UnHex(w[3]))
		case "add", "sub", "mul", "div":
			A, B := h.UnHex(w[3]), h.UnHex(w[4])
			a, b := mustScalar(A), mustScalar(B)
			switch op {
			case "add":
				r.Add(a, b)
				want = new(big.Int).Add(red(A), red(B))
			case "sub":
				r.Sub(a, b)
				want = new(big.Int).Sub(red(A), red(B))
			case "mul":
				r.Mul(a, b)
				want = new(big.Int).Mul(red(A), red(B))
			default:
				r.Div(a, b)
				inv := new(big.Int).ModInverse(red(B), ell)
				if inv == nil {
					inv = big.NewInt(0)
				}
				want = new(big.Int).Mul(red(A), inv)
			}
			want.Mod(want, ell)
		case "neg", "inv":
			A := h.UnHex(w[3])
			if op == "neg" {
				r.Neg(mustScalar(A))
				want = new(big.Int).Neg(red(A))
				want.Mod(want, ell)
			} else {
				r.Inv(mustScalar(A))
				want = new(big.Int).ModInverse(red(A), ell)
				if want == nil {
					want = big.NewInt(0)
				}
			}
		default:
			panic("bad drt op")
		}
		out := rawOf(r)
		res.Impl = h.Hex(out)
		if res.Oracle == "" && !bytes.Equal(out, le32(want)) {
			res.Oracle = fmt.Sprintf("dirty-receiver-%s: receiver held %s, got %s want %s", op, w[2], h.Hex(out), h.Hex(le32(want)))
		}
		return true
	case "drp":
		op := w[1]
		res.Class = "drp-" + op
		res.Nontrivial = true
		dec := func(s string) (kyberPoint, apt) {
			b := h.UnHex(s)
			P := suite.Point()
			x, y, _, ok := bigDecode(b)
			if err := P.UnmarshalBinary(b); err != nil || !ok {
				panic("drp: operand is not a curve point")
			}
			return P, apt{x, y}
		}
		r, _ := dec(w[2])
		var want apt
		switch op {
		case "null":
			r.Null()
			want = ptIdent
		case "base":
			r.Base()
			want = bigBase
		case "unmarshal":
			X := h.UnHex(w[3])
			x, y, _, ok := bigDecode(X)
			if err := r.UnmarshalBinary(X); err != nil {
				res.Impl = "err"
				if ok {
					res.Oracle = "dirty-point-unmarshal: valid encoding refused"
				}
				return true
			}
			if !ok {
				res.Impl = "ok"
				res.Oracle = "dirty-point-unmarshal: not a curve point but accepted"
				return true
			}
			want = apt{x, y}
		case "set":
			P, a := dec(w[3])
			r.Set(P)
			want = a
		case "add", "sub":
			P, a := dec(w[3])
			Q, b := dec(w[4])
			if op == "add" {
				r.Add(P, Q)
				want = bigAdd(a, b)
			} else {
				r.Sub(P, Q)
				want = bigAdd(a, bigNeg(b))
			}
		case "neg":
			P, a := dec(w[3])
			r.Neg(P)
			want = bigNeg(a)
		case "mul":
			S := h.UnHex(w[3])
			P, a := dec(w[4])
			r.Mul(mustScalar(S), P)
			want = bigMul(new(big.Int).Mod(le(S), ell), a) // operands are multiples of B
		case "mulbase":
			S := h.UnHex(w[3])
			r.Mul(mustScalar(S), nil)
			want = bigMul(new(big.Int).Mod(le(S), ell), bigBase)
		default:
			panic("bad drp op")
		}
		out, _ := r.MarshalBinary()
		res.Impl = h.Hex(out)
		if !bytes.Equal(out, bigEncode(want.x, want.y)) {
			res.Oracle = fmt.Sprintf("dirty-point-%s: got %s want %s", op, h.Hex(out), h.Hex(bigEncode(want.x, want.y)))
		}
		return true
	}
	return false
}

func lenBucket(n int) string {
	switch {
	case n < 32:
		return "<32"
	case n == 32:
		return "32"
	case n <= 64:
		return "33-64"
	}
	return ">64"
}

func genTorsion(rng *h.Rng, thorough bool, emit func(string)) {
	// --- small-order components ---
	nk := 2
	if thorough {
		nk = 12
	}
	tor := make([]apt, 8)
	tor[0] = ptIdent
	for j := 1; j < 8; j++ {
		tor[j] = bigAdd(tor[j-1], tors8)
	}
	for i := 0; i < nk; i++ {
		seed := rng.Bytes(32)
		x := new(big.Int).Mod(le(seedScalar(seed)), ell)
		A := bigMul(x, bigBase)
		msg := rng.Bytes(1 + rng.Intn(30))
		mk := func(tag string, jr, ja int) {
			k := rng.Big(ell)
			R := bigAdd(bigMul(k, bigBase), tor[jr])
			Ap := bigAdd(A, tor[ja])
			rb, ab := bigEncode(R.x, R.y), bigEncode(Ap.x, Ap.y)
			d := sha512.Sum512(append(append(append([]byte{}, rb...), ab...), msg...))
			hh := new(big.Int).Mod(le(d[:]), ell)
			s := new(big.Int).Mul(hh, x)
			s.Add(s, k).Mod(s, ell)
			emit(fmt.Sprintf("vfy %s %s x%s %s", tag, h.Hex(ab), h.Hex(msg), h.Hex(append(rb, le32(s)...))))
		}
		for j := 0; j < 8; j++ {
			mk(fmt.Sprintf("r%d", j), j, 0)
			mk(fmt.Sprintf("a%d", j), 0, j)
			mk(fmt.Sprintf("ra%d", j), j, (j*3+1)%8)
		}
		// honest standard signature under the honest key, and under the key shifted by a torsion point
		priv := ed25519.NewKeyFromSeed(seed)
		sig := ed25519.Sign(priv, msg)
		emit(fmt.Sprintf("vfy std %s x%s %s", h.Hex(priv[32:]), h.Hex(msg), h.Hex(sig)))
		Ap := bigAdd(A, tor[4])
		emit(fmt.Sprintf("vfy stdA4 %s x%s %s", h.Hex(bigEncode(Ap.x, Ap.y)), h.Hex(msg), h.Hex(sig)))
	}
	// the torsion points themselves as keys and commitments, S = 0
	for j := 0; j < 8; j++ {
		tb := bigEncode(tor[j].x, tor[j].y)
		emit(fmt.Sprintf("vfy tkey%d %s x616263 %s", j, h.Hex(tb), h.Hex(append(append([]byte{}, tb...), make([]byte, 32)...))))
	}
	// --- receivers with history ---
	ff := bytes.Repeat([]byte{0xff}, 32)
	dirties := []string{h.Hex(ff), hx32(new(big.Int).Sub(ell, big.NewInt(1))), h.Hex(rng.Bytes(32))}
	for di, D := range dirties {
		for n := 0; n <= 66; n++ {
			if !thorough && di > 0 && n%5 != 0 && n != 31 && n != 32 && n != 33 {
				continue
			}
			emit(fmt.Sprintf("drt setbytes %s %s", D, h.Hex(rng.Bytes(n))))
			if n > 0 {
				emit(fmt.Sprintf("drt setbytes %s %s", D, h.Hex(make([]byte, n))))
				emit(fmt.Sprintf("drt setbytes %s %s", D, h.Hex(bytes.Repeat([]byte{0xff}, n))))
				b := make([]byte, n)
				b[n-1] = byte(1 + rng.Intn(255))
				emit(fmt.Sprintf("drt setbytes %s %s", D, h.Hex(b)))
			}
		}
		emit(fmt.Sprintf("drt setbytes %s %s", D, h.Hex(rng.Bytes(100))))
		emit(fmt.Sprintf("drt setbytes %s %s", D, h.Hex(rng.Bytes(129))))
		for _, n := range []int{0, 1, 31, 32, 33} {
			emit(fmt.Sprintf("drt unmarshal %s %s", D, h.Hex(rng.Bytes(n))))
		}
		for _, n := range []string{"0", "1", "-1", "9223372036854775807", "-9223372036854775808"} {
			emit(fmt.Sprintf("drt setint64 %s %s", D, n))
		}
		emit("drt zero " + D)
		emit("drt one " + D)
		emit(fmt.Sprintf("drt pick %s %s", D, nonce(rng)))
		a, b := hx32(rng.Big(ell)), hx32(rng.Big(pow2(256)))
		emit(fmt.Sprintf("drt set %s %s", D, b))
		for _, op := range []string{"add", "sub", "mul"} {
			emit(fmt.Sprintf("drt %s %s %s %s", op, D, a, b))
			emit(fmt.Sprintf("drt %s %s %s %s", op, D, hx32(big.NewInt(0)), hx32(big.NewInt(1))))
		}
		emit(fmt.Sprintf("drt neg %s %s", D, a))
		emit(fmt.Sprintf("drt neg %s %s", D, hx32(big.NewInt(0))))
		if di == 0 || thorough {
			emit(fmt.Sprintf("drt div %s %s %s", D, a, hx32(big.NewInt(3))))
			emit(fmt.Sprintf("drt inv %s %s", D, hx32(big.NewInt(2))))
		}
	}
	base := "5866666666666666666666666666666666666666666666666666666666666666"
	pts := []string{base, h.Hex(ed25519Pub(rng.Bytes(32))), h.Hex(ed25519Pub(rng.Bytes(32)))}
	for i, DP := range pts {
		P, Q := pts[(i+1)%3], pts[(i+2)%3]
		emit("drp null " + DP)
		emit("drp base " + DP)
		emit(fmt.Sprintf("drp unmarshal %s %s", DP, P))
		emit(fmt.Sprintf("drp unmarshal %s %s", DP, "0100000000000000000000000000000000000000000000000000000000000000"))
		emit(fmt.Sprintf("drp unmarshal %s %s", DP, h.Hex(rng.Bytes(32))))
		emit(fmt.Sprintf("drp set %s %s", DP, Q))
		emit(fmt.Sprintf("drp add %s %s %s", DP, P, Q))
		emit(fmt.Sprintf("drp sub %s %s %s", DP, P, Q))
		emit(fmt.Sprintf("drp neg %s %s", DP, P))
		if i == 0 || thorough {
			emit(fmt.Sprintf("drp mul %s %s %s", DP, hx32(rng.Big(ell)), P))
			emit(fmt.Sprintf("drp mulbase %s %s", DP, hx32(rng.Big(ell))))
		}
	}
}

/-
C20 — the Ed25519 suite and Schnorr signatures interoperate with standard EdDSA.
Schnorr part (sign/schnorr/schnorr.go as REPAIRED by /repo 9d0b445); the scalar-arithmetic and
encoding part is in Props/C20Scalar.lean.  Helper lemmas: Proofs/Schnorr.lean, Proofs/Ed25519Enc.lean.

All theorems are about the executable model `Schnorr.sign / verify / verifyPre / verifyStd`
(Model/Schnorr.lean), for EVERY commutative group `G`, every record `g` that computes in it
(`Lawful g`), EVERY hash function `H`, all keys, nonces, messages and byte strings.

The alteration clause ("any altered message, signature or key is rejected") is proved as far as it is a
theorem: `single_alteration_cases` — an altered S or length is rejected outright; an accepted altered message,
key or R part EXHIBITS an explicit event of the hash alone (`altered_message_needs_collision`,
`altered_key_needs_hash_target`, `altered_R_needs_hash_target`), and `R_alias_accepted` shows the one case where an
altered R is genuinely accepted (non-canonical encoding of the same point, unreachable from honest signatures).
That SHA-512 avoids those events is an assumption, not a theorem.  (An earlier `def C20_alteration_full`
quantified over every record without `Lawful` and was false — refuted with G := PUnit — it has been removed.)
-/
import DosModel.Proofs.SchnorrDlog
import DosModel.Gen.SchnorrFacts

namespace Dos.Props.C20
open Dos Dos.Ed25519 Dos.Schnorr

variable {G : Type} [AddCommGroup G]

/-- **T. the model is pinned to the source it was written against** (regenerated from
sign/schnorr/schnorr.go on every run): the digest is fed R, then the public key, then the message
(RFC 8032's order R‖A‖M); `Sign` and `Verify` call `hash` with (public, R); the response is
`Add(k, Mul(private, h))`; and `Verify` is statement for statement the function that was modelled. -/
theorem schnorr_source_pinned :
    Gen.SchnorrFacts.hashWrites = ["r", "public", "msg"]
    ∧ Gen.SchnorrFacts.hashParams = ["g", "public", "r", "msg"]
    ∧ Gen.SchnorrFacts.signHashArgs = ["g,public,R,msg"]
    ∧ Gen.SchnorrFacts.verifyHashArgs = ["g,public,R,msg"]
    ∧ Gen.SchnorrFacts.hashSrc =
      ["h := sha512.New()",
       "if _, err := r.MarshalTo(h); err != nil { return nil, err }",
       "if _, err := public.MarshalTo(h); err != nil { return nil, err }",
       "if _, err := h.Write(msg); err != nil { return nil, err }",
       "return g.Scalar().SetBytes(h.Sum(nil)), nil"]
    ∧ Gen.SchnorrFacts.signSrc =
      ["var g kyber.Group = s",
       "k := g.Scalar().Pick(s.RandomStream())",
       "R := g.Point().Mul(k, nil)",
       "public := g.Point().Mul(private, nil)",
       "h, err := hash(g, public, R, msg)",
       "if err != nil { return nil, err }",
       "xh := g.Scalar().Mul(private, h)",
       "S := g.Scalar().Add(k, xh)",
       "var b bytes.Buffer",
       "if _, err := R.MarshalTo(&b); err != nil { return nil, err }",
       "if _, err := S.MarshalTo(&b); err != nil { return nil, err }",
       "return b.Bytes(), nil"]
    ∧ Gen.SchnorrFacts.verifySrc =
      ["R := g.Point()",
       "s := g.Scalar()",
       "pointSize := R.MarshalSize()",
       "scalarSize := s.MarshalSize()",
       "sigSize := scalarSize + pointSize",
       "if len(sig) != sigSize { return fmt.Errorf(\"schnorr: signature of invalid length %d instead of %d\", len(sig), sigSize) }",
       "if err := R.UnmarshalBinary(sig[:pointSize]); err != nil { return err }",
       "if err := s.UnmarshalBinary(sig[pointSize:]); err != nil { return err }",
       "if sb, err := s.MarshalBinary(); err != nil || !bytes.Equal(sb, sig[pointSize:]) { return errors.New(\"schnorr: signature scalar is not canonical\") }",
       "h, err := hash(g, public, R, msg)",
       "if err != nil { return err }",
       "S := g.Point().Mul(s, nil)",
       "Ah := g.Point().Mul(h, public)",
       "RAs := g.Point().Add(R, Ah)",
       "if !S.Equal(RAs) { return errors.New(\"schnorr: invalid signature\") }",
       "return nil"] :=
  ⟨rfl, rfl, rfl, rfl, rfl, rfl, rfl⟩

/-- **1. completeness, any group, any hash value.**  For R = k•B, A = x•B and the response
s = k + x·h reduced modulo ℓ (as `scMul`, `scAdd` and `MarshalBinary` reduce it): s•B = R + h•A.
With h = H(R‖A‖M) this is the verification equation of RFC 8032 §5.1.7. -/
theorem schnorr_complete (B : G) (hB : ell • B = 0) (k x h : ℕ) :
    ((k + x * h % ell) % ell) • B = k • B + h • (x • B) :=
  response_eq B hB k x h

/-- **2. what `Verify` accepts (any record `g`, lawful or not).**  `Verify` returns nil iff the
signature has 64 bytes, its first half decodes to a point R, its second half spells a number
s < ℓ (canonical S — the repair), and Equal(s•B, R + h•A) for h = H(enc R ‖ enc A ‖ M) mod ℓ. -/
theorem verify_sound_model {G : Type} (g : Grp G) (H : Bytes → Bytes) (A : G) (msg sig : Bytes) :
    verify g H A msg sig = .ok () ↔
      sig.length = 64 ∧ ∃ R, g.dec (sig.take 32) = some R ∧ leNat (sig.drop 32) < ell ∧
        g.eq (g.smul (leNat (sig.drop 32)) g.base) (g.add R (g.smul (challenge g H A R msg) A)) = true := by
  unfold verify
  by_cases hl : sig.length = 64
  · have hd : (sig.drop 32).length = 32 := by rw [List.length_drop, hl]
    simp only [hl, ne_eq, not_true_eq_false, if_false, true_and]
    cases hdec : g.dec (sig.take 32) with
    | none => simp
    | some R =>
      by_cases hc : scCanonical (sig.drop 32) = true
      · have hlt := ((scCanonical_iff _).mp hc).2
        by_cases he : g.eq (g.smul (leNat (sig.drop 32)) g.base) (g.add R (g.smul (challenge g H A R msg) A)) = true
        · simp [hc, he, hlt]
        · simp [hc, he]
      · have hnlt : ¬ leNat (sig.drop 32) < ell := fun h => hc ((scCanonical_iff _).mpr ⟨hd, h⟩)
        simp [hc, hnlt]
  · simp [hl]

/-- 2, in a lawful group: the condition is the group equation s•B = R + h•A with s < ℓ. -/
theorem verify_sound {g : Grp G} (L : Lawful g) (H : Bytes → Bytes) (A : G) (msg sig : Bytes) :
    verify g H A msg sig = .ok () ↔
      sig.length = 64 ∧ ∃ R, g.dec (sig.take 32) = some R ∧ leNat (sig.drop 32) < ell ∧
        leNat (sig.drop 32) • g.base = R + challenge g H A R msg • A := by
  rw [verify_sound_model]
  constructor
  · rintro ⟨hl, R, hR, hs, he⟩
    refine ⟨hl, R, hR, hs, ?_⟩
    rw [L.eq_iff, L.smul_eq, L.add_eq, L.smul_eq] at he
    exact he
  · rintro ⟨hl, R, hR, hs, he⟩
    refine ⟨hl, R, hR, hs, ?_⟩
    rw [L.eq_iff, L.smul_eq, L.add_eq, L.smul_eq]
    exact he

/-- 2′ (historical, finding F5): `Verify` before the repair accepted iff the equation held for
**s taken modulo ℓ** — the 32 bytes of S entered unreduced. -/
theorem verifyPre_sound {g : Grp G} (L : Lawful g) (H : Bytes → Bytes) (A : G) (msg sig : Bytes) :
    verifyPre g H A msg sig = .ok () ↔
      sig.length = 64 ∧ ∃ R, g.dec (sig.take 32) = some R ∧
        (leNat (sig.drop 32) % ell) • g.base = R + challenge g H A R msg • A := by
  unfold verifyPre
  by_cases hl : sig.length = 64
  · simp only [hl, ne_eq, not_true_eq_false, if_false, true_and]
    cases hdec : g.dec (sig.take 32) with
    | none => simp
    | some R =>
      have e : g.eq (g.smul (leNat (sig.drop 32)) g.base) (g.add R (g.smul (challenge g H A R msg) A)) = true
          ↔ (leNat (sig.drop 32) % ell) • g.base = R + challenge g H A R msg • A := by
        rw [L.eq_iff, L.smul_eq, L.add_eq, L.smul_eq, mod_nsmul _ L.order]
      by_cases he : g.eq (g.smul (leNat (sig.drop 32)) g.base) (g.add R (g.smul (challenge g H A R msg) A)) = true
      · simp [he, e.mp he]
      · have : ¬ (leNat (sig.drop 32) % ell) • g.base = R + challenge g H A R msg • A := fun h => he (e.mpr h)
        simp [he, this]
  · simp [hl]

/-- **1′. a signature made by `Sign` is accepted by `Verify` AND by the standard (RFC 8032 /
crypto/ed25519) verifier** for the same public key and message — every lawful group, every hash,
every private scalar x (also unreduced), every nonce k, every message. -/
theorem sign_verifies {g : Grp G} (L : Lawful g) (H : Bytes → Bytes) (x k : ℕ) (msg : Bytes) :
    verify g H (g.smul x g.base) msg (sign g H x k msg) = .ok ()
    ∧ verifyStd g H (g.enc (g.smul x g.base)) msg (sign g H x k msg) = true := by
  have hS : (k + x * challenge g H (g.smul x g.base) (g.smul k g.base) msg % ell) % ell < ell :=
    Nat.mod_lt _ (by decide)
  have hlen : (sign g H x k msg).length = 64 := by
    simp [sign, L.enc_len, natLE_length]
  have htake : (sign g H x k msg).take 32 = g.enc (g.smul k g.base) := take_enc_append L _ _
  have hdrop : (sign g H x k msg).drop 32
      = natLE 32 ((k + x * challenge g H (g.smul x g.base) (g.smul k g.base) msg % ell) % ell) :=
    drop_enc_append L _ _
  have hle : leNat ((sign g H x k msg).drop 32)
      = (k + x * challenge g H (g.smul x g.base) (g.smul k g.base) msg % ell) % ell := by
    rw [hdrop, leNat_natLE_of_lt 32 _ (Nat.lt_trans hS ell_lt)]
  have heq : leNat ((sign g H x k msg).drop 32) • g.base
      = g.smul k g.base + challenge g H (g.smul x g.base) (g.smul k g.base) msg • g.smul x g.base := by
    rw [hle, L.smul_eq, L.smul_eq]
    exact response_eq g.base L.order k x _
  constructor
  · rw [verify_sound L]
    exact ⟨hlen, g.smul k g.base, by rw [htake, L.dec_enc], by rw [hle]; exact hS, heq⟩
  · unfold verifyStd
    have hc : scCanonical ((sign g H x k msg).drop 32) = true := by
      rw [hdrop]; exact scCanonical_natLE _ hS
    have hq : g.eq (g.smul (leNat ((sign g H x k msg).drop 32)) g.base)
        (g.add (g.smul k g.base) (g.smul (challenge g H (g.smul x g.base) (g.smul k g.base) msg) (g.smul x g.base))) = true := by
      rw [L.eq_iff, L.smul_eq, L.add_eq, L.smul_eq (challenge _ _ _ _ _)]
      exact heq
    simp only [hlen, ne_eq, not_true_eq_false, if_false, htake, L.dec_enc, hc, beq_self_eq_true, Bool.true_and]
    exact hq

/-- **interoperability, both directions.**  For a public key in canonical encoding and a signature
whose R part is a canonical point encoding, the repaired `Verify` accepts exactly the signatures
the standard verifier accepts.  (Standard signatures always carry a canonical R.) -/
theorem verify_iff_std {G : Type} (g : Grp G) (H : Bytes → Bytes) (pub msg sig : Bytes) (A : G)
    (hA : g.dec pub = some A) (hpub : g.enc A = pub)
    (hR : ∀ R, g.dec (sig.take 32) = some R → g.enc R = sig.take 32) :
    verify g H A msg sig = .ok () ↔ verifyStd g H pub msg sig = true := by
  rw [verify_sound_model]
  unfold verifyStd
  by_cases hl : sig.length = 64
  · have hd : (sig.drop 32).length = 32 := by rw [List.length_drop, hl]
    simp only [hl, ne_eq, not_true_eq_false, if_false, true_and, hA]
    cases hdec : g.dec (sig.take 32) with
    | none => simp
    | some R =>
      have hh : leNat (H (sig.take 32 ++ pub ++ msg)) % ell = challenge g H A R msg := by
        unfold challenge; rw [hR R hdec, hpub]
      simp only [hh, hR R hdec, beq_self_eq_true, Bool.and_true, Bool.and_eq_true]
      constructor
      · rintro ⟨R', h1, hs, he⟩
        cases h1
        exact ⟨(scCanonical_iff _).mpr ⟨hd, hs⟩, he⟩
      · rintro ⟨hc, he⟩
        exact ⟨R, rfl, ((scCanonical_iff _).mp hc).2, he⟩
  · simp [hl]

/-- **3 (historical witness, finding F5).**  Before the repair `Verify(R‖s)` and `Verify(R‖s+ℓ)`
gave the same answer whenever s + ℓ still fits in 32 bytes … -/
theorem noncanonical_S_prefix {g : Grp G} (L : Lawful g) (H : Bytes → Bytes) (A : G) (msg Rb : Bytes)
    (hRb : Rb.length = 32) (s : ℕ) (hs : s + ell < 2 ^ 256) :
    verifyPre g H A msg (Rb ++ natLE 32 (s + ell)) = verifyPre g H A msg (Rb ++ natLE 32 s) := by
  have h256 : (256 : ℕ) ^ 32 = 2 ^ 256 := by decide
  have t1 : ∀ n, (Rb ++ natLE 32 n).take 32 = Rb := fun n => by
    rw [List.take_append_of_le_length (by omega)]; exact List.take_of_length_le (by omega)
  have t2 : ∀ n, (Rb ++ natLE 32 n).drop 32 = natLE 32 n := fun n => by
    rw [List.drop_append_of_le_length (by omega), List.drop_of_length_le (by omega)]; rfl
  have l1 : ∀ n, (Rb ++ natLE 32 n).length = 64 := fun n => by simp [hRb, natLE_length]
  unfold verifyPre
  simp only [l1, t1, t2, ne_eq, not_true_eq_false, if_false]
  rw [leNat_natLE_of_lt 32 (s + ell) (by omega), leNat_natLE_of_lt 32 s (by omega)]
  cases g.dec Rb with
  | none => rfl
  | some R =>
    have : g.smul (s + ell) g.base = g.smul s g.base := by
      rw [L.smul_eq, L.smul_eq]
      exact nsmul_congr_mod _ L.order _ _ (by simp)
    simp only [this]

/-- … so every signature `Sign` makes had a second, different, accepted encoding R‖S+ℓ,
which the repaired `Verify` (like crypto/ed25519) rejects as non-canonical. -/
theorem malleability_witness_and_repair {g : Grp G} (L : Lawful g) (H : Bytes → Bytes) (x k : ℕ) (msg : Bytes) :
    let sig := sign g H x k msg
    let sig' := sig.take 32 ++ natLE 32 (leNat (sig.drop 32) + ell)
    sig' ≠ sig
    ∧ verifyPre g H (g.smul x g.base) msg sig' = .ok ()
    ∧ verify g H (g.smul x g.base) msg sig' = .error .noncanonical := by
  intro sig sig'
  have hS : (k + x * challenge g H (g.smul x g.base) (g.smul k g.base) msg % ell) % ell < ell :=
    Nat.mod_lt _ (by decide)
  have htake : sig.take 32 = g.enc (g.smul k g.base) := take_enc_append L _ _
  have hdrop : sig.drop 32
      = natLE 32 ((k + x * challenge g H (g.smul x g.base) (g.smul k g.base) msg % ell) % ell) :=
    drop_enc_append L _ _
  have hle : leNat (sig.drop 32)
      = (k + x * challenge g H (g.smul x g.base) (g.smul k g.base) msg % ell) % ell := by
    rw [hdrop, leNat_natLE_of_lt 32 _ (Nat.lt_trans hS ell_lt)]
  have h2l : leNat (sig.drop 32) + ell < 2 ^ 256 := by
    rw [hle]
    have : 2 * ell < 2 ^ 256 := by decide
    omega
  have h256 : (256 : ℕ) ^ 32 = 2 ^ 256 := by decide
  have hl32 : (sig.take 32).length = 32 := by rw [htake, L.enc_len]
  have hsplit : sig = sig.take 32 ++ natLE 32 (leNat (sig.drop 32)) := by
    have : natLE 32 (leNat (sig.drop 32)) = sig.drop 32 := by
      rw [hle, hdrop]
    rw [this, List.take_append_drop]
  have hdrop' : sig'.drop 32 = natLE 32 (leNat (sig.drop 32) + ell) := by
    show (sig.take 32 ++ _).drop 32 = _
    rw [List.drop_append_of_le_length (by omega), List.drop_of_length_le (by omega)]; rfl
  have hle' : leNat (sig'.drop 32) = leNat (sig.drop 32) + ell := by
    rw [hdrop', leNat_natLE_of_lt 32 _ (by omega)]
  refine ⟨?_, ?_, ?_⟩
  · intro h
    have := congrArg (fun z => leNat (z.drop 32)) h
    simp only [hle'] at this
    have hp : 0 < ell := by decide
    omega
  · show verifyPre g H (g.smul x g.base) msg (sig.take 32 ++ natLE 32 (leNat (sig.drop 32) + ell)) = _
    rw [noncanonical_S_prefix L H _ msg _ hl32 _ h2l, ← hsplit]
    -- the original signature verified before the repair as well
    rw [verifyPre_sound L]
    have hv := (sign_verifies L H x k msg).1
    rw [verify_sound L] at hv
    obtain ⟨hl, R, hR, _, he⟩ := hv
    refine ⟨hl, R, hR, ?_⟩
    rw [mod_nsmul _ L.order]; exact he
  · have hlen' : sig'.length = 64 := by
      show (sig.take 32 ++ natLE 32 _).length = 64
      rw [List.length_append, hl32, natLE_length]
    have htake' : sig'.take 32 = g.enc (g.smul k g.base) := by
      show (sig.take 32 ++ _).take 32 = _
      rw [List.take_append_of_le_length (by omega), List.take_of_length_le (by omega), htake]
    have hnc : scCanonical (sig'.drop 32) = false := by
      cases hc : scCanonical (sig'.drop 32) with
      | false => rfl
      | true =>
        have := ((scCanonical_iff _).mp hc).2
        rw [hle'] at this
        omega
    unfold verify
    simp [hlen', htake', L.dec_enc, hnc]

/-- **3′ (repaired code): full non-malleability in S.**  If `Verify` accepts two signatures with the
same R part for the same key and message they are the same byte string.  (B has order exactly ℓ.) -/
theorem verify_nonmalleable_S {g : Grp G} (L : Lawful g) (hord : ∀ n : ℕ, n • g.base = 0 → ell ∣ n)
    (H : Bytes → Bytes) (A : G) (msg sig sig' : Bytes)
    (h1 : verify g H A msg sig = .ok ()) (h2 : verify g H A msg sig' = .ok ())
    (hR : sig.take 32 = sig'.take 32) : sig = sig' := by
  rw [verify_sound L] at h1 h2
  obtain ⟨l1, R, hR1, s1, e1⟩ := h1
  obtain ⟨l2, R', hR2, s2, e2⟩ := h2
  rw [← hR, hR1] at hR2
  cases hR2
  have hs : leNat (sig.drop 32) = leNat (sig'.drop 32) :=
    scalar_unique g.base hord _ _ s1 s2 (by rw [e1, e2])
  have hd : sig.drop 32 = sig'.drop 32 :=
    leNat_inj _ _ (by rw [List.length_drop, List.length_drop, l1, l2]) hs
  rw [← List.take_append_drop 32 sig, ← List.take_append_drop 32 sig', hR, hd]

/-- 3″: an accepted S is below ℓ and is THE scalar below ℓ satisfying the verification equation. -/
theorem verify_S_unique {g : Grp G} (L : Lawful g) (hord : ∀ n : ℕ, n • g.base = 0 → ell ∣ n)
    (H : Bytes → Bytes) (A : G) (msg sig : Bytes) (h : verify g H A msg sig = .ok ()) :
    leNat (sig.drop 32) < ell ∧ ∃ R, g.dec (sig.take 32) = some R ∧
      ∀ t : ℕ, t < ell → t • g.base = R + challenge g H A R msg • A → t = leNat (sig.drop 32) := by
  rw [verify_sound L] at h
  obtain ⟨_, R, hR, hs, he⟩ := h
  exact ⟨hs, R, hR, fun t ht hte => scalar_unique g.base hord _ _ ht hs (by rw [hte, he])⟩

/-- altered S (same R, key, message) is rejected -/
theorem altered_S_rejected {g : Grp G} (L : Lawful g) (hord : ∀ n : ℕ, n • g.base = 0 → ell ∣ n)
    (H : Bytes → Bytes) (A : G) (msg sig sig' : Bytes) (h1 : verify g H A msg sig = .ok ())
    (hR : sig.take 32 = sig'.take 32) (hne : sig' ≠ sig) : verify g H A msg sig' ≠ .ok () :=
  fun h2 => hne (verify_nonmalleable_S L hord H A msg sig sig' h1 h2 hR).symm

/-- truncated or extended signatures are rejected (63 bytes, 65 bytes, …) -/
theorem wrong_length_rejected {G : Type} (g : Grp G) (H : Bytes → Bytes) (A : G) (msg sig : Bytes)
    (h : sig.length ≠ 64) : verify g H A msg sig = .error .length := by
  simp [verify, h]

/-- an altered message accepted with the same signature is a collision of the challenge hash
modulo ℓ (the public key has order exactly ℓ): acceptance of altered messages reduces to the hash. -/
theorem altered_message_needs_collision {g : Grp G} (L : Lawful g) (H : Bytes → Bytes) (A : G)
    (hordA : ∀ n : ℕ, n • A = 0 → ell ∣ n) (msg msg' sig : Bytes)
    (h1 : verify g H A msg sig = .ok ()) (h2 : verify g H A msg' sig = .ok ()) :
    ∃ R, g.dec (sig.take 32) = some R ∧ challenge g H A R msg = challenge g H A R msg' := by
  rw [verify_sound L] at h1 h2
  obtain ⟨_, R, hR1, _, e1⟩ := h1
  obtain ⟨_, R', hR2, _, e2⟩ := h2
  rw [hR1] at hR2
  cases hR2
  refine ⟨R, hR1, ?_⟩
  have hlt : ∀ m, challenge g H A R m < ell := fun m => Nat.mod_lt _ (by decide)
  have : challenge g H A R msg • A = challenge g H A R msg' • A := by
    rw [e1] at e2
    exact add_left_cancel e2
  exact scalar_unique A hordA _ _ (hlt _) (hlt _) this

/-- an altered PUBLIC KEY accepted with the same message and signature forces the relation
h′•A′ = h•A between the two challenges (h = H(R‖A‖M), h′ = H(R‖A′‖M)) … -/
theorem altered_key_needs_hash_relation {g : Grp G} (L : Lawful g) (H : Bytes → Bytes) (A A' : G)
    (msg sig : Bytes) (h1 : verify g H A msg sig = .ok ()) (h2 : verify g H A' msg sig = .ok ()) :
    ∃ R, g.dec (sig.take 32) = some R ∧ challenge g H A' R msg • A' = challenge g H A R msg • A := by
  rw [verify_sound L] at h1 h2
  obtain ⟨_, R, hR1, _, e1⟩ := h1
  obtain ⟨_, R', hR2, _, e2⟩ := h2
  rw [hR1] at hR2
  cases hR2
  exact ⟨R, hR1, add_left_cancel (e2.symm.trans e1)⟩

/-- … for keys A = x•B, A′ = x′•B (B of order exactly ℓ) this is x′·h′ ≡ x·h (mod ℓ): the digest of the
altered key must hit ONE prescribed residue among ℓ (a target-preimage event for the hash, not a matter of algebra). -/
theorem altered_key_needs_hash_target {g : Grp G} (L : Lawful g) (hord : ∀ n : ℕ, n • g.base = 0 → ell ∣ n)
    (H : Bytes → Bytes) (x x' : ℕ) (msg sig : Bytes)
    (h1 : verify g H (g.smul x g.base) msg sig = .ok ()) (h2 : verify g H (g.smul x' g.base) msg sig = .ok ()) :
    ∃ R, g.dec (sig.take 32) = some R ∧
      (x' * challenge g H (g.smul x' g.base) R msg) % ell = (x * challenge g H (g.smul x g.base) R msg) % ell := by
  obtain ⟨R, hR, e⟩ := altered_key_needs_hash_relation L H _ _ msg sig h1 h2
  refine ⟨R, hR, nsmul_eq_imp_mod_eq g.base L.order hord _ _ ?_⟩
  rw [mul_nsmul, mul_nsmul, ← L.smul_eq x', ← L.smul_eq x]
  exact e

/-- an altered R PART accepted with the same S, key and message forces R′ + h′•A = R + h•A
(h′ = H(R′‖A‖M)): either R′ is the same point in another encoding (then it IS accepted, see `R_alias_accepted`),
or the digest of the new R′ hits the one residue h′ with h′•A = h•A + R − R′. -/
theorem altered_R_needs_hash_target {g : Grp G} (L : Lawful g) (H : Bytes → Bytes) (A : G) (msg sig sig' : Bytes)
    (hS : sig'.drop 32 = sig.drop 32)
    (h1 : verify g H A msg sig = .ok ()) (h2 : verify g H A msg sig' = .ok ()) :
    ∃ R R', g.dec (sig.take 32) = some R ∧ g.dec (sig'.take 32) = some R' ∧
      R' + challenge g H A R' msg • A = R + challenge g H A R msg • A := by
  rw [verify_sound L] at h1 h2
  obtain ⟨_, R, hR1, _, e1⟩ := h1
  obtain ⟨_, R', hR2, _, e2⟩ := h2
  rw [hS] at e2
  exact ⟨R, R', hR1, hR2, e2.symm.trans e1⟩

/-- the same in discrete-log form (R = k•B, R′ = k′•B, A = x•B): k′ + x·h′ ≡ k + x·h (mod ℓ) -/
theorem altered_R_needs_hash_target_dlog {g : Grp G} (L : Lawful g) (hord : ∀ n : ℕ, n • g.base = 0 → ell ∣ n)
    (H : Bytes → Bytes) (x k k' : ℕ) (msg sig sig' : Bytes) (hS : sig'.drop 32 = sig.drop 32)
    (hk : g.dec (sig.take 32) = some (g.smul k g.base)) (hk' : g.dec (sig'.take 32) = some (g.smul k' g.base))
    (h1 : verify g H (g.smul x g.base) msg sig = .ok ()) (h2 : verify g H (g.smul x g.base) msg sig' = .ok ()) :
    (k' + x * challenge g H (g.smul x g.base) (g.smul k' g.base) msg) % ell
      = (k + x * challenge g H (g.smul x g.base) (g.smul k g.base) msg) % ell := by
  obtain ⟨R, R', hR, hR', e⟩ := altered_R_needs_hash_target L H _ msg sig sig' hS h1 h2
  rw [hk] at hR
  rw [hk'] at hR'
  cases hR
  cases hR'
  apply nsmul_eq_imp_mod_eq g.base L.order hord
  rw [add_nsmul, add_nsmul, mul_nsmul, mul_nsmul, ← L.smul_eq k', ← L.smul_eq k, ← L.smul_eq x]
  exact e

/-- the limit of "an altered R is rejected" (any record `g`): a second byte string that DECODES TO THE SAME
POINT R (ref10 accepts y ≥ p and "−0", so ≈ 20 points have one) with the same S is accepted, because `hash`
is fed the re-encoded R. crypto/ed25519 rejects it (it compares the received bytes). No signature made by
`Sign` or by the standard signer has such an R except with probability ≈ 2^-250. -/
theorem R_alias_accepted {G : Type} (g : Grp G) (H : Bytes → Bytes) (A : G) (msg sig sig' : Bytes)
    (hl : sig'.length = 64) (hS : sig'.drop 32 = sig.drop 32) (R : G)
    (hR : g.dec (sig.take 32) = some R) (hR' : g.dec (sig'.take 32) = some R)
    (h1 : verify g H A msg sig = .ok ()) : verify g H A msg sig' = .ok () := by
  rw [verify_sound_model] at h1 ⊢
  obtain ⟨_, R1, hR1, hs, he⟩ := h1
  rw [hR] at hR1
  cases hR1
  exact ⟨hl, R, hR', by rw [hS]; exact hs, by rw [hS]; exact he⟩

/-- **the alteration clause, as far as it is a theorem.**  Let (A, M, sig) be accepted and let ONE component be
altered (this is what every single-bit mutation of signature, message or key is) and accepted again. Then:
  · altered S (same R bytes): impossible;
  · altered length: impossible;
  · altered message: the two challenges collide modulo ℓ;
  · altered key x′•B: x′·h′ ≡ x·h (mod ℓ);
  · altered R bytes (same S): R′ + h′•A = R + h•A.
The last three are events about SHA-512 alone (collision, resp. hitting one prescribed residue among ℓ ≈ 2^252);
that they do not happen is the hash assumption of DESIGN §5, not provable and not claimed. Unforgeability in
general (a fresh (R′, S′) for another message) is the discrete-log/random-oracle security of Schnorr — out of scope. -/
theorem single_alteration_cases {g : Grp G} (L : Lawful g) (hord : ∀ n : ℕ, n • g.base = 0 → ell ∣ n)
    (H : Bytes → Bytes) (x : ℕ) (hx : ∀ n : ℕ, n • g.smul x g.base = 0 → ell ∣ n) (msg sig : Bytes)
    (h1 : verify g H (g.smul x g.base) msg sig = .ok ()) :
    (∀ sig', sig'.take 32 = sig.take 32 → sig' ≠ sig → verify g H (g.smul x g.base) msg sig' ≠ .ok ())
    ∧ (∀ sig', sig'.length ≠ 64 → verify g H (g.smul x g.base) msg sig' ≠ .ok ())
    ∧ (∀ msg', verify g H (g.smul x g.base) msg' sig = .ok () →
        ∃ R, g.dec (sig.take 32) = some R ∧
          challenge g H (g.smul x g.base) R msg = challenge g H (g.smul x g.base) R msg')
    ∧ (∀ x', verify g H (g.smul x' g.base) msg sig = .ok () →
        ∃ R, g.dec (sig.take 32) = some R ∧
          (x' * challenge g H (g.smul x' g.base) R msg) % ell = (x * challenge g H (g.smul x g.base) R msg) % ell)
    ∧ (∀ sig', sig'.drop 32 = sig.drop 32 → verify g H (g.smul x g.base) msg sig' = .ok () →
        ∃ R R', g.dec (sig.take 32) = some R ∧ g.dec (sig'.take 32) = some R' ∧
          R' + challenge g H (g.smul x g.base) R' msg • g.smul x g.base
            = R + challenge g H (g.smul x g.base) R msg • g.smul x g.base) := by
  refine ⟨fun sig' hR hne => altered_S_rejected L hord H _ msg sig sig' h1 hR.symm hne,
    fun sig' hl h => ?_, fun msg' h2 => altered_message_needs_collision L H _ hx msg msg' sig h1 h2,
    fun x' h2 => altered_key_needs_hash_target L hord H x x' msg sig h1 h2,
    fun sig' hS h2 => altered_R_needs_hash_target L H _ msg sig sig' hS h1 h2⟩
  rw [wrong_length_rejected g H _ msg sig' hl] at h
  cases h

/-! non-vacuity: the hypotheses are satisfiable (G = ZMod ℓ, B = 1, any "hash") -/
example : verify dlogGrp (fun b => b) (dlogGrp.smul 5 dlogGrp.base) [1, 2] (sign dlogGrp (fun b => b) 5 7 [1, 2]) = .ok () :=
  (sign_verifies dlogGrp_lawful (fun b => b) 5 7 [1, 2]).1
example : verifyStd dlogGrp (fun b => b) (dlogGrp.enc (dlogGrp.smul 5 dlogGrp.base)) [] (sign dlogGrp (fun b => b) 5 7 []) = true :=
  (sign_verifies dlogGrp_lawful (fun b => b) 5 7 []).2
example : let sig := sign dlogGrp (fun b => b) 5 7 [9]
    verifyPre dlogGrp (fun b => b) (dlogGrp.smul 5 dlogGrp.base) [9] (sig.take 32 ++ natLE 32 (leNat (sig.drop 32) + ell)) = .ok () :=
  (malleability_witness_and_repair dlogGrp_lawful (fun b => b) 5 7 [9]).2.1
example (sig' : Bytes) (h : verify dlogGrp (fun b => b) (dlogGrp.smul 5 dlogGrp.base) [9] sig' = .ok ())
    (hR : (sign dlogGrp (fun b => b) 5 7 [9]).take 32 = sig'.take 32) : sign dlogGrp (fun b => b) 5 7 [9] = sig' :=
  verify_nonmalleable_S dlogGrp_lawful dlogGrp_order _ _ _ _ _ (sign_verifies dlogGrp_lawful _ 5 7 [9]).1 h hR
example (x' : ℕ) (h2 : verify dlogGrp (fun b => b) (dlogGrp.smul x' dlogGrp.base) [9] (sign dlogGrp (fun b => b) 5 7 [9]) = .ok ()) :
    ∃ R, dlogGrp.dec ((sign dlogGrp (fun b => b) 5 7 [9]).take 32) = some R ∧
      (x' * challenge dlogGrp (fun b => b) (dlogGrp.smul x' dlogGrp.base) R [9]) % ell
        = (5 * challenge dlogGrp (fun b => b) (dlogGrp.smul 5 dlogGrp.base) R [9]) % ell :=
  altered_key_needs_hash_target dlogGrp_lawful dlogGrp_order _ 5 x' _ _ (sign_verifies dlogGrp_lawful _ 5 7 [9]).1 h2
example (sig' : Bytes) (hS : sig'.drop 32 = (sign dlogGrp (fun b => b) 5 7 [9]).drop 32)
    (h2 : verify dlogGrp (fun b => b) (dlogGrp.smul 5 dlogGrp.base) [9] sig' = .ok ()) :
    ∃ R R', dlogGrp.dec ((sign dlogGrp (fun b => b) 5 7 [9]).take 32) = some R ∧ dlogGrp.dec (sig'.take 32) = some R' ∧
      R' + challenge dlogGrp (fun b => b) (dlogGrp.smul 5 dlogGrp.base) R' [9] • dlogGrp.smul 5 dlogGrp.base
        = R + challenge dlogGrp (fun b => b) (dlogGrp.smul 5 dlogGrp.base) R [9] • dlogGrp.smul 5 dlogGrp.base :=
  altered_R_needs_hash_target dlogGrp_lawful _ _ _ _ sig' hS (sign_verifies dlogGrp_lawful _ 5 7 [9]).1 h2
example : verify dlogGrp (fun b => b) (0 : ZMod ell) [] (List.replicate 63 0) = .error .length :=
  wrong_length_rejected _ _ _ _ _ (by decide)

end Dos.Props.C20

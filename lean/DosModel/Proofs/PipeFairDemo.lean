/-
C14 fairness, part 4: concrete runs.

* `Run.ofTrace`: the run that performs a finite list of events from the initial state and then
  stutters for ever; it is fair when nothing but environment steps is enabled in its last state.
* `Demo.fanin`: a FROZEN copy of the shape of the regenerated `helper.dosnode.mergeErrors` with one
  upstream stage (upstream stage → fan-in output goroutine → caller, closer goroutine behind a wait
  group).  `Demo.fairRun`: a fair run of it that communicates, is cancelled and terminates.
  `Demo.spin`: the counter-run of design/C14.md — after the cancellation every goroutine that can
  move moves infinitely often and every `select` keeps picking the communication: weakly fair, the
  timer and data clauses hold, nobody ever returns.
-/
import DosModel.Proofs.PipeFair4
import DosModel.Proofs.PipeSucc

namespace Dos.Pipe

/-! ### finite traces -/

def nextBy (p : Pipeline) (s : State) (e : Ev) : Option State :=
  (succs p s).findSome? fun x => if x.1 = e then (match x.2 with | .run s' => some s' | _ => none) else none

theorem nextBy_step {p : Pipeline} {s s' : State} {e : Ev} (h : nextBy p s e = some s') :
    Step p s e (.run s') := by
  unfold nextBy at h
  obtain ⟨x, hx, hm⟩ := List.exists_of_findSome?_eq_some h
  obtain ⟨e', c⟩ := x
  simp only at hm
  split at hm
  · rename_i he
    subst he
    cases c with
    | run t => simp only [Option.some.injEq] at hm; subst hm; exact (mem_succs_iff p s e' _).mp hx
    | crash k g pc => simp at hm
  · cases hm

def traceSt (p : Pipeline) (tr : List Ev) : Nat → State
  | 0 => init p
  | i + 1 => match tr[i]? with
    | some e => match nextBy p (traceSt p tr i) e with
      | some s' => s'
      | none => traceSt p tr i
    | none => traceSt p tr i

def traceOk (p : Pipeline) (tr : List Ev) : Bool :=
  (List.range tr.length).all fun i => match tr[i]? with
    | some e => (nextBy p (traceSt p tr i) e).isSome
    | none => true

/-- perform `tr` from the initial state, then stutter -/
def Run.ofTrace (p : Pipeline) (tr : List Ev) (h : traceOk p tr = true) : Run p where
  st := traceSt p tr
  ev := fun i => tr[i]?
  start := rfl
  step := by
    intro i
    cases htr : tr[i]? with
    | none => show traceSt p tr (i + 1) = traceSt p tr i; rw [traceSt, htr]
    | some e =>
      show Step p (traceSt p tr i) e (.run (traceSt p tr (i + 1)))
      have hi : i < tr.length := (List.getElem?_eq_some_iff.mp htr).1
      unfold traceOk at h
      rw [List.all_eq_true] at h
      have := h i (List.mem_range.mpr hi)
      rw [htr] at this
      simp only at this
      obtain ⟨s', hs'⟩ := Option.isSome_iff_exists.mp this
      rw [traceSt, htr]
      simp only [hs']
      exact nextBy_step hs'

theorem ofTrace_st (p : Pipeline) (tr : List Ev) (h : traceOk p tr = true) :
    (Run.ofTrace p tr h).st = traceSt p tr := rfl

theorem traceSt_after (p : Pipeline) (tr : List Ev) : ∀ d, traceSt p tr (tr.length + d) = traceSt p tr tr.length := by
  intro d
  induction d with
  | zero => rfl
  | succ d ih =>
    have e : tr.length + (d + 1) = tr.length + d + 1 := by omega
    rw [e, traceSt, List.getElem?_eq_none (by omega)]
    exact ih

def Ev.envOnly : Ev → Bool
  | .env _ => true
  | _ => false

theorem enabled_succs {p : Pipeline} {s : State} {g : Gi} (h : Enabled p s g) :
    ∃ x ∈ succs p s, x.1.moves g = true := by
  obtain ⟨e, s', hst, hm⟩ := h
  exact ⟨(e, .run s'), (mem_succs_iff p s e _).mpr hst, hm⟩

theorem not_enabled_of_env_only {p : Pipeline} {s : State} (h : (succs p s).all (fun x => x.1.envOnly) = true)
    (g : Gi) : ¬ Enabled p s g := by
  intro hen
  obtain ⟨x, hx, hm⟩ := enabled_succs hen
  rw [List.all_eq_true] at h
  have := h x hx
  obtain ⟨e, c⟩ := x
  cases e <;> simp [Ev.envOnly] at this
  simp [Ev.moves] at hm

theorem enabled_at {p : Pipeline} {s : State} {g : Gi} (h : Enabled p s g) : ∃ pc, s.gs[g]? = some (.at pc) := by
  obtain ⟨e, s', hst, hm⟩ := h
  cases hst with
  | env k hk hd => simp [Ev.moves] at hm
  | act g' pc nd l n hat hnd hed hgd hdf =>
    have : g' = g := by simpa [Ev.moves] using hm
    subst this; exact ⟨pc, hat⟩
  | sync g1 pc1 nd1 n1 g2 pc2 nd2 n2 c hne hat1 hnd1 hed1 hat2 hnd2 hed2 hcap hcl =>
    simp only [Ev.moves, Bool.or_eq_true, beq_iff_eq] at hm
    rcases hm with hm | hm
    · subst hm; exact ⟨pc1, hat1⟩
    · subst hm; exact ⟨pc2, hat2⟩
  | exit g' pc hat hnd =>
    have : g' = g := by simpa [Ev.moves] using hm
    subst this; exact ⟨pc, hat⟩

/-- a finite run whose last state enables environment steps only is fair -/
theorem ofTrace_fair (p : Pipeline) (tr : List Ev) (h : traceOk p tr = true)
    (hend : (succs p (traceSt p tr tr.length)).all (fun x => x.1.envOnly) = true) :
    Fair (Run.ofTrace p tr h) := by
  have hev : ∀ i, tr.length ≤ i → (Run.ofTrace p tr h).ev i = none := by
    intro i hi
    show tr[i]? = none
    exact List.getElem?_eq_none hi
  have hnomove : ∀ g, ¬ InfOften (fun i => (Run.ofTrace p tr h).movesAt g i) := by
    intro g hinf
    obtain ⟨i, hi, e, he, _⟩ := hinf tr.length
    rw [hev i hi] at he; cases he
  have hchoice : ∀ g pc l n, ChoiceFair (Run.ofTrace p tr h) g pc l n := by
    intro g pc l n nd _ _ hinf
    exact absurd (hinf.mono (fun i hh => hh.1.2)) (hnomove g)
  refine ⟨?_, fun g pc k n => hchoice g pc _ n, fun g pc n => hchoice g pc _ n, fun g pc n => hchoice g pc _ n⟩
  intro g T hen
  exfalso
  have := hen (tr.length + T) (by omega)
  have hst : (Run.ofTrace p tr h).st (tr.length + T) = traceSt p tr tr.length := traceSt_after p tr T
  rw [hst] at this
  exact not_enabled_of_env_only hend g this

namespace Demo

/-- upstream stage → fan-in output goroutine → caller; closer goroutine behind the wait group.
    Channel 0: the upstream's output (unbuffered), channel 1: the merged output (buffer 1). -/
def fanin : Pipeline where
  name := "demo.fanin"
  nctx := 1
  chans := [⟨"up.out", 0, false⟩, ⟨"merge.out", 1, false⟩]
  wgs := [⟨"merge.wg", 1⟩]
  gs := [
    { name := "upstream",
      nodes := [.sel [.send 0 0, .ctx 0 1], .close 0 2, .exit] },
    { name := "caller",
      nodes := [.sel [.recv 1 0 1, .ctx 0 1], .exit] },
    { name := "merge.output",
      nodes := [.sel [.recv 0 1 4], .sel [.ctx 0 2, .send 1 0], .wgDone 0 3, .exit, .wgDone 0 3] },
    { name := "merge.closer",
      nodes := [.wgWait 0 1, .close 1 2, .exit] }]
  rank := [0, 0, 1, 2]

theorem fanin_wf : W0 fanin = true ∧ SafeOk fanin = true ∧ LiveOk fanin = true := by decide +kernel

/-- one value goes through the pipeline, then the deadline fires and everybody leaves:
    the upstream by its context alternative, the fan-in by the closed range, the closer after the
    wait group, the caller by its context alternative -/
def fairTrace : List Ev :=
  [.sync 0 2 0, .act 2 (.send 1), .act 1 (.recvOk 1), .env 0,
   .act 0 (.ctx 0), .act 0 (.close 0), .exit 0,
   .act 2 (.recvCl 0), .act 2 (.wgDone 0), .exit 2,
   .act 3 (.wgWait 0), .act 3 (.close 1), .exit 3,
   .act 1 (.ctx 0), .exit 1]

theorem fairTrace_ok : traceOk fanin fairTrace = true := by decide +kernel

def fairRun : Run fanin := Run.ofTrace fanin fairTrace fairTrace_ok

theorem fairRun_fair : Fair fairRun := ofTrace_fair fanin fairTrace fairTrace_ok (by decide +kernel)

theorem fairRun_cancelled : (fairRun.st 4).ctxDone 0 = true := by decide +kernel

/-- the run is not trivial: a value is in the merged channel at position 2, the context is done at
    position 4 and not before, the last goroutine returns at position 15 -/
theorem fairRun_nontrivial :
    (fairRun.st 2).len 1 = 1 ∧ (fairRun.st 3).ctxDone 0 = false ∧
    (fairRun.st 14).gs[1]? = some (.at 1) ∧ (fairRun.st 15).gs = [.done, .done, .done, .done] ∧
    (fairRun.st 15).closed 0 = true ∧ (fairRun.st 15).closed 1 = true := by decide +kernel

/-! ### the counter-run: weakly fair, never exits -/

/-- after the cancellation: everybody at the head of its loop -/
def sA : State := (init fanin).setCtx 0
/-- the upstream has handed a value to the fan-in -/
def sB : State := (sA.setG 0 (.at 0)).setG 2 (.at 1)
/-- the fan-in has put it into the merged channel -/
def sC : State := (effect sB (.send 1)).setG 2 (.at 0)

def spinSt (i : Nat) : State :=
  if i = 0 then init fanin else if (i - 1) % 3 = 0 then sA else if (i - 1) % 3 = 1 then sB else sC

def spinEv (i : Nat) : Option Ev :=
  if i = 0 then some (.env 0) else if (i - 1) % 3 = 0 then some (.sync 0 2 0)
  else if (i - 1) % 3 = 1 then some (.act 2 (.send 1)) else some (.act 1 (.recvOk 1))

theorem spin_steps :
    Step fanin (init fanin) (.env 0) (.run sA) ∧ Step fanin sA (.sync 0 2 0) (.run sB) ∧
    Step fanin sB (.act 2 (.send 1)) (.run sC) ∧ Step fanin sC (.act 1 (.recvOk 1)) (.run sA) := by
  refine ⟨?_, ?_, ?_, ?_⟩ <;> rw [← mem_succs_iff] <;> decide +kernel

/-- the deadline fires at once; from then on: upstream → fan-in → merged channel → caller, for ever -/
def spin : Run fanin where
  st := spinSt
  ev := spinEv
  start := rfl
  step := by
    intro i
    obtain ⟨h0, h1, h2, h3⟩ := spin_steps
    by_cases hi : i = 0
    · subst hi; exact h0
    · have hm : (i - 1) % 3 = 0 ∨ (i - 1) % 3 = 1 ∨ (i - 1) % 3 = 2 := by omega
      have hi1 : ¬ (i + 1 = 0) := by omega
      rcases hm with hm | hm | hm
      · have e1 : (i + 1 - 1) % 3 = 1 := by omega
        simp only [spinEv, spinSt, hi, hi1, hm, e1, if_true, if_false, Nat.succ_ne_zero]
        exact h1
      · have e1 : (i + 1 - 1) % 3 = 2 := by omega
        simp only [spinEv, spinSt, hi, hi1, hm, e1, if_true, if_false, Nat.succ_ne_zero]
        exact h2
      · have e1 : (i + 1 - 1) % 3 = 0 := by omega
        simp only [spinEv, spinSt, hi, hi1, hm, e1, if_true, if_false, Nat.succ_ne_zero]
        exact h3

theorem spin_st_cases (i : Nat) : spin.st i = init fanin ∨ spin.st i = sA ∨ spin.st i = sB ∨ spin.st i = sC := by
  show spinSt i = _ ∨ spinSt i = _ ∨ spinSt i = _ ∨ spinSt i = _
  unfold spinSt
  split
  · exact Or.inl rfl
  · split
    · exact Or.inr (Or.inl rfl)
    · split
      · exact Or.inr (Or.inr (Or.inl rfl))
      · exact Or.inr (Or.inr (Or.inr rfl))

theorem spin_ev_at (T : Nat) :
    spin.ev (3 * T + 1) = some (.sync 0 2 0) ∧ spin.ev (3 * T + 3) = some (.act 1 (.recvOk 1)) := by
  constructor
  · show spinEv (3 * T + 1) = _
    have h1 : ¬ (3 * T + 1 = 0) := by omega
    have h2 : (3 * T + 1 - 1) % 3 = 0 := by omega
    simp only [spinEv, h1, h2, if_true, if_false]
  · show spinEv (3 * T + 3) = _
    have h1 : ¬ (3 * T + 3 = 0) := by omega
    have h2 : (3 * T + 3 - 1) % 3 = 2 := by omega
    simp only [spinEv, h1, h2, if_false]
    rfl

/-- the closer goroutine waits for the wait group in every state of the cycle -/
theorem spin_closer_blocked :
    [init fanin, sA, sB, sC].all (fun s => (succs fanin s).all (fun x => !x.1.moves 3)) = true := by
  decide +kernel

theorem spin_weakFair : WeakFair spin := by
  intro (g : Nat) T hen
  by_cases h0 : (g : Nat) = 0
  · subst h0
    exact ⟨3 * T + 1, by omega, _, (spin_ev_at T).1, by decide⟩
  by_cases h1 : (g : Nat) = 1
  · subst h1
    exact ⟨3 * T + 3, by omega, _, (spin_ev_at T).2, by decide⟩
  by_cases h2 : (g : Nat) = 2
  · subst h2
    exact ⟨3 * T + 1, by omega, _, (spin_ev_at T).1, by decide⟩
  exfalso
  have hT := hen T (Nat.le_refl _)
  by_cases h3 : (g : Nat) = 3
  · subst h3
    obtain ⟨x, hx, hm⟩ := enabled_succs hT
    have hall := spin_closer_blocked
    simp only [List.all_cons, List.all_nil, Bool.and_true, Bool.and_eq_true] at hall
    have hs : (succs fanin (spin.st T)).all (fun x => !x.1.moves 3) = true := by
      rcases spin_st_cases T with h | h | h | h <;> rw [h]
      · exact hall.1
      · exact hall.2.1
      · exact hall.2.2.1
      · exact hall.2.2.2
    rw [List.all_eq_true] at hs
    have := hs x hx
    rw [hm] at this; cases this
  · obtain ⟨pc, hat⟩ := enabled_at hT
    have hlen : (spin.st T).gs.length = 4 := by
      rcases spin_st_cases T with h | h | h | h <;> rw [h] <;> decide
    have := (List.getElem?_eq_some_iff.mp hat).1
    rw [hlen] at this
    omega

/-- no node of the demo has a timer alternative or an internal choice -/
theorem fanin_no_tick_tau : fanin.gs.all (fun gr => gr.nodes.all (fun nd =>
    nd.edges.all (fun e => e.1 != .tick && e.1 != .tau))) = true := by decide

theorem spin_choice_vacuous (g : Gi) (pc : Pc) (l : Lab) (n : Pc) (hl : l = .tick ∨ l = .tau) :
    ChoiceFair spin g pc l n := by
  intro nd hnd hed _
  exfalso
  obtain ⟨gr, hg, hn⟩ := node_some hnd
  have h := fanin_no_tick_tau
  rw [List.all_eq_true] at h
  have h1 := h gr (List.mem_of_getElem? hg)
  rw [List.all_eq_true] at h1
  have h2 := h1 nd (List.mem_of_getElem? hn)
  rw [List.all_eq_true] at h2
  have h3 := h2 (l, n) hed
  rcases hl with rfl | rfl <;> simp at h3

/-- the upstream stage is running at every position -/
theorem spin_never_quiet (i : Nat) : ¬ Quiet fanin (spin.st i) := by
  intro hq
  apply hq 0
  refine ⟨_, 0, rfl, rfl, ?_⟩
  rcases spin_st_cases i with h | h | h | h <;> rw [h] <;> decide

theorem spin_cancelled : (spin.st 1).ctxDone 0 = true := by decide

/-! ### a hand-off to a collector -/

/-- the creator registers its reply channel (0) with the collector over the hand-off channel (1), or
    closes it itself when the deadline wins; the collector closes it when the request's context is
    done (its ticker keeps it turning) -/
def handoff : Pipeline where
  name := "demo.handoff"
  nctx := 1
  chans := [⟨"reply", 0, false⟩, ⟨"register", 1, true⟩]
  wgs := []
  gs := [
    { name := "creator",
      nodes := [.sel [.send 1 1, .ctx 0 2], .exit, .close 0 1] },
    { name := "collector", daemon := true,
      nodes := [.sel [.recv 1 1 0], .sel [.ctx 0 2, .tick 1], .close 0 0] }]
  rank := [0, 0]

theorem handoff_wf : W0 handoff = true ∧ SafeOk handoff = true ∧ LiveOk handoff = true ∧
    handoffs handoff = [(1, 0, 1)] ∧ CollectorsOk handoff = true := by decide +kernel

def handoffTrace : List Ev :=
  [.act 0 (.send 1), .exit 0, .act 1 (.recvOk 1), .act 1 .tick, .env 0, .act 1 (.ctx 0), .act 1 (.close 0)]

theorem handoffTrace_ok : traceOk handoff handoffTrace = true := by decide +kernel

def handoffRun : Run handoff := Run.ofTrace handoff handoffTrace handoffTrace_ok

theorem handoffRun_fair : Fair handoffRun :=
  ofTrace_fair handoff handoffTrace handoffTrace_ok (by decide +kernel)

/-- at position 3 the collector holds the reply channel (node 1 is `ownD`-labelled), the channel is
    open; the context is done at position 5; the channel is closed at position 7 -/
theorem handoffRun_facts :
    (handoffRun.st 3).gs[1]? = some (.at 1) ∧ mark (ownD (handoff.gs[1]!) 0 1) 1 = true ∧
    (handoffRun.st 3).closed 0 = false ∧ (handoffRun.st 5).ctxDone 0 = true ∧
    (handoffRun.st 7).closed 0 = true := by decide +kernel

/-! ### a channel nobody receives on -/

def lost : Pipeline where
  name := "demo.lost"
  nctx := 1
  chans := [⟨"errc", 0, false⟩]
  wgs := []
  gs := [{ name := "stage", nodes := [.sel [.send 0 1], .exit] }]
  rank := [0]

theorem lost_receiverless : Receiverless lost 0 := by
  intro gr hgr
  simp only [lost, List.mem_singleton] at hgr
  subst hgr
  decide

def lostRun : Run lost := Run.ofTrace lost [] rfl

/-- events of a run of the regenerated `helper.dosnode.mergeErrors` (two upstream stages 0 1, caller 2,
    fan-in goroutines 3 4, closer 5; channels: inputs 0 1, merged 2), used as a non-vacuity example in
    Props/C14Fair.lean -/
def helperTrace : List Ev :=
  [.sync 0 3 0, .act 3 (.send 2), .act 2 (.recvOk 2), .env 0,
   .act 0 (.ctx 0), .act 0 (.close 0), .exit 0, .act 1 (.ctx 0), .act 1 (.close 1), .exit 1,
   .act 3 (.recvCl 0), .act 3 (.wgDone 0), .exit 3, .act 4 (.recvCl 1), .act 4 (.wgDone 0), .exit 4,
   .act 5 (.wgWait 0), .act 5 (.close 2), .exit 5, .act 2 (.recvCl 2), .exit 2]

end Demo

end Dos.Pipe

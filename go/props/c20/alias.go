package c20

// Receiver-alias patterns for every public kyber.Scalar / kyber.Point operation of the bundled
// suite and for the raw ref10 routines that take an output pointer. The value of an operation must
// not depend on whether the receiver (output) is a fresh object or one of the operands
// (`num.Div(num, den)` is how share.RecoverSecret calls it).
//
//	ali <op> <pat> A B     op = add sub mul div | neg inv set (B ignored);  A, B: 32 raw scalar bytes
//	                       pat = f (fresh receiver) | r1 (receiver is the first operand) | r2 (… the second)
//	                           | ab (both operands the same object, fresh receiver) | all (receiver = both operands)
//	sca <op> <pat> A B C   raw scMulAdd/scAdd/scSub/scMul through the hooks; pat = f | s1 | s2 | s3 (output array is
//	                       the 1st/2nd/3rd input array) | in (all inputs the same array, fresh output) | all
//	pta <op> <pat> P Q S   points (32-byte encodings) P, Q and scalar S; op = add sub | neg | mul | mulbase; pat as for ali
//	apx setint64 <n> | zero | one | pick K | clone A | equal A B | string A | marshalto A | unmarshalfrom X | ptmarshalto P | ptunmarshalfrom X
//
// Oracles: math/big for scalars, an affine Edwards25519 implementation on math/big for points.

import (
	"bytes"
	"crypto/ed25519"
	"encoding/hex"
	"fmt"
	"math/big"

	"github.com/DOSNetwork/core/group/edwards25519"
	"github.com/dedis/kyber"

	"verifharness/internal/h"
)

// ---------- independent affine Edwards25519 arithmetic (math/big) ----------

type apt struct{ x, y *big.Int }

func fmod(v *big.Int) *big.Int { return v.Mod(v, prime) }

func bigAdd(p, q apt) apt {
	x1y2 := new(big.Int).Mul(p.x, q.y)
	x2y1 := new(big.Int).Mul(q.x, p.y)
	y1y2 := new(big.Int).Mul(p.y, q.y)
	x1x2 := new(big.Int).Mul(p.x, q.x)
	t := fmod(new(big.Int).Mul(fmod(new(big.Int).Mul(x1x2, y1y2)), curveD)) // d x1x2y1y2
	nx := fmod(new(big.Int).Add(x1y2, x2y1))
	ny := fmod(new(big.Int).Add(y1y2, x1x2)) // a = -1: y1y2 - a x1x2
	dx := fmod(new(big.Int).Add(big.NewInt(1), t))
	dy := fmod(new(big.Int).Sub(big.NewInt(1), t))
	return apt{fmod(nx.Mul(nx, new(big.Int).ModInverse(dx, prime))), fmod(ny.Mul(ny, new(big.Int).ModInverse(dy, prime)))}
}

func bigNeg(p apt) apt { return apt{fmod(new(big.Int).Neg(p.x)), new(big.Int).Set(p.y)} }

func bigMul(n *big.Int, p apt) apt {
	acc := apt{big.NewInt(0), big.NewInt(1)}
	for i := n.BitLen() - 1; i >= 0; i-- {
		acc = bigAdd(acc, acc)
		if n.Bit(i) == 1 {
			acc = bigAdd(acc, p)
		}
	}
	return acc
}

var bigBase = func() apt {
	b, _ := hex.DecodeString("5866666666666666666666666666666666666666666666666666666666666666")
	x, y, _, _ := bigDecode(b)
	return apt{x, y}
}()

func ed25519Pub(seed []byte) []byte { return []byte(ed25519.NewKeyFromSeed(seed)[32:]) }

// ---------- exec ----------

func mustScalar(b []byte) kyber.Scalar {
	s, err := scalarOf(b)
	if err != nil {
		panic("case line: scalar operand is not 32 bytes")
	}
	return s
}

func rawOf(s kyber.Scalar) []byte {
	// String() prints the reduced value; the raw bytes are only visible through Equal/Marshal. Use Marshal.
	b, _ := s.MarshalBinary()
	return b
}

func execAlias(w []string, res *h.Result) bool {
	switch w[0] {
	case "ali":
		op, pat := w[1], w[2]
		A, B := h.UnHex(w[3]), h.UnHex(w[4])
		a, b := mustScalar(A), mustScalar(B)
		unary := op == "neg" || op == "inv" || op == "set"
		var r kyber.Scalar
		switch pat {
		case "f":
			r = suite.Scalar()
		case "r1":
			r = a
		case "r2":
			r = b
		case "ab":
			r, b, B = suite.Scalar(), a, A
		case "all":
			r, b, B = a, a, A
		default:
			panic("bad alias pattern")
		}
		if unary && (pat == "r2" || pat == "ab" || pat == "all") {
			panic("unary op with a binary pattern")
		}
		av, bv := new(big.Int).Mod(le(A), ell), new(big.Int).Mod(le(B), ell)
		var want *big.Int
		switch op {
		case "add":
			r.Add(a, b)
			want = new(big.Int).Add(av, bv)
		case "sub":
			r.Sub(a, b)
			want = new(big.Int).Sub(av, bv)
		case "mul":
			r.Mul(a, b)
			want = new(big.Int).Mul(av, bv)
		case "div":
			r.Div(a, b)
			inv := new(big.Int).ModInverse(bv, ell)
			if inv == nil {
				inv = big.NewInt(0) // b^(l-2) = 0 for b = 0
			}
			want = new(big.Int).Mul(av, inv)
		case "neg":
			r.Neg(a)
			want = new(big.Int).Neg(av)
		case "inv":
			r.Inv(a)
			want = new(big.Int).ModInverse(av, ell)
			if want == nil {
				want = big.NewInt(0)
			}
		case "set":
			r.Set(a)
			want = av
		default:
			panic("bad ali op")
		}
		want.Mod(want, ell)
		out := rawOf(r)
		res.Impl = h.Hex(out)
		res.Class = "ali-" + op + "-" + pat
		res.Nontrivial = true
		if !bytes.Equal(out, le32(want)) {
			res.Oracle = fmt.Sprintf("scalar-%s-alias-%s: got %s want %s", op, pat, h.Hex(out), h.Hex(le32(want)))
			return true
		}
		// operands that are not the receiver keep their value
		if r != a && !bytes.Equal(rawOf(a), le32(av)) {
			res.Oracle = fmt.Sprintf("scalar-%s-operand-clobbered-%s: first operand changed", op, pat)
		}
		if !unary && r != b && !bytes.Equal(rawOf(b), le32(bv)) {
			res.Oracle = fmt.Sprintf("scalar-%s-operand-clobbered-%s: second operand changed", op, pat)
		}
		return true
	case "sca":
		op, pat := w[1], w[2]
		var in [3][32]byte
		n := 2
		if op == "muladd" {
			n = 3
		}
		for i := 0; i < n; i++ {
			in[i] = *arr32(h.UnHex(w[3+i]))
		}
		p := []*[32]byte{&in[0], &in[1], &in[2]}
		var fresh [32]byte
		out := &fresh
		switch pat {
		case "f":
		case "s1":
			out = p[0]
		case "s2":
			out = p[1]
		case "s3":
			if n < 3 {
				panic("s3 needs three operands")
			}
			out = p[2]
		case "in":
			p[1], p[2] = p[0], p[0]
		case "all":
			p[1], p[2] = p[0], p[0]
			out = p[0]
		default:
			panic("bad sca pattern")
		}
		v := []*big.Int{le(p[0][:]), le(p[1][:]), le(p[2][:])}
		var want *big.Int
		switch op {
		case "muladd":
			want = new(big.Int).Mul(v[0], v[1])
			want.Add(want, v[2])
			edwards25519.VerifScMulAdd(out, p[0], p[1], p[2])
		case "add":
			want = new(big.Int).Add(v[0], v[1])
			edwards25519.VerifScAdd(out, p[0], p[1])
		case "sub":
			want = new(big.Int).Sub(v[0], v[1])
			edwards25519.VerifScSub(out, p[0], p[1])
		case "mul":
			want = new(big.Int).Mul(v[0], v[1])
			edwards25519.VerifScMul(out, p[0], p[1])
		default:
			panic("bad sca op")
		}
		want.Mod(want, ell)
		res.Impl = h.Hex(out[:])
		res.Class = "sca-" + op + "-" + pat
		res.Nontrivial = true
		if !bytes.Equal(out[:], le32(want)) {
			res.Oracle = fmt.Sprintf("sc-%s-alias-%s: got %s want %s", op, pat, h.Hex(out[:]), h.Hex(le32(want)))
		}
		return true
	case "pta":
		op, pat := w[1], w[2]
		Pb, Qb, Sb := h.UnHex(w[3]), h.UnHex(w[4]), h.UnHex(w[5])
		P, Q := suite.Point(), suite.Point()
		if err := P.UnmarshalBinary(Pb); err != nil {
			panic("pta: P does not decode")
		}
		if err := Q.UnmarshalBinary(Qb); err != nil {
			panic("pta: Q does not decode")
		}
		px, py, _, ok1 := bigDecode(Pb)
		qx, qy, _, ok2 := bigDecode(Qb)
		if !ok1 || !ok2 {
			panic("pta: operand is not a curve point")
		}
		bp, bq := apt{px, py}, apt{qx, qy}
		s := mustScalar(Sb)
		sv := le(Sb)
		var r kyber.Point
		switch pat {
		case "f":
			r = suite.Point()
		case "r1":
			r = P
		case "r2":
			r = Q
		case "ab":
			r, Q, bq = suite.Point(), P, bp
		case "all":
			r, Q, bq = P, P, bp
		default:
			panic("bad pta pattern")
		}
		var want apt
		switch op {
		case "add":
			r.Add(P, Q)
			want = bigAdd(bp, bq)
		case "sub":
			r.Sub(P, Q)
			want = bigAdd(bp, bigNeg(bq))
		case "neg":
			r.Neg(P)
			want = bigNeg(bp)
		case "mul":
			r.Mul(s, P)
			want = bigMul(sv, bp)
		case "mulbase":
			r.Mul(s, nil)
			want = bigMul(sv, bigBase)
		default:
			panic("bad pta op")
		}
		out, _ := r.MarshalBinary()
		res.Impl = h.Hex(out)
		res.Class = "pta-" + op + "-" + pat
		res.Nontrivial = true
		if !bytes.Equal(out, bigEncode(want.x, want.y)) {
			res.Oracle = fmt.Sprintf("point-%s-alias-%s: got %s want %s", op, pat, h.Hex(out), h.Hex(bigEncode(want.x, want.y)))
			return true
		}
		if r != P {
			if pb, _ := P.MarshalBinary(); !bytes.Equal(pb, bigEncode(px, py)) {
				res.Oracle = fmt.Sprintf("point-%s-operand-clobbered-%s", op, pat)
			}
		}
		return true
	case "apx":
		res.Class = "apx-" + w[1]
		res.Nontrivial = true
		switch w[1] {
		case "setint64":
			var n int64
			if _, err := fmt.Sscanf(w[2], "%d", &n); err != nil {
				panic("bad int64")
			}
			// receiver holding another value first: the result must not depend on it
			r := mustScalar(bytes.Repeat([]byte{0xa5}, 32))
			out := rawOf(r.SetInt64(n))
			res.Impl = h.Hex(out)
			want := new(big.Int).Mod(big.NewInt(n), ell)
			if !bytes.Equal(out, le32(want)) {
				res.Oracle = "scalar-setint64-differs: got " + h.Hex(out)
			}
		case "zero", "one":
			r := mustScalar(bytes.Repeat([]byte{0x5a}, 32))
			want := big.NewInt(0)
			if w[1] == "zero" {
				r.Zero()
			} else {
				r.One()
				want = big.NewInt(1)
			}
			out := rawOf(r)
			res.Impl = h.Hex(out)
			if !bytes.Equal(out, le32(want)) {
				res.Oracle = "scalar-" + w[1] + "-differs: got " + h.Hex(out)
			}
		case "pick":
			k := h.UnHex(w[2])
			r := mustScalar(bytes.Repeat([]byte{0x33}, 32))
			r.Pick(&fixedStream{buf: append([]byte{}, k...)})
			out := rawOf(r)
			res.Impl = h.Hex(out)
			kv := new(big.Int).SetBytes(k)
			kv.And(kv, new(big.Int).Sub(pow2(253), big.NewInt(1)))
			if kv.Sign() == 0 || kv.Cmp(ell) >= 0 {
				kv = big.NewInt(1) // the fixed stream continues with 00…01
			}
			if !bytes.Equal(out, le32(kv)) {
				res.Oracle = "scalar-pick-differs: got " + h.Hex(out)
			}
		case "clone":
			a := mustScalar(h.UnHex(w[2]))
			c := a.Clone()
			a.Zero() // the clone must not share storage
			out := rawOf(c)
			res.Impl = h.Hex(out)
			if !bytes.Equal(out, le32(new(big.Int).Mod(le(h.UnHex(w[2])), ell))) {
				res.Oracle = "scalar-clone-differs: got " + h.Hex(out)
			}
		case "equal":
			a, b := mustScalar(h.UnHex(w[2])), mustScalar(h.UnHex(w[3]))
			eq := a.Equal(b)
			res.Impl = fmt.Sprintf("equal=%v self=%v", eq, a.Equal(a))
			same := bytes.Equal(h.UnHex(w[2]), h.UnHex(w[3]))
			if same && !eq {
				res.Oracle = "scalar-equal: identical encodings compare unequal"
			}
			if eq && le(h.UnHex(w[2])).Cmp(le(h.UnHex(w[3]))) != 0 {
				res.Oracle = "scalar-equal: different values compare equal"
			}
			if !a.Equal(a) {
				res.Oracle = "scalar-equal: not reflexive"
			}
		case "marshalto":
			// Scalar.MarshalTo (marshalling.ScalarMarshalTo): what Sign writes for S
			A := h.UnHex(w[2])
			var buf bytes.Buffer
			n, err := mustScalar(A).MarshalTo(&buf)
			res.Impl = fmt.Sprintf("%s n=%d err=%v", h.Hex(buf.Bytes()), n, err != nil)
			if err != nil || n != 32 || !bytes.Equal(buf.Bytes(), le32(new(big.Int).Mod(le(A), ell))) {
				res.Oracle = "scalar-marshalto-differs: " + res.Impl
			}
		case "unmarshalfrom":
			// Scalar.UnmarshalFrom on a plain reader: exactly 32 bytes are consumed, stored raw
			X := h.UnHex(w[2])
			rd := bytes.NewReader(X)
			sc := suite.Scalar()
			n, err := sc.UnmarshalFrom(rd)
			if err != nil {
				res.Impl = fmt.Sprintf("err n=%d", n)
				if len(X) >= 32 {
					res.Oracle = "scalar-unmarshalfrom: 32 bytes available but refused"
				}
				break
			}
			res.Impl = fmt.Sprintf("ok n=%d %s left=%d", n, h.Hex(rawOf(sc)), rd.Len())
			if len(X) < 32 || n != 32 || rd.Len() != len(X)-32 || !bytes.Equal(rawOf(sc), le32(new(big.Int).Mod(le(X[:32]), ell))) {
				res.Oracle = "scalar-unmarshalfrom-differs: " + res.Impl
			}
		case "ptmarshalto":
			P := suite.Point()
			X := h.UnHex(w[2])
			bx, by, _, ok := bigDecode(X)
			if err := P.UnmarshalBinary(X); err != nil || !ok {
				panic("apx ptmarshalto wants the encoding of a curve point")
			}
			var buf bytes.Buffer
			n, err := P.MarshalTo(&buf)
			res.Impl = fmt.Sprintf("%s n=%d err=%v", h.Hex(buf.Bytes()), n, err != nil)
			if err != nil || n != 32 || !bytes.Equal(buf.Bytes(), bigEncode(bx, by)) {
				res.Oracle = "point-marshalto-differs: " + res.Impl
			}
		case "ptunmarshalfrom":
			X := h.UnHex(w[2])
			rd := bytes.NewReader(X)
			P := suite.Point()
			n, err := P.UnmarshalFrom(rd)
			var bx, by *big.Int
			ok := false
			if len(X) >= 32 {
				bx, by, _, ok = bigDecode(X[:32])
			}
			if err != nil {
				res.Impl = fmt.Sprintf("err n=%d", n)
				if ok {
					res.Oracle = "point-unmarshalfrom: a valid encoding was refused"
				}
				break
			}
			out, _ := P.MarshalBinary()
			res.Impl = fmt.Sprintf("ok n=%d %s left=%d", n, h.Hex(out), rd.Len())
			if !ok || n != 32 || rd.Len() != len(X)-32 || !bytes.Equal(out, bigEncode(bx, by)) {
				res.Oracle = "point-unmarshalfrom-differs: " + res.Impl
			}
		case "string":
			a := mustScalar(h.UnHex(w[2]))
			res.Impl = a.String()
			if a.String() != hex.EncodeToString(le32(new(big.Int).Mod(le(h.UnHex(w[2])), ell))) {
				res.Oracle = "scalar-string-differs: " + a.String()
			}
		default:
			panic("bad apx op")
		}
		return true
	}
	return false
}

// ---------- generation ----------

func genAlias(rng *h.Rng, thorough bool, emit func(string)) {
	one := big.NewInt(1)
	vals := []*big.Int{big.NewInt(0), one, big.NewInt(2), new(big.Int).Sub(ell, one), new(big.Int).Sub(ell, big.NewInt(2)),
		new(big.Int).Add(ell, one), new(big.Int).Sub(pow2(256), one), new(big.Int).Add(ell, big.NewInt(2))}
	nr := 4
	if thorough {
		nr = 24
	}
	for i := 0; i < nr; i++ {
		vals = append(vals, rng.Big(ell), rng.Big(pow2(256)))
	}
	bin := []string{"add", "sub", "mul", "div"}
	una := []string{"neg", "inv", "set"}
	// Inv costs ≈ 380 scMul in the real code and in the driver: keep div/inv to a subset in quick
	heavy := func(op string, i, j int) bool {
		return (op == "div" || op == "inv") && !thorough && i >= 8 && j >= 8
	}
	for i, a := range vals {
		for j, b := range vals {
			if !thorough && i >= 8 && j >= 8 && (i+j)%3 != 0 {
				continue
			}
			for _, op := range bin {
				if heavy(op, i, j) || (op == "div" && !thorough && (i+2*j)%3 != 0 && i >= 4 && j >= 4) {
					continue
				}
				for _, pat := range []string{"f", "r1", "r2"} {
					emit(fmt.Sprintf("ali %s %s %s %s", op, pat, hx32(a), hx32(b)))
				}
			}
		}
		for _, op := range bin {
			if op == "div" && !thorough && i >= 10 {
				continue
			}
			emit(fmt.Sprintf("ali %s ab %s %s", op, hx32(a), hx32(a)))
			emit(fmt.Sprintf("ali %s all %s %s", op, hx32(a), hx32(a)))
		}
		for _, op := range una {
			if op == "inv" && !thorough && i >= 10 {
				continue
			}
			emit(fmt.Sprintf("ali %s f %s %s", op, hx32(a), hx32(a)))
			emit(fmt.Sprintf("ali %s r1 %s %s", op, hx32(a), hx32(a)))
		}
		emit("apx clone " + hx32(a))
		emit("apx string " + hx32(a))
		emit(fmt.Sprintf("apx equal %s %s", hx32(a), hx32(a)))
		emit(fmt.Sprintf("apx equal %s %s", hx32(a), hx32(vals[(i+1)%len(vals)])))
		emit(fmt.Sprintf("apx equal %s %s", hx32(a), hx32(new(big.Int).Mod(a, ell))))
	}
	// raw routines with an aliased output array
	for i := 0; i < len(vals); i++ {
		a, b, c := vals[i], vals[(i*7+3)%len(vals)], vals[(i*5+1)%len(vals)]
		for _, pat := range []string{"f", "s1", "s2", "s3", "in", "all"} {
			emit(fmt.Sprintf("sca muladd %s %s %s %s", pat, hx32(a), hx32(b), hx32(c)))
		}
		for _, op := range []string{"add", "sub", "mul"} {
			for _, pat := range []string{"f", "s1", "s2", "in", "all"} {
				emit(fmt.Sprintf("sca %s %s %s %s", op, pat, hx32(a), hx32(b)))
			}
		}
	}
	for _, n := range []string{"0", "1", "-1", "2", "-2", "9223372036854775807", "-9223372036854775808", "4294967296", "-4294967297"} {
		emit("apx setint64 " + n)
	}
	emit("apx zero")
	emit("apx one")
	// MarshalTo / UnmarshalFrom (group/internal/marshalling): scalars and points, short / exact / longer inputs
	for i := 0; i < 4; i++ {
		v := vals[(i*5+3)%len(vals)]
		emit("apx marshalto " + hx32(v))
		emit("apx unmarshalfrom " + hx32(v))
		emit("apx unmarshalfrom " + hx32(v) + h.Hex(rng.Bytes(1+rng.Intn(40))))
		pk := h.Hex(ed25519Pub(rng.Bytes(32)))
		emit("apx ptmarshalto " + pk)
		emit("apx ptunmarshalfrom " + pk)
		emit("apx ptunmarshalfrom " + pk + h.Hex(rng.Bytes(1+rng.Intn(40))))
		emit("apx ptunmarshalfrom " + h.Hex(rng.Bytes(32)))
	}
	emit("apx unmarshalfrom -")
	emit("apx unmarshalfrom " + h.Hex(rng.Bytes(31)))
	emit("apx ptunmarshalfrom " + h.Hex(rng.Bytes(7)))
	emit("apx ptmarshalto ecffffffffffffffffffffffffffffffffffffffffffffffffffffffffffff7f")
	for i := 0; i < 6; i++ {
		emit("apx pick " + nonce(rng))
	}
	emit("apx pick " + h.Hex(make([]byte, 32)))               // 0: rejected by random.Int, next block gives 1
	emit("apx pick " + h.Hex(bytes.Repeat([]byte{0xff}, 32))) // masked to 2^253-1 ≥ l: rejected
	// points
	np := 6
	if thorough {
		np = 40
	}
	ident := "0100000000000000000000000000000000000000000000000000000000000000"
	order2 := "ecffffffffffffffffffffffffffffffffffffffffffffffffffffffffffff7f"
	base := "5866666666666666666666666666666666666666666666666666666666666666"
	order8 := "26e8958fc2b227b045c3f489f2ef98f0d5dfac05d3c63339b13802886d53fc05"
	pts := []string{ident, base, order2, order8}
	for i := 0; i < np; i++ {
		pts = append(pts, h.Hex(ed25519Pub(rng.Bytes(32))))
	}
	scs := []*big.Int{big.NewInt(0), one, big.NewInt(2), big.NewInt(8), new(big.Int).Sub(ell, one), new(big.Int).Set(ell), rng.Big(ell), rng.Big(ell)}
	for i, P := range pts {
		Q := pts[(i*3+1)%len(pts)]
		S := hx32(scs[i%len(scs)])
		for _, op := range []string{"add", "sub"} {
			for _, pat := range []string{"f", "r1", "r2"} {
				emit(fmt.Sprintf("pta %s %s %s %s %s", op, pat, P, Q, S))
			}
			emit(fmt.Sprintf("pta %s ab %s %s %s", op, P, P, S))
			emit(fmt.Sprintf("pta %s all %s %s %s", op, P, P, S))
		}
		for _, pat := range []string{"f", "r1"} {
			emit(fmt.Sprintf("pta neg %s %s %s %s", pat, P, P, S))
			emit(fmt.Sprintf("pta mul %s %s %s %s", pat, P, P, S))
			emit(fmt.Sprintf("pta mul %s %s %s %s", pat, P, P, hx32(scs[(i+3)%len(scs)])))
			emit(fmt.Sprintf("pta mulbase %s %s %s %s", pat, P, P, S))
		}
	}
}

package bn256code

import (
	"fmt"
	"go/ast"
	"go/token"
	"sort"
	"strconv"
	"strings"
)

// ---------------------------------------------------------------------------
// Symbolic evaluation of one Go function body.
//
// Memory is a set of objects (one per pointer parameter — or per alias class of
// parameters —, one per `&T{}` allocation, one per package-level constant). A
// pointer is (object, field path). The content of an object is a value tree over
// the function's inputs. Every primitive operation / call of a translated
// function emits one `let` and rebinds the destination.
// ---------------------------------------------------------------------------

type ptr struct {
	obj  int
	path []int
	typ  string // pointee type
	null bool
}

func (p ptr) sameLoc(q ptr) bool {
	if p.obj != q.obj || len(p.path) != len(q.path) {
		return false
	}
	for i := range p.path {
		if p.path[i] != q.path[i] {
			return false
		}
	}
	return true
}

// overlaps strictly: same object, one path a proper prefix of the other
func (p ptr) partialOverlap(q ptr) bool {
	if p.obj != q.obj || len(p.path) == len(q.path) {
		return false
	}
	n := len(p.path)
	if len(q.path) < n {
		n = len(q.path)
	}
	for i := 0; i < n; i++ {
		if p.path[i] != q.path[i] {
			return false
		}
	}
	return true
}

type bind struct {
	kind  string // ptr val bool nat int bit u64 arr sint word list
	p     ptr    // ptr; list: p.typ is the element type
	v     *V
	e     *E
	n     int64
	u     uint64   // u64: a concrete uint64 too large for n
	arr   []uint64 // arr: a local array literal of concrete words (gfP.Invert's `bits`)
	depth int
}

type state struct {
	objs    map[int]*V
	written map[int]bool
	touched map[int]bool
	env     map[string]bind
	elems   map[string]int // slice parameter → the object its current element denotes (inside its loop)
	cur     *prog
	contK   []func(*state)
	depth   int
}

func (s *state) fork(cur *prog) *state {
	n := &state{objs: map[int]*V{}, written: map[int]bool{}, touched: map[int]bool{}, env: map[string]bind{}, elems: map[string]int{}, cur: cur, depth: s.depth}
	for k, v := range s.elems {
		n.elems[k] = v
	}
	for k, v := range s.objs {
		n.objs[k] = v
	}
	for k, v := range s.written {
		n.written[k] = v
	}
	for k, v := range s.touched {
		n.touched[k] = v
	}
	for k, v := range s.env {
		n.env[k] = v
	}
	n.contK = append([]func(*state){}, s.contK...)
	return n
}

type leaf struct {
	st   *state
	rets []bind
	node *prog
}

type fctx struct {
	t        *translator
	key      string
	fd       *ast.FuncDecl
	params   []param
	classOf  []int
	paramObj []int // by parameter index
	nextObj  int
	objName  map[int]string
	objKind  map[int]string // param local global
	objTyps  map[int]string
	writes   int
	objRep   map[int]int
	globObj  map[string]int
	ctr      map[string]int
	leaves   []*leaf
	callees  []*summary
	named    []string // named results
	canPanic bool     // some leaf is a Go run-time panic
}

type xerr struct{ msg string }

func (f *fctx) fail(n ast.Node, format string, a ...interface{}) {
	pos := ""
	if n != nil {
		pos = f.t.fset.Position(n.Pos()).String() + ": "
	}
	panic(xerr{pos + f.key + ": " + fmt.Sprintf(format, a...)})
}

func (f *fctx) fresh(base string) string {
	base = strings.ReplaceAll(base, "'", "")
	f.ctr[base]++
	return fmt.Sprintf("%s_%d", base, f.ctr[base])
}

func (f *fctx) alloc(st *state, typ, name, kind string, v *V) int {
	id := f.nextObj
	f.nextObj++
	f.objName[id] = name
	f.objKind[id] = kind
	f.objTyps[id] = typ
	st.objs[id] = v
	return id
}

func (f *fctx) read(st *state, n ast.Node, p ptr) *V {
	if p.null {
		f.fail(n, "read through a nil pointer")
	}
	return st.objs[p.obj].get(p.path)
}

func (f *fctx) write(st *state, n ast.Node, p ptr, v *V) {
	if p.null {
		f.fail(n, "write through a nil pointer")
	}
	if f.objKind[p.obj] == "global" {
		f.fail(n, "write to package-level variable %s", f.objName[p.obj])
	}
	if f.objKind[p.obj] == "elem" {
		f.fail(n, "write to an element of slice parameter %s (unsupported: the loop would modify its input)", f.objName[p.obj])
	}
	if v.typ != under(p.typ) {
		f.fail(n, "type mismatch in store: %s into %s", v.typ, p.typ)
	}
	st.objs[p.obj] = st.objs[p.obj].set(p.path, v)
	st.written[p.obj] = true
	st.touched[p.obj] = true
	f.writes++
}

func (f *fctx) destName(p ptr) string {
	s := f.objName[p.obj]
	t := f.objTyp(p.obj)
	for _, i := range p.path {
		fi := expectedStructs[t][i]
		s += "_" + fi.name
		t = fi.typ
	}
	return s
}

func (f *fctx) objTyp(obj int) string { return f.objTyps[obj] }

func (f *fctx) emit(st *state, name string, typ string, e *E) *E {
	st.cur.lets = append(st.cur.lets, let{name: name, typ: typ, e: e})
	return eVar(name, e.Typ)
}

// ---------------------------------------------------------------------------
// expressions
// ---------------------------------------------------------------------------

func unparen(e ast.Expr) ast.Expr {
	for {
		p, ok := e.(*ast.ParenExpr)
		if !ok {
			return e
		}
		e = p.X
	}
}

func (f *fctx) global(st *state, n ast.Node, name string) (bind, bool) {
	g, ok := f.t.globals[name]
	if !ok {
		return bind{}, false
	}
	gp, ok := globalParams[name]
	if !ok {
		f.fail(n, "package-level variable %s is not in the translator's table of constants", name)
	}
	if gp.goTyp != g {
		f.fail(n, "package-level variable %s has type %s, expected %s", name, g, gp.goTyp)
	}
	if g == "nat" {
		return bind{kind: "nat", e: &E{K: "global", Name: name, Typ: "nat"}}, true
	}
	id, ok := f.globObj[name]
	if !ok {
		id = f.nextObj
		f.nextObj++
		f.objName[id] = name
		f.objKind[id] = "global"
		f.objTyps[id] = g
		f.globObj[name] = id
	}
	if _, ok := st.objs[id]; !ok {
		st.objs[id] = atomV(&E{K: "global", Name: name, Typ: g})
	}
	return bind{kind: "ptr", p: ptr{obj: id, typ: g}}, true
}

// eval: any expression
func (f *fctx) eval(st *state, e ast.Expr, hint string) bind {
	e = unparen(e)
	switch x := e.(type) {
	case *ast.Ident:
		switch x.Name {
		case "true", "false":
			return bind{kind: "bool", e: &E{K: "bool", Name: x.Name, Typ: "bool"}}
		case "nil":
			return bind{kind: "ptr", p: ptr{null: true}}
		}
		if b, ok := st.env[x.Name]; ok {
			return b
		}
		if b, ok := f.global(st, x, x.Name); ok {
			return b
		}
		f.fail(x, "unknown identifier %s", x.Name)
	case *ast.BasicLit:
		if x.Kind == token.INT {
			v, err := strconv.ParseInt(x.Value, 0, 64)
			if err == nil {
				return bind{kind: "int", n: v}
			}
		}
		f.fail(x, "unsupported literal %s", x.Value)
	case *ast.UnaryExpr:
		switch x.Op {
		case token.AND:
			if cl, ok := unparen(x.X).(*ast.CompositeLit); ok {
				typ := typeName(cl.Type)
				name := hint
				if name == "" {
					name = "tmp"
				}
				if isWrapper(typ) {
					// &pointG1{g: &curvePoint{}}: a wrapper around a fresh zero value
					if len(cl.Elts) == 1 {
						if kv, ok := cl.Elts[0].(*ast.KeyValueExpr); ok {
							if k, ok := kv.Key.(*ast.Ident); ok && k.Name == "g" {
								if u, ok := unparen(kv.Value).(*ast.UnaryExpr); ok && u.Op == token.AND {
									if icl, ok := unparen(u.X).(*ast.CompositeLit); ok && typeName(icl.Type) == wrappers[typ] && len(icl.Elts) == 0 {
										id := f.alloc(st, wrappers[typ], name, "local", zeroV(wrappers[typ]))
										return bind{kind: "ptr", p: ptr{obj: id, typ: typ}}
									}
								}
							}
						}
					}
					f.fail(x, "unsupported allocation of %s (only &%s{g: &%s{}})", typ, typ, wrappers[typ])
				}
				if typ == "gfP" && len(cl.Elts) != 0 {
					id := f.alloc(st, typ, name, "local", f.gfpLit(st, cl))
					return bind{kind: "ptr", p: ptr{obj: id, typ: typ}}
				}
				if len(cl.Elts) != 0 || (typ != "gfP" && !isStruct(typ)) {
					f.fail(x, "unsupported allocation (only &T{} of the known types)")
				}
				id := f.alloc(st, typ, name, "local", zeroV(typ))
				return bind{kind: "ptr", p: ptr{obj: id, typ: typ}}
			}
			// &t, &s.(*mod.Int).V: the address of a big.Int value is the number
			if nb, ok := f.natOperand(st, x.X); ok {
				return nb
			}
			return bind{kind: "ptr", p: f.lval(st, x.X)}
		case token.NOT:
			b := f.evalBool(st, x.X)
			if b.K == "bool" {
				if b.Name == "true" {
					return bind{kind: "bool", e: &E{K: "bool", Name: "false", Typ: "bool"}}
				}
				return bind{kind: "bool", e: &E{K: "bool", Name: "true", Typ: "bool"}}
			}
			return bind{kind: "bool", e: &E{K: "not", Args: []*E{b}, Typ: "bool"}}
		case token.SUB:
			b := f.eval(st, x.X, "")
			if b.kind == "int" {
				return bind{kind: "int", n: -b.n}
			}
			if b.kind == "sint" {
				return bind{kind: "sint", e: &E{K: "intneg", Args: []*E{b.e}, Typ: "int"}}
			}
		}
		f.fail(x, "unsupported unary expression")
	case *ast.StarExpr:
		// *newGFp(k): the field element k
		if c, ok := unparen(x.X).(*ast.CallExpr); ok {
			if id, ok := c.Fun.(*ast.Ident); ok && id.Name == "newGFp" && len(c.Args) == 1 {
				k := f.eval(st, c.Args[0], "")
				if k.kind == "int" && k.n == 0 {
					return bind{kind: "val", v: atomV(eZero())}
				}
				if k.kind == "int" && k.n == 1 {
					return bind{kind: "val", v: atomV(eOne())}
				}
				f.fail(x, "newGFp(k) only for k = 0, 1")
			}
		}
		p := f.eval(st, x.X, "")
		if p.kind != "ptr" {
			f.fail(x, "dereference of a non-pointer")
		}
		return bind{kind: "val", v: f.read(st, x, p.p)}
	case *ast.CompositeLit:
		if at, ok := x.Type.(*ast.ArrayType); ok && at.Len != nil && typeName(at.Elt) == "uint64" {
			var ws []uint64
			for _, el := range x.Elts {
				bl, ok := el.(*ast.BasicLit)
				if !ok || bl.Kind != token.INT {
					f.fail(x, "array literal with a non-constant element")
				}
				w, err := strconv.ParseUint(bl.Value, 0, 64)
				if err != nil {
					f.fail(x, "array element %s", bl.Value)
				}
				ws = append(ws, w)
			}
			return bind{kind: "arr", arr: ws}
		}
		typ := typeName(x.Type)
		if typ == "gfP" {
			for _, el := range x.Elts {
				b := f.eval(st, el, "")
				if b.kind != "int" || b.n != 0 {
					f.fail(x, "gfP literal other than zero")
				}
			}
			return bind{kind: "val", v: atomV(eZero())}
		}
		if isStruct(typ) && len(x.Elts) == 0 {
			return bind{kind: "val", v: zeroV(typ)}
		}
		f.fail(x, "unsupported composite literal")
	case *ast.SelectorExpr:
		if nb, ok := f.natOperand(st, x); ok {
			return nb
		}
		base := f.lvalBase(st, x.X, "")
		p := f.selPtr(base, x)
		if isWrapper(base.typ) {
			return bind{kind: "ptr", p: p} // the field g of a wrapper IS the pointer
		}
		return bind{kind: "val", v: f.read(st, x, p)}
	case *ast.TypeAssertExpr:
		b := f.eval(st, x.X, hint)
		want := typeName(x.Type)
		switch b.kind {
		case "ptr":
			if b.p.null || b.p.typ != want {
				f.fail(x, "type assertion to *%s on a value the translator reads as *%s", want, b.p.typ)
			}
			return b
		case "nat":
			if want == "mod.Int" {
				return b
			}
		}
		f.fail(x, "unsupported type assertion")
	case *ast.IndexExpr:
		if xb, ok := f.tryEval(st, x.X); ok {
			switch xb.kind {
			case "arr":
				i := f.eval(st, x.Index, "")
				if i.kind == "int" && i.n >= 0 && int(i.n) < len(xb.arr) {
					return u64bind(xb.arr[i.n])
				}
				f.fail(x, "array index")
			case "list":
				i := f.eval(st, x.Index, "")
				if i.kind != "idx" {
					f.fail(x, "slice parameter indexed by something else than the loop variable")
				}
				id, ok2 := st.elems[xb.e.Name]
				if !ok2 {
					f.fail(x, "slice parameter %s indexed outside its loop", xb.e.Name)
				}
				return bind{kind: "ptr", p: ptr{obj: id, typ: xb.p.typ}}
			case "ptr":
				if xb.p.typ == "gfP" {
					i := f.eval(st, x.Index, "")
					if i.kind != "int" || i.n < 0 || i.n > 3 {
						f.fail(x, "limb index is not a constant 0..3")
					}
					return bind{kind: "word", e: f.read(st, x, xb.p).wordOf(int(i.n))}
				}
			}
		}
		if id, ok := x.X.(*ast.Ident); ok && id.Name == "sixuPlus2NAF" && f.t.naf != nil {
			i := f.eval(st, x.Index, "")
			if i.kind == "int" && i.n >= 0 && int(i.n) < len(f.t.naf) {
				return bind{kind: "int", n: f.t.naf[i.n]}
			}
		}
		f.fail(x, "unsupported index expression")
	case *ast.BinaryExpr:
		switch x.Op {
		case token.LAND, token.LOR, token.EQL, token.NEQ, token.GTR, token.GEQ, token.LSS, token.LEQ:
			return bind{kind: "bool", e: f.evalBool(st, x)}
		case token.SHR, token.AND:
			a, b := f.eval(st, x.X, ""), f.eval(st, x.Y, "")
			if au, ok := concU64(a); ok {
				if bu, ok := concU64(b); ok {
					if x.Op == token.SHR {
						if bu > 63 {
							return u64bind(0)
						}
						return u64bind(au >> bu)
					}
					return u64bind(au & bu)
				}
			}
		case token.ADD, token.SUB:
			a, b := f.eval(st, x.X, ""), f.eval(st, x.Y, "")
			if a.kind == "int" && b.kind == "int" {
				if x.Op == token.ADD {
					return bind{kind: "int", n: a.n + b.n}
				}
				return bind{kind: "int", n: a.n - b.n}
			}
			if a.kind == "nat" && a.e.K == "bitlen" && b.kind == "int" && b.n == 1 && x.Op == token.SUB {
				return bind{kind: "nat", e: &E{K: "bitlenm1", Args: a.e.Args, Typ: "nat"}}
			}
		}
		f.fail(x, "unsupported binary expression")
	case *ast.CallExpr:
		rs := f.evalCall(st, x, hint)
		if len(rs) != 1 {
			f.fail(x, "call with %d results used as a value", len(rs))
		}
		return rs[0]
	}
	f.fail(e, "unsupported expression %T", e)
	return bind{}
}

func u64bind(u uint64) bind {
	if u < 1<<62 {
		return bind{kind: "int", n: int64(u)}
	}
	return bind{kind: "u64", u: u}
}

func concU64(b bind) (uint64, bool) {
	switch b.kind {
	case "int":
		if b.n >= 0 {
			return uint64(b.n), true
		}
	case "u64":
		return b.u, true
	}
	return 0, false
}

// tryEval: the binding of an identifier (local, parameter or global), if it is one
func (f *fctx) tryEval(st *state, e ast.Expr) (bind, bool) {
	id, ok := unparen(e).(*ast.Ident)
	if !ok {
		return bind{}, false
	}
	if b, ok := st.env[id.Name]; ok {
		return b, true
	}
	if id.Name == "sixuPlus2NAF" {
		return bind{}, false
	}
	if _, ok := f.t.globals[id.Name]; ok {
		return f.eval(st, id, ""), true
	}
	return bind{}, false
}

// natOperand: `t` (a big.Int value copied from a scalar) and `s.(*mod.Int).V` denote the number itself
func (f *fctx) natOperand(st *state, e ast.Expr) (bind, bool) {
	switch x := unparen(e).(type) {
	case *ast.Ident:
		if b, ok := st.env[x.Name]; ok && b.kind == "nat" {
			return b, true
		}
	case *ast.SelectorExpr:
		if ta, ok := unparen(x.X).(*ast.TypeAssertExpr); ok && x.Sel.Name == "V" && typeName(ta.Type) == "mod.Int" {
			b := f.eval(st, ta, "")
			if b.kind == "nat" {
				return b, true
			}
		}
	}
	return bind{}, false
}

// gfpLit: &gfP{w0, …}: the raw limbs (NOT Montgomery encoded); missing limbs are zero
func (f *fctx) gfpLit(st *state, cl *ast.CompositeLit) *V {
	e := &E{K: "rawlit", Typ: "gfP"}
	for _, el := range cl.Elts {
		b := f.eval(st, el, "")
		switch b.kind {
		case "int":
			if b.n < 0 {
				f.fail(cl, "negative limb")
			}
			e.Args = append(e.Args, &E{K: "intlit", Name: strconv.FormatInt(b.n, 10), Typ: "nat"})
		case "u64":
			e.Args = append(e.Args, &E{K: "intlit", Name: strconv.FormatUint(b.u, 10), Typ: "nat"})
		case "natofint":
			e.Args = append(e.Args, b.e)
		default:
			f.fail(cl, "unsupported limb expression in a gfP literal")
		}
	}
	return atomV(e)
}

// lvalBase: the pointer an expression denotes, without following a wrapper's `g`
func (f *fctx) lvalBase(st *state, e ast.Expr, hint string) ptr {
	switch unparen(e).(type) {
	case *ast.CallExpr, *ast.UnaryExpr, *ast.TypeAssertExpr:
		b := f.eval(st, e, hint)
		if b.kind != "ptr" {
			f.fail(e, "selector on a non-pointer")
		}
		return b.p
	}
	return f.lval(st, e)
}

// lval: address of an addressable expression (pointer variables are dereferenced implicitly)
func (f *fctx) lval(st *state, e ast.Expr) ptr {
	e = unparen(e)
	switch x := e.(type) {
	case *ast.Ident:
		b := f.eval(st, x, "")
		if b.kind == "ptr" {
			return b.p
		}
		f.fail(x, "%s is not a pointer", x.Name)
	case *ast.StarExpr:
		b := f.eval(st, x.X, "")
		if b.kind == "ptr" {
			return b.p
		}
	case *ast.SelectorExpr:
		return f.selPtr(f.lvalBase(st, x.X, ""), x)
	}
	f.fail(e, "not addressable")
	return ptr{}
}

// selPtr: the address of field x.Sel of the object base points to
func (f *fctx) selPtr(base ptr, x *ast.SelectorExpr) ptr {
	if base.null {
		f.fail(x, "field of a nil pointer")
	}
	if u, ok := wrappers[base.typ]; ok {
		if x.Sel.Name != "g" {
			f.fail(x, "type %s has no field %s", base.typ, x.Sel.Name)
		}
		return ptr{obj: base.obj, path: base.path, typ: u}
	}
	i := fieldIndex(base.typ, x.Sel.Name)
	if i < 0 {
		f.fail(x, "type %s has no field %s", base.typ, x.Sel.Name)
	}
	return ptr{obj: base.obj, path: append(append([]int{}, base.path...), i), typ: expectedStructs[base.typ][i].typ}
}

func boolLit(b bool) *E {
	if b {
		return &E{K: "bool", Name: "true", Typ: "bool"}
	}
	return &E{K: "bool", Name: "false", Typ: "bool"}
}

func (f *fctx) evalBool(st *state, e ast.Expr) *E {
	e = unparen(e)
	if x, ok := e.(*ast.BinaryExpr); ok {
		switch x.Op {
		case token.LAND, token.LOR:
			a := f.evalBool(st, x.X)
			// short circuit: the right operand must not have effects
			before := f.writes
			b := f.evalBool(st, x.Y)
			if f.writes != before {
				f.fail(x, "right operand of %s has side effects", x.Op)
			}
			if a.K == "bool" && b.K == "bool" {
				if x.Op == token.LAND {
					return boolLit(a.Name == "true" && b.Name == "true")
				}
				return boolLit(a.Name == "true" || b.Name == "true")
			}
			k := "and"
			if x.Op == token.LOR {
				k = "or"
			}
			return &E{K: k, Args: []*E{a, b}, Typ: "bool"}
		case token.EQL, token.NEQ, token.GTR, token.GEQ, token.LSS, token.LEQ:
			a, b := f.eval(st, x.X, ""), f.eval(st, x.Y, "")
			if a.kind == "int" && b.kind == "int" {
				switch x.Op {
				case token.EQL:
					return boolLit(a.n == b.n)
				case token.NEQ:
					return boolLit(a.n != b.n)
				case token.GTR:
					return boolLit(a.n > b.n)
				case token.GEQ:
					return boolLit(a.n >= b.n)
				case token.LSS:
					return boolLit(a.n < b.n)
				case token.LEQ:
					return boolLit(a.n <= b.n)
				}
			}
			if a.kind == "bit" && b.kind == "int" && b.n == 0 && x.Op == token.NEQ {
				return a.e
			}
			if a.kind == "ptr" && b.kind == "ptr" && b.p.null && (x.Op == token.EQL || x.Op == token.NEQ) {
				// nil-ness of a pointer is static: a parameter that the code compares with nil is
				// translated once per case (summary variants `_nil_<param>`)
				return boolLit(a.p.null == (x.Op == token.EQL))
			}
			if a.kind == "sint" && b.kind == "int" && b.n == 0 && x.Op == token.GEQ {
				return &E{K: "intge0", Args: []*E{a.e}, Typ: "bool"}
			}
			if a.kind == "val" && b.kind == "val" && (x.Op == token.EQL || x.Op == token.NEQ) {
				if a.v.typ != b.v.typ {
					f.fail(x, "comparison of %s with %s", a.v.typ, b.v.typ)
				}
				r := &E{K: "deceq", Args: []*E{a.v.toE(), b.v.toE()}, Typ: "bool"}
				if x.Op == token.NEQ {
					r = &E{K: "not", Args: []*E{r}, Typ: "bool"}
				}
				return r
			}
			f.fail(x, "unsupported comparison")
		}
	}
	b := f.eval(st, e, "")
	if b.kind != "bool" {
		f.fail(e, "expected a boolean expression")
	}
	return b.e
}

// boolAtom: let-bind a compound boolean so that it can be an operand
func (f *fctx) boolAtom(st *state, e *E, hint string) *E {
	switch e.K {
	case "var", "bool", "param":
		return e
	}
	if hint == "" {
		hint = "b"
	}
	return f.emit(st, f.fresh(hint), "Bool", e)
}

// ---------------------------------------------------------------------------
// calls
// ---------------------------------------------------------------------------

var primOps = map[string]struct {
	op    string
	arity int
}{"gfpAdd": {"add", 2}, "gfpSub": {"sub", 2}, "gfpMul": {"mul", 2}, "gfpNeg": {"neg", 1}}

func (f *fctx) leafPtr(st *state, e ast.Expr) ptr {
	b := f.eval(st, e, "")
	if b.kind != "ptr" || b.p.typ != "gfP" {
		f.fail(e, "expected a *gfP")
	}
	return b.p
}

func (f *fctx) evalCall(st *state, c *ast.CallExpr, hint string) []bind {
	switch fn := c.Fun.(type) {
	case *ast.Ident:
		if po, ok := primOps[fn.Name]; ok {
			// gfpAdd(c, a, b): the assembly reads its operands, then stores (proved for every aliasing: Props/C10)
			if len(c.Args) != po.arity+1 {
				f.fail(c, "arity of %s", fn.Name)
			}
			dst := f.leafPtr(st, c.Args[0])
			var args []*E
			for _, a := range c.Args[1:] {
				args = append(args, f.read(st, a, f.leafPtr(st, a)).toE())
			}
			v := f.emit(st, f.fresh(f.destName(dst)), "", &E{K: "app", Name: po.op, Args: args, Typ: "gfP"})
			f.write(st, c, dst, atomV(v))
			return nil
		}
		switch fn.Name {
		case "uint", "uint64", "int", "int64":
			if len(c.Args) == 1 {
				b := f.eval(st, c.Args[0], "")
				switch b.kind {
				case "int", "u64":
					if b.kind == "int" && b.n < 0 && fn.Name[0] == 'u' {
						f.fail(c, "conversion of a negative constant")
					}
					return []bind{b}
				case "sint":
					if fn.Name == "uint64" {
						// uint64(x) of an int64 the code has just tested / negated to be ≥ 0
						return []bind{{kind: "natofint", e: &E{K: "inttonat", Args: []*E{b.e}, Typ: "nat"}}}
					}
				}
				f.fail(c, "unsupported conversion %s(…)", fn.Name)
			}
		case "new":
			if len(c.Args) == 1 {
				if typ := typeName(c.Args[0]); typ == "gfP" || isStruct(typ) {
					name := hint
					if name == "" {
						name = "tmp"
					}
					id := f.alloc(st, typ, name, "local", zeroV(typ))
					return []bind{{kind: "ptr", p: ptr{obj: id, typ: typ}}}
				}
			}
			f.fail(c, "unsupported new(…)")
		}
		if fn.Name == "len" && len(c.Args) == 1 {
			if lb, ok := f.tryEval(st, c.Args[0]); ok && lb.kind == "list" {
				return []bind{{kind: "nat", e: &E{K: "listlen", Args: []*E{lb.e}, Typ: "nat"}}}
			}
		}
		if fn.Name == "len" && len(c.Args) == 1 {
			if id, ok := c.Args[0].(*ast.Ident); ok && id.Name == "sixuPlus2NAF" && f.t.naf != nil {
				return []bind{{kind: "int", n: int64(len(f.t.naf))}}
			}
		}
		if _, ok := f.t.funcs[fn.Name]; ok {
			return f.callTranslated(st, c, fn.Name, nil, c.Args, hint)
		}
		f.fail(c, "call of unknown function %s", fn.Name)
	case *ast.SelectorExpr:
		m := fn.Sel.Name
		// methods of *big.Int values
		if id, ok := unparen(fn.X).(*ast.Ident); ok {
			if b, ok2 := st.env[id.Name]; (ok2 && b.kind == "nat") || (!ok2 && f.t.globals[id.Name] == "nat") {
				nb := f.eval(st, id, "")
				switch m {
				case "BitLen":
					return []bind{{kind: "nat", e: &E{K: "bitlen", Args: []*E{nb.e}, Typ: "nat"}}}
				case "Bit":
					i := f.eval(st, c.Args[0], "")
					if i.kind != "nat" {
						f.fail(c, "Bit(i) with a non-symbolic index")
					}
					return []bind{{kind: "bit", e: &E{K: "testbit", Args: []*E{nb.e, i.e}, Typ: "bool"}}}
				}
				f.fail(c, "unsupported big.Int method %s", m)
			}
		}
		// mod.NewInt64(0, Order).Pick(rand): a scalar in [0, Order) drawn from the stream — the value of the
		// stream parameter in the translation
		if inner, ok := unparen(fn.X).(*ast.CallExpr); ok && m == "Pick" && len(c.Args) == 1 {
			if sel, ok := inner.Fun.(*ast.SelectorExpr); ok && typeName(sel) == "mod.NewInt64" &&
				len(inner.Args) == 2 && typeName(inner.Args[1]) == "Order" {
				if z, ok := inner.Args[0].(*ast.BasicLit); ok && z.Value == "0" {
					rb := f.eval(st, c.Args[0], "")
					if rb.kind == "nat" {
						return []bind{rb}
					}
				}
			}
			f.fail(c, "unsupported Pick")
		}
		recv := f.lvalBase(st, fn.X, hint)
		if recv.null {
			f.fail(c, "method call on nil")
		}
		if recv.typ == "gfP" {
			switch m {
			case "Set": // limb copy
				src := f.leafPtr(st, c.Args[0])
				f.write(st, c, recv, f.read(st, c, src))
				return nil
			case "Invert": // gfP.Invert: the hand model's ⁻¹ (Model/Bn256Field.lean, proved in Props/C10)
				src := f.leafPtr(st, c.Args[0])
				v := f.emit(st, f.fresh(f.destName(recv)), "", &E{K: "app", Name: "inv", Args: []*E{f.read(st, c, src).toE()}, Typ: "gfP"})
				f.write(st, c, recv, atomV(v))
				return nil
			}
			f.fail(c, "unsupported gfP method %s", m)
		}
		key := recv.typ + "." + m
		if _, ok := f.t.funcs[key]; !ok {
			f.fail(c, "call of unknown method %s", key)
		}
		return f.callTranslated(st, c, key, &recv, c.Args, hint)
	}
	f.fail(c, "unsupported call")
	return nil
}

type actual struct {
	kind string // ptr nat
	p    ptr
	e    *E
}

func (f *fctx) callTranslated(st *state, c *ast.CallExpr, key string, recv *ptr, args []ast.Expr, hint string) []bind {
	t := f.t
	params := t.paramsOf(key)
	var acts []actual
	if recv != nil {
		acts = append(acts, actual{kind: "ptr", p: *recv})
	}
	for _, a := range args {
		b := f.eval(st, a, "")
		switch b.kind {
		case "ptr":
			acts = append(acts, actual{kind: "ptr", p: b.p})
		case "nat":
			acts = append(acts, actual{kind: "nat", e: b.e})
		default:
			f.fail(a, "unsupported argument kind %s", b.kind)
		}
	}
	if len(acts) != len(params) {
		f.fail(c, "%s: %d arguments for %d parameters", key, len(acts), len(params))
	}
	classOf := make([]int, len(params))
	for i := range params {
		classOf[i] = i
		if params[i].kind != acts[i].kind {
			f.fail(c, "%s: argument %d is a %s, parameter is a %s", key, i, acts[i].kind, params[i].kind)
		}
		if acts[i].kind != "ptr" {
			continue
		}
		if acts[i].p.null {
			if !params[i].nilable {
				f.fail(c, "%s: nil argument", key)
			}
			classOf[i] = -1
			continue
		}
		if acts[i].p.typ != params[i].typ {
			f.fail(c, "%s: argument %d has type *%s, parameter *%s", key, i, acts[i].p.typ, params[i].typ)
		}
		for j := 0; j < i; j++ {
			if acts[j].kind != "ptr" || classOf[j] < 0 {
				continue
			}
			if acts[i].p.partialOverlap(acts[j].p) {
				f.fail(c, "%s: arguments %d and %d overlap partially (unsupported aliasing)", key, j, i)
			}
			if classOf[i] == i && acts[i].p.sameLoc(acts[j].p) {
				classOf[i] = classOf[j]
			}
		}
	}
	sum := t.summary(key, classOf)
	f.callees = append(f.callees, sum)
	target := sum
	if sum.sameAs != nil {
		target = sum.sameAs
	}
	if target.canPanic {
		f.fail(c, "%s can panic: calls of such functions are not supported", key)
	}
	call := &E{K: "app", Name: target.lean, Typ: "tuple"}
	for _, g := range target.gparamList() {
		call.Args = append(call.Args, &E{K: "gparam", Name: g})
	}
	for i := range target.params {
		if !target.used[i] {
			continue
		}
		if acts[i].kind == "ptr" {
			call.Args = append(call.Args, f.read(st, c, acts[i].p).toE())
		} else {
			call.Args = append(call.Args, acts[i].e)
		}
	}
	// bind the result
	n := len(sum.comps)
	var comps []*E
	if n == 1 {
		cp := sum.comps[0]
		name := hint
		if cp.out >= 0 {
			name = f.destName(acts[cp.out].p)
		} else if name == "" {
			name = "r"
		}
		call.Typ = under(cp.typ)
		typ := ""
		if cp.typ == "bool" {
			typ = "Bool"
		} else if len(call.Args) == 0 {
			typ = leanType(cp.typ) // nothing else determines α (`q := newPointG1()` whose value is overwritten)
		}
		comps = []*E{f.emit(st, f.fresh(name), typ, call)}
	} else if n > 1 {
		r := f.emit(st, f.fresh("r"), "", call)
		for i, cp := range sum.comps {
			comps = append(comps, &E{K: "tproj", Args: []*E{r}, I: i, N: n, Typ: under(cp.typ)})
		}
	}
	var fresh = map[int]ptr{}
	for i, cp := range sum.comps {
		switch {
		case cp.out >= 0:
			f.write(st, c, acts[cp.out].p, atomV(comps[i]))
		case cp.typ != "bool":
			name := hint
			if name == "" || n > 1 {
				name = cp.name
			}
			id := f.alloc(st, under(cp.typ), name, "local", atomV(comps[i]))
			fresh[i] = ptr{obj: id, typ: cp.typ}
		}
	}
	var out []bind
	for _, r := range sum.rets {
		switch r.kind {
		case "param":
			out = append(out, bind{kind: "ptr", p: acts[r.rep].p})
		case "fresh":
			out = append(out, bind{kind: "ptr", p: fresh[r.comp]})
		case "bool":
			out = append(out, bind{kind: "bool", e: comps[r.comp]})
		}
	}
	return out
}

// ---------------------------------------------------------------------------
// statements
// ---------------------------------------------------------------------------

func (f *fctx) assignIdent(st *state, id *ast.Ident, b bind, define bool) {
	if id.Name == "_" {
		return
	}
	old, ok := st.env[id.Name]
	if define {
		if ok && old.depth < st.depth {
			f.fail(id, "%s shadows an outer variable (unsupported)", id.Name)
		}
		b.depth = st.depth
	} else {
		if !ok {
			f.fail(id, "assignment to unknown variable %s", id.Name)
		}
		b.depth = old.depth
		if old.kind != b.kind && !(old.kind == "ptr" && old.p.null) {
			f.fail(id, "variable %s changes kind", id.Name)
		}
	}
	if b.kind == "bool" {
		b.e = f.boolAtom(st, b.e, id.Name)
	}
	if b.kind == "bit" || b.kind == "word" || b.kind == "natofint" {
		f.fail(id, "unsupported value kind %s in a variable", b.kind)
	}
	st.env[id.Name] = b
}

func (f *fctx) assign(st *state, s *ast.AssignStmt) {
	if s.Tok != token.DEFINE && s.Tok != token.ASSIGN {
		f.fail(s, "unsupported assignment operator %s", s.Tok)
	}
	var vals []bind
	if len(s.Rhs) == 1 && len(s.Lhs) > 1 {
		call, ok := unparen(s.Rhs[0]).(*ast.CallExpr)
		if !ok {
			f.fail(s, "unsupported multi-assignment")
		}
		vals = f.evalCall(st, call, "")
		if len(vals) != len(s.Lhs) {
			f.fail(s, "assignment count mismatch")
		}
	} else {
		if len(s.Rhs) != len(s.Lhs) {
			f.fail(s, "assignment count mismatch")
		}
		for i, r := range s.Rhs {
			hint := ""
			if id, ok := s.Lhs[i].(*ast.Ident); ok {
				hint = id.Name
			}
			vals = append(vals, f.eval(st, r, hint))
		}
	}
	for i, l := range s.Lhs {
		idx := i
		if id, ok := l.(*ast.Ident); ok {
			f.assignIdent(st, id, vals[i], s.Tok == token.DEFINE)
			continue
		}
		if s.Tok == token.DEFINE {
			f.fail(s, "unsupported := target")
		}
		if ix, ok := l.(*ast.IndexExpr); ok {
			// e[i] = w: one limb of a gfP
			if xb, ok := f.tryEval(st, ix.X); ok && xb.kind == "ptr" && xb.p.typ == "gfP" {
				i := f.eval(st, ix.Index, "")
				if i.kind != "int" || i.n < 0 || i.n > 3 {
					f.fail(s, "limb index is not a constant 0..3")
				}
				if vals[idx].kind != "word" {
					f.fail(s, "unsupported limb store")
				}
				f.write(st, s, xb.p, f.read(st, s, xb.p).withWord(int(i.n), vals[idx].e))
				continue
			}
			f.fail(s, "unsupported indexed store")
		}
		p := f.lval(st, l)
		if vals[i].kind != "val" {
			f.fail(s, "store of a non-value")
		}
		f.write(st, s, p, vals[i].v)
	}
}

func (f *fctx) run(st *state, stmts []ast.Stmt, k func(*state)) {
	for i, s := range stmts {
		rest := stmts[i+1:]
		cont := func(s2 *state) { f.run(s2, rest, k) }
		switch x := s.(type) {
		case *ast.AssignStmt:
			f.assign(st, x)
		case *ast.ExprStmt:
			call, ok := unparen(x.X).(*ast.CallExpr)
			if !ok {
				f.fail(x, "unsupported expression statement")
			}
			f.evalCall(st, call, "")
		case *ast.IncDecStmt:
			id, ok := x.X.(*ast.Ident)
			b := bind{}
			if ok {
				b = st.env[id.Name]
			}
			if !ok || b.kind != "int" {
				f.fail(x, "unsupported ++/--")
			}
			if x.Tok == token.INC {
				b.n++
			} else {
				b.n--
			}
			st.env[id.Name] = b
		case *ast.ReturnStmt:
			f.finish(st, x, x.Results)
			return
		case *ast.IfStmt:
			f.runIf(st, x, cont)
			return
		case *ast.BlockStmt:
			st.depth++
			f.run(st, x.List, func(s2 *state) { s2.depth--; cont(s2) })
			return
		case *ast.SwitchStmt:
			f.runSwitch(st, x, cont)
			return
		case *ast.ForStmt:
			f.runFor(st, x, cont)
			return
		case *ast.BranchStmt:
			if x.Tok == token.CONTINUE && x.Label == nil && len(st.contK) > 0 {
				st.contK[len(st.contK)-1](st)
				return
			}
			f.fail(x, "unsupported branch statement")
		default:
			f.fail(s, "unsupported statement %T", s)
		}
	}
	k(st)
}

func (f *fctx) runIf(st *state, s *ast.IfStmt, k func(*state)) {
	if s.Init != nil {
		f.fail(s, "if with init statement")
	}
	cond := f.evalBool(st, s.Cond)
	d := st.depth
	leave := func(s2 *state) { s2.depth = d; k(s2) }
	runElse := func(s2 *state) {
		switch e := s.Else.(type) {
		case nil:
			leave(s2)
		case *ast.BlockStmt:
			s2.depth = d + 1
			f.run(s2, e.List, leave)
		case *ast.IfStmt:
			f.runIf(s2, e, leave)
		default:
			f.fail(s, "unsupported else")
		}
	}
	if cond.K == "bool" {
		if cond.Name == "true" {
			st.depth = d + 1
			f.run(st, s.Body.List, leave)
		} else {
			runElse(st)
		}
		return
	}
	node := st.cur
	node.cond = cond
	node.th, node.el = &prog{}, &prog{}
	stT, stE := st.fork(node.th), st.fork(node.el)
	stT.depth = d + 1
	f.run(stT, s.Body.List, leave)
	runElse(stE)
}

func (f *fctx) runSwitch(st *state, s *ast.SwitchStmt, k func(*state)) {
	if s.Init != nil || s.Tag == nil {
		f.fail(s, "unsupported switch")
	}
	tag := f.eval(st, s.Tag, "")
	if tag.kind != "int" {
		f.fail(s, "switch on a symbolic value")
	}
	var chosen, def *ast.CaseClause
	for _, c := range s.Body.List {
		cc := c.(*ast.CaseClause)
		if cc.List == nil {
			def = cc
			continue
		}
		for _, e := range cc.List {
			v := f.eval(st, e, "")
			if v.kind != "int" {
				f.fail(e, "symbolic case")
			}
			if v.n == tag.n && chosen == nil {
				chosen = cc
			}
		}
	}
	if chosen == nil {
		chosen = def
	}
	if chosen == nil {
		k(st)
		return
	}
	d := st.depth
	st.depth = d + 1
	f.run(st, chosen.Body, func(s2 *state) { s2.depth = d; k(s2) })
}

// runFor: (1) a loop whose control is concrete (miller's loop over the NAF digits) is unrolled;
// (2) `for i := X.BitLen() [-1]; i >= 0; i--` becomes a fold over (List.range n).reverse.
func (f *fctx) runFor(st *state, s *ast.ForStmt, k func(*state)) {
	init, ok := s.Init.(*ast.AssignStmt)
	if !ok || init.Tok != token.DEFINE || len(init.Lhs) != 1 || len(init.Rhs) != 1 || s.Cond == nil || s.Post == nil {
		f.fail(s, "unsupported for statement")
	}
	iv := init.Lhs[0].(*ast.Ident)
	post, ok := s.Post.(*ast.IncDecStmt)
	if !ok {
		f.fail(s, "unsupported for post statement")
	}
	if pid, ok := post.X.(*ast.Ident); !ok || pid.Name != iv.Name {
		f.fail(s, "unsupported for post statement")
	}
	d := st.depth
	if f.sliceLoop(st, s, iv, init, post, k) {
		return
	}
	st.depth = d + 1
	start := f.eval(st, init.Rhs[0], "")
	if start.kind == "int" {
		f.assignIdent(st, iv, start, true)
		var iter func(*state)
		iter = func(s2 *state) {
			c := f.evalBool(s2, s.Cond)
			if c.K != "bool" {
				f.fail(s, "loop condition is not concrete")
			}
			if c.Name != "true" {
				delete(s2.env, iv.Name)
				s2.depth = d
				k(s2)
				return
			}
			next := func(s3 *state) {
				s3.contK = s3.contK[:len(s3.contK)-1]
				s3.depth = d + 1
				f.run(s3, []ast.Stmt{post}, iter)
			}
			s2.contK = append(s2.contK, next)
			s2.depth = d + 2
			f.run(s2, s.Body.List, next)
		}
		iter(st)
		return
	}
	// bit loop
	var count *E
	if start.kind == "nat" && start.e.K == "bitlen" {
		count = &E{K: "natadd", Name: "1", Args: []*E{start.e}, Typ: "nat"} // i = BitLen … 0
	} else if start.kind == "nat" && start.e.K == "bitlenm1" {
		count = &E{K: "bitlen", Args: start.e.Args, Typ: "nat"} // i = BitLen-1 … 0
	}
	cx, okc := unparen(s.Cond).(*ast.BinaryExpr)
	if count == nil || post.Tok != token.DEC || !okc || cx.Op != token.GEQ {
		f.fail(s, "unsupported loop shape")
	}
	if l, ok := cx.X.(*ast.Ident); !ok || l.Name != iv.Name {
		f.fail(s, "unsupported loop condition")
	}
	if r := f.eval(st, cx.Y, ""); r.kind != "int" || r.n != 0 {
		f.fail(s, "unsupported loop condition")
	}
	// dry run: which objects does the body write?
	touched := map[int]bool{}
	{
		savedCtr := map[string]int{}
		for k, v := range f.ctr {
			savedCtr[k] = v
		}
		savedObj, savedLeaves, savedCallees := f.nextObj, len(f.leaves), len(f.callees)
		dry := st.fork(&prog{})
		dry.touched = map[int]bool{}
		dry.depth = d + 2
		dry.contK = nil
		dry.env[iv.Name] = bind{kind: "nat", e: eVar("i_dry", "nat"), depth: d + 1}
		f.run(dry, s.Body.List, func(s2 *state) {
			for o := range s2.touched {
				touched[o] = true
			}
			for name, b := range st.env {
				if b2 := s2.env[name]; b.kind == "ptr" && (b2.kind != "ptr" || !b2.p.sameLoc(b.p)) {
					f.fail(s, "loop body rebinds pointer variable %s", name)
				}
			}
		})
		if len(f.leaves) != savedLeaves {
			f.fail(s, "return inside a loop")
		}
		f.ctr, f.nextObj, f.callees = savedCtr, savedObj, f.callees[:savedCallees]
	}
	var carried []int
	for o := range touched {
		if _, ok := st.objs[o]; ok {
			carried = append(carried, o)
		}
	}
	sort.Ints(carried)
	if len(carried) == 0 {
		f.fail(s, "loop without effect")
	}
	n := len(carried)
	var typs []string
	var inits []*E
	for _, o := range carried {
		typs = append(typs, leanType(f.objTyp(o)))
		inits = append(inits, st.objs[o].toE())
	}
	stName, iName := f.fresh("st"), f.fresh(iv.Name)
	sub := &prog{}
	body := st.fork(sub)
	body.contK = nil
	body.depth = d + 2
	stVar := eVar(stName, "tuple")
	for j, o := range carried {
		body.objs[o] = atomV(&E{K: "tproj", Args: []*E{stVar}, I: j, N: n, Typ: f.objTyp(o)})
	}
	body.env[iv.Name] = bind{kind: "nat", e: eVar(iName, "nat"), depth: d + 1}
	f.run(body, s.Body.List, func(s2 *state) {
		r := &E{K: "tuple", Typ: "tuple"}
		for _, o := range carried {
			r.Args = append(r.Args, s2.objs[o].toE())
		}
		s2.cur.ret = r
	})
	fold := &E{K: "fold", Typ: "tuple", Sub: sub,
		Args: []*E{{K: "tuple", Args: inits, Typ: "tuple"}, count},
		Bind: []bind2{{stName, strings.Join(typs, " × ")}, {iName, "Nat"}}}
	res := f.emit(st, f.fresh("loop"), "", fold)
	for j, o := range carried {
		st.objs[o] = atomV(&E{K: "tproj", Args: []*E{res}, I: j, N: n, Typ: f.objTyp(o)})
		st.written[o] = true
		st.touched[o] = true
	}
	st.depth = d
	k(st)
}

// sliceLoop: `for i := 0; i < len(a); i++ { … a[i] … b[i] … }` over slice PARAMETERS becomes a fold over
// `a` (or `List.zip a b`): Go panics (index out of range) when another slice indexed by i is shorter than
// `a`, which is a separate leaf of the translation (value `none`); elements beyond len(a) are ignored, as in Go.
func (f *fctx) sliceLoop(st *state, s *ast.ForStmt, iv *ast.Ident, init *ast.AssignStmt, post *ast.IncDecStmt, k func(*state)) bool {
	cx, ok := unparen(s.Cond).(*ast.BinaryExpr)
	if !ok || cx.Op != token.LSS || post.Tok != token.INC {
		return false
	}
	if l, ok := cx.X.(*ast.Ident); !ok || l.Name != iv.Name {
		return false
	}
	lc, ok := unparen(cx.Y).(*ast.CallExpr)
	if !ok || len(lc.Args) != 1 {
		return false
	}
	if fn, ok := lc.Fun.(*ast.Ident); !ok || fn.Name != "len" {
		return false
	}
	lead, ok := f.tryEval(st, lc.Args[0])
	if !ok || lead.kind != "list" {
		return false
	}
	if z, ok := init.Rhs[0].(*ast.BasicLit); !ok || z.Value != "0" {
		f.fail(s, "slice loop does not start at 0")
	}
	// the slice parameters indexed by the loop variable, in order of first use
	lists := []bind{lead}
	ast.Inspect(s.Body, func(n ast.Node) bool {
		if ix, ok := n.(*ast.IndexExpr); ok {
			if id, ok := ix.Index.(*ast.Ident); ok && id.Name == iv.Name {
				if lb, ok := f.tryEval(st, ix.X); ok && lb.kind == "list" {
					for _, l := range lists {
						if l.e.Name == lb.e.Name {
							return true
						}
					}
					lists = append(lists, lb)
				}
			}
		}
		return true
	})
	if len(lists) > 2 {
		f.fail(s, "loop over more than two slices")
	}
	d := st.depth
	// a shorter second slice: index out of range
	if len(lists) == 2 {
		node := st.cur
		node.cond = &E{K: "natlt", Typ: "bool", Args: []*E{
			{K: "listlen", Args: []*E{lists[1].e}, Typ: "nat"}, {K: "listlen", Args: []*E{lead.e}, Typ: "nat"}}}
		node.th = &prog{panics: "index out of range: len(" + lists[1].e.Name + ") < len(" + lead.e.Name + ")"}
		node.el = &prog{}
		st.cur = node.el
		f.canPanic = true
	}
	elemVar := f.fresh("el")
	mkElems := func(s2 *state) {
		for j, l := range lists {
			var e *E
			if len(lists) == 1 {
				e = eVar(elemVar, under(l.p.typ))
			} else {
				e = &E{K: "tproj", Args: []*E{eVar(elemVar, "tuple")}, I: j, N: 2, Typ: under(l.p.typ)}
			}
			id := f.alloc(s2, under(l.p.typ), l.e.Name+"_i", "elem", atomV(e))
			s2.elems[l.e.Name] = id
		}
	}
	// dry run: which objects does the body write?
	touched := map[int]bool{}
	{
		savedCtr := map[string]int{}
		for k, v := range f.ctr {
			savedCtr[k] = v
		}
		savedObj, savedLeaves, savedCallees := f.nextObj, len(f.leaves), len(f.callees)
		dry := st.fork(&prog{})
		dry.touched = map[int]bool{}
		dry.depth = d + 2
		mkElems(dry)
		dry.env[iv.Name] = bind{kind: "idx", depth: d + 1}
		end := func(s2 *state) {
			for o := range s2.touched {
				touched[o] = true
			}
		}
		dry.contK = []func(*state){end}
		f.run(dry, s.Body.List, end)
		if len(f.leaves) != savedLeaves {
			f.fail(s, "return inside a loop")
		}
		f.ctr, f.nextObj, f.callees = savedCtr, savedObj, f.callees[:savedCallees]
	}
	var carried []int
	for o := range touched {
		if _, ok := st.objs[o]; ok {
			carried = append(carried, o)
		}
	}
	sort.Ints(carried)
	if len(carried) == 0 {
		f.fail(s, "loop without effect")
	}
	n := len(carried)
	var typs []string
	var inits []*E
	for _, o := range carried {
		typs = append(typs, leanType(f.objTyp(o)))
		inits = append(inits, st.objs[o].toE())
	}
	stName := f.fresh("st")
	sub := &prog{}
	body := st.fork(sub)
	body.depth = d + 2
	mkElems(body)
	stVar := eVar(stName, "tuple")
	for j, o := range carried {
		body.objs[o] = atomV(&E{K: "tproj", Args: []*E{stVar}, I: j, N: n, Typ: f.objTyp(o)})
	}
	body.env[iv.Name] = bind{kind: "idx", depth: d + 1}
	end := func(s2 *state) {
		r := &E{K: "tuple", Typ: "tuple"}
		for _, o := range carried {
			r.Args = append(r.Args, s2.objs[o].toE())
		}
		s2.cur.ret = r
	}
	body.contK = []func(*state){end}
	f.run(body, s.Body.List, end)
	var elTyps []string
	zip := &E{K: "zip", Typ: "list"}
	for _, l := range lists {
		elTyps = append(elTyps, leanType(l.p.typ))
		zip.Args = append(zip.Args, l.e)
	}
	fold := &E{K: "fold", Name: "zip", Typ: "tuple", Sub: sub,
		Args: []*E{{K: "tuple", Args: inits, Typ: "tuple"}, zip},
		Bind: []bind2{{stName, strings.Join(typs, " × ")}, {elemVar, strings.Join(elTyps, " × ")}}}
	res := f.emit(st, f.fresh("loop"), "", fold)
	for j, o := range carried {
		st.objs[o] = atomV(&E{K: "tproj", Args: []*E{res}, I: j, N: n, Typ: f.objTyp(o)})
		st.written[o] = true
		st.touched[o] = true
	}
	for _, l := range lists {
		delete(st.elems, l.e.Name)
	}
	st.depth = d
	k(st)
	return true
}

func (f *fctx) finish(st *state, n ast.Node, results []ast.Expr) {
	lf := &leaf{st: st, node: st.cur}
	if len(results) == 0 {
		for _, name := range f.named {
			lf.rets = append(lf.rets, st.env[name])
		}
	} else {
		for _, r := range results {
			b := f.eval(st, r, "")
			if b.kind == "bit" {
				f.fail(n, "unsupported result")
			}
			lf.rets = append(lf.rets, b)
		}
	}
	f.leaves = append(f.leaves, lf)
}

func typeName(e ast.Expr) string {
	switch t := e.(type) {
	case *ast.Ident:
		return t.Name
	case *ast.StarExpr:
		return typeName(t.X)
	case *ast.SelectorExpr:
		if id, ok := t.X.(*ast.Ident); ok {
			return id.Name + "." + t.Sel.Name
		}
	case *ast.ArrayType:
		if t.Len == nil {
			return "[]" + typeName(t.Elt)
		}
	}
	return ""
}

/-
C19 — state-changing calls become one correctly encoded transaction; failover is safe.

Property theorems about `handleReq` (onchain/eth_set.go) as a function of what each RPC endpoint
does (`Outcome`), for ANY number of endpoints and EVERY outcome assignment, and about the
argument marshalling (`Signature.ToBigInt`, `decodePubKey`, request id, traffic type).
`run os` is the loop of the code as it is in /repo (F8 repaired, commit 6226eed);
`handleReq false` is the loop before the repair.  Helper lemmas: `Proofs/ReqLoop*.lean`.
ABI encoding, signing, chain id and gas fields are go-ethereum's: compared on every run by the
correspondence harness (decoded raw transactions), not proved.
-/
import DosModel.Proofs.ReqLoop
import DosModel.Proofs.ReqLoopMarshal
import DosModel.Model.Codec
import DosModel.Gen.ReqLoopFacts

namespace Dos.Props.C19
open Dos Dos.ReqLoop

/-- **characterisation.** Endpoint `j` is contacted iff the loop invokes `f` for its outcome
(its context is alive and the caller has not given up) and no earlier endpoint ended the loop
(accept, revert, insufficient funds, caller gave up). -/
theorem contacted_iff (os : List Outcome) (j : Nat) :
    j ∈ (run os).contacted ↔
      ∃ o, os[j]? = some o ∧ called o = true ∧ ∀ m o', m < j → os[m]? = some o' → stops o' = false := by
  unfold run
  rw [handleReq_contacted, mem_contactedSpec]
  constructor
  · rintro ⟨i, o, hj, h⟩
    have : j = i := by omega
    subst this
    exact ⟨o, h⟩
  · rintro ⟨o, h⟩
    exact ⟨j, o, by omega, h⟩

example : (run [.otherErr, .ctxDone, .accept, .accept]).contacted = [0, 2] := by decide

/-- **1a. stop after accept**: once an endpoint has accepted the transaction no later endpoint is contacted. -/
theorem stop_after_accept (os : List Outcome) (i j : Nat)
    (hi : os[i]? = some .accept) (hj : j ∈ (run os).contacted) : j ≤ i := by
  obtain ⟨o, _, _, hall⟩ := (contacted_iff os j).1 hj
  by_contra hlt
  have := hall i .accept (by omega) hi
  simp [stops] at this

example : ∀ j ∈ (run [.nonceErr, .accept, .accept, .otherErr]).contacted, j ≤ 1 := by decide

/-- **1b. stop after revert or insufficient funds**: no later endpoint is contacted. -/
theorem stop_after_revert_or_funds (os : List Outcome) (i j : Nat) (o : Outcome)
    (hi : os[i]? = some o) (ho : o = .revert ∨ o = .insufficient)
    (hj : j ∈ (run os).contacted) : j ≤ i := by
  obtain ⟨o1, _, _, hall⟩ := (contacted_iff os j).1 hj
  by_contra hlt
  have := hall i o (by omega) hi
  rcases ho with rfl | rfl <;> simp [stops] at this

example : (run [.otherErr, .revert, .accept]).contacted = [0, 1] ∧
    (run [.insufficient, .accept]).contacted = [0] := by decide

/-- **2a. failover**: after a connection / nonce / other error on a contacted endpoint `i`, the next
endpoint whose context is alive is tried (endpoints in between are the already cancelled ones). -/
theorem failover (os : List Outcome) (i j : Nat) (o o' : Outcome)
    (hi : os[i]? = some o) (ho : o = .closedConn ∨ o = .nonceErr ∨ o = .otherErr)
    (hc : i ∈ (run os).contacted) (hij : i < j)
    (hbetween : ∀ m, i < m → m < j → os[m]? = some .ctxDone)
    (hj : os[j]? = some o') (hlive : o' ≠ .ctxDone) (hop : o' ≠ .opDone) :
    j ∈ (run os).contacted := by
  obtain ⟨oi, hoi, _, hall⟩ := (contacted_iff os i).1 hc
  refine (contacted_iff os j).2 ⟨o', hj, ?_, ?_⟩
  · cases o' <;> simp_all [called]
  · intro m om hm hget
    rcases Nat.lt_trichotomy m i with h | h | h
    · exact hall m om h hget
    · subst h
      rw [hi] at hget; injection hget with hget; subst hget
      rcases ho with rfl | rfl | rfl <;> simp [stops]
    · have := hbetween m h hm
      rw [this] at hget; injection hget with hget; subst hget
      simp [stops]

example : 3 ∈ (run [.nonceErr, .ctxDone, .ctxDone, .accept]).contacted := by decide

/-- **2b. the endpoint whose connection failed is cancelled** (and only such endpoints are). -/
theorem failed_connection_cancelled (os : List Outcome) (i : Nat) :
    i ∈ (run os).cancelled ↔
      i ∈ (run os).contacted ∧ (os[i]? = some .closedConn ∨ os[i]? = some .nonceErr) := by
  unfold run
  rw [handleReq_cancelled, handleReq_contacted, mem_cancelledSpec, mem_contactedSpec]
  constructor
  · rintro ⟨k, o, hk, hget, hc, hall⟩
    have : i = k := by omega
    subst this
    refine ⟨⟨i, o, by omega, hget, ?_, hall⟩, ?_⟩
    · cases o <;> simp_all [cancels, called]
    · cases o <;> simp_all [cancels]
  · rintro ⟨⟨k, o, hk, hget, _, hall⟩, h⟩
    have : i = k := by omega
    subst this
    refine ⟨i, o, by omega, hget, ?_, hall⟩
    rcases h with h | h <;> (rw [hget] at h; injection h with h; subst h; simp [cancels])

example : (run [.nonceErr, .otherErr, .closedConn, .accept]).cancelled = [0, 2] := by decide

/-- **3. at most one accept**: at most one contacted endpoint accepted the transaction … -/
theorem at_most_one_accept (os : List Outcome) :
    ((run os).contacted.filter (fun j => os[j]? = some Outcome.accept)).length ≤ 1 := by
  unfold run
  rw [handleReq_contacted]
  simpa using accept_count os 0

/-- … and every endpoint is contacted at most once, in endpoint order. -/
theorem each_endpoint_at_most_once (os : List Outcome) :
    (run os).contacted.Pairwise (· < ·) := by
  unfold run
  rw [handleReq_contacted]
  exact (contactedSpec_sorted os 0).1

example : ((run [.otherErr, .accept, .accept, .accept]).contacted.filter
    (fun j => [Outcome.otherErr, .accept, .accept, .accept][j]? = some Outcome.accept)) = [1] := by decide

/-! ### 3'. exactly one transaction — on what the ENDPOINTS did (round 5, review E #2)

`at_most_one_accept` counts the endpoints at which `f` RETURNED a transaction.  The property speaks of the endpoints that
ACCEPTED one.  The two differ when an endpoint processes `eth_sendRawTransaction` and the connection fails before its
reply arrives (`acceptedReplyLost`): `f` reports a transport error, the loop fails over, the next endpoint signs the call
again with its own pending nonce.  KNOWN FINDING `accepted-reply-lost-resent` (KNOWN_FINDINGS.txt; replayed on the real
adaptor in every run: `seq` lines with the outcome `lost`). -/

/-- the FULL statement: whatever the endpoints do (any possible combination of report and fact), at most one of them takes
a transaction of one request.  NOT true of the code: `accepted_reply_lost_resent`. -/
def exactly_one_transaction_full : Prop :=
  ∀ eps : List EpRun, (∀ e ∈ eps, e.possible = true) → (takenBy true eps).length ≤ 1

/-- what IS true: if no endpoint's reply is lost after it accepted (every report of `f` tells what the endpoint did), at
most one endpoint takes a transaction, for any number of endpoints and every assignment. -/
theorem exactly_one_transaction_partial (eps : List EpRun) (hp : ∀ e ∈ eps, e.possible = true)
    (hno : ∀ e ∈ eps, e ≠ acceptedReplyLost) : (takenBy true eps).length ≤ 1 := by
  have key : takenBy true eps =
      (run (eps.map (·.outcome))).contacted.filter (fun j => (eps.map (·.outcome))[j]? = some Outcome.accept) := by
    unfold takenBy run
    apply List.filter_congr
    intro i _
    cases hi : eps[i]? with
    | none => simp [hi]
    | some e =>
      have hm : e ∈ eps := List.mem_of_getElem? hi
      have h1 := hp e hm
      have h2 := hno e hm
      obtain ⟨o, t⟩ := e
      simp only [List.getElem?_map, hi, Option.map_some]
      cases o <;> cases t <;> simp_all [EpRun.possible, acceptedReplyLost]
  rw [key]
  exact at_most_one_accept _

example : takenBy true [⟨.otherErr, false⟩, ⟨.nonceErr, false⟩, ⟨.accept, true⟩, ⟨.accept, true⟩] = [2] := by decide

/-- **negation witness** (the code as it is): endpoint 0 accepts the transaction and its reply is lost, endpoint 1 is
healthy: BOTH take a transaction of the one request — the second one signed with endpoint 1's pending nonce. -/
theorem accepted_reply_lost_resent : ¬ exactly_one_transaction_full := by
  intro h
  have := h [acceptedReplyLost, ⟨.accept, true⟩] (by decide)
  revert this
  decide

/-- the same fault with no healthy endpoint left: the transaction is on its way to the chain and the caller is told the
call failed (sig `accepted-reply-lost-reported-as-failure`; no client can know without asking for the hash) -/
theorem accepted_reply_lost_reported_as_failure :
    takenBy true [acceptedReplyLost] = [0] ∧
    (run [acceptedReplyLost.outcome]).reply = some { idx := 0, accepted := false, err := some .otherErr } := by decide

/-- **4. result error**: whenever the loop replies, the error it reports is nil iff some contacted
endpoint accepted the transaction (and exactly then a transaction is handed back).  This is the
statement the code before commit 6226eed violates (`f8_before_fix`). -/
theorem result_error (os : List Outcome) (r : Reply) (h : (run os).reply = some r) :
    (r.err = none ↔ ∃ j ∈ (run os).contacted, os[j]? = some .accept) ∧
    (r.accepted = true ↔ ∃ j ∈ (run os).contacted, os[j]? = some .accept) := by
  unfold run at h ⊢
  obtain ⟨hacc, herr⟩ := handleReq_reply_some true os r h
  rw [handleReq_contacted]
  have hiff := acceptedSpec_iff os 0
  have hex : (∃ j ∈ contactedSpec 0 os, os[j]? = some Outcome.accept) ↔ acceptedSpec os = true := by
    rw [hiff]
    constructor
    · rintro ⟨j, hj, ho⟩; exact ⟨j, by simpa using hj, ho⟩
    · rintro ⟨j, hj, ho⟩; exact ⟨j, by simpa using hj, ho⟩
  rw [hex, hacc]
  refine ⟨?_, Iff.rfl⟩
  rw [herr]
  by_cases ha : acceptedSpec os = true
  · simp [fixErr, ha, lastErr_of_accepted os none ha]
  · have ha' : acceptedSpec os = false := by simpa using ha
    simp only [ha', Bool.false_eq_true, iff_false]
    by_cases hc : contactedSpec 0 os = []
    · simp [fixErr, lastErr_none_of_not_contacted os 0 hc]
    · have := lastErr_some_of_contacted os none 0 ha' (Or.inl hc)
      cases hl : lastErr os none with
      | none => simp [hl] at this
      | some e => simp [fixErr]

example : ((run [.ctxDone, .ctxDone]).reply.map (·.err)) = some (some .noEndpoint) ∧
    ((run [.nonceErr, .accept]).reply.map (·.err)) = some none ∧
    ((run [.nonceErr, .ctxDone]).reply.map (·.err)) = some (some .nonceErr) := by decide

/-- F8, the defect repaired by /repo commit 6226eed: with every endpoint context already done the
old loop replied `err = nil` although nothing was sent (for any number of endpoints). -/
theorem f8_before_fix (n : Nat) :
    ∃ r, (handleReq false (List.replicate n .ctxDone)).reply = some r ∧ r.err = none ∧ r.accepted = false
      ∧ (handleReq false (List.replicate n .ctxDone)).contacted = [] := by
  have hc := contactedSpec_replicate_done n
  have hg := gaveUp_replicate_done n
  have ha := acceptedSpec_replicate_done n
  have hr : (handleReq false (List.replicate n Outcome.ctxDone)).reply =
      some { idx := idxSpec 0 (List.replicate n Outcome.ctxDone) 0, accepted := false,
             err := fixErr false false (lastErr (List.replicate n Outcome.ctxDone) none) } := by
    unfold handleReq; rw [loop_reply]; simp [hg, ha]
  refine ⟨_, hr, ?_, rfl, ?_⟩
  · simp [fixErr, lastErr_none_of_not_contacted _ 0 (hc 0)]
  · rw [handleReq_contacted]; exact hc 0

example : (handleReq false [.ctxDone, .ctxDone, .ctxDone]).reply = some { idx := 2, accepted := false, err := none } := by decide

/-- the loop always replies unless the caller's own operation context is done -/
theorem replies_unless_caller_gave_up (os : List Outcome) (h : ∀ o ∈ os, o ≠ .opDone) :
    (run os).reply ≠ none := by
  intro hn
  have hg := (handleReq_reply_none true os).1 hn
  clear hn
  induction os with
  | nil => simp [gaveUp] at hg
  | cons o os ih =>
    have ho := h o (by simp)
    cases o <;> simp_all [gaveUp, stops]

example : (run [.nonceErr, .otherErr]).reply ≠ none := by decide

/-- **across requests**: an endpoint already cancelled (by an earlier connection failure) is never contacted. -/
theorem cancelled_endpoint_never_contacted (dead : List Nat) (os : List Outcome) (j : Nat) (hj : j ∈ dead) :
    j ∉ (call true dead os).1.contacted := by
  unfold call
  split
  · simp
  · simp only
    intro hmem
    rw [handleReq_contacted, mem_contactedSpec] at hmem
    obtain ⟨i, o, hji, hget, hc, _⟩ := hmem
    have hij : j = i := by omega
    subst hij
    unfold overlay at hget
    rw [List.getElem?_zipWith] at hget
    cases h1 : (List.range os.length)[j]? with
    | none => simp [h1] at hget
    | some a =>
      cases h2 : os[j]? with
      | none => simp [h1, h2] at hget
      | some b =>
        have ha : a = j := by
          have := List.getElem?_range (n := os.length) (i := j)
          rw [List.getElem?_eq_some_iff] at h1
          obtain ⟨hlt, he⟩ := h1
          simpa using he.symm
        subst ha
        simp [h1, h2, hj] at hget
        subst hget
        simp [called] at hc

example : (callSeq true [] [[.nonceErr, .accept], [.accept, .accept]]).map (·.contacted) = [[0, 1], [1]] := by decide

/-! ### configuration across setters and reconnects -/

/-- every gas price ever set fits the `uint64` field the adaptor keeps it in.  `Connect` rebuilds the sessions with
`new(big.Int).SetUint64(e.gasPrice)` (regenerated: `config_shape_matches_model`), so `Adaptor.reconnect` — the identity on
the fields — is what the code does on this whole domain.  (Until /repo 21a9d40 the conversion went through `int64`: a price
in [2^63, 2^64) came back negative after a reconnect and every later call failed with an rlp error — review E #6, fixed;
`cfg` lines set 2^63−1, 2^63 and 2^64−1 around reconnects.) -/
def SmallPrices (ops : List Op) : Prop := ∀ v, Op.setGasPrice v ∈ ops → v < 2 ^ 64

/-- **reconnect preserves the configuration**: when the session copy and the fields agree (they do after every
history, `config_coherent`), `DisconnectAll` + `Connect` leaves gas limit, gas price and chain id of the
sessions exactly as they were. -/
theorem reconnect_preserves_config (a : Adaptor) (h : a.session = a.field) :
    a.reconnect.session = a.session ∧ a.reconnect.field = a.field := by
  simp [Adaptor.reconnect, h]

/-- after ANY history of setters, reconnects and calls (prices within `uint64`) the sessions carry exactly the
configuration the operator has set, and the fields `Connect` would rebuild them from agree with it -/
theorem config_coherent (fixed : Bool) : ∀ (ops : List Op) (a : Adaptor),
    a.session = a.field → SmallPrices ops →
      (a.after fixed ops).session = (a.after fixed ops).field ∧
      (a.after fixed ops).session = intended a.session ops := by
  intro ops
  induction ops with
  | nil => intro a h _; exact ⟨h, rfl⟩
  | cons op ops ih =>
    intro a h hs
    have hs' : SmallPrices ops := fun v hv => hs v (List.mem_cons_of_mem _ hv)
    cases op with
    | setGasPrice v =>
      have hv : v < 2 ^ 64 := hs v (by simp)
      have hm : v % 2 ^ 64 = v := Nat.mod_eq_of_lt hv
      have hc : (a.setGasPrice v).session = (a.setGasPrice v).field := by
        simp only [Adaptor.setGasPrice, u64, hm, h]
      simpa [Adaptor.after, intended, Adaptor.setGasPrice] using ih (a.setGasPrice v) hc hs'
    | setGasLimit v =>
      have hc : (a.setGasLimit v).session = (a.setGasLimit v).field := by
        simp [Adaptor.setGasLimit, h]
      simpa [Adaptor.after, intended, Adaptor.setGasLimit] using ih (a.setGasLimit v) hc hs'
    | reconnect =>
      have hc : a.reconnect.session = a.reconnect.field := by simp [Adaptor.reconnect]
      have := ih a.reconnect hc hs'
      simpa [Adaptor.after, intended, Adaptor.reconnect, h] using this
    | send os =>
      simpa [Adaptor.after, intended] using
        ih ({ a with dead := (call fixed a.dead os).2 } : Adaptor) h hs'

theorem intended_chainId : ∀ (ops : List Op) (c : Config), (intended c ops).chainId = c.chainId := by
  intro ops
  induction ops with
  | nil => intro c; rfl
  | cons op ops ih => intro c; cases op <;> simp [intended, ih]

/-- **every transaction uses the current configuration**: in any history `pre ++ send os :: post` from a fresh
adaptor with configuration `c`, every transaction signed for that call — on whichever endpoints the failover
contacts — carries the gas limit and gas price last set by the operator before it (`intended c pre`;
price 0 = the endpoint's suggestion) and the configured chain id, however many reconnects and endpoint failures
lie in between. -/
theorem sent_tx_uses_current_config (c : Config) (pre post : List Op) (os : List Outcome)
    (hs : SmallPrices pre) :
    ∃ r txs rest, ((Adaptor.start c).after true pre).exec true (.send os :: post) = (r, txs) :: rest ∧
      ∀ t ∈ txs, t.gas = (intended c pre).gasLimit ∧ t.price = (intended c pre).gasPrice ∧ t.chainId = c.chainId := by
  obtain ⟨_, hi⟩ := config_coherent true pre (Adaptor.start c) rfl hs
  refine ⟨_, _, _, rfl, ?_⟩
  intro t ht
  simp only [List.mem_map] at ht
  obtain ⟨i, _, rfl⟩ := ht
  have hi' : ((Adaptor.start c).after true pre).session = intended c pre := hi
  rw [hi']
  exact ⟨rfl, rfl, intended_chainId pre c⟩

/-- a history run from the start is the run of its first part followed by the run of the rest from the state reached -/
theorem exec_append (fixed : Bool) : ∀ (pre ops : List Op) (a : Adaptor),
    a.exec fixed (pre ++ ops) = a.exec fixed pre ++ (a.after fixed pre).exec fixed ops := by
  intro pre
  induction pre with
  | nil => intro ops a; simp [Adaptor.exec, Adaptor.after]
  | cons op pre ih =>
    intro ops a
    cases op <;> simp [Adaptor.exec, Adaptor.after, ih]

example : ((Adaptor.start ⟨5000000, 20, 1⟩).exec true
      [.send [.accept], .setGasPrice 0, .reconnect, .send [.nonceErr, .accept], .setGasLimit 7, .reconnect, .send [.accept, .accept]]).map (·.2) =
    [[⟨0, 5000000, 20, 1⟩], [⟨0, 5000000, 0, 1⟩, ⟨1, 5000000, 0, 1⟩], [⟨0, 7, 0, 1⟩]] := by decide

/-! ### marshalling -/

/-- **5a. signature**: a 64-byte signature `x ‖ y` (32-byte big-endian words, leading zero bytes
included) is handed to the contract as exactly `(x, y)`; and conversely the 32-byte ABI words of
the two numbers are the original bytes. -/
theorem marshal_roundtrip_signature (x y : Nat) (hx : x < 2 ^ 256) (hy : y < 2 ^ 256) :
    toBigInt (natBE 32 x ++ natBE 32 y) = (x, y) := by
  have h256 : (256 : Nat) ^ 32 = 2 ^ 256 := by norm_num
  simp only [toBigInt, List.length_append, natBE_len]
  simp only [show ¬ (32 + 32 < 32) by omega, if_false]
  rw [List.take_left' (natBE_len 32 x), List.drop_left' (natBE_len 32 x)]
  rw [beNat_natBE_of_lt 32 x (by omega), beNat_natBE_of_lt 32 y (by omega)]

theorem signature_bytes_preserved (sig : Bytes) (h : sig.length = 64) :
    ∃ x y, toBigInt sig = (x, y) ∧ abiWord x ++ abiWord y = sig := by
  refine ⟨beNat (sig.take 32), beNat (sig.drop 32), by simp [toBigInt, h], ?_⟩
  have h1 : (sig.take 32).length = 32 := by simp [h]
  have h2 : (sig.drop 32).length = 32 := by simp [h]
  have e1 := natBE_beNat (sig.take 32)
  have e2 := natBE_beNat (sig.drop 32)
  rw [h1] at e1; rw [h2] at e2
  simp only [abiWord, e1, e2, List.take_append_drop]

example : toBigInt (natBE 32 1 ++ natBE 32 (2 ^ 255)) = (1, 2 ^ 255) :=
  marshal_roundtrip_signature 1 (2 ^ 255) (by decide) (by decide)

/-- **5b. group public key**: the marshalled G2 point `0x01 ‖ x.i ‖ x.r ‖ y.i ‖ y.r` is registered as the
four coordinates in exactly that (contract) order, leading zeros included. -/
theorem marshal_roundtrip_pubkey (xi xr yi yr : Nat)
    (h1 : xi < 2 ^ 256) (h2 : xr < 2 ^ 256) (h3 : yi < 2 ^ 256) (h4 : yr < 2 ^ 256) :
    decodePubKey (marshalG2 xi xr yi yr) = some [xi, xr, yi, yr] := by
  have h256 : (256 : Nat) ^ 32 = 2 ^ 256 := by norm_num
  have l := natBE_len 32
  have hlen : (marshalG2 xi xr yi yr).length = 129 := by simp [marshalG2, l]
  simp only [decodePubKey, hlen, show ¬ (129 < 129) by omega, if_false]
  have e : marshalG2 xi xr yi yr = [1] ++ (natBE 32 xi ++ (natBE 32 xr ++ (natBE 32 yi ++ natBE 32 yr))) := by
    simp [marshalG2]
  rw [e]
  have e0 : ∀ t : Bytes, (([1] : Bytes) ++ t).drop (32 * 0 + 1) = t := fun t => List.drop_left' (by simp)
  have e1 : ∀ a t : Bytes, a.length = 32 → (([1] : Bytes) ++ (a ++ t)).drop (32 * 1 + 1) = t := by
    intro a t ha
    rw [← List.append_assoc]; exact List.drop_left' (by simp [ha])
  have e2 : ∀ a b t : Bytes, a.length = 32 → b.length = 32 →
      (([1] : Bytes) ++ (a ++ (b ++ t))).drop (32 * 2 + 1) = t := by
    intro a b t ha hb
    rw [← List.append_assoc, ← List.append_assoc]; exact List.drop_left' (by simp [ha, hb])
  have e3 : ∀ a b c t : Bytes, a.length = 32 → b.length = 32 → c.length = 32 →
      (([1] : Bytes) ++ (a ++ (b ++ (c ++ t)))).drop (32 * 3 + 1) = t := by
    intro a b c t ha hb hc
    rw [← List.append_assoc, ← List.append_assoc, ← List.append_assoc]
    exact List.drop_left' (by simp [ha, hb, hc])
  simp only [List.range, List.range.loop, List.map]
  rw [e0, e1 _ _ (l xi), e2 _ _ _ (l xi) (l xr), e3 _ _ _ _ (l xi) (l xr) (l yi)]
  rw [List.take_left' (l xi), List.take_left' (l xr), List.take_left' (l yi)]
  rw [List.take_of_length_le (by rw [l])]
  rw [beNat_natBE_of_lt 32 xi (by omega), beNat_natBE_of_lt 32 xr (by omega),
    beNat_natBE_of_lt 32 yi (by omega), beNat_natBE_of_lt 32 yr (by omega)]

example : decodePubKey (marshalG2 0 1 (2 ^ 256 - 1) 7) = some [0, 1, 2 ^ 256 - 1, 7] :=
  marshal_roundtrip_pubkey 0 1 (2 ^ 256 - 1) 7 (by decide) (by decide) (by decide) (by decide)

/-- **5c. request id and traffic type**: a request id of up to 256 bits and every traffic type `< 256`
reach the contract unchanged. -/
theorem marshal_roundtrip_request (v t : Nat) (hv : v < 2 ^ 256) (ht : t < 256) :
    requestId (natBE 32 v) = v ∧ beNat (abiWord (requestId (natBE 32 v))) = v ∧ trafficType t = t := by
  have h256 : (256 : Nat) ^ 32 = 2 ^ 256 := by norm_num
  have e : requestId (natBE 32 v) = v := by
    simp only [requestId]; exact beNat_natBE_of_lt 32 v (by omega)
  refine ⟨e, ?_, ?_⟩
  · rw [e]; simp only [abiWord]; exact beNat_natBE_of_lt 32 v (by omega)
  · simp [trafficType, Nat.mod_eq_of_lt ht]

example : requestId (natBE 32 (2 ^ 256 - 1)) = 2 ^ 256 - 1 :=
  (marshal_roundtrip_request (2 ^ 256 - 1) 2 (by decide) (by decide)).1

/-! ### commit-reveal glue -/

/-- **commit matches reveal**: the commitment the node sends for secret `sec` is the hash of exactly the 32-byte
ABI word that the later `reveal(cid, sec)` transaction carries (what the contract re-hashes), for every
secret below 2^256 — leading zero bytes included — and every hash function. -/
theorem commit_matches_reveal (hash : Bytes → Bytes) (sec : Nat) :
    crCommitment hash sec = hash (abiWord sec) ∧ (abiWord sec).length = 32 ∧
    (sec < 2 ^ 256 → beNat (abiWord sec) = sec) := by
  refine ⟨rfl, natBE_len 32 sec, fun h => ?_⟩
  have h256 : (256 : Nat) ^ 32 = 2 ^ 256 := by norm_num
  exact beNat_natBE_of_lt 32 sec (by omega)

/-- … whereas `big.Int.Bytes()` of a secret below 2^248 is shorter than that word: hashing it (the seeded
change `h.Write(sec.Bytes())`) commits to a different byte string than the one revealed. -/
theorem unpadded_secret_is_not_the_reveal_word (sec : Nat) (h : sec < 2 ^ 248) :
    natBytes sec ≠ abiWord sec := by
  intro e
  have h1 : (natBytes sec).length ≤ 31 := natBytes_length_le sec 31 (by
    have : (256 : Nat) ^ 31 = 2 ^ 248 := by norm_num
    omega)
  have h2 : (abiWord sec).length = 32 := natBE_len 32 sec
  rw [e] at h1
  omega

example : crCommitment (fun b => b) 1 = natBE 32 1 ∧ natBytes 1 = [1] := by decide

/-! ### the same functions in the codec model of C11 (`Model/Codec.lean`)

The marshalling theorems above are about `ReqLoop.toBigInt / decodePubKey / marshalG2`; C11's byte-level
codec model has its own `Codec.sigToBigInt`, `Codec.decodePubKey`, `Codec.marshalG2`.  They are the same
functions; stated here so that a change to either side is noticed. -/

/-- the marshalled form used above is the codec model's G2 encoding of the affine point -/
theorem marshalG2_is_codec (xi xr yi yr : Nat) :
    marshalG2 xi xr yi yr = Codec.marshalG2 (.aff ⟨xi, xr⟩ ⟨yi, yr⟩) := rfl

/-- `decodePubKey` agrees with the codec model on every byte string (a short one — `none` here — is the error
"public key is the point at infinity" of /repo ae5b22f in the codec model, `.err .short`) -/
theorem decodePubKey_is_codec (mar : Bytes) :
    Codec.decodePubKey mar =
      (match decodePubKey mar with
       | some v => .ok v
       | none => .err .short) := by
  by_cases h : mar.length < 129
  · have h' : mar.length < 32 * 4 + 1 := by omega
    simp [Codec.decodePubKey, decodePubKey, h, h']
  · have h' : ¬ mar.length < 32 * 4 + 1 := by omega
    have h1 : (1 ≤ 33 ∧ 33 ≤ mar.length) := by omega
    have h2 : (33 ≤ 65 ∧ 65 ≤ mar.length) := by omega
    have h3 : (65 ≤ 97 ∧ 97 ≤ mar.length) := by omega
    have h4 : (97 ≤ 129 ∧ 129 ≤ mar.length) := by omega
    simp [Codec.decodePubKey, Codec.sliceRange, decodePubKey, h, h', h1, h2, h3, h4, List.range, List.range.loop]

/-- `toBigInt` agrees with the codec model on every signature of at least 32 bytes (and, since the codec model
was resynchronised with /repo 6bcc55e, on shorter ones too: both give (0, 0)) -/
theorem toBigInt_is_codec (sig : Bytes) (h : 32 ≤ sig.length) :
    Codec.sigToBigInt sig = .ok (toBigInt sig) := by
  have : ¬ sig.length < 32 := by omega
  simp [Codec.sigToBigInt, toBigInt, this]

example : Codec.decodePubKey (marshalG2 0 1 2 3) = .ok [0, 1, 2, 3] := by
  rw [decodePubKey_is_codec, marshal_roundtrip_pubkey 0 1 2 3 (by decide) (by decide) (by decide) (by decide)]

/-! ### regenerated shape of `handleReq` and of the request closures (`Gen/ReqLoopFacts.lean`, from onchain/eth_set.go) -/

open Dos.Gen.ReqLoopFacts

/-- the error text by which the code recognises an outcome -/
def errText : Outcome → Option String
  | .revert => some "transaction failed"
  | .insufficient => some "insufficient funds for gas * price + value"
  | .nonceErr => some "failed to retrieve account nonce"
  | .closedConn => some "use of closed network connection"
  | _ => none

def allOutcomes : List Outcome :=
  [.accept, .closedConn, .nonceErr, .revert, .insufficient, .otherErr, .ctxDone, .opDone]

def lookupStr (l : List (String × String)) (k : String) : String :=
  match l.find? (fun p => p.1 == k) with
  | some p => p.2
  | none => "(missing)"

/-- what the code AS REGENERATED does when the loop reaches an endpoint with outcome `o`: the statement that
ends the iteration, and whether the endpoint's cancel function is called -/
def codeBranch (o : Outcome) : String × Bool :=
  match o with
  | .opDone => (lookupStr selectCases "<-req.opCtx.Done()", false)
  | .ctxDone => (lookupStr selectCases "<-ctx.Done()", false)
  | .accept => (afterSuccess, false)
  | o =>
    match errText o with
    | none => (afterErrorBlock, false)
    | some t =>
      match errorMatches.find? (fun m => m.1.contains t) with
      | none => (afterErrorBlock, false)
      | some m =>
        (if m.2.2 == "(falls through)" then afterErrorBlock else m.2.2,
         m.2.1 == "var oError *OnchainError; if errors.As(err, &oError) { e.cancels[oError.Idx]() }")

/-- what `Model/ReqLoop.lean` does for the same outcome -/
def modelBranch (o : Outcome) : String × Bool :=
  (if o = .opDone then "return" else if stops o then "break L" else "continue", cancels o)

/-- **regenerated: the branches of the loop are the model's.** For every outcome the statement that ends the
iteration in the source (`return` / `continue` / `break L` — a bare `break` would only leave the `select`)
and the cancel call are what the model assumes; `L` labels the range loop over `e.ctxes`, which assigns
(`=`) the function-level `idx, ctx`; `req.f` is called once per iteration with `tx, err =`; the select has
exactly the three clauses; the F8 guard and the reply literal follow the loop. -/
theorem handleReq_branches_match_model :
    allOutcomes.all (fun o => codeBranch o == modelBranch o) = true ∧
    loopLabel = "L" ∧ rangeHeader = "for idx, ctx = range e.ctxes" ∧
    selectCases.map (·.1) = ["<-req.opCtx.Done()", "<-ctx.Done()", "default"] ∧
    lookupStr selectCases "default" = "break L" ∧
    callAssign = "tx, err = req.f(ctx)" ∧
    errorMatches.map (·.1) = [["transaction failed", "insufficient funds for gas * price + value"],
                              ["failed to retrieve account nonce", "use of closed network connection"]] ∧
    guardCond = "tx == nil && err == nil" ∧ guardBody = "err = errors.New(…)" ∧
    replyLiteral = "&response{idx, tx, err}" := by
  decide

set_option maxRecDepth 8000 in
/-- **regenerated: the whole control skeleton of `handleReq`** (any added, removed or moved branch is noticed). -/
theorem handleReq_skeleton :
    skeleton = [
      "0 var tx *types.Transaction", "0 var err error", "0 var idx int", "0 var ctx context.Context",
      "0 label L", "0 for idx, ctx = range e.ctxes", "1 select",
      "2 case <-req.opCtx.Done()", "3 return",
      "2 case <-ctx.Done()", "3 continue",
      "2 default", "3 tx, err = req.f(ctx)", "3 if err != nil",
      "4 if strings.Contains(err.Error(), \"transaction failed\") || strings.Contains(err.Error(), \"insufficient funds for gas * price + value\")",
      "5 break L",
      "4 if strings.Contains(err.Error(), \"failed to retrieve account nonce\") || strings.Contains(err.Error(), \"use of closed network connection\")",
      "5 var oError *OnchainError", "5 if errors.As(err, &oError)", "6 e.cancels[oError.Idx]()",
      "4 continue", "3 break L",
      "0 if tx == nil && err == nil", "1 err = errors.New(\"no live endpoint to send the request to\")",
      "0 resp := &response{idx, tx, err}", "0 go func"] := by
  decide

/-- **regenerated: every request closure assigns its named results.** Each `f := func(ctx) (tx
*types.Transaction, err error)` of eth_set.go assigns `tx` / `err` with `=` only (a `:=` would shadow them and
the closure would return `nil, nil`: success reported, nothing sent) and ends with the bare `return`. -/
theorem closures_assign_named_results :
    closures.all (fun c => c.results == "(tx *types.Transaction, err error)" && c.last == "return" &&
      c.assigns == [("err", "="), ("tx, err", "="), ("err", "=")]) = true ∧
    closures.map (·.method) = ["SetGroupSize", "UpdateRandomness", "DataReturn", "RegisterGroupPubKey",
      "RegisterNewNode", "UnRegisterNode", "SignalUnregister", "StartCommitReveal", "Commit", "Reveal"] := by
  decide

/-- **regenerated: argument preparation and binding call of the six calls of the property** — signature as
`[2]{x, y}` of `ToBigInt`, request id `SetBytes(RequestId)`, traffic type `uint8(Index)`, group key
`idPubkey[1:]` after the group id, in the argument order of the binding methods. -/
theorem closures_marshalling :
    (closures.filter (fun c => ["UpdateRandomness", "DataReturn", "RegisterGroupPubKey", "RegisterNewNode", "Commit", "Reveal"].contains c.method)).map
        (fun c => (c.method, c.prep, c.call)) =
      [("UpdateRandomness", ["proxies := e.proxies", "x, y := sign.ToBigInt()", "sig := [2]*big.Int{x, y}"],
          "proxies[idx].UpdateRandomness(sig)"),
       ("DataReturn", ["proxies := e.proxies", "requestId := new(big.Int).SetBytes(sign.RequestId)",
          "trafficType := uint8(sign.Index)", "result := sign.Content", "x, y := sign.ToBigInt()", "sig := [2]*big.Int{x, y}"],
          "proxies[idx].TriggerCallback(requestId, trafficType, result, sig)"),
       ("RegisterGroupPubKey", ["proxies := e.proxies", "groupId := idPubkey[0]", "var pubKey [4]*big.Int", "copy(pubKey[:], idPubkey[1:])"],
          "proxies[idx].RegisterGroupPubKey(groupId, pubKey)"),
       ("RegisterNewNode", ["proxies := e.proxies"], "proxies[idx].RegisterNewNode()"),
       ("Commit", ["crs := e.crs"], "crs[idx].Commit(cid, commitment)"),
       ("Reveal", ["crs := e.crs"], "crs[idx].Reveal(cid, secret)")] := by
  decide

set_option maxRecDepth 8000 in
/-- **regenerated: the configuration setters and `Connect` are what `Adaptor.setGasPrice / setGasLimit /
reconnect` model**: both setters store `v.Uint64()` in the adaptor's field unconditionally and update every
session (`SetGasPrice`: `nil` for 0, else `v`); `NewEthAdaptor` stores the configured values in those fields;
`Connect` builds every transactor (RPC and websocket alike) from `e.key`, `e.chainID`, `e.gasLimit` and, if
non-zero, `e.gasPrice`. -/
theorem config_shape_matches_model :
    skeletonSetGasLimit = ["0 e.gasLimit = gasLimit.Uint64()", "0 for i := 0; i < len(e.proxies) && i < len(e.crs); i++",
      "1 e.proxies[i].TransactOpts.GasLimit = gasLimit.Uint64()", "1 e.crs[i].TransactOpts.GasLimit = gasLimit.Uint64()"] ∧
    skeletonSetGasPrice = ["0 e.gasPrice = gasPrice.Uint64()", "0 for i := 0; i < len(e.proxies) && i < len(e.crs); i++",
      "1 if gasPrice.Cmp(big.NewInt(0)) == 0",
      "2 e.proxies[i].TransactOpts.GasPrice = nil", "2 e.crs[i].TransactOpts.GasPrice = nil",
      "1 else",
      "2 e.proxies[i].TransactOpts.GasPrice = gasPrice", "2 e.crs[i].TransactOpts.GasPrice = gasPrice"] ∧
    newAdaptorConfig = ["0 chainID := new(big.Int)", "0 chainID.SetString(config.ChainID, 10)", "0 adaptor.chainID = chainID",
      "0 adaptor.key = key", "0 adaptor.gasLimit = uint64(gasLimitInt)", "0 adaptor.gasPrice = uint64(gasPriceInt)"] ∧
    connectTransactor =
      ["auth, err := bind.NewKeyedTransactorWithChainID(e.key.PrivateKey, e.chainID)", "auth.GasLimit = e.gasLimit",
       "if e.gasPrice != 0", "auth.GasPrice = new(big.Int).SetUint64(e.gasPrice)", "auth.Context = ctx",
       "auth, err := bind.NewKeyedTransactorWithChainID(e.key.PrivateKey, e.chainID)", "auth.GasLimit = e.gasLimit",
       "if e.gasPrice != 0", "auth.GasPrice = new(big.Int).SetUint64(e.gasPrice)", "auth.Context = ctx"] := by
  decide

/-- **regenerated: how `handleCR` builds the arguments of `Commit` and `Reveal`** — the secret `sec`, the
commitment `keccak256(math.U256Bytes(sec))` (`u256Bytes`/`crCommitment` of the model: the padded 32-byte
word, not `sec.Bytes()`), the same `cid` and the same `sec` in both calls, commit first. -/
theorem handleCR_args_match_model :
    handleCRArgs = ["sec, err := rand.Int(rand.Reader, randSeed)", "h := sha3.NewLegacyKeccak256()",
      "h.Write(math.U256Bytes(sec))", "b := h.Sum(nil)", "hash := byte32(b)", "cid := cr.Cid",
      "if err := d.chain.Commit(cid, *hash); err != nil", "if err := d.chain.Reveal(cid, sec); err != nil"] := by
  decide

/-- **regenerated: the glue from a finished key generation to `RegisterGroupPubKey`** (review E #4, T3b).  `genGroup`
(share/dkg/pedersen/pdkg_pipes.go): the public polynomial is built from the commitments of the node's OWN share on the
standard base, the group key is its constant commitment `pubPoly.Commit()` UNCHANGED (not negated, not another
coefficient), its four coordinates come from `decodePubKey` (`marshal_roundtrip_pubkey`, `pk` cases), the group id is
the session id read as a hexadecimal number, and the value handed on is `[id, c0, c1, c2, c3]` in exactly this order
(`copy(dataReturn[1:], pubKeyCoor[:])`).  `registerGroup` (dosnode/dos_stages.go, complete skeleton) passes that value
UNCHANGED to `chain.RegisterGroupPubKey`, whose call data `registerGroupPubKey_data_of_marshalled_key` (C19Abi) gives
byte by byte.  `reportQueryResult`: `UpdateRandomness` iff the query type is `TrafficSystemRandom`, else `DataReturn`,
with the signature unchanged. -/
theorem group_key_glue_matches_model :
    -- decodePubKey, the WHOLE function (seeded change C19g-2: `bytes.TrimLeft(pubKeyMar, "\x01")` + derived width):
    -- fixed offsets 32*i+1 : 32*i+33 for i = 0..3 behind the length guard, exactly `ReqLoop.decodePubKey`
    decodePubKeyBody =
     ["func(pubKey kyber.Point) (pubKeyCoor [4]*big.Int, err error)",
      "0 pubKeyMar, err := pubKey.MarshalBinary()", "0 if err != nil", "1 return",
      "0 if len(pubKeyMar) < 32*4+1", "1 err = errors.New(\"public key is the point at infinity\")", "1 return",
      "0 for i := 0; i < 4; i++", "1 pubKeyCoor[i] = new(big.Int).SetBytes(pubKeyMar[32*i+1 : 32*i+33])", "0 return"] ∧
    genGroupKeyGlue =
     ["out = make(chan [5]*big.Int)",
      "secShare, err := dkg.DistKeyShare()",
      "group.secShare = secShare",
      "group.pubPoly = share.NewPubPoly(suite, suite.Point().Base(), group.secShare.Commitments())",
      "pubKey := group.pubPoly.Commit()",
      "pubKeyCoor, err := decodePubKey(pubKey)",
      "groupId, ok := new(big.Int).SetString(sessionID, 16)",
      "dataReturn := [5]*big.Int{groupId}",
      "copy(dataReturn[1:], pubKeyCoor[:])",
      "case out <- dataReturn"] ∧
    registerGroupBody =
     ["0 errc = make(chan error)",
      "0 go func",
      "0 return",
      "0 *ast.DeferStmt",
      "0 var err error",
      "0 select",
      "1 case idPubkey, ok := <-IdWithPubKeys",
      "2 if ok",
      "3 err = chain.RegisterGroupPubKey(idPubkey)",
      "2 else",
      "3 err = errors.New(\"no publickey\")",
      "1 case <-ctx.Done()",
      "2 err = ctx.Err()",
      "2 return",
      "0 if err != nil",
      "1 select",
      "2 case errc <- err",
      "2 case <-ctx.Done()"] ∧
    reportQueryResultBody =
     ["0 errc = make(chan error)",
      "0 go func",
      "0 return",
      "0 *ast.DeferStmt",
      "0 var err error",
      "0 select",
      "1 case signature, ok := <-signC",
      "2 if ok",
      "3 if queryType == onchain.TrafficSystemRandom",
      "4 err = chain.UpdateRandomness(signature)",
      "3 else",
      "4 err = chain.DataReturn(signature)",
      "2 else",
      "3 err = errors.New(\"no signature\")",
      "1 case <-ctx.Done()",
      "2 return",
      "0 if err != nil",
      "1 select",
      "2 case errc <- err",
      "2 case <-ctx.Done()"] := by
  decide

end Dos.Props.C19

/-
C12 — helper lemmas, part 1: simp lemmas for `Cfg.all`, the single-shot handlers of dosnode and
the transport / gossip handlers.  (Core Lean only: no Mathlib needed.)
-/
import DosModel.Model.HandlersDrv

namespace Dos.Handlers

@[simp] theorem isPanic_ok (i : String) : (Out.ok i).isPanic = false := rfl
@[simp] theorem isPanic_err (k : String) : (Out.err k).isPanic = false := rfl
@[simp] theorem isPanic_dropped : Out.dropped.isPanic = false := rfl
@[simp] theorem isPanic_panic (s : String) : (Out.panic s).isPanic = true := rfl
@[simp] theorem all_peerClean : Cfg.all.peerClean = Clean.all := rfl
@[simp] theorem all_reqClean : Cfg.all.reqClean = Clean.all := rfl
@[simp] theorem all_expClean : Cfg.all.expClean = Clean.all := rfl
@[simp] theorem fireC_all (s : Sess) (sid : String) (r : Req) (k : Nat) (site : String) :
    fireC Clean.all s sid r k site = fire s sid r k site := by
  simp [fireC, fire, Clean.all]
@[simp] theorem all_xpubCastSelf : Cfg.all.xpubCastSelf = true := rfl
@[simp] theorem all_xpubCastPeer : Cfg.all.xpubCastPeer = true := rfl
@[simp] theorem all_xpubIdx : Cfg.all.xpubIdx = true := rfl
@[simp] theorem all_gdkgGuard : Cfg.all.gdkgGuard = true := rfl
@[simp] theorem all_dealsDkgNil : Cfg.all.dealsDkgNil = true := rfl
@[simp] theorem all_dealsCast : Cfg.all.dealsCast = true := rfl
@[simp] theorem all_respsDkgNil : Cfg.all.respsDkgNil = true := rfl
@[simp] theorem all_respsCast : Cfg.all.respsCast = true := rfl
@[simp] theorem all_findPubDkg : Cfg.all.findPubDkg = true := rfl
@[simp] theorem all_respNil : Cfg.all.respNil = true := rfl
@[simp] theorem all_respVerOk : Cfg.all.respVerOk = true := rfl
@[simp] theorem all_pubKeyLen : Cfg.all.pubKeyLen = true := rfl
@[simp] theorem all_peerRespNil : Cfg.all.peerRespNil = true := rfl
@[simp] theorem all_encNil : Cfg.all.encNil = true := rfl
@[simp] theorem all_nonceLen : Cfg.all.nonceLen = true := rfl
@[simp] theorem all_secShareNil : Cfg.all.secShareNil = true := rfl
@[simp] theorem all_shareVNil : Cfg.all.shareVNil = true := rfl
@[simp] theorem all_findPubVss : Cfg.all.findPubVss = true := rfl
@[simp] theorem all_aggNil : Cfg.all.aggNil = true := rfl
@[simp] theorem all_toBigLen : Cfg.all.toBigLen = true := rfl
@[simp] theorem all_qloopOk : Cfg.all.qloopOk = true := rfl
@[simp] theorem all_qloopCast : Cfg.all.qloopCast = true := rfl
@[simp] theorem all_rsNil : Cfg.all.rsNil = true := rfl
@[simp] theorem all_rsMake : Cfg.all.rsMake = true := rfl
@[simp] theorem all_groupInfoIds : Cfg.all.groupInfoIds = true := rfl
@[simp] theorem all_byte32Len : Cfg.all.byte32Len = true := rfl
@[simp] theorem all_crRand : Cfg.all.crRand = true := rfl
@[simp] theorem all_sigIdxLen : Cfg.all.sigIdxLen = true := rfl
@[simp] theorem all_recoverDedup : Cfg.all.recoverDedup = true := rfl
@[simp] theorem all_anyNil : Cfg.all.anyNil = true := rfl
@[simp] theorem all_ridCast : Cfg.all.ridCast = true := rfl
@[simp] theorem all_ridLen : Cfg.all.ridLen = true := rfl
@[simp] theorem all_readSize : Cfg.all.readSize = true := rfl
@[simp] theorem all_mdNil : Cfg.all.mdNil = true := rfl
@[simp] theorem all_dispReplyNil : Cfg.all.dispReplyNil = true := rfl
@[simp] theorem all_callRemoveNil : Cfg.all.callRemoveNil = true := rfl
@[simp] theorem all_callIdMatch : Cfg.all.callIdMatch = true := rfl
@[simp] theorem all_listenName : Cfg.all.listenName = true := rfl
@[simp] theorem all_listenCast : Cfg.all.listenCast = true := rfl
@[simp] theorem all_lookupName : Cfg.all.lookupName = true := rfl

theorem decodePubKey_total (len : Nat) : (decodePubKey Cfg.all len).isPanic = false := by
  unfold decodePubKey; simp; split <;> simp

theorem toBigInt_total (len : Nat) : (toBigInt Cfg.all len).isPanic = false := by
  unfold toBigInt; simp; split <;> simp

theorem choseSubmitter_total (r k : Nat) : (choseSubmitter Cfg.all r k).isPanic = false := by
  unfold choseSubmitter; simp; split <;> simp

theorem byte32_total (l : Nat) : (byte32 Cfg.all l).isPanic = false := by
  unfold byte32; simp; split <;> simp

theorem handleCR_total (s : Int) : (handleCRSeed Cfg.all s).isPanic = false := by
  unfold handleCRSeed; simp; split <;> simp

theorem messageDispatch_total (f : Feed) : (messageDispatch Cfg.all f).isPanic = false := by
  cases f <;> simp [messageDispatch]


theorem decodeBytes_err_total (v : Bool) (f : Frame) (o : Out) (h : decodeBytes Cfg.all v f = .error o) : o.isPanic = false := by
  unfold decodeBytes at h
  split at h
  · cases h; rfl
  · simp at h; cases h; rfl
  · split at h
    · cases h; rfl
    · split at h <;> first | (cases h; rfl) | (simp at h)

theorem decodeOut_total (v : Bool) (f : Frame) : (decodeOut Cfg.all v f).isPanic = false := by
  unfold decodeOut
  split
  · next o h => exact decodeBytes_err_total v f o h
  · rfl

theorem decodePipe_total (f : Frame) : (decodePipe Cfg.all f).isPanic = false := by
  unfold decodePipe
  split
  · next s h => have := decodeBytes_err_total true f _ h; simp at this
  · rfl
  · split <;> rfl

theorem receiveID_total (w : Wire) : (receiveID Cfg.all w).isPanic = false := by
  unfold receiveID
  split
  · next o h =>
    unfold readFrom at h
    split at h <;> first | (cases h; rfl) | (simp at h; cases h; rfl) | (simp at h)
  · next f h =>
    split
    · next o h2 => exact decodeBytes_err_total false f o h2
    · next pub rid h2 =>
      cases pub <;> simp
      all_goals (split <;> simp)
    · simp

/-! client.dispatch -/
theorem dispStep_total (s : DispSt) (e : DispEv) (ha : s.alive = true) :
    (dispStep Cfg.all s e).1.alive = true ∧ (dispStep Cfg.all s e).2.isPanic = false := by
  cases e with
  | send => simp [dispStep, ha]
  | cancel k => simp [dispStep, ha]
  | reply k =>
    simp only [dispStep, ha, all_dispReplyNil]
    cases h : dispLookup k s.pending with
    | none => simp [ha]
    | some c => cases c <;> simp

theorem dispRun_total (evs : List DispEv) : ∀ s, s.alive = true →
    (dispRun Cfg.all s evs).1.alive = true ∧ ∀ o ∈ (dispRun Cfg.all s evs).2, o.isPanic = false := by
  induction evs with
  | nil => intro s ha; exact ⟨ha, by simp [dispRun]⟩
  | cons e r ih =>
    intro s ha
    simp only [dispRun]
    have st := dispStep_total s e ha
    have := ih _ st.1
    refine ⟨this.1, fun o h => ?_⟩
    rcases List.mem_cons.mp h with h | h
    · subst h; exact st.2
    · exact this.2 o h

theorem dispRun_append (es : List DispEv) : ∀ (s : DispSt) (tl : List DispEv),
    (dispRun Cfg.all s (es ++ tl)).2 = (dispRun Cfg.all s es).2 ++ (dispRun Cfg.all (dispRun Cfg.all s es).1 tl).2 := by
  induction es with
  | nil => intro s tl; simp [dispRun]
  | cons e r ih => intro s tl; simp [dispRun, ih]

/-- nonces in the table are below the counter, so the next request's nonce is fresh -/
theorem dispStep_lt (s : DispSt) (e : DispEv) (h : ∀ p ∈ s.pending, p.1 < s.next) :
    ∀ p ∈ (dispStep Cfg.all s e).1.pending, p.1 < (dispStep Cfg.all s e).1.next := by
  by_cases ha : s.alive = true
  · cases e with
    | send =>
      have e1 : (dispStep Cfg.all s .send).1 = { s with pending := (s.next, false) :: s.pending, next := s.next + 1 } := by
        simp [dispStep, ha]
      rw [e1]; intro p hp
      rcases List.mem_cons.mp hp with hp | hp
      · subst hp; exact Nat.lt_succ_self _
      · exact Nat.lt_succ_of_lt (h p hp)
    | cancel k =>
      have e1 : (dispStep Cfg.all s (.cancel k)).1 = { s with pending := s.pending.map (fun e => if e.1 = k then (e.1, true) else e) } := by
        simp [dispStep, ha]
      rw [e1]; intro p hp
      obtain ⟨q, hq, rfl⟩ := List.mem_map.mp hp
      have := h q hq
      show (if q.1 = k then (q.1, true) else q).1 < s.next
      split <;> exact this
    | reply k =>
      cases hl : dispLookup k s.pending with
      | none =>
        have e1 : (dispStep Cfg.all s (.reply k)).1 = s := by simp [dispStep, ha, hl]
        rw [e1]; exact h
      | some c =>
        have e1 : (dispStep Cfg.all s (.reply k)).1 = { s with pending := s.pending.filter (fun e => e.1 != k) } := by
          simp [dispStep, ha, hl]
        rw [e1]; intro p hp; exact h p (List.mem_filter.mp hp).1
  · have e1 : (dispStep Cfg.all s e).1 = s := by cases e <;> simp [dispStep, ha]
    rw [e1]; exact h

theorem dispRun_lt (evs : List DispEv) : ∀ s, (∀ p ∈ s.pending, p.1 < s.next) →
    ∀ p ∈ (dispRun Cfg.all s evs).1.pending, p.1 < (dispRun Cfg.all s evs).1.next := by
  induction evs with
  | nil => intro s h; simpa [dispRun] using h
  | cons e r ih => intro s h; simp only [dispRun]; exact ih _ (dispStep_lt s e h)

theorem dispLookup_fresh (l : List (Nat × Bool)) (k : Nat) (h : ∀ p ∈ l, p.1 < k) : dispLookup k l = none := by
  induction l with
  | nil => rfl
  | cons x r ih =>
    obtain ⟨a, b⟩ := x
    have hx := h (a, b) (by simp)
    simp only [dispLookup]
    have : ¬ a = k := by simp at hx; omega
    simp only [this, if_false]
    exact ih (fun p hp => h p (by simp [hp]))

/-- keeps serving: after any history of replies (duplicate, never issued, late, …) the next request
is matched by the reply that carries its nonce -/
theorem disp_serves (evs : List DispEv) :
    ∃ k, (dispRun Cfg.all {} (evs ++ [.send, .reply k])).2.getLast? = some (.ok "matched") := by
  have ha := (dispRun_total evs {} rfl).1
  have hlt := dispRun_lt evs {} (by simp)
  refine ⟨(dispRun Cfg.all {} evs).1.next, ?_⟩
  rw [dispRun_append]
  have : (dispRun Cfg.all (dispRun Cfg.all {} evs).1 [.send, .reply (dispRun Cfg.all {} evs).1.next]).2
      = [.ok s!"sent {(dispRun Cfg.all {} evs).1.next}", .ok "matched"] := by
    simp [dispRun, dispStep, ha, dispLookup]
  rw [this]; simp

/-! callHandler: the outbound connection table -/

/-- with the id check every entry was announced under the id it is stored under, and is alive
(`loose` — the connections `DisConnectTo` left open — is unconstrained: whatever id they report when
they end, the removal finds an entry or skips) -/
def ConnInv (s : ConnSt) : Prop := s.alive = true ∧ ∀ e ∈ s.tab, e.ann = e.key ∧ e.dead = false

theorem connFind_some (k : Nat) (t : List ConnEntry) (e : ConnEntry) (h : connFind k t = some e) : e ∈ t ∧ e.key = k := by
  unfold connFind at h
  exact ⟨List.mem_of_find?_eq_some h, by simpa using List.find?_some h⟩

theorem connDial_inv (s : ConnSt) (x a : Nat) (hs hon rf : Bool) (inv : ConnInv s) :
    ConnInv (connDial Cfg.all s x a hs hon rf).1 ∧ (connDial Cfg.all s x a hs hon rf).2.isPanic = false ∧
    (connDial Cfg.all s x a hs hon rf).1.left = s.left ∧ (connDial Cfg.all s x a hs hon rf).1.loose = s.loose ∧
    (a = x → hs = true → rf = false → ∃ i, (connDial Cfg.all s x a hs hon rf).2 = .ok i) := by
  unfold connDial
  cases hf : connFind x s.tab with
  | some e =>
    have he := connFind_some x s.tab e hf
    have hd := (inv.2 e he.1).2
    simp [hd]; exact inv
  | none =>
    cases hs with
    | false => simp; exact inv
    | true =>
      by_cases hax : a = x
      · subst hax
        cases rf with
        | true => simp; exact inv
        | false =>
          simp only [Bool.not_true, Bool.false_eq_true, if_false, all_callIdMatch, bne_self_eq_false, Bool.and_false]
          refine ⟨⟨inv.1, ?_⟩, rfl, ?_⟩
          · intro e he
            rcases List.mem_cons.mp he with he | he
            · subst he; exact ⟨rfl, rfl⟩
            · exact inv.2 e he
          · simp
      · have : (a != x) = true := by simpa using hax
        simp [this, hax]; exact inv

/-- the removal branch, for ANY id (known, unknown, removed already), on any table whose entries
satisfy the invariant: no panic, the remaining entries are entries of the table -/
theorem connRemove_inv (s : ConnSt) (id : Nat) (inv : ConnInv s) :
    ConnInv (connRemove Cfg.all s id).1 ∧ (connRemove Cfg.all s id).2.isPanic = false ∧
    (connRemove Cfg.all s id).1.left = s.left := by
  unfold connRemove
  cases hf : connFind id s.tab with
  | none => simp [all_callRemoveNil]; exact inv
  | some f =>
    refine ⟨⟨inv.1, ?_⟩, rfl, rfl⟩
    intro g hg
    exact inv.2 g (List.mem_filter.mp hg).1

/-- marking the entries under one key dead and removing that key leaves entries of the old table only -/
theorem connEndTab_inv (s : ConnSt) (e : ConnEntry) (inv : ConnInv s) (he : e ∈ s.tab) :
    ConnInv (connEndTab Cfg.all s e).1 ∧ (connEndTab Cfg.all s e).2.isPanic = false ∧
    (connEndTab Cfg.all s e).1.left = s.left := by
  have hann : e.ann = e.key := (inv.2 e he).1
  unfold connEndTab connRemove
  simp only [hann]
  cases hf : connFind e.key (connMarkDead e.key s.tab) with
  | none => simp [all_callRemoveNil]; exact ⟨inv.1, by
      -- cannot happen (e itself is found), but the statement holds anyway: no entry is left unmarked
      intro g hg
      unfold connFind at hf
      have := List.find?_eq_none.mp hf
      unfold connMarkDead at hg this
      obtain ⟨g0, hg0, rfl⟩ := List.mem_map.mp hg
      have h1 := this _ (List.mem_map.mpr ⟨g0, hg0, rfl⟩)
      by_cases hk : g0.key == e.key
      · simp [hk] at h1
      · simp [hk]; exact inv.2 g0 hg0⟩
  | some f =>
    refine ⟨⟨inv.1, ?_⟩, rfl, rfl⟩
    intro g hg
    have hgm := List.mem_filter.mp hg
    unfold connMarkDead at hgm
    obtain ⟨g0, hg0, hgeq⟩ := List.mem_map.mp hgm.1
    by_cases hk : g0.key == e.key
    · simp only [hk, if_true] at hgeq
      subst hgeq
      simp at hgm hk
      exact absurd hk hgm.2
    · simp only [hk, Bool.false_eq_true, if_false] at hgeq
      subst hgeq; exact inv.2 g0 hg0

theorem connEndLoose_inv (s : ConnSt) (e : ConnEntry) (inv : ConnInv s) :
    ConnInv (connEndLoose Cfg.all s e).1 ∧ (connEndLoose Cfg.all s e).2.isPanic = false ∧
    (connEndLoose Cfg.all s e).1.left = s.left := by
  unfold connEndLoose
  exact connRemove_inv { s with loose := s.loose.erase e } e.ann ⟨inv.1, inv.2⟩

theorem connStep_inv (s : ConnSt) (e : ConnEv) (inv : ConnInv s) :
    ConnInv (connStep Cfg.all s e).1 ∧ (connStep Cfg.all s e).2.isPanic = false ∧
    (e ≠ .leave → (connStep Cfg.all s e).1.left = s.left) := by
  by_cases hl : s.left = true
  · simp [connStep, hl]; exact inv
  · have hl' : s.left = false := by simpa using hl
    cases e with
    | dial x a hs =>
      simp only [connStep, inv.1, hl', Bool.not_true, Bool.or_false, Bool.false_eq_true, if_false]
      have := connDial_inv s x a hs false false inv; exact ⟨this.1, this.2.1, fun _ => by rw [this.2.2.1, hl']⟩
    | req x =>
      simp only [connStep, inv.1, hl', Bool.not_true, Bool.or_false, Bool.false_eq_true, if_false]
      have := connDial_inv s x x true true (connCutLoose s x) inv; exact ⟨this.1, this.2.1, fun _ => by rw [this.2.2.1, hl']⟩
    | disc x =>
      simp only [connStep, inv.1, hl', Bool.not_true, Bool.or_false, Bool.false_eq_true, if_false]
      have := connRemove_inv s x inv; exact ⟨this.1, this.2.1, fun _ => by rw [this.2.2, hl']⟩
    | leave =>
      simp only [connStep, inv.1, hl', Bool.not_true, Bool.or_false, Bool.false_eq_true, if_false]
      exact ⟨⟨rfl, inv.2⟩, rfl, fun h => absurd rfl h⟩
    | hangup x =>
      simp only [connStep, inv.1, hl', Bool.not_true, Bool.or_false, Bool.false_eq_true, if_false]
      have loose : ConnInv (connViaLoose Cfg.all s x).1 ∧ (connViaLoose Cfg.all s x).2.isPanic = false ∧
          (connViaLoose Cfg.all s x).1.left = s.left := by
        unfold connViaLoose
        cases s.loose.find? (fun (e : ConnEntry) => e.key == x) with
        | none => exact ⟨inv, rfl, rfl⟩
        | some e => exact connEndLoose_inv s e inv
      simp only [connHangup]
      cases hf : connFind x s.tab with
      | none => exact ⟨loose.1, loose.2.1, fun _ => by rw [loose.2.2, hl']⟩
      | some e =>
        have he := connFind_some x s.tab e hf
        have hd := (inv.2 e he.1).2
        simp only [hd, Bool.false_eq_true, if_false]
        have := connEndTab_inv s e inv he.1
        exact ⟨this.1, this.2.1, fun _ => by rw [this.2.2, hl']⟩
    | hangupOld x =>
      simp only [connStep, inv.1, hl', Bool.not_true, Bool.or_false, Bool.false_eq_true, if_false]
      simp only [connHangupOld]
      cases s.loose.reverse.find? (fun e => e.key == x) with
      | some e => have := connEndLoose_inv s e inv; exact ⟨this.1, this.2.1, fun _ => by rw [this.2.2, hl']⟩
      | none =>
        cases hf : connFind x s.tab with
        | none => exact ⟨inv, rfl, fun _ => hl'⟩
        | some e =>
          have he := connFind_some x s.tab e hf
          have hd := (inv.2 e he.1).2
          simp only [hd, Bool.false_eq_true, if_false]
          have := connEndTab_inv s e inv he.1
          exact ⟨this.1, this.2.1, fun _ => by rw [this.2.2, hl']⟩

theorem connRun_inv (evs : List ConnEv) : ∀ s, ConnInv s →
    ConnInv (connRun Cfg.all s evs).1 ∧ (∀ o ∈ (connRun Cfg.all s evs).2, o.isPanic = false) ∧
    (ConnEv.leave ∉ evs → (connRun Cfg.all s evs).1.left = s.left) := by
  induction evs with
  | nil => intro s inv; exact ⟨inv, by simp [connRun], fun _ => rfl⟩
  | cons e r ih =>
    intro s inv
    simp only [connRun]
    have st := connStep_inv s e inv
    have := ih _ st.1
    refine ⟨this.1, fun o h => ?_, fun hn => ?_⟩
    · rcases List.mem_cons.mp h with h | h
      · subst h; exact st.2.1
      · exact this.2.1 o h
    · have hne : e ≠ .leave := fun h => hn (by simp [h])
      have hnr : ConnEv.leave ∉ r := fun h => hn (List.mem_cons_of_mem _ h)
      rw [this.2.2 hnr, st.2.2 hne]

/-- keeps serving: after any history of dials, announced ids, hang-ups (of connections with or without
an entry), `DisConnectTo` of any id — anything but the node's own `Leave` — a request to ANY member is
served (over its live entry or a fresh dial), never handed to a dead entry; the one exception is a
member the node ITSELF cut loose with `DisConnectTo` while that connection is still open (the member
keeps one inbound connection per peer and refuses the second) -/
theorem conn_serves (evs : List ConnEv) (x : Nat) (hl : ConnEv.leave ∉ evs)
    (hcut : connCutLoose (connRun Cfg.all {} evs).1 x = false) :
    ∃ i, (connStep Cfg.all (connRun Cfg.all {} evs).1 (.req x)).2 = .ok i := by
  have h := connRun_inv evs {} ⟨rfl, by simp⟩
  have inv := h.1
  have hleft : (connRun Cfg.all {} evs).1.left = false := h.2.2 hl
  simp only [connStep, inv.1, hleft, hcut, Bool.not_true, Bool.or_false, Bool.false_eq_true, if_false]
  exact (connDial_inv _ x x true true false inv).2.2.2.2 rfl rfl rfl

/-! histories a PEER can produce (dials answered with any id, hang-ups, requests — no `DisConnectTo`,
no `Leave`): no connection is ever cut loose, so every member is served -/

def ConnEv.peerOnly : ConnEv → Bool
  | .disc _ => false
  | .leave => false
  | _ => true

theorem connFind_markDead (k : Nat) (t : List ConnEntry) (f : ConnEntry)
    (h : connFind k (connMarkDead k t) = some f) : f.dead = true := by
  unfold connFind at h
  have hm := List.mem_of_find?_eq_some h
  have hk : f.key = k := by simpa using List.find?_some h
  unfold connMarkDead at hm
  obtain ⟨g, _, hg⟩ := List.mem_map.mp hm
  by_cases hgk : g.key == k
  · simp only [hgk, if_true] at hg; rw [← hg]
  · simp only [hgk, Bool.false_eq_true, if_false] at hg
    subst hg; simp [hk] at hgk

theorem connStep_loose (s : ConnSt) (e : ConnEv) (inv : ConnInv s) (hp : e.peerOnly = true) (hlo : s.loose = []) :
    (connStep Cfg.all s e).1.loose = [] := by
  by_cases hl : s.left = true
  · simp [connStep, hl, hlo]
  · have hl' : s.left = false := by simpa using hl
    have endTab : ∀ e ∈ s.tab, (connEndTab Cfg.all s e).1.loose = [] := by
      intro e he
      have hann : e.ann = e.key := (inv.2 e he).1
      unfold connEndTab connRemove
      simp only [hann]
      cases hf : connFind e.key (connMarkDead e.key s.tab) with
      | none => simp [hlo]
      | some f => simp [connFind_markDead _ _ _ hf, hlo]
    cases e with
    | dial x a hs =>
      simp only [connStep, inv.1, hl', Bool.not_true, Bool.or_false, Bool.false_eq_true, if_false]
      rw [(connDial_inv s x a hs false false inv).2.2.2.1, hlo]
    | req x =>
      simp only [connStep, inv.1, hl', Bool.not_true, Bool.or_false, Bool.false_eq_true, if_false]
      rw [(connDial_inv s x x true true (connCutLoose s x) inv).2.2.2.1, hlo]
    | disc x => simp [ConnEv.peerOnly] at hp
    | leave => simp [ConnEv.peerOnly] at hp
    | hangup x =>
      simp only [connStep, inv.1, hl', Bool.not_true, Bool.or_false, Bool.false_eq_true, if_false, connHangup]
      have vl : (connViaLoose Cfg.all s x).1.loose = [] := by simp [connViaLoose, hlo]
      cases hf : connFind x s.tab with
      | none => exact vl
      | some e =>
        have he := connFind_some x s.tab e hf
        simp only [(inv.2 e he.1).2, Bool.false_eq_true, if_false]
        exact endTab e he.1
    | hangupOld x =>
      simp only [connStep, inv.1, hl', Bool.not_true, Bool.or_false, Bool.false_eq_true, if_false, connHangupOld, hlo,
        List.reverse_nil, List.find?_nil]
      cases hf : connFind x s.tab with
      | none => exact hlo
      | some e =>
        have he := connFind_some x s.tab e hf
        simp only [(inv.2 e he.1).2, Bool.false_eq_true, if_false]
        exact endTab e he.1

theorem connRun_loose (evs : List ConnEv) : ∀ s, ConnInv s → (∀ e ∈ evs, e.peerOnly = true) → s.loose = [] →
    (connRun Cfg.all s evs).1.loose = [] := by
  induction evs with
  | nil => intro s _ _ h; exact h
  | cons e r ih =>
    intro s inv hp hlo
    simp only [connRun]
    exact ih _ (connStep_inv s e inv).1 (fun e' h => hp e' (List.mem_cons_of_mem _ h))
      (connStep_loose s e inv (hp e List.mem_cons_self) hlo)

theorem conn_serves_peer (evs : List ConnEv) (x : Nat) (hp : ∀ e ∈ evs, e.peerOnly = true) :
    ∃ i, (connStep Cfg.all (connRun Cfg.all {} evs).1 (.req x)).2 = .ok i := by
  refine conn_serves evs x (fun h => by simpa [ConnEv.peerOnly] using hp _ h) ?_
  simp [connCutLoose, connRun_loose evs {} ⟨rfl, by simp⟩ hp rfl]

theorem listenMembers_total (ls : List Nat) : ∀ k o, listenMembers Cfg.all ls k = .error o → o.isPanic = false := by
  induction ls with
  | nil => intro k o h; simp [listenMembers] at h
  | cons l r ih =>
    intro k o h
    unfold listenMembers at h
    split at h
    · simp at h; exact ih _ _ h
    · exact ih _ _ h

theorem listenStep_total (e : SerfEv) : (listenStep Cfg.all e).isPanic = false := by
  cases e with
  | other => simp [listenStep]
  | members ls =>
    simp only [listenStep]
    cases h : listenMembers Cfg.all ls 0 with
    | error o => exact listenMembers_total ls 0 o h
    | ok k => rfl

theorem lookupNames_total (ls : List Nat) : ∀ k o, lookupNames Cfg.all ls k = .error o → o.isPanic = false := by
  induction ls with
  | nil => intro k o h; simp [lookupNames] at h
  | cons l r ih =>
    intro k o h
    unfold lookupNames at h
    split at h
    · simp at h; exact ih _ _ h
    · split at h <;> exact ih _ _ h

theorem lookupOut_total (ls : List Nat) : (lookupOut Cfg.all ls).isPanic = false := by
  unfold lookupOut
  split
  · next o h => exact lookupNames_total ls 0 o h
  · rfl

end Dos.Handlers

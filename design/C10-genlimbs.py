#!/usr/bin/env python3
"""
One-off generator for lean/DosModel/Proofs/AsmMulLimbs.lean: symbolically executes the
regenerated listing of gfpMul (lean/DosModel/Gen/Bn256Asm.lean) along one of its two paths
and prints the limb-level model (a Lean `let` chain over the word primitives of
Model/Mont.lean). Nothing here is trusted: the output is checked against the interpreter by a
kernel-verified `rfl` (Proofs/AsmMul.lean) — a wrong or stale model makes that proof fail.

usage: C10-genlimbs.py <Bn256Asm.lean> > AsmMulLimbs.lean
"""
import re, sys

src = open(sys.argv[1]).read()
m = re.search(r"def gfpMul : Func := \{[^\[]*\[\n(.*?)\n\] \}", src, re.S)
lines = [l.split("--")[0].strip().rstrip(",") for l in m.group(1).split("\n")]
lines = [l for l in lines if l]


def parse_opd(s):
    s = s.strip()
    if s.startswith("(") and s.endswith(")"):
        s = s[1:-1]
    p = s.split()
    kind = p[0][1:]
    if kind == "imm":
        return ("imm", int(p[1]))
    if kind == "reg":
        return ("reg", p[1][1:])
    if kind == "mem":
        return ("mem", p[1][1:], int(p[2]))
    if kind == "frame":
        return ("frame", int(p[1]))
    if kind == "arg":
        return ("arg", int(p[1]))
    if kind == "glob":
        return ("glob", p[1][1:], int(p[2]))
    raise ValueError(s)


def split_ops(rest):
    # operands are parenthesised groups or bare .REG tokens
    out, depth, cur = [], 0, ""
    for ch in rest:
        if ch == "(":
            depth += 1
        if ch == ")":
            depth -= 1
        if ch == " " and depth == 0:
            if cur:
                out.append(cur)
            cur = ""
        else:
            cur += ch
    if cur:
        out.append(cur)
    return out


prog = []
for l in lines:
    op, _, rest = l.partition(" ")
    prog.append((op[1:], split_ops(rest)))


def run(bmi2):
    regs = {}
    frame = {}
    cf = None
    lets = []
    n = [0]
    ptr = {}

    def fresh(expr):
        n[0] += 1
        name = "v%d" % n[0]
        lets.append((name, expr))
        return name

    def read(o):
        k = o[0]
        if k == "imm":
            return str(o[1])
        if k == "reg":
            return regs[o[1]]
        if k == "mem":
            blk = ptr[o[1]]
            return "%s.l%d" % (blk, o[2] // 8)
        if k == "frame":
            return frame[o[1]]
        if k == "glob":
            return "%s.l%d" % ({"p2": "p", "np": "np"}[o[1]], o[2] // 8)
        raise ValueError(o)

    out = {}
    pc = 0
    steps = 0
    while True:
        steps += 1
        op, args = prog[pc]
        if op == "ret":
            break
        if op == "jmp":
            pc = int(args[0])
            continue
        if op == "cmpb":
            pc += 1
            continue
        if op == "jeq":
            pc = int(args[0]) if not bmi2 else pc + 1
            continue
        if op == "movq":
            s, d = parse_opd(args[0]), parse_opd(args[1])
            if s[0] == "arg":
                ptr[d[1]] = {0: "c", 8: "a", 16: "b"}[s[1]]
            elif d[0] == "reg":
                regs[d[1]] = read(s)
                ptr.pop(d[1], None)
            elif d[0] == "frame":
                frame[d[1]] = read(s)
            elif d[0] == "mem":
                assert ptr[d[1]] == "c"
                out[d[2] // 8] = read(s)
            pc += 1
            continue
        if op in ("addq", "adcq", "subq", "sbbq"):
            s, d = parse_opd(args[0]), parse_opd(args[1])
            x, y = read(s), read(d)
            assert d[0] == "reg"
            if op == "addq":
                lo, c = "addLo %s %s" % (y, x), "addC %s %s" % (y, x)
            elif op == "adcq":
                lo, c = "adcLo %s %s %s" % (y, x, cf), "adcC %s %s %s" % (y, x, cf)
            elif op == "subq":
                lo, c = "subLo %s %s" % (y, x), "subB %s %s" % (y, x)
            else:
                lo, c = "sbbLo %s %s %s" % (y, x, cf), "sbbB %s %s %s" % (y, x, cf)
            regs[d[1]] = fresh(lo)
            cf = fresh(c)
            pc += 1
            continue
        if op == "mulq":
            x = read(parse_opd(args[0]))
            a = regs["AX"]
            regs["AX"] = fresh("mulLo %s %s" % (a, x))
            regs["DX"] = fresh("mulHi %s %s" % (a, x))
            cf = "CF_AFTER_MULQ_MUST_NOT_BE_READ"
            pc += 1
            continue
        if op == "mulxq":
            x = read(parse_opd(args[0]))
            d = regs["DX"]
            lo, hi = args[1][1:], args[2][1:]
            vlo = fresh("mulLo %s %s" % (d, x))
            vhi = fresh("mulHi %s %s" % (d, x))
            regs[lo] = vlo
            regs[hi] = vhi
            pc += 1
            continue
        if op == "cmovqcc":
            x = read(parse_opd(args[0]))
            d = args[1][1:]
            regs[d] = fresh("cmovcc %s %s %s" % (cf, x, regs[d]))
            pc += 1
            continue
        raise ValueError(op)
    return lets, out, steps


def emit(name, bmi2, doc):
    lets, out, steps = run(bmi2)
    # drop lets that are never used (flags of the last instruction of a chain etc.)
    used = set()
    need = [out[i] for i in range(4)]
    body = {n: e for n, e in lets}
    stack = list(need)
    while stack:
        t = stack.pop()
        for tok in re.findall(r"v\d+", t):
            if tok not in used:
                used.add(tok)
                stack.append(body[tok])
    print("/-- %s (%d instructions executed, %d word operations kept) -/" % (doc, steps, len(used)))
    print("def %s (p np a b : L4) : L4 :=" % name)
    for n_, e in lets:
        if n_ in used:
            assert "CF_AFTER" not in e, e
            print("  let %s := %s" % (n_, e))
    print("  ⟨%s, %s, %s, %s⟩\n" % (out[0], out[1], out[2], out[3]))


print("""/-
GENERATED ONCE by design/C10-genlimbs.py from Gen/Bn256Asm.lean (symbolic execution of the gfpMul
listing along each of its two paths). Untrusted: Proofs/AsmMul.lean proves by kernel-checked
definitional unfolding that the interpreter produces exactly these limbs, for every machine state.
-/
import DosModel.Model.Mont

namespace Dos.Mont
""")
emit("mulLimbsMULQ", False, "gfpMul, hasBMI2 = false: `mul` (schoolbook 4×4 with MULQ) + `gfpReduce`")
emit("mulLimbsMULX", True, "gfpMul, hasBMI2 = true: `mulBMI2` + `gfpReduceBMI2` (MULX, flag-preserving)")
print("end Dos.Mont")

import DosModel.Model.FramingPipe
import DosModel.Gen.P2PConsts
def main : IO Unit := Dos.lineLoop (Dos.Framing.stepX Dos.Gen.msgSizeLimit)

// Package c11: encodings of bn256 G1/G2/GT elements and scalars through the exported kyber
// API (suites.MustFind("bn256")), against (a) the Lean driver drv_c11 (model) and
// (b) independent oracles: math/big (bnref) and go-ethereum crypto/bn256/google.
package c11

import (
	"bytes"
	"fmt"
	"math/big"
	"strings"

	"github.com/DOSNetwork/core/suites"
	"github.com/dedis/kyber"
	gbn "github.com/ethereum/go-ethereum/crypto/bn256/google"

	"verifharness/internal/h"
	"verifharness/props/c11/bnref"
)

func init() {
	h.Register(&h.Prop{
		ID: "C11",
		Rule: "cases: gteq (pairing values e(aG1,bG2) vs e(cG1,dG2), equal iff ab=cd), <g>mul/add/sub/neg/eq (elements from scalars {0,1,2,r-1,r,r+1,(r±1)/2,2^256-1,random}, sums incl. a+b≡0 and a=b), scenc; " +
			"g1dec/g2dec/gtdec/scdec on byte strings mutated around valid encodings (every length 0..2·size, single-bit flips, coordinate swaps, x+kp, (p,0)-style identities, negation, off-curve, on-twist-outside-subgroup, tags, random); " +
			"after EVERY successful decode the decoded object is computed with (Add/Sub/Neg/Mul against math/big; Equal and pairings against (Q+B)-B, a representative built by arithmetic; google pairing on a sample; bls.Verify under decoded keys) and its Jacobian form (z = t = 1 / identity) is read through the verif hook; " +
			"<g>rep (two representatives of one element / of neighbouring elements built by Add/Double/Mul/Neg/Clone chains that are never normalised: Equal both ways, encodings, pairings), par (ONE shared non-normalised object, n goroutines: MarshalBinary / Equal / Pair at once); " +
			"<g>into (decode into a used receiver), seq (one receiver through prior states {fresh, Null, Base, Mul, successful decode, failed decode} then every special encoding by UnmarshalBinary and UnmarshalFrom; sequences [P, identity, Q]), <g>strm (MarshalTo→UnmarshalFrom with trailing data). non-trivial = every case except the unmodified encoding of the identity/generator; distinct = distinct case line",
		Gen:  gen,
		Exec: exec,
	})
}

var suite = suites.MustFind("bn256")
var two256 = new(big.Int).Lsh(big.NewInt(1), 256)

func scalar(k *big.Int) kyber.Scalar {
	return suite.G1().Scalar().SetBytes(new(big.Int).Mod(k, two256).Bytes())
}

func errKind(err error) string {
	s := err.Error()
	switch {
	case strings.Contains(s, "not enough data"):
		return "short"
	case strings.Contains(s, "malformed point"):
		return "malformed"
	case strings.Contains(s, "exceeds modulus"):
		return "noncanon"
	case strings.Contains(s, "wrong size buffer"):
		return "size"
	case strings.Contains(s, "out of range"):
		return "range"
	case s == "unexpected EOF":
		return "ueof"
	case s == "EOF":
		return "eof"
	}
	return "other:" + h.OneLine(s)
}

// ---- reference decoders (math/big) -------------------------------------------------

type refRes struct {
	kind string // "ok" or error kind
	why  string // finer reason for a rejection: offcurve / subgroup / tag
	enc  []byte // canonical re-encoding when ok
}

func word(b []byte, i int) *big.Int { return new(big.Int).SetBytes(b[i : i+32]) }

func refG1(b []byte) refRes {
	if len(b) < 64 {
		return refRes{kind: "short"}
	}
	x, y := word(b, 0), word(b, 32)
	if x.Cmp(bnref.P) >= 0 || y.Cmp(bnref.P) >= 0 {
		return refRes{kind: "noncanon"}
	}
	if x.Sign() == 0 && y.Sign() == 0 {
		return refRes{kind: "ok", enc: make([]byte, 64)}
	}
	if !bnref.OnCurve1(x, y) {
		return refRes{kind: "malformed", why: "offcurve"}
	}
	return refRes{kind: "ok", enc: append([]byte{}, b[:64]...)}
}

func refG2(b []byte) refRes {
	if len(b) > 0 && b[0] == 0 {
		return refRes{kind: "ok", enc: []byte{0}}
	}
	if len(b) > 0 && b[0] != 1 {
		return refRes{kind: "malformed", why: "tag"}
	}
	if len(b) < 129 {
		return refRes{kind: "short"}
	}
	c := []*big.Int{word(b, 1), word(b, 33), word(b, 65), word(b, 97)}
	zero := true
	for _, v := range c {
		if v.Cmp(bnref.P) >= 0 {
			return refRes{kind: "noncanon"}
		}
		if v.Sign() != 0 {
			zero = false
		}
	}
	if zero {
		return refRes{kind: "ok", enc: []byte{0}}
	}
	x, y := bnref.F2{Im: c[0], Re: c[1]}, bnref.F2{Im: c[2], Re: c[3]}
	if !bnref.OnTwist(x, y) {
		return refRes{kind: "malformed", why: "offcurve"}
	}
	if !bnref.InSubgroup2(bnref.P2{X: x, Y: y}) {
		return refRes{kind: "malformed", why: "subgroup"}
	}
	return refRes{kind: "ok", enc: append([]byte{}, b[:129]...)}
}

func refGT(b []byte) refRes {
	if len(b) < 384 {
		return refRes{kind: "short"}
	}
	for i := 0; i < 12; i++ {
		if word(b, 32*i).Cmp(bnref.P) >= 0 {
			return refRes{kind: "noncanon"}
		}
	}
	return refRes{kind: "ok", enc: append([]byte{}, b[:384]...)}
}

func refSc(b []byte) refRes {
	if len(b) != 32 {
		return refRes{kind: "size"}
	}
	if word(b, 0).Cmp(bnref.Rn) >= 0 {
		return refRes{kind: "range"}
	}
	return refRes{kind: "ok", enc: append([]byte{}, b...)}
}

// judge compares what the implementation did on a byte string with the reference decision and
// names the clause of the property that fails.
func judge(g string, size int, b []byte, implKind string, implEnc []byte, ref refRes) string {
	if implKind == "ok" {
		switch {
		case g != "g2" && len(b) < size, g == "g2" && ref.kind == "short":
			return fmt.Sprintf("%s-short-accepted: %d bytes decoded", g, len(b))
		case ref.kind == "malformed" && ref.why == "offcurve":
			return g + "-offcurve-accepted: decoded a point that does not satisfy the curve equation"
		case ref.kind == "malformed" && ref.why == "subgroup":
			return g + "-outside-subgroup-accepted: decoded a twist point whose order is not r"
		case ref.kind == "malformed":
			return g + "-badtag-accepted"
		case ref.kind == "noncanon":
			return g + "-noncanonical-accepted: a coordinate >= p decoded"
		case ref.kind == "size" || ref.kind == "range":
			return g + "-" + ref.kind + "-accepted: scalar decoded from an out-of-range / wrong-size value"
		}
		if !bytes.Equal(implEnc, ref.enc) {
			return g + "-roundtrip-differs: decode then encode gives " + h.Hex(implEnc)
		}
		return ""
	}
	if ref.kind == "ok" {
		return g + "-valid-rejected: " + implKind
	}
	return ""
}

// ---- running the implementation ---------------------------------------------------

func group(g string) kyber.Group {
	switch g {
	case "g1":
		return suite.G1()
	case "g2":
		return suite.G2()
	}
	return suite.GT()
}

// decodeInto: UnmarshalBinary into pt, then re-encode; extra = the text describing the decoded OBJECT
// (form of its Jacobian representation and the encoding of 3·Q + B computed with it, see use.go)
func decodeInto(g string, pt kyber.Point, b []byte) (kind string, enc []byte, extra string) {
	if err := pt.UnmarshalBinary(b); err != nil {
		return errKind(err), nil, ""
	}
	return reencode(g, pt)
}

func reencode(g string, pt kyber.Point) (kind string, enc []byte, extra string) {
	if g != "gt" {
		extra = " st=" + repState(g, pt)
	}
	enc, err := pt.MarshalBinary()
	if err != nil {
		return "marshal-error", nil, ""
	}
	if g != "gt" {
		extra += " u=" + h.Hex(useValue(g, pt))
	}
	return "ok", enc, extra
}

// useOracle: after the byte-level clauses hold (judge clean) the decoded object is computed with
func useOracle(g string, pt kyber.Point, kind string, ref refRes, extra string, deep bool) string {
	if kind != "ok" || ref.kind != "ok" {
		return ""
	}
	// behaviour first (what the property is about), then the representation invariant behind it
	if o := useDecoded(g, pt, ref.enc, deep || deepSample(ref.enc)); o != "" {
		return o
	}
	if g != "gt" {
		st := strings.TrimPrefix(strings.Fields(extra)[0], "st=")
		ident := isZero(ref.enc) || len(ref.enc) == 1
		if (st != "n" && st != "i") || (st == "i") != ident {
			return fmt.Sprintf("%s-decoded-representation: after a successful decode of %s… the Jacobian representation is %s (expected %s: z = t = 1 for a point, (0,1,0,0) for the identity)", g, h.Hex(ref.enc[:1]), st, map[bool]string{true: "i", false: "n"}[ident])
		}
	}
	return ""
}

func show(kind string, enc []byte, extra string) string {
	if kind == "ok" {
		return "ok " + h.Hex(enc) + extra
	}
	return "err " + kind
}

func refFor(g string, b []byte) (refRes, int) {
	switch g {
	case "g1":
		return refG1(b), 64
	case "g2":
		return refG2(b), 129
	case "gt":
		return refGT(b), 384
	}
	return refSc(b), 32
}

// google cross-check of the reference decision (both are independent of /repo)
func crossCheck(g string, b []byte, ref refRes) string {
	switch g {
	case "g1":
		if len(b) >= 64 {
			_, err := new(gbn.G1).Unmarshal(b[:64])
			if (err == nil) != (ref.kind == "ok") {
				return fmt.Sprintf("c11-oracles-disagree: google G1 err=%v, math/big says %s", err, ref.kind)
			}
		}
	case "g2":
		if len(b) >= 129 && b[0] == 1 {
			_, err := new(gbn.G2).Unmarshal(b[1:129])
			if (err == nil) != (ref.kind == "ok") {
				return fmt.Sprintf("c11-oracles-disagree: google G2 err=%v, math/big says %s/%s", err, ref.kind, ref.why)
			}
		}
	}
	return ""
}

func elem(g string, k *big.Int) kyber.Point {
	return group(g).Point().Mul(scalar(k), nil)
}

func refEnc(g string, k *big.Int) []byte {
	kk := new(big.Int).Mod(new(big.Int).Mod(k, two256), bnref.Rn)
	if g == "g1" {
		return bnref.Enc1(bnref.Mul1(kk, bnref.G1Gen()))
	}
	return bnref.Enc2(bnref.Mul2(kk, bnref.G2Gen()))
}

// lastRep: was the representative handed to the last checkElement a Jacobian one (z not in {0,1})? (histogram only)
var lastRep string

// checkElement: the clauses of C11 about one element P whose discrete log (mod r) the harness knows.
func checkElement(g string, P kyber.Point, dlog *big.Int) (enc []byte, rt bool, st string, oracle string) {
	nonnorm := nonNormal(g, P)
	var pairP kyber.Point // with the never-normalised representative
	if g == "g1" {
		pairP = suite.Pair(P, g2Base)
	} else {
		pairP = suite.Pair(g1Base, P)
	}
	P0 := group(g).Point().Set(P) // a copy of the representative (G2 MarshalBinary normalises its receiver)
	lastRep = map[bool]string{true: "jac", false: "aff"}[nonnorm]
	enc, err := P.MarshalBinary()
	if err != nil {
		return nil, false, "", g + "-marshal-error: " + err.Error()
	}
	want := refEnc(g, dlog)
	if !bytes.Equal(enc, want) {
		oracle = g + "-encoding-differs: expected " + h.Hex(want)
	}
	size := map[string]int{"g1": 64, "g2": 129}[g]
	ident := new(big.Int).Mod(dlog, bnref.Rn).Sign() == 0
	if !(g == "g2" && ident) && len(enc) != size && oracle == "" {
		oracle = fmt.Sprintf("%s-length: %d bytes", g, len(enc))
	}
	Q := group(g).Point()
	if err := Q.UnmarshalBinary(enc); err != nil {
		if oracle == "" {
			oracle = g + "-roundtrip-rejected: " + errKind(err)
		}
		return enc, false, "", oracle
	}
	st = "st=" + repState(g, Q)
	enc2, _ := Q.MarshalBinary()
	rt = Q.Equal(P) && P.Equal(Q) && bytes.Equal(enc, enc2)
	if !rt && oracle == "" {
		oracle = g + "-roundtrip-differs: decode(encode P) != P"
	}
	// independent: go-ethereum google
	if oracle == "" {
		kk := new(big.Int).Mod(dlog, bnref.Rn)
		var ge []byte
		if g == "g1" {
			ge = new(gbn.G1).ScalarBaseMult(kk).Marshal()
		} else {
			ge = new(gbn.G2).ScalarBaseMult(kk).Marshal()
		}
		mine := enc
		if g == "g2" {
			if ident {
				mine = make([]byte, 128)
			} else {
				mine = enc[1:]
			}
		}
		if !(g == "g1" && ident) && !bytes.Equal(mine, ge) {
			oracle = g + "-encoding-differs-google: " + h.Hex(ge)
		}
	}
	// the decoded object must BEHAVE as the original: arithmetic, Equal, pairings, a BLS round
	if oracle == "" {
		ref, _ := refFor(g, want)
		oracle = useOracle(g, Q, "ok", ref, st, true)
	}
	if oracle == "" {
		oracle = sameBehaviour(g, P0, Q)
	}
	if oracle == "" {
		var pairQ kyber.Point
		if g == "g1" {
			pairQ = suite.Pair(Q, g2Base)
		} else {
			pairQ = suite.Pair(g1Base, Q)
		}
		if !pairQ.Equal(pairP) || !bytes.Equal(mustEnc(pairQ), mustEnc(pairP)) {
			oracle = g + "-roundtrip-behaviour-differs: Pair with decode(encode P) differs from Pair with P"
		}
	}
	if oracle == "" && g == "g2" {
		oracle = blsRound(new(big.Int).Mod(dlog, bnref.Rn), Q)
	}
	return enc, rt, st, oracle
}

func b2i(b bool) int {
	if b {
		return 1
	}
	return 0
}

func exec(line string) (res h.Result) {
	w := strings.Fields(line)
	op := w[0]
	res.Class = op
	res.Nontrivial = true
	switch {
	case op == "g1dec" || op == "g2dec" || op == "gtdec":
		g := op[:2]
		b := h.UnHex(w[1])
		pt := group(g).Point()
		kind, enc, extra := decodeInto(g, pt, b)
		ref, size := refFor(g, b)
		res.Impl = show(kind, enc, extra)
		res.Oracle = judge(g, size, b, kind, enc, ref)
		if res.Oracle == "" {
			res.Oracle = crossCheck(g, b, ref)
		}
		if res.Oracle == "" {
			res.Oracle = useOracle(g, pt, kind, ref, extra, false)
		}
		res.Class = op + "-" + strings.SplitN(kind, ":", 2)[0]
		if kind == "ok" && bytes.Equal(b, enc) && (bytes.Equal(b, refEnc("g1", big.NewInt(1))) || bytes.Equal(b, refEnc("g2", big.NewInt(1))) || isZero(b)) {
			res.Nontrivial = false
		}
	case op == "scdec":
		b := h.UnHex(w[1])
		s := suite.G1().Scalar()
		kind, enc := "ok", []byte(nil)
		if err := s.UnmarshalBinary(b); err != nil {
			kind = errKind(err)
		} else {
			enc, _ = s.MarshalBinary()
		}
		ref, size := refFor("sc", b)
		res.Impl = show(kind, enc, "")
		res.Oracle = judge("scalar", size, b, kind, enc, ref)
		res.Class = op + "-" + kind
	case op == "scenc":
		k := h.BigDec(w[1])
		s := scalar(k)
		enc, err := s.MarshalBinary()
		if err != nil {
			res.Impl = "err marshal"
			res.Oracle = "scalar-marshal-error: " + err.Error()
			return
		}
		t := suite.G1().Scalar()
		rt := t.UnmarshalBinary(enc) == nil && t.Equal(s)
		res.Impl = fmt.Sprintf("ok %s rt=%d", h.Hex(enc), b2i(rt))
		want := make([]byte, 32)
		kb := new(big.Int).Mod(new(big.Int).Mod(k, two256), bnref.Rn).Bytes()
		copy(want[32-len(kb):], kb)
		if !bytes.Equal(enc, want) {
			res.Oracle = "scalar-encoding-differs: expected " + h.Hex(want)
		} else if !rt {
			res.Oracle = "scalar-roundtrip-differs"
		}
	case op == "g1into" || op == "g2into" || op == "gtinto":
		// decode into a receiver that already holds k•Base (twice, to catch state carried over)
		g := op[:2]
		k, b := h.BigDec(w[1]), h.UnHex(w[2])
		pt := elem(g, k)
		kind, enc, extra := decodeInto(g, pt, b)
		kind2, enc2, extra2 := decodeInto(g, pt, b)
		ref, size := refFor(g, b)
		res.Impl = show(kind, enc, extra)
		res.Oracle = judge(g, size, b, kind, enc, ref)
		if res.Oracle == "" && (kind != kind2 || !bytes.Equal(enc, enc2) || extra != extra2) {
			res.Oracle = g + "-decode-depends-on-receiver: second decode into the same receiver gives " + show(kind2, enc2, extra2)
		}
		if res.Oracle == "" {
			res.Oracle = useOracle(g, pt, kind, ref, extra, false)
		}
		if res.Oracle != "" {
			res.Oracle = strings.Replace(res.Oracle, g+"-", g+"-used-receiver-", 1)
		}
		res.Class = op + "-" + strings.SplitN(kind, ":", 2)[0]
	case op == "g1mul" || op == "g2mul":
		g := op[:2]
		k := h.BigDec(w[1])
		P := elem(g, k)
		enc, rt, st, o := checkElement(g, P, new(big.Int).Mod(k, two256))
		res.Impl = fmt.Sprintf("ok %s rt=%d %s", h.Hex(enc), b2i(rt), st)
		res.Oracle = o
		res.Class = op + "-" + lastRep
		res.Nontrivial = k.Sign() != 0 && k.Cmp(big.NewInt(1)) != 0
	case op == "g1add" || op == "g2add" || op == "g1sub" || op == "g2sub":
		g := op[:2]
		a, b := h.BigDec(w[1]), h.BigDec(w[2])
		A, B := elem(g, a), elem(g, b)
		var P kyber.Point
		d := new(big.Int)
		if op[2:] == "add" {
			P = group(g).Point().Add(A, B)
			d.Add(a, b)
		} else {
			P = group(g).Point().Sub(A, B)
			d.Sub(a, b)
		}
		d.Mod(d, bnref.Rn)
		enc, rt, st, o := checkElement(g, P, d)
		res.Impl = fmt.Sprintf("ok %s rt=%d %s", h.Hex(enc), b2i(rt), st)
		res.Oracle = o
		res.Class = op + "-" + lastRep
	case op == "g1neg" || op == "g2neg":
		g := op[:2]
		a := h.BigDec(w[1])
		P := group(g).Point().Neg(elem(g, a))
		d := new(big.Int).Neg(a)
		d.Mod(d, bnref.Rn)
		enc, rt, st, o := checkElement(g, P, d)
		res.Impl = fmt.Sprintf("ok %s rt=%d %s", h.Hex(enc), b2i(rt), st)
		res.Oracle = o
		res.Class = op + "-" + lastRep
	case op == "g1eq" || op == "g2eq":
		// P = aG + bG, Q = cG + dG : two different computations (different Jacobian representatives)
		g := op[:2]
		a, b, c, d := h.BigDec(w[1]), h.BigDec(w[2]), h.BigDec(w[3]), h.BigDec(w[4])
		P := group(g).Point().Add(elem(g, a), elem(g, b))
		Q := group(g).Point().Add(elem(g, c), elem(g, d))
		pe, _ := P.MarshalBinary()
		qe, _ := Q.MarshalBinary()
		eq, same := P.Equal(Q), bytes.Equal(pe, qe)
		res.Impl = fmt.Sprintf("eq=%d enc=%d", b2i(eq), b2i(same))
		s1 := new(big.Int).Add(a, b)
		s2 := new(big.Int).Add(c, d)
		want := s1.Mod(s1, bnref.Rn).Cmp(s2.Mod(s2, bnref.Rn)) == 0
		if eq != want {
			res.Oracle = fmt.Sprintf("%s-equal-mismatch: Equal=%v but the elements are equal=%v", g, eq, want)
		} else if eq != same {
			res.Oracle = fmt.Sprintf("%s-equal-vs-bytes: Equal=%v, encodings equal=%v", g, eq, same)
		}
		res.Class = fmt.Sprintf("%s-%d", op, b2i(want))
	case op == "g1rep" || op == "g2rep" || op == "gtrep":
		execRep(op[:2], w, &res)
	case op == "par":
		execPar(w, &res)
	case op == "eqh":
		// eqh <g> <e1>=<e2>;<e1>=<e2>;…: a HISTORY of Equal calls in one process (seeded C11f-1: Equal marshals into a
		// pooled scratch buffer and the identity leaves its half stale): every answer must be the elements' equality
		// and the equality of the two encodings, whatever was compared before
		g := w[1]
		var outs []string
		for i, pr := range strings.Split(w[2], ";") {
			ab := strings.SplitN(pr, "=", 2)
			P, Q := evalExpr(g, ab[0]), evalExpr(g, ab[1])
			want := P.dlog.Cmp(Q.dlog) == 0
			eq1, eq2 := P.pt.Equal(Q.pt), Q.pt.Equal(P.pt)
			same := bytes.Equal(mustEnc(P.pt), mustEnc(Q.pt))
			outs = append(outs, fmt.Sprintf("%d%d%d", b2i(eq1), b2i(eq2), b2i(same)))
			if res.Oracle == "" {
				switch {
				case eq1 != want || eq2 != want:
					res.Oracle = fmt.Sprintf("%s-equal-history-mismatch: comparison %d of the history (%s): elements equal=%v, P.Equal(Q)=%v Q.Equal(P)=%v", g, i, pr, want, eq1, eq2)
				case same != want:
					res.Oracle = fmt.Sprintf("%s-equal-vs-bytes: comparison %d of the history (%s): elements equal=%v, encodings equal=%v", g, i, pr, want, same)
				}
			}
		}
		res.Impl = strings.Join(outs, ";")
		res.Class = "eqh-" + g
	case op == "seq":
		// seq <g1|g2|gt> <step,step,...>: ONE receiver object taken through a sequence of states.
		// steps: n = Null(), b = Base(), m<k> = Mul(k, nil), d<hex> = UnmarshalBinary, f<hex> = UnmarshalFrom.
		// Every decode must answer as a decode of the same bytes into a fresh receiver would.
		g := w[1]
		pt := group(g).Point()
		var outs []string
		for i, st := range strings.Split(w[2], ",") {
			switch st[0] {
			case 'r': // the following steps use a FRESH receiver object (state carried outside the receiver shows here)
				pt = group(g).Point()
			case 'n':
				pt.Null()
			case 'b':
				pt.Base()
			case 'm':
				pt.Mul(scalar(h.BigDec(st[1:])), nil)
			case 'd', 'f':
				b := h.UnHex(st[1:])
				var kind, extra string
				var enc []byte
				n := len(b)
				if st[0] == 'd' {
					kind, enc, extra = decodeInto(g, pt, b)
				} else {
					var err error
					n, err = pt.UnmarshalFrom(bytes.NewReader(b))
					if err != nil {
						kind = errKind(err)
					} else {
						kind, enc, extra = reencode(g, pt)
					}
				}
				if st[0] == 'd' {
					outs = append(outs, show(kind, enc, extra))
				} else {
					outs = append(outs, fmt.Sprintf("n=%d %s", n, show(kind, enc, extra)))
				}
				if res.Oracle == "" && (st[0] == 'd' || (kind == "ok" && n <= len(b))) {
					in := b
					if st[0] == 'f' {
						in = b[:n]
					}
					ref, size := refFor(g, in)
					o := judge(g, size, in, kind, enc, ref)
					if o == "" {
						o = useOracle(g, pt, kind, ref, extra, false)
					}
					if o != "" {
						res.Oracle = strings.Replace(o, g+"-", g+"-reused-receiver-", 1) + fmt.Sprintf(" (step %d of %s)", i, h.OneLine(w[2])[:min(len(w[2]), 80)])
					}
				}
			default:
				panic("bad step " + st)
			}
		}
		res.Impl = strings.Join(outs, ";")
		res.Class = "seq-" + g
	case op == "gteq":
		// e(aG1, bG2) and e(cG1, dG2): equal elements iff ab ≡ cd (mod r); two different computations
		a, b, c, d := h.BigDec(w[1]), h.BigDec(w[2]), h.BigDec(w[3]), h.BigDec(w[4])
		P := suite.Pair(elem("g1", a), elem("g2", b))
		Q := suite.Pair(elem("g1", c), elem("g2", d))
		pe, _ := P.MarshalBinary()
		qe, _ := Q.MarshalBinary()
		eq, same := P.Equal(Q), bytes.Equal(pe, qe)
		res.Impl = fmt.Sprintf("eq=%d enc=%d", b2i(eq), b2i(same))
		s1 := new(big.Int).Mul(new(big.Int).Mod(a, bnref.Rn), new(big.Int).Mod(b, bnref.Rn))
		s2 := new(big.Int).Mul(new(big.Int).Mod(c, bnref.Rn), new(big.Int).Mod(d, bnref.Rn))
		want := s1.Mod(s1, bnref.Rn).Cmp(s2.Mod(s2, bnref.Rn)) == 0
		if eq != want {
			res.Oracle = fmt.Sprintf("gt-equal-mismatch: Equal=%v but the elements are equal=%v", eq, want)
		} else if eq != same {
			res.Oracle = fmt.Sprintf("gt-equal-vs-bytes: Equal=%v, encodings equal=%v", eq, same)
		} else if len(pe) != 384 {
			res.Oracle = fmt.Sprintf("gt-length: %d", len(pe))
		} else {
			// round trip of a pairing value
			R := suite.GT().Point()
			if err := R.UnmarshalBinary(pe); err != nil || !R.Equal(P) {
				res.Oracle = "gt-roundtrip-differs"
			}
		}
		res.Class = fmt.Sprintf("gteq-%d", b2i(want))
	case op == "g1strm" || op == "g2strm":
		// MarshalTo a buffer, append a tail, UnmarshalFrom: must give the element back and leave the tail
		g := op[:2]
		k, tail := h.BigDec(w[1]), h.UnHex(w[2])
		P := elem(g, k)
		var buf bytes.Buffer
		nw, err := P.MarshalTo(&buf)
		if err != nil {
			res.Impl = "err marshalto"
			res.Oracle = g + "-marshalto-error"
			return
		}
		buf.Write(tail)
		Q := group(g).Point()
		n, err := Q.UnmarshalFrom(&buf)
		left := buf.Len()
		if err != nil {
			res.Impl = fmt.Sprintf("wrote=%d n=%d err %s left=%d", nw, n, errKind(err), left)
			res.Oracle = fmt.Sprintf("%s-stream-roundtrip: MarshalTo wrote %d bytes, UnmarshalFrom: %s", g, nw, errKind(err))
		} else {
			_, enc, extra := reencode(g, Q)
			res.Impl = fmt.Sprintf("wrote=%d n=%d ok %s%s left=%d", nw, n, h.Hex(enc), extra, left)
			if !Q.Equal(P) {
				res.Oracle = g + "-stream-roundtrip: decoded element differs"
			} else if left != len(tail) || n != nw {
				res.Oracle = fmt.Sprintf("%s-stream-bleed: wrote %d, consumed %d, %d of %d trailing bytes left", g, nw, n, left, len(tail))
			} else {
				want := refEnc(g, new(big.Int).Mod(k, two256))
				ref, _ := refFor(g, want)
				if o := useOracle(g, Q, "ok", ref, extra, false); o != "" {
					res.Oracle = strings.Replace(o, g+"-", g+"-stream-", 1)
				} else if o := sameBehaviour(g, P, Q); o != "" {
					res.Oracle = strings.Replace(o, g+"-", g+"-stream-", 1)
				}
			}
		}
		if res.Oracle != "" && g == "g2" && new(big.Int).Mod(k, bnref.Rn).Sign() == 0 {
			res.Oracle = "g2-identity-" + strings.TrimPrefix(res.Oracle, "g2-")
		}
	case op == "g1from" || op == "g2from" || op == "gtfrom":
		// UnmarshalFrom on an arbitrary stream
		g := op[:2]
		b := h.UnHex(w[1])
		rd := bytes.NewReader(b)
		Q := group(g).Point()
		n, err := Q.UnmarshalFrom(rd)
		if err != nil {
			res.Impl = fmt.Sprintf("n=%d err %s", n, errKind(err))
		} else {
			_, enc, extra := reencode(g, Q)
			res.Impl = fmt.Sprintf("n=%d ok %s%s", n, h.Hex(enc), extra)
			size := map[string]int{"g1": 64, "g2": 129, "gt": 384}[g]
			if n <= len(b) {
				ref, _ := refFor(g, b[:n])
				res.Oracle = judge(g, size, b[:n], "ok", enc, ref)
				if res.Oracle == "" {
					res.Oracle = useOracle(g, Q, "ok", ref, extra, false)
				}
			}
		}
		res.Class = op
	default:
		panic("bad case line: " + line)
	}
	return
}

func isZero(b []byte) bool {
	for _, x := range b {
		if x != 0 {
			return false
		}
	}
	return true
}

/-
Request-level model: `handleQuery` (`dosnode/dos_query_handler.go`) as the
composition of the C07 content functions, the C13 collector and the recovery
stage `recoverSign` (`dosnode/dos_stages.go`), over ABSTRACT threshold-BLS
operations:

* `Crypto.recover c sigs`  = `tbls.Recover(suite, pubPoly, c, sigs, t, n)`
* `Crypto.verify c sig`    = `bls.Verify(suite, pubPoly.Commit(), c, sig) == nil`

Their contracts (C02 / C03, proved separately for `Model/Tbls`) enter the
theorems of `Props/C01.lean` as hypotheses.  The driver instantiates them
symbolically (`symCrypto`): the harness knows every key share, so each share
byte string is described by what it is (valid share of member i on content c,
the same with a trailing byte, junk, …).

`recoverStage` mirrors the goroutine of `recoverSign` statement by statement,
as it is since /repo cc9c5f7 (shares whose Content / Index differ from the first
share through the stage – the node's own – are skipped; on the pinned commit the
stage recovered and reported with the Content and Index of whichever message
completed the threshold: finding F18, corpus/C01) and /repo 7f58072 (a submitter
without an own share – its content stage failed – neither registers nor collects:
finding F19) and /repo 3a1c0bc (after its single report the stage keeps TAKING and
dropping what `queryLoop` sends until the query context ends: `stageStep` on a
stopped stage consumes the message and changes nothing; the blocking that the old
stage caused in `queryLoop` is `Collector.runB`, finding F20, C13).
-/
import DosModel.Model.Content
import DosModel.Model.Collector

namespace Dos.Query
open Dos Dos.Content

inductive RecOut where
  | ok (sig : Bytes)
  | err
  | panic
  deriving DecidableEq, Repr

structure Crypto where
  recover : Bytes → List Bytes → RecOut
  verify : Bytes → Bytes → Bool

/-- `vss.Signature` (Nonce is not used by the pipeline) -/
structure Msg where
  index : Nat
  rid : Bytes
  content : Option Bytes
  sig : Option Bytes
  deriving DecidableEq, Repr

/-- what `recoverSign` emits and `reportQueryResult` hands to the chain adaptor -/
structure Report where
  index : Nat
  rid : Bytes
  result : Bytes
  sig : Bytes
  deriving DecidableEq, Repr

inductive Stop where
  | reported       -- `return` after the single send on `out`
  | panicRecover   -- `tbls.Recover` panicked inside the stage goroutine: the process dies
  deriving DecidableEq, Repr

structure StageSt where
  shares : List Bytes             -- `signShares`
  own : Option (Nat × Bytes)      -- Index and Content of the first share through the stage
  out : List Report               -- sends on `out`
  stop : Option Stop
  deriving Repr

def StageSt.init : StageSt := { shares := [], own := none, out := [], stop := none }

/-- `sliceUniqMap` (first step of `tbls.Recover`) compacts the distinct entries to the front of
the backing array it shares with `recoverSign`'s `signShares`; the caller's slice keeps its
length, so its tail keeps the old entries. -/
def dedupAux (seen : List Bytes) : List Bytes → List Bytes
  | [] => []
  | x :: xs => if x ∈ seen then dedupAux seen xs else x :: dedupAux (x :: seen) xs

def dedup (l : List Bytes) : List Bytes := dedupAux [] l

def uniqCompact (l : List Bytes) : List Bytes := dedup l ++ l.drop (dedup l).length

/-- the guards at the top of the loop body: `nil` message / Signature / Content are skipped
("Detected nil pointer and skipped"); the first share through fixes `own`; a share whose Index or
Content differs from it is skipped.  Result: signature bytes, content, the (possibly new) `own`. -/
def accepts (st : StageSt) (m : Option Msg) : Option (Msg × Bytes × Bytes × (Nat × Bytes)) :=
  match m with
  | none => none
  | some m =>
    match m.sig, m.content with
    | some sg, some c =>
      let own := match st.own with
        | none => (m.index, c)
        | some o => o
      if m.index ≠ own.1 ∨ c ≠ own.2 then none else some (m, sg, c, own)
    | _, _ => none

inductive Verdict where
  | wait                 -- fewer than t shares collected
  | fail                 -- Recover error / Verify error / content shorter than an address: keep collecting
  | panic                -- Recover panicked
  | report (sig : Bytes)
  deriving DecidableEq, Repr

/-- `if len(signShares) >= nbThreshold { sig, err := tbls.Recover(…, sign.Content, signShares, …); …
bls.Verify(…, sign.Content, sig); … t := len(sign.Content) - addrLen; if t < 0 {…continue} … }` -/
def verdict (C : Crypto) (t addrLen : Nat) (c : Bytes) (shares : List Bytes) : Verdict :=
  if t ≤ shares.length then
    match C.recover c shares with
    | .panic => .panic
    | .err => .fail
    | .ok sig => if C.verify c sig then (if c.length < addrLen then .fail else .report sig) else .fail
  else .wait

/-- one iteration of the `for { select { case sign, ok := <-signc: … } }` loop of `recoverSign`;
`none` is a nil `*vss.Signature` (what `dispatchSign` forwards when `genSign` produced nothing). -/
def stageStep (C : Crypto) (t addrLen : Nat) (st : StageSt) (m : Option Msg) : StageSt :=
  match st.stop with
  | some _ => st                                   -- the goroutine has returned
  | none =>
    match accepts st m with
    | none => st
    | some (m, sg, c, own) =>
      -- signShares = append(signShares, sign.Signature)
      match verdict C t addrLen c (st.shares ++ [sg]) with
      | .wait => { st with own := some own, shares := st.shares ++ [sg] }
      | .fail => { st with own := some own, shares := uniqCompact (st.shares ++ [sg]) }
      | .panic => { st with own := some own, shares := uniqCompact (st.shares ++ [sg]), stop := some .panicRecover }
      | .report sig =>
        { shares := uniqCompact (st.shares ++ [sg]), own := some own,
          out := st.out ++ [{ index := m.index, rid := m.rid, result := c.take (c.length - addrLen), sig := sig }],
          stop := some .reported }

def recoverStage (C : Crypto) (t addrLen : Nat) (ms : List (Option Msg)) : StageSt :=
  ms.foldl (stageStep C t addrLen) StageSt.init

/-! ### the pipeline of one node -/

inductive Kind where
  | sys | user | url
  deriving DecidableEq, Repr

def Kind.ptype : Kind → Nat
  | .sys => 0 | .user => 1 | .url => 2

/-- the arguments of `handleQuery`; `parsed` is what `dataFetch`+`dataParse` gave this node
(`none` = error), an external function -/
structure Request where
  kind : Kind
  rid : Nat
  last : Nat
  seed : Nat
  parsed : Option Bytes
  deriving Repr

def Request.ridBytes (r : Request) : Bytes := natBytes r.rid

/-- the content stage selected by `pType` -/
def contentFor (padSize : Nat) (r : Request) (addr : Bytes) : Option Bytes :=
  match r.kind with
  | .sys => some (sysContent padSize r.last addr)
  | .user => some (userContent r.rid r.last r.seed addr)
  | .url => r.parsed.map (fun p => queryContent p addr)

structure Member where
  ids : List Bytes            -- the group's member list as announced on chain
  me : Bytes                  -- `p.GetID()`
  signOwn : Bytes → Bytes     -- `tbls.Sign(suite, sec, content)`

inductive NodeStop where
  | none
  | panicSubmitter            -- `choseSubmitter` on an empty member list (division by zero)
  | panicRecover
  deriving DecidableEq, Repr

structure NodeOut where
  sent : List (Bytes × Option Msg)   -- `p.Request(ctx, submitter, share)`
  registered : Bool                  -- a registration was handed to `queryLoop`
  reports : List Report              -- calls of `UpdateRandomness` / `DataReturn`
  stop : NodeStop
  deriving Repr

/-- `handleQuery`: `fromCollector` is what `queryLoop` sends on the reply channel registered by
`dispatchSign` (only the submitter registers). -/
def handleQuery (C : Crypto) (padSize addrLen : Nat) (mb : Member) (r : Request)
    (fromCollector : List (Option Msg)) : NodeOut :=
  match submitter mb.ids r.last with
  | none => { sent := [], registered := false, reports := [], stop := .panicSubmitter }
  | some sub =>
    let own : Option Msg := (contentFor padSize r sub).map (fun c =>
      { index := r.kind.ptype, rid := r.ridBytes, content := some c, sig := some (mb.signOwn c) })
    if mb.me ≠ sub then
      -- dispatchSign: send the share to the submitter, close the pipeline
      { sent := [(sub, own)], registered := false, reports := [], stop := .none }
    else
      match own with
      | none =>
        -- since /repo 7f58072: `case sign, ok := <-signc: if !ok || sign == nil { close(out); return }` –
        -- genSign produced nothing (fetch / selector error): no registration, the stage sees its input
        -- closed and returns, nothing is collected, nothing is reported
        { sent := [], registered := false, reports := [], stop := .none }
      | some o =>
        -- dispatchSign: own share first, then register; recoverSign; reportQueryResult reads ONE value
        let st := recoverStage C (threshold mb.ids.length) addrLen (some o :: fromCollector)
        { sent := [], registered := true, reports := st.out.take 1,
          stop := if st.stop = some .panicRecover then .panicRecover else .none }

/-- `handleQuery` as it was BEFORE /repo 7f58072 (finding F19, corpus/C01/f19_own_nil.txt): a nil own
share was forwarded to the stage, which skipped it, and the node registered all the same – the first
PEER share through then fixed `own`.  Kept only for the negation witness in `Props/C01.lean`. -/
def handleQueryOld (C : Crypto) (padSize addrLen : Nat) (mb : Member) (r : Request)
    (fromCollector : List (Option Msg)) : NodeOut :=
  match submitter mb.ids r.last with
  | none => { sent := [], registered := false, reports := [], stop := .panicSubmitter }
  | some sub =>
    let own : Option Msg := (contentFor padSize r sub).map (fun c =>
      { index := r.kind.ptype, rid := r.ridBytes, content := some c, sig := some (mb.signOwn c) })
    if mb.me ≠ sub then
      { sent := [(sub, own)], registered := false, reports := [], stop := .none }
    else
      let st := recoverStage C (threshold mb.ids.length) addrLen (own :: fromCollector)
      { sent := [], registered := true, reports := st.out.take 1,
        stop := if st.stop = some .panicRecover then .panicRecover else .none }

/-! ### from the chain event to the pipeline (`onchainLoop`, dosnode/dos_chain_handler.go) -/

/-- the three events that start a query pipeline (onchain/eventMsg.go); numbers are the `*big.Int`
fields; for `LogUrl` the pair (DataSource, Selector) is represented by what fetching and parsing
gives this node (external). -/
inductive Event where
  | updateRandom (lastRandomness dispatchedGroupId : Nat)
  | requestUserRandom (requestId lastSystemRandomness userSeed dispatchedGroupId : Nat)
  | url (queryId : Nat) (parsed : Option Bytes) (randomness dispatchedGroupId : Nat)

def Event.gid : Event → Nat
  | .updateRandom _ g => g
  | .requestUserRandom _ _ _ g => g
  | .url _ _ _ g => g

/-- the arguments `onchainLoop` passes to `handleQuery`:
`LogUpdateRandom`      → (requestID, lastRand, useSeed, pType) = (LastRandomness, LastRandomness, nil, TrafficSystemRandom);
`LogRequestUserRandom` → (RequestId, LastSystemRandomness, UserSeed, TrafficUserRandom);
`LogUrl`               → (QueryId, Randomness, nil, TrafficUserQuery) with url/selector = DataSource/Selector. -/
def requestOf : Event → Request
  | .updateRandom last _ => { kind := .sys, rid := last, last := last, seed := 0, parsed := none }
  | .requestUserRandom q last seed _ => { kind := .user, rid := q, last := last, seed := seed, parsed := none }
  | .url q parsed rand _ => { kind := .url, rid := q, last := rand, seed := 0, parsed := parsed }

/-- the node's group table (`d.dkg`, keyed by the hex text of the group id, i.e. by the number):
member list, own signing function, and the group's threshold-BLS context -/
structure GroupEntry where
  ids : List Bytes
  signOwn : Bytes → Bytes
  C : Crypto

/-- one event at one node: `isMember(groupID)` (a share for the DISPATCHED group is held), then
`groupInfo(groupID)` of that same group, then `handleQuery`.  `none` = the event is ignored. -/
def onEvent (padSize addrLen : Nat) (me : Bytes) (groups : Nat → Option GroupEntry) (ev : Event)
    (fromCollector : List (Option Msg)) : Option NodeOut :=
  match groups ev.gid with
  | none => none
  | some g =>
    if g.ids.length = 0 then none   -- groupInfo: "No Group info"
    else some (handleQuery g.C padSize addrLen { ids := g.ids, me := me, signOwn := g.signOwn } (requestOf ev) fromCollector)

/-- the node with its collector: the messages that reach the stage are the collector's
deliveries to instance `h` (`msgOf` maps the harness tag of a share to the message). -/
def nodeRun (C : Crypto) (padSize addrLen : Nat) (mb : Member) (r : Request)
    (msgOf : Nat → Option Msg) (es : List Collector.Ev) (h : Nat) : NodeOut :=
  handleQuery C padSize addrLen mb r ((Collector.deliveries es h).map (fun s => msgOf s.tag))

/-! ### symbolic threshold BLS for the driver

Share byte strings are tokens: `[1,i,c]` valid share of member `i` on content number `c`;
`[2,i,c]` the same share with one trailing byte (decodes to the same point); `[3,i]` index `i`
followed by junk; `[4,i,c]` share of a foreign group's member; `[5,v,s]` member `s`'s share relabelled
with index `v`; `[]`, `[x]` too short for an index;
`[9,c]` the group signature on content `c`.  `contents` is the table of content byte strings. -/

def contentIdx (contents : List Bytes) (c : Bytes) : Option Nat :=
  let rec go : List Bytes → Nat → Option Nat
    | [], _ => none
    | x :: xs, k => if x = c then some k else go xs (k + 1)
  go contents 0

/-- member index of an entry that verifies as a share on `c`, as `tbls.Recover` decides it -/
def symValid (contents : List Bytes) (c : Bytes) (sg : Bytes) : Option Nat :=
  match sg with
  | [k, i, cs] =>
    if (k = 1 ∨ k = 2) ∧ contents[cs.toNat]? = some c then some i.toNat else none
  | _ => none

/-- the 2-byte index of an entry, `none` = shorter than 2 bytes -/
def symIndex : Bytes → Option Nat
  | [] => none
  | [_] => none
  | _ :: i :: _ => some i.toNat

/-- `tbls.Recover` as it is since /repo 4404707, 3dee076, f036cda: exact duplicates removed, entries
without index skipped, one share per index, indices ≥ n skipped, unverifiable skipped, stop at t -/
def symRecover (contents : List Bytes) (t n : Nat) (c : Bytes) (sigs : List Bytes) : RecOut :=
  let rec go : List Bytes → List Nat → List Nat
    | [], seen => seen
    | sg :: rest, seen =>
      if seen.length ≥ t then seen else
      match symIndex sg with
      | none => go rest seen
      | some i =>
        if i ∈ seen ∨ i ≥ n then go rest seen
        else match symValid contents c sg with
          | some _ => go rest (i :: seen)
          | none => go rest seen
  let acc := go (dedup sigs) []
  if acc.length < t then .err
  else match contentIdx contents c with
    | some k => .ok [9, UInt8.ofNat k]
    | none => .err

def symVerify (contents : List Bytes) (c : Bytes) (sig : Bytes) : Bool :=
  match sig with
  | [9, k] => contents[k.toNat]? == some c
  | _ => false

def symCrypto (contents : List Bytes) (t n : Nat) : Crypto :=
  { recover := symRecover contents t n, verify := symVerify contents }

/-! ### line protocol (driver) -/

structure Item where
  to : Option Nat          -- `none` = the submitter
  kind : Char              -- 'S' | 'h' | 'm'
  j : Nat
  ridOK : Bool
  content : Option Nat
  sig : Option Bytes
  typ : Option Nat
  deriving Repr

def parseSigTok (s : String) : Option (Option Bytes) :=
  let num (x : String) : Option UInt8 := x.toNat?.map UInt8.ofNat
  match s.toList with
  | ['N'] => some none
  | ['E'] => some (some [])
  | ['S', '1'] => some (some [1])
  | 'J' :: r => (num (String.ofList r)).map (fun i => some [3, i])
  | 'G' :: r => (num (String.ofList r)).map (fun i => some [4, i, 255])
  | 'R' :: r =>
    match (String.ofList r).splitOn "." with
    | [a, b] => do
      let v ← num a
      let src ← num b
      pure (some [5, v, src])
    | _ => none
  -- `P<x>.<r>`: the bytes that were member x's valid share on the content of request r of the history –
  -- for THIS request an entry with index x that does not verify
  | 'P' :: r =>
    match (String.ofList r).splitOn "." with
    | [a, b] => do
      let x ← num a
      let q ← num b
      pure (some [6, x, q])
    | _ => none
  | k :: r =>
    if k = 'V' ∨ k = 'T' then
      match (String.ofList r).splitOn "." with
      | [a, b] => do
        let i ← num a
        let c ← num b
        pure (some [if k = 'V' then 1 else 2, i, c])
      | _ => none
    else none
  | [] => none

def parseItem (s : String) : Option Item :=
  let (to, body) : Option Nat × String :=
    match s.toList with
    | 'x' :: r =>
      match (String.ofList r).splitOn ":" with
      | [k, b] => (k.toNat?, b)
      | _ => (none, s)
    | _ => (none, s)
  match body.toList with
  | ['S'] => some { to := to, kind := 'S', j := 0, ridOK := true, content := none, sig := none, typ := none }
  | 'h' :: r => (String.ofList r).toNat?.map (fun j =>
      { to := to, kind := 'h', j := j, ridOK := true, content := some 0, sig := none, typ := none })
  | 'm' :: r =>
    let (b, typ) : String × Option Nat :=
      match (String.ofList r).splitOn "~" with
      | [b, t] => (b, t.toNat?)
      | _ => (String.ofList r, none)
    match b.splitOn "." with
    | ridf :: cs :: rest =>
      match parseSigTok (String.intercalate "." rest) with
      | some sg => some { to := to, kind := 'm', j := 0, ridOK := ridf == "1",
                          content := if cs == "n" then none else cs.toNat?, sig := sg, typ := typ }
      | none => none
    | _ => none
  | _ => none

def showReport (kindTag : String) (r : Report) : String :=
  let cls := match r.sig with
    | [9, k] => s!"g{k.toNat}"
    | _ => "?"
  s!"{kindTag}/{toHex r.rid}/{r.index}/{toHex r.result}/{cls}"

def parseKind : String → Option Kind
  | "sys" => some .sys | "user" => some .user | "url" => some .url | _ => none

def hexList (s : String) : Option (List Bytes) :=
  if s == "-" then some [] else (s.splitOn ";").mapM ofHex

/-- the whole case: n members, the honest ones run `handleQuery`; the submitter's collector
sees the scheduled arrivals and the registration -/
def runCase (padSize addrLen : Nat) (kind : Kind) (n : Nat) (ids : List Bytes) (byz : List Nat)
    (last rid useed : Nat) (parsed : Option Bytes) (fails : List Nat) (alts : List Bytes) (sched : List Item) : String :=
  let t := threshold n
  let rid := if kind = .sys then last else rid      -- onchainLoop passes LastRandomness as the id
  let req : Request := { kind := kind, rid := rid, last := last, seed := useed, parsed := parsed }
  -- `handleQuery`'s arguments are the same at every member; what the fetch gives is per member
  -- (`fails` = the members whose `dataFetch` / `dataParse` fails while the others succeed)
  let reqOf (i : Nat) : Request := if fails.contains i then { req with parsed := none } else req
  match submitterIdx last n, submitter ids last with
  | some subI, some sub =>
    let c0 := contentFor padSize req sub
    let contents : List Bytes := (c0.getD []) :: alts
    let C := symCrypto contents t n
    let ridB := req.ridBytes
    let honestMsg (j : Nat) : Option Msg := (contentFor padSize (reqOf j) sub).map (fun c =>
      { index := kind.ptype, rid := ridB, content := some c, sig := some [1, UInt8.ofNat j, 0] })
    let msgOfItem (it : Item) : Option Msg :=
      if it.kind = 'h' then honestMsg it.j
      else some { index := it.typ.getD kind.ptype,
                  rid := if it.ridOK then ridB else (0xee : UInt8) :: ridB,
                  content := it.content.bind (fun k => contents[k]?),
                  sig := match it.sig with
                    | some [4, i, _] => some [4, i, UInt8.ofNat (it.content.getD 0)]
                    | s => s }
    -- collector events at the submitter, tags = positions in the schedule
    let indexed := (List.range sched.length).zip sched
    let started := sched.any (fun it => it.kind = 'S' ∧ it.to.isNone)
    let evs : List Collector.Ev := indexed.filterMap (fun (p : Nat × Item) =>
      let it := p.2
      if it.to.isSome then none
      else if it.kind = 'S' then some (.register 0 ridB)
      else if it.kind = 'h' ∧ (honestMsg it.j).isNone then none
      else (msgOfItem it).map (fun m => .arrive { rid := m.rid, tag := p.1 }))
    let msgOf (tag : Nat) : Option Msg := (sched[tag]?).bind msgOfItem
    let kindTag := if kind = .sys then "rand" else "data"
    let subTag := toString subI ++ (if byz.contains subI then "b" else "")
    let parts := (List.range n).filterMap (fun i =>
      if byz.contains i then none
      else
        let signOwn : Bytes → Bytes := fun c =>
          match contentIdx contents c with
          | some k => [1, UInt8.ofNat i, UInt8.ofNat k]
          | none => []
        let mb : Member := { ids := ids, me := ids.getD i [], signOwn := signOwn }
        let out := if i = subI ∧ started then nodeRun C padSize addrLen mb (reqOf i) msgOf evs 0
                   else handleQuery C padSize addrLen mb (reqOf i) []
        let out := if i = subI ∧ ¬ started then { out with reports := [] } else out
        some (match out.stop, out.reports with
          | .panicRecover, _ => s!"{i}=panic"
          | _, [] => s!"{i}=-"
          | _, r :: _ => s!"{i}=" ++ showReport kindTag r))
    "sub=" ++ subTag ++ " " ++ String.intercalate " " parts
  | _, _ => "panic submitter"

/-- `ev` case line: a chain event delivered to n honest nodes that all hold the group `gid` -/
def evLine (padSize addrLen : Nat) (ws : List String) : String :=
  match ws with
  | [kind, n, _seed, ids, gid, evgid, last, rid, useed, _doc, _sel, parsed, _dup] =>
    match parseKind kind, n.toNat?, hexList ids, gid.toNat?, evgid.toNat?, last.toNat?, rid.toNat?, useed.toNat? with
    | some kind, some n, some ids, some gid, some evgid, some last, some rid, some useed =>
      let parsedV : Option Bytes := if parsed == "err" then none else ofHex parsed
      let ev : Event := match kind with
        | .sys => .updateRandom last evgid
        | .user => .requestUserRandom rid last useed evgid
        | .url => .url rid parsedV last evgid
      let req := requestOf ev
      -- every node's table holds the group under `gid` only (plus a decoy group under another id)
      let member := ev.gid = gid
      let sched : List Item := { to := none, kind := 'S', j := 0, ridOK := true, content := none, sig := none, typ := none } ::
        (List.range n).map (fun j => { to := none, kind := 'h', j := j, ridOK := true, content := some 0, sig := none, typ := none })
      match submitterIdx req.last n with
      | none => "panic submitter"
      | some subI =>
        if member then
          runCase padSize addrLen req.kind n ids [] req.last req.rid req.seed req.parsed [] []
            (sched.filter (fun it => it.kind = 'S' ∨ it.j ≠ subI))
        else
          "sub=" ++ toString subI ++ " " ++ String.intercalate " " ((List.range n).map (fun i => s!"{i}=-"))
    | _, _, _, _, _, _, _, _ => "bad-op"
  | _ => "bad-op"

/-- one request of a `hist` line: `kind/last/rid/useed/sched` -/
def histRequest (padSize addrLen n : Nat) (ids : List Bytes) (byz : List Nat) (w : String) : String :=
  match w.splitOn "/" with
  | [kind, last, rid, useed, sched] =>
    let items : Option (List Item) := if sched == "-" then some [] else (sched.splitOn ",").mapM parseItem
    match parseKind kind, last.toNat?, rid.toNat?, useed.toNat?, items with
    | some kind, some last, some rid, some useed, some its =>
      runCase padSize addrLen kind n ids byz last rid useed none [] [] its
    | _, _, _, _, _ => "bad-op"
  | _ => "bad-op"

/-- a history: the same nodes serve the requests one after the other.  The model carries NOTHING from one
request to the next (`Props.C01.requests_independent`): every request is `runCase` on its own. -/
def histLine (padSize addrLen : Nat) (ws : List String) : String :=
  match ws with
  | n :: _seed :: ids :: byz :: reqs =>
    match n.toNat?, hexList ids, csvNat byz with
    | some n, some ids, some byz => String.intercalate " | " (reqs.map (histRequest padSize addrLen n ids byz))
    | _, _, _ => "bad-op"
  | _ => "bad-op"

/-! ### `inc` lines (C13 harness): incarnations of one request id, collector + the real stage

Every instance is a pipeline with an OWN share on a content class (fed to its stage before it registers,
as `dispatchSign` does) in a 2-of-2 group; an arrival is the peer's valid share for a request id on a
content class.  `r<h>.<j>.<c>` registers instance `h` for id `j` with own content class `c`,
`a<j>.<c>` an arrival, `c<h>` the cancellation, `x` a foreign message.  The collector routes by id only
(`Collector.step`); the stage counts a share only if its content is its own (`accepts`, F18 guard): a
share of an earlier incarnation of the id reaches the later one and is skipped unless it is a share on
the later one's content.  Output: the content class each instance reported, or `-`. -/
def incContent (k : Nat) : Bytes := UInt8.ofNat k :: List.replicate 20 0xad

def incLine (ws : List String) : String :=
  match ws with
  | [rs, evs] =>
    match (rs.splitOn ";").mapM ofHex with
    | none => "bad-op"
    | some rids =>
      let toks := if evs == "-" then [] else evs.splitOn ","
      -- (collector event, content class of an arrival / own class of a registration)
      let parsed : Option (List (Collector.Ev × Nat)) := ((List.range toks.length).zip toks).mapM (fun (p : Nat × String) =>
        match p.2.toList with
        | 'a' :: rest =>
          match (String.ofList rest).splitOn "." with
          | [j, c] => do
            let j ← j.toNat?
            let c ← c.toNat?
            let r ← rids[j]?
            pure (Collector.Ev.arrive { rid := r, tag := p.1 }, c)
          | _ => none
        | 'r' :: rest =>
          match (String.ofList rest).splitOn "." with
          | [h, j, c] => do
            let h ← h.toNat?
            let j ← j.toNat?
            let c ← c.toNat?
            let r ← rids[j]?
            pure (Collector.Ev.register h r, c)
          | _ => none
        | 'c' :: rest => (String.ofList rest).toNat?.map (fun h => (Collector.Ev.cancel h, 0))
        | ['x'] => some (Collector.Ev.other, 0)
        | _ => none)
      match parsed with
      | none => "bad-op"
      | some pes =>
        let es := pes.map (·.1)
        let contents : List Bytes := (List.range 4).map incContent
        let C := symCrypto contents 2 2
        let hs := Collector.instancesOf es
        if hs.isEmpty then "none" else
        String.intercalate ";" (hs.map (fun h =>
          -- the first registration of h: its request id and own content class
          let first := pes.find? (fun pe => match pe.1 with | .register h' _ => h' == h | _ => false)
          match first with
          | some (.register _ r, c) =>
            let own : Msg := { index := 0, rid := r, content := some (incContent c), sig := some [1, 0, UInt8.ofNat c] }
            let msgs : List (Option Msg) := (Collector.deliveries es h).map (fun sh =>
              (pes[sh.tag]?).map (fun pe =>
                { index := 0, rid := sh.rid, content := some (incContent pe.2), sig := some [1, 1, UInt8.ofNat pe.2] }))
            let st := recoverStage C 2 20 (some own :: msgs)
            match st.out with
            | rep :: _ => match rep.sig with
              | [9, k] => s!"h{h}=c{k.toNat}"
              | _ => s!"h{h}=?"
            | [] => s!"h{h}=-"
          | _ => s!"h{h}=-"))
  | _ => "bad-op"

def stepLine (padSize addrLen : Nat) (line : String) : String :=
  match words line with
  | "ev" :: rest => evLine padSize addrLen rest
  | "hist" :: rest => histLine padSize addrLen rest
  | ["q", kind, n, _seed, ids, byz, last, rid, useed, _doc, _sel, parsed, alts, sched] =>
    match parseKind kind, n.toNat?, hexList ids, csvNat byz, last.toNat?, rid.toNat?, useed.toNat?, hexList alts with
    | some kind, some n, some ids, some byz, some last, some rid, some useed, some alts =>
      -- `<hex|err>[!i,j,…]`: what the fetch gives, and the members at which it fails all the same
      let (parsed, failTok) : String × String := match parsed.splitOn "!" with
        | [p, f] => (p, f)
        | _ => (parsed, "-")
      let parsedV : Option (Option Bytes) :=
        if parsed == "err" then some none else (ofHex parsed).map some
      let items : Option (List Item) := if sched == "-" then some [] else (sched.splitOn ",").mapM parseItem
      match parsedV, csvNat failTok, items with
      | some p, some fails, some its => runCase padSize addrLen kind n ids byz last rid useed p fails alts its
      | _, _, _ => "bad-op"
    | _, _, _, _, _, _, _, _ => "bad-op"
  | _ => "bad-op"

end Dos.Query

/-
C10 layer 1 — helpers for the kernel-evaluated constant theorems: a square-and-multiply power in the
Montgomery gfP2 (the transcribed `Fp2.mul`), and ξ = i + 9 in Montgomery form.
-/
import DosModel.Model.Bn256CPairing

namespace Dos.Bn256

/-- ξ = i + 9 as the code represents it -/
def xiM : F2 := ⟨GFp.newGFp 1, GFp.newGFp 9⟩

/-- a^k by the left-to-right binary method with the transcribed gfP2.Mul -/
def Fp2.powNat (a : F2) (k : Nat) : F2 :=
  (List.range (Fp12.bitLen k)).reverse.foldl
    (fun acc i => let t := acc.mul acc; if k.testBit i then t.mul a else t) Fp2.one

/-- embedding of gfP into gfP2 -/
def Fp2.ofGFp (c : GFp) : F2 := ⟨0, c⟩

end Dos.Bn256

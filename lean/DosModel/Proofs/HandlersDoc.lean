/-
C12 — lemmas about the nesting-depth guard of `dataParse` (Model/HandlersDoc.lean). Core Lean only.
-/
import DosModel.Model.HandlersDoc

namespace Dos.Handlers
open Dos

theorem docGuard_total (deep : Bool) : (docGuard Cfg.all deep).isPanic = false := by
  cases deep <;> rfl

/-- evaluation is reached only below the bound -/
theorem docGuard_eval (deep : Bool) (h : docGuard Cfg.all deep = .ok "eval") : deep = false := by
  cases deep
  · rfl
  · exact absurd h (by decide)

/-- `k` opening brackets in a row outside a string raise the depth by `k`, whatever follows: as soon as that
passes `max` the scanner answers "too deep" — nothing behind them can take the answer back -/
theorem jsonScan_open (max : Nat) (rest : Bytes) :
    ∀ (k : Nat) (s : ScanSt), s.inString = false → s.depth ≤ max → s.depth + k > max →
      jsonScan max s (List.replicate k 0x5b ++ rest) = true := by
  intro k
  induction k with
  | zero => intro s _ h1 h2; omega
  | succ k ih =>
    intro s hs h1 h2
    obtain ⟨d, i, e⟩ := s
    simp only at hs h1 h2
    subst hs
    rw [List.replicate_succ, List.cons_append, jsonScan]
    by_cases h : d + 1 > max
    · simp [h]
    · simp [h]
      exact ih ⟨d + 1, false, e⟩ rfl (by simp; omega) (by simp; omega)

/-- from the start of a document -/
theorem jsonDepthExceeds_nested (max k : Nat) (rest : Bytes) (h : k > max) :
    jsonDepthExceeds max (List.replicate k 0x5b ++ rest) = true :=
  jsonScan_open max rest k {} rfl (Nat.zero_le _) (by simpa using h)

/-- a chain of d elements has height d -/
theorem chain_height : ∀ d, (XTree.chain d).height = d
  | 0 => by simp [XTree.chain, XTree.height, XTree.heightList]
  | d + 1 => by
    simp [XTree.chain, XTree.height, XTree.heightList, chain_height d]

end Dos.Handlers

// Package c04: honest key generation agrees on one key under every delivery schedule.
//
// Level 1 (protocol state machine): real DistKeyGenerators of n honest members driven by a
// schedule of library-level deliveries.
//
//	lib <seed> <n> <ev,ev,...>
//	    ev = d<j>.<i>        deliver dealer j's deal to member i            (ProcessDeal)
//	         r<k>.<j>.<i>    deliver member k's response about dealer j to i (ProcessResponse);
//	                         "na" when k has not produced that response yet
//	    every delivery hands the recipient its own copy of the message (as the wire does);
//	    re-deliveries are just repeated events.
//
// Output: "ev=<result per event> fin=<0|1 per member> why=<kind per member> keys=<class per member>".
package c04

import (
	"context"
	"fmt"
	"math/big"
	"os"
	"strconv"
	"strings"
	"sync"
	"time"

	dkg "github.com/DOSNetwork/core/share/dkg/pedersen"
	"github.com/dedis/kyber"

	"verifharness/internal/dkgnet"
	"verifharness/internal/h"
)

func init() {
	h.Register(&h.Prop{
		ID:         "C04",
		Rule:       "lib: n honest DistKeyGenerators, schedule of ProcessDeal/ProcessResponse deliveries: for n=3 every permutation of the 6 messages a recipient gets (2 deals + 4 responses), for each of the 3 recipients (all 2160 in thorough - this is the exhaustive part -, sampled in quick; deliveries to different recipients commute, so per-recipient orders are the quotient), plus random global schedules n<=7 with re-deliveries and not-yet-produced messages; mem: the real session layer and stages (dkgnet.Sim), for n=3 every order of the 7 events of a recipient (start, 2 keys, 2 deals, 2 Responses messages), for each of the 3 recipients (all 3 x 5040 in a thorough run - exhaustive too; they are split by parity over the two seeds of the run -, 1/120 in quick), plus random global schedules n<=7; net: the real NewPDKG/Loop/Grouping over the in-memory network with drop/loseack/delay policies and start skews (6 scenarios in quick, 11 in thorough: a SAMPLE, never exhaustive); `exhaustive` in the evidence of a thorough run refers to the two per-recipient order spaces of lib and mem only; non-trivial = not the canonical deals-then-responses order; distinct = distinct case line",
		Gen:        gen,
		Exec:       exec,
		Exhaustive: func(tier string) bool { return tier == "thorough" },
	})
}

func exec(line string) h.Result {
	w := strings.Fields(line)
	switch w[0] {
	case "lib":
		return execLib(w)
	case "net":
		return execNet(w)
	case "mem":
		return execMem(w)
	}
	panic("bad case line")
}

func execLib(w []string) (res h.Result) {
	seed, n := h.BigDec(w[1]).Uint64(), h.Atoi(w[2])
	t := n/2 + 1
	r := h.NewRng(seed)
	g := dkgnet.NewGroup(r, n, t, nil)
	// responses produced so far: resp[k][j]
	resp := make([]map[int]*dkg.Response, n)
	for k := range resp {
		resp[k] = map[int]*dkg.Response{}
	}
	var evres []string
	canonical := true
	seenResp := false
	if w[3] != "-" {
		for _, ev := range strings.Split(w[3], ",") {
			p := strings.Split(ev[1:], ".")
			switch ev[0] {
			case 'd':
				j, i := h.Atoi(p[0]), h.Atoi(p[1])
				if seenResp {
					canonical = false
				}
				rr, err := g.Gens[i].ProcessDeal(dkgnet.CloneDeal(g.Deals[j][i]))
				if err != nil {
					evres = append(evres, dkgnet.DkgErrKind(err))
					canonical = false
				} else {
					if rr.Response.Status {
						evres = append(evres, "a")
					} else {
						evres = append(evres, "c")
					}
					resp[i][j] = rr
				}
			case 'r':
				k, j, i := h.Atoi(p[0]), h.Atoi(p[1]), h.Atoi(p[2])
				seenResp = true
				m, ok := resp[k][j]
				if !ok {
					evres = append(evres, "na")
					canonical = false
					continue
				}
				_, err := g.Gens[i].ProcessResponse(dkgnet.CloneResp(m))
				if err != nil {
					kind := dkgnet.DkgErrKind(err)
					if kind == "sig" {
						kind = "respsig"
					}
					evres = append(evres, kind)
					canonical = false
				} else {
					evres = append(evres, "ok")
				}
			default:
				panic("bad event " + ev)
			}
		}
	}
	outs := make([]dkgnet.Outcome, n)
	var fin, why []string
	members := make([]int, n)
	nfin := 0
	for k := 0; k < n; k++ {
		members[k] = k
		outs[k] = dkgnet.Finish(g.Gens[k])
		if outs[k].Finished {
			fin = append(fin, "1")
			why = append(why, "-")
			nfin++
		} else {
			fin = append(fin, "0")
			why = append(why, outs[k].ErrKind)
		}
	}
	res.Impl = fmt.Sprintf("ev=%s fin=%s why=%s keys=%s", strings.Join(evres, ","), strings.Join(fin, ""), strings.Join(why, ","), dkgnet.KeyClasses(outs))
	res.Class = fmt.Sprintf("lib-n%d-fin%d", n, nfin)
	res.Nontrivial = !canonical
	// the property on the joint outcome
	var coeffs [][]*big.Int
	sum := new(big.Int)
	for k := 0; k < n; k++ {
		coeffs = append(coeffs, g.Coeffs(k))
		sum.Add(sum, g.Secrets[k])
		if coeffs[k][0].Cmp(g.Secrets[k]) != 0 {
			res.Oracle = "dealer-secret: the constant coefficient is not the secret handed to the generator"
			return
		}
	}
	var want []kyber.Point = dkgnet.SumCommits(coeffs)
	res.Oracle = dkgnet.JointOracle(members, outs, t, sum, want, r)
	if res.Oracle == "" && nfin > 0 {
		for k, o := range outs {
			if !o.Finished {
				continue
			}
			var ws *big.Int = new(big.Int)
			for j := 0; j < n; j++ {
				ws.Add(ws, dkgnet.Eval(coeffs[j], int64(k)+1))
			}
			ws.Mod(ws, dkgnet.Order)
			if dkgnet.Big(o.Share.Share.V).Cmp(ws) != 0 {
				res.Oracle = fmt.Sprintf("share-not-sum: member %d's share is not the sum of the dealers' polynomials at its index", k)
			}
		}
	}
	return
}

// netRun: the network double and the n pdkg instances of a `net` case with their Loops running since t0.
type netRun struct {
	ids [][]byte
	nw  *dkgnet.Net
	pd  []dkg.PDKGInterface
	t0  time.Time
}

var (
	warmMu sync.Mutex
	warm   = map[string]*netRun{}
)

func startNetRun(seed uint64, n int) *netRun {
	dkgnet.InitLog()
	dkgnet.Quiet()
	nr := &netRun{}
	for k := 0; k < n; k++ {
		nr.ids = append(nr.ids, []byte(fmt.Sprintf("member-%02d-%016x", k, seed)))
	}
	nr.nw = dkgnet.NewNet(nr.ids)
	nr.pd = make([]dkg.PDKGInterface, n)
	for k := 0; k < n; k++ {
		nr.pd[k] = dkg.NewPDKG(nr.nw.Node(k, nr.ids), dkgnet.Suite)
		go nr.pd[k].Loop()
	}
	nr.t0 = time.Now()
	return nr
}

// prewarmNet starts the Loops of a `net` case NOW, although the case is executed later: pdkg.Loop's watchdog is a
// free-running one-minute ticker created inside Loop (no hook can reach it), so a case in which a tick falls between
// the arrival of the peers' messages and the local Grouping call needs Loops that are a minute old. The generator
// pre-warms such a case when it starts and emits it last; the other cases run in the meantime. A replay of the line
// on its own (`corr exec`, --replay) finds nothing pre-warmed and simply waits out the skews.
func prewarmNet(line string) {
	w := strings.Fields(line)
	nr := startNetRun(h.BigDec(w[1]).Uint64(), h.Atoi(w[2]))
	warmMu.Lock()
	warm[strings.Join(w, " ")] = nr
	warmMu.Unlock()
}

// Level 2: real pdkg (Loop + Grouping pipeline) of n members over the in-memory network double.
//
//	net <seed> <n> <timeoutMs> <ackMs> <skewMs,...> <rule;rule;...|->
//	    rule = <from|*>><to|*>:<pk|deal|resp|*>:<attempt|*>=<drop|loseack|delay<ms>>
//	    (first matching rule wins; no rule = delivered at once). Every policy used here lets every
//	    message through eventually (senders retry), so every member must finish.
func execNet(w []string) (res h.Result) {
	dkgnet.InitLog()
	dkgnet.Quiet()
	seed, n := h.BigDec(w[1]).Uint64(), h.Atoi(w[2])
	timeout, ack := time.Duration(h.Atoi(w[3]))*time.Millisecond, time.Duration(h.Atoi(w[4]))*time.Millisecond
	var skews []int
	for _, x := range strings.Split(w[5], ",") {
		skews = append(skews, h.Atoi(x))
	}
	type rule struct {
		from, to, attempt int
		kind              string
		act               dkgnet.Action
	}
	var rules []rule
	if w[6] != "-" {
		for _, rs := range strings.Split(w[6], ";") {
			lr := strings.SplitN(rs, "=", 2)
			f := strings.Split(lr[0], ":")
			ft := strings.Split(f[0], ">")
			num := func(x string) int {
				if x == "*" {
					return -1
				}
				return h.Atoi(x)
			}
			r := rule{from: num(ft[0]), to: num(ft[1]), kind: f[1], attempt: num(f[2])}
			switch {
			case lr[1] == "drop":
				r.act.Drop = true
			case lr[1] == "loseack":
				r.act.LoseAck = true
			case strings.HasPrefix(lr[1], "delay"):
				r.act.Delay = time.Duration(h.Atoi(lr[1][5:])) * time.Millisecond
			default:
				panic("bad action " + lr[1])
			}
			rules = append(rules, r)
		}
	}
	// the Loops of a pre-warmed case (see prewarmNet) have been running since the generator started
	key := strings.Join(w, " ")
	warmMu.Lock()
	nr := warm[key]
	delete(warm, key)
	warmMu.Unlock()
	// a pre-warmed run is only usable while the first Grouping call of the case still lies ahead (a long generator run,
	// e.g. the thorough tier, reaches the case after its schedule has passed): otherwise start afresh and wait
	minSkew := 0
	for k, x := range skews {
		if k == 0 || x < minSkew {
			minSkew = x
		}
	}
	if nr != nil && time.Since(nr.t0) > time.Duration(minSkew)*time.Millisecond-300*time.Millisecond {
		nr = nil
	}
	if nr == nil {
		nr = startNetRun(seed, n)
	}
	ids, nw, pd, t0 := nr.ids, nr.nw, nr.pd, nr.t0
	nw.AckWait = ack
	nw.Policy = func(from, to int, kind string, attempt int) dkgnet.Action {
		for _, r := range rules {
			if (r.from < 0 || r.from == from) && (r.to < 0 || r.to == to) && (r.kind == "*" || r.kind == kind) && (r.attempt < 0 || r.attempt == attempt) {
				return r.act
			}
		}
		return dkgnet.Action{}
	}
	ctx, cancel := context.WithDeadline(context.Background(), t0.Add(timeout))
	defer cancel()
	sid := fmt.Sprintf("%x", seed|1)
	type result struct {
		k   int
		ok  bool
		err string
	}
	resc := make(chan result, n)
	for k := 0; k < n; k++ {
		go func(k int) {
			sk := 0
			if k < len(skews) {
				sk = skews[k]
			}
			select {
			case <-time.After(time.Until(t0.Add(time.Duration(sk) * time.Millisecond))): // skews count from the start of the Loops
			case <-ctx.Done():
				resc <- result{k, false, "timeout-before-start"}
				return
			}
			outc, errc, err := pd[k].Grouping(ctx, sid, ids)
			if err != nil {
				resc <- result{k, false, "grouping:" + h.OneLine(err.Error())}
				return
			}
			var firstErr string
			for outc != nil || errc != nil {
				select {
				case o, ok := <-outc:
					if !ok {
						outc = nil
						continue
					}
					_ = o
					resc <- result{k, true, ""}
					return
				case e, ok := <-errc:
					if !ok {
						errc = nil
						continue
					}
					if firstErr == "" && e != nil {
						firstErr = h.OneLine(e.Error())
					}
				case <-ctx.Done():
					resc <- result{k, false, "timeout " + firstErr}
					return
				}
			}
			resc <- result{k, false, "closed " + firstErr}
		}(k)
	}
	okv := make([]bool, n)
	errs := make([]string, n)
	for c := 0; c < n; c++ {
		r := <-resc
		okv[r.k], errs[r.k] = r.ok, r.err
	}
	cancel()
	// joint outcome
	outs := make([]dkgnet.Outcome, n)
	members := make([]int, n)
	fin := ""
	nfin := 0
	for k := 0; k < n; k++ {
		members[k] = k
		pp, sh := pd[k].GetGroupPublicPoly(sid), pd[k].GetShareSecurity(sid)
		if okv[k] && pp != nil && sh != nil {
			_, commits := pp.Info()
			outs[k] = dkgnet.Outcome{Finished: true, Share: &dkg.DistKeyShare{Commits: commits, Share: sh}}
			fin += "1"
			nfin++
		} else {
			fin += "0"
		}
	}
	res.Impl = fmt.Sprintf("fin=%s keys=%s", fin, dkgnet.KeyClasses(outs))
	res.Class = fmt.Sprintf("net-n%d-fin%d", n, nfin)
	res.Nontrivial = w[6] != "-" || strings.Trim(w[5], "0,") != ""
	res.Oracle = dkgnet.JointOracle(members, outs, n/2+1, nil, nil, h.NewRng(seed))
	if res.Oracle == "" && nfin < n {
		// every message was let through eventually: classify the delivery history that stalled the group
		dupResp, earlyResp := false, false
		seen := map[string]int{}
		gotDeals := make([]int, n)
		for _, d := range nw.Log {
			key := fmt.Sprintf("%d>%d:%s", d.From, d.To, d.Kind)
			seen[key]++
			if d.Kind == "resp" && seen[key] > 1 {
				dupResp = true
			}
			if d.Kind == "deal" && seen[key] == 1 {
				gotDeals[d.To]++
			}
			if d.Kind == "resp" && gotDeals[d.To] < n-1 {
				earlyResp = true
			}
		}
		sig := "stall-other"
		crossesTick := false
		for _, a := range skews {
			for _, b := range skews {
				if a < 60000 && b >= 60000 {
					crossesTick = true // somebody's messages arrived before the first watchdog tick, somebody started after it
				}
			}
		}
		switch {
		case crossesTick:
			sig = "stall-after-watchdog-tick"
		case dupResp:
			sig = "stall-redelivered-responses"
		case earlyResp:
			sig = "stall-responses-before-deals"
		}
		res.Oracle = fmt.Sprintf("%s: %d of %d members did not finish although every message was delivered (%s)", sig, n-nfin, n, strings.Join(errs, " / "))
	}
	return
}

// Level 1b (member machine): the real session layer (handlePeerMsg / handleRequest) and the real
// pipeline stages of every member, one event at a time (dkgnet.Sim):
//
//	mem <seed> <n> - <events>     events: s<i> | p<j>.<i> | d<j>.<i> | r<k>.<i>   (see dkgnet.RunSimLine)
func execMem(w []string) (res h.Result) {
	impl, s := dkgnet.RunSimLine(w)
	res.Impl = impl
	outs := s.Outcomes()
	n := s.N
	members := make([]int, n)
	nfin := 0
	for k := range members {
		members[k] = k
		if outs[k].Finished {
			nfin++
		}
	}
	res.Class = fmt.Sprintf("mem-n%d-fin%d", n, nfin)
	res.Nontrivial = true
	var coeffs [][]*big.Int
	var want []kyber.Point
	sum := new(big.Int)
	all := true
	for k := 0; k < n; k++ {
		c := s.Coeffs(k)
		if c == nil {
			all = false
			break
		}
		coeffs = append(coeffs, c)
		sum.Add(sum, c[0])
	}
	if all {
		want = dkgnet.SumCommits(coeffs)
	} else {
		sum = nil
	}
	res.Oracle = dkgnet.JointOracle(members, outs, n/2+1, sum, want, h.NewRng(1))
	if res.Oracle == "" && s.Complete() && nfin < n {
		res.Oracle = fmt.Sprintf("complete-not-finished: every member started and every message was delivered at least once, %d of %d members did not finish (%s)", n-nfin, n, impl)
	}
	return
}

// events that hand every member except i everything that may exist for it
func flushOthers(n, i int) []string {
	var ev []string
	for _, kind := range []string{"p", "d", "r"} {
		for to := 0; to < n; to++ {
			if to == i {
				continue
			}
			for from := 0; from < n; from++ {
				if from != to {
					ev = append(ev, fmt.Sprintf("%s%d.%d", kind, from, to))
				}
			}
		}
	}
	return ev
}

func incomingMem(n, i int) []string {
	ev := []string{fmt.Sprintf("s%d", i)}
	for _, kind := range []string{"p", "d", "r"} {
		for from := 0; from < n; from++ {
			if from != i {
				ev = append(ev, fmt.Sprintf("%s%d.%d", kind, from, i))
			}
		}
	}
	return ev
}

// member i gets its events in the given order; the others are started first and are handed
// everything available after each step; finally everything is delivered once more to i
func memSchedule(n, i int, order []string, complete bool) string {
	var ev []string
	for k := 0; k < n; k++ {
		if k != i {
			ev = append(ev, fmt.Sprintf("s%d", k))
		}
	}
	fl := flushOthers(n, i)
	ev = append(ev, fl...)
	for _, e := range order {
		ev = append(ev, e)
		ev = append(ev, fl...)
		ev = append(ev, fl...)
	}
	if complete {
		for round := 0; round < 3; round++ {
			ev = append(ev, incomingMem(n, i)...)
			ev = append(ev, fl...)
		}
	}
	return strings.Join(ev, ",")
}

// all messages member i receives in an honest run
func incoming(n, i int) []string {
	var ev []string
	for j := 0; j < n; j++ {
		if j != i {
			ev = append(ev, fmt.Sprintf("d%d.%d", j, i))
		}
	}
	for k := 0; k < n; k++ {
		if k == i {
			continue
		}
		for j := 0; j < n; j++ {
			if j != k {
				ev = append(ev, fmt.Sprintf("r%d.%d.%d", k, j, i))
			}
		}
	}
	return ev
}

func permutations(n int, f func([]int)) {
	p := make([]int, n)
	for i := range p {
		p[i] = i
	}
	var rec func(k int)
	rec = func(k int) {
		if k == n {
			f(p)
			return
		}
		for i := k; i < n; i++ {
			p[k], p[i] = p[i], p[k]
			rec(k + 1)
			p[k], p[i] = p[i], p[k]
		}
	}
	rec(0)
}

// schedule in which recipient i gets its messages in the given order, everybody else canonically
func scheduleFor(n, i int, order []string) string {
	var ev []string
	for k := 0; k < n; k++ { // the others process their deals first (their responses exist afterwards)
		if k == i {
			continue
		}
		for j := 0; j < n; j++ {
			if j != k {
				ev = append(ev, fmt.Sprintf("d%d.%d", j, k))
			}
		}
	}
	ev = append(ev, order...)
	for k := 0; k < n; k++ {
		if k == i {
			continue
		}
		for _, m := range incoming(n, k) {
			if m[0] == 'r' {
				ev = append(ev, m)
			}
		}
	}
	return strings.Join(ev, ",")
}

func gen(tier string, rng *h.Rng, emit func(string)) {
	// the tick-crossing cases (round 5, review C finding 4 / seed C04f-watchdog): Loops started now, cases emitted last.
	// Members 0 and 1 call Grouping 57 s after their Loops started, their PublicKey messages are acknowledged and
	// buffered by member 2, whose Loop has no request registered for the session yet; the watchdog of every Loop
	// ticks at 60 s; member 2 calls Grouping at 61.5 s. A tick must not touch the buffer of a session that can still
	// start (as the code is: expire ranges over the registered requests only).
	tickSeed := rng.U64() >> 1
	ticks := []string{fmt.Sprintf("net %d 3 80000 1500 57000,57000,61500 -", tickSeed)}
	if tier == "thorough" {
		ticks = append(ticks, fmt.Sprintf("net %d 4 80000 1500 57500,61500,57000,58000 *>1:pk:0=loseack", tickSeed+2))
	}
	for _, l := range ticks {
		prewarmNet(l)
	}
	defer func() {
		for _, l := range ticks {
			emit(l)
		}
	}()
	thorough := tier == "thorough"
	seed := func() uint64 { return rng.U64() >> 1 }
	// 0. canonical runs
	for n := 3; n <= 7; n++ {
		if !thorough && n > 5 {
			continue
		}
		var ev []string
		for i := 0; i < n; i++ {
			for _, m := range incoming(n, i) {
				if m[0] == 'd' {
					ev = append(ev, m)
				}
			}
		}
		for i := 0; i < n; i++ {
			for _, m := range incoming(n, i) {
				if m[0] == 'r' {
					ev = append(ev, m)
				}
			}
		}
		emit(fmt.Sprintf("lib %d %d %s", seed(), n, strings.Join(ev, ",")))
	}
	// 1. n = 3: every order of the six messages of every recipient
	for i := 0; i < 3; i++ {
		in := incoming(3, i)
		permutations(len(in), func(p []int) {
			if !thorough && rng.Intn(24) != 0 {
				return
			}
			var order []string
			for _, k := range p {
				order = append(order, in[k])
			}
			emit(fmt.Sprintf("lib %d 3 %s", seed(), scheduleFor(3, i, order)))
		})
	}
	// 2. random global schedules with re-delivery and early (not yet produced) deliveries
	nr := 30
	if thorough {
		nr = 400
	}
	for c := 0; c < nr; c++ {
		n := 3 + rng.Intn(3)
		if thorough && rng.Intn(4) == 0 {
			n = 6 + rng.Intn(2)
		}
		var all []string
		for i := 0; i < n; i++ {
			all = append(all, incoming(n, i)...)
		}
		mode := rng.Intn(4)
		var ev []string
		switch mode {
		case 0: // uniformly shuffled: many responses arrive before the deals they need
			for _, k := range rng.Perm(len(all)) {
				ev = append(ev, all[k])
			}
		default: // causal order with a random linear extension, duplicates sprinkled in
			var deals, resps []string
			for _, m := range all {
				if m[0] == 'd' {
					deals = append(deals, m)
				} else {
					resps = append(resps, m)
				}
			}
			for _, k := range rng.Perm(len(deals)) {
				ev = append(ev, deals[k])
				if mode >= 2 && rng.Intn(5) == 0 {
					ev = append(ev, deals[rng.Intn(len(deals))])
				}
			}
			for _, k := range rng.Perm(len(resps)) {
				ev = append(ev, resps[k])
				if mode >= 2 && rng.Intn(6) == 0 {
					ev = append(ev, resps[rng.Intn(len(resps))])
				}
				if mode == 3 && rng.Intn(10) == 0 {
					ev = append(ev, deals[rng.Intn(len(deals))])
				}
			}
		}
		emit(fmt.Sprintf("lib %d %d %s", seed(), n, strings.Join(ev, ",")))
	}
	// 4. member machines: every order of the 7 events of a recipient for n = 3
	permNo, seedParity := 0, -1
	if len(os.Args) > 4 && os.Args[1] == "gen" {
		if v, err := strconv.ParseUint(os.Args[4], 10, 64); err == nil {
			seedParity = int(v % 2)
		}
	}
	for i := 0; i < 3; i++ {
		in := incomingMem(3, i)
		permutations(len(in), func(p []int) {
			// thorough: ALL 5040 orders for each of the three recipients (review C round 5, finding 7), split over the
			// TWO seeds of a thorough run (seed and seed+1000003 differ in parity): each run of the generator emits
			// the orders whose number has the parity of its seed, the two together every order exactly once
			permNo++
			if thorough && seedParity >= 0 && permNo%2 != seedParity {
				return
			}
			if !thorough && rng.Intn(120) != 0 {
				return
			}
			var order []string
			for _, k := range p {
				order = append(order, in[k])
			}
			emit(fmt.Sprintf("mem %d 3 - %s", seed(), memSchedule(3, i, order, true)))
		})
	}
	// 5. member machines: random global schedules with re-delivery, n <= 7, complete and incomplete
	nm := 25
	if thorough {
		nm = 300
	}
	for c := 0; c < nm; c++ {
		n := 3 + rng.Intn(3)
		if thorough && rng.Intn(5) == 0 {
			n = 6 + rng.Intn(2)
		}
		var all []string
		for i := 0; i < n; i++ {
			all = append(all, incomingMem(n, i)...)
		}
		var ev []string
		rounds := 4
		drop := -1
		if c%5 == 4 {
			drop = rng.Intn(len(all))
		}
		for rd := 0; rd < rounds; rd++ {
			for _, k := range rng.Perm(len(all)) {
				if k == drop {
					continue
				}
				if rd > 0 && rng.Intn(3) == 0 {
					continue
				}
				ev = append(ev, all[k])
			}
		}
		if drop < 0 { // make it complete: one last canonical pass in causal order, three times
			for rd := 0; rd < 3; rd++ {
				ev = append(ev, all...)
			}
		}
		emit(fmt.Sprintf("mem %d %d - %s", seed(), n, strings.Join(ev, ",")))
	}
	// 6. the networked level: real pdkg over the in-memory network double
	nets := []string{
		"net %d 3 10000 1500 0,0,0 -",
		"net %d 3 10000 1500 0,250,500 -",
		"net %d 3 10000 1500 0,0,0 1>0:resp:0=loseack;2>0:resp:*=delay1200",
		"net %d 3 10000 1500 0,0,0 1>0:deal:0=drop;2>0:deal:0=drop",
		"net %d 4 12000 1500 0,0,100,0 *>2:pk:0=drop;0>*:deal:0=loseack",
		"net %d 5 15000 1500 0,0,0,0,0 *>*:resp:0=loseack",
	}
	if thorough {
		nets = append(nets,
			"net %d 3 10000 1500 600,0,0 1>0:pk:0=drop;2>0:pk:0=drop;1>0:pk:1=drop",
			"net %d 5 20000 1500 0,100,200,300,400 *>*:deal:0=drop;*>3:resp:0=delay700",
			"net %d 7 30000 1500 0,0,0,0,0,0,0 3>*:*:0=loseack",
			"net %d 4 12000 1500 0,0,0,0 *>*:*:0=drop",
			"net %d 6 25000 1500 0,0,0,0,0,900 *>5:deal:0=drop;*>5:deal:1=drop")
	}
	for _, f := range nets {
		emit(fmt.Sprintf(f, seed()))
	}
	// 3. incomplete schedules: a member misses one message
	for c := 0; c < nr/3+3; c++ {
		n := 3 + rng.Intn(2)
		var ev []string
		var all []string
		for i := 0; i < n; i++ {
			all = append(all, incoming(n, i)...)
		}
		drop := rng.Intn(len(all))
		for pass := 0; pass < 2; pass++ {
			for k, m := range all {
				if k == drop || (pass == 0) != (m[0] == 'd') {
					continue
				}
				ev = append(ev, m)
			}
		}
		emit(fmt.Sprintf("lib %d %d %s", seed(), n, strings.Join(ev, ",")))
	}
}

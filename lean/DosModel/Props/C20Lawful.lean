/-
C20 (round 4) — COMPOSITION.  The Schnorr / EdDSA-interoperability theorems of Props/C20.lean and Props/C20Compose.lean
took `Lawful g` ("the point code implements a commutative group with ℓ•B = 0 and encodings that decode back") as a
HYPOTHESIS about group/edwards25519.  Here it is a THEOREM about the translated code (`code_point_layer_lawful`), and
the Schnorr theorems are restated for `codeGrp` — the group record made of point.Add (ptAdd), point.Mul (geScalarMult),
the constant baseext, point.MarshalBinary (extToBytes) and point.UnmarshalBinary (extFromBytes) — WITHOUT any
hypothesis on the group.  What is left as assumption is not code: SHA-512 (an arbitrary function `H` here) and, for the
alteration clause, the hash events named in `single_alteration_cases`.

Scope note (round 5, after fix /repo ec5317f): `codeGrp.smul n` is the code (`geScalarMult` on the 32 little-endian bytes
of n) for n < 2^255 — the contract `a[31] <= 127` of the window recoding — and the mathematical n • P above.  kyber scalars
are NOT always reduced (`scalar.UnmarshalBinary` stores any 32 bytes — the fact F5 rests on), and `Sign` hands the raw
private scalar to `Mul(private, nil)`.  Before the fix that multiplication was wrong for a[31] ≥ 0x88 (review 5-F, finding 2:
the signature was rejected by both verifiers under the key the same `Mul` returns).  The repaired `point.Mul` reduces such a
scalar with the translated scReduce first (`Ge.mulScalar`), and `point_mul_any_scalar` / `code_key_any_scalar` prove that
for EVERY 32-byte scalar `Mul(s, nil)` is (leNat s)•B = `codeGrp.smul (leNat s) codeGrp.base`: so `sign_verifies_code`
(stated for every x : ℕ) is about the code for every 32-byte private scalar (`sign_verifies_code_bytes`).  The other
scalars the theorems feed `smul` are below ℓ < 2^253 (k: Pick, h: SetBytes, S: canonical).  `Mul(s, nil)` uses
geScalarMultBase, which equals geScalarMult on the base point (`mul_base_eq`, the whole table of const.go checked by the kernel).
-/
import DosModel.Props.C20Compose
import DosModel.Proofs.GeCodeFacts
import DosModel.Proofs.GeScalarMultBase
import DosModel.Proofs.GeNatTableFull
import DosModel.Proofs.GeMulGuard

set_option exponentiation.threshold 600

namespace Dos.Props.C20Lawful
open Dos Dos.Ed25519 Dos.Schnorr Dos.Ge Dos.FeProg

/-- **the hypothesis `Lawful` of the Schnorr theorems, proved for the translated point code** -/
theorem code_point_layer_lawful : Lawful codeGrp := codeGrp_is_lawful

/-- the group operations of the record ARE the translated code on any good representations, not only the chosen ones -/
theorem code_ops_representation_independent {p q : Ext} {P Q : Pt} (hp : GoodExt p P) (hq : GoodExt q Q)
    (a : Bytes) (hlen : a.length = 32) (h31 : (a.getD 31 0).toNat ≤ 127) :
    absPt (ptAdd p q) = P + Q ∧ absPt (geScalarMult a p) = leNat a • P ∧ extToBytes p = encPt P
    ∧ (∃ e, extFromBytes (encPt P) = some e ∧ GoodExt e P) :=
  ⟨absPt_of_good (ptAdd_spec hp hq), absPt_of_good (geScalarMult_spec a hlen h31 hp), extToBytes_spec hp,
    extFromBytes_enc P⟩

/-- the base point has order EXACTLY ℓ (ℓ•B = 0 kernel-evaluated with verified arithmetic, ℓ prime, B ≠ 0) -/
theorem code_base_order : ∀ n : ℕ, n • codeGrp.base = 0 ↔ ell ∣ n := by
  intro n
  rw [codeGrp_base]
  exact smul_base_eq_zero_iff n

example : (2 * ell) • codeGrp.base = 0 := (code_base_order _).2 ⟨2, by ring⟩

/-- **completeness + interoperability**: a signature made by `Sign` with the translated code is accepted by the
repaired `Verify` and by the RFC 8032 verifier — no hypothesis on the group -/
theorem sign_verifies_code (H : Bytes → Bytes) (x k : ℕ) (msg : Bytes) :
    verify codeGrp H (codeGrp.smul x codeGrp.base) msg (sign codeGrp H x k msg) = .ok ()
    ∧ verifyStd codeGrp H (codeGrp.enc (codeGrp.smul x codeGrp.base)) msg (sign codeGrp H x k msg) = true :=
  Props.C20.sign_verifies codeGrp_is_lawful H x k msg

/-- **soundness**: `Verify` accepts exactly the 64-byte strings whose R part decodes to a curve point, whose S part is
canonical, and that satisfy S•B = R + h•A in the curve group -/
theorem verify_sound_code (H : Bytes → Bytes) (A : Pt) (msg sig : Bytes) :
    verify codeGrp H A msg sig = .ok () ↔
      sig.length = 64 ∧ ∃ R, codeGrp.dec (sig.take 32) = some R ∧ leNat (sig.drop 32) < ell ∧
        leNat (sig.drop 32) • codeGrp.base = R + challenge codeGrp H A R msg • A :=
  Props.C20.verify_sound codeGrp_is_lawful H A msg sig

/-- **non-malleability in S** and rejection of an altered S, wrong lengths — no order hypothesis -/
theorem verify_nonmalleable_S_code (H : Bytes → Bytes) (A : Pt) (msg sig sig' : Bytes)
    (h1 : verify codeGrp H A msg sig = .ok ()) (h2 : verify codeGrp H A msg sig' = .ok ())
    (hR : sig.take 32 = sig'.take 32) : sig = sig' :=
  Props.C20Compose.verify_nonmalleable_S_composed codeGrp_is_lawful codeGrp_base_ne_zero H A msg sig sig' h1 h2 hR

theorem altered_S_rejected_code (H : Bytes → Bytes) (A : Pt) (msg sig sig' : Bytes)
    (h1 : verify codeGrp H A msg sig = .ok ()) (hR : sig.take 32 = sig'.take 32) (hne : sig' ≠ sig) :
    verify codeGrp H A msg sig' ≠ .ok () :=
  Props.C20Compose.altered_S_rejected_composed codeGrp_is_lawful codeGrp_base_ne_zero H A msg sig sig' h1 hR hne

/-- finding F5 on the translated code: the pre-repair `Verify` accepted R‖S+ℓ, the repaired one answers `noncanonical` -/
theorem malleability_witness_and_repair_code (H : Bytes → Bytes) (x k : ℕ) (msg : Bytes) :
    let sig := sign codeGrp H x k msg
    let sig' := sig.take 32 ++ natLE 32 (leNat (sig.drop 32) + ell)
    sig' ≠ sig
    ∧ verifyPre codeGrp H (codeGrp.smul x codeGrp.base) msg sig' = .ok ()
    ∧ verify codeGrp H (codeGrp.smul x codeGrp.base) msg sig' = .error .noncanonical :=
  Props.C20.malleability_witness_and_repair codeGrp_is_lawful H x k msg

/-- an altered message accepted with the same signature under a key x•B, ℓ ∤ x, is a challenge collision modulo ℓ -/
theorem altered_message_needs_collision_code (H : Bytes → Bytes) (x : ℕ) (hx : ¬ ell ∣ x) (msg msg' sig : Bytes)
    (h1 : verify codeGrp H (codeGrp.smul x codeGrp.base) msg sig = .ok ())
    (h2 : verify codeGrp H (codeGrp.smul x codeGrp.base) msg' sig = .ok ()) :
    ∃ R, codeGrp.dec (sig.take 32) = some R ∧
      challenge codeGrp H (codeGrp.smul x codeGrp.base) R msg = challenge codeGrp H (codeGrp.smul x codeGrp.base) R msg' :=
  Props.C20Compose.altered_message_needs_collision_composed codeGrp_is_lawful codeGrp_base_ne_zero H x hx msg msg' sig h1 h2

/-- point encodings round-trip on the code: MarshalBinary then UnmarshalBinary gives back the point, and whatever
UnmarshalBinary accepts is a point of the curve with the encoded y (an error is returned only when no x exists) -/
theorem point_encoding_roundtrip (P : Pt) (s : Bytes) :
    codeGrp.dec (codeGrp.enc P) = some P ∧ (codeGrp.enc P).length = 32
    ∧ (s.length = 32 → extFromBytes s = none →
        ¬ ∃ x : Ed25519Prime.F, Edwards.OnCurve E25519.d x (((leNat s % 2 ^ 255 : ℕ) : ℕ) : Ed25519Prime.F)) :=
  ⟨codeGrp_is_lawful.dec_enc P, codeGrp_is_lawful.enc_len P, fun hl hn => extFromBytes_none hl hn⟩

/-- `P.Mul(s, nil)` (geScalarMultBase with the table of const.go) is `P.Mul(s, Base)` -/
theorem mul_base_eq (a : Bytes) (hlen : a.length = 32) (h31 : (a.getD 31 0).toNat ≤ 127) :
    absPt (geScalarMultBase a) = leNat a • basePt ∧ absPt (geScalarMult a baseExt) = leNat a • basePt :=
  ⟨absPt_of_good (geScalarMultBase_spec (fun i j hi hj => baseTable_ok i j hi hj) a hlen h31),
    absPt_of_good (geScalarMult_spec a hlen h31 baseExt_good)⟩

/-- **`point.Mul` for EVERY 32-byte scalar** (repaired code, fix ec5317f): the scalar handed to the window recoding
(`mulScalar`: the caller's bytes when a[31] ≤ 127, else scReduce of them) has 32 bytes, top byte ≤ 127 and the same
value modulo ℓ; `Mul(s, nil)` represents (leNat s)•B, `Mul(s, A)` represents (leNat s)•A for every A with ℓ•A = 0 and
(leNat s mod ℓ)•A when a[31] > 127 in general -/
theorem point_mul_any_scalar (a : Bytes) (hlen : a.length = 32) :
    ((mulScalar a).length = 32 ∧ ((mulScalar a).getD 31 0).toNat ≤ 127 ∧ leNat (mulScalar a) % ell = leNat a % ell
      ∧ ((a.getD 31 0).toNat ≤ 127 → mulScalar a = a)
      ∧ (127 < (a.getD 31 0).toNat → leNat (mulScalar a) = leNat a % ell))
    ∧ GoodExt (ptMul a none) (leNat a • basePt)
    ∧ (∀ (q : Ext) (Q : Pt), GoodExt q Q → GoodExt (ptMul a (some q)) (leNat (mulScalar a) • Q))
    ∧ (∀ (q : Ext) (Q : Pt), GoodExt q Q → ell • Q = 0 → GoodExt (ptMul a (some q)) (leNat a • Q)) :=
  ⟨mulScalar_spec a hlen,
    ptMul_spec_any (fun i j hi hj => baseTable_ok i j hi hj) ell_smul_base a hlen⟩

/-- the scalar 11…11 ff (a[31] = 0xff, the review's witness) is outside the contract and is reduced -/
example : 127 < ((natLE 32 (2 ^ 256 - 1)).getD 31 0).toNat := by decide
example : GoodExt (ptMul (natLE 32 (2 ^ 256 - 1)) none) ((2 ^ 256 - 1) • basePt) := by
  have h := (point_mul_any_scalar (natLE 32 (2 ^ 256 - 1)) (natLE_length _ _)).2.1
  rwa [leNat_natLE_of_lt 32 _ (by norm_num)] at h

/-- the public key `Sign` derives with the code, `Mul(private, nil)`, IS `codeGrp.smul x codeGrp.base` for every
32-byte private scalar — also the unreduced ones, where `codeGrp.smul` is defined mathematically -/
theorem code_key_any_scalar (a : Bytes) (hlen : a.length = 32) :
    absPt (ptMul a none) = codeGrp.smul (leNat a) codeGrp.base := by
  rw [codeGrp_is_lawful.smul_eq, codeGrp_base]
  exact absPt_of_good (point_mul_any_scalar a hlen).2.1

/-- **completeness + interoperability for every 32-byte private scalar, reduced or not**: with the key the code
derives (`Mul(private, nil)`), a signature made by `Sign` is accepted by `Verify` and by the RFC 8032 verifier -/
theorem sign_verifies_code_bytes (H : Bytes → Bytes) (a : Bytes) (hlen : a.length = 32) (k : ℕ) (msg : Bytes) :
    verify codeGrp H (absPt (ptMul a none)) msg (sign codeGrp H (leNat a) k msg) = .ok ()
    ∧ verifyStd codeGrp H (codeGrp.enc (absPt (ptMul a none))) msg (sign codeGrp H (leNat a) k msg) = true := by
  rw [code_key_any_scalar a hlen]
  exact sign_verifies_code H (leNat a) k msg

example : (natLE 32 (2 ^ 256 - 1)).length = 32 := natLE_length _ _

/-! ### the alteration clause for keys as BYTES and for ANY altered key (review 5-F finding 5) -/

/-- an altered public key — ANY curve point A′, in or outside ⟨B⟩ — accepted with the same message and signature on the
translated code forces h′•A′ = h•A between the two challenges (an event of the hash alone) -/
theorem altered_key_needs_hash_relation_code (H : Bytes → Bytes) (A A' : Pt) (msg sig : Bytes)
    (h1 : verify codeGrp H A msg sig = .ok ()) (h2 : verify codeGrp H A' msg sig = .ok ()) :
    ∃ R, codeGrp.dec (sig.take 32) = some R ∧
      challenge codeGrp H A' R msg • A' = challenge codeGrp H A R msg • A :=
  Props.C20.altered_key_needs_hash_relation codeGrp_is_lawful H A A' msg sig h1 h2

/-- keys enter `Verify` as points decoded from bytes: a key byte string different from the canonical encoding `pub` of A
that decodes at all decodes to ANOTHER point — or is a non-canonical alias (y ≥ p, or x = 0 with the sign bit: it does not
re-encode to itself; `extFromBytes_noncanonical_accepted` is such a string) -/
theorem altered_key_bytes_code (pub pub' : Bytes) (A A' : Pt) (hc : codeGrp.enc A = pub)
    (_hA' : codeGrp.dec pub' = some A') (hne : pub' ≠ pub) : A' ≠ A ∨ codeGrp.enc A' ≠ pub' := by
  by_cases h : A' = A
  · right
    intro he
    exact hne (by rw [← he, h, hc])
  · exact Or.inl h

example : codeGrp.dec (codeGrp.enc (0 : Pt)) = some 0 := codeGrp_is_lawful.dec_enc 0

/-- **the excluded key, stated**: for the degenerate key A = 0 (private scalar x ≡ 0 mod ℓ) the verification equation
S•B = R + h•0 does not involve the challenge, so a signature accepted for one message is accepted for EVERY message —
by `Verify` and, by `verify_iff_std`, by the RFC 8032 verifier (crypto/ed25519 behaves the same: this is EdDSA, not a
defect of the code).  The message-alteration theorems therefore carry `¬ ℓ ∣ x`; listed in meta "assumptions". -/
theorem degenerate_key_accepts_altered_message (H : Bytes → Bytes) (msg msg' sig : Bytes)
    (h : verify codeGrp H (0 : Pt) msg sig = .ok ()) : verify codeGrp H (0 : Pt) msg' sig = .ok () := by
  rw [verify_sound_code] at h ⊢
  obtain ⟨hl, R, hR, hs, he⟩ := h
  exact ⟨hl, R, hR, hs, by rw [smul_zero] at he ⊢; exact he⟩

example (H : Bytes → Bytes) (k : ℕ) (msg msg' : Bytes) :
    verify codeGrp H (0 : Pt) msg' (sign codeGrp H 0 k msg) = .ok () := by
  have h := (sign_verifies_code H 0 k msg).1
  rw [codeGrp_is_lawful.smul_eq, zero_smul] at h
  exact degenerate_key_accepts_altered_message H msg msg' _ h

end Dos.Props.C20Lawful

// Package chaindouble is an in-process Ethereum JSON-RPC endpoint (HTTP and
// websocket on one httptest server) built on go-ethereum's own rpc.Server.
// It implements just what the repository's onchain adaptor uses:
//
//	net_version, eth_syncing, eth_chainId, eth_blockNumber, eth_getBalance,
//	eth_getTransactionCount, eth_gasPrice, eth_getBlockByNumber, eth_getCode,
//	eth_estimateGas, eth_sendRawTransaction (raw transactions are recorded),
//	eth_call (scripted through CallFn), eth_getTransactionReceipt,
//	eth_subscribe("logs") with scripted log emission per endpoint.
//
// Every method can be scripted per endpoint with an Outcome: a JSON-RPC error
// with a chosen message, dropping the TCP connection, or holding the reply
// until the harness releases it.  All waiting is event-driven (condition
// variables / channels), nothing sleeps.
package chaindouble

import (
	"bufio"
	"bytes"
	"context"
	"encoding/json"
	"errors"
	"io/ioutil"
	"math/big"
	"net"
	"net/http"
	"net/http/httptest"
	"strings"
	"sync"

	"github.com/ethereum/go-ethereum/common"
	"github.com/ethereum/go-ethereum/common/hexutil"
	"github.com/ethereum/go-ethereum/core/types"
	"github.com/ethereum/go-ethereum/rpc"
)

// Outcome scripts what one JSON-RPC method does on one endpoint.
type Outcome struct {
	Err  string        // non-empty: answer with a JSON-RPC error carrying this message
	Drop bool          // close the TCP connection instead of answering (HTTP transport error at the client)
	// DropAfter: PROCESS the call (eth_sendRawTransaction records and accepts the transaction), then close the TCP
	// connection instead of answering: the endpoint has the transaction, the client sees a transport error
	// ("accepted, reply lost": a time-out or reset while the response is on its way).  HTTP endpoints only.
	DropAfter bool
	Hold chan struct{} // non-nil: the reply waits until this channel is closed
}

// CallFn answers eth_call.
type CallFn func(to common.Address, input []byte) ([]byte, error)

type logSub struct {
	notifier *rpc.Notifier
	sub      *rpc.Subscription
	addrs    []common.Address
	topic0   []common.Hash
}

// Endpoint is one scripted node.
type Endpoint struct {
	Name    string
	srv     *httptest.Server
	rpcSrv  *rpc.Server
	mu      sync.Mutex
	cond    *sync.Cond
	chainID *big.Int
	nonce   uint64
	autoNon bool // count every accepted raw transaction as pending (SetAutoNonce)
	price   *big.Int
	baseFee *big.Int
	script  map[string]Outcome
	callFn  CallFn
	rawTxs  [][]byte
	calls   []string
	subs    []*logSub
	nsubs   int // subscriptions ever created
	arrived map[string]int
	wsConns []net.Conn
	closed  bool
}

// New starts an endpoint. chainID is what eth_chainId / net_version answer.
func New(name string, chainID *big.Int) *Endpoint {
	e := &Endpoint{Name: name, chainID: new(big.Int).Set(chainID), price: big.NewInt(1000000000),
		script: map[string]Outcome{}, arrived: map[string]int{}}
	e.cond = sync.NewCond(&e.mu)
	e.rpcSrv = rpc.NewServer()
	if err := e.rpcSrv.RegisterName("eth", &ethAPI{e}); err != nil {
		panic(err)
	}
	if err := e.rpcSrv.RegisterName("net", &netAPI{e}); err != nil {
		panic(err)
	}
	ws := e.rpcSrv.WebsocketHandler([]string{"*"})
	e.srv = httptest.NewServer(http.HandlerFunc(func(w http.ResponseWriter, r *http.Request) {
		if strings.EqualFold(r.Header.Get("Upgrade"), "websocket") {
			// httptest forgets hijacked connections: keep them, so that DropConnections can cut them
			ws.ServeHTTP(&hijackRecorder{ResponseWriter: w, e: e}, r)
			return
		}
		body, _ := ioutil.ReadAll(r.Body)
		r.Body.Close()
		var probe struct {
			Method string `json:"method"`
		}
		json.Unmarshal(body, &probe)
		if probe.Method != "" {
			o := e.note(probe.Method)
			if o.DropAfter {
				r.Body = ioutil.NopCloser(bytes.NewReader(body))
				e.rpcSrv.ServeHTTP(httptest.NewRecorder(), r) // processed; the answer goes nowhere
			}
			if o.Drop || o.DropAfter {
				if hj, ok := w.(http.Hijacker); ok {
					if c, _, err := hj.Hijack(); err == nil {
						c.Close()
						return
					}
				}
			}
		}
		r.Body = ioutil.NopCloser(bytes.NewReader(body))
		e.rpcSrv.ServeHTTP(w, r)
	}))
	return e
}

type hijackRecorder struct {
	http.ResponseWriter
	e *Endpoint
}

func (h *hijackRecorder) Hijack() (net.Conn, *bufio.ReadWriter, error) {
	hj, ok := h.ResponseWriter.(http.Hijacker)
	if !ok {
		return nil, nil, errors.New("chaindouble: response writer cannot hijack")
	}
	c, rw, err := hj.Hijack()
	if err == nil {
		h.e.mu.Lock()
		h.e.wsConns = append(h.e.wsConns, c)
		h.e.mu.Unlock()
	}
	return c, rw, err
}

// HTTP / WS are the two URLs of the endpoint ("http://127.0.0.1:p", "ws://127.0.0.1:p").
func (e *Endpoint) HTTP() string { return e.srv.URL }
func (e *Endpoint) WS() string   { return "ws" + strings.TrimPrefix(e.srv.URL, "http") }

// Close shuts the endpoint down (all client connections are closed).
func (e *Endpoint) Close() {
	e.mu.Lock()
	if e.closed {
		e.mu.Unlock()
		return
	}
	e.closed = true
	for m, o := range e.script { // release anything still held
		if o.Hold != nil {
			select {
			case <-o.Hold:
			default:
				close(o.Hold)
			}
			delete(e.script, m)
		}
	}
	e.cond.Broadcast()
	e.mu.Unlock()
	e.DropConnections()
	e.rpcSrv.Stop()
	e.srv.Close()
}

// DropConnections closes every client connection of this endpoint (websocket
// subscriptions end with an error at the client); the listener stays up.
func (e *Endpoint) DropConnections() {
	e.mu.Lock()
	cs := e.wsConns
	e.wsConns = nil
	e.mu.Unlock()
	for _, c := range cs {
		c.Close()
	}
	e.srv.CloseClientConnections()
}

// Script sets the outcome of a method ("eth_sendRawTransaction", ...); the zero Outcome clears it.
func (e *Endpoint) Script(method string, o Outcome) {
	e.mu.Lock()
	defer e.mu.Unlock()
	if o.Err == "" && !o.Drop && !o.DropAfter && o.Hold == nil {
		delete(e.script, method)
	} else {
		e.script[method] = o
	}
}
func (e *Endpoint) ClearScript() {
	e.mu.Lock()
	e.script = map[string]Outcome{}
	e.mu.Unlock()
}
func (e *Endpoint) SetCallFn(f CallFn) { e.mu.Lock(); e.callFn = f; e.mu.Unlock() }
func (e *Endpoint) SetNonce(n uint64)  { e.mu.Lock(); e.nonce = n; e.mu.Unlock() }

// SetAutoNonce makes the endpoint behave like a chain node as to nonces: every raw transaction it accepts raises what
// it answers to eth_getTransactionCount(pending) by one (without it the harness moves the nonce itself).
func (e *Endpoint) SetAutoNonce(on bool) { e.mu.Lock(); e.autoNon = on; e.mu.Unlock() }
func (e *Endpoint) SetGasPrice(p *big.Int) {
	e.mu.Lock()
	e.price = new(big.Int).Set(p)
	e.mu.Unlock()
}

// SetBaseFee makes the head block a London block (nil = legacy head, the default).
func (e *Endpoint) SetBaseFee(f *big.Int) { e.mu.Lock(); e.baseFee = f; e.mu.Unlock() }

// note records the arrival of a method call and returns its scripted outcome.
func (e *Endpoint) note(method string) Outcome {
	e.mu.Lock()
	e.calls = append(e.calls, method)
	e.arrived[method]++
	o := e.script[method]
	e.cond.Broadcast()
	e.mu.Unlock()
	return o
}

// gate is called by every service method over websocket/HTTP: scripted error / hold.
// (HTTP arrivals were already noted by the wrapper handler.)
func (e *Endpoint) gate(ctx context.Context, method string) error {
	var o Outcome
	if isHTTP(ctx) {
		e.mu.Lock()
		o = e.script[method]
		e.mu.Unlock()
	} else {
		o = e.note(method)
	}
	if o.Hold != nil {
		select {
		case <-o.Hold:
		case <-ctx.Done():
		}
	}
	if o.Err != "" {
		return errors.New(o.Err)
	}
	return nil
}

func isHTTP(ctx context.Context) bool {
	// rpc.Server.ServeHTTP puts the remote address into the context of HTTP calls only
	v, ok := ctx.Value("remote").(string)
	return ok && v != ""
}

// WaitCall blocks until `method` has arrived at least n times (or the endpoint is closed).
func (e *Endpoint) WaitCall(method string, n int) bool {
	e.mu.Lock()
	defer e.mu.Unlock()
	for e.arrived[method] < n && !e.closed {
		e.cond.Wait()
	}
	return e.arrived[method] >= n
}

// Calls returns the methods received so far, in arrival order.
func (e *Endpoint) Calls() []string {
	e.mu.Lock()
	defer e.mu.Unlock()
	return append([]string(nil), e.calls...)
}
func (e *Endpoint) ResetCalls() {
	e.mu.Lock()
	e.calls = nil
	e.arrived = map[string]int{}
	e.mu.Unlock()
}

// RawTxs returns the raw transactions received by eth_sendRawTransaction (whatever the answer was).
func (e *Endpoint) RawTxs() [][]byte {
	e.mu.Lock()
	defer e.mu.Unlock()
	return append([][]byte(nil), e.rawTxs...)
}
func (e *Endpoint) ResetRawTxs() { e.mu.Lock(); e.rawTxs = nil; e.mu.Unlock() }

// WaitSubs blocks until at least n log subscriptions have been created on this endpoint.
func (e *Endpoint) WaitSubs(n int) bool {
	e.mu.Lock()
	defer e.mu.Unlock()
	for e.nsubs < n && !e.closed {
		e.cond.Wait()
	}
	return e.nsubs >= n
}
func (e *Endpoint) NumSubs() int { e.mu.Lock(); defer e.mu.Unlock(); return len(e.subs) }

// Emit pushes one log to every live subscription whose address / first-topic filter matches.
// It returns the number of subscriptions notified.
func (e *Endpoint) Emit(l types.Log) int {
	e.mu.Lock()
	subs := append([]*logSub(nil), e.subs...)
	e.mu.Unlock()
	n := 0
	for _, s := range subs {
		if !s.matches(l) {
			continue
		}
		lc := l
		if err := s.notifier.Notify(s.sub.ID, &lc); err == nil {
			n++
		}
	}
	return n
}

// EmitRaw pushes one log to every live subscription WITHOUT applying the subscription's address / topic filter:
// what a non-conforming endpoint could send (wrong or missing first topic).  Returns the number notified.
func (e *Endpoint) EmitRaw(l types.Log) int {
	e.mu.Lock()
	subs := append([]*logSub(nil), e.subs...)
	e.mu.Unlock()
	n := 0
	for _, s := range subs {
		lc := l
		if lc.Topics == nil {
			lc.Topics = []common.Hash{}
		}
		if err := s.notifier.Notify(s.sub.ID, &lc); err == nil {
			n++
		}
	}
	return n
}

func (s *logSub) matches(l types.Log) bool {
	if len(s.addrs) > 0 {
		ok := false
		for _, a := range s.addrs {
			if a == l.Address {
				ok = true
			}
		}
		if !ok {
			return false
		}
	}
	if len(s.topic0) > 0 {
		if len(l.Topics) == 0 {
			return false
		}
		ok := false
		for _, t := range s.topic0 {
			if t == l.Topics[0] {
				ok = true
			}
		}
		if !ok {
			return false
		}
	}
	return true
}

// ---- JSON-RPC services -----------------------------------------------------

type netAPI struct{ e *Endpoint }

func (a *netAPI) Version(ctx context.Context) (string, error) {
	if err := a.e.gate(ctx, "net_version"); err != nil {
		return "", err
	}
	return a.e.chainID.String(), nil
}

type ethAPI struct{ e *Endpoint }

func (a *ethAPI) ChainId(ctx context.Context) (*hexutil.Big, error) {
	if err := a.e.gate(ctx, "eth_chainId"); err != nil {
		return nil, err
	}
	return (*hexutil.Big)(new(big.Int).Set(a.e.chainID)), nil
}

func (a *ethAPI) Syncing(ctx context.Context) (interface{}, error) {
	if err := a.e.gate(ctx, "eth_syncing"); err != nil {
		return nil, err
	}
	return false, nil
}

func (a *ethAPI) BlockNumber(ctx context.Context) (hexutil.Uint64, error) {
	if err := a.e.gate(ctx, "eth_blockNumber"); err != nil {
		return 0, err
	}
	return 100, nil
}

func (a *ethAPI) GetBalance(ctx context.Context, addr common.Address, blk interface{}) (*hexutil.Big, error) {
	if err := a.e.gate(ctx, "eth_getBalance"); err != nil {
		return nil, err
	}
	v, _ := new(big.Int).SetString("100000000000000000000", 10)
	return (*hexutil.Big)(v), nil
}

func (a *ethAPI) GetTransactionCount(ctx context.Context, addr common.Address, blk interface{}) (hexutil.Uint64, error) {
	if err := a.e.gate(ctx, "eth_getTransactionCount"); err != nil {
		return 0, err
	}
	a.e.mu.Lock()
	defer a.e.mu.Unlock()
	return hexutil.Uint64(a.e.nonce), nil
}

func (a *ethAPI) GasPrice(ctx context.Context) (*hexutil.Big, error) {
	if err := a.e.gate(ctx, "eth_gasPrice"); err != nil {
		return nil, err
	}
	a.e.mu.Lock()
	defer a.e.mu.Unlock()
	return (*hexutil.Big)(new(big.Int).Set(a.e.price)), nil
}

func (a *ethAPI) MaxPriorityFeePerGas(ctx context.Context) (*hexutil.Big, error) {
	if err := a.e.gate(ctx, "eth_maxPriorityFeePerGas"); err != nil {
		return nil, err
	}
	return (*hexutil.Big)(big.NewInt(1)), nil
}

func (a *ethAPI) GetBlockByNumber(ctx context.Context, blk interface{}, full bool) (map[string]interface{}, error) {
	if err := a.e.gate(ctx, "eth_getBlockByNumber"); err != nil {
		return nil, err
	}
	a.e.mu.Lock()
	bf := a.e.baseFee
	a.e.mu.Unlock()
	h := &types.Header{Difficulty: big.NewInt(1), Number: big.NewInt(100), GasLimit: 30000000, Time: 1600000000, BaseFee: bf}
	raw, err := json.Marshal(h)
	if err != nil {
		return nil, err
	}
	m := map[string]interface{}{}
	if err := json.Unmarshal(raw, &m); err != nil {
		return nil, err
	}
	m["hash"] = h.Hash()
	m["transactions"] = []interface{}{}
	m["uncles"] = []interface{}{}
	return m, nil
}

func (a *ethAPI) GetCode(ctx context.Context, addr common.Address, blk interface{}) (hexutil.Bytes, error) {
	if err := a.e.gate(ctx, "eth_getCode"); err != nil {
		return nil, err
	}
	return hexutil.Bytes{0x60, 0x00}, nil
}

func (a *ethAPI) EstimateGas(ctx context.Context, args map[string]interface{}) (hexutil.Uint64, error) {
	if err := a.e.gate(ctx, "eth_estimateGas"); err != nil {
		return 0, err
	}
	return 100000, nil
}

func (a *ethAPI) SendRawTransaction(ctx context.Context, data hexutil.Bytes) (common.Hash, error) {
	a.e.mu.Lock()
	a.e.rawTxs = append(a.e.rawTxs, append([]byte(nil), data...))
	a.e.mu.Unlock()
	if err := a.e.gate(ctx, "eth_sendRawTransaction"); err != nil {
		return common.Hash{}, err
	}
	tx := new(types.Transaction)
	if err := tx.UnmarshalBinary(data); err != nil {
		return common.Hash{}, err
	}
	a.e.mu.Lock()
	if a.e.autoNon {
		a.e.nonce++
	}
	a.e.mu.Unlock()
	return tx.Hash(), nil
}

func (a *ethAPI) GetTransactionReceipt(ctx context.Context, h common.Hash) (map[string]interface{}, error) {
	if err := a.e.gate(ctx, "eth_getTransactionReceipt"); err != nil {
		return nil, err
	}
	return nil, nil
}

type callArgs struct {
	To   *common.Address `json:"to"`
	Data *hexutil.Bytes  `json:"data"`
	Inp  *hexutil.Bytes  `json:"input"`
}

func (a *ethAPI) Call(ctx context.Context, args callArgs, blk interface{}) (hexutil.Bytes, error) {
	if err := a.e.gate(ctx, "eth_call"); err != nil {
		return nil, err
	}
	a.e.mu.Lock()
	f := a.e.callFn
	a.e.mu.Unlock()
	if f == nil {
		return nil, errors.New("chaindouble: no eth_call handler")
	}
	var to common.Address
	if args.To != nil {
		to = *args.To
	}
	var in []byte
	if args.Data != nil {
		in = *args.Data
	} else if args.Inp != nil {
		in = *args.Inp
	}
	out, err := f(to, in)
	return hexutil.Bytes(out), err
}

type logCrit struct {
	Address json.RawMessage   `json:"address"`
	Topics  []json.RawMessage `json:"topics"`
}

func hashesOf(raw json.RawMessage) []common.Hash {
	if len(raw) == 0 || string(raw) == "null" {
		return nil
	}
	var one common.Hash
	if json.Unmarshal(raw, &one) == nil {
		return []common.Hash{one}
	}
	var many []common.Hash
	json.Unmarshal(raw, &many)
	return many
}
func addrsOf(raw json.RawMessage) []common.Address {
	if len(raw) == 0 || string(raw) == "null" {
		return nil
	}
	var one common.Address
	if json.Unmarshal(raw, &one) == nil {
		return []common.Address{one}
	}
	var many []common.Address
	json.Unmarshal(raw, &many)
	return many
}

// Logs is eth_subscribe("logs", criteria).
func (a *ethAPI) Logs(ctx context.Context, crit logCrit) (*rpc.Subscription, error) {
	notifier, ok := rpc.NotifierFromContext(ctx)
	if !ok {
		return nil, rpc.ErrNotificationsUnsupported
	}
	if err := a.e.gate(ctx, "eth_subscribe"); err != nil {
		return nil, err
	}
	s := &logSub{notifier: notifier, sub: notifier.CreateSubscription(), addrs: addrsOf(crit.Address)}
	if len(crit.Topics) > 0 {
		s.topic0 = hashesOf(crit.Topics[0])
	}
	a.e.mu.Lock()
	a.e.subs = append(a.e.subs, s)
	a.e.nsubs++
	a.e.cond.Broadcast()
	a.e.mu.Unlock()
	go func() {
		<-s.sub.Err()
		a.e.mu.Lock()
		for i, x := range a.e.subs {
			if x == s {
				a.e.subs = append(a.e.subs[:i], a.e.subs[i+1:]...)
				break
			}
		}
		a.e.cond.Broadcast()
		a.e.mu.Unlock()
	}()
	return s.sub, nil
}

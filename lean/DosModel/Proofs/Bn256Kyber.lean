/-
C10 / E7 round 4 — helper lemmas for Props/C10Kyber.lean (the kyber-level functions of point.go and the
gfp.go helpers, translated by go/extract/bn256code).
* the stated behaviour of the scalar type `kyber/group/mod.Int` (NOT translated: a dependency): the big.Int `V`
  that `pointGx.Mul` hands to the curve code is the integer reduced into [0, M), M = Order for every scalar the
  suite makes (`mod.NewInt64(0, Order)`, group.go);
* negation for the concrete Montgomery models (the add / double / mul analogues are in Proofs/Bn256Concrete*.lean);
* gfP.Invert's loop over any base type (the generated straight-line code equals it by evaluation).
-/
import DosModel.Proofs.Bn256Concrete2
import DosModel.Proofs.Bn256Code

namespace Dos.Bn256
open Dos.Mont

/-- `mod.Int`: the value `V` of a scalar that was set to the integer `k` modulo `m` (`Int.Init`, `SetInt64`,
`SetBytes`, `Add`, `Mul`, `Neg`, … all end in `V.Mod(V, M)`, Go's Euclidean modulus: 0 ≤ V < M) -/
def modIntV (k : Int) (m : Nat) : Nat := (k % (m : Int)).toNat

theorem modIntV_lt (k : Int) (m : Nat) (hm : 0 < m) : modIntV k m < m := by
  unfold modIntV
  have h1 : 0 ≤ k % (m : Int) := Int.emod_nonneg _ (by omega)
  have h2 : k % (m : Int) < m := Int.emod_lt_of_pos _ (by omega)
  omega

theorem modIntV_cast (k : Int) (m : Nat) (hm : 0 < m) : ((modIntV k m : Nat) : Int) = k % (m : Int) := by
  unfold modIntV
  exact Int.toNat_of_nonneg (Int.emod_nonneg _ (by omega))

theorem modIntV_natCast (k m : Nat) : modIntV (k : Int) m = k % m := by
  unfold modIntV
  rw [← Int.natCast_mod]; rfl

/-- in an additive group where `n • P = 0`, the multiple by the reduced scalar is the multiple by the integer -/
theorem modIntV_smul {G : Type} [AddCommGroup G] (P : G) (n : Nat) (hn : 0 < n) (h0 : n • P = 0) (k : Int) :
    (modIntV k n) • P = k • P := by
  have hz : ((n : Int)) • P = 0 := by rw [natCast_zsmul]; exact h0
  have e : k = (n : Int) * (k / n) + k % n := (Int.mul_ediv_add_emod k n).symm
  rw [← natCast_zsmul, modIntV_cast k n hn]
  conv_rhs => rw [e, add_zsmul, mul_zsmul', hz, zsmul_zero, zero_add]

/-! ### negation, concrete Montgomery models -/

theorem g1_neg_concrete (bb : ZMod p) (a : Jac GFp) (ha : Jac.Reduced a) (va : Valid bb (Jac.decJ a)) :
    Jac.Reduced (Jac.neg a 0) ∧ Valid bb (Jac.decJ (Jac.neg a 0)) ∧
    toPoint bb (Jac.decJ (Jac.neg a 0)) = -toPoint bb (Jac.decJ a) := by
  have e : Jac.neg a 0 = Jac.map (fun (x : GFpR) => x.1) (Jac.neg (Jac.lift a ha) 0) := by
    rw [Jac.map_neg valHom, Jac.val_lift]; rfl
  rw [e, Jac.decJ_map_val, Jac.map_neg decHom, Jac.dec_lift]
  obtain ⟨h1, h2⟩ := neg_point bb (Jac.decJ a) va (decR 0)
  exact ⟨Jac.reduced_of_map _, h1, h2⟩

theorem g2_neg_concrete (bb : Fp2 (ZMod p)) (a : Jac (Fp2 GFp)) (ha : Jac.Reduced2 a)
    (va : Valid bb (Jac.decJ2 a)) :
    Jac.Reduced2 (Jac.neg a a.t) ∧ Valid bb (Jac.decJ2 (Jac.neg a a.t)) ∧
    toPoint bb (Jac.decJ2 (Jac.neg a a.t)) = -toPoint bb (Jac.decJ2 a) := by
  have e : Jac.neg a a.t = Jac.map val2 (Jac.neg (Jac.lift2 a ha) (Jac.lift2 a ha).t) := by
    rw [Jac.map_neg (Fp2.mapHom valHom), Jac.val_lift2]; rfl
  rw [e, Jac.decJ2_map_val, Jac.map_neg (Fp2.mapHom decHom), Jac.dec_lift2]
  obtain ⟨h1, h2⟩ := neg_point bb (Jac.decJ2 a) va (dec2 (Jac.lift2 a ha).t)
  exact ⟨Jac.reduced2_of_map _, h1, h2⟩

theorem g1_infinity_concrete (bb : ZMod p) :
    Jac.Reduced (Jac.infinity : Jac GFp) ∧ Valid bb (Jac.decJ (Jac.infinity : Jac GFp)) ∧
    toPoint bb (Jac.decJ (Jac.infinity : Jac GFp)) = 0 := by
  have hz : (Jac.decJ (Jac.infinity : Jac GFp)).z = 0 := dec_zero
  exact ⟨⟨by decide, dec_one.1, by decide, by decide⟩, Or.inl hz, toPoint_inf bb _ hz⟩

theorem g2_infinity_concrete (bb : Fp2 (ZMod p)) :
    Jac.Reduced2 (Jac.infinity : Jac (Fp2 GFp)) ∧ Valid bb (Jac.decJ2 (Jac.infinity : Jac (Fp2 GFp))) ∧
    toPoint bb (Jac.decJ2 (Jac.infinity : Jac (Fp2 GFp))) = 0 := by
  have hz : (Jac.decJ2 (Jac.infinity : Jac (Fp2 GFp))).z = 0 := by
    show Fp2.map dec (Fp2.zero : Fp2 GFp) = 0
    show (⟨dec 0, dec 0⟩ : Fp2 (ZMod p)) = ⟨0, 0⟩
    rw [dec_zero]
  refine ⟨⟨⟨by decide, by decide⟩, ⟨by decide, dec_one.1⟩, ⟨by decide, by decide⟩, ⟨by decide, by decide⟩⟩,
    Or.inl hz, toPoint_inf bb _ hz⟩

/-! ### gfP.Invert: the loop over any base type -/

/-- the loop of gfP.Invert over any type with a multiplication (Model/Bn256Field.lean's `invLoopG` is this at GFp) -/
def invLoopAny {α : Type} [Mul α] (bits : List Bool) (st : α × α) : α × α :=
  bits.foldl (fun st bit => (if bit then st.1 * st.2 else st.1, st.2 * st.2)) st

theorem invLoopAny_gfp (bits : List Bool) (st : GFp × GFp) : invLoopAny bits st = GFp.invLoopG bits st := rfl

end Dos.Bn256

// Package queryloop regenerates DosModel/Gen/QueryLoopFacts.lean: the control skeleton of
// queryLoop (dosnode/dos_query_handler.go) that the hand model Model/Collector.lean transcribes —
// the select arms in order and the channel each receives from, the lookup idiom of the
// peer-message arm, the arms of every inner select (which context / reply channel they use, no
// default), the appends to and the clearing of the buffer, the map write and the flush loop of the
// registration arm, the watchdog sweep — and the three expressions that must denote the same
// request id: what handleQuery puts on the wire, what it hands to dispatchSign, and what
// dispatchSign registers with queryLoop (dosnode/dos_stages.go). Logging calls and defers are
// left out. go/ast + go/printer only. Props/C13.lean and Props/C01.lean pin these facts.
package queryloop

import (
	"bytes"
	"fmt"
	"go/ast"
	"go/printer"
	"go/token"
	"path/filepath"
	"strings"

	"verifharness/extract/ex"
)

func init() { ex.Register(&ex.Extractor{Name: "QueryLoopFacts", Run: run}) }

func src(fset *token.FileSet, n ast.Node) string {
	var b bytes.Buffer
	printer.Fprint(&b, fset, n)
	return strings.Join(strings.Fields(b.String()), " ")
}

type walker struct {
	fset  *token.FileSet
	lines []string
}

func (w *walker) emit(depth int, s string) {
	w.lines = append(w.lines, strings.Repeat("  ", depth)+s)
}

func isLog(s string) bool {
	return strings.HasPrefix(s, "d.logger.") || strings.HasPrefix(s, "logger.") || strings.HasPrefix(s, "fmt.Print")
}

func (w *walker) stmts(list []ast.Stmt, depth int) {
	for _, s := range list {
		w.stmt(s, depth)
	}
}

func (w *walker) stmt(s ast.Stmt, depth int) {
	switch x := s.(type) {
	case *ast.BlockStmt:
		w.stmts(x.List, depth)
	case *ast.ForStmt:
		h := "for"
		if x.Init != nil || x.Cond != nil || x.Post != nil {
			h = fmt.Sprintf("for %s; %s; %s", opt(w, x.Init), opt(w, x.Cond), opt(w, x.Post))
		}
		w.emit(depth, h)
		w.stmts(x.Body.List, depth+1)
	case *ast.RangeStmt:
		w.emit(depth, fmt.Sprintf("for %s, %s %s range %s", opt(w, x.Key), opt(w, x.Value), x.Tok, src(w.fset, x.X)))
		w.stmts(x.Body.List, depth+1)
	case *ast.SelectStmt:
		w.emit(depth, "select")
		for _, c := range x.Body.List {
			cc := c.(*ast.CommClause)
			if cc.Comm == nil {
				w.emit(depth+1, "default")
			} else {
				w.emit(depth+1, "case "+src(w.fset, cc.Comm))
			}
			w.stmts(cc.Body, depth+2)
		}
	case *ast.IfStmt:
		h := "if "
		if x.Init != nil {
			h += src(w.fset, x.Init) + "; "
		}
		w.emit(depth, h+src(w.fset, x.Cond))
		w.stmts(x.Body.List, depth+1)
		if x.Else != nil {
			w.emit(depth, "else")
			w.stmt(x.Else, depth+1)
		}
	case *ast.DeferStmt:
		// not part of the loop body
	case *ast.ExprStmt:
		if t := src(w.fset, x); !isLog(t) {
			w.emit(depth, t)
		}
	case *ast.SwitchStmt, *ast.TypeSwitchStmt, *ast.GoStmt, *ast.LabeledStmt:
		w.emit(depth, "UNEXPECTED "+src(w.fset, x))
	default:
		w.emit(depth, src(w.fset, x))
	}
}

func opt(w *walker, n ast.Node) string {
	if n == nil || (fmt.Sprintf("%v", n) == "<nil>") {
		return "_"
	}
	return src(w.fset, n)
}

// fieldOf returns the text of field `name` in the first composite literal of type `typ` inside fd.
func fieldOf(fset *token.FileSet, fd *ast.FuncDecl, typ, name string) (string, error) {
	var found []string
	ast.Inspect(fd, func(n ast.Node) bool {
		cl, ok := n.(*ast.CompositeLit)
		if !ok || cl.Type == nil || src(fset, cl.Type) != typ {
			return true
		}
		for _, e := range cl.Elts {
			if kv, ok := e.(*ast.KeyValueExpr); ok && src(fset, kv.Key) == name {
				found = append(found, src(fset, kv.Value))
			}
		}
		return true
	})
	if len(found) != 1 {
		return "", fmt.Errorf("%s: %d literals %s with field %s", fd.Name.Name, len(found), typ, name)
	}
	return found[0], nil
}

func leanList(name string, xs []string) string {
	s := fmt.Sprintf("def %s : List String := [", name)
	for i, x := range xs {
		if i > 0 {
			s += ","
		}
		s += "\n  " + ex.LeanStr(x)
	}
	return s + "\n]\n"
}

func run(repo string) (string, error) {
	fset, qh, err := ex.Parse(filepath.Join(repo, "dosnode", "dos_query_handler.go"))
	if err != nil {
		return "", err
	}
	fset2, stages, err := ex.Parse(filepath.Join(repo, "dosnode", "dos_stages.go"))
	if err != nil {
		return "", err
	}
	ql := ex.FuncDecl(qh, "DosNode", "queryLoop")
	if ql == nil {
		return "", fmt.Errorf("queryLoop not found")
	}
	w := &walker{fset: fset}
	w.stmts(ql.Body.List, 0)

	hq := ex.FuncDecl(qh, "DosNode", "handleQuery")
	if hq == nil {
		return "", fmt.Errorf("handleQuery not found")
	}
	wire, err := fieldOf(fset, hq, "vss.Signature", "RequestId")
	if err != nil {
		return "", err
	}
	wireIdx, err := fieldOf(fset, hq, "vss.Signature", "Index")
	if err != nil {
		return "", err
	}
	var dsArg string
	n := 0
	ast.Inspect(hq, func(nd ast.Node) bool {
		if c, ok := nd.(*ast.CallExpr); ok {
			if id, ok := c.Fun.(*ast.Ident); ok && id.Name == "dispatchSign" && len(c.Args) == 8 {
				dsArg = src(fset, c.Args[5]) + " via " + src(fset, c.Args[3])
				n++
			}
		}
		return true
	})
	if n != 1 {
		return "", fmt.Errorf("handleQuery: %d dispatchSign calls", n)
	}
	ds := ex.FuncDecl(stages, "", "dispatchSign")
	if ds == nil {
		return "", fmt.Errorf("dispatchSign not found")
	}
	if len(ds.Type.Params.List) < 6 {
		return "", fmt.Errorf("dispatchSign: parameter list changed")
	}
	var params []string
	for _, p := range ds.Type.Params.List {
		for _, nm := range p.Names {
			params = append(params, nm.Name)
		}
	}
	reg, err := fieldOf(fset2, ds, "request", "requestID")
	if err != nil {
		return "", err
	}
	regReply, err := fieldOf(fset2, ds, "request", "reply")
	if err != nil {
		return "", err
	}
	regCtx, err := fieldOf(fset2, ds, "request", "ctx")
	if err != nil {
		return "", err
	}

	// recoverSign: the deferred calls of its goroutine in source order (they run in reverse), and the
	// body of drainSigns, which keeps the registered reply channel served after the stage returned
	rsd := ex.FuncDecl(stages, "", "recoverSign")
	if rsd == nil {
		return "", fmt.Errorf("recoverSign not found")
	}
	var rsParams, rsDefers []string
	for _, p := range rsd.Type.Params.List {
		for _, nm := range p.Names {
			rsParams = append(rsParams, nm.Name)
		}
	}
	goN := 0
	ast.Inspect(rsd, func(nd ast.Node) bool {
		if g, ok := nd.(*ast.GoStmt); ok {
			if fl, ok := g.Call.Fun.(*ast.FuncLit); ok {
				goN++
				for _, st := range fl.Body.List { // top level of the goroutine only
					if d, ok := st.(*ast.DeferStmt); ok {
						rsDefers = append(rsDefers, src(fset2, d.Call))
					}
				}
			}
		}
		return true
	})
	if goN != 1 {
		return "", fmt.Errorf("recoverSign: %d goroutines", goN)
	}
	var drain []string
	var drainParams []string
	if dd := ex.FuncDecl(stages, "", "drainSigns"); dd != nil {
		for _, p := range dd.Type.Params.List {
			for _, nm := range p.Names {
				drainParams = append(drainParams, nm.Name)
			}
		}
		wd := &walker{fset: fset2}
		wd.stmts(dd.Body.List, 0)
		drain = wd.lines
	}

	// handleQuery: the deadline, the context handed to the stages, the deferred calls, and the WIRING of the
	// stages as data: (switch case label or "", callee, results, arguments) for every stage call in order
	stageNames := map[string]bool{"choseSubmitter": true, "genSysRandom": true, "genUserRandom": true, "genQueryResult": true,
		"genSign": true, "dispatchSign": true, "recoverSign": true, "reportQueryResult": true, "mergeErrors": true}
	type stageWire struct {
		label, callee string
		outs, args    []string
	}
	var wires []stageWire
	var hqDefers []string
	ctxDefs := map[string]string{}
	var visit func(list []ast.Stmt, label string)
	record := func(label string, lhs []ast.Expr, e ast.Expr) {
		ast.Inspect(e, func(nd ast.Node) bool {
			c, ok := nd.(*ast.CallExpr)
			if !ok {
				return true
			}
			id, ok := c.Fun.(*ast.Ident)
			if !ok || !stageNames[id.Name] {
				return true
			}
			w := stageWire{label: label, callee: id.Name}
			if c == e { // the call is the whole right-hand side: its results are the left-hand side
				for _, l := range lhs {
					w.outs = append(w.outs, src(fset, l))
				}
			}
			for _, a := range c.Args {
				w.args = append(w.args, src(fset, a))
			}
			wires = append(wires, w)
			return true
		})
	}
	visit = func(list []ast.Stmt, label string) {
		for _, st := range list {
			switch x := st.(type) {
			case *ast.AssignStmt:
				if len(x.Rhs) == 1 {
					record(label, x.Lhs, x.Rhs[0])
					if len(x.Lhs) >= 1 {
						if n := src(fset, x.Lhs[0]); n == "queryCtx" || n == "queryCtxWithValue" {
							ctxDefs[n] = src(fset, x.Rhs[0])
						}
					}
				}
			case *ast.ExprStmt:
				record(label, nil, x.X)
			case *ast.DeferStmt:
				if t := src(fset, x.Call); !isLog(t) {
					hqDefers = append(hqDefers, t)
				}
			case *ast.SwitchStmt:
				for _, c := range x.Body.List {
					cc := c.(*ast.CaseClause)
					var ls []string
					for _, e := range cc.List {
						ls = append(ls, src(fset, e))
					}
					visit(cc.Body, src(fset, x.Tag)+"=="+strings.Join(ls, "|"))
				}
			}
		}
	}
	visit(hq.Body.List, "")
	leanStrs := func(xs []string) string {
		out := "["
		for i, x := range xs {
			if i > 0 {
				out += ", "
			}
			out += ex.LeanStr(x)
		}
		return out + "]"
	}
	wiring := "def handleQueryWiring : List (String × String × List String × List String) := ["
	for i, w := range wires {
		if i > 0 {
			wiring += ","
		}
		wiring += fmt.Sprintf("\n  (%s, %s, %s, %s)", ex.LeanStr(w.label), ex.LeanStr(w.callee), leanStrs(w.outs), leanStrs(w.args))
	}
	wiring += "\n]\n"

	// the hook copy of queryLoop with an injected tick channel (dosnode/zz_verif_c13.go, build tag verif)
	var tickLines, tickParams []string
	if fsetT, hk, err := ex.Parse(filepath.Join(repo, "dosnode", "zz_verif_c13.go")); err == nil {
		if tk := ex.FuncDecl(hk, "DosNode", "VerifQueryLoopTick"); tk != nil {
			wt := &walker{fset: fsetT}
			wt.stmts(tk.Body.List, 0)
			tickLines = wt.lines
			for _, p := range tk.Type.Params.List {
				for _, nm := range p.Names {
					tickParams = append(tickParams, nm.Name+" "+src(fsetT, p.Type))
				}
			}
		}
	}

	s := ex.Header("QueryLoopFacts", "dosnode/dos_query_handler.go (queryLoop, handleQuery), dosnode/dos_stages.go (dispatchSign, recoverSign, drainSigns)")
	s += "namespace Dos.Gen.QueryLoopFacts\n"
	s += "/-- control skeleton of queryLoop (logging and defers left out), indentation = nesting -/\n"
	s += leanList("queryLoop", w.lines)
	s += "/-- handleQuery: `RequestId:` / `Index:` of the vss.Signature every share message carries -/\n"
	s += fmt.Sprintf("def wireRequestId : String := %s\n", ex.LeanStr(wire))
	s += fmt.Sprintf("def wireIndex : String := %s\n", ex.LeanStr(wireIdx))
	s += "/-- handleQuery: request id argument and registration channel handed to dispatchSign -/\n"
	s += fmt.Sprintf("def dispatchArg : String := %s\n", ex.LeanStr(dsArg))
	s += "/-- dispatchSign: its parameter names, and the request it registers with queryLoop -/\n"
	s += leanList("dispatchParams", params)
	s += fmt.Sprintf("def registeredRequestId : String := %s\n", ex.LeanStr(reg))
	s += fmt.Sprintf("def registeredReply : String := %s\n", ex.LeanStr(regReply))
	s += fmt.Sprintf("def registeredCtx : String := %s\n", ex.LeanStr(regCtx))
	s += "/-- recoverSign: parameter names; the deferred calls of its goroutine in source order (run in reverse) -/\n"
	s += leanList("recoverSignParams", rsParams)
	s += leanList("recoverSignDefers", rsDefers)
	s += "/-- drainSigns (absent = empty lists): parameter names and control skeleton -/\n"
	s += leanList("drainSignsParams", drainParams)
	s += leanList("drainSigns", drain)
	s += "/-- handleQuery: the right-hand sides that define the query context (deadline) and the context handed to every stage; its deferred calls (logging left out) -/\n"
	s += fmt.Sprintf("def handleQueryCtx : String := %s\n", ex.LeanStr(ctxDefs["queryCtx"]))
	s += fmt.Sprintf("def handleQueryCtxWithValue : String := %s\n", ex.LeanStr(ctxDefs["queryCtxWithValue"]))
	s += leanList("handleQueryDefers", hqDefers)
	s += "/-- handleQuery: every stage call in order as (switch case label or \"\", callee, results, arguments) -/\n"
	s += wiring
	s += "/-- hook VerifQueryLoopTick (dosnode/zz_verif_c13.go): parameters and control skeleton, same walker as queryLoop -/\n"
	s += leanList("queryLoopTickParams", tickParams)
	s += leanList("queryLoopTick", tickLines)
	s += "end Dos.Gen.QueryLoopFacts\n"
	return s, nil
}

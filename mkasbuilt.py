#!/usr/bin/env python3
"""Regenerates the as-built summary table of DESIGN.md §13.4 from meta/*.json and evidence/*.json."""
import json, glob, os, re
root = os.path.dirname(os.path.abspath(__file__))
rows = []
for f in sorted(glob.glob(os.path.join(root, "meta", "C*.json"))):
    pid = os.path.basename(f)[:-5]
    m = json.load(open(f))
    ev = {}
    ep = os.path.join(root, "evidence", pid + ".json")
    if os.path.exists(ep):
        ev = json.load(open(ep)).get("coverage", {})
    tie = ("T+C" if m.get("gen") else "C") + (" (" + ", ".join(m.get("gen")) + ")" if m.get("gen") else "")
    partial = "; ".join(p.split(":")[0][:160] for p in m.get("partial", [])) or "–"
    rows.append("| %s | %s | %s | %s | %s | %s |" % (pid, ev.get("obligations", "?"), tie, ev.get("evaluations", "?"), "yes" if ev.get("exhaustive") else "no", partial.replace("|", "/")))
table = "| id | theorems audited | tie (regenerated facts) | cases in the last quick run | exhaustive part | partial (details in meta/Cxx.json, design/Cxx.md) |\n|---|---|---|---|---|---|\n" + "\n".join(rows)
p = os.path.join(root, "DESIGN.md")
s = open(p).read()
s = re.sub(r"<!-- ASBUILT-TABLE-BEGIN -->.*?<!-- ASBUILT-TABLE-END -->", "<!-- ASBUILT-TABLE-BEGIN -->\n" + table + "\n<!-- ASBUILT-TABLE-END -->", s, flags=re.S)
open(p, "w").write(s)
print(len(rows), "rows")

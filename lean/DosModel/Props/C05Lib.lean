/-
C05 at LIBRARY level (round 5, review C finding 1): the observation point the property names is
`Certified()/QUAL()/DistKeyShare()` of a `DistKeyGenerator`, not the pipeline of `pdkg_pipes.go`.

On the tree before /repo fix 5814a9f the two last clauses of the property were FALSE here: a generator
that answered a bad deal with a complaint ended `Certified() = true`, `QUAL = [0 1 2]`, and
`DistKeyShare()` returned the rejected share (n = 3: dealer 2 seals f(1)+1 for member 0, everybody else
honest; `aggregator.DealCertified` counts the own complaint as a response, `VerifyDeal` keeps the
rejected deal).  Only `getAndProcessDeals`' early return kept a node out of that state, and the former
theorem `finished_approved_all` needed exactly that (`MemberInv.AllApproved`).  The model is the tree
WITH the fix (`Verifier.approved`, `Verifier.DealCertified`); the failing run is replayed from
corpus/C05/006-lib-finished-after-complaint.txt (a `libadv` line on real generators) on every run, and
`pre_fix_rule_certifies_a_complainer` below evaluates the old rule on the same run in the model.

All theorems: every field/module, every group, every reachable LIBRARY state – any sequence of
`ProcessDeal`, `ProcessResponse`, `ProcessJustification` calls with ANY arguments (`libRun`), after
`initDistKeyGenerator`.  No pipeline invariant, no hypothesis about the messages.
Helper lemmas: `Proofs/DkgLib.lean`.
-/
import DosModel.Proofs.DkgLib
import Mathlib.Algebra.Order.Field.Rat

set_option linter.unusedSectionVars false

namespace Dos.Props.C05Lib
open Dos Dos.Vss Dos.Dkg

variable {F G : Type} [Field F] [AddCommGroup G] [Module F G] [DecidableEq F] [DecidableEq G]

/-- **L0. the library invariant is reachable-closed**: it holds for the generator
`initDistKeyGenerator` returns and after every sequence of library calls with arbitrary arguments. -/
theorem lib_invariant_reachable (g : G) (long : F) (participants : List G) (f : List F) (d : Gen F G)
    (h : newGen g long participants f = .ok d) (ops : List (LibOp F G)) : LibInv g (libRun g d ops) :=
  libRun_inv g ops d (newGen_lib g long participants f d h)

/-- **L1. `finished_approved_all` at library level.**  In every reachable library state, if
`Certified()` holds then for EVERY dealer of the group the slot's verifier approved the deal it holds
(`approved`, written by the `ProcessEncryptedDeal` that answered it with an approval), that deal is
stored, is consistent with its own commitments (valid threshold, bound session id, share on the
committed polynomial) and its share is for this member's index. -/
theorem finished_approved_all_lib (g : G) (d : Gen F G) (hd : LibInv g d) (hc : certified d = true) :
    ∀ j, j < d.participants.length → ∃ v a dl val, getVerifier d j = some v ∧ v.approved = true ∧
      d.participants[j]? = some v.dealer ∧ v.agg = some a ∧ a.deal = some dl ∧
      Consistent g v.dealer d.participants dl ∧ dl.share = some ⟨(d.index : Int), some val⟩ := by
  intro j hj
  obtain ⟨v, hv, hcert⟩ := (qual_all d hd.len hc).2 j hj
  have hap := dealCertified_approved hcert
  have hs := hd.slot j v hv
  obtain ⟨a, dl, val, h1, h2, h3, h4⟩ := hs.happ hap
  exact ⟨v, a, dl, val, hv, hap, hs.hdealer, h1, h2, by rw [← hs.hvs]; exact h3, h4⟩

/-- **L2. "a recipient that did not approve a deal does not finish", library level.**  If `ProcessDeal`
answered a deal with a complaint, then after ANY further library calls – responses of everybody,
justifications (valid or not), further deals – `Certified()` is false and `DistKeyShare()` refuses. -/
theorem complaint_never_finishes_lib (g : G) (d : Gen F G) (hd : LibInv g d) (dd : DkgDeal F G)
    (resp : DkgResp F G) (r : Response F G) (hok : (processDeal g d dd).2 = .ok resp)
    (hr : resp.resp = some r) (hs : r.status = false) (ops : List (LibOp F G)) :
    certified (libRun g (processDeal g d dd).1 ops) = false ∧
    distKeyShare (libRun g (processDeal g d dd).1 ops) = .err .notCertified := by
  obtain ⟨hinv, hresp⟩ := processDeal_lib g d dd hd
  obtain ⟨_, r', w, hr', _, hw, hwa⟩ := hresp resp hok
  rw [hr] at hr'; injection hr' with hr'; subst hr'
  obtain ⟨v', hv', ha'⟩ := approved_stable g ops _ hinv dd.index w hw
  have hnc := not_certified_of_unapproved _ (libRun_inv g ops _ hinv).len dd.index v' hv' (by rw [ha', hwa, hs])
  exact ⟨hnc, by simp [distKeyShare, hnc]⟩

/-- **L3. each finished share lies on the returned public polynomial, library level**: whatever the
generator was sent, if `DistKeyShare()` returns a share then `share • g = Σ Cₖ (i+1)ᵏ` for the returned
commitments (no "all own responses are approvals" hypothesis any more). -/
theorem lib_share_on_poly (g : G) (d : Gen F G) (ks : KeyShare F G) (hd : LibInv g d)
    (h : distKeyShare d = .ok ks) :
    ks.shareV • g = pubEval (S := F) ks.commits (d.index : Int) := by
  have hc : certified d = true := by
    rcases hc : certified d with _ | _
    · simp [distKeyShare, hc] at h
    · rfl
  obtain ⟨hn, hslots, hcom, hlens, hsh, _, _⟩ := distKeyShare_spec d ks hd.len h
  have key : ∀ j, j < d.participants.length →
      valAt d j • g = pubEval (S := F) (commitsAt d j) (d.index : Int) := by
    intro j hj
    obtain ⟨v, a, dl, val, hv, _, _, hagg, hdeal, hcons, h5⟩ := finished_approved_all_lib g d hd hc j hj
    obtain ⟨i', v', hs', _, _, _, _, hchk⟩ := hcons
    rw [h5] at hs'; injection hs' with hs'; injection hs' with hi hv'
    injection hv' with hv'; subst hv'; subst hi
    have hda : dealAt d j = some dl := by simp [dealAt, hv, hagg, hdeal]
    simp only [valAt, commitsAt, hda, valOf, h5]
    exact hchk
  rw [hsh, hcom]
  have := sum_share_on_sum_commits g ks.commits.length
    ((List.range d.participants.length).map (fun j => (valAt d j, commitsAt d j))) (d.index : Int)
    (by intro x hx; obtain ⟨j, hj, rfl⟩ := List.mem_map.1 hx; exact hlens j (List.mem_range.1 hj))
    (by intro x hx; obtain ⟨j, hj, rfl⟩ := List.mem_map.1 hx; exact key j (List.mem_range.1 hj))
  simpa [List.map_map, Function.comp_def] using this

/-! ### the run of review C finding 1 in the model (ℚ, `g = 1`, keys 5, 7, 9; member 0's view) -/

section Examples
def exL : List ℚ := [5, 7, 9]
/-- member 0 (key 5, polynomial 4 + 2x) -/
def exGen : Option (Gen ℚ ℚ) := (newGen (1 : ℚ) 5 exL [4, 2]).toOption
/-- what member `k` (key `long`) deals to member 0 with polynomial `f`; `off` is added to the share -/
def exDeal (k : Nat) (long : ℚ) (f : List ℚ) (off : ℚ) : DkgDeal ℚ ℚ :=
  ⟨k, sealDeal (1 : ℚ) long exL 0 (11 + k) 0
    (.deal { (honestDeal (1 : ℚ) long exL f 0 : Deal ℚ ℚ) with share := some ⟨0, some (priEval f 0 + off)⟩ })⟩
def exSid (long : ℚ) (f : List ℚ) : Sid ℚ := .h long exL (commit (1 : ℚ) f) f.length
/-- an approval of `responder` (key `sk`) for the dealing (dealer key `long`, polynomial `f`) -/
def exResp (dealer responder : Nat) (sk long : ℚ) (f : List ℚ) : LibOp ℚ ℚ :=
  .resp ⟨dealer, some ⟨exSid long f, responder, true, .sign sk (exSid long f) responder true 0⟩⟩
/-- own deal, member 1's good deal, member 2's deal with f(1)+1, then every approval of the others -/
def exOps : List (LibOp ℚ ℚ) :=
  [.deal (exDeal 0 5 [4, 2] 0), .deal (exDeal 1 7 [6, 1] 0), .deal (exDeal 2 9 [3, 8] 1),
   exResp 0 1 7 5 [4, 2], exResp 0 2 9 5 [4, 2], exResp 1 2 9 7 [6, 1], exResp 2 1 7 9 [3, 8]]
def exEnd : Option (Gen ℚ ℚ) := exGen.map (fun d => libRun (1 : ℚ) d exOps)

/-- the rule of the tree before 5814a9f (`aggregator.DealCertified` alone decides) -/
def oldCertified (d : Gen ℚ ℚ) : Bool :=
  (List.range d.verifiers.length).all (fun j =>
    match getVerifier d j with
    | some v => (match v.agg with | some a => a.certified | none => false)
    | none => false)

-- member 0 complained about dealer 2 …
example : exGen.map (fun d => ((processDeal (1 : ℚ) (libRun 1 d (exOps.take 2)) (exDeal 2 9 [3, 8] 1)).2.toOption.bind
    (·.resp)).map (·.status)) = some (some false) := by decide +kernel
-- … every aggregator is complete (the old rule certifies all three dealers) …
/-- negation witness for the tree before the fix: the old rule certifies a member that complained -/
theorem pre_fix_rule_certifies_a_complainer : exEnd.map oldCertified = some true := by decide +kernel
-- … and with the fix the generator is not certified and hands out no share (L2 on this run)
example : exEnd.map certified = some false := by decide +kernel
example : exEnd.map (fun d => match distKeyShare d with | .err .notCertified => true | _ => false) = some true := by
  decide +kernel
-- L0/L1/L3 are not vacuous: the all-honest run of the same group is certified and its share is on the polynomial
def exOpsGood : List (LibOp ℚ ℚ) :=
  [.deal (exDeal 0 5 [4, 2] 0), .deal (exDeal 1 7 [6, 1] 0), .deal (exDeal 2 9 [3, 8] 0),
   exResp 0 1 7 5 [4, 2], exResp 0 2 9 5 [4, 2], exResp 1 2 9 7 [6, 1], exResp 2 1 7 9 [3, 8]]
example : (exGen.map (fun d => certified (libRun (1 : ℚ) d exOpsGood))) = some true := by decide +kernel
example : (exGen.map (fun d => match distKeyShare (libRun (1 : ℚ) d exOpsGood) with
    | .ok ks => decide (ks.shareV • (1 : ℚ) = pubEval (S := ℚ) ks.commits 0) | _ => false)) = some true := by
  decide +kernel
end Examples

end Dos.Props.C05Lib

package c07

// The signed content on its way to the chain in a GROUP of n members (round 5).
//
//	pm <kind> <n> <ids> <lastRand> <reqId> <seed> <sel> <doc> <parsed> <doc2> <parsed2> <blen> <faults> <order>
//
// kind = sys | user | url; ids = the member list as announced (hex;hex;…, member i holds ids[i]
// and share i of a fresh (n/2+1)-of-n group key); for url: the selector, the document the data
// source serves and what dataParse gave for it when the case was generated (hex | err), a second
// document with its result, the length of an over-long body, and per member WHAT THE SERVER DID
// TO THAT MEMBER (the requester controls the server, it may treat members differently):
//
//	o  served <doc>                      2  served <doc2> (another result, or a selector error)
//	c  connection cut before any answer  e  answer cut in the middle of the body
//	b  served a body of <blen> bytes (longer than the 16 MiB a node reads)
//
// order = the order in which the members' pipelines are started. Every member runs the REAL stages
// wired as handleQuery wires them (choseSubmitter → content stage → genSign → dispatchSign →
// recoverSign → reportQueryResult) on a real DosNode with its real queryLoop; the p2p double hands a
// member's Request to the addressed member's subscription channel; each member has its own
// recording chain double. Non-submitters run to completion one after the other; then a flush share
// (nil Content: recoverSign skips it with an error) is sent after the peers' shares so that the
// harness knows, without timing, when the submitter has looked at every share.
//
// Printed: sub=<i> sent=<members whose share reached the submitter> nil=<members that called
// Request without a share> rep=<member>:<rand|data>:<result> (or rep=-).
//
// Oracle (from the case line alone, math/big, no model): whatever is reported is exactly the content
// function of the request – only the submitter reports, at most once, result ‖ submitter address is
// the content of (request, the document THE SUBMITTER was served), with the request's id and type
// and a signature that verifies for it under the group key; a member whose content stage failed
// sends no share, and a submitter whose content stage failed reports nothing (path-report-without-
// own-content) even when enough peers delivered shares; and when the submitter and at least t-1
// others computed the same content it is reported (path-no-report).

import (
	"bytes"
	"context"
	"fmt"
	"math/big"
	"net"
	"net/http"
	"reflect"
	"sort"
	"strconv"
	"strings"
	"sync"
	"time"

	"github.com/DOSNetwork/core/dosnode"
	"github.com/DOSNetwork/core/p2p"
	"github.com/DOSNetwork/core/share"
	vss "github.com/DOSNetwork/core/share/vss/pedersen"
	"github.com/DOSNetwork/core/sign/bls"
	"github.com/golang/protobuf/proto"

	"verifharness/internal/doubles"
	"verifharness/internal/h"
)

type groupN struct {
	pub    *share.PubPoly
	shares []*share.PriShare
}

var (
	gnMu sync.Mutex
	gns  = map[int]groupN{}
)

func groupOf(n int) groupN {
	gnMu.Lock()
	defer gnMu.Unlock()
	if g, ok := gns[n]; ok {
		return g
	}
	pri := share.NewPriPoly(suite.G2(), n/2+1, nil, suite.RandomStream())
	g := groupN{pub: pri.Commit(suite.G2().Point().Base()), shares: pri.Shares(n)}
	gns[n] = g
	return g
}

// special paths of the local data source
const (
	pathCut = "/cut"  // the connection is closed before any answer
	pathEOF = "/eof"  // headers promise 1000 bytes, 3 arrive
	pathBig = "/big/" // /big/<len>: a body of len bytes 'x'
)

func specialPath(w http.ResponseWriter, r *http.Request) bool {
	switch {
	case r.URL.Path == pathCut, r.URL.Path == pathEOF:
		hj, ok := w.(http.Hijacker)
		if !ok {
			w.WriteHeader(500)
			return true
		}
		conn, buf, err := hj.Hijack()
		if err != nil {
			return true
		}
		if r.URL.Path == pathEOF {
			buf.WriteString("HTTP/1.1 200 OK\r\nContent-Length: 1000\r\nContent-Type: text/plain\r\n\r\nabc")
			buf.Flush()
		}
		if tc, ok := conn.(*net.TCPConn); ok && r.URL.Path == pathCut {
			tc.SetLinger(0)
		}
		conn.Close()
		return true
	case strings.HasPrefix(r.URL.Path, pathBig):
		n, _ := strconv.Atoi(r.URL.Path[len(pathBig):])
		w.Header().Set("Content-Length", strconv.Itoa(n))
		chunk := bytes.Repeat([]byte{'x'}, 1<<16)
		for n > 0 {
			k := len(chunk)
			if n < k {
				k = n
			}
			if _, err := w.Write(chunk[:k]); err != nil {
				return true
			}
			n -= k
		}
		return true
	}
	return false
}

func srvBase() string {
	docURL(nil) // starts the server
	return srv.URL
}

func parsedTok(s string) ([]byte, bool) {
	if s == "err" || s == "panic" {
		return nil, false
	}
	return exact(h.UnHex(s)), true
}

type pmMember struct {
	p     *doubles.P2P
	chain *doubles.Chain
	node  *dosnode.DosNode
	done  chan struct{} // closed when reportQueryResult's error channel is closed: the pipeline is through
	skips chan struct{} // one value per "Detected nil pointer and skipped" of recoverSign
}

func execPM(w []string) (res h.Result) {
	res.Nontrivial = true
	kind, n := w[1], h.Atoi(w[2])
	var ids [][]byte
	for _, s := range strings.Split(w[3], ";") {
		ids = append(ids, exact(h.UnHex(s)))
	}
	last, rid, seed := h.BigDec(w[4]), h.BigDec(w[5]), h.BigDec(w[6])
	sel := string(h.UnHex(w[7]))
	doc, doc2 := exact(h.UnHex(w[8])), exact(h.UnHex(w[10]))
	parsed, pok := parsedTok(w[9])
	parsed2, pok2 := parsedTok(w[11])
	blen := h.Atoi(w[12])
	faults := w[13]
	var order []int
	for _, s := range strings.Split(w[14], ",") {
		order = append(order, h.Atoi(s))
	}
	if len(ids) != n || len(faults) != n || len(order) != n || n == 0 {
		panic("bad pm line")
	}
	var ptype uint32
	switch kind {
	case "sys":
		ptype = 0
	case "user":
		ptype = 1
	case "url":
		ptype = 2
	default:
		panic("bad pm line")
	}
	t := n/2 + 1
	subI := int(new(big.Int).Mod(new(big.Int).And(last, new(big.Int).Sub(two64, big.NewInt(1))), big.NewInt(int64(n))).Int64())
	subAddr := exact(ids[subI])

	// ---- what each member should sign, from the case line alone
	want := make([][]byte, n) // nil = the member's content stage fails
	for i := 0; i < n; i++ {
		switch kind {
		case "sys":
			want[i] = append(new(big.Int).Mod(last, two256).FillBytes(make([]byte, 32)), subAddr...)
		case "user":
			want[i] = append(append(append(append([]byte{}, minBytes(rid)...), minBytes(last)...), minBytes(seed)...), subAddr...)
		case "url":
			switch faults[i] {
			case 'o':
				if pok {
					want[i] = append(append([]byte{}, parsed...), subAddr...)
				}
			case '2':
				if pok2 {
					want[i] = append(append([]byte{}, parsed2...), subAddr...)
				}
			}
		}
	}
	agree := 0
	for i := 0; i < n; i++ {
		if want[subI] != nil && want[i] != nil && bytes.Equal(want[i], want[subI]) {
			agree++
		}
	}
	failing := 0
	for i := range want {
		if want[i] == nil {
			failing++
		}
	}
	res.Class = fmt.Sprintf("pm %s sub:%s others-failing:%s", kind, map[bool]string{true: "ok", false: "fails"}[want[subI] != nil],
		map[bool]string{true: "some", false: "none"}[failing > 0 && !(failing == 1 && want[subI] == nil)])

	// ---- the group
	g := groupOf(n)
	keepIDs := make([][]byte, n)
	for i := range ids {
		keepIDs[i] = exact(ids[i])
	}
	ctx, cancel := context.WithTimeout(context.Background(), 60*time.Second)
	defer cancel()
	ms := make([]*pmMember, n)
	var mu sync.Mutex
	var reached, nilReq []int // members whose share reached the submitter's collector / that called Request without a share
	var stray []string
	memberOf := func(id []byte) int {
		for i := range keepIDs {
			if bytes.Equal(keepIDs[i], id) {
				return i
			}
		}
		return -1
	}
	for i := 0; i < n; i++ {
		i := i
		m := &pmMember{p: doubles.NewP2P(exact(keepIDs[i]), 0), chain: &doubles.Chain{}, done: make(chan struct{}), skips: make(chan struct{}, 64)}
		m.p.OnRequest = func(rctx context.Context, from, to []byte, msg proto.Message) (p2p.P2PMessage, error) {
			if msg == nil || reflect.ValueOf(msg).IsNil() {
				// the real p2p layer cannot encode a nil message: nothing reaches the wire
				mu.Lock()
				nilReq = append(nilReq, i)
				mu.Unlock()
				return p2p.P2PMessage{}, fmt.Errorf("nil message")
			}
			k := memberOf(to)
			if k != subI {
				mu.Lock()
				stray = append(stray, fmt.Sprintf("member %d sent a share to %x", i, to))
				mu.Unlock()
			}
			if k < 0 {
				return p2p.P2PMessage{}, fmt.Errorf("no such peer")
			}
			select {
			case ms[k].p.MsgCh <- doubles.Wrap(from, proto.Clone(msg)):
				if k == subI {
					mu.Lock()
					reached = append(reached, i)
					mu.Unlock()
				}
				return p2p.P2PMessage{}, nil
			case <-rctx.Done():
				return p2p.P2PMessage{}, rctx.Err()
			case <-ctx.Done():
				return p2p.P2PMessage{}, ctx.Err()
			}
		}
		m.node = dosnode.VerifNewNode(exact(keepIDs[i]), m.p, m.chain, nil, 21, quiet)
		ms[i] = m
		go m.node.VerifQueryLoop()
	}
	defer func() {
		for _, m := range ms {
			m.node.VerifCancel()
		}
	}()

	drain := func(c chan error) {
		go func() {
			for range c {
			}
		}()
	}
	base := srvBase()
	urlOf := func(i int) string {
		switch faults[i] {
		case 'o':
			return docURL(doc)
		case '2':
			return docURL(doc2)
		case 'c':
			return base + pathCut
		case 'e':
			return base + pathEOF
		case 'b':
			return base + pathBig + strconv.Itoa(blen)
		}
		panic("bad fault letter")
	}
	// the wiring of handleQuery (dos_query_handler.go; its stage arguments are pinned by c07_event_fields)
	start := func(i int) {
		m := ms[i]
		lastI, ridI, seedI := new(big.Int).Set(last), new(big.Int).Set(rid), new(big.Int).Set(seed)
		sign := &vss.Signature{Index: ptype, RequestId: ridI.Bytes(), Nonce: []byte{byte(i)}}
		subc, errc0 := dosnode.VerifChoseSubmitter(ctx, m.p, m.chain, lastI, ids, 2, quiet)
		drain(errc0)
		var contentc chan []byte
		switch kind {
		case "sys":
			contentc = dosnode.VerifGenSysRandom(ctx, subc[0], lastI.Bytes(), quiet)
		case "user":
			contentc = dosnode.VerifGenUserRandom(ctx, subc[0], ridI.Bytes(), lastI.Bytes(), seedI.Bytes(), quiet)
		case "url":
			var errcq chan error
			contentc, errcq = dosnode.VerifGenQueryResult(ctx, subc[0], urlOf(i), sel, quiet)
			drain(errcq)
		}
		signc, errc1 := dosnode.VerifGenSign(ctx, contentc, g.shares[i], suite, sign, quiet)
		drain(errc1)
		all := m.node.VerifDispatchSign(ctx, subc[1], signc, ridI.Bytes(), n/2+1)
		rec, errc2 := dosnode.VerifRecoverSign(ctx, all, suite, g.pub, n/2+1, n, quiet)
		go func() {
			for e := range errc2 {
				if e != nil && strings.Contains(e.Error(), "Detected nil pointer") {
					select {
					case m.skips <- struct{}{}:
					default:
					}
				}
			}
		}()
		errc3 := dosnode.VerifReportQueryResult(ctx, m.chain, ptype, rec)
		go func() {
			for range errc3 {
			}
			close(m.done)
		}()
	}
	timedOut := ""
	wait := func(c chan struct{}, d time.Duration) bool {
		tm := time.NewTimer(d)
		defer tm.Stop()
		select {
		case <-c:
			return true
		case <-tm.C:
			return false
		}
	}
	for _, i := range order {
		start(i)
		if i != subI && timedOut == "" {
			if !wait(ms[i].done, 10*time.Second) {
				timedOut = fmt.Sprintf("member %d (not the submitter) did not finish", i)
			}
		}
	}
	if timedOut == "" {
		// flush: after every peer share, one share the recovery stage skips with an error
		flush := &vss.Signature{Index: ptype, RequestId: rid.Bytes(), Signature: []byte{1}}
		if !ms[subI].p.DeliverTimeout([]byte("harness"), flush, 10*time.Second) {
			timedOut = "the submitter's queryLoop did not take a share"
		} else {
			need := 1
			if want[subI] == nil {
				need = 2 // code that forwards a nil own share reports that skip first
			}
			tm := time.NewTimer(15 * time.Second)
		L:
			for {
				select {
				case <-ms[subI].done:
					break L
				case <-ms[subI].skips:
					need--
					if need == 0 {
						break L
					}
				case <-tm.C:
					timedOut = "the submitter neither finished nor looked at the flush share"
					break L
				}
			}
			tm.Stop()
		}
	}
	// ---- what happened
	type rp struct {
		who int
		r   doubles.Report
	}
	var reps []rp
	for i, m := range ms {
		for _, r := range m.chain.Reports() {
			reps = append(reps, rp{i, r})
		}
	}
	mu.Lock()
	sort.Ints(reached)
	sort.Ints(nilReq)
	sent, nils, strays := ints(reached), ints(nilReq), append([]string(nil), stray...)
	mu.Unlock()
	cancel()
	var o []string
	repS := "-"
	if len(reps) > 0 {
		var parts []string
		for _, r := range reps {
			c := "nil"
			if r.r.Sig != nil {
				c = h.Hex(r.r.Sig.Content)
			}
			parts = append(parts, fmt.Sprintf("%d:%s:%s", r.who, r.r.Kind, c))
		}
		repS = strings.Join(parts, ",")
	}
	res.Impl = fmt.Sprintf("sub=%d sent=%s nil=%s rep=%s", subI, sent, nils, repS)
	if timedOut != "" {
		res.Impl = "timeout"
		o = append(o, "path-wedged: "+timedOut)
	}
	for _, s := range strays {
		o = append(o, "path-addressee: "+s+", the submitter is member "+strconv.Itoa(subI))
	}
	if len(reps) > 1 {
		o = append(o, fmt.Sprintf("path-report: %d reports for one request", len(reps)))
	}
	for _, r := range reps {
		switch {
		case r.who != subI:
			o = append(o, fmt.Sprintf("path-nonsubmitter-reports: member %d reported, the submitter is member %d", r.who, subI))
		case r.r.Sig == nil:
			o = append(o, "path-content: a nil message was reported")
		case want[subI] == nil:
			o = append(o, fmt.Sprintf("path-report-without-own-content: the submitter's own content stage failed (%c) and it reported %.60s", faults[subI], h.Hex(r.r.Sig.Content)))
		default:
			full := append(exact(r.r.Sig.Content), subAddr...)
			if !bytes.Equal(full, want[subI]) {
				o = append(o, fmt.Sprintf("path-content: the reported result followed by the submitter address (%.60s) is not the content function of the request (%.60s)", h.Hex(full), h.Hex(want[subI])))
			}
			if (kind == "sys") != (r.r.Kind == "rand") {
				o = append(o, "path-kind: request kind "+kind+" was reported with the "+r.r.Kind+" call")
			}
			if r.r.Sig.Index != ptype || !bytes.Equal(r.r.Sig.RequestId, rid.Bytes()) {
				o = append(o, "path-id: the report does not carry the request's id and type")
			}
			if err := bls.Verify(suite, g.pub.Commit(), want[subI], r.r.Sig.Signature); err != nil {
				o = append(o, "path-signature: the reported signature does not verify for the content of the request under the group key")
			}
		}
	}
	if timedOut == "" && len(reps) == 0 && agree >= t && len(subAddr) >= 0 && len(want[subI]) >= 20 {
		o = append(o, fmt.Sprintf("path-no-report: the submitter and %d other members computed the same content (t = %d) and nothing was reported", agree-1, t))
	}
	for i := 0; i < n; i++ {
		if i == subI {
			continue
		}
		in := func(l []int) bool {
			for _, x := range l {
				if x == i {
					return true
				}
			}
			return false
		}
		if want[i] == nil && in(reached) {
			o = append(o, fmt.Sprintf("path-share-without-content: member %d's content stage failed (%c) and it sent a share", i, faults[i]))
		}
		if want[i] != nil && !in(reached) && timedOut == "" {
			o = append(o, fmt.Sprintf("path-share-missing: member %d computed a content and its share did not reach the submitter", i))
		}
	}
	for i := range ids {
		if !bytes.Equal(ids[i], keepIDs[i]) {
			o = append(o, "input-modified: the member list was changed by the stages")
		}
	}
	res.Oracle = pick(o, "path-report-without-own-content", "path-content", "path-", "input-modified")
	return
}

func ints(l []int) string {
	if len(l) == 0 {
		return "-"
	}
	var s []string
	for _, x := range l {
		s = append(s, strconv.Itoa(x))
	}
	return strings.Join(s, ",")
}

// ---------------------------------------------------------------- generation

func genPM(tier string, rng *h.Rng, emit func(string)) {
	rs := rands(rng, false)
	pickR := func() *big.Int { return rs[rng.Intn(60)] }
	idsOf := func(n int) string {
		ids := mkIDs(n + 3)
		p := rng.Perm(n + 3)
		var s []string
		for _, k := range p[:n] { // unsorted
			s = append(s, h.Hex(ids[k]))
		}
		return strings.Join(s, ";")
	}
	perm := func(n int) string { return ints(rng.Perm(n)) }
	lastFor := func(n, sub int) *big.Int { // a last randomness that makes member `sub` the submitter
		lo := new(big.Int).SetUint64(rng.U64() >> 1)
		lo.Sub(lo, new(big.Int).Mod(lo, big.NewInt(int64(n))))
		lo.Add(lo, big.NewInt(int64(sub)))
		if rng.Intn(2) == 0 {
			lo.Add(lo, new(big.Int).Lsh(new(big.Int).SetBytes(rng.Bytes(1+rng.Intn(20))), 64))
		}
		return lo
	}
	const blen = 16*1024*1024 + 1
	line := func(kind string, n int, last, rid, seed *big.Int, sel string, doc []byte, doc2 []byte, faults string) {
		p1, p2 := "-", "-"
		if kind == "url" {
			p1, p2 = parseOnce(doc, sel), parseOnce(doc2, sel)
		}
		emit(fmt.Sprintf("pm %s %d %s %s %s %s %s %s %s %s %s %d %s %s", kind, n, idsOf(n), last, rid, seed, h.Hex([]byte(sel)), h.Hex(doc), p1, h.Hex(doc2), p2, blen, faults, perm(n)))
	}
	reps := 2
	if tier == "thorough" {
		reps = 12
	}
	// sys / user: no content stage can fail; the pipeline with dispatchSign in it, n = 1..7
	for r := 0; r < reps; r++ {
		for n := 1; n <= 7; n++ {
			if r > 0 && n != 3 && n != 5 {
				continue
			}
			l := pickR()
			line("sys", n, l, l, big.NewInt(0), "", nil, nil, strings.Repeat("o", n))
			line("user", n, pickR(), pickR(), pickR(), "", nil, nil, strings.Repeat("o", n))
		}
	}
	// url: documents and selectors of the three dispatch branches; doc2 = another result or an error
	type q struct {
		sel        string
		doc, other []byte // other: served to the '2' members
	}
	mk := func() q {
		switch rng.Intn(6) {
		case 0: // JSON, the other document does not parse
			return q{"$.a", []byte(fmt.Sprintf(`{"a":%d,"b":[1,2]}`, rng.Intn(1000))), []byte(`{"a":`)}
		case 1: // JSON, the other document gives another value
			return q{"$..price", []byte(fmt.Sprintf(`{"items":[{"price":%d},{"price":7}]}`, rng.Intn(1000))), []byte(`{"items":[{"price":1}]}`)}
		case 2: // XML, the other document does not parse
			return q{"//a", []byte(fmt.Sprintf(`<r><a>%d</a><b/><a>x</a></r>`, rng.Intn(1000))), []byte(`<r><a>`)}
		case 3: // XML, another value
			return q{"/r/a[1]", []byte(fmt.Sprintf(`<r><a>%d</a><a>2</a></r>`, rng.Intn(1000))), []byte(`<r><a>other</a></r>`)}
		case 4: // raw document
			return q{"", rng.Bytes(1 + rng.Intn(80)), rng.Bytes(1 + rng.Intn(80))}
		}
		// the selector itself is bad: every member fails, whatever it is served
		return q{"$..[?(@.a >", []byte(`{"a":1}`), []byte(`{"a":2}`)}
	}
	fl := func(n, sub int, subF byte, others map[int]byte) string {
		b := bytes.Repeat([]byte{'o'}, n)
		b[sub] = subF
		for k, v := range others {
			b[k] = v
		}
		return string(b)
	}
	faultsOf := []byte{'c', 'e', '2'}
	for r := 0; r < reps; r++ {
		for _, n := range []int{3, 4, 5, 7} {
			t := n/2 + 1
			for _, f := range faultsOf {
				sub := rng.Intn(n)
				ns := (sub + 1 + rng.Intn(n-1)) % n
				// at the submitter only
				x := mk()
				line("url", n, lastFor(n, sub), pickR(), big.NewInt(0), x.sel, x.doc, x.other, fl(n, sub, f, nil))
				// at one non-submitter only
				x = mk()
				line("url", n, lastFor(n, sub), pickR(), big.NewInt(0), x.sel, x.doc, x.other, fl(n, sub, 'o', map[int]byte{ns: f}))
				// at n-t non-submitters (exactly t left), and at n-t+1 (one too many)
				for _, k := range []int{n - t, n - t + 1} {
					oth := map[int]byte{}
					for _, j := range rng.Perm(n) {
						if len(oth) < k && j != sub {
							oth[j] = faultsOf[rng.Intn(3)]
						}
					}
					x = mk()
					line("url", n, lastFor(n, sub), pickR(), big.NewInt(0), x.sel, x.doc, x.other, fl(n, sub, 'o', oth))
				}
			}
			// nobody fails; everybody is served the other document; the submitter alone is served the first
			x := mk()
			sub := rng.Intn(n)
			line("url", n, lastFor(n, sub), pickR(), big.NewInt(0), x.sel, x.doc, x.other, strings.Repeat("o", n))
			line("url", n, lastFor(n, sub), pickR(), big.NewInt(0), x.sel, x.doc, x.other, strings.Repeat("2", n))
			line("url", n, lastFor(n, sub), pickR(), big.NewInt(0), x.sel, x.doc, x.other, fl(n, sub, 'o', allBut(n, sub, '2')))
		}
	}
	// the 16 MiB bound as a per-member failure: the submitter / one other member is served one byte too many
	line("url", 3, lastFor(3, 1), pickR(), big.NewInt(0), "", []byte("doc"), []byte("doc"), "obo")
	line("url", 3, lastFor(3, 1), pickR(), big.NewInt(0), "", []byte("doc"), []byte("doc"), "boo")
}

func allBut(n, sub int, f byte) map[int]byte {
	m := map[int]byte{}
	for i := 0; i < n; i++ {
		if i != sub {
			m[i] = f
		}
	}
	return m
}

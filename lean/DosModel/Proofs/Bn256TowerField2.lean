/-
C10 layer 4 — ξ = i + 9 is neither a square nor a cube in gfP2 over the prime field of bn256.
Route (no exponentiation in F_p² needed): the norm N(x·i + y) = x² + y² : F_p² → F_p is
multiplicative and N(ξ) = 1 + 81 = 82; were ξ = c² (resp. c³), 82 = N(c)² (resp. N(c)³) would be a
square (cube) in F_p, hence 82^((p−1)/2) = 1 (resp. 82^((p−1)/3) = 1) by Fermat. Both powers are
evaluated by the kernel with the verified `Dos.Prime.powMod` and are ≠ 1.
-/
import DosModel.Proofs.Bn256Concrete2

namespace Dos.Bn256
namespace TowerField

/-- the norm of gfP2 over gfP: N(x·i + y) = x² + y² -/
def norm2 (a : Fp2 (ZMod p)) : ZMod p := a.x * a.x + a.y * a.y

theorem norm2_mul (a b : Fp2 (ZMod p)) : norm2 (a * b) = norm2 a * norm2 b := by
  obtain ⟨h1, h2⟩ := Fp2.mul_coords a b
  simp only [norm2, h1, h2]; ring

theorem norm2_xi : norm2 (Fp2.xi : Fp2 (ZMod p)) = 82 := by
  simp only [norm2, Fp2.xi]; norm_num

theorem one_lt_p : 1 < p := by decide

theorem eightyTwo_ne_zero : (82 : ZMod p) ≠ 0 := by
  intro h
  have h' : ((82 : ℕ) : ZMod p) = 0 := by exact_mod_cast h
  rw [ZMod.natCast_eq_zero_iff] at h'
  exact absurd (Nat.le_of_dvd (by decide) h') (by decide)

set_option maxRecDepth 1000000 in
/-- 82 is not a square modulo p (Euler's criterion, kernel-evaluated) -/
theorem pow82_half_ne_one : (82 : ZMod p) ^ ((p - 1) / 2) ≠ 1 := by
  have h : ¬ (Dos.Prime.powMod 82 ((p - 1) / 2) p % p = 1) := by decide +kernel
  intro e
  apply h
  rw [← Dos.Prime.zmod_pow_eq_one_iff p 82 _ one_lt_p]
  exact_mod_cast e

set_option maxRecDepth 1000000 in
/-- 82 is not a cube modulo p (3 ∣ p − 1, kernel-evaluated) -/
theorem pow82_third_ne_one : (82 : ZMod p) ^ ((p - 1) / 3) ≠ 1 := by
  have h : ¬ (Dos.Prime.powMod 82 ((p - 1) / 3) p % p = 1) := by decide +kernel
  intro e
  apply h
  rw [← Dos.Prime.zmod_pow_eq_one_iff p 82 _ one_lt_p]
  exact_mod_cast e

theorem two_mul_half : ((p - 1) / 2) * 2 = p - 1 := by decide
theorem three_mul_third : ((p - 1) / 3) * 3 = p - 1 := by decide

/-- **ξ is not a square in F_p²** -/
theorem xi_not_square (c : Fp2 (ZMod p)) : c * c ≠ Fp2.xi := by
  intro h
  have hn : norm2 c * norm2 c = 82 := by rw [← norm2_mul, h, norm2_xi]
  have hc : norm2 c ≠ 0 := by
    intro h0; rw [h0, mul_zero] at hn; exact eightyTwo_ne_zero hn.symm
  apply pow82_half_ne_one
  rw [← hn, ← pow_two, ← pow_mul, Nat.mul_comm, two_mul_half]
  exact ZMod.pow_card_sub_one_eq_one hc

/-- **ξ is not a cube in F_p²** -/
theorem xi_not_cube (c : Fp2 (ZMod p)) : c * c * c ≠ Fp2.xi := by
  intro h
  have hn : norm2 c ^ 3 = 82 := by
    rw [← norm2_xi, ← h, norm2_mul, norm2_mul]; ring
  have hc : norm2 c ≠ 0 := by
    intro h0; rw [h0] at hn; exact eightyTwo_ne_zero (by rw [← hn]; norm_num)
  apply pow82_third_ne_one
  rw [← hn, ← pow_mul, Nat.mul_comm, three_mul_third]
  exact ZMod.pow_card_sub_one_eq_one hc

end TowerField
end Dos.Bn256

// extract: regenerates lean/DosModel/Gen/*.lean from /repo's current working tree.
//
//	extract <repo> <leandir> [Name ...]     (no names = all)
package main

import (
	"fmt"
	"os"

	"verifharness/extract/ex"
)

func main() {
	if len(os.Args) < 3 {
		fmt.Fprintln(os.Stderr, "usage: extract <repo> <leandir> [Name ...]")
		os.Exit(2)
	}
	repo, lean := os.Args[1], os.Args[2]
	names := os.Args[3:]
	if len(names) == 0 {
		names = ex.Names()
	}
	rc := 0
	for _, n := range names {
		e := ex.Get(n)
		if e == nil {
			fmt.Fprintln(os.Stderr, "unknown extractor", n)
			rc = 2
			continue
		}
		body, err := e.Run(repo)
		if err != nil {
			// An extractor that can no longer find its anchor emits a Lean file that
			// does not compile, so every theorem depending on it becomes a broken obligation.
			fmt.Fprintf(os.Stderr, "extract %s: %v\n", n, err)
			body = ex.Header(n, "ERROR") + fmt.Sprintf("#eval (throw (IO.userError %s) : IO Unit)\nexample : False := extraction_failed\n", ex.LeanStr(err.Error()))
			rc = 1
		}
		if err := ex.WriteLean(lean, n, body); err != nil {
			fmt.Fprintln(os.Stderr, err)
			rc = 2
		}
	}
	os.Exit(rc)
}

// Package ed25519prog (C20, round 2): a second, independent syntax-directed go/ast
// translation of the straight-line int64 limb code of group/edwards25519/scalar.go
// (scMulAdd, scAdd, scSub, scMul, scReduce) — this time not into Lean *functions*
// (that is go/extract/ed25519sc → Gen/Ed25519Sc.lean) but into Lean *data*: every
// function becomes a value of `Dos.IntervalProg.ScProg`, a record of lists of
// statements `x := e` over the expression type
//
//	v i | c n | add | sub | mul | shr e k | shl e k | band | bor
//
// on which a verified interval analysis runs (Model/IntervalProg.lean,
// Proofs/IntervalProg.lean).  Nothing is simplified or pattern-matched here: one Go
// statement is one `⟨dst, rhs⟩`, `x += e` is `⟨x, add (v x) e⟩`, `x -= e` is
// `⟨x, sub (v x) e⟩`, parentheses disappear, `int64(k)` is `c k`.
//
// The data is NOT trusted: Proofs/Ed25519RangesTie.lean proves (by `rfl`, block by
// block) that evaluating it gives the functions of Gen/Ed25519Sc.lean, which is what
// every other C20 theorem is about.
//
// Phases of one function (same cut as ed25519sc):
//
//	loads : leading `x := …load3/load4…` definitions. Every call `load3(a[k:])` is a
//	        "raw" input variable (index = order of occurrence), described in `raw`
//	        as (3|4, index of the array parameter, k). Environment: raw ++ load vars.
//	init  : the following `x := e` definitions. Environment: load vars ++ init vars;
//	        `out` gives, for limb s0…s23, its index in that environment.
//	blocks: blank-line separated groups of assignments to s<i> / carry[<i>].
//	        Environment: s0…s23 ++ carry[0…n-1].
//	store : `out[i] = byte(e)`: the list of the 32 `e` over s0…s23.
package ed25519prog

import (
	"fmt"
	"go/ast"
	"go/token"
	"path/filepath"
	"strconv"
	"strings"

	"verifharness/extract/ex"
)

func init() {
	ex.Register(&ex.Extractor{Name: "Ed25519ScProg", Run: run})
}

var funcs = []string{"scMulAdd", "scAdd", "scSub", "scMul", "scReduce"}

type rawLoad struct {
	kind, arr, off int
}

type tr struct {
	fset   *token.FileSet
	out    string         // name of the output array parameter
	inputs map[string]int // byte-array parameters → position
	vars   map[string]int // current variable numbering
	raws   []rawLoad      // raw loads met so far (load phase)
	inLoad bool           // load calls allowed
	err    error
}

func (t *tr) fail(n ast.Node, f string, a ...interface{}) string {
	if t.err == nil {
		t.err = fmt.Errorf("%s: %s", t.fset.Position(n.Pos()), fmt.Sprintf(f, a...))
	}
	return "UNTRANSLATABLE"
}

func litNat(e ast.Expr) (uint64, bool) {
	if p, ok := e.(*ast.ParenExpr); ok {
		return litNat(p.X)
	}
	b, ok := e.(*ast.BasicLit)
	if !ok || b.Kind != token.INT {
		return 0, false
	}
	n, err := strconv.ParseUint(b.Value, 0, 64)
	if err != nil {
		return 0, false
	}
	return n, true
}

// name of an assignable variable: ident or carry[<lit>]
func lname(e ast.Expr) (string, bool) {
	switch x := e.(type) {
	case *ast.Ident:
		return x.Name, true
	case *ast.IndexExpr:
		if id, ok := x.X.(*ast.Ident); ok && id.Name == "carry" {
			if n, ok := litNat(x.Index); ok {
				return "carry" + strconv.FormatUint(n, 10), true
			}
		}
	}
	return "", false
}

func (t *tr) varRef(n ast.Node, name string) string {
	i, ok := t.vars[name]
	if !ok {
		return t.fail(n, "variable %s is not defined here", name)
	}
	return fmt.Sprintf("(.v %d)", i)
}

func (t *tr) expr(e ast.Expr) string {
	switch x := e.(type) {
	case *ast.ParenExpr:
		return t.expr(x.X)
	case *ast.BasicLit:
		if n, ok := litNat(x); ok {
			return fmt.Sprintf("(.c %d)", n)
		}
		return t.fail(e, "literal %s", x.Value)
	case *ast.Ident:
		return t.varRef(e, x.Name)
	case *ast.IndexExpr:
		if n, ok := lname(x); ok {
			return t.varRef(e, n)
		}
		return t.fail(e, "index expression")
	case *ast.BinaryExpr:
		switch x.Op {
		case token.ADD:
			return "(.add " + t.expr(x.X) + " " + t.expr(x.Y) + ")"
		case token.SUB:
			return "(.sub " + t.expr(x.X) + " " + t.expr(x.Y) + ")"
		case token.MUL:
			return "(.mul " + t.expr(x.X) + " " + t.expr(x.Y) + ")"
		case token.AND:
			return "(.band " + t.expr(x.X) + " " + t.expr(x.Y) + ")"
		case token.OR:
			return "(.bor " + t.expr(x.X) + " " + t.expr(x.Y) + ")"
		case token.SHR, token.SHL:
			n, ok := litNat(x.Y)
			if !ok {
				return t.fail(e, "shift by a non-literal")
			}
			f := ".shr"
			if x.Op == token.SHL {
				f = ".shl"
			}
			return fmt.Sprintf("(%s %s %d)", f, t.expr(x.X), n)
		}
		return t.fail(e, "operator %s", x.Op)
	case *ast.CallExpr:
		fn, ok := x.Fun.(*ast.Ident)
		if !ok || len(x.Args) != 1 {
			return t.fail(e, "call")
		}
		switch fn.Name {
		case "int64":
			return t.expr(x.Args[0])
		case "load3", "load4":
			if !t.inLoad {
				return t.fail(e, "load outside the load phase")
			}
			sle, ok := x.Args[0].(*ast.SliceExpr)
			if !ok || sle.High != nil || sle.Max != nil {
				return t.fail(e, "load argument")
			}
			arr, ok := sle.X.(*ast.Ident)
			if !ok {
				return t.fail(e, "load from a non-parameter")
			}
			ai, ok := t.inputs[arr.Name]
			if !ok {
				return t.fail(e, "load from a non-parameter")
			}
			off := uint64(0)
			if sle.Low != nil {
				if off, ok = litNat(sle.Low); !ok {
					return t.fail(e, "slice offset")
				}
			}
			kind := 3
			if fn.Name == "load4" {
				kind = 4
			}
			t.raws = append(t.raws, rawLoad{kind, ai, int(off)})
			return fmt.Sprintf("(.v %d)", len(t.raws)-1)
		}
		return t.fail(e, "call of %s", fn.Name)
	}
	return t.fail(e, "expression %T", e)
}

func hasLoad(e ast.Expr) bool {
	found := false
	ast.Inspect(e, func(n ast.Node) bool {
		if c, ok := n.(*ast.CallExpr); ok {
			if id, ok := c.Fun.(*ast.Ident); ok && (id.Name == "load3" || id.Name == "load4") {
				found = true
			}
		}
		return true
	})
	return found
}

type rawStmt struct {
	as    *ast.AssignStmt
	lhs   string // variable assigned ("" for a store)
	store int    // ≥0: out[store] = byte(…)
	line  int
}

func isLimb(n string) (int, bool) {
	if !strings.HasPrefix(n, "s") {
		return 0, false
	}
	i, err := strconv.Atoi(n[1:])
	if err != nil || i < 0 || i >= 24 || strconv.Itoa(i) != n[1:] {
		return 0, false
	}
	return i, true
}

func isCarry(n string) (int, bool) {
	if !strings.HasPrefix(n, "carry") {
		return 0, false
	}
	i, err := strconv.Atoi(n[5:])
	if err != nil || i < 0 || strconv.Itoa(i) != n[5:] {
		return 0, false
	}
	return i, true
}

// one assignment statement as ⟨dst, rhs⟩ in the current numbering
func (t *tr) assign(rs *rawStmt) string {
	as := rs.as
	dst, ok := t.vars[rs.lhs]
	if !ok {
		t.fail(as, "assignment to undefined %s", rs.lhs)
		return ""
	}
	var rhs string
	switch as.Tok {
	case token.DEFINE, token.ASSIGN:
		rhs = t.expr(as.Rhs[0])
	case token.ADD_ASSIGN:
		rhs = fmt.Sprintf("(.add (.v %d) %s)", dst, t.expr(as.Rhs[0]))
	case token.SUB_ASSIGN:
		rhs = fmt.Sprintf("(.sub (.v %d) %s)", dst, t.expr(as.Rhs[0]))
	default:
		t.fail(as, "assignment operator %s", as.Tok)
	}
	return fmt.Sprintf("⟨%d, %s⟩", dst, strings.TrimSuffix(strings.TrimPrefix(rhs, "("), ")"))
}

func progLit(sts []string) string {
	if len(sts) == 0 {
		return "[]"
	}
	return "[" + strings.Join(sts, ",\n   ") + "]"
}

func translate(fset *token.FileSet, fd *ast.FuncDecl) (string, error) {
	name := fd.Name.Name
	t := &tr{fset: fset, inputs: map[string]int{}}
	var params []string
	for _, fl := range fd.Type.Params.List {
		for _, n := range fl.Names {
			params = append(params, n.Name)
		}
	}
	if len(params) < 2 {
		return "", fmt.Errorf("%s: unexpected parameter list", name)
	}
	t.out = params[0]
	for i, p := range params[1:] {
		t.inputs[p] = i
	}
	nCarry := -1
	var sts []*rawStmt
	for _, s := range fd.Body.List {
		as, ok := s.(*ast.AssignStmt)
		if !ok {
			if ds, ok := s.(*ast.DeclStmt); ok { // var carry [23]int64
				if gd, ok := ds.Decl.(*ast.GenDecl); ok && gd.Tok == token.VAR && len(gd.Specs) == 1 {
					vs := gd.Specs[0].(*ast.ValueSpec)
					if at, ok := vs.Type.(*ast.ArrayType); ok && len(vs.Names) == 1 && vs.Names[0].Name == "carry" && len(vs.Values) == 0 {
						if n, ok := litNat(at.Len); ok {
							if id, ok := at.Elt.(*ast.Ident); ok && id.Name == "int64" {
								nCarry = int(n)
								continue
							}
						}
					}
				}
			}
			return "", fmt.Errorf("%s: %s: statement %T", name, fset.Position(s.Pos()), s)
		}
		if len(as.Lhs) != 1 || len(as.Rhs) != 1 {
			return "", fmt.Errorf("%s: %s: multi-assignment", name, fset.Position(s.Pos()))
		}
		rs := &rawStmt{as: as, store: -1, line: fset.Position(s.Pos()).Line}
		if ix, ok := as.Lhs[0].(*ast.IndexExpr); ok {
			if id, ok := ix.X.(*ast.Ident); ok && id.Name == t.out {
				n, ok := litNat(ix.Index)
				if !ok || as.Tok != token.ASSIGN {
					return "", fmt.Errorf("%s: line %d: store", name, rs.line)
				}
				rs.store = int(n)
				sts = append(sts, rs)
				continue
			}
		}
		n, ok := lname(as.Lhs[0])
		if !ok {
			return "", fmt.Errorf("%s: line %d: assignment target", name, rs.line)
		}
		rs.lhs = n
		sts = append(sts, rs)
	}
	if nCarry < 0 {
		return "", fmt.Errorf("%s: `var carry [n]int64` not found", name)
	}

	// ---- loads
	i := 0
	var loadVars []string
	var loadStmts []*rawStmt
	for i < len(sts) && sts[i].store < 0 && sts[i].as.Tok == token.DEFINE && hasLoad(sts[i].as.Rhs[0]) {
		loadVars = append(loadVars, sts[i].lhs)
		loadStmts = append(loadStmts, sts[i])
		i++
	}
	nRawTotal := 0
	for _, rs := range loadStmts {
		ast.Inspect(rs.as.Rhs[0], func(n ast.Node) bool {
			if c, ok := n.(*ast.CallExpr); ok {
				if id, ok := c.Fun.(*ast.Ident); ok && (id.Name == "load3" || id.Name == "load4") {
					nRawTotal++
				}
			}
			return true
		})
	}
	t.vars = map[string]int{}
	t.inLoad = true
	var loadLits []string
	for k, rs := range loadStmts {
		for j := 0; j < k; j++ {
			if loadVars[j] == rs.lhs {
				return "", fmt.Errorf("%s: %s defined twice", name, rs.lhs)
			}
		}
		// a load statement may only use raw loads: no variable is visible
		t.vars = map[string]int{}
		rhs := t.expr(rs.as.Rhs[0])
		if t.err != nil {
			return "", t.err
		}
		loadLits = append(loadLits, fmt.Sprintf("⟨%d, %s⟩", nRawTotal+k, strings.TrimSuffix(strings.TrimPrefix(rhs, "("), ")")))
	}
	t.inLoad = false
	if len(t.raws) != nRawTotal {
		return "", fmt.Errorf("%s: raw load count mismatch", name)
	}

	// ---- init
	t.vars = map[string]int{}
	for k, v := range loadVars {
		t.vars[v] = k
	}
	var initLits []string
	nInit := 0
	for i < len(sts) && sts[i].store < 0 && sts[i].as.Tok == token.DEFINE {
		rs := sts[i]
		if hasLoad(rs.as.Rhs[0]) {
			return "", fmt.Errorf("%s: line %d: load after the load phase", name, rs.line)
		}
		if _, dup := t.vars[rs.lhs]; dup {
			return "", fmt.Errorf("%s: %s defined twice", name, rs.lhs)
		}
		// rhs is translated BEFORE the target becomes visible
		rhs := t.expr(rs.as.Rhs[0])
		if t.err != nil {
			return "", t.err
		}
		idx := len(loadVars) + nInit
		t.vars[rs.lhs] = idx
		nInit++
		initLits = append(initLits, fmt.Sprintf("⟨%d, %s⟩", idx, strings.TrimSuffix(strings.TrimPrefix(rhs, "("), ")")))
		i++
	}
	var outIdx []string
	for l := 0; l < 24; l++ {
		idx, ok := t.vars["s"+strconv.Itoa(l)]
		if !ok {
			return "", fmt.Errorf("%s: limb s%d is not defined before the carry phase", name, l)
		}
		outIdx = append(outIdx, strconv.Itoa(idx))
	}

	// ---- blocks
	t.vars = map[string]int{}
	for l := 0; l < 24; l++ {
		t.vars["s"+strconv.Itoa(l)] = l
	}
	for k := 0; k < nCarry; k++ {
		t.vars["carry"+strconv.Itoa(k)] = 24 + k
	}
	var blocks [][]string
	var blockLines [][2]int
	prevLine := -1
	for i < len(sts) && sts[i].store < 0 {
		rs := sts[i]
		if rs.as.Tok == token.DEFINE {
			return "", fmt.Errorf("%s: line %d: definition after the limb phase", name, rs.line)
		}
		_, l := isLimb(rs.lhs)
		_, c := isCarry(rs.lhs)
		if !l && !c {
			return "", fmt.Errorf("%s: line %d: assignment to %s", name, rs.line, rs.lhs)
		}
		if len(blocks) == 0 || rs.line > prevLine+1 {
			blocks = append(blocks, nil)
			blockLines = append(blockLines, [2]int{rs.line, rs.line})
		}
		lit := t.assign(rs)
		if t.err != nil {
			return "", t.err
		}
		blocks[len(blocks)-1] = append(blocks[len(blocks)-1], lit)
		blockLines[len(blocks)-1][1] = rs.line
		prevLine = rs.line
		i++
	}

	// ---- store
	t.vars = map[string]int{}
	for l := 0; l < 24; l++ {
		t.vars["s"+strconv.Itoa(l)] = l
	}
	var stores []string
	for i < len(sts) {
		rs := sts[i]
		if rs.store != len(stores) {
			return "", fmt.Errorf("%s: line %d: stores are not out[0], out[1], … in order", name, rs.line)
		}
		call, ok := rs.as.Rhs[0].(*ast.CallExpr)
		if !ok || len(call.Args) != 1 {
			return "", fmt.Errorf("%s: line %d: store of a non-byte(…) value", name, rs.line)
		}
		if id, ok := call.Fun.(*ast.Ident); !ok || id.Name != "byte" {
			return "", fmt.Errorf("%s: line %d: store of a non-byte(…) value", name, rs.line)
		}
		e := t.expr(call.Args[0])
		if t.err != nil {
			return "", t.err
		}
		stores = append(stores, strings.TrimSuffix(strings.TrimPrefix(e, "("), ")"))
		i++
	}
	if len(stores) != 32 {
		return "", fmt.Errorf("%s: %d output bytes, expected 32", name, len(stores))
	}

	var b strings.Builder
	var raws []string
	for _, r := range t.raws {
		raws = append(raws, fmt.Sprintf("(%d, %d, %d)", r.kind, r.arr, r.off))
	}
	fmt.Fprintf(&b, "/-- %s: the load3/load4 calls (kind, array parameter, offset) in source order -/\n", name)
	fmt.Fprintf(&b, "def %s_praw : List (Nat × Nat × Nat) :=\n  [%s]\n", name, strings.Join(raws, ", "))
	fmt.Fprintf(&b, "/-- %s: the load definitions; environment = raw loads ++ load variables -/\n", name)
	fmt.Fprintf(&b, "def %s_ploads : Prog :=\n  %s\n", name, progLit(loadLits))
	fmt.Fprintf(&b, "/-- %s: the limb definitions; environment = load variables ++ defined variables -/\n", name)
	fmt.Fprintf(&b, "def %s_pinit : Prog :=\n  %s\n", name, progLit(initLits))
	var bnames []string
	for k, blk := range blocks {
		bn := fmt.Sprintf("%s_p%d", name, k+1)
		bnames = append(bnames, bn)
		fmt.Fprintf(&b, "/-- %s lines %d–%d -/\n", name, blockLines[k][0], blockLines[k][1])
		fmt.Fprintf(&b, "def %s : Prog :=\n  %s\n", bn, progLit(blk))
	}
	fmt.Fprintf(&b, "def %s_pblocks : List Prog :=\n  [%s]\n", name, strings.Join(bnames, ", "))
	fmt.Fprintf(&b, "/-- %s: the arguments of `byte(…)` in `out[0] … out[31]` -/\n", name)
	fmt.Fprintf(&b, "def %s_pstore : List Expr :=\n  [%s]\n", name, strings.Join(stores, ",\n   "))
	fmt.Fprintf(&b, "def %s_prog : ScProg :=\n  { nArr := %d, raw := %s_praw, loads := %s_ploads, nLoad := %d, init := %s_pinit, nInit := %d,\n    out := [%s], nCarry := %d, blocks := %s_pblocks, store := %s_pstore }\n\n",
		name, len(params)-1, name, name, len(loadVars), name, nInit, strings.Join(outIdx, ", "), nCarry, name, name)
	return b.String(), t.err
}

func run(repo string) (string, error) {
	dir := filepath.Join(repo, "group", "edwards25519")
	fset, f, err := ex.Parse(filepath.Join(dir, "scalar.go"))
	if err != nil {
		return "", err
	}
	s := ex.Header("Ed25519ScProg", "group/edwards25519/scalar.go")
	s += "import DosModel.Model.IntervalProg\nnamespace Dos.Gen.Ed25519ScProg\nopen Dos.IntervalProg\n\n"
	for _, fn := range funcs {
		fd := ex.FuncDecl(f, "", fn)
		if fd == nil {
			return "", fmt.Errorf("scalar.go: func %s not found", fn)
		}
		body, err := translate(fset, fd)
		if err != nil {
			return "", err
		}
		s += body
	}
	s += "end Dos.Gen.Ed25519ScProg\n"
	return s, nil
}

package pipeir

import (
	"go/ast"
	"go/token"
	"strconv"
	"strings"
)

// ---- expressions -----------------------------------------------------------------------

func (t *tr) eval(e ast.Expr) AV {
	switch x := e.(type) {
	case nil:
		return avUnknown{}
	case *ast.ParenExpr:
		return t.eval(x.X)
	case *ast.StarExpr:
		return t.eval(x.X)
	case *ast.BasicLit:
		if x.Kind == token.INT {
			if n, err := strconv.Atoi(x.Value); err == nil {
				return avInt{n}
			}
		}
		return avUnknown{}
	case *ast.Ident:
		return t.ident(x)
	case *ast.SelectorExpr:
		return t.selector(x)
	case *ast.UnaryExpr:
		switch x.Op {
		case token.AND:
			return t.eval(x.X)
		case token.NOT:
			if b, ok := t.eval(x.X).(avBool); ok {
				return avBool{!b.b}
			}
			return avUnknown{}
		case token.ARROW:
			t.errorf(x, "receive inside an expression is not supported")
		}
		return avUnknown{}
	case *ast.BinaryExpr:
		return t.binary(x)
	case *ast.CallExpr:
		vs := t.call(x)
		if len(vs) == 1 {
			return vs[0]
		}
		if len(vs) == 0 {
			return avUnknown{}
		}
		return avTuple{vs}
	case *ast.FuncLit:
		fr := t.fr()
		return &avFunc{name: fr.fn.name + ".func", pkg: fr.pkg, file: fr.file, typ: x.Type, body: x.Body, env: t.scope()}
	case *ast.CompositeLit:
		return t.composite(x)
	case *ast.IndexExpr:
		base := t.eval(x.X)
		switch b := base.(type) {
		case avList:
			if i, ok := t.eval(x.Index).(avInt); ok && i.n >= 0 && i.n < len(b.l) {
				return b.l[i.n]
			}
			return avUnknown{}
		case avMap:
			st := t.cur.ps.maps[b.id]
			if t.dataMaps[b.id] {
				return avMapElem{b.id}
			}
			if st.present {
				return st.val
			}
			return avZero{}
		}
		return avUnknown{}
	case *ast.TypeAssertExpr:
		return t.eval(x.X)
	case *ast.SliceExpr:
		return avUnknown{}
	case *ast.KeyValueExpr:
		return t.eval(x.Value)
	}
	return avUnknown{}
}

func (t *tr) ident(x *ast.Ident) AV {
	switch x.Name {
	case "nil":
		return avNil{}
	case "true":
		return avBool{true}
	case "false":
		return avBool{false}
	}
	if c := t.lookupCell(x.Name); c != nil {
		return t.read(c)
	}
	fr := t.fr()
	if v, ok := t.cfg.constants[x.Name]; ok {
		return v
	}
	if fd, ok := fr.pkg.funcs[x.Name]; ok {
		return t.funcOf(fr.pkg, fd, nil)
	}
	if path, ok := fr.pkg.imports[fr.file][x.Name]; ok {
		return avPkg{path}
	}
	return avConst{fr.pkg.name + "." + x.Name}
}

func (t *tr) funcOf(p *pkgInfo, fd *ast.FuncDecl, recv AV) *avFunc {
	name := p.name + "." + fd.Name.Name
	return &avFunc{name: name, pkg: p, file: p.fileOf[fd], typ: fd.Type, body: fd.Body, recv: recv, rcvN: recvName(fd)}
}

func (t *tr) selector(x *ast.SelectorExpr) AV {
	base := t.eval(x.X)
	switch b := base.(type) {
	case avPkg:
		if dir := repoDir(b.path); dir != "" {
			p, err := t.ld.load(dir)
			if err != nil {
				t.errorf(x, "%v", err)
				return avUnknown{}
			}
			if fd, ok := p.funcs[x.Sel.Name]; ok {
				return t.funcOf(p, fd, nil)
			}
			return avConst{p.name + "." + x.Sel.Name}
		}
		return avConst{b.path + "." + x.Sel.Name}
	case *avStruct:
		if c, ok := b.fields[x.Sel.Name]; ok {
			return c.v
		}
		// method value
		if p := t.pkgOfType(b.typ); p != nil {
			if fd, ok := p.methods[typeBase(b.typ)][x.Sel.Name]; ok {
				return t.funcOf(p, fd, b)
			}
		}
		return avUnknown{}
	case avTicker:
		if x.Sel.Name == "C" {
			return avTick{b.src}
		}
	case avZero:
		return avZero{}
	}
	return avUnknown{}
}

// struct types are written "dir:Type"
func typeBase(typ string) string {
	if i := strings.LastIndex(typ, ":"); i >= 0 {
		return typ[i+1:]
	}
	return typ
}
func (t *tr) pkgOfType(typ string) *pkgInfo {
	if i := strings.LastIndex(typ, ":"); i >= 0 {
		p, err := t.ld.load(typ[:i])
		if err == nil {
			return p
		}
	}
	return nil
}

func (t *tr) binary(x *ast.BinaryExpr) AV {
	a, b := t.eval(x.X), t.eval(x.Y)
	switch x.Op {
	case token.LAND:
		ab, aok := a.(avBool)
		bb, bok := b.(avBool)
		if (aok && !ab.b) || (bok && !bb.b) {
			return avBool{false}
		}
		if aok && bok {
			return avBool{true}
		}
		return avUnknown{}
	case token.LOR:
		ab, aok := a.(avBool)
		bb, bok := b.(avBool)
		if (aok && ab.b) || (bok && bb.b) {
			return avBool{true}
		}
		if aok && bok {
			return avBool{false}
		}
		return avUnknown{}
	case token.EQL, token.NEQ:
		_, az := a.(avZero)
		_, bz := b.(avZero)
		// a field of the zero value read from an empty collector map never matches the
		// request under analysis (the "" request id corner is C12/C13's F17)
		if (az && isUnknown(b)) || (bz && isUnknown(a)) {
			return avBool{x.Op == token.NEQ}
		}
		if isUnknown(a) || isUnknown(b) {
			return avUnknown{}
		}
		switch a.(type) {
		case avInt, avConst, avBool, avNil, avChan:
			switch b.(type) {
			case avInt, avConst, avBool, avNil, avChan:
				eq := key(a) == key(b)
				if x.Op == token.NEQ {
					eq = !eq
				}
				return avBool{eq}
			}
		}
		return avUnknown{}
	case token.ADD, token.SUB, token.MUL, token.QUO:
		ai, aok := a.(avInt)
		bi, bok := b.(avInt)
		if aok && bok {
			switch x.Op {
			case token.ADD:
				return avInt{ai.n + bi.n}
			case token.SUB:
				return avInt{ai.n - bi.n}
			case token.MUL:
				return avInt{ai.n * bi.n}
			case token.QUO:
				if bi.n != 0 {
					return avInt{ai.n / bi.n}
				}
			}
		}
	}
	return avUnknown{}
}

func (t *tr) composite(x *ast.CompositeLit) AV {
	switch ty := x.Type.(type) {
	case *ast.ArrayType:
		var l []AV
		for _, e := range x.Elts {
			l = append(l, t.eval(e))
		}
		if len(l) == 0 {
			return avEmpty{}
		}
		return avList{l}
	case *ast.MapType:
		return t.newMap("map")
	case *ast.Ident:
		return t.structLit(t.fr().pkg.dir+":"+ty.Name, x)
	case *ast.SelectorExpr:
		if id, ok := ty.X.(*ast.Ident); ok {
			if path, ok := t.fr().pkg.imports[t.fr().file][id.Name]; ok {
				return t.structLit(repoDir(path)+":"+ty.Sel.Name, x)
			}
		}
	}
	return avUnknown{}
}

func (t *tr) structLit(typ string, x *ast.CompositeLit) AV {
	st := &avStruct{typ: typ, fields: map[string]*cell{}}
	for _, e := range x.Elts {
		if kv, ok := e.(*ast.KeyValueExpr); ok {
			if id, ok := kv.Key.(*ast.Ident); ok {
				st.fields[id.Name] = &cell{t.eval(kv.Value)}
			}
		}
	}
	return st
}

// ---- assignment ------------------------------------------------------------------------

func (t *tr) assignStmt(x *ast.AssignStmt) []*cont {
	define := x.Tok == token.DEFINE
	// v, ok := <-c   /  v := <-c
	if len(x.Rhs) == 1 {
		if u, ok := x.Rhs[0].(*ast.UnaryExpr); ok && u.Op == token.ARROW {
			return t.recvStmt(u, x.Lhs, x, define)
		}
		if ce, ok := x.Rhs[0].(*ast.CallExpr); ok {
			return t.callStmt(ce, x.Lhs, define)
		}
		// v, ok := m[k]  /  v, ok := x.(T)
		if len(x.Lhs) == 2 {
			var v, okv AV = avUnknown{}, avUnknown{}
			switch r := x.Rhs[0].(type) {
			case *ast.IndexExpr:
				if m, isMap := t.eval(r.X).(avMap); isMap && !t.dataMaps[m.id] {
					st := t.cur.ps.maps[m.id]
					if st.present {
						v = st.val
					} else {
						v, okv = avZero{}, avBool{false}
					}
				}
			case *ast.TypeAssertExpr:
				v = t.eval(r.X)
				if _, isStruct := v.(*avStruct); isStruct {
					okv = avBool{true}
				}
			}
			t.bind(x.Lhs[0], v, define)
			t.bind(x.Lhs[1], okv, define)
			return one(t.cur)
		}
	}
	if len(x.Lhs) == len(x.Rhs) {
		var vs []AV
		for _, r := range x.Rhs {
			vs = append(vs, t.eval(r))
		}
		for i, l := range x.Lhs {
			if x.Tok != token.ASSIGN && x.Tok != token.DEFINE {
				t.bind(l, avUnknown{}, false)
				continue
			}
			t.bind(l, vs[i], define)
		}
		return one(t.cur)
	}
	for _, l := range x.Lhs {
		t.bind(l, avUnknown{}, define)
	}
	return one(t.cur)
}

func (t *tr) bind(l ast.Expr, v AV, define bool) {
	switch x := l.(type) {
	case *ast.Ident:
		if define {
			// `a, b := ...` redeclares only the new names
			if c, ok := t.scope().vars[x.Name]; ok {
				t.cur.ps.over[c] = v
				return
			}
			t.define(x.Name, v)
		} else {
			t.assign(x.Name, v)
		}
	case *ast.IndexExpr:
		if l, ok := t.eval(x.X).(avList); ok {
			if id, isId := x.X.(*ast.Ident); isId {
				if i, ok := t.eval(x.Index).(avInt); ok && i.n >= 0 && i.n < len(l.l) {
					nl := append([]AV(nil), l.l...)
					nl[i.n] = v
					t.assign(id.Name, avList{nl})
				}
			}
			return
		}
		if m, ok := t.eval(x.X).(avMap); ok {
			_, isNil := v.(avNil)
			_, isEmpty := v.(avEmpty)
			switch {
			case isNil || isEmpty:
				delete(t.cur.ps.maps, m.id)
			case isUnknown(v):
				if _, seen := t.dataMapsNew[m.id]; !seen {
					t.dataMapsNew[m.id] = true
				}
				if t.ranged[m.id] {
					t.cur.ps.maps[m.id] = mapState{present: true, val: avUnknown{}}
				}
			default:
				t.dataMapsNew[m.id] = false
				if !t.dataMaps[m.id] {
					t.cur.ps.maps[m.id] = mapState{present: true, val: v}
				}
			}
		}
	case *ast.SelectorExpr:
		if st, ok := t.eval(x.X).(*avStruct); ok {
			if c, ok := st.fields[x.Sel.Name]; ok {
				c.v = v
			} else {
				st.fields[x.Sel.Name] = &cell{v}
			}
		}
	}
}

// ---- go / return -----------------------------------------------------------------------

func (t *tr) goStmt(x *ast.GoStmt) {
	fnv := t.eval(x.Call.Fun)
	fn, ok := fnv.(*avFunc)
	if !ok {
		t.p.warn("%s: go statement on an unresolved function %s (ignored)", t.fr().pkg.pos(x), short(t.fr().pkg.fset, x.Call.Fun))
		return
	}
	var args []AV
	for _, a := range x.Call.Args {
		args = append(args, t.eval(a))
	}
	name := fn.name
	if n, ok := t.goSite[x]; ok {
		name = n // instances of the same go statement share the key
	} else {
		if id, ok := x.Call.Fun.(*ast.Ident); ok && fn.env != nil {
			name = t.fname() + "." + id.Name
		} else if strings.HasSuffix(name, ".func") {
			// anonymous goroutine: named after the enclosing function
			k := t.fname()
			gos := goStmts(t.fr().fn.body)
			if len(gos) == 1 && t.fr().fn.env == nil {
				name = k
			} else {
				for i, g := range gos {
					if g == x {
						name = k + ".go" + strconv.Itoa(i+1)
					}
				}
			}
		}
		t.goSite[x] = name
	}
	static := t.g.static && !t.cur.ps.eff
	visitedGo[x] = true
	t.spawn(name, fn, args, static, t.g.daemon, t.site(x, "go "+name))
}

func (t *tr) spawn(name string, fn *avFunc, args []AV, static, daemon bool, site string) {
	saveG, saveCur, saveFrames := t.g, t.cur, t.frames
	g := t.p.newG(name, static, daemon)
	ps := newPS()
	for k, v := range saveCur.ps.over {
		ps.over[k] = v
	}
	for k, v := range saveCur.ps.maps {
		ps.maps[k] = v
	}
	t.g = g
	t.frames = nil
	t.cur = &cont{atEntry: true, ps: ps}
	f2 := *fn
	f2.name = name
	rets := t.inline(&f2, args, nil)
	for _, c := range rets {
		t.cur = c
		if t.live() {
			t.emit(&node{kind: "exit", site: name + " end"})
		}
	}
	t.g, t.cur, t.frames = saveG, saveCur, saveFrames
	if !static {
		t.emit1("spawn", g.idx, site)
	}
}

// inline translates a call of fn for t.cur; returns the continuations after the call, each
// with the returned values in cont.vals.
func (t *tr) inline(fn *avFunc, args []AV, at ast.Node) []*cont {
	if len(t.frames) > 24 {
		t.errorf(at, "call depth exceeded at %s", fn.name)
		return one(t.cur)
	}
	t.nframe++
	parent := fn.env
	if parent == nil {
		parent = newEnv(nil)
	}
	fr := &frame{id: t.nframe, fn: fn, pkg: fn.pkg, file: fn.file, scopes: []*env{newEnv(parent)}}
	t.frames = append(t.frames, fr)
	if fn.recv != nil && fn.rcvN != "" {
		t.define(fn.rcvN, fn.recv)
	}
	i := 0
	if fn.typ.Params != nil {
		for _, f := range fn.typ.Params.List {
			_, variadic := f.Type.(*ast.Ellipsis)
			for _, n := range f.Names {
				var v AV = avUnknown{}
				if variadic {
					if i < len(args) {
						if l, ok := args[i].(avList); ok && len(args) == i+1 {
							v = l // f(xs...)
						} else if _, ok := args[i].(avEmpty); ok && len(args) == i+1 {
							v = avEmpty{}
						} else {
							v = avList{append([]AV(nil), args[i:]...)}
						}
					} else {
						v = avEmpty{}
					}
					i = len(args)
				} else if i < len(args) {
					v = args[i]
					i++
				}
				if isChanType(f.Type) {
					v = t.nilToChan(v)
				}
				t.define(n.Name, v)
			}
			if len(f.Names) == 0 {
				i++
			}
		}
	}
	if fn.typ.Results != nil {
		for _, f := range fn.typ.Results.List {
			for _, n := range f.Names {
				fr.named = append(fr.named, n.Name)
				t.define(n.Name, avUnknown{})
			}
		}
	}
	outs := t.stmts(fn.body.List, []*cont{t.cur})
	// falling off the end = return
	for _, c := range outs {
		t.cur = c
		t.doReturn(nil)
	}
	rets := fr.rets
	for _, c := range rets {
		for _, sc := range fr.scopes {
			for _, cl := range sc.vars {
				delete(c.ps.over, cl)
			}
		}
		delete(c.ps.defers, fr.id)
	}
	t.frames = t.frames[:len(t.frames)-1]
	return t.mergeConts(rets)
}

func (t *tr) returnStmt(x *ast.ReturnStmt) { t.doReturn(x) }

func (t *tr) doReturn(x *ast.ReturnStmt) {
	if !t.live() {
		return
	}
	fr := t.fr()
	var vals []AV
	conts := one(t.cur)
	if x != nil && len(x.Results) > 0 {
		if len(x.Results) == 1 {
			if ce, ok := x.Results[0].(*ast.CallExpr); ok {
				vs := t.call(ce)
				vals = vs
			} else {
				vals = []AV{t.eval(x.Results[0])}
			}
		} else {
			for _, r := range x.Results {
				vals = append(vals, t.eval(r))
			}
		}
		conts = one(t.cur)
	} else {
		for _, n := range fr.named {
			if c := fr.scopes[0].lookup(n); c != nil {
				vals = append(vals, t.read(c))
			}
		}
	}
	// deferred calls, last first
	ds := t.cur.ps.defers[fr.id]
	for i := len(ds) - 1; i >= 0; i-- {
		d := ds[i]
		var nx []*cont
		for _, c := range conts {
			t.cur = c
			if !t.live() {
				continue
			}
			saved := fr.scopes
			// evaluate in the scope where the defer statement stood
			for j, sc := range fr.scopes {
				if sc == d.sc {
					fr.scopes = fr.scopes[:j+1]
				}
			}
			o := t.callStmt(d.call, nil, false)
			fr.scopes = saved
			nx = append(nx, o...)
		}
		conts = t.mergeConts(nx)
	}
	for _, c := range conts {
		c.vals = vals
		t.stripTo(c, 1) // the variables of the nested scopes die with the return
		fr.rets = append(fr.rets, c)
	}
	t.cur = nil
}

func isChanType(e ast.Expr) bool {
	switch x := e.(type) {
	case *ast.ChanType:
		return true
	case *ast.Ellipsis:
		return isChanType(x.Elt)
	}
	return false
}

// nilToChan: `nil` bound to a channel-typed parameter is the nil channel (element-wise for lists)
func (t *tr) nilToChan(v AV) AV {
	switch x := v.(type) {
	case avNil:
		return avChan{t.nilChan()}
	case avList:
		var l []AV
		for _, e := range x.l {
			l = append(l, t.nilToChan(e))
		}
		return avList{l}
	}
	return v
}

// go statements of a function body, not descending into nested function literals
func goStmts(body *ast.BlockStmt) []*ast.GoStmt {
	var out []*ast.GoStmt
	var walk func(n ast.Node) bool
	walk = func(n ast.Node) bool {
		switch x := n.(type) {
		case *ast.GoStmt:
			out = append(out, x)
			return false
		case *ast.FuncLit:
			return false
		}
		return true
	}
	ast.Inspect(body, walk)
	return out
}

/-
`Deals()` establishes the invariant, and every state a member machine (`Model/DkgSession.lean`)
can reach – whatever messages arrive, in whatever order – satisfies `MemberInv`: the generator
it carries satisfies `GoodGen`, all its own responses are approvals, and a finished member's
key share is what `DistKeyShare()` returned on that generator.
-/
import DosModel.Proofs.DkgSafety

set_option linter.unusedSectionVars false

namespace Dos.Dkg
open Dos Dos.Vss

variable {F G : Type} [Field F] [AddCommGroup G] [Module F G] [DecidableEq F] [DecidableEq G]

theorem getVerifier_replicate (d : Gen F G) (n : Nat) (h : d.verifiers = List.replicate n none) (j : Nat) :
    getVerifier d j = none := by
  unfold getVerifier
  rw [h]
  by_cases hj : j < n
  · simp [hj]
  · simp [hj]

theorem newGen_good0 {g : G} {long : F} {L : List G} {f : List F} {d : Gen F G} (h : newGen g long L f = .ok d) :
    GoodGen0 g d ∧ (∀ j, getVerifier d j = none) ∧ d.participants = L ∧ d.long = long ∧ d.dealer.f = f := by
  unfold newGen at h
  rcases hf : findIndex (long • g) L 0 with _ | idx
  · simp [hf] at h
  · simp only [hf] at h
    rcases hnd : newDealer g long f L with e | dl
    · simp [hnd] at h
    · simp only [hnd] at h
      injection h with h; subst h
      have hlt := (findIndex_lt (long • g) L 0 idx hf).2
      have hdl : dl.f = f := by
        unfold newDealer at hnd
        simp only at hnd
        split at hnd
        · cases hnd
        · injection hnd with hnd; rw [← hnd]
      refine ⟨⟨by simp, hf, by simpa using hlt, ?_⟩, ?_, rfl, rfl, hdl⟩
      · intro j v hv
        rw [getVerifier_replicate _ L.length rfl j] at hv; cases hv
      · intro j; exact getVerifier_replicate _ L.length rfl j

/-- `Deals()` on a fresh generator: invariant, own approval, and the frame -/
theorem deals_good (g : G) (d d1 : Gen F G) (ephs : List F) (ds : List (Nat × DkgDeal F G))
    (hd : GoodGen0 g d) (hempty : ∀ j, getVerifier d j = none) (h : deals g d ephs = .ok (d1, ds)) :
    GoodGen g d1 ∧ AllApproved d1 ∧ d1.index = d.index ∧ d1.long = d.long ∧ d1.participants = d.participants ∧
      d1.dealer = d.dealer := by
  unfold deals at h
  simp only [hempty d.index, Option.isSome_none, Bool.false_eq_true, if_false] at h
  set dd : DkgDeal F G := { index := d.index, deal := ((encryptedDeals g d.dealer ephs)[d.index]?).join } with hdd
  have hgood0 := processDeal_good0 g d dd hd
  have hcases := processDeal_cases g d dd hd
  rcases hpd : processDeal g d dd with ⟨d', res⟩
  rw [hpd] at h hgood0 hcases
  simp only at h hgood0 hcases
  rcases res with err | resp
  · simp at h
  · simp only at h
    rcases hrr : resp.resp with _ | r
    · rw [hrr] at h; simp at h
    · rw [hrr] at h
      simp only at h
      by_cases hs : r.status = true
      · simp only [hs, if_true] at h
        injection h with h; injection h with h1 h2; subst h1
        rcases hcases with ⟨_, e, he⟩ | ⟨hnone, hlt, w, hw, hc⟩
        · cases he
        · rcases hc with ⟨_, e, he⟩ | ⟨r', a', hres, hwa, hgr, hdealsome⟩
          · cases he
          · injection hres with hres; subst hres
            simp only [Option.some.injEq] at hrr; subst hrr
            have hjv : d.index < d.verifiers.length := by rw [hd.len]; exact hd.lt
            have hfr := setVerifier_frame d d.index w
            have hget : ∀ k, getVerifier d' k = if d.index = k then some w else none := by
              intro k; rw [hw, getVerifier_set d d.index k w hjv]
              by_cases hk : d.index = k <;> simp [hk, hempty k]
            have hidx : d'.index = d.index := by rw [hw]; exact hfr.2.1
            refine ⟨⟨hgood0, ?_, ?_⟩, ?_, hidx, by rw [hw]; exact hfr.2.2.1, by rw [hw]; exact hfr.1,
              by rw [hw]; exact hfr.2.2.2.2.1⟩
            · rw [hidx, hget]; simp
            · intro v a hv ha
              rw [hidx, hget] at hv
              simp only [if_true, Option.some.injEq] at hv; subst hv
              rw [hwa] at ha; injection ha with ha; subst ha
              exact hdealsome hs
            · intro j v a r0 hv ha hr0
              rw [hget] at hv
              by_cases hk : d.index = j
              · simp only [hk, if_true, Option.some.injEq] at hv; subst hv
                rw [hwa] at ha; injection ha with ha; subst ha
                rw [hidx, hgr] at hr0; injection hr0 with hr0; subst hr0; exact hs
              · simp [hk] at hv
      · simp [hs] at h

/-- invariant of a member machine (the participant list has no key twice: fix babf9f5) -/
def MemberInv (g : G) (m : Member F G) : Prop :=
  match m.stage with
  | .waitDeals d => GoodGen g d ∧ AllApproved d ∧ d.long = m.long ∧ d.participants.Nodup
  | .waitResps d => GoodGen g d ∧ AllApproved d ∧ d.long = m.long ∧ d.participants.Nodup
  | .done d ks => GoodGen g d ∧ AllApproved d ∧ d.long = m.long ∧ d.participants.Nodup ∧ distKeyShare d = .ok ks
  | _ => True

/-- no key at two indices of a partially filled key table -/
def SomeInj (l : List (Option G)) : Prop := ∀ (a b : Nat) (k : G), l[a]? = some (some k) → l[b]? = some (some k) → a = b

/-- what a successful `place` (the loops of `exchangePub` and `genDistKeyGenerator`) guarantees: no key
twice, nothing overwritten, and every message was announced by the member whose index it claims
and sits at that index -/
theorem place_inv (n : Nat) : ∀ (ms : List (PkMsg G)) (acc acc' : List (Option G)),
    acc.length = n → buildGen.place n ms acc = some acc' → SomeInj acc →
    acc'.length = n ∧ SomeInj acc' ∧ (∀ (k : Nat) (v : G), acc[k]? = some (some v) → acc'[k]? = some (some v)) ∧
    (∀ x ∈ ms, x.sender = x.index ∧ x.index < n ∧ ∃ v, x.key = some v ∧ acc'[x.index]? = some (some v)) := by
  intro ms
  induction ms with
  | nil =>
    intro acc acc' hl h hinj
    simp only [buildGen.place, Option.some.injEq] at h
    subst h
    exact ⟨hl, hinj, fun _ _ h => h, by simp⟩
  | cons m ms ih =>
    intro acc acc' hl h hinj
    rw [buildGen.place] at h
    split at h
    · cases h
    · rename_i k hk
      split at h
      · cases h
      · rename_i hidx
        split at h
        · cases h
        · rename_i hsender
          split at h
          · cases h
          · rename_i hfree
            split at h
            · cases h
            · rename_i hcont
              have hnot : some k ∉ acc := by
                intro hin; exact hcont (List.contains_iff_mem.2 hin)
              have hlt : m.index < acc.length := by omega
              have hfree' : acc[m.index]? = some none := by
                rw [List.getElem?_eq_getElem hlt] at hfree ⊢
                rcases hv : acc[m.index] with _ | v
                · rfl
                · rw [hv] at hfree; simp at hfree
              have hinj' : SomeInj (acc.set m.index (some k)) := by
                intro a b k' ha hb
                rw [List.getElem?_set] at ha hb
                by_cases hai : m.index = a
                · by_cases hbi : m.index = b
                  · omega
                  · simp only [hai, if_true] at ha
                    simp only [hbi, if_false] at hb
                    rw [if_pos (by omega)] at ha
                    injection ha with ha; injection ha with ha; subst ha
                    exact absurd (List.mem_iff_getElem?.2 ⟨b, hb⟩) hnot
                · simp only [hai, if_false] at ha
                  by_cases hbi : m.index = b
                  · simp only [hbi, if_true] at hb
                    rw [if_pos (by omega)] at hb
                    injection hb with hb; injection hb with hb; subst hb
                    exact absurd (List.mem_iff_getElem?.2 ⟨a, ha⟩) hnot
                  · simp only [hbi, if_false] at hb
                    exact hinj a b k' ha hb
              obtain ⟨h1, h2, h3, h4⟩ := ih (acc.set m.index (some k)) acc' (by simp [hl]) h hinj'
              refine ⟨h1, h2, ?_, ?_⟩
              · intro a v ha
                apply h3
                rw [List.getElem?_set]
                by_cases hai : m.index = a
                · subst hai; rw [hfree'] at ha; cases ha
                · simp [hai, ha]
              · intro x hx
                rcases List.mem_cons.1 hx with hx | hx
                · subst hx
                  refine ⟨by simpa using hsender, by omega, k, hk, ?_⟩
                  apply h3
                  rw [List.getElem?_set]; simp [hlt]
                · exact h4 x hx

theorem mapM_id_eq_some {α : Type} : ∀ (l : List (Option α)) (r : List α), l.mapM id = some r → l = r.map some := by
  intro l
  induction l with
  | nil => intro r h; simp at h; subst h; rfl
  | cons a l ih =>
    intro r h
    rw [List.mapM_cons] at h
    rcases a with _ | x
    · simp at h
    · rcases hl : l.mapM id with _ | bs
      · simp [hl] at h
      · simp [hl] at h
        subst h
        rw [ih bs hl]; rfl

/-- a generator that `exchangePub`/`genDistKeyGenerator` built: the good initial state; no key at two
indices; every key message of the batch was announced by the member whose index it claims, and its
key is the participant at that index -/
theorem buildGen_good {g : G} {n : Nat} {long : F} {f : List F} {own : PkMsg G} {batch : List (PkMsg G)}
    {d : Gen F G} (h : buildGen g n long f own batch = some d) :
    GoodGen0 g d ∧ (∀ j, getVerifier d j = none) ∧ d.long = long ∧ d.dealer.f = f ∧ d.participants.Nodup ∧
    (∀ x ∈ own :: batch, x.sender = x.index ∧ ∃ v, x.key = some v ∧ d.participants[x.index]? = some v) := by
  unfold buildGen at h
  split at h
  · cases h
  · rename_i slots hpl
    split at h
    · cases h
    · rename_i pubs hmap
      split at h
      · rename_i d0 hng
        injection h with h; subst h
        obtain ⟨h1, h2, h3, h4, h5⟩ := newGen_good0 hng
        obtain ⟨_, hinj, _, hb⟩ := place_inv n (own :: batch) (List.replicate n none) slots (by simp) hpl
          (by intro a b k ha _; by_cases hn : a < n <;> simp [hn] at ha)
        have hs := mapM_id_eq_some slots pubs hmap
        subst hs
        refine ⟨h1, h2, h4, h5, ?_, ?_⟩
        · rw [h3, List.nodup_iff_getElem?_ne_getElem?]
          intro a b hab hb' heq
          have hblt : b < pubs.length := hb'
          have halt : a < pubs.length := by omega
          have := hinj a b pubs[a] (by simp [halt]) (by
            rw [List.getElem?_map, ← heq]; simp [halt])
          omega
        · intro x hx
          obtain ⟨e1, _, v, e3, e4⟩ := hb x hx
          refine ⟨e1, v, e3, ?_⟩
          rw [h3]
          rw [List.getElem?_map] at e4
          rcases hp : pubs[x.index]? with _ | w
          · rw [hp] at e4; cases e4
          · rw [hp] at e4; simp at e4; rw [e4]
      · cases h

theorem advance_inv (g : G) : ∀ (fuel : Nat) (m : Member F G), MemberInv g m → MemberInv g (Member.advance g fuel m) := by
  intro fuel
  induction fuel with
  | zero => intro m hm; exact hm
  | succ fuel ih =>
    intro m hm
    unfold Member.advance
    split
    · -- waitPk
      split
      · exact hm
      · rename_i batch hb
        split
        · simp [MemberInv]
        · rename_i d hbg
          obtain ⟨h0, hempty, hlong, _, hnd, _⟩ := buildGen_good hbg
          split
          · rename_i d1 ds hdl
            apply ih
            obtain ⟨i1, i2, _, i4, i5, _⟩ := deals_good g d d1 m.ephs ds h0 hempty hdl
            simp only [MemberInv]
            exact ⟨i1, i2, by rw [i4, hlong], by rw [i5]; exact hnd⟩
          · simp [MemberInv]
    · -- waitDeals
      rename_i d hst
      have hm' : GoodGen g d ∧ AllApproved d ∧ d.long = m.long ∧ d.participants.Nodup := by
        simpa [MemberInv, hst] using hm
      split
      · exact hm
      · rename_i batch hb
        split
        · simp [MemberInv]
        · rename_i d1 rs hrd
          apply ih
          obtain ⟨i1, i2, _, i4, i5, _⟩ := runDeals_inv g batch d [] d1 rs hm'.1 hm'.2.1 (by simp) hrd
          simp only [MemberInv]
          exact ⟨i1, i2, by rw [i4, hm'.2.2.1], by rw [i5]; exact hm'.2.2.2⟩
    · -- waitResps
      rename_i d hst
      have hm' : GoodGen g d ∧ AllApproved d ∧ d.long = m.long ∧ d.participants.Nodup := by
        simpa [MemberInv, hst] using hm
      split
      · exact hm
      · rename_i batch hb
        split
        · simp [MemberInv]
        · rename_i d1 hrr
          obtain ⟨i1, i2, _, i4, i5, _⟩ := runResps_inv g batch d d1 true hm'.1 hm'.2.1 hrr
          split
          · rename_i ks hgg
            simp only [MemberInv]
            exact ⟨i1, i2, by rw [i4, hm'.2.2.1], by rw [i5]; exact hm'.2.2.2, hgg⟩
          · simp [MemberInv]
          · simp [MemberInv]
    · exact hm

/-- **every reachable state of a member satisfies the invariant**, whatever arrives -/
theorem member_inv_init (g : G) (n index : Nat) (long : F) (f ephs : List F) :
    MemberInv g (Member.init (P := G) n index long f ephs) := by
  simp [MemberInv, Member.init]

theorem member_inv_start (g : G) (m : Member F G) (hm : MemberInv g m) : MemberInv g (Member.start g m) := by
  unfold Member.start
  split
  · apply advance_inv; simp [MemberInv]
  · exact hm

theorem member_inv_recvPk (g : G) (m : Member F G) (x : PkMsg G) (hm : MemberInv g m) :
    MemberInv g (m.recvPk g x) := by
  unfold Member.recvPk
  apply advance_inv
  simpa [MemberInv] using hm

theorem member_inv_recvDeal (g : G) (m : Member F G) (x : DkgDeal F G) (hm : MemberInv g m) :
    MemberInv g (m.recvDeal g x) := by
  unfold Member.recvDeal
  apply advance_inv
  simpa [MemberInv] using hm

theorem member_inv_recvResp (g : G) (m : Member F G) (x : DkgResp F G) (hm : MemberInv g m) :
    MemberInv g (m.recvResp g x) := by
  unfold Member.recvResp
  apply advance_inv
  simpa [MemberInv] using hm

end Dos.Dkg

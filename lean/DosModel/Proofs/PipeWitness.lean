/-
C14 witnesses.  FROZEN copies of the pipeline IR of the tree before the C14 repairs
(extracted by go/extract/pipeir from /repo at 29c496a, the parent of fix 341405c), kept as
regression examples: the rules reject them, and the bad schedules exist in the model.
The scenario specs are the corpus lines (corpus/C14/*.txt) in structured form.
-/
import DosModel.Model.PipeExplore
import DosModel.Model.PipeWf

namespace Dos.Pipe.Old
open Dos.Pipe

def helper_dosnode_mergeErrors : Pipeline where
  name := "helper.dosnode.mergeErrors"
  nctx := 1
  chans := [
    ⟨"env.in", 0, true⟩,
    ⟨"env.in", 0, true⟩,
    ⟨"dosnode.mergeErrors.out", 2, false⟩]
  wgs := [⟨"dosnode.mergeErrors.wg", 2⟩]
  gs := [
    { name := "env.upstream", static := true, daemon := false,
      nodes := [
        /- 0 -/ .sel [.send 0 0, .ctx 0 1, .tick 1],
        /- 1 -/ .close 0 2,
        /- 2 -/ .exit],
      sites := ["environment: upstream stage", "environment: upstream stage closes", "environment: upstream stage end"],
      conds := [[], [], []] },
    { name := "env.upstream", static := true, daemon := false,
      nodes := [
        /- 0 -/ .sel [.send 1 0, .ctx 0 1, .tick 1],
        /- 1 -/ .close 1 2,
        /- 2 -/ .exit],
      sites := ["environment: upstream stage", "environment: upstream stage closes", "environment: upstream stage end"],
      conds := [[], [], []] },
    { name := "env.caller", static := true, daemon := false,
      nodes := [
        /- 0 -/ .sel [.recv 2 0 1, .ctx 0 1],
        /- 1 -/ .exit],
      sites := ["environment: caller receives until closed or done", "environment: caller returns"],
      conds := [[], []] },
    { name := "dosnode.mergeErrors.output", static := true, daemon := false,
      nodes := [
        /- 0 -/ .sel [.recv 0 1 3],
        /- 1 -/ .sel [.ctx 0 2, .send 2 0],
        /- 2 -/ .exit,
        /- 3 -/ .wgDone 0 2],
      sites := ["dos_stages.go:45 range env.in", "dos_stages.go:46 select", "dosnode.mergeErrors.output end", "dos_stages.go:52 wg.Done()"],
      conds := [[], [], [], []] },
    { name := "dosnode.mergeErrors.output", static := true, daemon := false,
      nodes := [
        /- 0 -/ .sel [.recv 1 1 3],
        /- 1 -/ .sel [.ctx 0 2, .send 2 0],
        /- 2 -/ .exit,
        /- 3 -/ .wgDone 0 2],
      sites := ["dos_stages.go:45 range env.in", "dos_stages.go:46 select", "dosnode.mergeErrors.output end", "dos_stages.go:52 wg.Done()"],
      conds := [[], [], [], []] },
    { name := "dosnode.mergeErrors.go2", static := true, daemon := false,
      nodes := [
        /- 0 -/ .wgWait 0 1,
        /- 1 -/ .close 2 2,
        /- 2 -/ .exit],
      sites := ["dos_stages.go:61 wg.Wait()", "dos_stages.go:62 close(out)", "dosnode.mergeErrors.go2 end"],
      conds := [[], [], []] }]
  rank := [0, 0, 0, 1, 1, 2]


def helper_dkg_mergeErrors : Pipeline where
  name := "helper.dkg.mergeErrors"
  nctx := 1
  chans := [
    ⟨"env.in", 0, true⟩,
    ⟨"env.in", 0, true⟩,
    ⟨"dkg.mergeErrors.out", 2, false⟩]
  wgs := [⟨"dkg.mergeErrors.wg", 2⟩]
  gs := [
    { name := "env.upstream", static := true, daemon := false,
      nodes := [
        /- 0 -/ .sel [.send 0 0, .ctx 0 1, .tick 1],
        /- 1 -/ .close 0 2,
        /- 2 -/ .exit],
      sites := ["environment: upstream stage", "environment: upstream stage closes", "environment: upstream stage end"],
      conds := [[], [], []] },
    { name := "env.upstream", static := true, daemon := false,
      nodes := [
        /- 0 -/ .sel [.send 1 0, .ctx 0 1, .tick 1],
        /- 1 -/ .close 1 2,
        /- 2 -/ .exit],
      sites := ["environment: upstream stage", "environment: upstream stage closes", "environment: upstream stage end"],
      conds := [[], [], []] },
    { name := "env.caller", static := true, daemon := false,
      nodes := [
        /- 0 -/ .sel [.recv 2 0 1, .ctx 0 1],
        /- 1 -/ .exit],
      sites := ["environment: caller receives until closed or done", "environment: caller returns"],
      conds := [[], []] },
    { name := "dkg.mergeErrors.output", static := true, daemon := false,
      nodes := [
        /- 0 -/ .sel [.recv 0 1 2],
        /- 1 -/ .sel [.send 2 0],
        /- 2 -/ .wgDone 0 3,
        /- 3 -/ .exit],
      sites := ["pdkg.go:330 range env.in", "pdkg.go:331 select", "pdkg.go:335 wg.Done()", "dkg.mergeErrors.output end"],
      conds := [[], [], [], []] },
    { name := "dkg.mergeErrors.output", static := true, daemon := false,
      nodes := [
        /- 0 -/ .sel [.recv 1 1 2],
        /- 1 -/ .sel [.send 2 0],
        /- 2 -/ .wgDone 0 3,
        /- 3 -/ .exit],
      sites := ["pdkg.go:330 range env.in", "pdkg.go:331 select", "pdkg.go:335 wg.Done()", "dkg.mergeErrors.output end"],
      conds := [[], [], [], []] },
    { name := "dkg.mergeErrors.go2", static := true, daemon := false,
      nodes := [
        /- 0 -/ .wgWait 0 1,
        /- 1 -/ .close 2 2,
        /- 2 -/ .exit],
      sites := ["pdkg.go:344 wg.Wait()", "pdkg.go:345 close(out)", "dkg.mergeErrors.go2 end"],
      conds := [[], [], []] }]
  rank := [0, 0, 0, 1, 1, 2]


def query_sys : Pipeline where
  name := "query.sys"
  nctx := 2
  chans := [
    ⟨"dosnode.DosNode.reqSignc", 21, true⟩,
    ⟨"dosnode.choseSubmitter.errc", 0, false⟩,
    ⟨"dosnode.choseSubmitter.outs", 1, false⟩,
    ⟨"dosnode.choseSubmitter.outs", 1, false⟩,
    ⟨"dosnode.genSysRandom.out", 0, false⟩,
    ⟨"dosnode.genSign.out", 0, false⟩,
    ⟨"dosnode.genSign.errc", 0, false⟩,
    ⟨"dosnode.dispatchSign.out", 0, false⟩,
    ⟨"dosnode.recoverSign.out", 0, false⟩,
    ⟨"dosnode.recoverSign.errc", 0, false⟩,
    ⟨"dosnode.reportQueryResult.errc", 0, false⟩,
    ⟨"dosnode.mergeErrors.out", 5, false⟩,
    ⟨"p2p.SubscribeMsg.dosnode.queryLoop", 50, true⟩]
  wgs := [⟨"dosnode.mergeErrors.wg", 5⟩]
  gs := [
    { name := "dosnode.handleQuery", static := true, daemon := false,
      nodes := [
        /- 0 -/ .sel [.recv 11 0 1, .ctx 0 4],
        /- 1 -/ .cancel 0 2,
        /- 2 -/ .cancel 0 3,
        /- 3 -/ .exit,
        /- 4 -/ .cancel 0 5,
        /- 5 -/ .cancel 0 3],
      sites := ["dos_query_handler.go:137 select", "dos_query_handler.go:76 cancel()", "dos_query_handler.go:72 cancel()", "dosnode.handleQuery end", "dos_query_handler.go:76 cancel()", "dos_query_handler.go:72 cancel()"],
      conds := [[], [], [], [], [], []] },
    { name := "dosnode.choseSubmitter", static := true, daemon := false,
      nodes := [
        /- 0 -/ .sel [.send 2 1, .ctx 0 1],
        /- 1 -/ .sel [.send 3 2, .ctx 0 2],
        /- 2 -/ .close 2 3,
        /- 3 -/ .close 3 4,
        /- 4 -/ .close 1 5,
        /- 5 -/ .exit],
      sites := ["dos_stages.go:112 select", "dos_stages.go:112 select", "dos_stages.go:118 close(out)", "dos_stages.go:118 close(out)", "dos_stages.go:107 close(errc)", "dosnode.choseSubmitter end"],
      conds := [[], [], [], [], [], []] },
    { name := "dosnode.genSysRandom", static := true, daemon := false,
      nodes := [
        /- 0 -/ .sel [.recv 2 1 4, .ctx 0 5],
        /- 1 -/ .sel [.send 4 2, .ctx 0 2],
        /- 2 -/ .close 4 3,
        /- 3 -/ .exit,
        /- 4 -/ .close 4 3,
        /- 5 -/ .close 4 3],
      sites := ["dos_stages.go:162 select", "dos_stages.go:174 select", "dos_stages.go:160 close(out)", "dosnode.genSysRandom end", "dos_stages.go:160 close(out)", "dos_stages.go:160 close(out)"],
      conds := [[], [], [], [], [], []] },
    { name := "dosnode.genSign", static := true, daemon := false,
      nodes := [
        /- 0 -/ .sel [.recv 4 1 9, .ctx 0 11],
        /- 1 -/ .branch [2, 6],
        /- 2 -/ .sel [.send 6 3, .ctx 0 3],
        /- 3 -/ .close 6 4,
        /- 4 -/ .close 5 5,
        /- 5 -/ .exit,
        /- 6 -/ .sel [.ctx 0 7, .send 5 7],
        /- 7 -/ .close 6 8,
        /- 8 -/ .close 5 5,
        /- 9 -/ .close 6 10,
        /- 10 -/ .close 5 5,
        /- 11 -/ .close 6 12,
        /- 12 -/ .close 5 5],
      sites := ["dos_stages.go:296 select", "dos_stages.go:304 if err != nil", "dos_stages.go:306 select", "dos_stages.go:294 close(errc)", "dos_stages.go:293 close(out)", "dosnode.genSign end", "dos_stages.go:313 select", "dos_stages.go:294 close(errc)", "dos_stages.go:293 close(out)", "dos_stages.go:294 close(errc)", "dos_stages.go:293 close(out)", "dos_stages.go:294 close(errc)", "dos_stages.go:293 close(out)"],
      conds := [[], [[("if err != nil", 0)], [("if err != nil", 1)]], [], [], [], [], [], [], [], [], [], [], []] },
    { name := "dosnode.dispatchSign", static := true, daemon := false,
      nodes := [
        /- 0 -/ .sel [.recv 3 1 4, .ctx 0 10],
        /- 1 -/ .branch [2, 5],
        /- 2 -/ .sel [.ctx 0 3, .recv 5 3 3],
        /- 3 -/ .close 7 4,
        /- 4 -/ .exit,
        /- 5 -/ .sel [.ctx 0 6, .recv 5 8 8],
        /- 6 -/ .close 7 7,
        /- 7 -/ .sel [.ctx 0 4, .send 0 4],
        /- 8 -/ .sel [.ctx 0 9, .send 7 7],
        /- 9 -/ .close 7 7,
        /- 10 -/ .close 7 4],
      sites := ["dos_stages.go:328 select", "dos_stages.go:335 if r != 0", "dos_stages.go:339 select", "dos_stages.go:347 close(out)", "dosnode.dispatchSign end", "dos_stages.go:357 select", "dos_stages.go:359 close(out)", "dos_stages.go:369 select", "dos_stages.go:361 select", "dos_stages.go:363 close(out)", "dos_stages.go:351 close(out)"],
      conds := [[], [[("if r != 0", 0)], [("if r != 0", 1)]], [], [], [], [], [], [], [], [], []] },
    { name := "dosnode.recoverSign", static := true, daemon := false,
      nodes := [
        /- 0 -/ .sel [.recv 7 1 11, .ctx 0 13],
        /- 1 -/ .branch [2, 3, 4, 5, 6, 0, 10],
        /- 2 -/ .sel [.send 9 0],
        /- 3 -/ .sel [.send 9 0],
        /- 4 -/ .sel [.send 9 0],
        /- 5 -/ .sel [.send 9 0],
        /- 6 -/ .sel [.send 8 7, .ctx 0 7],
        /- 7 -/ .close 9 8,
        /- 8 -/ .close 8 9,
        /- 9 -/ .exit,
        /- 10 -/ .sel [.send 9 0],
        /- 11 -/ .close 9 12,
        /- 12 -/ .close 8 9,
        /- 13 -/ .close 9 14,
        /- 14 -/ .close 8 9],
      sites := ["dos_stages.go:390 select", "dos_stages.go:398 if len(signShares) == 0", "dos_stages.go:405 errc <- err", "dos_stages.go:422 errc <- err", "dos_stages.go:428 errc <- err", "dos_stages.go:437 errc <- errors.New(\"length of content less than 0\")", "dos_stages.go:443 select", "dos_stages.go:387 close(errc)", "dos_stages.go:386 close(out)", "dosnode.recoverSign end", "dos_stages.go:413 errc <- err", "dos_stages.go:387 close(errc)", "dos_stages.go:386 close(out)", "dos_stages.go:387 close(errc)", "dos_stages.go:386 close(out)"],
      conds := [[], [[("if len(signShares) == 0", 0), ("if sign == nil || sign.Signature == nil || sign.Content == nil", 0)], [("if len(signShares) == 0", 0), ("if sign == nil || sign.Signature == nil || sign.Content == nil", 1), ("if own == nil", 0), ("if len(signShares) >= nbThreshold", 0), ("if err != nil", 0)], [("if len(signShares) == 0", 0), ("if sign == nil || sign.Signature == nil || sign.Content == nil", 1), ("if own == nil", 0), ("if len(signShares) >= nbThreshold", 0), ("if err != nil", 1), ("if err != nil", 0)], [("if len(signShares) == 0", 0), ("if sign == nil || sign.Signature == nil || sign.Content == nil", 1), ("if own == nil", 0), ("if len(signShares) >= nbThreshold", 0), ("if err != nil", 1), ("if err != nil", 1), ("if t < 0", 0)], [("if len(signShares) == 0", 0), ("if sign == nil || sign.Signature == nil || sign.Content == nil", 1), ("if own == nil", 0), ("if len(signShares) >= nbThreshold", 0), ("if err != nil", 1), ("if err != nil", 1), ("if t < 0", 1)], [("if len(signShares) == 0", 0), ("if sign == nil || sign.Signature == nil || sign.Content == nil", 1), ("if own == nil", 0), ("if len(signShares) >= nbThreshold", 1)], [("if len(signShares) == 0", 0), ("if sign == nil || sign.Signature == nil || sign.Content == nil", 1), ("if own == nil", 1), ("if sign.Index != own.Index || !bytes.Equal(sign.Content, own.Content)", 0)]], [], [], [], [], [], [], [], [], [], [], [], [], []] },
    { name := "dosnode.reportQueryResult", static := true, daemon := false,
      nodes := [
        /- 0 -/ .sel [.recv 8 1 1, .ctx 0 5],
        /- 1 -/ .branch [2, 3],
        /- 2 -/ .sel [.send 10 3, .ctx 0 3],
        /- 3 -/ .close 10 4,
        /- 4 -/ .exit,
        /- 5 -/ .close 10 4],
      sites := ["dos_stages.go:488 select", "dos_stages.go:502 if err != nil", "dos_stages.go:503 select", "dos_stages.go:486 close(errc)", "dosnode.reportQueryResult end", "dos_stages.go:486 close(errc)"],
      conds := [[], [[("if err != nil", 0)], [("if err != nil", 1)]], [], [], [], []] },
    { name := "dosnode.mergeErrors.output", static := true, daemon := false,
      nodes := [
        /- 0 -/ .sel [.recv 1 1 3],
        /- 1 -/ .sel [.ctx 0 2, .send 11 0],
        /- 2 -/ .exit,
        /- 3 -/ .wgDone 0 2],
      sites := ["dos_stages.go:45 range dosnode.choseSubmitter.errc", "dos_stages.go:46 select", "dosnode.mergeErrors.output end", "dos_stages.go:52 wg.Done()"],
      conds := [[], [], [], []] },
    { name := "dosnode.mergeErrors.output", static := true, daemon := false,
      nodes := [
        /- 0 -/ .sel [.recv 6 1 3],
        /- 1 -/ .sel [.ctx 0 2, .send 11 0],
        /- 2 -/ .exit,
        /- 3 -/ .wgDone 0 2],
      sites := ["dos_stages.go:45 range dosnode.genSign.errc", "dos_stages.go:46 select", "dosnode.mergeErrors.output end", "dos_stages.go:52 wg.Done()"],
      conds := [[], [], [], []] },
    { name := "dosnode.mergeErrors.output", static := true, daemon := false,
      nodes := [
        /- 0 -/ .sel [.recv 6 1 3],
        /- 1 -/ .sel [.ctx 0 2, .send 11 0],
        /- 2 -/ .exit,
        /- 3 -/ .wgDone 0 2],
      sites := ["dos_stages.go:45 range dosnode.genSign.errc", "dos_stages.go:46 select", "dosnode.mergeErrors.output end", "dos_stages.go:52 wg.Done()"],
      conds := [[], [], [], []] },
    { name := "dosnode.mergeErrors.output", static := true, daemon := false,
      nodes := [
        /- 0 -/ .sel [.recv 9 1 3],
        /- 1 -/ .sel [.ctx 0 2, .send 11 0],
        /- 2 -/ .exit,
        /- 3 -/ .wgDone 0 2],
      sites := ["dos_stages.go:45 range dosnode.recoverSign.errc", "dos_stages.go:46 select", "dosnode.mergeErrors.output end", "dos_stages.go:52 wg.Done()"],
      conds := [[], [], [], []] },
    { name := "dosnode.mergeErrors.output", static := true, daemon := false,
      nodes := [
        /- 0 -/ .sel [.recv 10 1 3],
        /- 1 -/ .sel [.ctx 0 2, .send 11 0],
        /- 2 -/ .exit,
        /- 3 -/ .wgDone 0 2],
      sites := ["dos_stages.go:45 range dosnode.reportQueryResult.errc", "dos_stages.go:46 select", "dosnode.mergeErrors.output end", "dos_stages.go:52 wg.Done()"],
      conds := [[], [], [], []] },
    { name := "dosnode.mergeErrors.go2", static := true, daemon := false,
      nodes := [
        /- 0 -/ .wgWait 0 1,
        /- 1 -/ .close 11 2,
        /- 2 -/ .exit],
      sites := ["dos_stages.go:61 wg.Wait()", "dos_stages.go:62 close(out)", "dosnode.mergeErrors.go2 end"],
      conds := [[], [], []] },
    { name := "dosnode.queryLoop", static := true, daemon := true,
      nodes := [
        /- 0 -/ .sel [.ctx 1 1, .tick 0, .recv 12 2 0, .recv 0 8 0],
        /- 1 -/ .exit,
        /- 2 -/ .branch [3, 0],
        /- 3 -/ .sel [.ctx 1 4, .tick 3, .recv 12 3 3, .recv 0 5 3],
        /- 4 -/ .exit,
        /- 5 -/ .branch [6, 8, 14],
        /- 6 -/ .sel [.ctx 0 7, .send 7 7],
        /- 7 -/ .branch [6, 8],
        /- 8 -/ .sel [.ctx 1 9, .tick 10, .recv 12 12 8, .recv 0 8 8],
        /- 9 -/ .exit,
        /- 10 -/ .sel [.ctx 0 11, .dflt 8],
        /- 11 -/ .close 7 0,
        /- 12 -/ .branch [13, 14, 8],
        /- 13 -/ .sel [.ctx 0 8, .send 7 8],
        /- 14 -/ .sel [.ctx 1 15, .tick 16, .recv 12 18 14, .recv 0 20 14],
        /- 15 -/ .exit,
        /- 16 -/ .sel [.ctx 0 17, .dflt 14],
        /- 17 -/ .close 7 0,
        /- 18 -/ .branch [19, 14],
        /- 19 -/ .sel [.ctx 0 14, .send 7 14],
        /- 20 -/ .branch [21, 8, 14],
        /- 21 -/ .sel [.ctx 0 22, .send 7 22],
        /- 22 -/ .branch [21, 8]],
      sites := ["dos_query_handler.go:24 select", "dosnode.queryLoop end", "dos_query_handler.go:40 if ok", "dos_query_handler.go:24 select", "dosnode.queryLoop end", "dos_query_handler.go:56 if len(signs) >= 0", "dos_query_handler.go:58 select", "dos_query_handler.go:57 range (data)", "dos_query_handler.go:24 select", "dosnode.queryLoop end", "dos_query_handler.go:30 select", "dos_query_handler.go:32 close(req.reply)", "dos_query_handler.go:40 if ok", "dos_query_handler.go:43 select", "dos_query_handler.go:24 select", "dosnode.queryLoop end", "dos_query_handler.go:30 select", "dos_query_handler.go:32 close(req.reply)", "dos_query_handler.go:40 if ok", "dos_query_handler.go:43 select", "dos_query_handler.go:56 if len(signs) >= 0", "dos_query_handler.go:58 select", "dos_query_handler.go:57 range (data)"],
      conds := [[], [], [[("if ok", 0)], [("if ok", 1)]], [], [], [[("if len(signs) >= 0", 0), ("range (data)", 0)], [("if len(signs) >= 0", 0), ("range (data)", 1)], [("if len(signs) >= 0", 1)]], [], [[("range (data)", 0)], [("range (data)", 1)]], [], [], [], [], [[("if ok", 0), ("if ok", 0)], [("if ok", 0), ("if ok", 1)], [("if ok", 1)]], [], [], [], [], [], [[("if ok", 0), ("if ok", 0)], [("if ok", 0), ("if ok", 1)]], [], [[("if len(signs) >= 0", 0), ("range (data)", 0)], [("if len(signs) >= 0", 0), ("range (data)", 1)], [("if len(signs) >= 0", 1)]], [], [[("range (data)", 0)], [("range (data)", 1)]]] },
    { name := "env.peers", static := true, daemon := true,
      nodes := [
        /- 0 -/ .sel [.send 12 0]],
      sites := ["environment: sends on p2p.SubscribeMsg.dosnode.queryLoop"],
      conds := [[]] }]
  rank := [0, 0, 0, 0, 0, 0, 0, 1, 1, 1, 1, 1, 2, 0, 0]


end Dos.Pipe.Old

namespace Dos.Pipe.Wit
open Dos.Pipe

/-- corpus/C14/fanin.txt: three errors in flight, nobody reads, the deadline fires, inputs close -/
def faninSpec (f out : String) : Spec :=
  { keep := [(f ++ ".output", none), (f ++ ".go2", none)],
    feed := [(("env.in", 0), ['s', 's', 's', 'c']), (("env.in", 1), ['c'])], cons := [],
    ctl := [.feed 0, .feed 1, .cancel, .release], pick := [], obs := [(out, 0)] }

/-- corpus/C14/dispatch.txt: a peer share is buffered, the submitter id and the node's own share are
ready, the context expires, then dispatchSign starts -/
def dispatchSpec : Spec :=
  { keep := [("dosnode.dispatchSign", none), ("dosnode.queryLoop", none)],
    feed := [(("dosnode.choseSubmitter.outs", 1), ['s', 'c']), (("dosnode.genSign.out", 0), ['s', 'c']),
             (("p2p.SubscribeMsg.dosnode.queryLoop", 0), ['s'])],
    cons := [(("dosnode.dispatchSign.out", 0), .ctx)],
    ctl := [.feed 2, .feed 0, .feed 1, .cancel, .go, .release],
    pick := [("if r != 0", 1)], obs := [("dosnode.dispatchSign.out", 0)] }

/-- corpus/C14/stages.txt: recoverSign gets a share without a signature, nobody reads its errors -/
def recoverSpec : Spec :=
  { keep := [("dosnode.recoverSign", none)], feed := [(("dosnode.dispatchSign.out", 0), ['s', 'c'])], cons := [],
    ctl := [.feed 0, .cancel, .release],
    pick := [("if sign == nil || sign.Signature == nil || sign.Content == nil", 0)],
    obs := [("dosnode.recoverSign.out", 0), ("dosnode.recoverSign.errc", 0)] }

/-- corpus/C14/grouping.txt: askMembers registers with pdkg.Loop, one public key arrives (one is
missing), the deadline fires -/
def askSpec : Spec :=
  { keep := [("dkg.askMembers", some 0), ("dkg.Loop", none)],
    feed := [(("p2p.SubscribeMsg.dkg.Loop", 0), ['s'])],
    cons := [(("dkg.askMembers.out", 0), .ctx)], ctl := [.go, .feed 0, .cancel, .release],
    pick := [("if len(sessionMap[sessionID]) == sessionReq[sessionID].numOfResps", 1),
             ("if len(sessionMap[req.sessionID]) == req.numOfResps", 1)],
    obs := [("dkg.askMembers.out", 0)] }

/-- a state of the scenario in which nothing can move any more -/
def Scenario.stuck (sc : Scenario) (s : State) : Bool := (sc.steps s).isEmpty

/-- some goroutine under test has not returned -/
def Scenario.leaked (sc : Scenario) (s : State) : Bool :=
  sc.watched.any fun g => match s.gs[g]? with
    | some (GSt.at _) => true
    | _ => false

/-- the first observed channel is still open -/
def Scenario.firstOpen (sc : Scenario) (s : State) : Bool :=
  match sc.observed with
  | c :: _ => !s.closed c
  | [] => false

/-- decisions are matched by their exact text here (kernel-evaluable).  TOTAL: when a name of the
    spec no longer resolves in `p` the result is the empty default scenario — every theorem that uses
    `scOf p sp` is therefore accompanied by `resolves p sp = true` (theorems `*_scenarios_resolve`). -/
def scOf (p : Pipeline) (sp : Spec) : Scenario :=
  match Scenario.ofSpec (fun a b => a == b) p sp with
  | some sc => sc
  | none => default

def resolves (p : Pipeline) (sp : Spec) : Bool :=
  sp.resolves (fun a b => a == b) p && (Scenario.ofSpec (fun a b => a == b) p sp).isSome

end Dos.Pipe.Wit

/-
C01 composed with C02 / C03 / C13 / Primes — the hypotheses `hC03`, `hrec`, `htot`, `hbytes` of
`Props/C01.lean` DISCHARGED.

`Props/C01.lean` is stated over an abstract `Crypto` record and takes the contracts of `tbls.Recover` /
`bls.Verify` as hypotheses.  Here `Crypto` is instantiated with the byte-level model `Model/Tbls.lean`
(`Compose.tblsCrypto cd f H t n`: `recover` = the model of `tbls.Recover`, `verify` = the model of
`bls.Verify(pubPoly.Commit(), ·, ·) == nil`) and the contracts are PROVED from the property theorems
C02 `recover_unique`, `recover_total`, `signed_share_valid`, C03 `verify_iff`, `counts_iff`,
`recover_ok_verifies` (`Proofs/ComposeTbls.lean`).  What the composed statements still assume is
visible in their signatures and is exactly:

* `pr : Pairing F G G2 GT` — the pairing is bilinear and non-degenerate at `g₂` (C10: differential only);
* `[Field F] [Module F G]` — the signature group is a module over the scalar field (for the concrete
  scalars `Zq r`, `r` the bn256 order, the field part is closed by `Proofs/Primes.lean`: the `_bn256`
  theorems; that G1 is a `Z/r`-module, i.e. #G1 = r, remains);
* `hcd` — the codec reads back what it writes (C11 `g1_roundtrip` for the real codec);
* `hf : f.length ≤ t` — the group polynomial has at most `t = n/2+1` coefficients (the DKG threshold);
* `CharGt F n` / `n < 65536` — the group is smaller than the field characteristic / the 2-byte index;
* the member's id has the length of an address and it computed its content (as in `Props/C01.lean`).

Unforgeability is not used.  `H : Bytes → G` (hash to G1) is an arbitrary function.
-/
import DosModel.Proofs.ComposeTbls
import DosModel.Proofs.ComposePrimes
import DosModel.Props.C01
import DosModel.Props.C09

set_option linter.unusedSectionVars false

namespace Dos.Props.C01Compose
open Dos Dos.Content Dos.Query Dos.Share Dos.Tbls Dos.Compose

variable {F : Type} [Field F] [DecidableEq F]
variable {G : Type} [AddCommGroup G] [Module F G] [DecidableEq G]
variable {G2 GT : Type} [AddCommGroup G2] [Module F G2] [CommGroup GT]

/-- **`hC03` discharged, as an equivalence**: the `verify` of the instance accepts exactly the byte
strings that parse to a point satisfying the contract's pairing equation under the group key. -/
theorem c01_verify_iff_contract (pr : Pairing F G G2 GT) (cd : Codec G) (f : List F) (H : Bytes → G)
    (t n : Nat) (c s : Bytes) :
    (tblsCrypto cd f H t n).verify c s = true ↔ ContractEq pr cd f H c s :=
  verify_iff_contract pr cd f H t n c s

/-- **3. every report is valid on chain — no contract hypothesis left.**  Whatever a member reports,
for EVERY sequence of peer messages, is `(result, sig)` with `result ‖ own id` = the content it
computed, `sig` parsing to a point `S` with `e(−S, g₂)·e(H(result ‖ msg.sender), f(0)•g₂) = 1`, and
the request's own type.  Any field / module / codec / polynomial / hash-to-point / thresholds. -/
theorem c01_report_valid_composed (pr : Pairing F G G2 GT) (cd : Codec G) (f : List F)
    (H : Bytes → G) (t n : Nat) (p a : Nat) (mb : Member) (r : Request) (fc : List (Option Msg))
    (c0 : Bytes) (hc0 : contentFor p r mb.me = some c0) (hlen : mb.me.length = a) :
    ∀ rep ∈ (handleQuery (tblsCrypto cd f H t n) p a mb r fc).reports,
      rep.result ++ mb.me = c0 ∧ ContractEq pr cd f H (rep.result ++ mb.me) rep.sig
        ∧ rep.index = r.kind.ptype :=
  Props.C01.report_valid_of_content (ContractEq pr cd f H) (tblsCrypto cd f H t n)
    (fun c s h => (verify_iff_contract pr cd f H t n c s).1 h) p a mb r fc c0 hc0 hlen

/-- the same without any pairing: the reported bytes decode to THE group signature `f(0) • H(c0)`
(so two honest submitters of the same request can only ever report encodings of the same point) -/
theorem c01_report_is_group_signature (cd : Codec G) (f : List F) (H : Bytes → G) (t n : Nat)
    (p a : Nat) (mb : Member) (r : Request) (fc : List (Option Msg)) (c0 : Bytes)
    (hc0 : contentFor p r mb.me = some c0) (hlen : mb.me.length = a) :
    ∀ rep ∈ (handleQuery (tblsCrypto cd f H t n) p a mb r fc).reports,
      cd.decode rep.sig = some (f.headD 0 • H c0) := by
  intro rep hrep
  have := Props.C01.report_valid_of_content (fun c s => cd.decode s = some (f.headD 0 • H c))
    (tblsCrypto cd f H t n) (fun c s h => (blsVerify_iff cd (H c) (f.headD 0) s).1 h)
    p a mb r fc c0 hc0 hlen rep hrep
  rw [← this.1]; exact this.2.1

/-- for system randomness: the contract equation holds for `32-byte lastRandomness ‖ msg.sender` -/
theorem c01_report_valid_sys_composed (pr : Pairing F G G2 GT) (cd : Codec G) (f : List F)
    (H : Bytes → G) (t n : Nat) (mb : Member) (r : Request) (fc : List (Option Msg))
    (hk : r.kind = .sys) (hlen : mb.me.length = 20) :
    ∀ rep ∈ (handleQuery (tblsCrypto cd f H t n) 32 20 mb r fc).reports,
      ContractEq pr cd f H (natBE 32 r.last ++ mb.me) rep.sig :=
  Props.C01.report_valid_sys (ContractEq pr cd f H) (tblsCrypto cd f H t n)
    (fun c s h => (verify_iff_contract pr cd f H t n c s).1 h) mb r fc hk hlen

/-- **4. liveness — `hrec`, `htot`, `hbytes` discharged.**  The member is the submitter and computed
`c0`; among the messages reaching its stage (its own first) are well-formed messages carrying entries
that `tbls.Recover` counts for at least `t = n/2+1` distinct members (`ValidShare`: index prefix
`i < n`, value decoding to `f(i+1)•H(c0)`).  Then, whatever else is in the sequence, exactly one report
is made and the node does not crash.  `tbls.Recover` runs with the code's arguments
`(threshold n, n)`, `n = len(ids)`. -/
theorem c01_enough_honest_reports_composed (cd : Codec G) (hcd : ∀ p, cd.decode (cd.encode p) = some p)
    (f : List F) (H : Bytes → G) (p a : Nat) (mb : Member) (r : Request) (fc : List (Option Msg))
    (c0 : Bytes) (hsub : submitter mb.ids r.last = some mb.me)
    (hc0 : contentFor p r mb.me = some c0) (hlen : mb.me.length = a)
    (hf : f.length ≤ threshold mb.ids.length) (hc : CharGt F mb.ids.length)
    (gs : List (Nat × Bytes)) (hidx : (gs.map (·.1)).Nodup) (ht : threshold mb.ids.length ≤ gs.length)
    (hgood : ∀ q ∈ gs, ValidShare cd f H mb.ids.length q.1 c0 q.2 ∧
      ∃ rid, some (⟨r.kind.ptype, rid, some c0, some q.2⟩ : Msg) ∈
        some ⟨r.kind.ptype, r.ridBytes, some c0, some (mb.signOwn c0)⟩ :: fc) :
    (handleQuery (tblsCrypto cd f H (threshold mb.ids.length) mb.ids.length) p a mb r fc).reports.length = 1
      ∧ (handleQuery (tblsCrypto cd f H (threshold mb.ids.length) mb.ids.length) p a mb r fc).stop = .none :=
  Props.C01.enough_honest_reports (ValidShare cd f H mb.ids.length) _ p a mb r fc c0 hsub hc0 hlen
    (tbls_hrec cd hcd f H _ _ (threshold_pos _) hf hc c0)
    (tbls_htot cd f H _ _ (threshold_pos _) hc c0)
    gs hidx (validShares_bytes_nodup gs hidx (fun q hq => (hgood q hq).1)) ht hgood

/-- **4″. liveness in terms of `tbls.Sign`**: `honest` is a list of distinct member numbers `< n`,
at least `t` of them; the submitter's own share and every honest member's share are what `tbls.Sign`
emits (`tblsSign`, C02 `signed_share_valid`) and each is carried by some well-formed message among the
stage's inputs.  Then exactly one report, no crash — whatever the other inputs are. -/
theorem c01_honest_signers_report (cd : Codec G) (hcd : ∀ p, cd.decode (cd.encode p) = some p)
    (f : List F) (H : Bytes → G) (p a : Nat) (mb : Member) (r : Request) (fc : List (Option Msg))
    (c0 : Bytes) (hsub : submitter mb.ids r.last = some mb.me)
    (hc0 : contentFor p r mb.me = some c0) (hlen : mb.me.length = a)
    (hf : f.length ≤ threshold mb.ids.length) (hc : CharGt F mb.ids.length)
    (h16 : mb.ids.length ≤ 65536)
    (honest : List Nat) (hnd : honest.Nodup) (hin : ∀ i ∈ honest, i < mb.ids.length)
    (ht : threshold mb.ids.length ≤ honest.length)
    (hmsg : ∀ i ∈ honest, ∃ rid, some (⟨r.kind.ptype, rid, some c0, some (tblsSign cd f (H c0) i)⟩ : Msg) ∈
        some ⟨r.kind.ptype, r.ridBytes, some c0, some (mb.signOwn c0)⟩ :: fc) :
    (handleQuery (tblsCrypto cd f H (threshold mb.ids.length) mb.ids.length) p a mb r fc).reports.length = 1
      ∧ (handleQuery (tblsCrypto cd f H (threshold mb.ids.length) mb.ids.length) p a mb r fc).stop = .none := by
  refine c01_enough_honest_reports_composed cd hcd f H p a mb r fc c0 hsub hc0 hlen hf hc
    (honest.map fun i => (i, tblsSign cd f (H c0) i)) ?_ ?_ ?_
  · have e : (honest.map fun i => (i, tblsSign cd f (H c0) i)).map (·.1) = honest := by
      simp [List.map_map, Function.comp_def]
    rw [e]; exact hnd
  · simpa using ht
  · intro q hq
    obtain ⟨i, hi, rfl⟩ := List.mem_map.1 hq
    exact ⟨signed_validShare cd hcd f H _ i (hin i hi) (by have := hin i hi; omega) c0, hmsg i hi⟩

/-- **4′. … whatever the arrival / registration order** (C13 `delivered_eq_arrivals` inside
`enough_honest_reports_any_order`), contracts discharged. -/
theorem c01_enough_honest_reports_any_order_composed (cd : Codec G)
    (hcd : ∀ p, cd.decode (cd.encode p) = some p) (f : List F) (H : Bytes → G) (p a : Nat)
    (mb : Member) (r : Request) (msgOf : Nat → Option Msg) (es₁ es₂ : List Collector.Ev) (h : Nat)
    (c0 : Bytes) (hsub : submitter mb.ids r.last = some mb.me)
    (hc0 : contentFor p r mb.me = some c0) (hlen : mb.me.length = a)
    (hf : f.length ≤ threshold mb.ids.length) (hc : CharGt F mb.ids.length)
    (hreg : ∀ h' r', Collector.Ev.register h' r' ∈ es₁ ++ es₂ → r' ≠ r.ridBytes ∧ h' ≠ h)
    (hcan : Collector.Ev.cancel h ∉ es₁ ++ es₂)
    (gs : List (Nat × Bytes)) (hidx : (gs.map (·.1)).Nodup) (ht : threshold mb.ids.length ≤ gs.length)
    (hgood : ∀ q ∈ gs, ValidShare cd f H mb.ids.length q.1 c0 q.2 ∧ (q.2 = mb.signOwn c0 ∨
      ∃ s, Collector.Ev.arrive s ∈ es₁ ++ Collector.Ev.register h r.ridBytes :: es₂ ∧ s.rid = r.ridBytes ∧
        msgOf s.tag = some ⟨r.kind.ptype, r.ridBytes, some c0, some q.2⟩)) :
    (nodeRun (tblsCrypto cd f H (threshold mb.ids.length) mb.ids.length) p a mb r msgOf
      (es₁ ++ Collector.Ev.register h r.ridBytes :: es₂) h).reports.length = 1 :=
  Props.C01.enough_honest_reports_any_order (ValidShare cd f H mb.ids.length) _ p a mb r msgOf es₁ es₂ h c0
    hsub hc0 hlen
    (tbls_hrec cd hcd f H _ _ (threshold_pos _) hf hc c0)
    (tbls_htot cd f H _ _ (threshold_pos _) hc c0)
    hreg hcan gs hidx (validShares_bytes_nodup gs hidx (fun q hq => (hgood q hq).1)) ht hgood

/-- **liveness + validity together**: under the hypotheses of the liveness theorem THE report exists
and satisfies the contract equation. -/
theorem c01_exactly_one_valid_report (pr : Pairing F G G2 GT) (cd : Codec G)
    (hcd : ∀ p, cd.decode (cd.encode p) = some p)
    (f : List F) (H : Bytes → G) (p a : Nat) (mb : Member) (r : Request) (fc : List (Option Msg))
    (c0 : Bytes) (hsub : submitter mb.ids r.last = some mb.me)
    (hc0 : contentFor p r mb.me = some c0) (hlen : mb.me.length = a)
    (hf : f.length ≤ threshold mb.ids.length) (hc : CharGt F mb.ids.length)
    (gs : List (Nat × Bytes)) (hidx : (gs.map (·.1)).Nodup) (ht : threshold mb.ids.length ≤ gs.length)
    (hgood : ∀ q ∈ gs, ValidShare cd f H mb.ids.length q.1 c0 q.2 ∧
      ∃ rid, some (⟨r.kind.ptype, rid, some c0, some q.2⟩ : Msg) ∈
        some ⟨r.kind.ptype, r.ridBytes, some c0, some (mb.signOwn c0)⟩ :: fc) :
    ∃ rep, (handleQuery (tblsCrypto cd f H (threshold mb.ids.length) mb.ids.length) p a mb r fc).reports = [rep]
      ∧ rep.result ++ mb.me = c0 ∧ ContractEq pr cd f H c0 rep.sig ∧ rep.index = r.kind.ptype := by
  have h1 := (c01_enough_honest_reports_composed cd hcd f H p a mb r fc c0 hsub hc0 hlen hf hc gs hidx ht hgood).1
  obtain ⟨rep, hrep⟩ := List.length_eq_one_iff.1 h1
  have hv := c01_report_valid_composed pr cd f H (threshold mb.ids.length) mb.ids.length p a mb r fc c0
    hc0 hlen rep (by rw [hrep]; simp)
  exact ⟨rep, hrep, hv.1, by rw [← hv.1]; exact hv.2.1, hv.2.2⟩

/-! ### the concrete scalars: `Zq r`, `r` the bn256 group order regenerated from /repo — a field by
`Proofs/Primes.lean` (no primality assumption), `1..n` non-zero by C09 `zq_charGt` -/

/-- liveness at the scalar type the drivers execute; remaining assumptions: G a `Zq r`-module,
codec round trip, `deg f < t`, `n ≤ 65536`. -/
theorem c01_honest_signers_report_bn256 {G : Type} [AddCommGroup G] [Module (Zq Share.bn256Order) G]
    [DecidableEq G] (cd : Codec G) (hcd : ∀ p, cd.decode (cd.encode p) = some p)
    (f : List (Zq Share.bn256Order)) (H : Bytes → G) (p a : Nat) (mb : Member) (r : Request)
    (fc : List (Option Msg)) (c0 : Bytes) (hsub : submitter mb.ids r.last = some mb.me)
    (hc0 : contentFor p r mb.me = some c0) (hlen : mb.me.length = a)
    (hf : f.length ≤ threshold mb.ids.length) (h16 : mb.ids.length ≤ 65536)
    (honest : List Nat) (hnd : honest.Nodup) (hin : ∀ i ∈ honest, i < mb.ids.length)
    (ht : threshold mb.ids.length ≤ honest.length)
    (hmsg : ∀ i ∈ honest, ∃ rid, some (⟨r.kind.ptype, rid, some c0, some (tblsSign cd f (H c0) i)⟩ : Msg) ∈
        some ⟨r.kind.ptype, r.ridBytes, some c0, some (mb.signOwn c0)⟩ :: fc) :
    (handleQuery (tblsCrypto cd f H (threshold mb.ids.length) mb.ids.length) p a mb r fc).reports.length = 1
      ∧ (handleQuery (tblsCrypto cd f H (threshold mb.ids.length) mb.ids.length) p a mb r fc).stop = .none :=
  c01_honest_signers_report cd hcd f H p a mb r fc c0 hsub hc0 hlen hf
    (Props.C09.zq_charGt Share.bn256Order mb.ids.length
      (Nat.lt_of_le_of_lt h16 (by decide))) h16 honest hnd hin ht hmsg

/-! ### non-vacuity: group of three, `F = G = Zq 11` (C02's toy codec), `f = 4 + 3x`, `H ≡ 2`:
shares `[0,0,3]`, `[0,1,9]`, `[0,2,4]`, group signature `[8]`; junk and a foreign share in between -/

private def ids3 : List Bytes := [List.replicate 20 0xA1, List.replicate 20 0xB2, List.replicate 20 0xC3]
private def req3 : Request := { kind := .sys, rid := 7, last := 7, seed := 0, parsed := none }
private def c3 : Bytes := sysContent 32 7 (List.replicate 20 0xB2)
private def mb1 : Member := { ids := ids3, me := List.replicate 20 0xB2, signOwn := fun _ => [0, 1, 9] }
private def fc3 : List (Option Msg) :=
  [some { index := 0, rid := [7], content := some c3, sig := some [1] },
   some { index := 0, rid := [7], content := some c3, sig := some [0, 2, 5] },
   some { index := 0, rid := [7], content := some [9, 9], sig := some [0, 0, 3] },
   none,
   some { index := 0, rid := [7], content := some c3, sig := some [0, 2, 4, 77] }]
private abbrev C3 : Crypto := tblsCrypto C02.toyCodec [(4 : Zq 11), 3] (fun _ => (2 : Zq 11)) (threshold 3) 3

/-- the model evaluated: one report carrying the group signature -/
example : ((handleQuery C3 32 20 mb1 req3 fc3).reports.map (·.sig)) = [[8]] := by decide

/-- the hypotheses of the composed liveness theorem are satisfiable (members 1 and 2 qualify) -/
example : (handleQuery C3 32 20 mb1 req3 fc3).reports.length = 1 ∧ (handleQuery C3 32 20 mb1 req3 fc3).stop = .none :=
  c01_enough_honest_reports_composed C02.toyCodec C02.toyCodec_roundtrip [(4 : Zq 11), 3] (fun _ => 2)
    32 20 mb1 req3 fc3 c3 (by decide) (by decide) (by decide) (by decide)
    (C09.zq_charGt 11 3 (by decide)) [(1, [0, 1, 9]), (2, [0, 2, 4, 77])] (by decide) (by decide)
    (by
      intro q hq
      simp only [List.mem_cons, List.not_mem_nil, or_false] at hq
      rcases hq with rfl | rfl
      · exact ⟨by unfold ValidShare; decide, ⟨natBytes 7, by decide⟩⟩
      · exact ⟨by unfold ValidShare; decide, ⟨[7], by decide⟩⟩)

/-- … and of the validity theorem, with a concrete pairing: the reported `[8]` satisfies the equation -/
example : ∀ rep ∈ (handleQuery C3 32 20 mb1 req3 fc3).reports,
    ContractEq (mulPairing (Zq 11)) C02.toyCodec [(4 : Zq 11), 3] (fun _ => 2) (natBE 32 7 ++ mb1.me) rep.sig :=
  c01_report_valid_sys_composed (mulPairing (Zq 11)) C02.toyCodec [(4 : Zq 11), 3] (fun _ => 2) _ _
    mb1 req3 fc3 rfl (by decide)

/-- `tbls.Sign` shares: members 1 (own) and 2 -/
example : (handleQuery C3 32 20 mb1 req3
    [some { index := 0, rid := [7], content := some c3, sig := some (tblsSign C02.toyCodec [(4 : Zq 11), 3] 2 2) }]).reports.length = 1 :=
  (c01_honest_signers_report C02.toyCodec C02.toyCodec_roundtrip [(4 : Zq 11), 3] (fun _ => 2)
    32 20 mb1 req3 _ c3 (by decide) (by decide) (by decide) (by decide)
    (C09.zq_charGt 11 3 (by decide)) (by decide) [1, 2] (by decide) (by decide) (by decide)
    (by
      intro i hi
      simp only [List.mem_cons, List.not_mem_nil, or_false] at hi
      rcases hi with rfl | rfl
      · exact ⟨natBytes 7, by decide⟩
      · exact ⟨[7], by decide⟩)).1

/-! ### the degenerate instance `f = []` (Review A #10)

`hf : f.length ≤ t` admits the empty coefficient list, and `f.headD 0` is then `0`: the group whose shared
secret is 0 (public key = the identity of G2).  The theorems above are TRUE there and say what they say
everywhere – the report decodes to `f(0) • H(c) = 0` and satisfies the pairing equation under the key
`0 • g₂` – but under that key the equation holds for `S = 0` whatever the message is, so "valid on chain"
carries no information.  A key generation that ends with the zero polynomial is outside C01 (C04/C05:
the constant term is the sum of the dealers' secrets).  The instance below makes the degenerate reading
explicit; the non-degenerate instances are the examples above (`f = 4 + 3x`). -/

private abbrev C0 : Crypto := tblsCrypto C02.toyCodec ([] : List (Zq 11)) (fun _ => (2 : Zq 11)) (threshold 3) 3
private def mb1z : Member := { ids := ids3, me := List.replicate 20 0xB2, signOwn := fun _ => [0, 1, 0] }

/-- zero secret: every share is the encoding of 0, the report is the encoding of 0 -/
example : ((handleQuery C0 32 20 mb1z req3
    [some { index := 0, rid := [7], content := some c3, sig := some [0, 2, 0] }]).reports.map (·.sig)) = [[0]] := by decide

/-- for a polynomial that is not empty the key of the instance IS its constant term -/
theorem key_is_constant_term (f : List F) (hf : f ≠ []) : f.headD 0 = f.head hf := by
  cases f with
  | nil => exact absurd rfl hf
  | cons a l => rfl

end Dos.Props.C01Compose

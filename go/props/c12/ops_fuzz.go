package c12

import (
	"bytes"
	"context"
	"crypto/aes"
	"crypto/cipher"
	"fmt"
	"io"
	"net/http"
	"net/http/httptest"
	"strings"
	"time"

	"github.com/DOSNetwork/core/dosnode"
	"github.com/DOSNetwork/core/p2p"
	dkg "github.com/DOSNetwork/core/share/dkg/pedersen"
	vss "github.com/DOSNetwork/core/share/vss/pedersen"
	"github.com/dedis/kyber"
	"github.com/golang/protobuf/proto"

	"verifharness/internal/dkgnet"
	"verifharness/internal/doubles"
	"verifharness/internal/h"
)

// Oracle-only cases (third-party decoders in the path: protobuf, dedis/protobuf, ajson, xmlquery):
// the line's outcome is "nopanic"; a panic or hang is reported by the child/parent machinery.

func opFzRaw(hexs string) (string, string) {
	b := h.UnHex(hexs)
	p2p.VerifPDecodeBytes(b, nil)
	p2p.VerifPDecodeBytes(b, func(msg, sig []byte) error { return nil })
	return "nopanic", ""
}

func opFzRid(hexs string, withHeader bool) (string, string) {
	setup()
	b := h.UnHex(hexs)
	if !withHeader {
		b = framed(b)
	}
	r, o := handshake(b)
	if r == "hang" {
		return r, o
	}
	return "nopanic", ""
}

func opFzPipe(hexs string) (string, string) {
	setup()
	_, pub := remoteKey()
	in := make(chan []byte)
	reply, recv, errc, cancel := p2p.VerifPDecodePipe(pub, in)
	defer cancel()
	one := func(b []byte) string {
		select {
		case in <- b:
		case <-time.After(stepWait):
			return "hang"
		}
		if len(b) == 0 {
			return "skipped" // decodePipe ignores empty frames without reporting
		}
		select {
		case <-reply:
			return "reply"
		case <-recv:
			return "recv"
		case <-errc:
			return "err"
		case <-time.After(stepWait):
			return "hang"
		}
	}
	if one(h.UnHex(hexs)) == "hang" {
		return "hang", "hang-fzpipe: decodePipe neither delivered nor reported"
	}
	if after := one(buildFrame("K/known/1/0", true)); after != "recv" {
		return "nopanic", "not-serving-fzpipe: a valid frame after the case gave " + after
	}
	return "nopanic", ""
}

func opFzSeal(ns, mes, idxs, hexs string) (string, string) {
	setup()
	w := newWorld(atoi(ns), atoi(mes))
	idx := atoi(idxs)
	e, err := vss.VerifSealBytes(suite, w.secs[idx], w.pubs, w.me, h.UnHex(hexs))
	if err != nil {
		panic("harness: seal: " + err.Error())
	}
	w.g.ProcessDeal(&dkg.Deal{Index: uint32(idx), Deal: e})
	return "nopanic", ""
}

// bytes taken as the wire encoding of each key-generation message in turn
func opFzMsg(hexs string) (string, string) {
	setup()
	b := h.UnHex(hexs)
	w := newWorld(3, 0)
	d := &dkg.Deal{}
	if proto.Unmarshal(b, d) == nil {
		w.g.ProcessDeal(d)
	}
	rs := &dkg.Responses{}
	if proto.Unmarshal(b, rs) == nil {
		for _, r := range rs.Response {
			w.g.ProcessResponse(r)
		}
	}
	r := &dkg.Response{}
	if proto.Unmarshal(b, r) == nil {
		w.g.ProcessResponse(r)
	}
	pk := &dkg.PublicKey{}
	if proto.Unmarshal(b, pk) == nil {
		own := scalarOf("own", 0)
		list := []*dkg.PublicKey{{Index: 0, Publickey: keyBytes("own", own)}, pk, {Index: 2, Publickey: keyBytes("p2", own)}}
		ctx, cancel := context.WithCancel(context.Background())
		secrc := make(chan kyber.Scalar, 1)
		pubc := make(chan []*dkg.PublicKey, 1)
		secrc <- own
		pubc <- list
		out, errc := dkg.VerifGenDistKeyGenerator(ctx, secrc, pubc, 3, suite, "s")
		to := time.After(stepWait)
		for out != nil || errc != nil {
			select {
			case _, ok := <-out:
				if !ok {
					out = nil
				}
			case _, ok := <-errc:
				if !ok {
					errc = nil
				}
			case <-to:
				cancel()
				return "hang", "hang-fzmsg: genDistKeyGenerator did not finish"
			}
		}
		cancel()
	}
	sg := &vss.Signature{}
	if proto.Unmarshal(b, sg) == nil {
		sg.ToBigInt()
	}
	return "nopanic", ""
}

func opFzShares(ts, ns, seed, content, shares string) (string, string) {
	setup()
	var signs []string
	for _, s := range splitList(shares, ";") {
		signs = append(signs, s+"/"+content)
	}
	r, o := opRsign(ts, ns, seed, strings.Join(signs, ";"))
	if r == "hang" {
		return r, o
	}
	return "nopanic", ""
}

func opFzParse(selHex, docHex string) (string, string) {
	return runParse(string(h.UnHex(selHex)), h.UnHex(docHex))
}

// deepDoc: the document and selector of a `deep <kind> <depth>` line (built here: at the depths
// that matter the document has megabytes). Nesting is the one dimension of a fetched document the size
// bound of dataFetch does not bound the COST of: every evaluator / encoder behind dataParse recurses once
// per level, and a goroutine stack overflow is a fatal error no recover() catches.
func deepDoc(kind string, d int) (sel string, doc []byte) {
	switch kind {
	case "json": // [[[…]]] selected whole
		return "$", []byte(strings.Repeat("[", d) + strings.Repeat("]", d))
	case "jsonobj": // {"a":{"a":…1…}} selected below the root
		return "$.a", []byte(strings.Repeat(`{"a":`, d) + "1" + strings.Repeat("}", d))
	case "jsonstr": // flat document whose STRINGS contain the brackets: depth 2, must stay accepted
		return "$[0]", []byte(`["` + strings.Repeat("[{", d) + `","` + strings.Repeat(`\\\"[`, d) + `"]`)
	case "jsondesc": // recursive descent over a deep document
		return "$..a", []byte(strings.Repeat(`{"a":`, d) + "1" + strings.Repeat("}", d))
	case "jsonmix": // alternating arrays and objects, closing brackets hidden in strings
		return "$", []byte(strings.Repeat(`["]",{"a":`, d) + "1" + strings.Repeat("}]", d))
	case "xml": // <a><a>…</a></a>
		return "/a", []byte(strings.Repeat("<a>", d) + strings.Repeat("</a>", d))
	case "xmldesc":
		return "//a[not(a)]", []byte(strings.Repeat("<a>", d) + "t" + strings.Repeat("</a>", d))
	case "xmlwide": // flat: depth 2, d siblings; comments / CDATA that look like tags
		return "/a/b[1]", []byte("<a>" + strings.Repeat("<b/><!-- <a><a> --><![CDATA[<a><a>]]>", d) + "</a>")
	}
	panic("bad fzdeep kind " + kind)
}

// opDeep (`deep <kind> <depth>`): dataParse on a document of nesting depth d; compared with the model's
// depth guard ("err deep" = refused as too deep, "ok eval" = handed to the evaluators, whatever they answer).
// Besides no panic / no fatal error / no hang: a document of ordinary depth (d <= 64) and a flat one are
// still evaluated to a non-empty result (the guard must not refuse them).
func opDeep(kind, ds string) (string, string) {
	d := atoi(ds)
	sel, doc := deepDoc(kind, d)
	fin := make(chan struct{})
	var impl, oracle string
	go func() {
		defer func() {
			if e := recover(); e != nil {
				fn := topRepoFrameFromCallers()
				impl, oracle = "panic "+fn, fmt.Sprintf("panic-in-%s: %s", fn, h.OneLine(fmt.Sprint(e)))
			}
			close(fin)
		}()
		msg, err := dosnode.VerifDataParse(doc, sel)
		switch {
		case err != nil && strings.Contains(err.Error(), "nested deeper"):
			impl = "err deep"
		default:
			impl = "ok eval"
			if (d <= 64 || kind == "jsonstr" || kind == "xmlwide") && (err != nil || len(msg) == 0) {
				oracle = fmt.Sprintf("not-serving-deep: a %s document of nesting depth %d is refused: err=%v", kind, d, err)
			}
		}
	}()
	select {
	case <-fin:
		return impl, oracle
	case <-time.After(time.Hour): // the parent gives up first and kills this process (the evaluation cannot be interrupted)
		return "hang", fmt.Sprintf("hang-deep: dataParse did not return (%s, depth %d)", kind, d)
	}
}

func runParse(sel string, doc []byte) (string, string) {
	fin := make(chan struct{})
	var impl, oracle string
	go func() {
		// in the node dataParse runs on genQueryResult's goroutine, where a panic kills the process
		defer func() {
			if e := recover(); e != nil {
				fn := topRepoFrameFromCallers()
				impl, oracle = "panic "+fn, fmt.Sprintf("panic-in-%s: %s", fn, h.OneLine(fmt.Sprint(e)))
			}
			close(fin)
		}()
		dosnode.VerifDataParse(doc, sel)
	}()
	select {
	case <-fin:
		if impl != "" {
			return impl, oracle
		}
		return "nopanic", ""
	case <-time.After(time.Hour): // the parent gives up first and kills this process (the evaluation cannot be interrupted)
		return "hang", fmt.Sprintf("hang-fzparse: dataParse did not return (selector %q, %d-byte document)", sel, len(doc))
	}
}

var _ = doubles.NewLogger

// opFzFetch: dataFetch against a local server that streams `mib` MiB. Oracle: a small document
// arrives whole, and the node never holds more than 32 MiB of a document in memory.
func opFzFetch(mibs string) (string, string) {
	mib := atoi(mibs)
	chunk := bytes.Repeat([]byte("[1,2,3,4,5,6,7],"), 1<<12) // 64 KiB
	srv := httptest.NewServer(http.HandlerFunc(func(w http.ResponseWriter, r *http.Request) {
		for i := 0; i < mib*16; i++ {
			if _, err := w.Write(chunk); err != nil {
				return
			}
		}
	}))
	defer srv.Close()
	body, err := dosnode.VerifDataFetch(srv.URL)
	switch {
	case len(body) > 32<<20:
		return "nopanic", fmt.Sprintf("oversize-document-read: dataFetch read %d MiB of a %d MiB document into memory (err=%v)", len(body)>>20, mib, err)
	case mib <= 8 && (err != nil || len(body) != mib<<20):
		return "nopanic", fmt.Sprintf("not-serving-fzfetch: a %d MiB document was not fetched: %d bytes, err=%v", mib, len(body), err)
	}
	return "nopanic", ""
}

// opFzSim: an otherwise honest key-generation session of n members (dkgnet.Sim drives the real session
// layer and pipeline stages of every member) with adversarial messages injected at a chosen point.
func opFzSim(seed, n, defs, events string) (string, string) {
	fin := make(chan string, 1)
	go func() {
		out, _ := dkgnet.RunSimLine([]string{"fzsim", seed, n, defs, events})
		fin <- out
	}()
	select {
	case <-fin:
		return "nopanic", ""
	case <-time.After(40 * time.Second):
		return "hang", "hang-fzsim: the session did not come to rest"
	}
}

// opFzConn: the whole client pipeline on a scripted connection after a finished handshake:
// one valid encrypted frame, then the given bytes. Oracle: the valid frame is delivered, nothing
// panics, and run ends when the stream does.
func opFzConn(hexs string) (string, string) {
	setup()
	_, pub := remoteKey()
	key := bytes.Repeat([]byte{7}, 32)
	nonce := bytes.Repeat([]byte{9}, 12)
	block, _ := aes.NewCipher(key)
	gcm, _ := cipher.NewGCM(block)
	good := framed(gcm.Seal(nil, nonce, buildFrame("K/known/1/0", true), nil))
	feed := make(chan p2p.P2PMessage, 16)
	fin := make(chan error, 1)
	conn := &chunkConn{chunks: make(chan []byte, 2)}
	conn.chunks <- good
	go func() { fin <- p2p.VerifPRunClient(conn, pub, key, nonce, feed) }()
	// the valid frame first; the case's bytes only once it went through (a frame that is still in the
	// pipeline when the connection is torn down is lost, which is not what this case is about)
	delivered := false
	select {
	case <-feed:
		delivered = true
	case <-time.After(stepWait):
	}
	if b := h.UnHex(hexs); len(b) > 0 {
		conn.chunks <- b
	}
	close(conn.chunks)
	select {
	case <-fin:
	case <-time.After(stepWait):
		return "hang", "hang-fzconn: client.run did not end with the stream"
	}
	if !delivered {
		return "nopanic", "not-serving-fzconn: the valid first frame was not delivered"
	}
	return "nopanic", ""
}

// chunkConn hands out the queued chunks, blocks while the queue is empty and ends when it is closed
type chunkConn struct {
	sconn
	chunks chan []byte
}

func (c *chunkConn) Read(b []byte) (int, error) {
	for len(c.data) == 0 {
		d, ok := <-c.chunks
		if !ok {
			return 0, io.EOF
		}
		c.data = d
	}
	n := copy(b, c.data)
	c.data = c.data[n:]
	return n, nil
}

// opFzLoop: the real pdkg.Loop with a session that times out (the peer stays silent), kept running past
// the once-a-minute expiry sweep (8d5de85), then fed late and malformed messages of that session.
// Oracle: no panic (a second close of a reply channel would be one), and Loop still takes messages.
func opFzLoop() (string, string) {
	setup()
	me, peer := []byte("me-node-id-000000001"), []byte("peer-node-id-0000002")
	p := doubles.NewP2P(me, 0)
	d := dkg.NewPDKG(p, suite)
	go d.Loop()
	ctx, cancel := context.WithTimeout(context.Background(), 500*time.Millisecond)
	defer cancel()
	outc, errc, err := d.Grouping(ctx, "a1", [][]byte{me, peer})
	if err != nil {
		panic("harness: Grouping: " + err.Error())
	}
	go func() {
		for range outc {
		}
	}()
	go func() {
		for range errc {
		}
	}()
	time.Sleep(63 * time.Second) // at least one sweep after the session context ended
	msgs := []proto.Message{
		&dkg.PublicKey{SessionId: "a1", Index: 1}, &dkg.Deal{SessionId: "a1", Index: 1},
		&dkg.Responses{SessionId: "a1", Response: []*dkg.Response{{Index: 1}, {Index: 0, Response: &vss.Response{Index: 1}}}},
		&dkg.PublicKey{SessionId: "", Index: 4294967295},
	}
	for _, m := range msgs {
		if !p.DeliverTimeout(peer, m, stepWait) {
			return "nopanic", "not-serving-fzloop: Loop does not take messages after the expiry sweep"
		}
	}
	return "nopanic", ""
}

// Package h is the shared skeleton of the correspondence harness: one PRNG,
// the case/result types, hex helpers and the registry of properties.
package h

import (
	"encoding/hex"
	"fmt"
	"math/big"
	"sort"
	"strings"
)

// Rng is SplitMix64: every random choice of a run derives from VERIF_SEED.
type Rng struct{ s uint64 }

func NewRng(seed uint64) *Rng {
	// non-linear scramble: with a plain affine start, seed n+1 would replay seed n's stream shifted by one draw
	r := &Rng{s: seed*0x9E3779B97F4A7C15 + 0x1234567}
	r.s = r.U64() ^ (seed * 0xD1342543DE82EF95)
	r.s = r.U64()
	return r
}
func (r *Rng) U64() uint64 {
	r.s += 0x9E3779B97F4A7C15
	z := r.s
	z = (z ^ (z >> 30)) * 0xBF58476D1CE4E5B9
	z = (z ^ (z >> 27)) * 0x94D049BB133111EB
	return z ^ (z >> 31)
}
func (r *Rng) Intn(n int) int {
	if n <= 0 {
		return 0
	}
	return int(r.U64() % uint64(n))
}
func (r *Rng) Bool() bool { return r.U64()&1 == 1 }
func (r *Rng) Bytes(n int) []byte {
	b := make([]byte, n)
	for i := range b {
		if i%8 == 0 {
			v := r.U64()
			for j := 0; j < 8 && i+j < n; j++ {
				b[i+j] = byte(v >> (8 * uint(j)))
			}
		}
	}
	return b
}

// Big returns a uniform value in [0, max).
func (r *Rng) Big(max *big.Int) *big.Int {
	n := (max.BitLen() + 7) / 8
	v := new(big.Int).SetBytes(r.Bytes(n + 8))
	return v.Mod(v, max)
}
func (r *Rng) Perm(n int) []int {
	p := make([]int, n)
	for i := range p {
		p[i] = i
	}
	for i := n - 1; i > 0; i-- {
		j := r.Intn(i + 1)
		p[i], p[j] = p[j], p[i]
	}
	return p
}

// Result of executing one case line on the implementation.
type Result struct {
	Impl       string // canonical implementation output, compared with the model driver's line
	Oracle     string // "" if the property predicate held on this case, else "<sig>: <details>"
	Class      string // bucket for the input-distribution histogram
	Nontrivial bool   // counts toward distinct_nontrivial (rule stated by the property)
	PanicMsg   string // set by the framework when Exec panicked
}

// Prop is one property's correspondence plug-in.
type Prop struct {
	ID    string
	Rule  string                                              // how cases are generated / what is non-trivial
	Gen   func(tier string, rng *Rng, emit func(line string)) // structured generator
	Exec  func(line string) Result                            // run the real code on one self-contained case line
	NoDrv bool                                                // true: no model driver comparison (oracle only)
	// Exhaustive reports whether Gen enumerated a finite space completely in this tier.
	Exhaustive func(tier string) bool
	// Shrink (optional) proposes simpler variants of a failing case line; the framework
	// keeps a variant whose oracle still fails with the same sig and repeats (greedy).
	Shrink func(line string) []string
}

var registry = map[string]*Prop{}

func Register(p *Prop)       { registry[p.ID] = p }
func Lookup(id string) *Prop { return registry[id] }
func IDs() []string {
	var ids []string
	for k := range registry {
		ids = append(ids, k)
	}
	sort.Strings(ids)
	return ids
}

// SafeExec runs p.Exec under recover.
func SafeExec(p *Prop, line string) (res Result) {
	defer func() {
		if e := recover(); e != nil {
			res.Impl = "panic"
			res.PanicMsg = fmt.Sprint(e)
			if res.Oracle == "" {
				res.Oracle = "panic: " + OneLine(fmt.Sprint(e))
			}
		}
	}()
	return p.Exec(line)
}

func OneLine(s string) string {
	s = strings.ReplaceAll(s, "\n", " | ")
	s = strings.ReplaceAll(s, "\t", " ")
	if len(s) > 400 {
		s = s[:400] + "..."
	}
	return s
}

func Hex(b []byte) string {
	if len(b) == 0 {
		return "-"
	}
	return hex.EncodeToString(b)
}
func UnHex(s string) []byte {
	if s == "-" || s == "" {
		return nil
	}
	b, err := hex.DecodeString(s)
	if err != nil {
		panic("bad hex in case line: " + s)
	}
	return b
}
func Atoi(s string) int {
	var n int
	if _, err := fmt.Sscanf(s, "%d", &n); err != nil {
		panic("bad int in case line: " + s)
	}
	return n
}
func BigDec(s string) *big.Int {
	v, ok := new(big.Int).SetString(s, 10)
	if !ok {
		panic("bad decimal in case line: " + s)
	}
	return v
}

/-
C10 / E2 — the interpreted assembly of gfpMul (regenerated listing, BOTH code paths) equals
the limb models `mulLimbsMULQ` / `mulLimbsMULX` of Proofs/AsmMulLimbs.lean for EVERY machine
state: any registers, flags, frame junk, memory, aliasing of c / a / b, any values of the
package variables p2 and np. As for gfpAdd/Sub/Neg the proof is definitional unfolding — the
interpreter evaluated on the symbolic state must produce exactly these limbs — but for ≈ 300
instructions the elaborator's own unifier is too slow, so the proof term `Eq.refl _` is handed
to the Lean KERNEL directly (`kernel_rfl`): the kernel, which is the trusted checker anyway,
verifies the definitional equality.
-/
import Lean
import DosModel.Proofs.AsmField
import DosModel.Proofs.AsmMulLimbs

open Lean Elab Tactic Meta in
/-- close a goal `a = b` with `Eq.refl a` without asking the elaborator to check `a ≡ b`;
the kernel checks it when the theorem is added to the environment -/
elab "kernel_rfl" : tactic => do
  let g ← getMainGoal
  let t ← instantiateMVars (← g.getType)
  match t.eq? with
  | some (_, a, _) => g.assign (← mkEqRefl a)
  | none => throwError "kernel_rfl: goal is not an equality"

namespace Dos.Asm
open Dos.Mont Dos.Gen.Bn256Asm

/-- what a caller can observe of a finished run: the aliasing and the memory -/
def Outcome.final : Outcome → Option ((Blk → Blk) × (Blk → Nat → Nat))
  | .ok s => some (s.alias, s.mem)
  | .err _ => none

set_option maxRecDepth 1000000 in
theorem gfpMul_interp_mulq (pf nf : Nat → Nat) (s : State) (junk : Nat) :
    (call { p2 := pf, np := nf, hasBMI2 := false } gfpMul s junk).final = some (s.alias,
        store4 (s.alias .c)
          (mulLimbsMULQ ⟨pf 0, pf 1, pf 2, pf 3⟩ ⟨nf 0, nf 1, nf 2, nf 3⟩
            (load4 s.mem (s.alias .a)) (load4 s.mem (s.alias .b))) s.mem) := by
  kernel_rfl

set_option maxRecDepth 1000000 in
theorem gfpMul_interp_mulx (pf nf : Nat → Nat) (s : State) (junk : Nat) :
    (call { p2 := pf, np := nf, hasBMI2 := true } gfpMul s junk).final = some (s.alias,
        store4 (s.alias .c)
          (mulLimbsMULX ⟨pf 0, pf 1, pf 2, pf 3⟩ ⟨nf 0, nf 1, nf 2, nf 3⟩
            (load4 s.mem (s.alias .a)) (load4 s.mem (s.alias .b))) s.mem) := by
  kernel_rfl

end Dos.Asm

/-
Keccak-256 with the legacy (pre-SHA-3) padding 0x01 … 0x80 — what
`golang.org/x/crypto/sha3.NewLegacyKeccak256` computes and what the EVM's KECCAK256 opcode
computes.  Core Lean only; written from the Keccak reference (θ ρ π χ ι on 25 lanes of 64 bits),
independent of any Go library.  `Dos.Keccak.keccak256 : Bytes → Bytes` (32 bytes).
-/
import DosModel.Model.Util

namespace Dos.Keccak
open Dos

def roundConstants : Array UInt64 := #[
  0x0000000000000001, 0x0000000000008082, 0x800000000000808A, 0x8000000080008000,
  0x000000000000808B, 0x0000000080000001, 0x8000000080008081, 0x8000000000008009,
  0x000000000000008A, 0x0000000000000088, 0x0000000080008009, 0x000000008000000A,
  0x000000008000808B, 0x800000000000008B, 0x8000000000008089, 0x8000000000008003,
  0x8000000000008002, 0x8000000000000080, 0x000000000000800A, 0x800000008000000A,
  0x8000000080008081, 0x8000000000008080, 0x0000000080000001, 0x8000000080008008]

/-- rotation offsets r[x + 5y] -/
def rotc : Array Nat := #[
  0, 1, 62, 28, 27,
  36, 44, 6, 55, 20,
  3, 10, 43, 25, 39,
  41, 45, 15, 21, 8,
  18, 2, 61, 56, 14]

def rotl (v : UInt64) (n : Nat) : UInt64 :=
  if n % 64 = 0 then v else (v <<< (UInt64.ofNat (n % 64))) ||| (v >>> (UInt64.ofNat (64 - n % 64)))

def lane (a : Array UInt64) (x y : Nat) : UInt64 := a.getD (x % 5 + 5 * (y % 5)) 0

/-- one round of Keccak-f[1600] -/
def round (a : Array UInt64) (rc : UInt64) : Array UInt64 :=
  -- θ
  let c : Array UInt64 := (Array.range 5).map fun x =>
    lane a x 0 ^^^ lane a x 1 ^^^ lane a x 2 ^^^ lane a x 3 ^^^ lane a x 4
  let d : Array UInt64 := (Array.range 5).map fun x =>
    c.getD ((x + 4) % 5) 0 ^^^ rotl (c.getD ((x + 1) % 5) 0) 1
  let a1 : Array UInt64 := (Array.range 25).map fun i => a.getD i 0 ^^^ d.getD (i % 5) 0
  -- ρ and π : B[y, 2x+3y] = rot(A[x,y], r[x,y])
  let b : Array UInt64 := (Array.range 25).map fun j =>
    -- j = X + 5Y with X = y, Y = 2x + 3y  ⇒  y = X, x = (Y − 3X)/2 mod 5 = 3(Y − 3X) mod 5 = (3Y + X) mod 5
    let X := j % 5
    let Y := j / 5
    let x := (3 * Y + X) % 5
    let y := X
    rotl (a1.getD (x + 5 * y) 0) (rotc.getD (x + 5 * y) 0)
  -- χ
  let a2 : Array UInt64 := (Array.range 25).map fun i =>
    let x := i % 5
    let y := i / 5
    lane b x y ^^^ ((~~~ lane b (x + 1) y) &&& lane b (x + 2) y)
  -- ι
  a2.modify 0 (· ^^^ rc)

def keccakF (a : Array UInt64) : Array UInt64 := roundConstants.foldl round a

/-- little-endian 64-bit lane from 8 bytes -/
def laneOfBytes (bs : Bytes) : UInt64 :=
  bs.foldr (fun b acc => (acc <<< 8) ||| b.toUInt64) 0

def bytesOfLane (v : UInt64) : Bytes :=
  (List.range 8).map fun i => (v >>> (UInt64.ofNat (8 * i))).toUInt8

def rate : Nat := 136

/-- xor one 136-byte block into the state and permute -/
def absorbBlock (st : Array UInt64) (blk : Bytes) : Array UInt64 :=
  let st' := (List.range 17).foldl (fun s i => s.modify i (· ^^^ laneOfBytes ((blk.drop (8 * i)).take 8))) st
  keccakF st'

/-- absorb full blocks; returns the state and the (< 136 byte) remainder -/
def absorb : Nat → Array UInt64 → Bytes → Array UInt64 × Bytes
  | 0, st, m => (st, m)
  | fuel + 1, st, m =>
    if m.length < rate then (st, m)
    else absorb fuel (absorbBlock st (m.take rate)) (m.drop rate)

def pad (m : Bytes) : Bytes :=
  let z := rate - m.length - 1
  if z = 0 then m ++ [0x81]
  else m ++ [0x01] ++ List.replicate (z - 1) 0 ++ [0x80]

def keccak256 (msg : Bytes) : Bytes :=
  let (st, rest) := absorb (msg.length / rate + 1) (Array.replicate 25 0) msg
  let st' := absorbBlock st (pad rest)
  ((List.range 4).map fun i => bytesOfLane (st'.getD i 0)).flatten

end Dos.Keccak

/-
C10 — the group laws for the CONCRETE Montgomery models of G1 and G2: the functions `Jac.add`,
`Jac.double`, `Jac.curveMul`, `Jac.twistMul` over `GFp` / `Fp2 GFp` that the driver runs (and that are
compared with curve.go / twist.go limb for limb, receiver and aliasing included, on every check run),
on reduced inputs whose Montgomery decodings are valid points, keep everything reduced and compute the
operations of the elliptic-curve groups E(F_p) : y² = x³ + b and E'(F_p²) : y² = x³ + b' of Mathlib.
Only theorems; lemmas in Proofs/Bn256Natural.lean, Bn256Concrete.lean, Bn256Concrete2.lean.
-/
import DosModel.Proofs.Bn256Concrete2

namespace Dos.Props.C10Concrete
open Dos Dos.Bn256

/-- **G1**: Add, Double and Mul of curve.go in Montgomery form are +, doubling and k • in E(F_p) -/
theorem g1_group_law (bb : ZMod Bn256.p) (c a b : Jac GFp) (hc : Jac.Reduced c) (ha : Jac.Reduced a)
    (hb : Jac.Reduced b) (va : Valid bb (Jac.decJ a)) (vb : Valid bb (Jac.decJ b)) (k : Nat) :
    (Jac.Reduced (Jac.add c a b) ∧ Valid bb (Jac.decJ (Jac.add c a b)) ∧
      toPoint bb (Jac.decJ (Jac.add c a b)) = toPoint bb (Jac.decJ a) + toPoint bb (Jac.decJ b)) ∧
    (Jac.Reduced (Jac.double c a) ∧ Valid bb (Jac.decJ (Jac.double c a)) ∧
      toPoint bb (Jac.decJ (Jac.double c a)) = toPoint bb (Jac.decJ a) + toPoint bb (Jac.decJ a)) ∧
    (Jac.Reduced (Jac.curveMul a k) ∧ toPoint bb (Jac.decJ (Jac.curveMul a k)) = k • toPoint bb (Jac.decJ a)) :=
  ⟨g1_add_concrete bb c a b hc ha hb va vb, g1_double_concrete bb c a hc ha va, g1_mul_concrete bb a ha va k⟩

/-- **G2**: Add and Mul of twist.go over Montgomery gfP2 are + and k • in E'(F_p²) -/
theorem g2_group_law (bb : Fp2 (ZMod Bn256.p)) (c a b : Jac (Fp2 GFp)) (hc : Jac.Reduced2 c)
    (ha : Jac.Reduced2 a) (hb : Jac.Reduced2 b) (va : Valid bb (Jac.decJ2 a)) (vb : Valid bb (Jac.decJ2 b))
    (k : Nat) :
    (Jac.Reduced2 (Jac.add c a b) ∧ Valid bb (Jac.decJ2 (Jac.add c a b)) ∧
      toPoint bb (Jac.decJ2 (Jac.add c a b)) = toPoint bb (Jac.decJ2 a) + toPoint bb (Jac.decJ2 b)) ∧
    (Jac.Reduced2 (Jac.twistMul a k) ∧
      toPoint bb (Jac.decJ2 (Jac.twistMul a k)) = k • toPoint bb (Jac.decJ2 a)) :=
  ⟨g2_add_concrete bb c a b hc ha hb va vb, g2_mul_concrete bb a ha va k⟩

/-- the code's curve coefficient decodes to 3, and its G1 generator is a reduced triple decoding to the affine
point (1, 2) — a valid (nonsingular) point of y² = x³ + 3 over F_p: the hypotheses above are satisfiable -/
theorem g1_generator_valid :
    dec curveB = 3 ∧ Jac.Reduced curveGen ∧ Valid (3 : ZMod Bn256.p) (Jac.decJ curveGen) := by
  have d1 : dec (GFp.newGFp 1) = 1 := dec_one.2
  have d2 : dec (GFp.newGFp 2) = 2 := by
    have h : (GFp.newGFp 2).v * GFp.rN1.v ≡ 2 [MOD Bn256.p] := by decide
    have := (ZMod.natCast_eq_natCast_iff _ _ _).mpr h
    simpa [dec] using this
  have d3 : dec curveB = 3 := by
    have h : curveB.v * GFp.rN1.v ≡ 3 [MOD Bn256.p] := by decide
    have := (ZMod.natCast_eq_natCast_iff _ _ _).mpr h
    simpa [dec] using this
  refine ⟨d3, by unfold Jac.Reduced; decide, Or.inr ?_⟩
  have hx : Jac.ax (Jac.decJ curveGen) = 1 := by
    show dec (GFp.newGFp 1) / dec (GFp.newGFp 1) ^ 2 = 1
    rw [d1]; norm_num
  have hy : Jac.ay (Jac.decJ curveGen) = 2 := by
    show dec (GFp.newGFp 2) / dec (GFp.newGFp 1) ^ 3 = 2
    rw [d1, d2]; norm_num
  rw [hx, hy, WeierstrassCurve.Affine.nonsingular_iff, WeierstrassCurve.Affine.equation_iff]
  simp only [shortW]
  refine ⟨by norm_num, Or.inr ?_⟩
  intro h
  have h4 : (4 : ZMod Bn256.p) = 0 := by linear_combination h
  have : ((4 : ℕ) : ZMod Bn256.p) = 0 := by exact_mod_cast h4
  rw [ZMod.natCast_eq_zero_iff] at this
  exact absurd (Nat.le_of_dvd (by decide) this) (by decide)

end Dos.Props.C10Concrete

import DosModel.Model.P2PSym
import DosModel.Model.ConnSym
import DosModel.Model.ConnTableCfg
import DosModel.Model.P2PSubCfg
import DosModel.Model.P2PHandshake
import DosModel.Gen.P2PFlow
def c16Step (line : String) : String :=
  match Dos.words line with
  | ["hist", script] =>
    Dos.ConnSym.stepHist ⟨Dos.ConnTable.Cfg.code, Dos.Gen.decodeChecksAnything, Dos.Gen.runKeepsDrainingErrors⟩ script
  | ["sub", _sync, ops] => Dos.P2PSub.stepSub Dos.P2PSub.Cfg.code Dos.P2PSub.registry ops
  | ["hs", idHex, kind] => Dos.P2PHandshake.stepHs idHex kind
  | ["hsmitm", n] =>
    match n.toNat? with
    | some n => Dos.P2PHandshake.stepHsMitm Dos.Gen.decodeChecksAnything Dos.Gen.runKeepsDrainingErrors n
    | none => "bad-op"
  | ["reg"] =>
    "reg " ++ String.intercalate "," ((Dos.Gen.registeredTypes.filter fun (_, _, _, _, linked) => linked).map fun (p, _, _, _, _) => p)
  | _ => Dos.P2PSym.driverStep Dos.Gen.decodeChecksAnything Dos.Gen.runKeepsDrainingErrors line
def main : IO Unit := Dos.lineLoop c16Step

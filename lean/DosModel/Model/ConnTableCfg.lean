/-
The connection-table model's configuration as the CODE has it: computed from the facts
regenerated out of p2p/server.go and p2p/client.go on every run (`Gen/P2PFlow.lean`).
-/
import DosModel.Model.ConnTable
import DosModel.Gen.P2PFlow

namespace Dos.ConnTable

def Cfg.code : Cfg :=
  { keyPerConn  := Gen.signingKeyPerConnection && Gen.sessionKeyFromHandshake,
    nonceBase   := Gen.nonceBasePerConnection,
    idMatch     := Gen.callRefusesOtherId,
    inGuard     := keyIdOfExpr Gen.inGuardKey,
    guardCloses := Gen.inGuardClosesNew,
    inStore     := keyIdOfExpr Gen.inStoreKey,
    outStore    := keyIdOfExpr Gen.outStoreKey,
    reports     := keyIdOfExpr Gen.runClientReports,
    outEndsOut  := Gen.outboundEndChannel == "n.removeCallingC",
    inEndsIn    := Gen.inboundEndChannel == "n.removeIncomingC" }

end Dos.ConnTable

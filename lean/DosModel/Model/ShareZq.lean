/-
The executable instance of `Model/Share.lean`: scalars are numbers modulo the group
order `q` (`Zq q`, always reduced), points are represented by their discrete logarithm
with respect to the standard base (`G := Zq q`, `base := 1`, `s • p := s * p`), which is
a genuine `Zq q`-module.  `Proofs/ShareZq.lean` shows that for a prime `q` these
operations are the field operations of `ZMod q`, so every theorem proved for an
arbitrary field and module applies to exactly the functions the driver runs.

Also: the line protocol of the C09 driver.
-/
import DosModel.Model.Share
import DosModel.Gen.TblsFacts

namespace Dos

/-- numbers modulo `q`, reduced -/
structure Zq (q : Nat) where
  val : Nat
  lt : val < q
  deriving DecidableEq

namespace Zq
variable {q : Nat}

theorem pos (a : Zq q) : 0 < q := Nat.lt_of_le_of_lt (Nat.zero_le _) a.lt

def ofNat (q : Nat) [NeZero q] (n : Nat) : Zq q := ⟨n % q, Nat.mod_lt _ (Nat.pos_of_ne_zero (NeZero.ne q))⟩

/-- `b^e mod q` by square and multiply; `fuel` bounds the number of bits of `e` -/
def powModAux (b q : Nat) : Nat → Nat → Nat
  | 0, _ => 1 % q
  | fuel + 1, e =>
    if e = 0 then 1 % q
    else
      let s := powModAux b q fuel (e / 2)
      let s2 := s * s % q
      if e % 2 = 1 then s2 * b % q else s2

def powMod (b e q : Nat) : Nat := powModAux b q (e.log2 + 1) e

instance : Add (Zq q) := ⟨fun a b => ⟨(a.val + b.val) % q, Nat.mod_lt _ a.pos⟩⟩
instance : Mul (Zq q) := ⟨fun a b => ⟨(a.val * b.val) % q, Nat.mod_lt _ a.pos⟩⟩
instance : Sub (Zq q) := ⟨fun a b => ⟨(a.val + (q - b.val)) % q, Nat.mod_lt _ a.pos⟩⟩
instance : Neg (Zq q) := ⟨fun a => ⟨(q - a.val) % q, Nat.mod_lt _ a.pos⟩⟩
instance [NeZero q] : Zero (Zq q) := ⟨ofNat q 0⟩
instance [NeZero q] : One (Zq q) := ⟨ofNat q 1⟩
/-- the modular inverse for a prime modulus (`a^(q-2)`), `0⁻¹ = 0` -/
instance : Inv (Zq q) := ⟨fun a => if a.val = 0 then a else ⟨powMod a.val (q - 2) q % q, Nat.mod_lt _ a.pos⟩⟩
/-- `big.Int.SetInt64(v).Mod(M)`: Euclidean remainder -/
instance [NeZero q] : IntCast (Zq q) := ⟨fun z => ofNat q (z % (q : Int)).toNat⟩
instance [NeZero q] : NatCast (Zq q) := ⟨fun n => ofNat q n⟩
/-- points as discrete logs: scalar multiplication is multiplication -/
instance : SMul (Zq q) (Zq q) := ⟨fun a b => a * b⟩

end Zq

namespace Share

/-- order of bn256 G1/G2/GT: `group/bn256/constants.go` `Order`, regenerated from /repo on every
check run (`Gen/TblsFacts.lean`) and pinned to the alt_bn128 value by `Props/C09.lean` -/
def bn256Order : Nat := Gen.bn256Order
/-- order of the ed25519 base point (`group/edwards25519/const.go` `primeOrder`), regenerated -/
def ed25519Order : Nat := Gen.ed25519Order

instance : NeZero bn256Order := ⟨by decide⟩
instance : NeZero ed25519Order := ⟨by decide⟩

/-! ### line protocol (see `go/props/c09`) -/

def showErr : Err → String
  | .groups => "groups" | .coeffs => "coeffs" | .few => "few"
def showSite : Site → String
  | .div0 => "div0" | .index => "index" | .negLen => "neglen"

def showOut {α : Type} (f : α → String) : Out α → String
  | .ok v => "ok " ++ f v
  | .err e => "err " ++ showErr e
  | .panic s => "panic " ++ showSite s

def csvOf (xs : List String) : String := if xs.isEmpty then "-" else String.intercalate "," xs

section
variable {q : Nat} [NeZero q]

def showZ (a : Zq q) : String := toString a.val
def showZs (as : List (Zq q)) : String := csvOf (as.map showZ)

def parseZ (s : String) : Option (Zq q) := (s.toNat?).map (Zq.ofNat q)
def parseZs (s : String) : Option (List (Zq q)) :=
  if s == "-" then some [] else (s.splitOn ",").mapM parseZ

/-- group tag of a `tag:csv` polynomial literal -/
def tagOf (s : String) : Option Nat :=
  match s.splitOn ":" with
  | "g2" :: _ => some 0
  | "ed" :: _ => some 1
  | _ => none

def parsePoly (s : String) : Option (Nat × List (Zq q)) :=
  match s.splitOn ":" with
  | [t, cs] => do
    let g ← tagOf t
    let c ← parseZs cs
    pure (g, c)
  | _ => none

/-- one share: `nil` | `<i>:nil` | `<i>:<v>` -/
def parseShare (s : String) : Option (Option (Int × Option (Zq q))) :=
  if s == "nil" then some none else
  match s.splitOn ":" with
  | [i, v] => do
    let i ← i.toInt?
    if v == "nil" then pure (some (i, none)) else do
      let v ← parseZ v
      pure (some (i, some v))
  | _ => none

def parseShares (s : String) : Option (List (Option (Int × Option (Zq q)))) :=
  if s == "-" then some [] else (s.splitOn ";").mapM parseShare

def toPri (l : List (Option (Int × Option (Zq q)))) : List (Option (PriShare (Zq q))) :=
  l.map (Option.map fun iv => ⟨iv.1, iv.2⟩)
def toPub (l : List (Option (Int × Option (Zq q)))) : List (Option (PubShare (Zq q))) :=
  l.map (Option.map fun iv => ⟨iv.1, iv.2⟩)

def showBool (b : Bool) : String := if b then "true" else "false"

/-- selector of the composite case `rt`: `<k>` = share k as dealt, `nil`, `<k>:nil` = share k
with a nil value, `x<i>` = a share with index `i` (out of range) and value 1 -/
def parseSel (dealt : List (PriShare (Zq q))) (s : String) : Option (Option (PriShare (Zq q))) :=
  if s == "nil" then some none else
  match s.splitOn ":" with
  | [k, "nil"] => (k.toNat?).map fun k => some ⟨(k : Int), none⟩
  | [k] =>
    if k.startsWith "x" then ((k.drop 1).toString.toInt?).map fun i => some ⟨i, some 1⟩
    else do
      let k ← k.toNat?
      let sh ← dealt[k]?
      pure (some sh)
  | _ => none

/-- the driver for one group (modulus `q`, division behaviour, own tag) -/
def stepG (divPanics : Bool) (w : List String) : String :=
  match w with
  | ["eval", p, i] =>
    match parsePoly (q := q) p, i.toInt? with
    | some (_, c), some i => "ok " ++ showZ (priEval c i)
    | _, _ => "bad-op"
  | ["shares", p, n] =>
    match parsePoly (q := q) p, n.toNat? with
    | some (_, c), some n =>
      let sh := priShares c n
      "ok " ++ (if sh.isEmpty then "-" else String.intercalate ";" (sh.map fun s =>
        s!"{s.I}:{match s.V with | some v => showZ v | none => "nil"}"))
    | _, _ => "bad-op"
  | ["priadd", p, r] =>
    match parsePoly (q := q) p, parsePoly (q := q) r with
    | some (g, c), some (g', c') => showOut (fun x => showZs x.coeffs) (priAdd ⟨g, c⟩ ⟨g', c'⟩)
    | _, _ => "bad-op"
  | ["priequal", p, r] =>
    match parsePoly (q := q) p, parsePoly (q := q) r with
    | some (g, c), some (g', c') => showBool (priEqual ⟨g, c⟩ ⟨g', c'⟩)
    | _, _ => "bad-op"
  | ["primul", p, r] =>
    match parsePoly (q := q) p, parsePoly (q := q) r with
    | some (_, c), some (_, c') => showOut showZs (priMul c c')
    | _, _ => "bad-op"
  | ["commit", p, b] =>
    match parsePoly (q := q) p, parseZ (q := q) b with
    | some (g, c), some b => "ok " ++ showZs (commit (P := Zq q) ⟨g, c⟩ b).commits
    | _, _ => "bad-op"
  | ["pubeval", p, i] =>
    match parsePoly (q := q) p, i.toInt? with
    | some (_, c), some i => "ok " ++ showZ (pubEval (Zq q) c i)
    | _, _ => "bad-op"
  | ["pubshares", p, n] =>
    match parsePoly (q := q) p, n.toNat? with
    | some (_, c), some n =>
      let sh := pubShares (Zq q) c n
      "ok " ++ (if sh.isEmpty then "-" else String.intercalate ";" (sh.map fun s =>
        s!"{s.I}:{match s.V with | some v => showZ v | none => "nil"}"))
    | _, _ => "bad-op"
  | ["pubadd", p, r] =>
    match parsePoly (q := q) p, parsePoly (q := q) r with
    | some (g, c), some (g', c') =>
      showOut (fun x => showZs x.commits) (pubAdd (P := Zq q) ⟨g, 1, c⟩ ⟨g', 1, c'⟩)
    | _, _ => "bad-op"
  | ["pubaddb", p, bp, r, br] =>
    match parsePoly (q := q) p, parseZ (q := q) bp, parsePoly (q := q) r, parseZ (q := q) br with
    | some (g, c), some bp, some (g', c'), some br =>
      showOut (fun x => String.intercalate "," (("base=" ++ showZ x.base) :: x.commits.map showZ))
        (pubAdd (P := Zq q) ⟨g, bp, c⟩ ⟨g', br, c'⟩)
    | _, _, _, _ => "bad-op"
  | ["coeffs", p] =>
    match parsePoly (q := q) p with
    | some (_, c) =>
      "ok " ++ showZs c ++ s!" t={c.length} secret=" ++ (match c with | [] => "-" | s :: _ => showZ s)
    | _ => "bad-op"
  | ["pubequal", p, r] =>
    match parsePoly (q := q) p, parsePoly (q := q) r with
    | some (g, c), some (g', c') => showBool (pubEqual (P := Zq q) ⟨g, 1, c⟩ ⟨g', 1, c'⟩)
    | _, _ => "bad-op"
  | ["check", p, b, i, v] =>
    match parsePoly (q := q) p, parseZ (q := q) b, i.toInt?, parseZ (q := q) v with
    | some (g, c), some b, some i, some v => showBool (check (Zq q) (P := Zq q) ⟨g, b, c⟩ i v)
    | _, _, _, _ => "bad-op"
  | ["tors", p, b, i, v, _] =>
    -- `check` against a commitment polynomial whose first commitment carries a small-order component `T`
    -- (Ed25519, cofactor 8): a point is (discrete log in ⟨B⟩, torsion part); `Eval(i)` has torsion part
    -- `T ≠ O`, `v • base` has torsion part `O`, so the comparison of the pairs is false whatever the
    -- discrete-log parts are
    match parsePoly (q := q) p, parseZ (q := q) b, i.toInt?, parseZ (q := q) v with
    | some (g, c), some b, some i, some v => showBool (check (Zq q) (P := Zq q) ⟨g, b, c⟩ i v && false)
    | _, _, _, _ => "bad-op"
  | ["recsecret", _, t, n, sh] =>
    match t.toNat?, n.toNat?, parseShares (q := q) sh with
    | some t, some n, some sh => showOut showZ (recoverSecret divPanics (toPri sh) t n)
    | _, _, _ => "bad-op"
  | ["recpoly", g, t, n, sh] =>
    match tagOf g, t.toNat?, n.toNat?, parseShares (q := q) sh with
    | some g, some t, some n, some sh =>
      showOut (fun x => showZs x.coeffs) (recoverPriPoly g (toPri sh) t n)
    | _, _, _, _ => "bad-op"
  | ["reccommit", _, t, n, sh] =>
    match t.toNat?, n.toNat?, parseShares (q := q) sh with
    | some t, some n, some sh =>
      showOut showZ (recoverCommit (S := Zq q) divPanics (toPub sh) t n)
    | _, _, _ => "bad-op"
  | ["rt", p, b, n, sel] =>
    match parsePoly (q := q) p, parseZ (q := q) b, n.toNat? with
    | some (g, c), some b, some n =>
      let t := c.length
      let dealt := priShares c n
      match (if sel == "-" then some [] else (sel.splitOn ",").mapM (parseSel dealt)) with
      | none => "bad-op"
      | some chosen =>
        let pub := commit (P := Zq q) ⟨g, c⟩ b
        let pubSh : List (Option (PubShare (Zq q))) := chosen.map fun s =>
          match s with
          | none => none
          | some s => some ⟨s.I, match s.V with
              | none => none
              | some _ => some (pubEval (Zq q) pub.commits s.I)⟩
        let checks := String.ofList (chosen.map fun s =>
          match s with
          | some ⟨i, some v⟩ => if check (Zq q) pub i v then '1' else '0'
          | _ => '-')
        "sec=" ++ showOut showZ (recoverSecret divPanics chosen t n)
          ++ " poly=" ++ showOut (fun x => showZs x.coeffs) (recoverPriPoly g chosen t n)
          ++ " com=" ++ showOut showZ (recoverCommit (S := Zq q) divPanics pubSh t n)
          ++ " chk=" ++ (if checks.isEmpty then "-" else checks)
    | _, _, _ => "bad-op"
  | _ => "bad-op"

end

/-- one self-contained case: the first group tag occurring in the line decides the carrier -/
def stepOne (w : List String) : String :=
  match w with
  | _ :: a :: _ =>
    match tagOf a with
    | some 0 => stepG (q := bn256Order) true w
    | some 1 => stepG (q := ed25519Order) false w
    | _ => "bad-op"
  | _ => "bad-op"

/-- a HISTORY of recoveries (`hist c₁|c₂|…`, `cᵢ = poly~beta~n~selectors` = the arguments of an `rt`
case): the functions of `share/poly.go` are functions of their arguments only (the package has no
mutable package-level variable: `Gen.PkgVars.share`, pinned by `c09_no_package_state`), so the model
of a history is the list of the models of its calls – `histOut` is a `map`. -/
def histOut (calls : List String) : List String :=
  calls.map fun c => stepOne ("rt" :: c.splitOn "~")

def step (line : String) : String :=
  match words line with
  | ["hist", calls] => String.intercalate " | " (histOut (calls.splitOn "|"))
  | w => stepOne w

end Share
end Dos

// one-off probe (not part of the check): after the session context is done, pdkg.Loop's expiry
// sweep (one-minute ticker) closes the reply channel of an incomplete request.
package main

import (
	"context"
	"fmt"
	"os"
	"time"

	"github.com/DOSNetwork/core/log"
	dkg "github.com/DOSNetwork/core/share/dkg/pedersen"
	"github.com/DOSNetwork/core/suites"

	"verifharness/internal/doubles"
)

func main() {
	os.MkdirAll("vault", 0o755)
	log.Init([]byte{1})
	net := doubles.NewP2P([]byte("a"), 400)
	d := dkg.NewPDKG(net, suites.MustFind("bn256"))
	go d.Loop()
	ctx, cancel := context.WithCancel(context.Background())
	out := dkg.VerifPipesAskMembers(ctx, dkg.VerifPipesBufToNode(d), 2, 0, "5e55")
	time.Sleep(100 * time.Millisecond)
	cancel()
	start := time.Now()
	for time.Since(start) < 70*time.Second {
		select {
		case _, ok := <-out:
			if !ok {
				fmt.Printf("closed after %.0f s\n", time.Since(start).Seconds())
				return
			}
		default:
		}
		time.Sleep(time.Second)
	}
	fmt.Println("still open after 70 s")
}

/-
C10 layers 5/6 — the scalar-multiplication loop of curve.go / twist.go computes k • P, and
the PairingCheck logic of point.go, both over abstract algebra:

* `mulLoop_smul`: let φ map Jacobian triples to ANY commutative additive monoid G such that, on a
  class V of valid triples closed under the two operations, Double is φ-doubling and Add is
  φ-addition (what Proofs/Bn256Curve.lean establishes for the affine image). Then the loop
  `for i = BitLen(k) … 0 { t.Double(sum); if bit i { sum.Add(t, a) } else { sum.Set(t) } }`
  started from any valid representative of 0 yields k • φ(a), for EVERY k — including the
  leading iteration i = BitLen(k) whose bit is always 0.
* `pairingCheck_logic`: skipping pairs with an identity and applying ONE final exponentiation
  to the product of Miller values decides "the product of the pairings is one" whenever the
  final exponentiation is multiplicative.
-/
import Mathlib.Algebra.BigOperators.Group.List.Basic
import DosModel.Proofs.Bn256Scalar
import DosModel.Model.Bn256CPairing

namespace Dos.Bn256

section mul
set_option linter.unusedSectionVars false
variable {K : Type} [Add K] [Sub K] [Neg K] [Mul K] [Zero K] [One K] [Sq K] [DecidableEq K]
variable {G : Type} [AddCommMonoid G]

theorem mulLoop_fold (V : Jac K → Prop) (φ : Jac K → G)
    (hdbl : ∀ c a, V a → V (Jac.double c a) ∧ φ (Jac.double c a) = φ a + φ a)
    (hadd : ∀ c a b, V a → V b → V (Jac.add c a b) ∧ φ (Jac.add c a b) = φ a + φ b)
    (a : Jac K) (ha : V a) (k : Nat) (l : List Nat) :
    ∀ st : Jac K × Jac K, V st.1 →
      V (l.foldl (fun (st : Jac K × Jac K) i =>
          let t := Jac.double st.2 st.1
          let sum := if k.testBit i then Jac.add st.1 t a else t
          (sum, t)) st).1 ∧
      φ (l.foldl (fun (st : Jac K × Jac K) i =>
          let t := Jac.double st.2 st.1
          let sum := if k.testBit i then Jac.add st.1 t a else t
          (sum, t)) st).1 =
        l.foldl (fun acc i => if k.testBit i then acc + acc + φ a else acc + acc) (φ st.1) := by
  induction l with
  | nil => intro st h; exact ⟨h, rfl⟩
  | cons i l ih =>
    intro st h
    simp only [List.foldl_cons]
    obtain ⟨hv, hφ⟩ := hdbl st.2 st.1 h
    by_cases hb : k.testBit i
    · obtain ⟨hv2, hφ2⟩ := hadd st.1 (Jac.double st.2 st.1) a hv ha
      have := ih (Jac.add st.1 (Jac.double st.2 st.1) a, Jac.double st.2 st.1) hv2
      simp only [hb, if_true] at this ⊢
      rw [hφ2, hφ] at this
      exact this
    · have := ih (Jac.double st.2 st.1, Jac.double st.2 st.1) hv
      simp only [hb, Bool.false_eq_true, if_false] at this ⊢
      rw [hφ] at this
      exact this

/-- **mul_double_and_add** -/
theorem mulLoop_smul (V : Jac K → Prop) (φ : Jac K → G)
    (hdbl : ∀ c a, V a → V (Jac.double c a) ∧ φ (Jac.double c a) = φ a + φ a)
    (hadd : ∀ c a b, V a → V b → V (Jac.add c a b) ∧ φ (Jac.add c a b) = φ a + φ b)
    (a : Jac K) (ha : V a) (k : Nat) (sum0 t0 : Jac K) (h0 : V sum0) (hφ0 : φ sum0 = 0) :
    V (Jac.mulLoop a k sum0 t0) ∧ φ (Jac.mulLoop a k sum0 t0) = k • φ a := by
  obtain ⟨hv, hφ⟩ := mulLoop_fold V φ hdbl hadd a ha k (List.range (Fp12.bitLen k + 1)).reverse (sum0, t0) h0
  refine ⟨hv, ?_⟩
  unfold Jac.mulLoop
  rw [hφ, Scalar.dblAdd_fold, hφ0, nsmul_zero, zero_add,
    Nat.mod_eq_of_lt (Scalar.lt_two_pow_bitLen_succ k)]

end mul

section pairing
set_option linter.unusedSectionVars false
variable {P Q T : Type} [CommMonoid T] [DecidableEq T]

theorem pairing_fold (infP : P → Bool) (infQ : Q → Bool) (mil : Q → P → T) (fin : T →* T)
    (ps : List (P × Q)) : ∀ acc : T,
    fin (ps.foldl (fun acc pq => if infP pq.1 || infQ pq.2 then acc else acc * mil pq.2 pq.1) acc) =
      fin acc * (ps.map fun pq => if infP pq.1 || infQ pq.2 then 1 else fin (mil pq.2 pq.1)).prod := by
  induction ps with
  | nil => intro acc; simp
  | cons pq ps ih =>
    intro acc
    simp only [List.foldl_cons, List.map_cons, List.prod_cons]
    rw [ih]
    split
    · simp
    · rw [map_mul, mul_assoc]

/-- **pairingCheck_logic** -/
theorem pairingCheck_logic (infP : P → Bool) (infQ : Q → Bool) (mil : Q → P → T) (fin : T →* T)
    (ps : List (P × Q)) :
    pairingCheckAbs infP infQ mil (· * ·) 1 fin (fun t => decide (t = 1)) ps = true ↔
      (ps.map fun pq => if infP pq.1 || infQ pq.2 then 1 else fin (mil pq.2 pq.1)).prod = 1 := by
  unfold pairingCheckAbs
  rw [decide_eq_true_iff, pairing_fold, map_one, one_mul]

end pairing
end Dos.Bn256

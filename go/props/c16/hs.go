package c16

// hs <id hex|-> <kind>   what the handshake binds: the harness's endpoint connects to a REAL node "B",
//                        announces the given id (any bytes: another member's id, B's own, empty) with a
//                        presented key of kind k (a fresh valid key pair of its own), i (the point at
//                        infinity) or g (bytes that are no G2 point), and, when it can derive the session
//                        key, sends one Ping with that id as sender.
// hsmitm <n>             two REAL nodes A and B; a proxy ACTIVE DURING THE HANDSHAKE answers each with a key
//                        pair of its own (announcing the other's id), opens what A seals, signs the payload
//                        again with its key and seals it for B. Outside C16 as stated ("the key presented
//                        in the handshake" is then the proxy's): an observation the model predicts, no oracle.
//
// Observed: whether B accepted the connection (it keeps it open / closes it), what its Ping subscriber
// received and with which sender.

import (
	"context"
	"encoding/hex"
	"fmt"
	"net"
	"strings"
	"sync"
	"time"

	"github.com/DOSNetwork/core/p2p"
	"github.com/DOSNetwork/core/suites"
	"github.com/golang/protobuf/proto"

	"verifharness/internal/h"
)

func execHs(idHex, kind string) (res h.Result) {
	var id []byte
	if idHex != "-" {
		b, err := hex.DecodeString(idHex)
		if err != nil {
			panic("bad case line: " + idHex)
		}
		id = b
	}
	recv := startReceiver()
	defer recv.node.Leave()
	c, err := net.DialTimeout("tcp", recv.addr, 3*time.Second)
	if err != nil {
		panic(err)
	}
	defer c.Close()
	accepted, delivered, sender := false, 0, "-"
	switch kind {
	case "k":
		s, err := boundedHandshake(c, id)
		if err == nil {
			s.Send(&p2p.Ping{Count: 5}, 1, false, 0)
			deadline := time.Now().Add(4 * time.Second)
			for !recv.has(0, 5) && time.Now().Before(deadline) {
				select {
				case <-recv.tick:
				case <-time.After(20 * time.Millisecond):
				}
			}
		}
	case "i", "g":
		suite := suites.MustFind("bn256")
		var pk []byte
		if kind == "i" {
			pk, _ = suite.G2().Point().Null().MarshalBinary()
		} else {
			pk = syn(128, 77)
			for i := range pk {
				pk[i] |= 0xf0 // coordinates above the modulus
			}
		}
		b, err := p2p.VerifEncode(&p2p.ID{PublicKey: pk, Id: id}, id, nil, 0, false)
		if err != nil {
			panic(err)
		}
		p2p.VerifWriteTo(b, c)
		p2p.VerifReadFrom(c) // B's own ID frame
	default:
		panic("bad case line: hs kind " + kind)
	}
	// B closes a connection whose handshake it refused; an accepted one stays open
	c.SetReadDeadline(time.Now().Add(700 * time.Millisecond))
	var one [1]byte
	_, rerr := c.Read(one[:])
	if ne, ok := rerr.(net.Error); ok && ne.Timeout() {
		accepted = true
	}
	recv.mu.Lock()
	for _, d := range recv.got {
		if d.t == 0 && d.idx == 5 {
			delivered++
			sender = "-"
			if len(d.sender) > 0 {
				sender = hex.EncodeToString([]byte(d.sender))
			}
		}
	}
	recv.mu.Unlock()
	alive := recv.alive()
	acc, al := "no", "no"
	if accepted {
		acc = "yes"
	}
	if alive {
		al = "yes"
	}
	res.Impl = fmt.Sprintf("hs accepted=%s delivered=%d sender=%s alive=%s", acc, delivered, sender, al)
	res.Class, res.Nontrivial = "hs-"+kind, true
	if !alive {
		res.Oracle = "receiver-dead: a fresh honest connection got no message through"
	}
	if delivered > 0 && kind != "k" {
		res.Oracle = "keyless-delivered: a message was delivered on a connection whose presented key admits no session key"
	}
	return
}

func execHsMitm(n int) (res h.Result) {
	recv := startReceiverAs("B", func([]byte) string { return "" }, nil)
	defer recv.node.Leave()
	ln, err := net.Listen("tcp", "127.0.0.1:0")
	if err != nil {
		panic(err)
	}
	defer ln.Close()
	var mu sync.Mutex
	read := 0
	go func() {
		a, err := ln.Accept()
		if err != nil {
			return
		}
		defer a.Close()
		b, err := net.Dial("tcp", recv.addr)
		if err != nil {
			return
		}
		defer b.Close()
		// towards A the proxy is "B", towards B it is "A" — each time with a key pair of its own
		sA, err := boundedHandshake(a, []byte("B"))
		if err != nil {
			return
		}
		sB, err := boundedHandshake(b, []byte("A"))
		if err != nil {
			return
		}
		for {
			pa, err := sA.Read() // opened with the key the proxy shares with A
			if err != nil {
				return
			}
			sig, err := sB.Sign(pa.GetAnything().GetValue()) // signed again with the key presented to B
			if err != nil {
				return
			}
			out, _ := proto.Marshal(&p2p.Package{Anything: pa.Anything, Sender: pa.Sender, Signature: sig, RequestNonce: pa.RequestNonce, ReplyFlag: pa.ReplyFlag})
			if sB.WriteFrame(sB.Seal(out)) != nil {
				return
			}
			mu.Lock()
			read++
			mu.Unlock()
		}
	}()
	arecv := startReceiverAs("A", func(id []byte) string {
		if string(id) == "B" {
			return ln.Addr().String()
		}
		return ""
	}, nil)
	defer arecv.node.Leave()
	for i := 0; i < n; i++ {
		go func(i int) {
			ctx, cancel := context.WithTimeout(context.Background(), 2*time.Second)
			defer cancel()
			arecv.node.Request(ctx, []byte("B"), &p2p.Ping{Count: uint64(i)}) // nobody replies
		}(i)
		deadline := time.Now().Add(6 * time.Second)
		for !recv.has(0, i) && time.Now().Before(deadline) {
			select {
			case <-recv.tick:
			case <-time.After(20 * time.Millisecond):
			}
		}
	}
	recv.mu.Lock()
	got := 0
	senders := map[string]bool{}
	for _, d := range recv.got {
		if d.t == 0 {
			got++
			senders[hex.EncodeToString([]byte(d.sender))] = true
		}
	}
	recv.mu.Unlock()
	var ss []string
	for s := range senders {
		ss = append(ss, s)
	}
	mu.Lock()
	both := "secret"
	if read == n {
		both = "known" // the proxy opened every frame A sealed and B accepted what it sealed
	}
	mu.Unlock()
	al := "no"
	if recv.alive() {
		al = "yes"
	}
	apeer := "-"
	if both == "known" {
		apeer = "42" // callHandler hands a request on only when the peer announced the id it dialled
	}
	res.Impl = fmt.Sprintf("hsmitm both=%s a-peer=%s b-peer=%s delivered=%d/%d alive=%s", both, apeer, strings.Join(ss, "+"), got, n, al)
	res.Class, res.Nontrivial = "hsmitm", true
	return
}

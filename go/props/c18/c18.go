// Package c18: contract event delivery (eth_subscribe.go SubscribeEvent / firstEvent, eth_helpers.go merge).
//
// Case lines
//
//	fe <item,item,…>           firstEvent alone (hook), values fed in exactly this order.
//	                           item = data:blockN:tx:logIndex:removed:payload | x (a value that is not a *LogCommon)
//	tw <ms> <tok,tok,…>        firstEvent with its expiry timers firing (window.go)
//	mg <stream/stream/…>       merge + firstEvent (hooks), one goroutine per stream feeding concurrently; output compared as a set
//	sub <nws> <types> <H> <S> <drop>
//	                           a real adaptor (its own Connect) subscribed to <types> on <nws> in-process websocket
//	                           endpoints; H = log|log|…, log = type;blockN;tx;logIndex;v1;v2;… (ABI values in ABI order);
//	                           S = stream/stream/…, one per endpoint, items <logno> or <logno>r (removed re-emission);
//	                           drop = - or e@pos (endpoint e loses its connection after pos items)
//	                           optional 7th field S2 = stream/stream/…: what the endpoints emit AFTER the failure was
//	                           reported and handled the way dosnode.onchainLoop handles it (DisconnectWs(err.Idx))
//	ent <log> <removed>        one table entry alone (hook) on a websocket endpoint: the LogCommon it builds
package c18

import (
	"context"
	"encoding/binary"
	"errors"
	"fmt"
	"math/big"
	"os"
	"reflect"
	"sort"
	"strconv"
	"strings"
	"sync"
	"sync/atomic"
	"time"

	"github.com/DOSNetwork/core/onchain"
	"github.com/DOSNetwork/core/onchain/commitreveal"
	"github.com/DOSNetwork/core/onchain/dosproxy"
	"github.com/ethereum/go-ethereum/common"
	"github.com/ethereum/go-ethereum/core/types"
	"github.com/ethereum/go-ethereum/ethclient"

	"verifharness/internal/chaindouble"
	"verifharness/internal/h"
)

func init() {
	h.Register(&h.Prop{
		ID: "C18",
		Rule: "cases: fe (firstEvent through the hook on an exact arrival order: every interleaving of small stream sets, random interleavings of 1..3 streams with duplicates, removed re-emissions, equal-data logs, block number 0), " +
			"mg (merge+firstEvent hooks with concurrent feeders and early-closing streams), " +
			"sub (real adaptor, its own Connect, 1..3 in-process websocket endpoints playing scripted histories concurrently, all 7 subscribed event types (all 15 table entries in thorough), boundary field values, removed re-emissions, one endpoint dropping at any point); " +
			"non-trivial = more than one stream/endpoint, or a removed / duplicate / equal-data item, or a boundary field value; distinct = distinct case line",
		Gen:  gen,
		Exec: exec,
	})
}

var quiet sync.Once

func silence() {
	quiet.Do(func() {
		if f, err := os.OpenFile(os.DevNull, os.O_WRONLY, 0); err == nil {
			os.Stdout = f
		}
	})
}

// ---------------------------------------------------------------------------
// fe / mg: hooks

type item struct {
	other   bool
	data    []byte
	blockN  uint64
	tx      []byte
	index   uint
	removed bool
	payload string
}

func parseItem(s string) item {
	if s == "x" {
		return item{other: true}
	}
	p := strings.Split(s, ":")
	if len(p) != 6 {
		panic("bad item " + s)
	}
	var bn uint64
	fmt.Sscanf(p[1], "%d", &bn)
	ix, err := strconv.ParseUint(p[3], 10, 64)
	if err != nil {
		panic("bad log index " + p[3])
	}
	return item{data: h.UnHex(p[0]), blockN: bn, tx: h.UnHex(p[2]), index: uint(ix), removed: p[4] == "1", payload: p[5]}
}

func parseItems(s string) []item {
	if s == "-" {
		return nil
	}
	var r []item
	for _, p := range strings.Split(s, ",") {
		r = append(r, parseItem(p))
	}
	return r
}

func parseIndex(s string) uint {
	v, err := strconv.ParseUint(s, 10, 64)
	if err != nil {
		panic("bad log index " + s)
	}
	return uint(v)
}

func (it item) value() interface{} {
	if it.other {
		return "not a LogCommon"
	}
	raw := types.Log{Data: it.data, BlockNumber: it.blockN, TxHash: common.BytesToHash(it.tx), Index: it.index, Removed: it.removed}
	p := it.payload
	return onchain.VerifLog(raw, &p)
}

// chainKey is the chain's own notion of "the same log"
func (it item) chainKey() string {
	return fmt.Sprintf("%x/%d/%x/%d", it.data, it.blockN, common.BytesToHash(it.tx), it.index)
}

// onceOracle: every log with a non-removed observation is delivered exactly once with its own payload,
// a log only ever seen flagged removed never.  Logs with block number 0 are outside the property
// (no mined log has it) and are not judged.
func onceOracle(items []item, out []string) string {
	want := map[string]int{} // payload → required deliveries
	payloadOf := map[string]string{}
	judged := map[string]bool{}
	seenKey := map[string]bool{}
	for _, it := range items {
		if it.other {
			continue
		}
		if it.blockN == 0 {
			judged[it.payload] = false
			continue
		}
		if _, ok := judged[it.payload]; !ok {
			judged[it.payload] = true
		}
		k := it.chainKey()
		if p, ok := payloadOf[k]; ok && p != it.payload {
			// the same chain log carried by different payload tokens (different endpoints): either may be delivered
			it.payload = p
		} else {
			payloadOf[k] = it.payload
		}
		if !it.removed && !seenKey[k] {
			seenKey[k] = true
			want[it.payload]++
		} else if _, ok := want[it.payload]; !ok {
			want[it.payload] = 0
		}
	}
	got := map[string]int{}
	for _, p := range out {
		got[p]++
	}
	var keys []string
	for p := range want {
		keys = append(keys, p)
	}
	for p := range got {
		if _, ok := want[p]; !ok {
			keys = append(keys, p)
		}
	}
	sort.Strings(keys)
	for _, p := range keys {
		if j, ok := judged[p]; ok && !j {
			continue
		}
		w, known := want[p]
		switch {
		case !known:
			return "unknown-payload-delivered: " + p
		case w == 0 && got[p] > 0:
			return "removed-log-delivered: payload " + p
		case got[p] > w:
			return fmt.Sprintf("delivered-twice: payload %s delivered %d times", p, got[p])
		case got[p] < w:
			return fmt.Sprintf("distinct-log-suppressed: payload %s delivered %d times, %d distinct non-removed logs carry it", p, got[p], w)
		}
	}
	return ""
}

func showOut(out []string) string {
	if len(out) == 0 {
		return "out -"
	}
	return "out " + strings.Join(out, ",")
}

func execFE(w []string) (res h.Result) {
	items := parseItems(w[1])
	ctx, cancel := context.WithCancel(context.Background())
	defer cancel()
	src := make(chan interface{})
	outc := onchain.VerifFirstEvent(ctx, src)
	var out []string
	done := make(chan struct{})
	go func() {
		for v := range outc {
			if p, ok := v.(*string); ok {
				out = append(out, *p)
			} else {
				out = append(out, fmt.Sprintf("?%T", v))
			}
		}
		close(done)
	}()
	for _, it := range items {
		src <- it.value()
	}
	close(src)
	<-done
	res.Impl = showOut(out)
	res.Oracle = onceOracle(items, out)
	res.Class = "fe"
	res.Nontrivial = len(items) > len(out)
	return
}

func execMG(w []string) (res h.Result) {
	var streams [][]item
	var all []item
	for _, s := range strings.Split(w[1], "/") {
		its := parseItems(s)
		streams = append(streams, its)
		all = append(all, its...)
	}
	ctx, cancel := context.WithCancel(context.Background())
	defer cancel()
	var cs []chan interface{}
	for range streams {
		cs = append(cs, make(chan interface{}))
	}
	outc := onchain.VerifFirstEvent(ctx, onchain.VerifMerge(ctx, cs...))
	var out []string
	done := make(chan struct{})
	go func() {
		for v := range outc {
			if p, ok := v.(*string); ok {
				out = append(out, *p)
			}
		}
		close(done)
	}()
	start := make(chan struct{})
	for i, st := range streams {
		go func(c chan interface{}, st []item) {
			<-start
			for _, it := range st {
				c <- it.value()
			}
			close(c) // a watcher whose endpoint is gone closes its channel
		}(cs[i], st)
	}
	close(start)
	<-done // merge closes its output only when every input is closed
	sort.Strings(out)
	res.Impl = showOut(out)
	res.Oracle = onceOracle(all, out)
	res.Class = fmt.Sprintf("mg-k%d", len(streams))
	res.Nontrivial = len(streams) > 1
	return
}

// ---------------------------------------------------------------------------
// sub: the real adaptor on in-process websocket endpoints

type hlog struct {
	spec   *evSpec
	blockN uint64
	tx     int64
	index  uint
	vals   []string
	data   []byte
	want   string // rendering demanded by the property (from the case-line values, by ABI name)
}

var zeroNode = map[string]interface{}{
	"LogUrl": onchain.LogUrl{}, "LogRequestUserRandom": onchain.LogRequestUserRandom{}, "LogUpdateRandom": onchain.LogUpdateRandom{},
	"LogValidationResult": onchain.LogValidationResult{}, "LogGroupingInitiated": onchain.LogGroupingInitiated{},
	"LogInsufficientWorkingGroup": onchain.LogInsufficientWorkingGroup{}, "LogInsufficientPendingNode": onchain.LogInsufficientPendingNode{},
	"LogGrouping": onchain.LogGrouping{}, "LogPublicKeyAccepted": onchain.LogPublicKeyAccepted{}, "LogPublicKeySuggested": onchain.LogPublicKeySuggested{},
	"LogGroupDissolve": onchain.LogGroupDissolve{}, "LogStartCommitReveal": onchain.LogStartCommitReveal{}, "LogCommit": onchain.LogCommit{},
	"LogReveal": onchain.LogReveal{}, "LogRandom": onchain.LogRandom{},
}

// wantRendering: what the handlers must receive for this log according to the property: the node event of
// that name whose every field equals the ABI value of the same name.  unmapped = struct fields that have no
// ABI counterpart at all (they cannot be "equal to the ABI-decoded log").
func wantRendering(sp *evSpec, vals []string) (s string, unmapped []string) {
	ev := sp.event()
	// the values are taken from an independent ABI decode of the very bytes that are put on the wire
	if dec, err := ev.Inputs.UnpackValues(pack(sp, vals)); err == nil && len(dec) == len(vals) {
		vals = append([]string(nil), vals...)
		for k := range dec {
			vals[k] = text(dec[k])
		}
	} else {
		panic(fmt.Sprintf("ABI decode of the generated log failed: %v", err))
	}
	zt := reflect.TypeOf(zeroNode[sp.name])
	zv := reflect.New(zt).Elem()
	var parts []string
	for i := 0; i < zt.NumField(); i++ {
		f := zt.Field(i)
		an, ok := renamed[sp.name+"."+f.Name]
		if !ok {
			an = lowerFirst(f.Name)
		}
		t := ""
		found := false
		for k, in := range ev.Inputs {
			if in.Name == an {
				t = vals[k]
				found = true
			}
		}
		if !found {
			unmapped = append(unmapped, sp.name+"."+f.Name)
			t = text(zv.Field(i).Interface())
		}
		parts = append(parts, f.Name+"="+t)
	}
	return sp.name + "{" + strings.Join(parts, ";") + "}", unmapped
}

const markerBase = 2000

// marker values: k = e*32+t for the end marker of (endpoint e, type t), 1000+e*32+t for its start marker
func markerValue(k int) *big.Int {
	v := new(big.Int).Lsh(big.NewInt(1), 256)
	return v.Sub(v, big.NewInt(int64(markerBase-k)))
}

// isMarker: delivered node event whose first *big.Int field is in the reserved range
func isMarker(ev interface{}) (bool, int, int) {
	rv := reflect.ValueOf(ev)
	if rv.Kind() != reflect.Ptr || rv.IsNil() {
		return false, 0, 0
	}
	st := rv.Elem()
	for i := 0; i < st.NumField(); i++ {
		if b, ok := st.Field(i).Interface().(*big.Int); ok {
			if b == nil {
				return false, 0, 0
			}
			top := new(big.Int).Lsh(big.NewInt(1), 256)
			d := new(big.Int).Sub(top, b)
			if d.Cmp(big.NewInt(2)) >= 0 && d.Cmp(big.NewInt(markerBase)) <= 0 {
				k := markerBase - int(d.Int64())
				if k >= 1000 {
					return true, 1000 + (k-1000)/32, (k - 1000) % 32
				}
				return true, k / 32, k % 32
			}
			return false, 0, 0
		}
	}
	return false, 0, 0
}

func markerVals(sp *evSpec, k int) []string {
	var vals []string
	first := true
	for _, in := range sp.event().Inputs {
		switch in.Type.String() {
		case "uint256":
			if first {
				vals = append(vals, markerValue(k).String())
				first = false
			} else {
				vals = append(vals, "0")
			}
		case "uint8":
			vals = append(vals, "0")
		case "string", "bytes", "address[]":
			vals = append(vals, "-")
		case "bool":
			vals = append(vals, "false")
		case "address":
			vals = append(vals, strings.Repeat("00", 20))
		case "uint256[2]":
			vals = append(vals, "0,0")
		case "uint256[4]":
			vals = append(vals, "0,0,0,0")
		case "bytes32":
			vals = append(vals, strings.Repeat("00", 32))
		}
	}
	return vals
}

func pack(sp *evSpec, vals []string) []byte {
	ev := sp.event()
	if len(vals) != len(ev.Inputs) {
		panic(fmt.Sprintf("%s wants %d values, line has %d", sp.name, len(ev.Inputs), len(vals)))
	}
	var args []interface{}
	for k, in := range ev.Inputs {
		args = append(args, parseValue(in.Type, vals[k]))
	}
	data, err := ev.Inputs.Pack(args...)
	if err != nil {
		panic(err)
	}
	return data
}

func (l *hlog) raw(st *chaindouble.Stack, removed bool) types.Log {
	addr := st.Proxy
	if l.spec.cr {
		addr = st.CR
	}
	var bh [32]byte
	binary.BigEndian.PutUint64(bh[24:], l.blockN)
	bh[0] = 0xb1
	return types.Log{Address: addr, Topics: []common.Hash{l.spec.event().ID}, Data: l.data, BlockNumber: l.blockN,
		TxHash: common.BigToHash(big.NewInt(l.tx)), TxIndex: 0, BlockHash: bh, Index: l.index, Removed: removed}
}

// stalledSubs counts full-stack cases in which a subscription never became live or the end markers never came
// (a broken binding / table does that to every such case, each costing a long timeout): after three, the
// remaining ones of the run are not executed.
var stalledSubs int32

func execSub(w []string) (res h.Result) {
	if atomic.LoadInt32(&stalledSubs) >= 3 {
		res.Impl, res.Class = "not-run", "sub-not-run"
		return
	}
	defer func() {
		if strings.HasPrefix(res.Oracle, "harness-subscribe-failed") || strings.HasPrefix(res.Oracle, "delivery-stalled") {
			atomic.AddInt32(&stalledSubs, 1)
		}
	}()
	nws := h.Atoi(w[1])
	var typesL []int
	for _, t := range strings.Split(w[2], ",") {
		typesL = append(typesL, h.Atoi(t))
	}
	var H []*hlog
	if w[3] != "-" {
		for _, ls := range strings.Split(w[3], "|") {
			p := strings.Split(ls, ";")
			sp := specOf(h.Atoi(p[0]))
			if sp == nil {
				panic("no such event index " + p[0])
			}
			var bn uint64
			fmt.Sscanf(p[1], "%d", &bn)
			l := &hlog{spec: sp, blockN: bn, tx: int64(h.Atoi(p[2])), index: parseIndex(p[3]), vals: p[4:]}
			l.data = pack(sp, l.vals)
			var unm []string
			l.want, unm = wantRendering(sp, l.vals)
			if len(unm) > 0 && isSubscribed(sp.idx) && res.Oracle == "" {
				res.Oracle = "field-without-abi-source:" + unm[0]
			}
			H = append(H, l)
		}
	}
	type sitem struct {
		log     int
		removed bool
	}
	var S [][]sitem
	for _, ss := range strings.Split(w[4], "/") {
		var st []sitem
		if ss != "-" {
			for _, it := range strings.Split(ss, ",") {
				r := strings.HasSuffix(it, "r")
				st = append(st, sitem{h.Atoi(strings.TrimSuffix(it, "r")), r})
			}
		}
		S = append(S, st)
	}
	if len(S) != nws {
		panic("stream count != endpoint count")
	}
	dropE, dropPos := -1, 0
	if w[5] != "-" {
		p := strings.Split(w[5], "@")
		dropE, dropPos = h.Atoi(p[0]), h.Atoi(p[1])
	}
	// what the endpoints emit after the failure has been reported and handled
	S2 := make([][]sitem, nws)
	if len(w) > 6 {
		for e, ss := range strings.Split(w[6], "/") {
			if ss != "-" && e < nws {
				for _, it := range strings.Split(ss, ",") {
					r := strings.HasSuffix(it, "r")
					S2[e] = append(S2[e], sitem{h.Atoi(strings.TrimSuffix(it, "r")), r})
				}
			}
		}
	}

	st, err := chaindouble.NewStack(1, nws, big.NewInt(1), 5000000, 1000000000, nil)
	if err != nil {
		res.Impl = "connect-failed"
		res.Oracle = "harness-connect-failed: " + h.OneLine(err.Error())
		return
	}
	defer st.Close()
	events, errc := st.Adaptor.SubscribeEvent(typesL)
	for _, e := range st.WS {
		if !e.WaitSubs(len(typesL)) {
			res.Impl = "subscribe-failed"
			res.Oracle = "harness-subscribe-failed"
			return
		}
	}
	if dropE < 0 {
		go func() {
			for range errc {
			}
		}()
	}
	var delivered []string
	var dmu sync.Mutex
	markers := make(chan [2]int, 256)
	go func() {
		for v := range events {
			if m, e, t := isMarker(v); m {
				markers <- [2]int{e, t}
				continue
			}
			_, _, s := render(v)
			dmu.Lock()
			delivered = append(delivered, s)
			dmu.Unlock()
		}
		close(markers)
	}()
	emitMarkers := func(e, base int) {
		for _, t := range typesL {
			sp := specOf(t)
			m := &hlog{spec: sp, blockN: 9000000 + uint64(e), tx: int64(1000000 + base + e*32 + t), index: 0}
			m.data = pack(sp, markerVals(sp, base+e*32+t))
			st.WS[e].Emit(m.raw(st, false))
		}
	}
	emit := func(e int, items []sitem, dropAt int, end bool) {
		ep := st.WS[e]
		for pos, it := range items {
			if pos == dropAt {
				ep.DropConnections()
				return
			}
			ep.Emit(H[it.log].raw(st, it.removed))
		}
		if dropAt >= 0 {
			ep.DropConnections()
			return
		}
		if end {
			emitMarkers(e, 0)
		}
	}
	// phase 0: every subscription is live at the client (its subscribe response has been processed) before
	// anything is dropped: one start marker per (endpoint, type), all awaited.  (A connection cut while a
	// subscribe call is still in flight leaves that go-ethereum call waiting for ever: nothing to observe.)
	{
		pend := map[[2]int]bool{}
		for e := 0; e < nws; e++ {
			for _, t := range typesL {
				pend[[2]int{1000 + e, t}] = true
			}
			emitMarkers(e, 1000)
		}
		to := time.After(60 * time.Second)
		for len(pend) > 0 {
			select {
			case m := <-markers:
				delete(pend, m)
			case <-to:
				res.Impl, res.Oracle = "subscribe-failed", "harness-subscribe-failed: start markers not delivered"
				return
			}
		}
	}
	// phase 1: all endpoints concurrently; the failing one drops its connections at its position
	var wg sync.WaitGroup
	start := make(chan struct{})
	for e := 0; e < nws; e++ {
		wg.Add(1)
		go func(e int) {
			defer wg.Done()
			<-start
			if e == dropE {
				emit(e, S[e], dropPos, false)
			} else {
				emit(e, S[e], -1, dropE < 0)
			}
		}(e)
	}
	close(start)
	wg.Wait()
	status := "ok"
	var reported []int
	disconnected := map[int]bool{}
	if dropE >= 0 {
		// the consumer of dosnode.onchainLoop: every *OnchainError read from the error channel is answered
		// with DisconnectWs(err.Idx).  Every subscription of the failed endpoint reports one error.
	L:
		for len(reported) < len(typesL) {
			select {
			case err, ok := <-errc:
				if !ok {
					status = "errors-closed"
					break L
				}
				var oe *onchain.OnchainError
				idx := -1
				if errors.As(err, &oe) {
					idx = oe.Idx
				}
				reported = append(reported, idx)
			case <-time.After(60 * time.Second):
				status = "errors-missing"
				break L
			}
		}
		for _, idx := range reported {
			if idx >= 0 && idx < nws {
				st.Adaptor.DisconnectWs(idx)
				disconnected[idx] = true
			}
		}
		go func() {
			for range errc {
			}
		}()
		// phase 2: the surviving endpoints go on
		for e := 0; e < nws; e++ {
			if e == dropE {
				continue
			}
			wg.Add(1)
			go func(e int) {
				defer wg.Done()
				emit(e, S2[e], -1, true)
			}(e)
		}
		wg.Wait()
	}
	// end markers are awaited from every endpoint the consumer has not disconnected
	pending := map[[2]int]bool{}
	for e := 0; e < nws; e++ {
		if e == dropE || disconnected[e] {
			continue
		}
		for _, t := range typesL {
			pending[[2]int{e, t}] = true
		}
	}
	timeout := time.After(60 * time.Second)
	for len(pending) > 0 && status == "ok" {
		select {
		case m, ok := <-markers:
			if !ok {
				status = "closed"
			} else {
				delete(pending, m)
			}
		case <-timeout:
			status = "timeout"
		}
	}
	dmu.Lock()
	defer dmu.Unlock()
	sort.Strings(delivered)
	out := "-"
	if len(delivered) > 0 {
		out = strings.Join(delivered, "|")
	}
	res.Impl = "out " + out
	if dropE >= 0 {
		var rs []string
		for _, r := range reported {
			rs = append(rs, fmt.Sprint(r))
		}
		sort.Strings(rs)
		res.Impl += " errs=" + strings.Join(rs, ",")
		// (a) every report names the endpoint that actually failed: the node disconnects what is reported
		for _, r := range reported {
			if r != dropE && res.Oracle == "" {
				res.Oracle = fmt.Sprintf("error-report-wrong-endpoint: endpoint %d failed, one of its subscriptions reported Idx %d; the node answers with DisconnectWs(%d)", dropE, r, r)
			}
		}
	}
	if status != "ok" {
		res.Impl += " status=" + status
		if res.Oracle == "" {
			res.Oracle = "delivery-stalled: " + status + " waiting for the end markers of the connected endpoints"
		}
	}
	// the property on what the handlers received
	required, optional := map[string]int{}, map[string]int{}
	var onlyRemoved []string
	for j, l := range H {
		req, opt, any := false, false, false
		for e := range S {
			for pos, it := range S[e] {
				if it.log != j {
					continue
				}
				any = true
				if it.removed {
					continue
				}
				if e == dropE {
					if pos < dropPos {
						opt = true
					}
				} else {
					req = true
				}
			}
		}
		for e := range S2 {
			if e == dropE {
				continue
			}
			for _, it := range S2[e] {
				if it.log == j {
					any = true
					if !it.removed {
						req = true // (b) emitted by a surviving endpoint after the failure: must still be delivered
					}
				}
			}
		}
		switch {
		case req:
			required[l.want]++
		case opt:
			optional[l.want]++
		case any:
			onlyRemoved = append(onlyRemoved, l.want)
		}
	}
	if res.Oracle == "" {
		got := map[string]int{}
		for _, d := range delivered {
			got[d]++
		}
		var keys []string
		for k := range required {
			keys = append(keys, k)
		}
		for k := range got {
			if _, ok := required[k]; !ok {
				keys = append(keys, k)
			}
		}
		sort.Strings(keys)
		for _, k := range keys {
			name := k[:strings.Index(k, "{")]
			switch {
			case got[k] < required[k]:
				// is there a delivered value of the same type that is not wanted? then a field differs
				for _, d := range delivered {
					if strings.HasPrefix(d, name+"{") && required[d]+optional[d] == 0 {
						res.Oracle = "field-differs:" + name + "." + firstDiff(k, d) + ": delivered " + clip(d) + " want " + clip(k)
						break
					}
				}
				if res.Oracle == "" {
					res.Oracle = fmt.Sprintf("not-delivered:%s: %d of %d", name, got[k], required[k])
				}
			case got[k] > required[k]+optional[k]:
				if required[k]+optional[k] > 0 {
					res.Oracle = fmt.Sprintf("delivered-twice:%s: %d deliveries of %d distinct logs", name, got[k], required[k]+optional[k])
				} else {
					rem := false
					for _, r := range onlyRemoved {
						if r == k {
							rem = true
						}
					}
					if rem {
						res.Oracle = "removed-log-delivered:" + name
					} else {
						res.Oracle = "unexpected-delivery:" + name + ": " + clip(k)
					}
				}
			}
			if res.Oracle != "" {
				break
			}
		}
	}
	res.Class = fmt.Sprintf("sub-ws%d-drop%v", nws, dropE >= 0)
	res.Nontrivial = nws > 1 || len(H) > 0
	return
}

// ent <log> <removed>: one table entry run directly (hook VerifProxyEntry / VerifCrEntry) on a websocket
// endpoint: the *LogCommon it puts on its channel must carry the transaction hash, block number, removed
// flag and raw log of the log that was emitted.
func execEnt(w []string) (res h.Result) {
	p := strings.Split(w[1], ";")
	sp := specOf(h.Atoi(p[0]))
	if sp == nil {
		panic("no such event index " + p[0])
	}
	var bn uint64
	fmt.Sscanf(p[1], "%d", &bn)
	l := &hlog{spec: sp, blockN: bn, tx: int64(h.Atoi(p[2])), index: parseIndex(p[3]), vals: p[4:]}
	l.data = pack(sp, l.vals)
	removed := w[2] == "1"
	res.Class = "ent-" + sp.name
	res.Nontrivial = true

	ep := chaindouble.New("ws", big.NewInt(1))
	defer ep.Close()
	cl, err := ethclient.Dial(ep.WS())
	if err != nil {
		res.Impl, res.Oracle = "dial-failed", "harness-dial-failed: "+err.Error()
		return
	}
	defer cl.Close()
	st := &chaindouble.Stack{Proxy: common.HexToAddress("0x1111111111111111111111111111111111111111"), CR: common.HexToAddress("0x2222222222222222222222222222222222222222")}
	ctx, cancel := context.WithCancel(context.Background())
	defer cancel()
	var out chan interface{}
	var errc chan error
	if sp.cr {
		c, err := commitreveal.NewCommitreveal(st.CR, cl)
		if err != nil {
			panic(err)
		}
		f := onchain.VerifCrEntry(sp.idx)
		if f == nil {
			res.Impl = "no-entry"
			return
		}
		out, errc = f(ctx, &commitreveal.CommitrevealSession{Contract: c})
	} else {
		c, err := dosproxy.NewDosproxy(st.Proxy, cl)
		if err != nil {
			panic(err)
		}
		f := onchain.VerifProxyEntry(sp.idx)
		if f == nil {
			res.Impl = "no-entry"
			return
		}
		out, errc = f(ctx, &dosproxy.DosproxySession{Contract: c})
	}
	go func() {
		for range errc {
		}
	}()
	if !ep.WaitSubs(1) {
		res.Impl, res.Oracle = "subscribe-failed", "harness-subscribe-failed"
		return
	}
	raw := l.raw(st, removed)
	ep.Emit(raw)
	var v interface{}
	select {
	case v = <-out:
	case <-time.After(60 * time.Second):
		res.Impl, res.Oracle = "timeout", "delivery-stalled: table entry produced nothing"
		return
	}
	lc, ok := v.(*onchain.LogCommon)
	if !ok {
		res.Impl = fmt.Sprintf("?%T", v)
		res.Oracle = "entry-sent-not-a-LogCommon"
		return
	}
	same := "same"
	if !reflect.DeepEqual(lc.Raw, raw) {
		same = "differs"
	}
	res.Impl = fmt.Sprintf("Tx=%s BlockN=%d Removed=%v Raw=%s", lc.Tx, lc.BlockN, lc.Removed, same)
	switch {
	case lc.Tx != raw.TxHash.Hex():
		res.Oracle = "logcommon-tx-differs: " + lc.Tx + " want " + raw.TxHash.Hex()
	case lc.BlockN != raw.BlockNumber:
		res.Oracle = fmt.Sprintf("logcommon-blockn-differs: %d want %d", lc.BlockN, raw.BlockNumber)
	case lc.Removed != removed:
		res.Oracle = "logcommon-removed-flag-differs"
	case same != "same":
		res.Oracle = "logcommon-raw-differs"
	}
	return
}

func clip(s string) string {
	if len(s) > 200 {
		return s[:200] + "…"
	}
	return s
}

func firstDiff(a, b string) string {
	pa := strings.Split(strings.TrimSuffix(a[strings.Index(a, "{")+1:], "}"), ";")
	pb := strings.Split(strings.TrimSuffix(b[strings.Index(b, "{")+1:], "}"), ";")
	for i := range pa {
		if i >= len(pb) || pa[i] != pb[i] {
			return strings.SplitN(pa[i], "=", 2)[0]
		}
	}
	return "?"
}

func exec(line string) (res h.Result) {
	silence()
	w := strings.Fields(line)
	switch w[0] {
	case "fe":
		return execFE(w)
	case "mg":
		return execMG(w)
	case "tw":
		return execTW(w)
	case "sub":
		return execSub(w)
	case "ent":
		return execEnt(w)
	case "al":
		return execAL(w)
	}
	panic("bad case line")
}
